/-
C03 (session 3)  text layer of the tag codecs: JSON string escaping / json.loads, JSON documents of
JSONTagWriter (compact and verbose), ASCII line layer, CRLF files, recover loader, packed tags.
Models: Model/JsonTags.lean, Model/AsciiTags.lean.  `private theorem` = helper lemma.
-/
import EzdxfVerif.Props.C03
import EzdxfVerif.Model.JsonTags

namespace EzdxfVerif.Props.C03Text
open EzdxfVerif.Codec EzdxfVerif.AsciiTags EzdxfVerif.JsonTags EzdxfVerif.Props.C03

/-! ## JSON strings: `json.loads(json.dumps(s))` -/

/-- code points of a Python string -/
def StrOK (s : List Nat) : Prop := ∀ c ∈ s, c < 0x110000

private theorem unhex_hexLower (n : Nat) (h : n < 16) : unhexDigit (hexLower n) = some n := by
  unfold hexLower unhexDigit
  split
  · have : 48 ≤ 48 + n ∧ 48 + n ≤ 57 := by omega
    simp [this]
  · have h1 : ¬ (48 ≤ 87 + n ∧ 87 + n ≤ 57) := by omega
    have h2 : ¬ (65 ≤ 87 + n ∧ 87 + n ≤ 70) := by omega
    have h3 : 97 ≤ 87 + n ∧ 87 + n ≤ 102 := by omega
    simp only [h1, h2, h3, and_self, ↓reduceIte, Option.some.injEq]
    omega

/-- the items the decoder's lexer produces for the escape of one code point -/
def itemsOf (c : Nat) : List Item :=
  if isPlain c then [.lit c]
  else match shortEsc c with
    | some _ => [.lit c]
    | none => if c < 0x10000 then [.unit c] else [.unit (hiOf c), .unit (loOf c)]

private theorem lexStr_unit (u : Nat) (hu : u < 65536) (rest : List Nat) :
    lexStr (escUnit u ++ rest) = consItem (.unit u) (lexStr rest) := by
  unfold escUnit hex4
  rw [lexStr.eq_def]
  simp only [List.cons_append, List.nil_append]
  have e1 := unhex_hexLower (u / 4096 % 16) (Nat.mod_lt _ (by decide))
  have e2 := unhex_hexLower (u / 256 % 16) (Nat.mod_lt _ (by decide))
  have e3 := unhex_hexLower (u / 16 % 16) (Nat.mod_lt _ (by decide))
  have e4 := unhex_hexLower (u % 16) (Nat.mod_lt _ (by decide))
  simp only [show (92 : Nat) ≠ 34 by decide, ↓reduceIte, e1, e2, e3, e4]
  have : u / 4096 % 16 * 4096 + u / 256 % 16 * 256 + u / 16 % 16 * 16 + u % 16 = u := by omega
  rw [this]

private theorem unShort_shortEsc (c e : Nat) (h : shortEsc c = some e) : unShort e = some c ∧ e ≠ 117 := by
  unfold shortEsc at h
  repeat' split at h
  all_goals first
    | (cases h; subst_vars; exact ⟨by decide, by decide⟩)
    | cases h

private theorem lexStr_escChar (c : Nat) (hc : c < 0x110000) (rest : List Nat) :
    ∃ its, itemsOf c = its ∧
      lexStr (escChar c ++ rest) = (lexStr rest).map (fun p => (its ++ p.1, p.2)) := by
  unfold escChar itemsOf
  by_cases hp : isPlain c = true
  · simp only [hp, ↓reduceIte]
    refine ⟨_, rfl, ?_⟩
    simp only [isPlain, Bool.and_eq_true, decide_eq_true_eq, bne_iff_ne, ne_eq] at hp
    rw [lexStr.eq_def]
    simp only [List.cons_append, List.nil_append]
    have h1 : c ≠ 34 := hp.1.2
    have h2 : c ≠ 92 := hp.2
    have h3 : ¬ c < 32 := by omega
    simp only [h1, h2, h3, ↓reduceIte, consItem]
  · simp only [hp, Bool.false_eq_true, ↓reduceIte]
    cases hs : shortEsc c with
    | some e =>
      refine ⟨_, rfl, ?_⟩
      obtain ⟨hu, hne⟩ := unShort_shortEsc c e hs
      rw [lexStr.eq_def]
      simp only [List.cons_append, List.nil_append, show (92 : Nat) ≠ 34 by decide, ↓reduceIte, hne, hu,
        consItem]
    | none =>
      simp only
      split
      · rename_i hlt
        refine ⟨_, rfl, ?_⟩
        rw [lexStr_unit c (by omega) rest]
        simp only [consItem]
        cases lexStr rest <;> simp
      · rename_i hge
        refine ⟨_, rfl, ?_⟩
        have h1 : hiOf c < 65536 := by unfold hiOf; omega
        have h2 : loOf c < 65536 := by unfold loOf; omega
        rw [List.append_assoc, lexStr_unit _ h1, lexStr_unit _ h2]
        simp only [consItem]
        cases lexStr rest <;> simp

/-- phase 1: the lexer reads back, item for item, what `json.dumps` wrote -/
private theorem lexStr_escape (s : List Nat) (hs : StrOK s) (rest : List Nat) :
    lexStr (escape s ++ 34 :: rest) = some (s.flatMap itemsOf, rest) := by
  induction s with
  | nil => rw [lexStr.eq_def]; simp [escape]
  | cons c r ih =>
    have hc := hs c (by simp)
    have hr : StrOK r := fun x hx => hs x (by simp [hx])
    obtain ⟨its, hit, hl⟩ := lexStr_escChar c hc (escape r ++ 34 :: rest)
    have : escape (c :: r) ++ 34 :: rest = escChar c ++ (escape r ++ 34 :: rest) := by
      simp [escape]
    rw [this, hl, ih hr]
    simp [hit]

/-! phase 2: surrogate pairs -/

def headLo : List Item → Bool
  | .unit v :: _ => isLo v
  | _ => false

private theorem combine_unit (u : Nat) (l : List Item) (h : ¬ (isHi u = true ∧ headLo l = true)) :
    combine (.unit u :: l) = u :: combine l := by
  cases l with
  | nil => simp [combine]
  | cons i r =>
    cases i with
    | lit c => simp [combine]
    | unit v =>
      simp only [headLo] at h
      have : (isHi u && isLo v) = false := by
        cases h1 : isHi u <;> cases h2 : isLo v <;> simp_all
      simp [combine, this]

private theorem itemsOf_cases (c : Nat) (hc : c < 0x110000) :
    (itemsOf c = [.lit c] ∧ isHi c = false ∧ isLo c = false) ∨
    (itemsOf c = [.unit c] ∧ c < 0x10000) ∨
    (itemsOf c = [.unit (hiOf c), .unit (loOf c)] ∧ 0x10000 ≤ c) := by
  unfold itemsOf
  by_cases hp : isPlain c = true
  · left
    simp only [hp, ↓reduceIte, true_and]
    simp only [isPlain, Bool.and_eq_true, decide_eq_true_eq] at hp
    simp only [isHi, isLo, Bool.and_eq_false_iff, decide_eq_false_iff_not]
    omega
  · simp only [hp, Bool.false_eq_true, ↓reduceIte]
    cases hs : shortEsc c with
    | some e =>
      left
      simp only [true_and]
      have : c < 100 := by
        unfold shortEsc at hs
        repeat' split at hs
        all_goals first | omega | cases hs
      simp only [isHi, isLo, Bool.and_eq_false_iff, decide_eq_false_iff_not]
      omega
    | none =>
      simp only
      by_cases hlt : c < 0x10000
      · right; left; simp [hlt]
      · right; right; simp [hlt]; omega

private theorem headLo_items (d : Nat) (hd : d < 0x110000) (l : List Item)
    (h : headLo (itemsOf d ++ l) = true) : isLo d = true := by
  rcases itemsOf_cases d hd with ⟨e, _, _⟩ | ⟨e, _⟩ | ⟨e, hge⟩
  · rw [e] at h; simp [headLo] at h
  · rw [e] at h; simpa [headLo] using h
  · rw [e] at h
    simp only [List.cons_append, headLo, isLo, hiOf, Bool.and_eq_true, decide_eq_true_eq] at h
    omega

private theorem combine_itemsOf (c : Nat) (hc : c < 0x110000) (l : List Item)
    (h : ¬ (isHi c = true ∧ headLo l = true)) : combine (itemsOf c ++ l) = c :: combine l := by
  rcases itemsOf_cases c hc with ⟨e, _, _⟩ | ⟨e, _⟩ | ⟨e, hge⟩
  · rw [e]; simp [combine]
  · rw [e]; exact combine_unit c l h
  · rw [e]
    have h1 : isHi (hiOf c) = true := by
      unfold isHi hiOf
      rw [Bool.and_eq_true]
      exact ⟨decide_eq_true (by omega), decide_eq_true (by omega)⟩
    have h2 : isLo (loOf c) = true := by
      unfold isLo loOf
      rw [Bool.and_eq_true]
      exact ⟨decide_eq_true (by omega), decide_eq_true (by omega)⟩
    simp only [List.cons_append, List.nil_append, combine, h1, h2, Bool.and_self, ↓reduceIte,
      List.cons.injEq, and_true]
    unfold hiOf loOf
    omega

private theorem combine_items (s : List Nat) (hs : StrOK s) : combine (s.flatMap itemsOf) = mergePairs s := by
  fun_induction mergePairs s with
  | case1 => rfl
  | case2 c =>
    have := combine_itemsOf c (hs c (by simp)) [] (by simp [headLo])
    simpa [combine] using this
  | case3 c d r h ih =>
    have hr : StrOK r := fun x hx => hs x (by simp [hx])
    simp only [Bool.and_eq_true] at h
    have hc := hs c (by simp)
    have hd := hs d (by simp)
    have ec : itemsOf c = [.unit c] := by
      rcases itemsOf_cases c hc with ⟨_, e, _⟩ | ⟨e, _⟩ | ⟨_, hge⟩
      · rw [h.1] at e; cases e
      · exact e
      · have := h.1; simp only [isHi, Bool.and_eq_true, decide_eq_true_eq] at this; omega
    have ed : itemsOf d = [.unit d] := by
      rcases itemsOf_cases d hd with ⟨_, _, e⟩ | ⟨e, _⟩ | ⟨_, hge⟩
      · rw [h.2] at e; cases e
      · exact e
      · have := h.2; simp only [isLo, Bool.and_eq_true, decide_eq_true_eq] at this; omega
    simp only [List.flatMap_cons, ec, ed, List.cons_append, List.nil_append, combine, h.1, h.2,
      Bool.and_self, ↓reduceIte, ih hr]
  | case4 c d r h ih =>
    have hr : StrOK (d :: r) := fun x hx => hs x (by simp [hx])
    have hc := hs c (by simp)
    have hd := hs d (by simp)
    rw [List.flatMap_cons, combine_itemsOf c hc, ih hr]
    intro ⟨h1, h2⟩
    rw [List.flatMap_cons] at h2
    have := headLo_items d hd _ h2
    simp [h1, this] at h

/-- what `json.loads` reads from the text `json.dumps(s)` wrote, for EVERY Python string `s` (control
    characters, quotes, backslashes, non-BMP characters, lone surrogates included): the string itself
    except that a high surrogate code point directly followed by a low surrogate code point (two
    separate characters of the Python string) comes back as ONE non-BMP character -/
theorem json_string_general (s : List Nat) (hs : StrOK s) (rest : List Nat) :
    scanStr (escape s ++ 34 :: rest) = some (mergePairs s, rest) := by
  unfold scanStr
  rw [lexStr_escape s hs rest]
  simp [combine_items s hs]

/-- no high surrogate is directly followed by a low surrogate -/
def NoSurrPair : List Nat → Prop
  | [] => True
  | [_] => True
  | c :: d :: r => ¬ (isHi c = true ∧ isLo d = true) ∧ NoSurrPair (d :: r)

theorem mergePairs_id (s : List Nat) (h : NoSurrPair s) : mergePairs s = s := by
  fun_induction mergePairs s with
  | case1 => rfl
  | case2 c => rfl
  | case3 c d r hc ih =>
    simp only [Bool.and_eq_true] at hc
    exact absurd hc h.1
  | case4 c d r hc ih => rw [ih h.2]

/-- JSON string round trip: every string without an adjacent (high, low) surrogate pair — in
    particular every string of Unicode scalar values and every string with `surrogateescape`d bytes
    (U+DC80..U+DCFF only) — is read back unchanged -/
theorem json_string_roundtrip (s : List Nat) (hs : StrOK s) (hp : NoSurrPair s) (rest : List Nat) :
    scanStr (escape s ++ 34 :: rest) = some (s, rest) := by
  rw [json_string_general s hs rest, mergePairs_id s hp]

/-- what the code does with a string that holds a surrogate PAIR as two code points: the two become
    one character (U+D83D U+DE00 -> U+1F600); `NoSurrPair` is exactly the guard -/
theorem json_surrogate_pair_merges :
    escape [0xD83D, 0xDE00] = escape [0x1F600] ∧
    scanStr (escape [0xD83D, 0xDE00] ++ [34]) = some ([0x1F600], []) := by
  constructor
  · decide
  · rw [json_string_general _ (by intro c hc; simp at hc; omega)]; rfl

-- non-vacuity: quotes, backslash, control characters, DEL, non-BMP, lone surrogates (low first, then high)
example : StrOK [34, 92, 0, 10, 31, 127, 233, 0x1F600, 0xDC80, 0xD800, 65] ∧
    NoSurrPair [34, 92, 0, 10, 31, 127, 233, 0x1F600, 0xDC80, 0xD800, 65] := by
  constructor
  · intro c hc; simp at hc; omega
  · simp [NoSurrPair, isHi, isLo]
#guard scanStr (escape [34, 92, 0, 10, 31, 127, 233, 0x1F600, 0xDC80, 0xD800, 65] ++ [34, 44]) ==
  some ([34, 92, 0, 10, 31, 127, 233, 0x1F600, 0xDC80, 0xD800, 65], [44])
#guard escape [34, 92, 10, 0x1F600] == "\\\"\\\\\\n\\ud83d\\ude00".toList.map Char.toNat

/-! ## JSON numbers -/

/-- the character after a value inside an array: `,` or `]` -/
def StopC (rest : List Nat) : Prop := ∃ c r, rest = c :: r ∧ (c = 44 ∨ c = 93)

private theorem natDigits_ne_nil' (n : Nat) : natDigits n ≠ [] := by
  fun_induction natDigits n <;> simp

private theorem natDigits_digits (n : Nat) : ∀ c ∈ natDigits n, isDig c = true := by
  fun_induction natDigits n with
  | case1 n h => intro c hc; simp [digitChar] at hc; subst hc; simp [isDig]; omega
  | case2 n h ih =>
    intro c hc
    simp only [List.mem_append, List.mem_cons, List.not_mem_nil, or_false, digitChar] at hc
    rcases hc with hc | hc
    · exact ih c hc
    · subst hc; simp [isDig]; omega

private theorem natDigits_lead (n : Nat) : ∀ d ds, natDigits n = d :: ds → d = 48 → n = 0 ∧ ds = [] := by
  fun_induction natDigits n with
  | case1 n h =>
    intro d ds e hd
    simp only [digitChar, List.cons.injEq] at e
    obtain ⟨e1, e2⟩ := e
    exact ⟨by omega, e2.symm⟩
  | case2 n h ih =>
    intro d ds e hd
    cases hq : natDigits (n / 10) with
    | nil => exact absurd hq (natDigits_ne_nil' _)
    | cons d' ds' =>
      rw [hq] at e
      simp only [List.cons_append, List.cons.injEq] at e
      have := (ih d' ds' hq (by omega)).1
      omega

private theorem decVal_append (a : List Nat) (x : Nat) : decVal (a ++ [x]) = decVal a * 10 + (x - 48) := by
  simp [decVal, List.foldl_append]

private theorem decVal_natDigits (n : Nat) : decVal (natDigits n) = n := by
  fun_induction natDigits n with
  | case1 n h => simp [decVal, digitChar]
  | case2 n h ih => rw [decVal_append, ih]; simp only [digitChar]; omega

private theorem takeWhile_stop (p : Nat → Bool) (ds rest : List Nat) (hd : ∀ c ∈ ds, p c = true)
    (hr : ∀ c r, rest = c :: r → p c = false) :
    (ds ++ rest).takeWhile p = ds ∧ (ds ++ rest).dropWhile p = rest := by
  induction ds with
  | nil =>
    cases rest with
    | nil => simp
    | cons c r => simp [hr c r rfl]
  | cons d r ih =>
    have hdd := hd d (by simp)
    have := ih (fun c hc => hd c (by simp [hc]))
    simp [hdd, this.1, this.2]

private theorem fracPart_stop (rest : List Nat) (h : ∀ c r, rest = c :: r → c ≠ 46) : fracPart rest = ([], rest) := by
  unfold fracPart
  split
  · rename_i p d r
    have := h p _ rfl
    simp [this]
  · rfl

private theorem expPart_stop (rest : List Nat) (h : ∀ c r, rest = c :: r → c ≠ 101 ∧ c ≠ 69) :
    expPart rest = ([], rest) := by
  unfold expPart
  split
  · rename_i e r
    have := h e r rfl
    simp [this.1, this.2]
  · rfl

private theorem scanDigits (neg : Bool) (n : Nat) (rest : List Nat) (hs : StopC rest) :
    scanCore neg (natDigits n ++ rest) = some (.int (if neg then -(n : Int) else (n : Int)), rest) := by
  obtain ⟨sc, sr, hrest, hsc⟩ := hs
  have hdig := natDigits_digits n
  have hne := natDigits_ne_nil' n
  have hstopd : ∀ c r, rest = c :: r → isDig c = false := by
    intro c r e; rw [hrest] at e; cases e; rcases hsc with h | h <;> subst h <;> decide
  have hfr := fracPart_stop rest (by intro c r e; rw [hrest] at e; cases e; omega)
  have hex := expPart_stop rest (by intro c r e; rw [hrest] at e; cases e; omega)
  cases hq : natDigits n with
  | nil => exact absurd hq hne
  | cons d ds =>
    have hd : isDig d = true := hdig d (by simp [hq])
    have hds : ∀ c ∈ ds, isDig c = true := fun c hc => hdig c (by simp [hq, hc])
    have htw := takeWhile_stop isDig ds rest hds hstopd
    have hval := decVal_natDigits n
    rw [hq] at hval
    unfold scanCore
    simp only [List.cons_append, hd, Bool.not_true, Bool.false_eq_true, ↓reduceIte]
    by_cases h48 : d = 48
    · obtain ⟨hn, hdsn⟩ := natDigits_lead n d ds hq h48
      subst hdsn
      simp only [h48, ↓reduceIte, List.nil_append, hfr, hex, List.isEmpty_nil, Bool.and_self]
      rw [h48] at hval
      simp [hval]
    · simp only [h48, ↓reduceIte, htw.1, htw.2, hfr, hex, List.isEmpty_nil, Bool.and_self, hval]

/-- `json.loads` reads the decimal text of ANY Python int back as that int (JSON ints are unbounded:
    no width hypothesis is needed in the JSON formats) -/
theorem json_int_roundtrip (v : Int) (rest : List Nat) (hs : StopC rest) :
    scanNumber (showInt v ++ rest) = some (.int v, rest) := by
  unfold showInt
  split
  · rename_i hneg
    simp only [List.cons_append, scanNumber, ↓reduceIte]
    rw [scanDigits true v.natAbs rest hs]
    simp only [↓reduceIte, Option.some.injEq, Prod.mk.injEq, Num.int.injEq, and_true]
    omega
  · rename_i hpos
    have hne := natDigits_ne_nil' v.natAbs
    have hdig := natDigits_digits v.natAbs
    have := scanDigits false v.natAbs rest hs
    cases hq : natDigits v.natAbs with
    | nil => exact absurd hq hne
    | cons d ds =>
      have hdd : isDig d = true := hdig d (by simp [hq])
      have hd45 : d ≠ 45 := by simp [isDig] at hdd; omega
      rw [hq] at this
      simp only [List.cons_append, scanNumber, hd45, ↓reduceIte]
      simp only [List.cons_append] at this
      rw [this]
      simp only [Bool.false_eq_true, ↓reduceIte, Option.some.injEq, Prod.mk.injEq, Num.int.injEq, and_true]
      omega

example : StopC [93, 44, 10] := ⟨93, [44, 10], rfl, Or.inr rfl⟩
#guard scanNumber ("-9223372036854775809]".toList.map Char.toNat) == some (.int (-9223372036854775809), [93])
#guard scanNumber ("1e+16,".toList.map Char.toNat) == some (.flt ("1e+16".toList.map Char.toNat), [44])
#guard scanNumber ("-0.0]".toList.map Char.toNat) == some (.flt ("-0.0".toList.map Char.toNat), [93])

/-! ## value typing of `tag_compiler` undoes the writers' value formatting -/

def mapT {α β : Type} (f : α → β) : CTag α → CTag β
  | .single c v => .single c (f v)
  | .point c xs => .point c (xs.map f)

private theorem flattenPt_map {α β : Type} (f : α → β) (c : Nat) (xs : List α) (i : Nat) :
    flattenPt c (xs.map f) i = (flattenPt c xs i).map (fun p => (p.1, f p.2)) := by
  induction xs generalizing i with
  | nil => rfl
  | cons x r ih => simp [flattenPt, ih]

private theorem flatten_map {α β : Type} (f : α → β) (ts : List (CTag α)) :
    flatten (ts.map (mapT f)) = (flatten ts).map (fun p => (p.1, f p.2)) := by
  induction ts with
  | nil => rfl
  | cons t r ih =>
    cases t with
    | single c v => simp [flatten, mapT, ih]
    | point c xs => simp [flatten, mapT, ih, flattenPt_map]

private theorem pointWF_map {α β : Type} (f : α → β) (isPt : Nat → Bool) (ts : List (CTag α))
    (h : PointWF isPt ts) : PointWF isPt (ts.map (mapT f)) := by
  induction ts with
  | nil => trivial
  | cons t r ih =>
    cases t with
    | single c v => exact ⟨h.1, ih h.2⟩
    | point c xs =>
      obtain ⟨h1, h2, h3, h4⟩ := h
      refine ⟨h1, by simpa using h2, ?_, ih h4⟩
      intro hl
      have := h3 (by simpa using hl)
      cases r with
      | nil => trivial
      | cons t2 r2 => cases t2 <;> simpa [mapT] using this

/-- the Python object the loader delivers for a value: always its text in the ASCII and the verbose
    JSON format; in the compact JSON format ints and floats stay numbers -/
def rawOf (fmt : Nat → List Nat) (compact : Bool) : Val → Raw
  | .str s => .str s
  | .int v => if compact then .int v else .str (showInt v)
  | .dbl b => if compact && isFiniteBits b then .flt (fmt b) else .str (fmt b)
  | .bin d => .str (hexlify d)

/-- the text of a double: `repr` round trips through `float()` and consists of printable, non-blank
    ASCII characters (digits, sign, point, exponent letter; `inf`/`nan` included) -/
structure FloatText (fmt : Nat → List Nat) (parse : List Nat → Option Nat) (Fin : Nat → Prop) : Prop where
  rt : ∀ b, Fin b → parse (fmt b) = some b
  ascii : ∀ b, Fin b → ∀ c ∈ fmt b, 33 ≤ c ∧ c < 127 ∧ c ≠ 34 ∧ c ≠ 92
  nonempty : ∀ b, Fin b → fmt b ≠ []

/-- a value of the type its group code prescribes (`Fin` = the doubles the float text covers) -/
def ClsOK (Fin : Nat → Prop) (c : Nat) : Val → Prop
  | .bin d => isBinary c = true ∧ ∀ b ∈ d, b < 256
  | .dbl b => isBinary c = false ∧ isDouble c = true ∧ Fin b
  | .int _ => isBinary c = false ∧ isDouble c = false ∧ isIntCode c = true
  | .str s => isBinary c = false ∧ isDouble c = false ∧ isIntCode c = false ∧ (c = 0 → strip s = s)

private theorem dropWhile_none (p : Nat → Bool) (l : List Nat) (h : ∀ c ∈ l, p c = false) : l.dropWhile p = l := by
  cases l with
  | nil => rfl
  | cons a r => simp [List.dropWhile, h a (by simp)]

private theorem stripP_none (p : Nat → Bool) (l : List Nat) (h : ∀ c ∈ l, p c = false) : stripP p l = l := by
  unfold stripP rstripP
  rw [dropWhile_none p l h, dropWhile_none p l.reverse (by intro c hc; exact h c (by simpa using hc))]
  simp

private theorem rstripP_none (p : Nat → Bool) (l : List Nat) (h : ∀ c ∈ l, p c = false) : rstripP p l = l := by
  unfold rstripP
  rw [dropWhile_none p l.reverse (by intro c hc; exact h c (by simpa using hc))]
  simp

private theorem showInt_chars (v : Int) : ∀ c ∈ showInt v, c = 45 ∨ isDig c = true := by
  intro c hc
  unfold showInt at hc
  split at hc
  · simp only [List.mem_cons] at hc
    rcases hc with hc | hc
    · exact Or.inl hc
    · exact Or.inr (natDigits_digits _ c hc)
  · exact Or.inr (natDigits_digits _ c hc)

private theorem notSpace_of_printable (c : Nat) (h : 33 ≤ c ∧ c < 127) : isSpaceNum c = false := by
  simp only [isSpaceNum, isSpaceB, Bool.or_eq_false_iff, Bool.and_eq_false_iff, beq_eq_false_iff_ne,
    decide_eq_false_iff_not]
  omega

private theorem pyIntWs_showInt (v : Int) : pyIntWs (showInt v) = some v := by
  unfold pyIntWs
  have h : ∀ c ∈ showInt v, isSpaceNum c = false := by
    intro c hc
    apply notSpace_of_printable
    rcases showInt_chars v c hc with h | h
    · omega
    · simp [isDig] at h; omega
  rw [rstripP_none _ _ h, dropWhile_none _ _ h]
  exact parseInt_showInt v

private theorem toFloat_raw {fmt : Nat → List Nat} {parse : List Nat → Option Nat} {Fin : Nat → Prop}
    (ft : FloatText fmt parse Fin) (compact : Bool) (b : Nat) (hb : Fin b) :
    toFloat parse (rawOf fmt compact (.dbl b)) = .ok (.dbl b) := by
  have hs : stripNum (fmt b) = fmt b :=
    stripP_none _ _ (fun c hc => notSpace_of_printable c ⟨(ft.ascii b hb c hc).1, (ft.ascii b hb c hc).2.1⟩)
  cases compact <;> cases hf : isFiniteBits b <;> simp [rawOf, hf, toFloat, hs, ft.rt b hb]

/-- typing a single tag gives back the value the writer formatted, in every text format -/
theorem typeSingle_raw {fmt : Nat → List Nat} {parse : List Nat → Option Nat} {Fin : Nat → Prop}
    (ft : FloatText fmt parse Fin) (compact : Bool) (c : Nat) (v : Val) (h : ClsOK Fin c v) :
    typeSingle parse c (rawOf fmt compact v) = .ok v := by
  cases v with
  | bin d =>
    obtain ⟨h1, h2⟩ := h
    simp [typeSingle, rawOf, h1, unhex_hex d h2]
  | dbl b =>
    obtain ⟨h1, h2, h3⟩ := h
    have := toFloat_raw ft compact b h3
    simp only [typeSingle, h1, h2, Bool.false_eq_true, ↓reduceIte, this]
  | int i =>
    obtain ⟨h1, h2, h3⟩ := h
    cases compact <;> simp [typeSingle, rawOf, h1, h2, h3, pyIntWs_showInt]
  | str s =>
    obtain ⟨h1, h2, h3, h4⟩ := h
    simp only [typeSingle, rawOf, h1, h2, h3, Bool.false_eq_true, ↓reduceIte]
    by_cases hc : c = 0
    · simp [hc, h4 hc]
    · simp [hc]

def PtOK (Fin : Nat → Prop) (xs : List Val) : Prop := ∀ x ∈ xs, ∃ b, x = .dbl b ∧ Fin b

private theorem typePoint_raw {fmt : Nat → List Nat} {parse : List Nat → Option Nat} {Fin : Nat → Prop}
    (ft : FloatText fmt parse Fin) (compact : Bool) (xs : List Val) (h : PtOK Fin xs) :
    typePoint parse (xs.map (rawOf fmt compact)) = .ok xs := by
  induction xs with
  | nil => rfl
  | cons x r ih =>
    obtain ⟨b, hb, hf⟩ := h x (by simp)
    have hr := ih (fun y hy => h y (by simp [hy]))
    subst hb
    simp only [List.map_cons, typePoint, toFloat_raw ft compact b hf, hr, bind, Except.bind]

/-- per-tag hypothesis of the text round trips -/
def TagTyped (Fin : Nat → Prop) : CTag Val → Prop
  | .single c v => ClsOK Fin c v
  | .point _ xs => PtOK Fin xs

private theorem typeAll_raw {fmt : Nat → List Nat} {parse : List Nat → Option Nat} {Fin : Nat → Prop}
    (ft : FloatText fmt parse Fin) (compact : Bool) (ts : List (CTag Val)) (h : ∀ t ∈ ts, TagTyped Fin t) :
    typeAll parse (ts.map (mapT (rawOf fmt compact))) = .ok ts := by
  induction ts with
  | nil => rfl
  | cons t r ih =>
    have hr := ih (fun y hy => h y (by simp [hy]))
    have ht := h t (by simp)
    cases t with
    | single c v =>
      simp only [List.map_cons, mapT, typeAll, typeTag, typeSingle_raw ft compact c v ht, hr, bind,
        Except.bind, Functor.map, Except.map]
    | point c xs =>
      simp only [List.map_cons, mapT, typeAll, typeTag, typePoint_raw ft compact xs ht, hr, bind,
        Except.bind, Functor.map, Except.map]

/-- `tag_compiler` on the loader's raw tags of a written tag list gives back the tag list -/
theorem tagCompile_raw {fmt : Nat → List Nat} {parse : List Nat → Option Nat} {Fin : Nat → Prop}
    (ft : FloatText fmt parse Fin) (compact : Bool) (ts : List (CTag Val))
    (hp : PointWF isPoint ts) (h : ∀ t ∈ ts, TagTyped Fin t) :
    tagCompile parse ((flatten ts).map (fun p => (p.1, rawOf fmt compact p.2))) = .ok ts := by
  unfold tagCompile
  rw [← flatten_map, points_roundtrip isPoint _ (pointWF_map _ _ _ hp)]
  exact typeAll_raw ft compact ts h

/-! ## ASCII line layer: `ascii_tags_loader(readline)` reads what `TagWriter` wrote -/

private theorem readLinesAux_line (acc a rest : List Nat) (h : ∀ c ∈ a, c ≠ 10) :
    readLinesAux acc (a ++ 10 :: rest) = (acc.reverse ++ a ++ [10]) :: readLinesAux [] rest := by
  induction a generalizing acc with
  | nil => simp [readLinesAux]
  | cons c r ih =>
    have hc := h c (by simp)
    have := ih (c :: acc) (fun x hx => h x (by simp [hx]))
    simp only [List.cons_append, readLinesAux, hc, ↓reduceIte, this, List.reverse_cons, List.append_assoc,
      List.nil_append]

/-- `readline()` returns the text up to and including the next LF -/
theorem readLines_line (a rest : List Nat) (h : ∀ c ∈ a, c ≠ 10) :
    readLines (a ++ 10 :: rest) = (a ++ [10]) :: readLines rest := by
  unfold readLines
  rw [readLinesAux_line [] a rest h]; simp

private theorem rstripP_snoc_true (p : Nat → Bool) (a : List Nat) (x : Nat) (h : p x = true) :
    rstripP p (a ++ [x]) = rstripP p a := by
  simp [rstripP, h]

private theorem showCode_split (c : Nat) : ∃ k, showCode c = List.replicate k 32 ++ natDigits c :=
  ⟨_, rfl⟩

/-- `int("%3d\n" % code) == code`: the group-code line with its line end -/
theorem pyIntWs_codeLine (c : Nat) : pyIntWs (showCode c ++ [10]) = some (c : Int) := by
  obtain ⟨k, hk⟩ := showCode_split c
  have hdig : ∀ x ∈ natDigits c, isSpaceNum x = false := by
    intro x hx
    have := natDigits_digits c x hx
    apply notSpace_of_printable
    simp [isDig] at this; omega
  have hne := natDigits_ne_nil' c
  unfold pyIntWs
  rw [rstripP_snoc_true _ _ _ (by decide), hk]
  -- trailing: the last character is a digit
  have h1 : rstripP isSpaceNum (List.replicate k 32 ++ natDigits c) = List.replicate k 32 ++ natDigits c := by
    unfold rstripP
    rw [List.reverse_append]
    cases hq : (natDigits c).reverse with
    | nil => simp at hq; exact absurd hq hne
    | cons d r =>
      have : isSpaceNum d = false := hdig d (by
        have : d ∈ (natDigits c).reverse := by rw [hq]; simp
        simpa using this)
      simp only [List.cons_append, List.dropWhile, this]
      rw [← List.cons_append, ← hq]; simp
  rw [h1]
  have h2 : ∀ k : Nat, (List.replicate k 32 ++ natDigits c).dropWhile isSpaceNum = natDigits c := by
    intro k
    induction k with
    | zero => simpa using dropWhile_none _ _ hdig
    | succ k ih => simpa [List.replicate_succ, List.dropWhile, show isSpaceNum 32 = true by decide] using ih
  rw [h2]
  have := parseInt_showInt (c : Int)
  have hnn : ¬ ((c : Int) < 0) := by omega
  simpa [showInt, hnn] using this

/-- what the ASCII loader has to cope with, per flattened tag: the value text has no line feed, the tag
    is no comment (999: skipped by design) and not the end-of-file marker (the loader stops there) -/
def LineOK (fmt : Nat → List Nat) (p : Nat × Val) : Prop :=
  (∀ c ∈ valText fmt p.2, c ≠ 10) ∧ p.1 ≠ 999 ∧ ¬ (p.1 = 0 ∧ valText fmt p.2 = sEOF)

private theorem asciiLoader_flat (fmt : Nat → List Nat) (fl : List (Nat × Val)) (h : ∀ p ∈ fl, LineOK fmt p) :
    asciiLoader (readLines (fl.flatMap fun p => renderTag fmt p.1 p.2)) =
      .ok (fl.map fun p => (p.1, Raw.str (valText fmt p.2))) := by
  induction fl with
  | nil => simp [readLines, readLinesAux, asciiLoader]
  | cons p r ih =>
    obtain ⟨hnl, h999, heof⟩ := h p (by simp)
    have hr := ih (fun q hq => h q (by simp [hq]))
    have hcode : ∀ x ∈ showCode p.1, x ≠ 10 := by
      intro x hx
      unfold showCode at hx
      simp only [List.mem_append, List.mem_replicate] at hx
      rcases hx with hx | hx
      · omega
      · have := natDigits_digits _ x hx; simp [isDig] at this; omega
    have e : (List.flatMap (fun p => renderTag fmt p.1 p.2) (p :: r)) =
        showCode p.1 ++ 10 :: (valText fmt p.2 ++ 10 :: List.flatMap (fun p => renderTag fmt p.1 p.2) r) := by
      simp [renderTag]
    rw [e, readLines_line _ _ hcode, readLines_line _ _ hnl]
    have hv : rstripLF (valText fmt p.2 ++ [10]) = valText fmt p.2 := by
      unfold rstripLF
      rw [rstripP_snoc_true _ _ _ (by simp)]
      exact rstripP_none _ _ (by intro c hc; simpa using hnl c hc)
    simp only [asciiLoader, pyIntWs_codeLine, hv]
    have hneg : ¬ ((p.1 : Int) < 0) := by omega
    have h999' : ¬ ((p.1 : Int) = 999) := by omega
    have heof' : ¬ ((p.1 : Int) = 0 ∧ valText fmt p.2 = sEOF) := by
      intro ⟨a, b⟩; exact heof ⟨by omega, b⟩
    simp only [hneg, h999', heof', ↓reduceIte, hr, Functor.map, Except.map, Int.toNat_natCast, List.map_cons]

/-- well-formedness of a tag list for the ASCII format: every value has the type of its group code, the
    point structure is unambiguous (`PointWF`), no string contains a line feed, there is no comment tag
    and no end-of-file marker inside the list -/
def AsciiWF (fmt : Nat → List Nat) (Fin : Nat → Prop) (ts : List (CTag Val)) : Prop :=
  PointWF isPoint ts ∧ (∀ t ∈ ts, TagTyped Fin t) ∧ ∀ p ∈ flatten ts, LineOK fmt p

/-- on point-well-formed lists (2 or 3 coordinates) the writers see every coordinate -/
theorem flattenW_eq {α : Type} (isPt : Nat → Bool) (ts : List (CTag α)) (hp : PointWF isPt ts) :
    flattenW ts = flatten ts := by
  have : ts.map trunc3 = ts := by
    induction ts with
    | nil => rfl
    | cons t r ih =>
      cases t with
      | single c v => simp [trunc3, ih hp.2]
      | point c xs =>
        have h3 : xs.take 3 = xs := List.take_of_length_le (by rcases hp.2.1 with h | h <;> omega)
        simp [trunc3, h3, ih hp.2.2.2]
  unfold flattenW; rw [this]

private theorem render_eq (fmt : Nat → List Nat) (ts : List (CTag Val)) (hp : PointWF isPoint ts) :
    render fmt ts = (flatten ts).flatMap fun p => renderTag fmt p.1 p.2 := by
  unfold render; rw [flattenW_eq isPoint ts hp]

/-- ASCII round trip: `tag_compiler(ascii_tags_loader(stream))` on the text `TagWriter` wrote gives back
    the tag list — group codes through `"%3d"`/`int()`, ints, floats (bit pattern, by the float text
    assumption), strings unchanged incl. leading/trailing blanks (code 0: only if `strip()` leaves them
    alone — exactly the guard), binary data, 2D/3D points -/
theorem ascii_tag_roundtrip {fmt : Nat → List Nat} {parse : List Nat → Option Nat} {Fin : Nat → Prop}
    (ft : FloatText fmt parse Fin) (ts : List (CTag Val)) (h : AsciiWF fmt Fin ts) :
    asciiLoad parse (render fmt ts) = .ok ts := by
  obtain ⟨hp, ht, hl⟩ := h
  unfold asciiLoad
  rw [render_eq fmt ts hp, asciiLoader_flat fmt _ hl]
  simp only [bind, Except.bind]
  have : (List.map (fun p => (p.1, Raw.str (valText fmt p.2))) (flatten ts)) =
      (flatten ts).map (fun p => (p.1, rawOf fmt false p.2)) := by
    apply List.map_congr_left
    intro p _
    cases p.2 <;> simp [rawOf, valText]
  rw [this]
  exact tagCompile_raw ft false ts hp ht

/-! ## JSON documents: `json.loads` parses what `JSONTagWriter` wrote -/

/-- `vt` is the text of the JSON value `jv` (as the second element of a pair) -/
def ValText (vt : List Nat) (jv : JVal) : Prop :=
  (∀ rest, parseValue (vt ++ 93 :: rest) = some (jv, 93 :: rest)) ∧ ∃ c r, vt = c :: r ∧ isWs c = false

private theorem skipWs_cons (c : Nat) (r : List Nat) (h : isWs c = false) : skipWs (c :: r) = c :: r := by
  simp [skipWs, List.dropWhile, h]

private theorem ascii_str (s : List Nat) (h : ∀ c ∈ s, c < 128) : StrOK s ∧ NoSurrPair s := by
  constructor
  · intro c hc; have := h c hc; omega
  · induction s with
    | nil => trivial
    | cons a r ih =>
      cases r with
      | nil => trivial
      | cons b r2 =>
        refine ⟨?_, ih (fun c hc => h c (by simp [hc]))⟩
        intro ⟨h1, _⟩
        have := h a (by simp)
        simp [isHi] at h1; omega

private theorem valText_string (s : List Nat) (hs : StrOK s) (hp : NoSurrPair s) :
    ValText (jsonDumps s) (.str s) := by
  refine ⟨?_, 34, _, rfl, by decide⟩
  intro rest
  simp only [jsonDumps, List.cons_append, List.append_assoc, parseValue, ↓reduceIte]
  rw [json_string_roundtrip s hs hp]; rfl

private theorem showInt_head (v : Int) : ∃ c r, showInt v = c :: r ∧ (c = 45 ∨ isDig c = true) := by
  cases h : showInt v with
  | nil =>
    unfold showInt at h
    split at h
    · cases h
    · exact absurd h (natDigits_ne_nil' _)
  | cons c r => exact ⟨c, r, rfl, showInt_chars v c (by simp [h])⟩

private theorem valText_int (v : Int) : ValText (showInt v) (.num (.int v)) := by
  obtain ⟨c, r, hc, hd⟩ := showInt_head v
  have hc34 : c ≠ 34 ∧ c ≠ 91 ∧ isWs c = false := by
    rcases hd with h | h
    · subst h; decide
    · simp [isDig] at h
      refine ⟨by omega, by omega, ?_⟩
      simp [isWs]; omega
  refine ⟨?_, c, r, hc, hc34.2.2⟩
  intro rest
  have := json_int_roundtrip v (93 :: rest) ⟨93, rest, rfl, Or.inr rfl⟩
  rw [hc] at this ⊢
  simp only [List.cons_append, parseValue, hc34.1, hc34.2.1, ↓reduceIte]
  simp only [List.cons_append] at this
  rw [this]; rfl

/-- the additional assumption on the float text for the COMPACT JSON format: `repr(x)` is a JSON number
    token that `json.loads` reads as a float (it has a fraction or an exponent) -/
def JsonFloatTok (fmt : Nat → List Nat) (Fin : Nat → Prop) : Prop :=
  ∀ b, Fin b → ∀ rest, StopC rest → scanNumber (fmt b ++ rest) = some (.flt (fmt b), rest)

/-- the float-token assumption is only needed for the finite doubles (non-finite ones are written as strings) -/
def JsonFloatTokF (fmt : Nat → List Nat) (Fin : Nat → Prop) : Prop :=
  JsonFloatTok fmt (fun b => Fin b ∧ isFiniteBits b = true)

theorem jsonFloatTokF_of (fmt : Nat → List Nat) (Fin : Nat → Prop) (h : JsonFloatTok fmt Fin) : JsonFloatTokF fmt Fin :=
  fun b hb rest hs => h b hb.1 rest hs

private theorem tok_head (fmt : Nat → List Nat) (Fin : Nat → Prop) (hj : JsonFloatTok fmt Fin) (b : Nat) (hb : Fin b) :
    ∃ c r, fmt b = c :: r ∧ c ≠ 34 ∧ c ≠ 91 ∧ isWs c = false := by
  have := hj b hb [93] ⟨93, [], rfl, Or.inr rfl⟩
  cases hq : fmt b with
  | nil => rw [hq] at this; simp [scanNumber, scanCore, isDig] at this
  | cons c r =>
    refine ⟨c, r, rfl, ?_⟩
    rw [hq] at this
    simp only [List.cons_append, scanNumber] at this
    by_cases h45 : c = 45
    · subst h45; decide
    · simp only [h45, ↓reduceIte, scanCore] at this
      by_cases hd : isDig c = true
      · simp [isDig] at hd
        refine ⟨by omega, by omega, ?_⟩
        simp [isWs]; omega
      · simp [hd] at this

private theorem valText_float (fmt : Nat → List Nat) (Fin : Nat → Prop) (hj : JsonFloatTok fmt Fin) (b : Nat)
    (hb : Fin b) : ValText (fmt b) (.num (.flt (fmt b))) := by
  obtain ⟨c, r, hc, h34, h91, hws⟩ := tok_head fmt Fin hj b hb
  refine ⟨?_, c, r, hc, hws⟩
  intro rest
  have := hj b hb (93 :: rest) ⟨93, rest, rfl, Or.inr rfl⟩
  rw [hc] at this ⊢
  simp only [List.cons_append, parseValue, h34, h91, ↓reduceIte]
  simp only [List.cons_append] at this
  rw [this]; rfl

private theorem parseNums_join (fmt : Nat → List Nat) (Fin : Nat → Prop) (hj : JsonFloatTok fmt Fin)
    (bs : List Nat) (hne : bs ≠ []) (hb : ∀ b ∈ bs, Fin b) (rest : List Nat) :
    ∀ fuel, bs.length < fuel →
      parseNums fuel (joinComma (bs.map fmt) ++ 93 :: rest) = some (bs.map (fun b => Num.flt (fmt b)), rest) := by
  induction bs with
  | nil => exact absurd rfl hne
  | cons b r ih =>
    intro fuel hf
    cases fuel with
    | zero => omega
    | succ k =>
      have hfb := hb b (by simp)
      cases r with
      | nil =>
        have := hj b hfb (93 :: rest) ⟨93, rest, rfl, Or.inr rfl⟩
        simp only [List.map_cons, List.map_nil, joinComma, parseNums, this, skipWs_cons 93 rest (by decide),
          ↓reduceIte]
      | cons b2 r2 =>
        have hr := ih (by simp) (fun x hx => hb x (by simp [hx])) k (by simp at hf ⊢; omega)
        obtain ⟨c, q, hc, _, _, hws⟩ := tok_head fmt Fin hj b2 (hb b2 (by simp))
        have hstop := hj b hfb (44 :: (joinComma ((b2 :: r2).map fmt) ++ 93 :: rest)) ⟨44, _, rfl, Or.inl rfl⟩
        have hhead : ∃ c' q', joinComma ((b2 :: r2).map fmt) ++ 93 :: rest = c' :: q' ∧ isWs c' = false := by
          cases r2 with
          | nil => exact ⟨c, q ++ 93 :: rest, by simp [joinComma, hc], hws⟩
          | cons b3 r3 =>
            exact ⟨c, q ++ 44 :: (joinComma ((b3 :: r3).map fmt) ++ 93 :: rest), by simp [joinComma, hc], hws⟩
        obtain ⟨c', q', he, hws'⟩ := hhead
        have e : joinComma ((b :: b2 :: r2).map fmt) ++ 93 :: rest =
            fmt b ++ 44 :: (joinComma ((b2 :: r2).map fmt) ++ 93 :: rest) := by
          simp [joinComma]
        rw [e]
        simp only [parseNums, hstop, skipWs_cons 44 _ (by decide), show (44 : Nat) ≠ 93 by decide, ↓reduceIte]
        rw [he, skipWs_cons c' q' hws', ← he, hr]
        simp

private theorem joinComma_length (fmt : Nat → List Nat) (bs : List Nat) (h : ∀ b ∈ bs, fmt b ≠ []) :
    bs.length ≤ (joinComma (bs.map fmt)).length := by
  induction bs with
  | nil => simp
  | cons b r ih =>
    have hb : 0 < (fmt b).length := List.length_pos_iff.mpr (h b (by simp))
    have hr := ih (fun x hx => h x (by simp [hx]))
    cases r with
    | nil => simp [joinComma]; omega
    | cons b2 r2 =>
      simp only [List.map_cons, joinComma, List.length_append, List.length_cons] at hr ⊢
      omega

private theorem valText_point (fmt : Nat → List Nat) (Fin : Nat → Prop) (hj : JsonFloatTok fmt Fin)
    (bs : List Nat) (hne : bs ≠ []) (hb : ∀ b ∈ bs, Fin b) :
    ValText ([91] ++ joinComma (bs.map fmt) ++ [93]) (.nums (bs.map fun b => Num.flt (fmt b))) := by
  refine ⟨?_, 91, joinComma (bs.map fmt) ++ [93], by simp, by decide⟩
  intro rest
  cases bs with
  | nil => exact absurd rfl hne
  | cons b r =>
    obtain ⟨c, q, hc, _, h91, hws⟩ := tok_head fmt Fin hj b (hb b (by simp))
    have hhead : ∃ q', joinComma ((b :: r).map fmt) = c :: q' := by
      cases r with
      | nil => exact ⟨q, by simp [joinComma, hc]⟩
      | cons b2 r2 => exact ⟨q ++ 44 :: joinComma ((b2 :: r2).map fmt), by simp [joinComma, hc]⟩
    obtain ⟨q', he⟩ := hhead
    have hc93 : c ≠ 93 := by
      have := hj b (hb b (by simp)) [93] ⟨93, [], rfl, Or.inr rfl⟩
      rw [hc] at this
      intro h; subst h
      simp [scanNumber, scanCore, isDig] at this
    have hlen := joinComma_length fmt (b :: r) (by
      intro x hx
      obtain ⟨c', q'', hc', _⟩ := tok_head fmt Fin hj x (hb x hx)
      rw [hc']; simp)
    have hp := parseNums_join fmt Fin hj (b :: r) (by simp) hb (93 :: rest)
      ((joinComma ((b :: r).map fmt) ++ [93] ++ 93 :: rest).length + 1) (by simp at hlen ⊢; omega)
    simp only [List.cons_append, List.nil_append, List.append_assoc, parseValue, show (91 : Nat) ≠ 34 by decide,
      ↓reduceIte]
    rw [he] at hp ⊢
    simp only [List.cons_append] at hp ⊢
    rw [skipWs_cons c _ hws]
    simp only [hc93, ↓reduceIte]
    simp only [List.append_assoc, List.cons_append, List.nil_append] at hp
    rw [hp]; rfl

/-- one line of the document: group code, value text, the JSON value it denotes -/
structure JLine where
  code : Nat
  vt : List Nat
  jv : JVal

def JLine.text (l : JLine) : List Nat := jsonLine l.code l.vt
def JLine.sem (l : JLine) : Num × JVal := (.int (l.code : Int), l.jv)

private theorem showNat_head (c : Nat) : ∃ d r, showNat c = d :: r ∧ isDig d = true := by
  unfold showNat showInt
  have hnn : ¬ ((c : Int) < 0) := by omega
  simp only [hnn, ↓reduceIte, Int.natAbs_natCast]
  cases hq : natDigits c with
  | nil => exact absurd hq (natDigits_ne_nil' _)
  | cons d r => exact ⟨d, r, rfl, natDigits_digits c d (by simp [hq])⟩

private theorem parsePair_line (c : Nat) (vt : List Nat) (jv : JVal) (hv : ValText vt jv) (rest : List Nat) :
    parsePair (showNat c ++ [44, 32] ++ vt ++ 93 :: rest) = some ((.int (c : Int), jv), rest) := by
  obtain ⟨hval, vc, vr, hvc, hvws⟩ := hv
  obtain ⟨d, r, hd, hdig⟩ := showNat_head c
  have hdws : isWs d = false := by simp [isDig] at hdig; simp [isWs]; omega
  have hnum := json_int_roundtrip (c : Int) (44 :: 32 :: (vt ++ 93 :: rest)) ⟨44, _, rfl, Or.inl rfl⟩
  unfold parsePair
  have e1 : showNat c ++ [44, 32] ++ vt ++ 93 :: rest = showInt (c : Int) ++ 44 :: 32 :: (vt ++ 93 :: rest) := by
    simp [showNat]
  rw [e1]
  have e2 : skipWs (showInt (c : Int) ++ 44 :: 32 :: (vt ++ 93 :: rest)) =
      showInt (c : Int) ++ 44 :: 32 :: (vt ++ 93 :: rest) := by
    have : showInt (c : Int) = d :: r := hd
    rw [this]; exact skipWs_cons d _ hdws
  rw [e2, hnum]
  simp only [skipWs_cons 44 _ (by decide : isWs 44 = false), ↓reduceIte]
  have e3 : skipWs (32 :: (vt ++ 93 :: rest)) = vt ++ 93 :: rest := by
    rw [hvc]
    simp only [skipWs, List.cons_append, List.dropWhile, show isWs 32 = true by decide, hvws]
  rw [e3, hval rest]
  simp only [skipWs_cons 93 _ (by decide : isWs 93 = false), ↓reduceIte]

private theorem eof_valText : ValText (jsonDumps sEOF) (.str sEOF) :=
  valText_string sEOF (by intro c hc; simp [sEOF] at hc; omega) (by simp [NoSurrPair, sEOF, isHi])

private theorem showNat_zero : showNat 0 = [48] := by
  simp [showNat, showInt, natDigits, digitChar]

private theorem jsonEof_eq : jsonEof = 91 :: (showNat 0 ++ [44, 32] ++ jsonDumps sEOF ++ 93 :: [10, 93, 10]) := by
  rw [showNat_zero]; decide

private theorem line_text_eq (l : JLine) (rest : List Nat) :
    l.text ++ rest = 91 :: (showNat l.code ++ [44, 32] ++ l.vt ++ 93 :: (44 :: 10 :: rest)) := by
  simp [JLine.text, jsonLine]

private theorem parsePairs_lines (ls : List JLine) (h : ∀ l ∈ ls, ValText l.vt l.jv) :
    ∀ fuel, ls.length < fuel →
      parsePairs fuel (ls.flatMap JLine.text ++ jsonEof) =
        some (ls.map JLine.sem ++ [(.int 0, .str sEOF)], [10]) := by
  induction ls with
  | nil =>
    intro fuel hf
    cases fuel with
    | zero => omega
    | succ k =>
      have := parsePair_line 0 (jsonDumps sEOF) (.str sEOF) eof_valText [10, 93, 10]
      simp only [List.flatMap_nil, List.nil_append, jsonEof_eq, parsePairs, ↓reduceIte, this]
      simp [skipWs, List.dropWhile, isWs]
  | cons l r ih =>
    intro fuel hf
    cases fuel with
    | zero => omega
    | succ k =>
      have hr := ih (fun x hx => h x (by simp [hx])) k (by simp at hf; omega)
      have hl := h l (by simp)
      have e : (l :: r).flatMap JLine.text ++ jsonEof = l.text ++ (r.flatMap JLine.text ++ jsonEof) := by simp
      rw [e, line_text_eq]
      have hp := parsePair_line l.code l.vt l.jv hl (44 :: 10 :: (r.flatMap JLine.text ++ jsonEof))
      simp only [parsePairs, ↓reduceIte, hp, skipWs_cons 44 _ (by decide : isWs 44 = false),
        show (44 : Nat) ≠ 93 by decide]
      -- the next element starts with `[`
      have hnext : ∃ q, r.flatMap JLine.text ++ jsonEof = 91 :: q := by
        cases r with
        | nil => exact ⟨_, by rw [jsonEof_eq]; rfl⟩
        | cons l2 r2 => rw [List.flatMap_cons, List.append_assoc]; exact ⟨_, line_text_eq l2 _⟩
      obtain ⟨q, hq⟩ := hnext
      have e3 : skipWs (10 :: (r.flatMap JLine.text ++ jsonEof)) = r.flatMap JLine.text ++ jsonEof := by
        rw [hq]; simp [skipWs, List.dropWhile, isWs]
      rw [e3, hr]
      simp [JLine.sem]

private theorem flatMap_length_ge (ls : List JLine) : ls.length ≤ (ls.flatMap JLine.text).length := by
  induction ls with
  | nil => simp
  | cons l r ih =>
    simp only [List.flatMap_cons, List.length_append, List.length_cons]
    have : 0 < l.text.length := by simp [JLine.text, jsonLine]
    omega

/-- `json.loads` on a document made of lines: the list of `[code, value]` pairs plus the EOF pair -/
theorem parseDoc_lines (ls : List JLine) (h : ∀ l ∈ ls, ValText l.vt l.jv) :
    parseDoc (jsonHeader ++ ls.flatMap JLine.text ++ jsonEof) =
      some (ls.map JLine.sem ++ [(.int 0, .str sEOF)]) := by
  have hnext : ∃ q, ls.flatMap JLine.text ++ jsonEof = 91 :: q := by
    cases ls with
    | nil => exact ⟨_, by rw [jsonEof_eq]; rfl⟩
    | cons l2 r2 => rw [List.flatMap_cons, List.append_assoc]; exact ⟨_, line_text_eq l2 _⟩
  obtain ⟨q, hq⟩ := hnext
  have hlen := flatMap_length_ge ls
  have hp := parsePairs_lines ls h ((jsonHeader ++ ls.flatMap JLine.text ++ jsonEof).length + 1)
    (by simp only [List.length_append]; omega)
  unfold parseDoc
  have e0 : jsonHeader ++ ls.flatMap JLine.text ++ jsonEof = 91 :: 10 :: (ls.flatMap JLine.text ++ jsonEof) := by
    simp [jsonHeader]
  rw [e0] at hp ⊢
  rw [skipWs_cons 91 _ (by decide)]
  simp only [↓reduceIte]
  have e1 : skipWs (10 :: (ls.flatMap JLine.text ++ jsonEof)) = 91 :: q := by
    rw [hq]; simp [skipWs, List.dropWhile, isWs]
  rw [e1]
  simp only [show (91 : Nat) ≠ 93 by decide, ↓reduceIte]
  rw [← hq, hp]
  simp [skipWs, List.dropWhile, isWs]

/-! ### from tags to lines -/

/-- the JSON value the writer's text of a tag value denotes -/
def jvOf (fmt : Nat → List Nat) (compact : Bool) : Val → JVal
  | .str s => .str s
  | .int v => if compact then .num (.int v) else .str (showInt v)
  | .dbl b => if compact && isFiniteBits b then .num (.flt (fmt b)) else .str (fmt b)
  | .bin d => .str (hexlify d)

def lineOf (fmt : Nat → List Nat) (compact : Bool) (p : Nat × Val) : JLine :=
  ⟨p.1, jsonVal fmt compact p.2, jvOf fmt compact p.2⟩

def linesOf (fmt : Nat → List Nat) (compact : Bool) : CTag Val → List JLine
  | .single c v => [lineOf fmt compact (c, v)]
  | .point c xs =>
    if compact && xs.all finiteVal then
      [⟨c, [91] ++ joinComma (xs.map (valText fmt)) ++ [93], .nums (xs.map fun x => Num.flt (valText fmt x))⟩]
    else (flattenPt c xs 0).map (lineOf fmt compact)

/-- what the JSON formats need beyond the typing: no comment tag, no end-of-file marker inside the list
    (`write_tag2(0, "EOF")` closes the document), strings are Python strings without an adjacent
    (high, low) surrogate pair -/
def JTagOK : CTag Val → Prop
  | .single c v => c ≠ 999 ∧ ¬ (c = 0 ∧ v = .str sEOF) ∧ ∀ s, v = .str s → StrOK s ∧ NoSurrPair s
  | .point _ _ => True

def JsonWF (Fin : Nat → Prop) (ts : List (CTag Val)) : Prop :=
  PointWF isPoint ts ∧ (∀ t ∈ ts, TagTyped Fin t) ∧ ∀ t ∈ ts, JTagOK t

private theorem hexDigit_lt (n : Nat) (h : n < 16) : hexDigit n < 128 := by
  unfold hexDigit; split <;> omega

private theorem hexlify_ascii (d : List Nat) (h : ∀ b ∈ d, b < 256) : ∀ c ∈ hexlify d, c < 128 := by
  induction d with
  | nil => intro c hc; simp [hexlify] at hc
  | cons b r ih =>
    intro c hc
    have hb := h b (by simp)
    simp only [hexlify, List.mem_cons] at hc
    rcases hc with hc | hc | hc
    · subst hc; exact hexDigit_lt _ (by omega)
    · subst hc; exact hexDigit_lt _ (Nat.mod_lt _ (by decide))
    · exact ih (fun x hx => h x (by simp [hx])) c hc

private theorem showInt_ascii (v : Int) : ∀ c ∈ showInt v, c < 128 := by
  intro c hc
  rcases showInt_chars v c hc with h | h
  · omega
  · simp [isDig] at h; omega

private theorem take3 {α : Type} (xs : List α) (h : xs.length = 2 ∨ xs.length = 3) : xs.take 3 = xs := by
  apply List.take_of_length_le; omega

private theorem valText_line {fmt : Nat → List Nat} {parse : List Nat → Option Nat} {Fin : Nat → Prop}
    (ft : FloatText fmt parse Fin) (compact : Bool) (hj : compact = true → JsonFloatTokF fmt Fin)
    (c : Nat) (v : Val) (hc : ClsOK Fin c v) (hs : ∀ s, v = .str s → StrOK s ∧ NoSurrPair s) :
    ValText (jsonVal fmt compact v) (jvOf fmt compact v) := by
  cases v with
  | str s => exact valText_string s (hs s rfl).1 (hs s rfl).2
  | int i =>
    cases compact with
    | true => exact valText_int i
    | false =>
      have := ascii_str (showInt i) (showInt_ascii i)
      exact valText_string _ this.1 this.2
  | dbl b =>
    cases compact with
    | true =>
      cases hf : isFiniteBits b with
      | true =>
        have := valText_float fmt _ (hj rfl) b ⟨hc.2.2, hf⟩
        simpa [jsonVal, jvOf, hf] using this
      | false =>
        have := ascii_str (fmt b) (fun x hx => by have := ft.ascii b hc.2.2 x hx; omega)
        have := valText_string _ this.1 this.2
        simpa [jsonVal, jvOf, hf] using this
    | false =>
      have := ascii_str (fmt b) (fun x hx => by have := ft.ascii b hc.2.2 x hx; omega)
      exact valText_string _ this.1 this.2
  | bin d =>
    have := ascii_str (hexlify d) (hexlify_ascii d hc.2)
    exact valText_string _ this.1 this.2

private theorem ptOK_bits (Fin : Nat → Prop) (xs : List Val) (h : PtOK Fin xs) :
    ∃ bs : List Nat, xs = bs.map Val.dbl ∧ ∀ b ∈ bs, Fin b := by
  induction xs with
  | nil => exact ⟨[], rfl, by simp⟩
  | cons x r ih =>
    obtain ⟨b, hb, hf⟩ := h x (by simp)
    obtain ⟨bs, hbs, hfs⟩ := ih (fun y hy => h y (by simp [hy]))
    refine ⟨b :: bs, by simp [hb, hbs], ?_⟩
    intro y hy
    simp only [List.mem_cons] at hy
    rcases hy with hy | hy
    · subst hy; exact hf
    · exact hfs y hy

private theorem flattenPt_mem {α : Type} (c : Nat) (xs : List α) (i : Nat) :
    ∀ p ∈ flattenPt c xs i, p.2 ∈ xs ∧ ∃ j, i ≤ j ∧ j < i + xs.length ∧ p.1 = c + j * 10 := by
  induction xs generalizing i with
  | nil => intro p hp; simp [flattenPt] at hp
  | cons x r ih =>
    intro p hp
    simp only [flattenPt, List.mem_cons] at hp
    rcases hp with hp | hp
    · subst hp; exact ⟨by simp, i, by omega, by simp, rfl⟩
    · obtain ⟨h1, j, h2, h3, h4⟩ := ih (i + 1) p hp
      exact ⟨by simp [h1], j, by omega, by simp; omega, h4⟩

private theorem point_code_facts (c j : Nat) (h : isPoint c = true) (hj : j < 3) :
    c + j * 10 ≠ 999 ∧ c + j * 10 ≠ 0 ∧ isBinary (c + j * 10) = false ∧ isDouble (c + j * 10) = true := by
  simp only [isPoint, isBinary, isDouble, inR, Bool.or_eq_true, Bool.and_eq_true, decide_eq_true_eq,
    Bool.or_eq_false_iff, Bool.and_eq_false_iff, decide_eq_false_iff_not, beq_eq_false_iff_ne] at *
  omega

/-- the single-tag lines of the components of a vertex -/
private theorem flat_lines_valText {fmt : Nat → List Nat} {parse : List Nat → Option Nat} {Fin : Nat → Prop}
    (ft : FloatText fmt parse Fin) (compact : Bool) (hj : compact = true → JsonFloatTokF fmt Fin)
    (c : Nat) (xs : List Val) (hpt : isPoint c = true) (hl23 : xs.length = 2 ∨ xs.length = 3) (ht : PtOK Fin xs) :
    ∀ l ∈ (flattenPt c xs 0).map (lineOf fmt compact), ValText l.vt l.jv := by
  intro l hl
  simp only [List.mem_map] at hl
  obtain ⟨p, hp, hpl⟩ := hl
  subst hpl
  obtain ⟨hmem, j, _, hj3, hcode⟩ := flattenPt_mem c xs 0 p hp
  obtain ⟨b, hb, hf⟩ := ht p.2 hmem
  have hfacts := point_code_facts c j hpt (by omega)
  have hcls : ClsOK Fin p.1 p.2 := by
    rw [hb, hcode]; exact ⟨hfacts.2.2.1, hfacts.2.2.2, hf⟩
  exact valText_line ft compact hj p.1 p.2 hcls (by intro s hs; rw [hb] at hs; cases hs)

private theorem all_finite_bits (bs : List Nat) (h : (bs.map Val.dbl).all finiteVal = true) :
    ∀ b ∈ bs, isFiniteBits b = true := by
  intro b hb
  simp only [List.all_eq_true, List.mem_map, forall_exists_index, and_imp, forall_apply_eq_imp_iff₂] at h
  exact h b hb

/-- all lines of a well-formed tag carry a value text `json.loads` understands -/
private theorem linesOf_valText {fmt : Nat → List Nat} {parse : List Nat → Option Nat} {Fin : Nat → Prop}
    (ft : FloatText fmt parse Fin) (compact : Bool) (hj : compact = true → JsonFloatTokF fmt Fin)
    (t : CTag Val) (ht : TagTyped Fin t) (hjt : JTagOK t)
    (hlen : ∀ c xs, t = .point c xs → isPoint c = true ∧ (xs.length = 2 ∨ xs.length = 3)) :
    ∀ l ∈ linesOf fmt compact t, ValText l.vt l.jv := by
  cases t with
  | single c v =>
    intro l hl
    simp only [linesOf, List.mem_singleton] at hl
    subst hl
    exact valText_line ft compact hj c v ht hjt.2.2
  | point c xs =>
    obtain ⟨hpt, hl23⟩ := hlen c xs rfl
    by_cases hlist : (compact && xs.all finiteVal) = true
    · obtain ⟨bs, hbs, hfin⟩ := ptOK_bits Fin xs ht
      intro l hl
      simp only [linesOf, hlist, ↓reduceIte, List.mem_singleton] at hl
      subst hl
      simp only [Bool.and_eq_true] at hlist
      have hne : bs ≠ [] := by
        intro h; subst h; subst hbs; simp at hl23
      have hfb := all_finite_bits bs (by rw [← hbs]; exact hlist.2)
      have := valText_point fmt _ (hj hlist.1) bs hne (fun b hb => ⟨hfin b hb, hfb b hb⟩)
      simpa [hbs, valText, List.map_map, Function.comp_def] using this
    · intro l hl
      simp only [linesOf, hlist, Bool.false_eq_true, ↓reduceIte] at hl
      exact flat_lines_valText ft compact hj c xs hpt hl23 ht l hl

/-- the text `write_tag` produces is the text of the tag's lines -/
private theorem jsonTag_lines (fmt : Nat → List Nat) (compact : Bool) (t : CTag Val) (hjt : JTagOK t)
    (hlen : ∀ c xs, t = .point c xs → xs.length = 2 ∨ xs.length = 3) :
    jsonTag fmt compact t = (linesOf fmt compact t).flatMap JLine.text := by
  cases t with
  | single c v =>
    have : ¬ (c = 0 ∧ v = .str sEOF) := hjt.2.1
    simp [jsonTag, this, linesOf, lineOf, JLine.text]
  | point c xs =>
    have h3 := take3 xs (hlen c xs rfl)
    by_cases hlist : (compact && xs.all finiteVal) = true
    · simp [jsonTag, linesOf, JLine.text, h3, hlist]
    · simp only [jsonTag, h3, hlist, Bool.false_eq_true, ↓reduceIte, linesOf, List.flatMap_map]
      rfl

private theorem pointWF_len (ts : List (CTag Val)) (h : PointWF isPoint ts) :
    ∀ t ∈ ts, ∀ c xs, t = .point c xs → isPoint c = true ∧ (xs.length = 2 ∨ xs.length = 3) := by
  induction ts with
  | nil => intro t ht; simp at ht
  | cons a r ih =>
    intro t ht c xs e
    simp only [List.mem_cons] at ht
    cases a with
    | single c' v' =>
      rcases ht with ht | ht
      · subst ht; cases e
      · exact ih h.2 t ht c xs e
    | point c' xs' =>
      rcases ht with ht | ht
      · subst ht; cases e; exact ⟨h.1, h.2.1⟩
      · exact ih h.2.2.2 t ht c xs e

/-- the whole document is header, lines, EOF line -/
private theorem jsonWrite_lines (fmt : Nat → List Nat) (Fin : Nat → Prop) (compact : Bool) (ts : List (CTag Val))
    (h : JsonWF Fin ts) :
    jsonWrite fmt compact ts = jsonHeader ++ (ts.flatMap (linesOf fmt compact)).flatMap JLine.text ++ jsonEof := by
  rcases h with ⟨hp, -, hj⟩
  have hl := pointWF_len ts hp
  unfold jsonWrite
  congr 2
  clear hp
  induction ts with
  | nil => rfl
  | cons t r ih =>
    rw [List.flatMap_cons, List.flatMap_cons, List.flatMap_append,
      jsonTag_lines fmt compact t (hj t (by simp)) (fun c xs e => (hl t (by simp) c xs e).2),
      ih (fun x hx => hj x (by simp [hx])) (fun x hx => hl x (by simp [hx]))]

/-! ### `json_tag_loader` on the pairs of the lines -/

private theorem jvalRaw_jvOf (fmt : Nat → List Nat) (compact : Bool) (v : Val) :
    jvalRaw (jvOf fmt compact v) = rawOf fmt compact v := by
  cases v with
  | dbl b => cases compact <;> cases hf : isFiniteBits b <;> simp [jvOf, rawOf, hf, jvalRaw, numRaw]
  | str s => cases compact <;> rfl
  | int i => cases compact <;> rfl
  | bin d => cases compact <;> rfl

private theorem jvOf_not_nums (fmt : Nat → List Nat) (compact : Bool) (v : Val) :
    ∀ xs, jvOf fmt compact v ≠ .nums xs := by
  intro xs
  cases v with
  | dbl b => cases compact <;> cases hf : isFiniteBits b <;> simp [jvOf, hf]
  | str s => cases compact <;> simp [jvOf]
  | int i => cases compact <;> simp [jvOf]
  | bin d => cases compact <;> simp [jvOf]

/-- one ordinary line (no comment, not the EOF pair, not a list value) -/
private theorem loader_line (fmt : Nat → List Nat) (compact : Bool) (c : Nat) (v : Val) (rest : List (Num × JVal))
    (h999 : c ≠ 999) (heof : ¬ (c = 0 ∧ jvOf fmt compact v = .str sEOF)) :
    jsonTagLoader ((lineOf fmt compact (c, v)).sem :: rest) =
      (fun ts => (c, rawOf fmt compact v) :: ts) <$> jsonTagLoader rest := by
  have hnn : ¬ ((c : Int) < 0) := by omega
  have he : isEofPair c (jvOf fmt compact v) = false := by
    simp only [isEofPair, Bool.and_eq_false_iff, beq_eq_false_iff_ne, ne_eq]
    by_cases h0 : c = 0
    · right; intro h; exact heof ⟨h0, h⟩
    · left; exact h0
  have key : ∀ jv : JVal, (∀ xs, jv ≠ .nums xs) → isEofPair c jv = false →
      jsonTagLoader ((Num.int (c : Int), jv) :: rest) = (fun ts => (c, jvalRaw jv) :: ts) <$> jsonTagLoader rest := by
    intro jv hn he
    cases jv with
    | nums xs => exact absurd rfl (hn xs)
    | str s => simp [jsonTagLoader, hnn, he, h999]
    | num n => simp [jsonTagLoader, hnn, he, h999]
  have := key (jvOf fmt compact v) (jvOf_not_nums fmt compact v) he
  rw [jvalRaw_jvOf] at this
  exact this

private theorem coords_flt (fmt : Nat → List Nat) (c : Nat) (bs : List Nat) (hf : ∀ b ∈ bs, isFiniteBits b = true)
    (i : Nat) :
    coords c (bs.map fun b => Num.flt (fmt b)) i = flattenPt c (bs.map fun b => rawOf fmt true (.dbl b)) i := by
  induction bs generalizing i with
  | nil => rfl
  | cons b r ih =>
    simp [coords, flattenPt, numRaw, rawOf, hf b (by simp), ih (fun x hx => hf x (by simp [hx]))]

private theorem except_map_comp {ε α : Type} (f g : α → α) (x : Except ε α) :
    f <$> (g <$> x) = (fun a => f (g a)) <$> x := by
  cases x <;> rfl

/-- the loader turns the pairs of a tag's lines into the flattened raw tags of that tag -/
private theorem loader_tag (fmt : Nat → List Nat) (Fin : Nat → Prop) (compact : Bool) (t : CTag Val)
    (ht : TagTyped Fin t) (hjt : JTagOK t)
    (hlen : ∀ c xs, t = .point c xs → isPoint c = true ∧ (xs.length = 2 ∨ xs.length = 3))
    (rest : List (Num × JVal)) :
    jsonTagLoader ((linesOf fmt compact t).map JLine.sem ++ rest) =
      (fun ts => (flatten [t]).map (fun p => (p.1, rawOf fmt compact p.2)) ++ ts) <$> jsonTagLoader rest := by
  cases t with
  | single c v =>
    have heof : ¬ (c = 0 ∧ jvOf fmt compact v = .str sEOF) := by
      intro ⟨h0, hv⟩
      apply hjt.2.1
      refine ⟨h0, ?_⟩
      subst h0
      cases v with
      | str s => simpa [jvOf] using hv
      | int i => exact absurd ht.2.2 (by decide)
      | dbl b => exact absurd ht.2.1 (by decide)
      | bin d => exact absurd ht.1 (by decide)
    simp only [linesOf, List.map_cons, List.map_nil, List.cons_append, List.nil_append,
      loader_line fmt compact c v rest hjt.1 heof, flatten]
  | point c xs =>
    obtain ⟨hpt, hl23⟩ := hlen c xs rfl
    obtain ⟨bs, hbs, hfin⟩ := ptOK_bits Fin xs ht
    by_cases hlist : (compact && xs.all finiteVal) = true
    · have hnn : ¬ ((c : Int) < 0) := by omega
      have hct : compact = true := by simp only [Bool.and_eq_true] at hlist; exact hlist.1
      have hfb := all_finite_bits bs (by rw [← hbs]; simp only [Bool.and_eq_true] at hlist; exact hlist.2)
      subst hct
      subst hbs
      simp only [linesOf, hlist, ↓reduceIte, List.map_cons, List.map_nil, List.cons_append, List.nil_append,
        JLine.sem, jsonTagLoader, hnn, Int.toNat_natCast, hpt, flatten, List.append_nil, List.map_map]
      have e1 : (List.map ((fun x => Num.flt (valText fmt x)) ∘ Val.dbl) bs) = bs.map fun b => Num.flt (fmt b) := by
        apply List.map_congr_left; intro b _; rfl
      rw [e1, coords_flt fmt c bs hfb]
      have e2 : (flattenPt c (bs.map Val.dbl) 0).map (fun p => (p.1, rawOf fmt true p.2)) =
          flattenPt c (bs.map fun b => rawOf fmt true (.dbl b)) 0 := by
        rw [← flattenPt_map]; simp [List.map_map, Function.comp_def]
      rw [e2]
    · simp only [linesOf, hlist, Bool.false_eq_true, ↓reduceIte, flatten, List.append_nil, List.map_map]
      -- every component line is an ordinary line
      have hall : ∀ p ∈ flattenPt c xs 0, p.1 ≠ 999 ∧ ¬ (p.1 = 0 ∧ jvOf fmt compact p.2 = .str sEOF) := by
        intro p hp
        obtain ⟨_, j, _, hj3, hcode⟩ := flattenPt_mem c xs 0 p hp
        have := point_code_facts c j hpt (by omega)
        rw [hcode]; exact ⟨this.1, fun h => this.2.1 h.1⟩
      generalize flattenPt c xs 0 = fl at hall
      induction fl with
      | nil => simp only [List.map_nil, List.nil_append]; cases jsonTagLoader rest <;> rfl
      | cons p r ih =>
        have hp := hall p (by simp)
        have hr := ih (fun q hq => hall q (by simp [hq]))
        simp only [List.map_cons, List.cons_append, Function.comp_apply] at hr ⊢
        have e : (lineOf fmt compact p) = lineOf fmt compact (p.1, p.2) := rfl
        rw [e, loader_line fmt compact p.1 p.2 _ hp.1 hp.2, hr, except_map_comp]

private theorem flatten_append {α : Type} (a b : List (CTag α)) : flatten (a ++ b) = flatten a ++ flatten b := by
  induction a with
  | nil => rfl
  | cons t r ih => cases t <;> simp [flatten, ih]

def eofTag : CTag Val := .single 0 (.str sEOF)

private theorem loader_all (fmt : Nat → List Nat) (Fin : Nat → Prop) (compact : Bool) (ts : List (CTag Val))
    (h : JsonWF Fin ts) :
    jsonTagLoader ((ts.flatMap (linesOf fmt compact)).map JLine.sem ++ [(.int 0, .str sEOF)]) =
      .ok ((flatten (ts ++ [eofTag])).map fun p => (p.1, rawOf fmt compact p.2)) := by
  rcases h with ⟨hp, ht, hj⟩
  have hl := pointWF_len ts hp
  clear hp
  induction ts with
  | nil => simp [jsonTagLoader, isEofPair, jvalRaw, flatten, eofTag, rawOf]
  | cons t r ih =>
    have hr := ih (fun x hx => ht x (by simp [hx])) (fun x hx => hj x (by simp [hx]))
      (fun x hx => hl x (by simp [hx]))
    have e : (t :: r) ++ [eofTag] = [t] ++ (r ++ [eofTag]) := rfl
    rw [List.flatMap_cons, List.map_append, List.append_assoc,
      loader_tag fmt Fin compact t (ht t (by simp)) (hj t (by simp)) (hl t (by simp)), hr, e]
    simp only [flatten_append, List.map_append, Functor.map, Except.map]

private theorem pointWF_snoc_single {α : Type} (isPt : Nat → Bool) (ts : List (CTag α)) (c : Nat) (v : α)
    (hc : isPt c = false) (h20 : ∀ c', isPt c' = true → c ≠ c' + 20) (h : PointWF isPt ts) :
    PointWF isPt (ts ++ [.single c v]) := by
  induction ts with
  | nil => exact ⟨hc, trivial⟩
  | cons t r ih =>
    cases t with
    | single c' v' => exact ⟨h.1, ih h.2⟩
    | point c' xs =>
      obtain ⟨h1, h2, h3, h4⟩ := h
      refine ⟨h1, h2, ?_, ih h4⟩
      intro hl
      cases r with
      | nil => exact h20 c' h1
      | cons t2 r2 => cases t2 <;> exact h3 hl

/-- **JSON round trip** (compact and verbose): `tag_compiler(json_tag_loader(json.loads(text)))` on the
    document `JSONTagWriter` wrote (followed by `write_tag2(0, "EOF")`) gives back the tag list and the
    EOF tag — strings with quotes, backslashes, control characters, non-BMP characters and lone
    surrogates unchanged, ints of ANY size, floats by the float text assumption, binary data through its
    hex text, 2D/3D points with their dimension.  Hypotheses: `JsonWF` (typing, `PointWF`, no comment
    tag, no inner EOF marker, no adjacent surrogate pair) and, for the compact format only, that
    `repr(float)` of every FINITE double is a JSON float token (`inf`/`nan` are written as strings since
    the fix of F28 and read back through `float()`). -/
theorem json_tag_roundtrip {fmt : Nat → List Nat} {parse : List Nat → Option Nat} {Fin : Nat → Prop}
    (ft : FloatText fmt parse Fin) (compact : Bool) (hj : compact = true → JsonFloatTokF fmt Fin)
    (ts : List (CTag Val)) (h : JsonWF Fin ts) :
    jsonLoad parse (jsonWrite fmt compact ts) = .ok (ts ++ [eofTag]) := by
  have hl := pointWF_len ts h.1
  have hvt : ∀ l ∈ ts.flatMap (linesOf fmt compact), ValText l.vt l.jv := by
    intro l hlm
    simp only [List.mem_flatMap] at hlm
    obtain ⟨t, ht, hlt⟩ := hlm
    exact linesOf_valText ft compact hj t (h.2.1 t ht) (h.2.2 t ht) (hl t ht) l hlt
  unfold jsonLoad
  rw [jsonWrite_lines fmt Fin compact ts h, parseDoc_lines _ hvt]
  simp only [loader_all fmt Fin compact ts h, bind, Except.bind]
  apply tagCompile_raw ft compact
  · exact pointWF_snoc_single isPoint ts 0 _ (by decide)
      (by intro c' _; omega) h.1
  · intro t ht
    simp only [List.mem_append, List.mem_singleton] at ht
    rcases ht with ht | ht
    · exact h.2.1 t ht
    · subst ht
      exact ⟨by decide, by decide, by decide, fun _ => by decide⟩

/-! ## CRLF files -/

private theorem univNL_cons (c : Nat) (l : List Nat) (h : c ≠ 13) : univNL (c :: l) = c :: univNL l := by
  cases l with
  | nil => simp [univNL, h]
  | cons d r => simp [univNL, h]

/-- a file written with `\r\n` line ends and read in text mode (universal newlines) is the file written
    with `\n`, provided the text itself holds no carriage return -/
theorem crlf_transparent (t : List Nat) (h : ∀ c ∈ t, c ≠ 13) : univNL (toCRLF t) = t := by
  induction t with
  | nil => rfl
  | cons c r ih =>
    have hr := ih (fun x hx => h x (by simp [hx]))
    have hc := h c (by simp)
    by_cases h10 : c = 10
    · subst h10; simp [toCRLF, univNL, hr]
    · simp only [toCRLF, h10, ↓reduceIte]; rw [univNL_cons c _ hc, hr]

/-- after universal-newline translation no carriage return is left: a CR inside a value has become a line
    feed, and by `lf_in_value_splits` the loader then takes the rest of the value for a group-code line -/
theorem univNL_no_cr (t : List Nat) : ∀ c ∈ univNL t, c ≠ 13 := by
  have aux : ∀ n (t : List Nat), t.length ≤ n → ∀ c ∈ univNL t, c ≠ 13 := by
    intro n
    induction n with
    | zero =>
      intro t ht c hc
      have : t = [] := List.length_eq_zero_iff.mp (by omega)
      subst this; simp [univNL] at hc
    | succ k ih =>
      intro t ht c hc
      match t with
      | [] => simp [univNL] at hc
      | [x] =>
        simp only [univNL] at hc
        split at hc <;> simp at hc <;> omega
      | x :: d :: r =>
        simp only [univNL] at hc
        have h1 := ih r (by simp at ht; omega)
        have h2 := ih (d :: r) (by simp at ht ⊢; omega)
        split at hc
        · split at hc
          · simp only [List.mem_cons] at hc
            rcases hc with hc | hc
            · omega
            · exact h1 c hc
          · simp only [List.mem_cons] at hc
            rcases hc with hc | hc
            · omega
            · exact h2 c hc
        · simp only [List.mem_cons] at hc
          rcases hc with hc | hc
          · omega
          · exact h2 c hc
  exact aux t.length t (Nat.le_refl _)

/-- ASCII round trip through a CRLF file -/
theorem ascii_crlf_roundtrip {fmt : Nat → List Nat} {parse : List Nat → Option Nat} {Fin : Nat → Prop}
    (ft : FloatText fmt parse Fin) (ts : List (CTag Val)) (h : AsciiWF fmt Fin ts)
    (hcr : ∀ c ∈ render fmt ts, c ≠ 13) :
    asciiLoad parse (univNL (toCRLF (render fmt ts))) = .ok ts := by
  rw [crlf_transparent _ hcr]; exact ascii_tag_roundtrip ft ts h

/-! ## a concrete float text (non-vacuity of the hypotheses; the real one is `repr`/`float`) -/

/-- toy float text: the bit pattern in decimal followed by `.0` -/
def toyFmt (b : Nat) : List Nat := natDigits b ++ [46, 48]
def toyParse (t : List Nat) : Option Nat := some (decVal (t.takeWhile isDig))

theorem toy_floatText : FloatText toyFmt toyParse (fun _ => True) := by
  refine ⟨?_, ?_, ?_⟩
  · intro b _
    have := takeWhile_stop isDig (natDigits b) [46, 48] (natDigits_digits b) (by intro c r e; cases e; decide)
    simp [toyFmt, toyParse, this.1, decVal_natDigits]
  · intro b _ c hc
    simp only [toyFmt, List.mem_append, List.mem_cons, List.not_mem_nil, or_false] at hc
    rcases hc with hc | hc | hc
    · have := natDigits_digits b c hc; simp [isDig] at this; omega
    · omega
    · omega
  · intro b _ h
    simp [toyFmt] at h

theorem toy_jsonFloatTok : JsonFloatTok toyFmt (fun _ => True) := by
  intro b _ rest hs
  obtain ⟨sc, sr, hrest, hsc⟩ := hs
  have hdig := natDigits_digits b
  have hne := natDigits_ne_nil' b
  have hstop : ∀ c r, rest = c :: r → isDig c = false := by
    intro c r e; rw [hrest] at e; cases e; rcases hsc with h | h <;> subst h <;> decide
  have hex := expPart_stop rest (by intro c r e; rw [hrest] at e; cases e; omega)
  have hfr : fracPart (46 :: 48 :: rest) = ([46, 48], rest) := by
    have := takeWhile_stop isDig [] rest (by simp) hstop
    simp only [List.nil_append] at this
    simp [fracPart, isDig, this.1, this.2]
  cases hq : natDigits b with
  | nil => exact absurd hq hne
  | cons d ds =>
    have hd : isDig d = true := hdig d (by simp [hq])
    have hds : ∀ c ∈ ds, isDig c = true := fun c hc => hdig c (by simp [hq, hc])
    have hd45 : d ≠ 45 := by simp [isDig] at hd; omega
    have htw := takeWhile_stop isDig ds (46 :: 48 :: rest) hds (by intro c r e; cases e; decide)
    simp only [toyFmt, hq, List.cons_append, List.append_assoc, List.nil_append, scanNumber, hd45, ↓reduceIte,
      scanCore, hd, Bool.not_true, Bool.false_eq_true]
    by_cases h48 : d = 48
    · obtain ⟨_, hdsn⟩ := natDigits_lead b d ds hq h48
      subst hdsn
      simp [h48, hfr, hex]
    · simp [h48, htw.1, htw.2, hfr, hex]

-- non-vacuity of `AsciiWF` / `JsonWF`: strings with outer blanks, quotes, control characters, a lone
-- surrogate, a non-BMP character, ints, a double, binary data, 3D point, 2D point at the end
def sampleTags : List (CTag Val) :=
  [.single 0 (.str [76, 73, 78, 69]), .single 1 (.str [32, 34, 92, 9, 0xDC80, 0x1F600, 32]), .single 70 (.int (-5)),
   .single 160 (.int (2 ^ 70)), .single 40 (.dbl 7), .single 310 (.bin [0, 255]), .point 10 [.dbl 1, .dbl 2, .dbl 3],
   .point 11 [.dbl 4, .dbl 5]]

def okEq (r : Except TErr (List (CTag Val))) (ts : List (CTag Val)) : Bool :=
  match r with | .ok x => x == ts | .error _ => false
def errEq (r : Except TErr (List (CTag Val))) (e : TErr) : Bool :=
  match r with | .ok _ => false | .error x => x == e

#guard okEq (asciiLoad toyParse (render toyFmt sampleTags)) sampleTags
#guard okEq (asciiLoad toyParse (univNL (toCRLF (render toyFmt sampleTags)))) sampleTags
#guard okEq (jsonLoad toyParse (jsonWrite toyFmt true sampleTags)) (sampleTags ++ [eofTag])
#guard okEq (jsonLoad toyParse (jsonWrite toyFmt false sampleTags)) (sampleTags ++ [eofTag])
-- what the code does outside the hypotheses:
-- a CR inside a string value becomes a line break when the file is read in text mode: the framing breaks
#guard errEq (asciiLoad toyParse (univNL (render toyFmt [.single 1 (.str [97, 13, 98]), .single 2 (.str [99])]))) .structure
-- a LF inside a string value: the loader splits the value
#guard errEq (asciiLoad toyParse (render toyFmt [.single 1 (.str [97, 10, 98]), .single 2 (.str [99])])) .structure
-- a CRLF file read WITHOUT newline translation (StringIO, newline="\n"): code-0 values are stripped, the
-- other strings keep the CR
#guard okEq (asciiLoad toyParse (toCRLF (render toyFmt [.single 0 (.str [76]), .single 1 (.str [97])])))
  [.single 0 (.str [76]), .single 1 (.str [97, 13])]
-- code-0 values lose outer white space (`strip()`), comments vanish, reading stops at (0, EOF)
#guard okEq (asciiLoad toyParse (render toyFmt [.single 0 (.str [32, 76, 0x3000]), .single 999 (.str [99]),
  .single 0 (.str sEOF), .single 1 (.str [97])])) [.single 0 (.str [76]), .single 0 (.str sEOF)]
-- compact JSON: a tag (0, "EOF") in the middle closes the document; json.loads rejects the extra data
#guard errEq (jsonLoad toyParse (jsonWrite toyFmt true [.single 0 (.str sEOF), .single 1 (.str [97])])) .decode

example : JsonWF (fun _ => True) sampleTags := by
  refine ⟨by simp [sampleTags, PointWF, isPoint, inR], ?_, ?_⟩
  · intro t ht
    simp only [sampleTags, List.mem_cons, List.not_mem_nil, or_false] at ht
    rcases ht with h | h | h | h | h | h | h | h <;> subst h <;>
      first
        | exact ⟨by decide, by decide, by decide, by decide⟩
        | exact ⟨by decide, by decide, trivial⟩
        | exact ⟨by decide, by decide, by decide⟩
        | exact ⟨by decide, by decide⟩
        | (intro x hx; simp at hx; rcases hx with h | h | h <;> exact ⟨_, h, trivial⟩)
        | (intro x hx; simp at hx; rcases hx with h | h <;> exact ⟨_, h, trivial⟩)
  · intro t ht
    simp only [sampleTags, List.mem_cons, List.not_mem_nil, or_false] at ht
    rcases ht with h | h | h | h | h | h | h | h <;> subst h <;>
      first
        | trivial
        | (refine ⟨by decide, by decide, ?_⟩
           intro s hs
           cases hs
           constructor
           · intro c hc; simp at hc; omega
           · simp [NoSurrPair, isHi, isLo])
        | exact ⟨by decide, by simp [sEOF], by intro s hs; cases hs⟩

/-! ## recover loader: `byte_tag_compiler(bytes_loader(stream))` agrees with the ASCII loader -/

private theorem notSpaceB_of_printable (c : Nat) (h : 33 ≤ c ∧ c < 127) : isSpaceB c = false := by
  simp only [isSpaceB, Bool.or_eq_false_iff, Bool.and_eq_false_iff, beq_eq_false_iff_ne, decide_eq_false_iff_not]
  omega

private theorem pyIntWsB_showInt (v : Int) : pyIntWsB (showInt v) = some v := by
  unfold pyIntWsB
  have h : ∀ c ∈ showInt v, isSpaceB c = false := by
    intro c hc
    apply notSpaceB_of_printable
    rcases showInt_chars v c hc with h | h
    · omega
    · simp [isDig] at h; omega
  rw [rstripP_none _ _ h, dropWhile_none _ _ h]
  exact parseInt_showInt v

theorem pyIntWsB_codeLine (c : Nat) : pyIntWsB (showCode c ++ [10]) = some (c : Int) := by
  obtain ⟨k, hk⟩ := showCode_split c
  have hdig : ∀ x ∈ natDigits c, isSpaceB x = false := by
    intro x hx
    have := natDigits_digits c x hx
    apply notSpaceB_of_printable
    simp [isDig] at this; omega
  have hne := natDigits_ne_nil' c
  unfold pyIntWsB
  rw [rstripP_snoc_true _ _ _ (by decide), hk]
  have h1 : rstripP isSpaceB (List.replicate k 32 ++ natDigits c) = List.replicate k 32 ++ natDigits c := by
    unfold rstripP
    rw [List.reverse_append]
    cases hq : (natDigits c).reverse with
    | nil => simp at hq; exact absurd hq hne
    | cons d r =>
      have : isSpaceB d = false := hdig d (by
        have : d ∈ (natDigits c).reverse := by rw [hq]; simp
        simpa using this)
      simp only [List.cons_append, List.dropWhile, this]
      rw [← List.cons_append, ← hq]; simp
  rw [h1]
  have h2 : ∀ k : Nat, (List.replicate k 32 ++ natDigits c).dropWhile isSpaceB = natDigits c := by
    intro k
    induction k with
    | zero => simpa using dropWhile_none _ _ hdig
    | succ k ih => simpa [List.replicate_succ, List.dropWhile, show isSpaceB 32 = true by decide] using ih
  rw [h2]
  have := parseInt_showInt (c : Int)
  have hnn : ¬ ((c : Int) < 0) := by omega
  simpa [showInt, hnn] using this

/-- the additional conditions of the recover path, per flattened tag: no carriage return in the value
    text (`rstrip(b"\r\n")`), structure tags (code 0) are upper case without outer blanks
    (`strip().upper()`), other strings hold no `\U+`/`\M+` escape (those are decoded: C09's subject) -/
def RecOK (fmt : Nat → List Nat) (p : Nat × Val) : Prop :=
  (∀ c ∈ valText fmt p.2, c ≠ 13) ∧
  ∀ s, p.2 = .str s → (p.1 = 0 → upperB (stripB s) = s) ∧ (p.1 ≠ 0 → hasEscape s = false)

private theorem bytesLoader_flat (fmt : Nat → List Nat) (fl : List (Nat × Val))
    (h : ∀ p ∈ fl, LineOK fmt p ∧ RecOK fmt p) :
    bytesLoader (readLines (fl.flatMap fun p => renderTag fmt p.1 p.2)) =
      .ok (fl.map fun p => (p.1, Raw.str (valText fmt p.2))) := by
  induction fl with
  | nil => simp [readLines, readLinesAux, bytesLoader]
  | cons p r ih =>
    obtain ⟨⟨hnl, h999, heof⟩, hcr, _⟩ := h p (by simp)
    have hr := ih (fun q hq => h q (by simp [hq]))
    have hcode : ∀ x ∈ showCode p.1, x ≠ 10 := by
      intro x hx
      unfold showCode at hx
      simp only [List.mem_append, List.mem_replicate] at hx
      rcases hx with hx | hx
      · omega
      · have := natDigits_digits _ x hx; simp [isDig] at this; omega
    have e : (List.flatMap (fun p => renderTag fmt p.1 p.2) (p :: r)) =
        showCode p.1 ++ 10 :: (valText fmt p.2 ++ 10 :: List.flatMap (fun p => renderTag fmt p.1 p.2) r) := by
      simp [renderTag]
    rw [e, readLines_line _ _ hcode, readLines_line _ _ hnl]
    have hv : rstripCRLF (valText fmt p.2 ++ [10]) = valText fmt p.2 := by
      unfold rstripCRLF
      rw [rstripP_snoc_true _ _ _ (by simp)]
      exact rstripP_none _ _ (by
        intro c hc
        have h1 := hnl c hc
        have h2 := hcr c hc
        simp [h1, h2])
    simp only [bytesLoader, pyIntWsB_codeLine, hv]
    have hneg : ¬ ((p.1 : Int) < 0) := by omega
    have h999' : ¬ ((p.1 : Int) = 999) := by omega
    have heof' : ¬ ((p.1 : Int) = 0 ∧ valText fmt p.2 = sEOF) := by
      intro ⟨a, b⟩; exact heof ⟨by omega, b⟩
    simp only [hneg, h999', heof', ↓reduceIte, hr, Functor.map, Except.map, Int.toNat_natCast, List.map_cons]

private theorem toFloatB_raw {fmt : Nat → List Nat} {parse : List Nat → Option Nat} {Fin : Nat → Prop}
    (ft : FloatText fmt parse Fin) (b : Nat) (hb : Fin b) :
    toFloatB parse (.str (fmt b)) = .ok (.dbl b) := by
  have hs : stripP isSpaceB (fmt b) = fmt b :=
    stripP_none _ _ (fun c hc => notSpaceB_of_printable c ⟨(ft.ascii b hb c hc).1, (ft.ascii b hb c hc).2.1⟩)
  simp [toFloatB, hs, ft.rt b hb]

private theorem typeSingleB_raw {fmt : Nat → List Nat} {parse : List Nat → Option Nat} {Fin : Nat → Prop}
    (ft : FloatText fmt parse Fin) (c : Nat) (v : Val) (h : ClsOK Fin c v)
    (hrec : ∀ s, v = .str s → (c = 0 → upperB (stripB s) = s) ∧ (c ≠ 0 → hasEscape s = false)) :
    typeSingleB parse c (.str (valText fmt v)) = .ok v := by
  cases v with
  | bin d =>
    obtain ⟨h1, h2⟩ := h
    simp [typeSingleB, valText, h1, unhex_hex d h2]
  | dbl b =>
    obtain ⟨h1, h2, h3⟩ := h
    simp only [typeSingleB, valText, h1, h2, Bool.false_eq_true, ↓reduceIte, toFloatB_raw ft b h3]
  | int i =>
    obtain ⟨h1, h2, h3⟩ := h
    simp [typeSingleB, valText, h1, h2, h3, pyIntWsB_showInt]
  | str s =>
    obtain ⟨h1, h2, h3, _⟩ := h
    obtain ⟨hz, hnz⟩ := hrec s rfl
    simp only [typeSingleB, valText, h1, h2, h3, Bool.false_eq_true, ↓reduceIte]
    by_cases hc : c = 0
    · simp [hc, hz hc]
    · simp [hc, hnz hc]

private theorem typePointB_raw {fmt : Nat → List Nat} {parse : List Nat → Option Nat} {Fin : Nat → Prop}
    (ft : FloatText fmt parse Fin) (xs : List Val) (h : PtOK Fin xs) :
    typePointB parse (xs.map fun x => Raw.str (valText fmt x)) = .ok xs := by
  induction xs with
  | nil => rfl
  | cons x r ih =>
    obtain ⟨b, hb, hf⟩ := h x (by simp)
    have hr := ih (fun y hy => h y (by simp [hy]))
    subst hb
    have e : valText fmt (Val.dbl b) = fmt b := rfl
    simp only [List.map_cons, typePointB, e, toFloatB_raw ft b hf, hr, bind, Except.bind]

/-- per-tag form of `RecOK` -/
def RecTagOK : CTag Val → Prop
  | .single c v => ∀ s, v = .str s → (c = 0 → upperB (stripB s) = s) ∧ (c ≠ 0 → hasEscape s = false)
  | .point _ _ => True

private theorem typeAllB_raw {fmt : Nat → List Nat} {parse : List Nat → Option Nat} {Fin : Nat → Prop}
    (ft : FloatText fmt parse Fin) (ts : List (CTag Val)) (h : ∀ t ∈ ts, TagTyped Fin t ∧ RecTagOK t) :
    typeAllB parse (ts.map (mapT fun v => Raw.str (valText fmt v))) = .ok ts := by
  induction ts with
  | nil => rfl
  | cons t r ih =>
    have hr := ih (fun y hy => h y (by simp [hy]))
    obtain ⟨ht, hrec⟩ := h t (by simp)
    cases t with
    | single c v =>
      simp only [List.map_cons, mapT, typeAllB, typeTagB, typeSingleB_raw ft c v ht hrec, hr, bind,
        Except.bind, Functor.map, Except.map]
    | point c xs =>
      simp only [List.map_cons, mapT, typeAllB, typeTagB, typePointB_raw ft xs ht, hr, bind,
        Except.bind, Functor.map, Except.map]

/-- a string value in the flattened list comes from a single tag (point components are doubles) -/
private theorem flatten_str_mem (Fin : Nat → Prop) (ts : List (CTag Val)) (ht : ∀ t ∈ ts, TagTyped Fin t)
    (p : Nat × Val) (hp : p ∈ flatten ts) (s : List Nat) (hs : p.2 = .str s) :
    CTag.single p.1 (.str s) ∈ ts := by
  induction ts with
  | nil => simp [flatten] at hp
  | cons t r ih =>
    cases t with
    | single c v =>
      simp only [flatten, List.mem_cons] at hp
      rcases hp with hp | hp
      · subst hp; simp only at hs; subst hs; simp
      · exact List.mem_cons_of_mem _ (ih (fun x hx => ht x (by simp [hx])) hp)
    | point c xs =>
      simp only [flatten, List.mem_append] at hp
      rcases hp with hp | hp
      · obtain ⟨hmem, _⟩ := flattenPt_mem c xs 0 p hp
        obtain ⟨b, hb, _⟩ := (ht (.point c xs) (by simp)) p.2 hmem
        rw [hb] at hs; cases hs
      · exact List.mem_cons_of_mem _ (ih (fun x hx => ht x (by simp [hx])) hp)

/-- **recover loader agrees**: on the text the ASCII writer produced for a well-formed tag list, the
    recover path `byte_tag_compiler(bytes_loader(stream))` (ASCII content; after the fix of the trailing
    2D point) returns the same tags as `tag_compiler(ascii_tags_loader(stream))`, namely the tag list.
    Beyond `AsciiWF` the recover path needs: no CR in value texts, upper-case structure tags, no
    `\U+`/`\M+` escapes in strings (it decodes them). -/
theorem recover_loader_agrees {fmt : Nat → List Nat} {parse : List Nat → Option Nat} {Fin : Nat → Prop}
    (ft : FloatText fmt parse Fin) (ts : List (CTag Val)) (h : AsciiWF fmt Fin ts)
    (hrec : ∀ t ∈ ts, RecTagOK t) (hcr : ∀ p ∈ flatten ts, ∀ c ∈ valText fmt p.2, c ≠ 13) :
    recoverLoad parse (render fmt ts) = asciiLoad parse (render fmt ts) ∧
    recoverLoad parse (render fmt ts) = .ok ts := by
  have ha := ascii_tag_roundtrip ft ts h
  obtain ⟨hp, ht, hl⟩ := h
  suffices hs : recoverLoad parse (render fmt ts) = .ok ts by exact ⟨by rw [hs, ha], hs⟩
  unfold recoverLoad
  have hfl : ∀ p ∈ flatten ts, LineOK fmt p ∧ RecOK fmt p := by
    intro p hpm
    refine ⟨hl p hpm, hcr p hpm, ?_⟩
    intro s hs
    have hmem := flatten_str_mem Fin ts ht p hpm s hs
    exact hrec _ hmem s rfl
  rw [render_eq fmt ts hp, bytesLoader_flat fmt _ hfl]
  simp only [bind, Except.bind]
  have e : (flatten ts).map (fun p => (p.1, Raw.str (valText fmt p.2))) =
      flatten (ts.map (mapT fun v => Raw.str (valText fmt v))) :=
    (flatten_map (fun v => Raw.str (valText fmt v)) ts).symm
  rw [e, points_roundtrip isPoint _ (pointWF_map _ _ _ hp)]
  exact typeAllB_raw ft ts (fun t htm => ⟨ht t htm, hrec t htm⟩)

#guard okEq (recoverLoad toyParse (render toyFmt
  [.single 0 (.str [76, 73, 78, 69]), .single 1 (.str [32, 97, 32]), .single 70 (.int (-5)), .point 10 [.dbl 1, .dbl 2]]))
  [.single 0 (.str [76, 73, 78, 69]), .single 1 (.str [32, 97, 32]), .single 70 (.int (-5)), .point 10 [.dbl 1, .dbl 2]]
-- what the recover path does outside the hypotheses: structure tags are upper-cased
#guard okEq (recoverLoad toyParse (render toyFmt [.single 0 (.str [108, 105])])) [.single 0 (.str [76, 73])]

/-! ## `str.isspace` table of the interpreter -/

theorem space_tied : pySpace = Gen.TagTables.pySpaceL := by decide

/-! ## binary data of any length (chunking), the empty payload included (F17 fixed) -/

def chunkBytes (r12 : Bool) (code : Nat) (ch : List Nat) : List Nat :=
  (if r12 ∧ code ≥ 255 then [255] else []) ++ leBytes 2 code ++ [ch.length] ++ ch

private theorem decAll_chunks (r12 : Bool) (code : Nat) (hcls : writerCls code = .binary) (hc : code < 65536)
    (cs : List (List Nat)) (hl : ∀ ch ∈ cs, ch.length < 256) :
    ∀ fuel, cs.length < fuel →
      decAll r12 fuel (cs.flatMap (chunkBytes r12 code)) = .ok (cs.map fun ch => ⟨code, .bin ch⟩) := by
  induction cs with
  | nil => intro fuel hf; cases fuel with
    | zero => omega
    | succ k => simp [decAll]
  | cons ch r ih =>
    intro fuel hf
    cases fuel with
    | zero => omega
    | succ k =>
      have hr := ih (fun x hx => hl x (by simp [hx])) k (by simp at hf; omega)
      have hd := bin_chunk_roundtrip_all r12 code ch (r.flatMap (chunkBytes r12 code)) hcls hc (hl ch (by simp))
      have hne : ((ch :: r).flatMap (chunkBytes r12 code)).isEmpty = false := by
        simp [chunkBytes, leBytes]
      have e : (ch :: r).flatMap (chunkBytes r12 code) =
          (if r12 ∧ code ≥ 255 then [255] else []) ++ leBytes 2 code ++ [ch.length] ++ ch ++
            r.flatMap (chunkBytes r12 code) := by
        simp [chunkBytes]
      rw [decAll, hne]
      simp only [Bool.false_eq_true, ↓reduceIte]
      rw [e, hd]
      simp only [bind, Except.bind, hr, List.map_cons]

/-- binary data of ANY length, every binary data code (310..319, 1004), both group-code widths (R12 frames
    310..319 since the fix of F7): the loader returns one tag per chunk the writer produced, the chunks
    concatenate to the payload, and there is always at least one chunk — the empty payload is one
    chunk of size 0 (before the fix the empty binary tag vanished from binary DXF, finding F17) -/
theorem bin_data_roundtrip (r12 : Bool) (code : Nat) (data : List Nat)
    (hcls : writerCls code = .binary) (hc : code < 65536) :
    ∃ bs, encTag r12 ⟨code, .bin data⟩ = .ok bs ∧
      (∀ fuel, (binChunks data).length < fuel →
        decAll r12 fuel bs = .ok ((binChunks data).map fun ch => ⟨code, .bin ch⟩)) ∧
      (binChunks data).flatten = data ∧ binChunks data ≠ [] := by
  have hb : ∀ ch ∈ binChunks data, ch.length < 256 := by
    intro ch hch
    unfold binChunks at hch
    split at hch
    · simp at hch; subst hch; simp
    · have := (chunks_bounds 127 (by decide) data ch hch).2; omega
  refine ⟨(binChunks data).flatMap (chunkBytes r12 code), ?_, ?_, ?_, ?_⟩
  · simp only [encTag, hcls, hc, ↓reduceIte]; rfl
  · exact decAll_chunks r12 code hcls hc _ hb
  · unfold binChunks
    split
    · rename_i h; subst h; rfl
    · exact chunks_concat 127 (by decide) data
  · unfold binChunks
    split
    · simp
    · rename_i h
      rw [chunks]; simp [h]

example : writerCls 310 = .binary ∧ writerCls 1004 = .binary := by decide
#guard binChunks [] == [[]]
#guard (binChunks (List.replicate 300 7)).map List.length == [127, 127, 46]

/-! ## `packedtags`: VertexArray / TagArray / TagList -/

private theorem vaExport_flatten {α : Type} (code : Nat) (vs : List (List α))
    (h : ∀ v ∈ vs, v.length = 2 ∨ v.length = 3) :
    vaExport code vs = flatten (vs.map (CTag.point code)) := by
  induction vs with
  | nil => rfl
  | cons v r ih =>
    simp only [vaExport, List.map_cons, flatten, take3 v (h v (by simp)), ih (fun x hx => h x (by simp [hx]))]

private theorem pointWF_va {α : Type} (code : Nat) (hpt : isPoint code = true) (vs : List (List α))
    (h : ∀ v ∈ vs, v.length = 2 ∨ v.length = 3) : PointWF isPoint (vs.map (CTag.point code)) := by
  induction vs with
  | nil => trivial
  | cons v r ih =>
    refine ⟨hpt, h v (by simp), ?_, ih (fun x hx => h x (by simp [hx]))⟩
    intro _
    cases r with
    | nil => trivial
    | cons v2 r2 => simp only [List.map_cons]; omega

private theorem filterMap_points {α : Type} (code : Nat) (vs : List (List α)) :
    (vs.map (CTag.point code)).filterMap (ptVal code) = vs := by
  induction vs with
  | nil => rfl
  | cons v r ih => rw [List.map_cons, List.filterMap_cons]; simp only [ptVal, ↓reduceIte, ih]

/-- `VertexArray`: the tags `export_dxf` writes compile (`tag_compiler`) to one vertex tag per vertex
    and `from_tags` collects exactly the vertices — for 2D and 3D arrays of any length -/
theorem vertex_array_roundtrip {α : Type} (size code : Nat) (hs : size = 2 ∨ size = 3)
    (hpt : isPoint code = true) (vs : List (List α)) (h : ∀ v ∈ vs, v.length = size) :
    compile isPoint (vaExport code vs) = .ok (vs.map (CTag.point code)) ∧
    vaFromTags size code (vs.map (CTag.point code)) = some vs := by
  have h23 : ∀ v ∈ vs, v.length = 2 ∨ v.length = 3 := by
    intro v hv; rw [h v hv]; exact hs
  constructor
  · rw [vaExport_flatten code vs h23]
    exact points_roundtrip isPoint _ (pointWF_va code hpt vs h23)
  · have e : (vs.map (CTag.point code)).filterMap (ptVal code) = vs := filterMap_points code vs
    have : vs.all (fun v => v.length == size) = true := by
      simp only [List.all_eq_true, beq_iff_eq]; exact h
    unfold vaFromTags
    rw [e, this]; rfl

/-- `from_tags` picks the vertices out of a longer tag list: tags with other codes do not matter -/
theorem vertex_array_embedded {α : Type} (size code : Nat) (a b : List (CTag α)) (vs : List (List α))
    (h : ∀ v ∈ vs, v.length = size)
    (ha : ∀ t ∈ a ++ b, ∀ xs, t ≠ .point code xs) :
    vaFromTags size code (a ++ vs.map (CTag.point code) ++ b) = some vs := by
  have none_of : ∀ l : List (CTag α), (∀ t ∈ l, ∀ xs, t ≠ .point code xs) → l.filterMap (ptVal code) = [] := by
    intro l hl
    induction l with
    | nil => rfl
    | cons t r ih =>
      have hr := ih (fun x hx => hl x (by simp [hx]))
      cases t with
      | single c v => rw [List.filterMap_cons]; simp only [ptVal, hr]
      | point c xs =>
        have : c ≠ code := by intro e; subst e; exact hl _ (by simp) xs rfl
        rw [List.filterMap_cons]; simp only [ptVal, this, ↓reduceIte, hr]
  have e : (a ++ vs.map (CTag.point code) ++ b).filterMap (ptVal code) = vs := by
    rw [List.filterMap_append, List.filterMap_append, filterMap_points, none_of a (fun t ht => ha t (by simp [ht])),
      none_of b (fun t ht => ha t (by simp [ht]))]
    simp
  have : vs.all (fun v => v.length == size) = true := by
    simp only [List.all_eq_true, beq_iff_eq]; exact h
  unfold vaFromTags
  rw [e, this]; rfl

/-- `TagList` / `TagArray`: `from_tags` collects exactly the exported values, wherever they stand -/
theorem tag_list_roundtrip {α : Type} (code : Nat) (a b : List (Nat × α)) (vs : List α)
    (ha : ∀ t ∈ a ++ b, t.1 ≠ code) :
    tlFromTags code (a ++ tlExport code vs ++ b) = vs := by
  have none_of : ∀ l : List (Nat × α), (∀ t ∈ l, t.1 ≠ code) → l.filter (fun t => t.1 == code) = [] := by
    intro l hl
    simp only [List.filter_eq_nil_iff, beq_iff_eq]
    exact hl
  have mid : (tlExport code vs).filter (fun t => t.1 == code) = tlExport code vs := by
    simp [tlExport, List.filter_eq_self]
  unfold tlFromTags
  simp only [List.filter_append, mid, none_of a (fun t ht => ha t (by simp [ht])),
    none_of b (fun t ht => ha t (by simp [ht])), List.nil_append, List.append_nil]
  simp [tlExport, List.map_map, Function.comp_def]

example : isPoint 10 = true := by decide
#guard vaFromTags 2 10 [CTag.point 10 [1, 2], .single 40 (5 : Nat), .point 10 [3, 4], .point 11 [0, 0]] == some [[1, 2], [3, 4]]
#guard vaFromTags 2 10 [CTag.point 10 [1, 2], .point 10 [3, 4, (5 : Nat)]] == none

/-! ## `internal_tag_compiler` (Tags.from_text / write_str paths) reads what `TagWriter` wrote -/

private theorem splitLF_ne_nil (s : List Nat) : splitLF s ≠ [] := by
  induction s with
  | nil => simp [splitLF]
  | cons c r ih =>
    simp only [splitLF]
    split
    · simp
    · cases h : splitLF r with
      | nil => exact absurd h ih
      | cons l ls => simp

private theorem splitLF_line (a rest : List Nat) (h : ∀ c ∈ a, c ≠ 10) :
    splitLF (a ++ 10 :: rest) = a :: splitLF rest := by
  induction a with
  | nil => simp [splitLF]
  | cons c r ih =>
    have hc := h c (by simp)
    have hr := ih (fun x hx => h x (by simp [hx]))
    simp only [List.cons_append, splitLF, hc, ↓reduceIte, hr]

def lines2 (fmt : Nat → List Nat) (p : Nat × Val) : List (List Nat) := [showCode p.1, valText fmt p.2]

private theorem showCode_noLF (c : Nat) : ∀ x ∈ showCode c, x ≠ 10 := by
  intro x hx
  unfold showCode at hx
  simp only [List.mem_append, List.mem_replicate] at hx
  rcases hx with hx | hx
  · omega
  · have := natDigits_digits _ x hx; simp [isDig] at this; omega

private theorem splitLF_render (fmt : Nat → List Nat) (fl : List (Nat × Val))
    (h : ∀ p ∈ fl, ∀ c ∈ valText fmt p.2, c ≠ 10) :
    splitLF (fl.flatMap fun p => renderTag fmt p.1 p.2) = fl.flatMap (lines2 fmt) ++ [[]] := by
  induction fl with
  | nil => simp [splitLF]
  | cons p r ih =>
    have hr := ih (fun q hq => h q (by simp [hq]))
    have e : (List.flatMap (fun p => renderTag fmt p.1 p.2) (p :: r)) =
        showCode p.1 ++ 10 :: (valText fmt p.2 ++ 10 :: List.flatMap (fun p => renderTag fmt p.1 p.2) r) := by
      simp [renderTag]
    rw [e, splitLF_line _ _ (showCode_noLF p.1), splitLF_line _ _ (h p (by simp)), hr]
    simp [lines2]

private theorem render_last (fmt : Nat → List Nat) (fl : List (Nat × Val)) (hne : fl ≠ []) :
    (fl.flatMap fun p => renderTag fmt p.1 p.2).getLast? = some 10 := by
  induction fl with
  | nil => exact absurd rfl hne
  | cons p r ih =>
    cases r with
    | nil =>
      have e : renderTag fmt p.1 p.2 = (showCode p.1 ++ [10] ++ valText fmt p.2) ++ [10] := rfl
      simp only [List.flatMap_cons, List.flatMap_nil, List.append_nil, e, List.getLast?_concat]
    | cons q r2 =>
      have := ih (by simp)
      rw [List.flatMap_cons, List.getLast?_append, this]; simp

/-- the lines `internal_tag_compiler` sees for a written, non-empty tag list: code line, value line, … -/
private theorem internalLines_render (fmt : Nat → List Nat) (fl : List (Nat × Val)) (hne : fl ≠ [])
    (h : ∀ p ∈ fl, ∀ c ∈ valText fmt p.2, c ≠ 10) :
    internalLines (fl.flatMap fun p => renderTag fmt p.1 p.2) = fl.flatMap (lines2 fmt) := by
  unfold internalLines
  simp only [render_last fmt fl hne, ↓reduceIte, splitLF_render fmt fl h]
  simp

theorem pyIntWs_showCode (c : Nat) : pyIntWs (showCode c) = some (c : Int) := by
  have := pyIntWs_codeLine c
  unfold pyIntWs at this ⊢
  rwa [rstripP_snoc_true _ _ _ (by decide)] at this

/-- typing without `strip()` -/
def ClsOKi (Fin : Nat → Prop) (c : Nat) : Val → Prop
  | .bin d => isBinary c = true ∧ ∀ b ∈ d, b < 256
  | .dbl b => isBinary c = false ∧ isDouble c = true ∧ Fin b
  | .int _ => isBinary c = false ∧ isDouble c = false ∧ isIntCode c = true
  | .str _ => isBinary c = false ∧ isDouble c = false ∧ isIntCode c = false

def TagTypedI (Fin : Nat → Prop) : CTag Val → Prop
  | .single c v => ClsOKi Fin c v
  | .point _ xs => PtOK Fin xs

private theorem toFloatI_fmt {fmt : Nat → List Nat} {parse : List Nat → Option Nat} {Fin : Nat → Prop}
    (ft : FloatText fmt parse Fin) (b : Nat) (hb : Fin b) : toFloatI parse (fmt b) = .ok (.dbl b) := by
  have hs : stripNum (fmt b) = fmt b :=
    stripP_none _ _ (fun c hc => notSpace_of_printable c ⟨(ft.ascii b hb c hc).1, (ft.ascii b hb c hc).2.1⟩)
  simp [toFloatI, hs, ft.rt b hb]

private theorem typeSingleI_text {fmt : Nat → List Nat} {parse : List Nat → Option Nat} {Fin : Nat → Prop}
    (ft : FloatText fmt parse Fin) (c : Nat) (v : Val) (h : ClsOKi Fin c v) :
    typeSingleI parse c (valText fmt v) = .ok v := by
  cases v with
  | bin d => simp [typeSingleI, valText, h.1, unhex_hex d h.2]
  | dbl b => simp only [typeSingleI, valText, h.1, h.2.1, Bool.false_eq_true, ↓reduceIte, toFloatI_fmt ft b h.2.2]
  | int i => simp [typeSingleI, valText, h.1, h.2.1, h.2.2, pyIntWs_showInt]
  | str s => simp [typeSingleI, valText, h.1, h.2.1, h.2.2]

private theorem flatten_lines_head (fmt : Nat → List Nat) (t : CTag Val) (r : List (CTag Val))
    (h : PointWF isPoint (t :: r)) :
    ∃ c vt rest, (flatten (t :: r)).flatMap (lines2 fmt) = showCode c :: vt :: rest ∧
      c = (match t with | .single c _ => c | .point c _ => c) := by
  cases t with
  | single c v => exact ⟨c, valText fmt v, (flatten r).flatMap (lines2 fmt), by simp [flatten, lines2], rfl⟩
  | point c xs =>
    obtain ⟨_, hl, _, _⟩ := h
    match xs, hl with
    | [x, y], _ =>
      exact ⟨c, valText fmt x, showCode (c + 10) :: valText fmt y :: (flatten r).flatMap (lines2 fmt),
        by simp [flatten, flattenPt, lines2], rfl⟩
    | [x, y, z], _ =>
      exact ⟨c, valText fmt x, showCode (c + 10) :: valText fmt y :: showCode (c + 20) :: valText fmt z ::
        (flatten r).flatMap (lines2 fmt), by simp [flatten, flattenPt, lines2], rfl⟩

private theorem internalGo_lines {fmt : Nat → List Nat} {parse : List Nat → Option Nat} {Fin : Nat → Prop}
    (ft : FloatText fmt parse Fin) (ts : List (CTag Val)) (hp : PointWF isPoint ts)
    (ht : ∀ t ∈ ts, TagTypedI Fin t) :
    internalGo parse ((flatten ts).flatMap (lines2 fmt)) = .ok ts := by
  induction ts with
  | nil => simp [flatten, internalGo]
  | cons t r ih =>
    have htt := ht t (by simp)
    have htr : ∀ x ∈ r, TagTypedI Fin x := fun x hx => ht x (by simp [hx])
    cases t with
    | single c v =>
      obtain ⟨hc, hr⟩ := hp
      have hnn : ¬ ((c : Int) < 0) := by omega
      simp only [flatten, List.flatMap_cons, lines2, List.cons_append, List.nil_append]
      rw [internalGo]
      simp only [pyIntWs_showCode, hnn, ↓reduceIte, Int.toNat_natCast, hc, Bool.false_eq_true,
        typeSingleI_text ft c v htt, ih hr htr, Functor.map, Except.map]
    | point c xs =>
      obtain ⟨hc, hl, hz, hr⟩ := hp
      have hnn : ¬ ((c : Int) < 0) := by omega
      match xs, hl with
      | [x, y, z], _ =>
        obtain ⟨bx, hbx, hfx⟩ := htt x (by simp)
        obtain ⟨by', hby, hfy⟩ := htt y (by simp)
        obtain ⟨bz, hbz, hfz⟩ := htt z (by simp)
        subst hbx hby hbz
        have e : (flatten (CTag.point c [Val.dbl bx, Val.dbl by', Val.dbl bz] :: r)).flatMap (lines2 fmt) =
            showCode c :: fmt bx :: showCode (c + 10) :: fmt by' :: showCode (c + 20) :: fmt bz ::
              (flatten r).flatMap (lines2 fmt) := by
          simp [flatten, flattenPt, lines2, valText]
        rw [e, internalGo]
        have e20 : ((c + 20 : Nat) : Int) = (c : Int) + 20 := by omega
        simp only [pyIntWs_showCode, hnn, ↓reduceIte, Int.toNat_natCast, hc, e20, pointI, List.mapM_cons,
          List.mapM_nil, toFloatI_fmt ft _ hfx, toFloatI_fmt ft _ hfy, toFloatI_fmt ft _ hfz, bind,
          Except.bind, pure, Except.pure, ih hr htr, Functor.map, Except.map]
      | [x, y], _ =>
        obtain ⟨bx, hbx, hfx⟩ := htt x (by simp)
        obtain ⟨by', hby, hfy⟩ := htt y (by simp)
        subst hbx hby
        cases r with
        | nil =>
          have e : (flatten [CTag.point c [Val.dbl bx, Val.dbl by']]).flatMap (lines2 fmt) =
              [showCode c, fmt bx, showCode (c + 10), fmt by'] := by
            simp [flatten, flattenPt, lines2, valText]
          rw [e, internalGo]
          simp only [pyIntWs_showCode, hnn, ↓reduceIte, Int.toNat_natCast, hc, pointI, List.mapM_cons,
            List.mapM_nil, toFloatI_fmt ft _ hfx, toFloatI_fmt ft _ hfy, bind, Except.bind, pure,
            Except.pure, Functor.map, Except.map]
        | cons t2 r2 =>
          obtain ⟨c2, vt2, rest2, hf, hc2⟩ := flatten_lines_head fmt t2 r2 hr
          have hne : c2 ≠ c + 20 := by
            have := hz rfl
            cases t2 <;> simp_all
          have hih := ih hr htr
          have e : (flatten (CTag.point c [Val.dbl bx, Val.dbl by'] :: t2 :: r2)).flatMap (lines2 fmt) =
              showCode c :: fmt bx :: showCode (c + 10) :: fmt by' :: (flatten (t2 :: r2)).flatMap (lines2 fmt) := by
            simp [flatten, flattenPt, lines2, valText]
          rw [e, hf] at *
          rw [internalGo]
          have hne' : ¬ ((c2 : Int) = (c : Int) + 20) := by omega
          simp only [pyIntWs_showCode, hnn, ↓reduceIte, Int.toNat_natCast, hc, hne', pointI, List.mapM_cons,
            List.mapM_nil, toFloatI_fmt ft _ hfx, toFloatI_fmt ft _ hfy, bind, Except.bind, pure,
            Except.pure, hih, Functor.map, Except.map]

/-- well-formedness for the internal compiler: typing (no `strip()` condition, comments and EOF tags are
    ordinary tags here), `PointWF`, no line feed in value texts; the list is not empty -/
def InternalWF (fmt : Nat → List Nat) (Fin : Nat → Prop) (ts : List (CTag Val)) : Prop :=
  ts ≠ [] ∧ PointWF isPoint ts ∧ (∀ t ∈ ts, TagTypedI Fin t) ∧ ∀ p ∈ flatten ts, ∀ c ∈ valText fmt p.2, c ≠ 10

/-- `internal_tag_compiler` (behind `Tags.from_text`, `ExtendedTags.from_text`, `write_str` of the tag
    collector and the JSON writer) reads back every non-empty well-formed tag list the ASCII writer wrote,
    splitting the text at LF only (characters such as U+2028, U+0085, FF, FS … stay inside the value) -/
theorem internal_tag_roundtrip {fmt : Nat → List Nat} {parse : List Nat → Option Nat} {Fin : Nat → Prop}
    (ft : FloatText fmt parse Fin) (ts : List (CTag Val)) (h : InternalWF fmt Fin ts) :
    internalLoad parse (render fmt ts) = .ok ts := by
  obtain ⟨hne, hp, ht, hl⟩ := h
  have hfl : flatten ts ≠ [] := by
    cases ts with
    | nil => exact absurd rfl hne
    | cons t r =>
      obtain ⟨c, vt, rest, hf, _⟩ := flatten_lines_head fmt t r hp
      intro h0; rw [h0] at hf; simp at hf
  unfold internalLoad
  rw [render_eq fmt ts hp, internalLines_render fmt _ hfl hl]
  exact internalGo_lines ft ts hp ht

#guard okEq (internalLoad toyParse (render toyFmt [.single 999 (.str [0x2028, 0x85, 12, 28]), .single 0 (.str [32, 88, 32]),
  .single 0 (.str sEOF), .point 10 [.dbl 1, .dbl 2]]))
  [.single 999 (.str [0x2028, 0x85, 12, 28]), .single 0 (.str [32, 88, 32]), .single 0 (.str sEOF), .point 10 [.dbl 1, .dbl 2]]
-- what the code does for the EMPTY text: `"".split("\n")` is `[""]` and `int("")` raises ValueError
#guard errEq (internalLoad toyParse (render toyFmt [])) .value

/-! ## recover loader on CRLF files (binary stream: no newline translation, `rstrip(b"\r\n")`) -/

private theorem toCRLF_append (a b : List Nat) : toCRLF (a ++ b) = toCRLF a ++ toCRLF b := by
  induction a with
  | nil => rfl
  | cons c r ih => simp only [List.cons_append, toCRLF]; split <;> simp [ih]

private theorem toCRLF_noLF (a : List Nat) (h : ∀ c ∈ a, c ≠ 10) : toCRLF a = a := by
  induction a with
  | nil => rfl
  | cons c r ih =>
    simp only [toCRLF, h c (by simp), ↓reduceIte, ih (fun x hx => h x (by simp [hx]))]

private theorem toCRLF_render (fmt : Nat → List Nat) (fl : List (Nat × Val))
    (h : ∀ p ∈ fl, ∀ c ∈ valText fmt p.2, c ≠ 10) :
    toCRLF (fl.flatMap fun p => renderTag fmt p.1 p.2) =
      fl.flatMap fun p => showCode p.1 ++ 13 :: 10 :: (valText fmt p.2 ++ [13, 10]) := by
  induction fl with
  | nil => rfl
  | cons p r ih =>
    have hr := ih (fun q hq => h q (by simp [hq]))
    rw [List.flatMap_cons, toCRLF_append, hr]
    simp only [renderTag, toCRLF_append, toCRLF_noLF _ (showCode_noLF p.1), toCRLF_noLF _ (h p (by simp)),
      List.flatMap_cons]
    simp [toCRLF]

private theorem pyIntWsB_codeLineCR (c : Nat) : pyIntWsB (showCode c ++ [13, 10]) = some (c : Int) := by
  have := pyIntWsB_codeLine c
  unfold pyIntWsB at this ⊢
  have e : showCode c ++ [13, 10] = (showCode c ++ [13]) ++ [10] := by simp
  rw [e, rstripP_snoc_true _ _ _ (by decide), rstripP_snoc_true _ _ _ (by decide)]
  rwa [rstripP_snoc_true _ _ _ (by decide)] at this

/-- the recover loader reads a CRLF file (as bytes, no newline translation) like the LF file -/
theorem recover_crlf_roundtrip {fmt : Nat → List Nat} {parse : List Nat → Option Nat} {Fin : Nat → Prop}
    (ft : FloatText fmt parse Fin) (ts : List (CTag Val)) (h : AsciiWF fmt Fin ts)
    (hrec : ∀ t ∈ ts, RecTagOK t) (hcr : ∀ p ∈ flatten ts, ∀ c ∈ valText fmt p.2, c ≠ 13) :
    recoverLoad parse (toCRLF (render fmt ts)) = .ok ts := by
  have hlf := (recover_loader_agrees ft ts h hrec hcr).2
  obtain ⟨hp, ht, hl⟩ := h
  -- both texts give the same raw tags
  suffices hs : bytesLoader (readLines (toCRLF (render fmt ts))) = bytesLoader (readLines (render fmt ts)) by
    unfold recoverLoad at hlf ⊢
    rw [hs]; exact hlf
  have hnl : ∀ p ∈ flatten ts, ∀ c ∈ valText fmt p.2, c ≠ 10 := fun p hp => (hl p hp).1
  rw [render_eq fmt ts hp, toCRLF_render fmt _ hnl]
  have hfl : ∀ p ∈ flatten ts, LineOK fmt p ∧ ∀ c ∈ valText fmt p.2, c ≠ 13 := fun p hp => ⟨hl p hp, hcr p hp⟩
  generalize flatten ts = fl at hfl
  clear hlf hnl hl hcr hrec ht hp
  induction fl with
  | nil => rfl
  | cons p r ih =>
    obtain ⟨⟨hnl, h999, heof⟩, hcr⟩ := hfl p (by simp)
    have hr := ih (fun q hq => hfl q (by simp [hq]))
    have hcode13 : ∀ x ∈ showCode p.1 ++ [13], x ≠ 10 := by
      intro x hx
      simp only [List.mem_append, List.mem_singleton] at hx
      rcases hx with hx | hx
      · exact showCode_noLF p.1 x hx
      · omega
    have hv13 : ∀ x ∈ valText fmt p.2 ++ [13], x ≠ 10 := by
      intro x hx
      simp only [List.mem_append, List.mem_singleton] at hx
      rcases hx with hx | hx
      · exact hnl x hx
      · omega
    have e1 : (List.flatMap (fun p => showCode p.1 ++ 13 :: 10 :: (valText fmt p.2 ++ [13, 10])) (p :: r)) =
        (showCode p.1 ++ [13]) ++ 10 :: ((valText fmt p.2 ++ [13]) ++ 10 ::
          List.flatMap (fun p => showCode p.1 ++ 13 :: 10 :: (valText fmt p.2 ++ [13, 10])) r) := by
      simp
    have e2 : (List.flatMap (fun p => renderTag fmt p.1 p.2) (p :: r)) =
        showCode p.1 ++ 10 :: (valText fmt p.2 ++ 10 :: List.flatMap (fun p => renderTag fmt p.1 p.2) r) := by
      simp [renderTag]
    rw [e1, e2, readLines_line _ _ hcode13, readLines_line _ _ hv13, readLines_line _ _ (showCode_noLF p.1),
      readLines_line _ _ hnl]
    have hnone : ∀ c ∈ valText fmt p.2, (c == 13 || c == 10) = false := by
      intro c hc
      have h1 := hnl c hc
      have h2 := hcr c hc
      simp [h1, h2]
    have hv1 : rstripCRLF (valText fmt p.2 ++ [13] ++ [10]) = valText fmt p.2 := by
      unfold rstripCRLF
      rw [rstripP_snoc_true _ _ _ (by simp), rstripP_snoc_true _ _ _ (by simp)]
      exact rstripP_none _ _ hnone
    have hv2 : rstripCRLF (valText fmt p.2 ++ [10]) = valText fmt p.2 := by
      unfold rstripCRLF
      rw [rstripP_snoc_true _ _ _ (by simp)]
      exact rstripP_none _ _ hnone
    have hc1 : pyIntWsB (showCode p.1 ++ [13] ++ [10]) = some (p.1 : Int) := by
      have := pyIntWsB_codeLineCR p.1
      simpa using this
    simp only [bytesLoader, hc1, pyIntWsB_codeLine, hv1, hv2, hr]

/-! ## outside the guards: what the ASCII loader does with a line feed in a value and with blanks around a
    structure tag (full-strength forms of the `AsciiWF` hypotheses) -/

/-- a line feed inside a string value splits the value: the loader delivers the part before the LF and
    goes on reading the part after it as the next GROUP CODE line (so `LineOK`'s "no LF" is exactly the
    guard of the framing) -/
theorem lf_in_value_splits (fmt : Nat → List Nat) (c : Nat) (a b rest : List Nat)
    (ha : ∀ x ∈ a, x ≠ 10) (h999 : c ≠ 999) (heof : ¬ (c = 0 ∧ a = sEOF)) :
    asciiLoader (readLines (renderTag fmt c (.str (a ++ 10 :: b)) ++ rest)) =
      (fun ts => (c, Raw.str a) :: ts) <$> asciiLoader (readLines (b ++ 10 :: rest)) := by
  have e : renderTag fmt c (.str (a ++ 10 :: b)) ++ rest = showCode c ++ 10 :: (a ++ 10 :: (b ++ 10 :: rest)) := by
    simp [renderTag, valText]
  rw [e, readLines_line _ _ (showCode_noLF c), readLines_line _ _ ha]
  have hv : rstripLF (a ++ [10]) = a := by
    unfold rstripLF
    rw [rstripP_snoc_true _ _ _ (by simp)]
    exact rstripP_none _ _ (by intro x hx; simpa using ha x hx)
  have hneg : ¬ ((c : Int) < 0) := by omega
  have h999' : ¬ ((c : Int) = 999) := by omega
  have heof' : ¬ ((c : Int) = 0 ∧ a = sEOF) := by
    intro ⟨h1, h2⟩; exact heof ⟨by omega, h2⟩
  simp only [asciiLoader, pyIntWs_codeLine, hv, hneg, h999', heof', ↓reduceIte, Int.toNat_natCast]

/-- typing without the `strip()` guard -/
def ClsOK0 (Fin : Nat → Prop) (c : Nat) : Val → Prop
  | .bin d => isBinary c = true ∧ ∀ b ∈ d, b < 256
  | .dbl b => isBinary c = false ∧ isDouble c = true ∧ Fin b
  | .int _ => isBinary c = false ∧ isDouble c = false ∧ isIntCode c = true
  | .str _ => isBinary c = false ∧ isDouble c = false ∧ isIntCode c = false

/-- what `tag_compiler` returns for a written value: structure tags (code 0) lose their outer white space -/
def norm0 (c : Nat) : Val → Val
  | .str s => .str (if c = 0 then strip s else s)
  | v => v

def norm0T : CTag Val → CTag Val
  | .single c v => .single c (norm0 c v)
  | t => t

/-- full-strength form of the typing step: for ANY string, `tag_compiler` returns the string itself, except
    for code 0 where it returns `strip()` of it — `ClsOK`'s `strip s = s` is exactly the guard -/
theorem typeSingle_general {fmt : Nat → List Nat} {parse : List Nat → Option Nat} {Fin : Nat → Prop}
    (ft : FloatText fmt parse Fin) (compact : Bool) (c : Nat) (v : Val) (h : ClsOK0 Fin c v) :
    typeSingle parse c (rawOf fmt compact v) = .ok (norm0 c v) := by
  cases v with
  | bin d => exact typeSingle_raw ft compact c (.bin d) h
  | dbl b => exact typeSingle_raw ft compact c (.dbl b) h
  | int i => exact typeSingle_raw ft compact c (.int i) h
  | str s =>
    obtain ⟨h1, h2, h3⟩ := h
    simp only [typeSingle, rawOf, h1, h2, h3, Bool.false_eq_true, ↓reduceIte, norm0]

/-- full-strength ASCII statement: every typed tag list without LF in its value texts, comments and EOF
    markers is read back as the list with `strip()` applied to the code-0 strings -/
theorem ascii_tag_general {fmt : Nat → List Nat} {parse : List Nat → Option Nat} {Fin : Nat → Prop}
    (ft : FloatText fmt parse Fin) (ts : List (CTag Val)) (hp : PointWF isPoint ts)
    (ht : ∀ t ∈ ts, match t with | .single c v => ClsOK0 Fin c v | .point _ xs => PtOK Fin xs)
    (hl : ∀ p ∈ flatten ts, LineOK fmt p) :
    asciiLoad parse (render fmt ts) = .ok (ts.map norm0T) := by
  unfold asciiLoad
  rw [render_eq fmt ts hp, asciiLoader_flat fmt _ hl]
  simp only [bind, Except.bind]
  have e : (List.map (fun p => (p.1, Raw.str (valText fmt p.2))) (flatten ts)) =
      (flatten ts).map (fun p => (p.1, rawOf fmt false p.2)) := by
    apply List.map_congr_left
    intro p _
    cases p.2 <;> simp [rawOf, valText]
  rw [e]
  unfold tagCompile
  rw [← flatten_map, points_roundtrip isPoint _ (pointWF_map _ _ _ hp)]
  clear hp hl e
  induction ts with
  | nil => rfl
  | cons t r ih =>
    have hr := ih (fun y hy => ht y (by simp [hy]))
    have htt := ht t (by simp)
    cases t with
    | single c v =>
      simp only [List.map_cons, mapT, typeAll, typeTag, typeSingle_general ft false c v htt, hr, bind,
        Except.bind, Functor.map, Except.map, norm0T]
    | point c xs =>
      simp only [List.map_cons, mapT, typeAll, typeTag, typePoint_raw ft false xs htt, hr, bind,
        Except.bind, Functor.map, Except.map, norm0T]

#guard okEq (asciiLoad toyParse (render toyFmt [.single 0 (.str [32, 76, 9]), .single 1 (.str [32, 76, 9])]))
  [.single 0 (.str [76]), .single 1 (.str [32, 76, 9])]

/-! ## binary files: the loader picks the group-code width the writer used (`scan_params`) -/

private theorem isPrefixOf_append_long (pat l tail : List Nat) (h : pat.length ≤ l.length) :
    pat.isPrefixOf (l ++ tail) = pat.isPrefixOf l := by
  induction pat generalizing l with
  | nil => simp
  | cons a r ih =>
    cases l with
    | nil => simp at h
    | cons b q =>
      simp only [List.cons_append, List.isPrefixOf]
      rw [ih q (by simp at h; omega)]

private theorem findSub_length (pat l : List Nat) (i : Nat) (h : findSub pat l = some i) :
    i + pat.length ≤ l.length := by
  induction l generalizing i with
  | nil =>
    simp only [findSub] at h
    split at h
    · rename_i he; cases h; simp at he; simp [he]
    · cases h
  | cons c r ih =>
    simp only [findSub] at h
    split at h
    · rename_i hp
      cases h
      have := List.IsPrefix.length_le (List.isPrefixOf_iff_prefix.mp hp)
      simpa using this
    · cases hq : findSub pat r with
      | none => rw [hq] at h; cases h
      | some k =>
        rw [hq] at h; simp at h; subst h
        have := ih k hq
        simp; omega

/-- a match found in a prefix of the data is the match found in the whole data -/
private theorem findSub_append (pat l tail : List Nat) (i : Nat) (h : findSub pat l = some i) :
    findSub pat (l ++ tail) = some i := by
  induction l generalizing i with
  | nil =>
    simp only [findSub] at h
    split at h
    · rename_i he
      cases h
      have : pat = [] := by simpa using he
      subst this
      cases tail <;> simp [findSub]
    · cases h
  | cons c r ih =>
    have hlen := findSub_length pat (c :: r) i h
    simp only [findSub] at h
    simp only [List.cons_append, findSub]
    rw [← List.cons_append, isPrefixOf_append_long pat (c :: r) tail (by omega)]
    split at h
    · rename_i hp; cases h; simp [hp]
    · rename_i hp
      cases hq : findSub pat r with
      | none => rw [hq] at h; cases h
      | some k =>
        rw [hq] at h; simp at h; subst h
        simp [hp, ih k hq]

private theorem take_append_ge (a b : List Nat) (n : Nat) (h : a.length ≤ n) :
    (a ++ b).take n = a ++ b.take (n - a.length) := by
  induction a generalizing n with
  | nil => simp
  | cons x r ih =>
    cases n with
    | zero => simp at h
    | succ k =>
      simp only [List.cons_append, List.take_succ_cons, List.length_cons, Nat.add_sub_add_right]
      rw [ih k (by simp at h; omega)]

/-- the window `data[22:1024]` of a file = signature ++ p ++ t, for a short p -/
private theorem window (p t : List Nat) (h : p.length ≤ 1002) :
    ((sigBytes ++ (p ++ t)).take 1024).drop 22 = p ++ t.take (1002 - p.length) := by
  have hs : sigBytes.length = 22 := by decide
  rw [take_append_ge sigBytes (p ++ t) 1024 (by omega), hs, ← hs, List.drop_left, hs]
  exact take_append_ge p t 1002 h

/-- `write_tag2` bytes of the four head tags -/
def headBytes (r12 : Bool) (version : List Nat) : List Nat :=
  if r12 then [0] ++ bSECTION ++ [0] ++ [2] ++ bHEADER ++ [0] ++ [9] ++ bACADVER ++ [0] ++ [1] ++ version ++ [0]
  else [0, 0] ++ bSECTION ++ [0] ++ [2, 0] ++ bHEADER ++ [0] ++ [9, 0] ++ bACADVER ++ [0] ++ [1, 0] ++ version ++ [0]

theorem headBytes_eq (r12 : Bool) (version : List Nat) :
    encAll r12 (headTags version) = .ok (headBytes r12 version) := by
  cases r12 <;> simp [encAll, headTags, encTag, writerCls, isBinary, isBytes, isInt16, isInt32, isInt64, isDouble,
    inR, encCode, leBytes, headBytes, bind, Except.bind, bSECTION, bHEADER, bACADVER]

/-- **the loader finds the version the writer wrote**, whatever group-code width was used for the head of
    the file and whatever follows: `scan_params` skips the 1-byte or 2-byte group code in front of the
    version string by looking for the letter 'A' -/
theorem scan_version_agrees (r12 : Bool) (version rest : List Nat) (hl : version.length = 6)
    (hA : version.head? = some 65) :
    scanVersion (sigBytes ++ headBytes r12 version ++ rest) = version := by
  obtain ⟨v0, vr, hv⟩ : ∃ a r, version = a :: r := by
    cases version with
    | nil => simp at hl
    | cons a r => exact ⟨a, r, rfl⟩
  have hv0 : v0 = 65 := by rw [hv] at hA; simpa using hA
  subst hv0
  cases r12 with
  | true =>
    -- the searched window starts with a concrete prefix that holds the first match at offset 18
    have hpre : ((sigBytes ++ headBytes true version ++ rest).take 1024).drop 22 =
        ([0] ++ bSECTION ++ [0] ++ [2] ++ bHEADER ++ [0] ++ [9] ++ bACADVER) ++
          (([0] ++ [1] ++ version ++ [0] ++ rest).take (1002 - 26)) := by
      have e : sigBytes ++ headBytes true version ++ rest =
          sigBytes ++ (([0] ++ bSECTION ++ [0] ++ [2] ++ bHEADER ++ [0] ++ [9] ++ bACADVER) ++
            ([0] ++ [1] ++ version ++ [0] ++ rest)) := by simp [headBytes]
      rw [e, window _ _ (by decide)]; rfl
    have hf : findSub bACADVER ([0] ++ bSECTION ++ [0] ++ [2] ++ bHEADER ++ [0] ++ [9] ++ bACADVER) = some 18 := by
      decide
    unfold scanVersion
    rw [hpre, findSub_append _ _ _ 18 hf]
    have hd : (sigBytes ++ headBytes true version ++ rest) =
        (sigBytes ++ [0] ++ bSECTION ++ [0] ++ [2] ++ bHEADER ++ [0] ++ [9] ++ bACADVER ++ [0] ++ [1]) ++
          (version ++ ([0] ++ rest)) := by
      simp [headBytes]
    have hlen : (sigBytes ++ [0] ++ bSECTION ++ [0] ++ [2] ++ bHEADER ++ [0] ++ [9] ++ bACADVER ++ [0] ++ [1]).length = 50 := by
      decide
    have hg : (sigBytes ++ headBytes true version ++ rest).getD 50 0 = 65 := by
      rw [hd, List.getD_eq_getElem?_getD, List.getElem?_append_right (by omega), hlen, hv]; rfl
    simp only [show 18 + 22 + 10 = 50 by rfl, hg, ne_eq, not_true_eq_false, ↓reduceIte]
    rw [hd, ← hlen, List.drop_left, List.take_left' hl]
  | false =>
    have hpre : ((sigBytes ++ headBytes false version ++ rest).take 1024).drop 22 =
        ([0, 0] ++ bSECTION ++ [0] ++ [2, 0] ++ bHEADER ++ [0] ++ [9, 0] ++ bACADVER) ++
          (([0] ++ [1, 0] ++ version ++ [0] ++ rest).take (1002 - 29)) := by
      have e : sigBytes ++ headBytes false version ++ rest =
          sigBytes ++ (([0, 0] ++ bSECTION ++ [0] ++ [2, 0] ++ bHEADER ++ [0] ++ [9, 0] ++ bACADVER) ++
            ([0] ++ [1, 0] ++ version ++ [0] ++ rest)) := by simp [headBytes]
      rw [e, window _ _ (by decide)]; rfl
    have hf : findSub bACADVER ([0, 0] ++ bSECTION ++ [0] ++ [2, 0] ++ bHEADER ++ [0] ++ [9, 0] ++ bACADVER) = some 21 := by
      decide
    unfold scanVersion
    rw [hpre, findSub_append _ _ _ 21 hf]
    have hd : (sigBytes ++ headBytes false version ++ rest) =
        (sigBytes ++ [0, 0] ++ bSECTION ++ [0] ++ [2, 0] ++ bHEADER ++ [0] ++ [9, 0] ++ bACADVER ++ [0] ++ [1]) ++
          ([0] ++ (version ++ ([0] ++ rest))) := by
      simp [headBytes]
    have hlen : (sigBytes ++ [0, 0] ++ bSECTION ++ [0] ++ [2, 0] ++ bHEADER ++ [0] ++ [9, 0] ++ bACADVER ++ [0] ++ [1]).length = 53 := by
      decide
    have hg : (sigBytes ++ headBytes false version ++ rest).getD 53 0 = 0 := by
      rw [hd, List.getD_eq_getElem?_getD, List.getElem?_append_right (by omega), hlen]; rfl
    simp only [show 21 + 22 + 10 = 53 by rfl, hg, ne_eq, show ¬ ((0 : Nat) = 65) by decide, not_false_eq_true, ↓reduceIte]
    have hd2 : (sigBytes ++ headBytes false version ++ rest) =
        (sigBytes ++ [0, 0] ++ bSECTION ++ [0] ++ [2, 0] ++ bHEADER ++ [0] ++ [9, 0] ++ bACADVER ++ [0] ++ [1, 0]) ++
          (version ++ ([0] ++ rest)) := by
      simp [headBytes]
    have hlen2 : (sigBytes ++ [0, 0] ++ bSECTION ++ [0] ++ [2, 0] ++ bHEADER ++ [0] ++ [9, 0] ++ bACADVER ++ [0] ++ [1, 0]).length = 54 := by
      decide
    simp only [show (53 : Nat) + 1 = 54 by rfl]
    rw [hd2, ← hlen2, List.drop_left, List.take_left' hl]

/-- hence loader and writer agree on the group-code width for every file that starts with the head tags:
    `binary_tags_loader` decodes with `r12 = (version <= "AC1009")`, which is what `BinaryTagWriter` used -/
theorem loader_width_agrees (version rest : List Nat) (hl : version.length = 6) (hA : version.head? = some 65) :
    loaderR12 (sigBytes ++ headBytes (writerR12 version) version ++ rest) = writerR12 version := by
  unfold loaderR12
  rw [scan_version_agrees _ version rest hl hA]; rfl

example : writerR12 bAC1009 = true ∧ writerR12 [65, 67, 49, 48, 49, 53] = false ∧ writerR12 [65, 67, 49, 48, 51, 50] = false := by
  decide

/-! ## the compact-JSON float assumption reduced to a decidable check per literal -/

/-- a character no part of the number grammar looks at: not a digit, `.`, `e`, `E`, `+`, `-` -/
def inert (c : Nat) : Bool := !isDig c && c != 46 && c != 101 && c != 69 && c != 43 && c != 45

private theorem takeWhile_inert (a r : List Nat) (c : Nat) (hc : isDig c = false) :
    (a ++ c :: r).takeWhile isDig = a.takeWhile isDig ∧
    (a ++ c :: r).dropWhile isDig = a.dropWhile isDig ++ c :: r := by
  induction a with
  | nil => simp [List.takeWhile, List.dropWhile, hc]
  | cons x q ih =>
    by_cases hx : isDig x = true
    · simp [List.takeWhile, List.dropWhile, hx, ih.1, ih.2]
    · simp [List.takeWhile, List.dropWhile, hx]

private theorem inert_facts (c : Nat) (h : inert c = true) :
    isDig c = false ∧ c ≠ 46 ∧ c ≠ 101 ∧ c ≠ 69 ∧ c ≠ 43 ∧ c ≠ 45 := by
  simp only [inert, Bool.and_eq_true, Bool.not_eq_true', bne_iff_ne, ne_eq] at h
  exact ⟨h.1.1.1.1.1, h.1.1.1.1.2, h.1.1.1.2, h.1.1.2, h.1.2, h.2⟩

private theorem fracPart_inert (a r : List Nat) (c : Nat) (hc : inert c = true) :
    fracPart (a ++ c :: r) = ((fracPart a).1, (fracPart a).2 ++ c :: r) := by
  obtain ⟨hd, h46, _⟩ := inert_facts c hc
  match a with
  | [] =>
    cases r with
    | nil => simp [fracPart]
    | cons d r' => simp [fracPart, h46]
  | [p] => simp [fracPart, hd]
  | p :: d :: q =>
    have := takeWhile_inert q r c hd
    simp only [List.cons_append, fracPart]
    split <;> simp [this.1, this.2]

private theorem expDigits_inert (pre a orig r : List Nat) (c : Nat) (hc : isDig c = false) :
    expDigits pre (a ++ c :: r) (orig ++ c :: r) =
      ((expDigits pre a orig).1, (expDigits pre a orig).2 ++ c :: r) := by
  cases a with
  | nil => simp [expDigits, hc]
  | cons d q =>
    have := takeWhile_inert q r c hc
    simp only [List.cons_append, expDigits]
    split <;> simp [this.1, this.2]

private theorem expPart_inert (a r : List Nat) (c : Nat) (hc : inert c = true) :
    expPart (a ++ c :: r) = ((expPart a).1, (expPart a).2 ++ c :: r) := by
  obtain ⟨hd, _, h101, h69, h43, h45⟩ := inert_facts c hc
  match a with
  | [] => simp [expPart, h101, h69]
  | [e] =>
    simp only [List.cons_append, List.nil_append, expPart]
    split
    · simp only [h43, h45, Bool.or_self]
      have := expDigits_inert [e] [] [e] r c hd
      simpa [expDigits] using this
    · simp
  | e :: s :: q =>
    simp only [List.cons_append, expPart]
    split
    · split
      · have := expDigits_inert [e, s] q (e :: s :: q) r c hd
        simpa using this
      · have := expDigits_inert [e] (s :: q) (e :: s :: q) r c hd
        simpa using this
    · simp

private theorem scanCore_inert (neg : Bool) (a r : List Nat) (c : Nat) (hc : inert c = true) :
    scanCore neg (a ++ c :: r) = (scanCore neg a).map fun p => (p.1, p.2 ++ c :: r) := by
  obtain ⟨hd, _⟩ := inert_facts c hc
  cases a with
  | nil => simp [scanCore, hd]
  | cons d q =>
    have htw := takeWhile_inert q r c hd
    simp only [List.cons_append, scanCore]
    by_cases hdig : isDig d = true
    · simp only [hdig, Bool.not_true, Bool.false_eq_true, ↓reduceIte]
      by_cases h48 : d = 48
      · simp only [h48, ↓reduceIte]
        rw [fracPart_inert q r c hc]
        simp only
        rw [expPart_inert _ r c hc]
        split <;> simp
      · simp only [h48, ↓reduceIte, htw.1, htw.2]
        rw [fracPart_inert _ r c hc]
        simp only
        rw [expPart_inert _ r c hc]
        split <;> simp
    · simp [hdig]

/-- the number scanner never looks beyond an inert character: scanning `a ++ c :: r` is scanning `a` -/
theorem scanNumber_inert (a r : List Nat) (c : Nat) (hc : inert c = true) :
    scanNumber (a ++ c :: r) = (scanNumber a).map fun p => (p.1, p.2 ++ c :: r) := by
  obtain ⟨hd, _, _, _, _, h45⟩ := inert_facts c hc
  cases a with
  | nil => simp [scanNumber, h45, scanCore, hd]
  | cons x q =>
    simp only [List.cons_append, scanNumber]
    split
    · exact scanCore_inert true q r c hc
    · exact scanCore_inert false (x :: q) r c hc

/-- `JsonFloatTok` follows from the decidable per-literal check `isFloatLit (repr x)` -/
theorem jsonFloatTok_of_isFloatLit (fmt : Nat → List Nat) (Fin : Nat → Prop)
    (h : ∀ b, Fin b → isFloatLit (fmt b) = true) : JsonFloatTok fmt Fin := by
  intro b hb rest hs
  obtain ⟨c, r, hr, hc⟩ := hs
  have hi : inert c = true := by rcases hc with h | h <;> subst h <;> decide
  have := h b hb
  simp only [isFloatLit, beq_iff_eq] at this
  rw [hr, scanNumber_inert _ r c hi, this]
  simp

#guard isFloatLit ("1.7976931348623157e+308".toList.map Char.toNat)
#guard isFloatLit ("-0.0".toList.map Char.toNat) && isFloatLit ("5e-324".toList.map Char.toNat) && isFloatLit ("1e+16".toList.map Char.toNat)
#guard !isFloatLit ("inf".toList.map Char.toNat) && !isFloatLit ("nan".toList.map Char.toNat) && !isFloatLit ("12".toList.map Char.toNat)

/-! ## full-strength form of `LineOK`: comments are skipped, reading stops at the end-of-file marker -/

/-- what `ascii_tags_loader` delivers for a written list of (flattened) tags: comment tags (999) are
    dropped, the first (0, "EOF") is delivered and ends the stream, whatever follows it -/
def loaderView (fmt : Nat → List Nat) : List (Nat × Val) → List (Nat × Raw)
  | [] => []
  | p :: r =>
    if p.1 = 0 ∧ valText fmt p.2 = sEOF then [(0, .str sEOF)]
    else if p.1 = 999 then loaderView fmt r
    else (p.1, .str (valText fmt p.2)) :: loaderView fmt r

theorem asciiLoader_general (fmt : Nat → List Nat) (fl : List (Nat × Val))
    (h : ∀ p ∈ fl, ∀ c ∈ valText fmt p.2, c ≠ 10) :
    asciiLoader (readLines (fl.flatMap fun p => renderTag fmt p.1 p.2)) = .ok (loaderView fmt fl) := by
  induction fl with
  | nil => simp [readLines, readLinesAux, asciiLoader, loaderView]
  | cons p r ih =>
    have hnl := h p (by simp)
    have hr := ih (fun q hq => h q (by simp [hq]))
    have e : (List.flatMap (fun p => renderTag fmt p.1 p.2) (p :: r)) =
        showCode p.1 ++ 10 :: (valText fmt p.2 ++ 10 :: List.flatMap (fun p => renderTag fmt p.1 p.2) r) := by
      simp [renderTag]
    rw [e, readLines_line _ _ (showCode_noLF p.1), readLines_line _ _ hnl]
    have hv : rstripLF (valText fmt p.2 ++ [10]) = valText fmt p.2 := by
      unfold rstripLF
      rw [rstripP_snoc_true _ _ _ (by simp)]
      exact rstripP_none _ _ (by intro c hc; simpa using hnl c hc)
    have hneg : ¬ ((p.1 : Int) < 0) := by omega
    simp only [asciiLoader, pyIntWs_codeLine, hv, hneg, ↓reduceIte, Int.toNat_natCast, loaderView]
    by_cases heof : p.1 = 0 ∧ valText fmt p.2 = sEOF
    · have heof' : (p.1 : Int) = 0 ∧ valText fmt p.2 = sEOF := ⟨by omega, heof.2⟩
      simp [heof]
    · have heof' : ¬ ((p.1 : Int) = 0 ∧ valText fmt p.2 = sEOF) := by
        intro ⟨a, b⟩; exact heof ⟨by omega, b⟩
      by_cases h999 : p.1 = 999
      · have h999' : (p.1 : Int) = 999 := by omega
        simp [h999, hr]
      · have h999' : ¬ ((p.1 : Int) = 999) := by omega
        simp only [heof, heof', h999, h999', ↓reduceIte, hr, Functor.map, Except.map]

#guard (loaderView toyFmt [(1, .str [97]), (999, .str [99]), (0, .str sEOF), (2, .str [98])]).map (·.1) == [1, 0]

/-! ## recover loader agrees with the ASCII loader on ARBITRARY well-formed input (not only writer output) -/

private theorem isSpaceNum_ascii (c : Nat) (h : c < 128) : isSpaceNum c = isSpaceB c := by
  have : ¬ (c ≥ 128) := by omega
  simp [isSpaceNum, this]

private theorem dropWhile_congr (p q : Nat → Bool) (l : List Nat) (h : ∀ c ∈ l, p c = q c) :
    l.dropWhile p = l.dropWhile q := by
  induction l with
  | nil => rfl
  | cons a r ih =>
    have ha := h a (by simp)
    simp only [List.dropWhile, ha]
    split
    · exact ih (fun c hc => h c (by simp [hc]))
    · rfl

private theorem rstripP_congr (p q : Nat → Bool) (l : List Nat) (h : ∀ c ∈ l, p c = q c) :
    rstripP p l = rstripP q l := by
  unfold rstripP
  rw [dropWhile_congr p q l.reverse (fun c hc => h c (by simpa using hc))]

private theorem rstripP_subset (p : Nat → Bool) (l : List Nat) : ∀ c ∈ rstripP p l, c ∈ l := by
  intro c hc
  unfold rstripP at hc
  have : c ∈ l.reverse.dropWhile p := by simpa using hc
  have := (List.dropWhile_sublist p).subset this
  simpa using this

private theorem dropWhile_subset (p : Nat → Bool) (l : List Nat) : ∀ c ∈ l.dropWhile p, c ∈ l :=
  fun _ hc => (List.dropWhile_sublist p).subset hc

private theorem pyIntWs_ascii (l : List Nat) (h : ∀ c ∈ l, c < 128) : pyIntWsB l = pyIntWs l := by
  unfold pyIntWs pyIntWsB
  have e1 : rstripP isSpaceNum l = rstripP isSpaceB l :=
    rstripP_congr _ _ l (fun c hc => isSpaceNum_ascii c (h c hc))
  rw [e1]
  rw [dropWhile_congr isSpaceNum isSpaceB _ (fun c hc => isSpaceNum_ascii c (h c (rstripP_subset _ _ c hc)))]

private theorem stripNum_ascii (l : List Nat) (h : ∀ c ∈ l, c < 128) : stripNum l = stripP isSpaceB l := by
  unfold stripNum stripP
  rw [dropWhile_congr isSpaceNum isSpaceB l (fun c hc => isSpaceNum_ascii c (h c hc))]
  exact rstripP_congr _ _ _ (fun c hc => isSpaceNum_ascii c (h c (dropWhile_subset _ _ c hc)))

/-- lines on which the two low-level loaders see the same text -/
def LinesOK (ls : List (List Nat)) : Prop :=
  ∀ l ∈ ls, (∀ c ∈ l, c < 128) ∧ rstripCRLF l = rstripLF l

/-- the two low-level loaders deliver the same raw tags (ASCII lines, no CR in front of the line feed) -/
theorem bytesLoader_eq_asciiLoader (ls : List (List Nat)) (h : LinesOK ls) (raws : List (Nat × Raw))
    (ha : asciiLoader ls = .ok raws) : bytesLoader ls = .ok raws := by
  have aux : ∀ n (ls : List (List Nat)), ls.length ≤ n → LinesOK ls → ∀ raws, asciiLoader ls = .ok raws →
      bytesLoader ls = .ok raws := by
    intro n
    induction n with
    | zero =>
      intro ls hl _ raws ha
      have : ls = [] := List.length_eq_zero_iff.mp (by omega)
      subst this; simpa [asciiLoader, bytesLoader] using ha
    | succ k ih =>
      intro ls hl hok raws ha
      match ls with
      | [] => simpa [asciiLoader, bytesLoader] using ha
      | [c] =>
        have hc := hok c (by simp)
        simp only [asciiLoader] at ha
        simp only [bytesLoader, pyIntWs_ascii c hc.1]
        cases hq : pyIntWs c with
        | none => rw [hq] at ha; cases ha
        | some v => rw [hq] at ha; simpa using ha
      | c :: v :: r =>
        have hc := hok c (by simp)
        have hv := hok v (by simp)
        have hr : LinesOK r := fun l hl => hok l (by simp [hl])
        simp only [asciiLoader] at ha
        simp only [bytesLoader, pyIntWs_ascii c hc.1, hv.2]
        cases hq : pyIntWs c with
        | none => rw [hq] at ha; cases ha
        | some code =>
          rw [hq] at ha
          simp only at ha ⊢
          by_cases hneg : code < 0
          · simp [hneg] at ha
          · simp only [hneg, ↓reduceIte] at ha ⊢
            by_cases heof : code = 0 ∧ rstripLF v = sEOF
            · simp only [heof, and_self, ↓reduceIte] at ha ⊢; exact ha
            · simp only [heof, ↓reduceIte] at ha ⊢
              by_cases h999 : code = 999
              · simp only [h999, ↓reduceIte] at ha ⊢
                exact ih r (by simp at hl; omega) hr raws ha
              · simp only [h999, ↓reduceIte] at ha ⊢
                cases hrec : asciiLoader r with
                | error e => rw [hrec] at ha; cases ha
                | ok rs =>
                  rw [hrec] at ha
                  rw [ih r (by simp at hl; omega) hr rs hrec]
                  exact ha
  exact aux ls.length ls (Nat.le_refl _) h raws ha

/-- a raw tag on which `byte_tag_compiler` does what `tag_compiler` does: ASCII text; a structure tag is
    upper case (`strip().upper()` = `strip()`); other strings hold no `\U+` / `\M+` escape -/
def RawRecOK (p : Nat × Raw) : Prop :=
  match p.2 with
  | .str s => (∀ c ∈ s, c < 128) ∧
      (isBinary p.1 = false → isDouble p.1 = false → isIntCode p.1 = false →
        (p.1 = 0 → upperB (stripB s) = strip s) ∧ (p.1 ≠ 0 → hasEscape s = false))
  | _ => False

private theorem toFloatB_of_toFloat (parse : List Nat → Option Nat) (s : List Nat) (hs : ∀ c ∈ s, c < 128) (v : Val)
    (h : toFloat parse (.str s) = .ok v) : toFloatB parse (.str s) = .ok v := by
  simp only [toFloat, stripNum_ascii s hs] at h
  simp only [toFloatB]
  cases hq : parse (stripP isSpaceB s) with
  | none => rw [hq] at h; cases h
  | some b => rw [hq] at h; exact h

private theorem typeSingleB_of_typeSingle (parse : List Nat → Option Nat) (c : Nat) (r : Raw) (v : Val)
    (hr : RawRecOK (c, r)) (h : typeSingle parse c r = .ok v) : typeSingleB parse c r = .ok v := by
  cases r with
  | str s =>
    obtain ⟨hs, hcond⟩ := hr
    unfold typeSingle at h
    unfold typeSingleB
    by_cases hb : isBinary c = true
    · simpa [hb] using h
    · simp only [hb, Bool.false_eq_true, ↓reduceIte] at h ⊢
      by_cases hd : isDouble c = true
      · simp only [hd, ↓reduceIte] at h ⊢
        exact toFloatB_of_toFloat parse s hs v h
      · simp only [hd, Bool.false_eq_true, ↓reduceIte] at h ⊢
        by_cases hi : isIntCode c = true
        · simp only [hi, ↓reduceIte, pyIntWs_ascii s hs] at h ⊢
          cases hq : pyIntWs s with
          | none =>
            rw [hq] at h
            simp only at h
            split at h <;> cases h
          | some i => rw [hq] at h; simpa using h
        · simp only [hi, Bool.false_eq_true, ↓reduceIte] at h ⊢
          obtain ⟨hz, hnz⟩ := hcond (by simpa using hb) (by simpa using hd) (by simpa using hi)
          by_cases hc0 : c = 0
          · simp only [hc0, ↓reduceIte] at h ⊢
            rw [hc0] at hz
            rw [hz rfl]; exact h
          · simp only [hc0, ↓reduceIte] at h ⊢
            simp [hnz hc0]; simpa using h
  | int i => exact absurd hr (by simp [RawRecOK])
  | flt t => exact absurd hr (by simp [RawRecOK])
  | nums xs => exact absurd hr (by simp [RawRecOK])

private theorem typePointB_of_typePoint (parse : List Nat → Option Nat) (xs : List Raw) (vs : List Val)
    (hx : ∀ x ∈ xs, ∃ s, x = .str s ∧ ∀ c ∈ s, c < 128) (h : typePoint parse xs = .ok vs) :
    typePointB parse xs = .ok vs := by
  induction xs generalizing vs with
  | nil => simpa [typePoint, typePointB] using h
  | cons x r ih =>
    obtain ⟨s, hxs, hs⟩ := hx x (by simp)
    subst hxs
    simp only [typePoint, bind, Except.bind] at h
    simp only [typePointB, bind, Except.bind]
    cases hq : toFloat parse (.str s) with
    | error e => rw [hq] at h; cases h
    | ok v =>
      rw [hq] at h
      rw [toFloatB_of_toFloat parse s hs v hq]
      simp only at h ⊢
      cases hq2 : typePoint parse r with
      | error e => rw [hq2] at h; cases h
      | ok vs' =>
        rw [hq2] at h
        rw [ih vs' (fun y hy => hx y (by simp [hy])) hq2]
        exact h

/-- the ASCII text of a raw value -/
def CTagRecOK : CTag Raw → Prop
  | .single c r => RawRecOK (c, r)
  | .point _ xs => ∀ x ∈ xs, ∃ s, x = .str s ∧ ∀ c ∈ s, c < 128

private theorem typeAllB_of_typeAll (parse : List Nat → Option Nat) (cs : List (CTag Raw)) (ts : List (CTag Val))
    (hc : ∀ t ∈ cs, CTagRecOK t) (h : typeAll parse cs = .ok ts) : typeAllB parse cs = .ok ts := by
  induction cs generalizing ts with
  | nil => simpa [typeAll, typeAllB] using h
  | cons t r ih =>
    have ht := hc t (by simp)
    simp only [typeAll, bind, Except.bind] at h
    simp only [typeAllB, bind, Except.bind]
    cases hq : typeTag parse t with
    | error e => rw [hq] at h; cases h
    | ok v =>
      rw [hq] at h
      have hb : typeTagB parse t = .ok v := by
        cases t with
        | single c x =>
          simp only [typeTag, Functor.map, Except.map] at hq
          simp only [typeTagB, Functor.map, Except.map]
          cases hs : typeSingle parse c x with
          | error e => rw [hs] at hq; cases hq
          | ok w => rw [hs] at hq; rw [typeSingleB_of_typeSingle parse c x w ht hs]; exact hq
        | point c xs =>
          simp only [typeTag, Functor.map, Except.map] at hq
          simp only [typeTagB, Functor.map, Except.map]
          cases hs : typePoint parse xs with
          | error e => rw [hs] at hq; cases hq
          | ok w => rw [hs] at hq; rw [typePointB_of_typePoint parse xs w ht hs]; exact hq
      rw [hb]
      simp only at h ⊢
      cases hq2 : typeAll parse r with
      | error e => rw [hq2] at h; cases h
      | ok vs' =>
        rw [hq2] at h
        rw [ih vs' (fun y hy => hc y (by simp [hy])) hq2]
        exact h

/-- **recover loader agrees on well-formed input** (DESIGN §7 tier 2, at the generality of arbitrary input
    text, not only writer output): whenever `tag_compiler(ascii_tags_loader(stream))` succeeds on an ASCII
    text whose lines carry no CR in front of the LF, and the compiled raw tags meet `CTagRecOK` (upper-case
    structure tags, no `\U+`/`\M+` escapes), `byte_tag_compiler(bytes_loader(stream))` returns the same tags -/
theorem recover_agrees_on_input (parse : List Nat → Option Nat) (txt : List Nat) (ts : List (CTag Val))
    (hl : LinesOK (readLines txt)) (h : asciiLoad parse txt = .ok ts)
    (hraw : ∀ raws cs, asciiLoader (readLines txt) = .ok raws → compile isPoint raws = .ok cs →
      ∀ t ∈ cs, CTagRecOK t) :
    recoverLoad parse txt = .ok ts := by
  unfold asciiLoad at h
  unfold recoverLoad
  cases hq : asciiLoader (readLines txt) with
  | error e => rw [hq] at h; cases h
  | ok raws =>
    rw [hq] at h
    rw [bytesLoader_eq_asciiLoader _ hl raws hq]
    simp only [bind, Except.bind, tagCompile] at h ⊢
    cases hc : compile isPoint raws with
    | error e => rw [hc] at h; cases h
    | ok cs =>
      rw [hc] at h
      simp only at h ⊢
      exact typeAllB_of_typeAll parse cs ts (hraw raws cs hq hc) h

-- non-vacuity: a text no ezdxf writer produced (unpadded and over-padded group codes, `+` sign, blanks around
-- numbers) on which both loaders agree
def sampleInput : List Nat := "0\nLINE\n   10 \n1.0\n20\n 2.0 \n+70\n 7\n  1\nab c\n".toList.map Char.toNat
#guard okEq (asciiLoad toyParse sampleInput) [.single 0 (.str [76, 73, 78, 69]), .point 10 [.dbl 1, .dbl 2], .single 70 (.int 7),
  .single 1 (.str [97, 98, 32, 99])]
#guard okEq (recoverLoad toyParse sampleInput) [.single 0 (.str [76, 73, 78, 69]), .point 10 [.dbl 1, .dbl 2], .single 70 (.int 7),
  .single 1 (.str [97, 98, 32, 99])]
-- `LinesOK (readLines sampleInput)` in executable form
#guard (readLines sampleInput).all fun l => l.all (· < 128) && rstripCRLF l == rstripLF l

/-! ## binary strings: full-strength form of the "no NUL byte" guard -/

/-- a NUL byte inside a string value ends the string for the loader: it delivers the part before the NUL
    and goes on decoding the part after it as the next tag (so `ValWF`'s `∀ b ∈ bs, b ≠ 0` is exactly the
    guard of the zero-terminated framing; the text codecs never produce a NUL for a NUL-free string, C09) -/
theorem nul_in_string_truncates (r12 : Bool) (code : Nat) (a b rest : List Nat)
    (hcls : writerCls code = .str) (hc : code < 65536) (ha : ∀ x ∈ a, x ≠ 0) :
    ∃ bs, encTag r12 ⟨code, .str (a ++ 0 :: b)⟩ = .ok bs ∧
      decTag r12 (bs ++ rest) = .ok (⟨code, .str a⟩, b ++ 0 :: rest) := by
  obtain ⟨cb, hcb, hdc⟩ := code_framing_all r12 code (a ++ [0] ++ (b ++ 0 :: rest)) hc
  have hl := cls_agree code
  rw [hcls] at hl
  refine ⟨cb ++ (a ++ 0 :: b) ++ [0], by simp [encTag, hcls, hcb, bind, Except.bind], ?_⟩
  have e : cb ++ (a ++ 0 :: b) ++ [0] ++ rest = cb ++ (a ++ [0] ++ (b ++ 0 :: rest)) := by simp
  rw [e]
  unfold decTag
  rw [hdc]
  simp only [bind, Except.bind, ← hl, cstr_roundtrip a (b ++ 0 :: rest) ha]

example : writerCls 1 = .str := by decide

/-! ## `group_tags`: a partition of the tag stream after the first split tag -/

/-- a group under construction: starts with a split tag, holds no other split tag -/
def GroupOK {α : Type} (isSplit : α → Bool) (g : List α) : Prop :=
  ∃ t r, g = t :: r ∧ isSplit t = true ∧ ∀ x ∈ r, isSplit x = false

private theorem groupGo_spec {α : Type} (isSplit : α → Bool) (ts : List α) :
    ∀ cur : Option (List α), (∀ g, cur = some g → GroupOK isSplit g) →
      (groupGo isSplit cur ts).flatten =
        (match cur with | some g => g ++ ts | none => ts.dropWhile fun t => !isSplit t) ∧
      ∀ g ∈ groupGo isSplit cur ts, GroupOK isSplit g := by
  induction ts with
  | nil =>
    intro cur hcur
    cases cur with
    | none => simp [groupGo]
    | some g => simp [groupGo]; exact hcur g rfl
  | cons t r ih =>
    intro cur hcur
    by_cases hs : isSplit t = true
    · have hnew : ∀ g, some [t] = some g → GroupOK isSplit g := by
        intro g hg; cases hg; exact ⟨t, [], rfl, hs, by simp⟩
      obtain ⟨h1, h2⟩ := ih (some [t]) hnew
      cases cur with
      | none =>
        simp only [groupGo, hs, ↓reduceIte, List.nil_append]
        refine ⟨by simpa [List.dropWhile, hs] using h1, h2⟩
      | some g =>
        simp only [groupGo, hs, ↓reduceIte]
        refine ⟨by simp [h1], ?_⟩
        intro x hx
        simp only [List.mem_append, List.mem_singleton] at hx
        rcases hx with hx | hx
        · rw [hx]; exact hcur g rfl
        · exact h2 x hx
    · have hsf : isSplit t = false := by simpa using hs
      cases cur with
      | none =>
        have := ih none (by intro g hg; cases hg)
        simp only [groupGo, hsf, Bool.false_eq_true, ↓reduceIte, Option.map_none]
        refine ⟨by simpa [List.dropWhile, hsf] using this.1, this.2⟩
      | some g =>
        obtain ⟨t0, r0, hg, ht0, hr0⟩ := hcur g rfl
        have hnew : ∀ g', some (g ++ [t]) = some g' → GroupOK isSplit g' := by
          intro g' hg'; cases hg'
          refine ⟨t0, r0 ++ [t], by simp [hg], ht0, ?_⟩
          intro x hx
          simp only [List.mem_append, List.mem_singleton] at hx
          rcases hx with hx | hx
          · exact hr0 x hx
          · subst hx; exact hsf
        have := ih (some (g ++ [t])) hnew
        simp only [groupGo, hsf, Bool.false_eq_true, ↓reduceIte, Option.map_some]
        refine ⟨by simpa using this.1, this.2⟩

/-- `group_tags(tags, splitcode)`: the groups concatenate to the tag stream from the first split tag on
    (tags in front of it are dropped — by design), every group starts with a split tag and holds no other -/
theorem group_tags_partition {α : Type} (isSplit : α → Bool) (ts : List α) :
    (groupTags isSplit ts).flatten = ts.dropWhile (fun t => !isSplit t) ∧
    ∀ g ∈ groupTags isSplit ts, GroupOK isSplit g := by
  have := groupGo_spec isSplit ts none (by intro g hg; cases hg)
  exact this

/-- hence a stream that starts with a split tag (every DXF entity / section) is partitioned losslessly -/
theorem group_tags_lossless {α : Type} (isSplit : α → Bool) (t : α) (r : List α) (h : isSplit t = true) :
    (groupTags isSplit (t :: r)).flatten = t :: r := by
  rw [(group_tags_partition isSplit (t :: r)).1]
  simp [List.dropWhile, h]

#guard groupTags (fun c : Nat => c == 0) [5, 0, 1, 2, 0, 0, 3] == [[0, 1, 2], [0], [0, 3]]

/-! ## whole files, all formats: every format decodes to the SAME typed tag list -/

/-- `ascii_tag_roundtrip` under the name the design uses for the file-level statement -/
theorem ascii_file_roundtrip {fmt : Nat → List Nat} {parse : List Nat → Option Nat} {Fin : Nat → Prop}
    (ft : FloatText fmt parse Fin) (ts : List (CTag Val)) (h : AsciiWF fmt Fin ts) :
    asciiLoad parse (render fmt ts) = .ok ts := ascii_tag_roundtrip ft ts h

/-- one tag is written to non-empty bytes and read back, whatever follows -/
def TagRT (r12 : Bool) (t : BTag) : Prop :=
  ∃ bs, encTag r12 t = .ok bs ∧ bs ≠ [] ∧ ∀ rest, decTag r12 (bs ++ rest) = .ok (t, rest)

private theorem tagRT_of_ok (r12 : Bool) (t : BTag) (h : TagOK' t) : TagRT r12 t := by
  obtain ⟨bs, he, hd0⟩ := bin_tag_roundtrip_all r12 t [] h.1 h.2
  refine ⟨bs, he, ?_, ?_⟩
  · intro hnil
    rw [hnil] at hd0
    simp [decTag, decCode, bind, Except.bind] at hd0
  · intro rest
    obtain ⟨bs', he', hd⟩ := bin_tag_roundtrip_all r12 t rest h.1 h.2
    rw [he] at he'; cases he'; exact hd

private theorem binChunks_short (d : List Nat) (h : d.length ≤ 127) : binChunks d = [d] := by
  unfold binChunks
  split
  · rename_i he; subst he; rfl
  · rename_i hne
    rw [chunks]
    simp only [hne, ↓reduceDIte]
    have h1 : d.take 127 = d := List.take_of_length_le h
    have h2 : d.drop 127 = [] := List.drop_of_length_le h
    rw [h1, h2, chunks]; simp

private theorem tagRT_of_bin (r12 : Bool) (code : Nat) (d : List Nat) (hcls : writerCls code = .binary)
    (hc : code < 65536) (hl : d.length ≤ 127) : TagRT r12 ⟨code, .bin d⟩ := by
  refine ⟨chunkBytes r12 code d, ?_, by simp [chunkBytes, leBytes], ?_⟩
  · simp only [encTag, hcls, hc, ↓reduceIte, binChunks_short d hl, List.flatMap_cons, List.flatMap_nil,
      List.append_nil]
    rfl
  · intro rest
    have := bin_chunk_roundtrip_all r12 code d rest hcls hc (by omega)
    simpa [chunkBytes] using this

/-- whole tag lists through the binary writer and loader, single-chunk binary data included -/
theorem bin_list_roundtrip (r12 : Bool) (ts : List BTag) (h : ∀ t ∈ ts, TagRT r12 t) :
    ∃ bs, encAll r12 ts = .ok bs ∧ ts.length ≤ bs.length ∧
      ∀ fuel, ts.length < fuel → decAll r12 fuel bs = .ok ts := by
  induction ts with
  | nil =>
    refine ⟨[], rfl, by simp, ?_⟩
    intro fuel hf
    cases fuel with
    | zero => omega
    | succ k => simp [decAll]
  | cons t r ih =>
    obtain ⟨bt, hbt, hne, hdt⟩ := h t (by simp)
    obtain ⟨br, hbr, hlen, hdr⟩ := ih (fun x hx => h x (by simp [hx]))
    have hpos : 0 < bt.length := List.length_pos_iff.mpr hne
    refine ⟨bt ++ br, by simp [encAll, hbt, hbr, bind, Except.bind], by simp; omega, ?_⟩
    intro fuel hf
    cases fuel with
    | zero => omega
    | succ k =>
      have hne' : (bt ++ br).isEmpty = false := by
        cases bt with
        | nil => exact absurd rfl hne
        | cons a b => rfl
      simp only [decAll, hne', Bool.false_eq_true, ↓reduceIte, hdt br, bind, Except.bind]
      rw [hdr k (by simp at hf; omega)]

/-- what the binary format needs per flattened tag beyond the typing: a framable group code, an integer
    within the width of its class, a string the text codec round trips without producing a NUL byte
    (C09's subject, here a hypothesis on `enc`/`dec`), a double bit pattern, binary data of one chunk
    (longer payloads come back as several chunk tags: `bin_data_roundtrip`) -/
def BinOK (enc dec : List Nat → List Nat) (p : Nat × Val) : Prop :=
  p.1 < 65536 ∧
  match p.2 with
  | .bin d => writerCls p.1 = .binary ∧ d.length ≤ 127
  | .str s => ValWF ⟨p.1, .str (enc s)⟩ ∧ dec (enc s) = s
  | v => ValWF ⟨p.1, v⟩

private theorem typeAllV_id (Fin : Nat → Prop) (ts : List (CTag Val)) (h : ∀ t ∈ ts, TagTyped Fin t) :
    typeAllV ts = .ok ts := by
  induction ts with
  | nil => rfl
  | cons t r ih =>
    have hr := ih (fun y hy => h y (by simp [hy]))
    have ht := h t (by simp)
    cases t with
    | single c v =>
      have : typeSingleV c v = .ok v := by
        cases v with
        | bin d => simp [typeSingleV, ht.1]
        | dbl b => simp [typeSingleV, ht.1, ht.2.1]
        | int i => simp [typeSingleV, ht.1, ht.2.1, ht.2.2]
        | str s =>
          obtain ⟨h1, h2, h3, h4⟩ := ht
          simp only [typeSingleV, h1, h2, h3, Bool.false_eq_true, ↓reduceIte]
          by_cases hc : c = 0
          · simp [hc, h4 hc]
          · simp [hc]
      simp only [typeAllV, typeTagV, this, hr, bind, Except.bind, Functor.map, Except.map]
    | point c xs =>
      have : typePointV xs = .ok xs := by
        clear hr ih h
        induction xs with
        | nil => rfl
        | cons x q ihq =>
          obtain ⟨b, hb, _⟩ := ht x (by simp)
          subst hb
          simp only [typePointV, ihq (fun y hy => ht y (by simp [hy])), Functor.map, Except.map]
      simp only [typeAllV, typeTagV, this, hr, bind, Except.bind, Functor.map, Except.map]

/-- **binary file round trip at the level of compiled tags**, both group-code widths: the bytes
    `BinaryTagWriter` writes for a tag list are read back by `tag_compiler(binary_tags_loader(data))`
    as the same list (points reassembled, strings through the text codec, ints within their width) -/
theorem binary_file_roundtrip_all (Fin : Nat → Prop) (r12 : Bool) (enc dec : List Nat → List Nat)
    (ts : List (CTag Val)) (hp : PointWF isPoint ts) (ht : ∀ t ∈ ts, TagTyped Fin t)
    (hb : ∀ p ∈ flatten ts, BinOK enc dec p) :
    ∃ bs, binWrite r12 enc ts = .ok bs ∧ binLoad r12 dec bs = .ok ts := by
  have hrt : ∀ t ∈ (flatten ts).map (fun p => (⟨p.1, encV enc p.2⟩ : BTag)), TagRT r12 t := by
    intro t htm
    simp only [List.mem_map] at htm
    obtain ⟨p, hpm, rfl⟩ := htm
    obtain ⟨hc, hv⟩ := hb p hpm
    cases hq : p.2 with
    | bin d => rw [hq] at hv; exact tagRT_of_bin r12 p.1 d hv.1 hc hv.2
    | str s => rw [hq] at hv; exact tagRT_of_ok r12 _ ⟨hc, hv.1⟩
    | int i => rw [hq] at hv; exact tagRT_of_ok r12 _ ⟨hc, hv⟩
    | dbl b => rw [hq] at hv; exact tagRT_of_ok r12 _ ⟨hc, hv⟩
  obtain ⟨bs, he, hlen, hd⟩ := bin_list_roundtrip r12 _ hrt
  refine ⟨bs, by unfold binWrite; rw [flattenW_eq isPoint ts hp]; exact he, ?_⟩
  unfold binLoad
  rw [hd (bs.length + 1) (by omega)]
  have e : ((flatten ts).map (fun p => (⟨p.1, encV enc p.2⟩ : BTag))).map (fun t => (t.code, decV dec t.val)) =
      flatten ts := by
    rw [List.map_map]
    conv => rhs; rw [← List.map_id (flatten ts)]
    apply List.map_congr_left
    intro p hpm
    obtain ⟨_, hv⟩ := hb p hpm
    obtain ⟨c, v⟩ := p
    cases v with
    | str s => simp only at hv; simp [encV, decV, hv.2]
    | _ => simp [encV, decV]
  simp only [e, points_roundtrip isPoint ts hp]
  exact typeAllV_id Fin ts ht

/-- well-formedness for ALL formats at once -/
def AllWF (fmt : Nat → List Nat) (Fin : Nat → Prop) (enc dec : List Nat → List Nat) (ts : List (CTag Val)) : Prop :=
  ts ≠ [] ∧ AsciiWF fmt Fin ts ∧ (∀ t ∈ ts, JTagOK t) ∧ ∀ p ∈ flatten ts, BinOK enc dec p

private theorem internalWF_of_asciiWF (fmt : Nat → List Nat) (Fin : Nat → Prop) (ts : List (CTag Val))
    (hne : ts ≠ []) (h : AsciiWF fmt Fin ts) : InternalWF fmt Fin ts := by
  obtain ⟨hp, ht, hl⟩ := h
  refine ⟨hne, hp, ?_, fun p hpm => (hl p hpm).1⟩
  intro t htm
  have := ht t htm
  cases t with
  | single c v =>
    cases v with
    | bin d => exact this
    | dbl b => exact this
    | int i => exact this
    | str s => exact ⟨this.1, this.2.1, this.2.2.1⟩
  | point c xs => exact this

/-- **formats agree**: for every tag list that is well-formed for all formats, the ASCII text read by
    `ascii_tags_loader + tag_compiler`, the same text read by `internal_tag_compiler`, the binary bytes of
    BOTH group-code widths read by `binary_tags_loader + tag_compiler`, and the JSON documents of BOTH
    modes read by `json.loads + json_tag_loader + tag_compiler` all decode to the SAME typed tag list
    (the JSON protocol appends its EOF tag) — `replicas_agree` at file level -/
theorem formats_agree {fmt : Nat → List Nat} {parse : List Nat → Option Nat} {Fin : Nat → Prop}
    (ft : FloatText fmt parse Fin) (hj : JsonFloatTokF fmt Fin) (enc dec : List Nat → List Nat)
    (ts : List (CTag Val)) (h : AllWF fmt Fin enc dec ts) :
    asciiLoad parse (render fmt ts) = .ok ts ∧
    internalLoad parse (render fmt ts) = .ok ts ∧
    (∀ r12, ∃ bs, binWrite r12 enc ts = .ok bs ∧ binLoad r12 dec bs = .ok ts) ∧
    (∀ compact, jsonLoad parse (jsonWrite fmt compact ts) = .ok (ts ++ [eofTag])) := by
  obtain ⟨hne, ha, hjt, hb⟩ := h
  refine ⟨ascii_tag_roundtrip ft ts ha, internal_tag_roundtrip ft ts (internalWF_of_asciiWF fmt Fin ts hne ha), ?_, ?_⟩
  · intro r12
    exact binary_file_roundtrip_all Fin r12 enc dec ts ha.1 ha.2.1 hb
  · intro compact
    exact json_tag_roundtrip ft compact (fun _ => hj) ts ⟨ha.1, ha.2.1, hjt⟩

-- non-vacuity: identity text codec on an ASCII sample
def sampleAll : List (CTag Val) :=
  [.single 0 (.str [76, 73, 78, 69]), .single 1 (.str [32, 34, 92, 9, 65, 32]), .single 70 (.int (-5)),
   .single 160 (.int (2 ^ 62)), .single 40 (.dbl 7), .single 310 (.bin [0, 255]), .point 10 [.dbl 1, .dbl 2, .dbl 3],
   .point 11 [.dbl 4, .dbl 5]]
#guard okEq (binLoad true id (match binWrite true id sampleAll with | .ok b => b | .error _ => [])) sampleAll
#guard okEq (binLoad false id (match binWrite false id sampleAll with | .ok b => b | .error _ => [])) sampleAll
#guard okEq (asciiLoad toyParse (render toyFmt sampleAll)) sampleAll && okEq (internalLoad toyParse (render toyFmt sampleAll)) sampleAll
#guard okEq (jsonLoad toyParse (jsonWrite toyFmt true sampleAll)) (sampleAll ++ [eofTag])

/-! ## 2D / 3D vertices through every format; integers outside the width of their class -/

/-- every writer drops the coordinates of a vertex beyond the third (`DXFVertex.dxftags()` zips the values
    with three codes): a 4-coordinate vertex is written exactly like its first three coordinates, in the
    ASCII, binary and JSON formats alike — and by `formats_agree` the 2D or 3D vertex written is read back
    with its dimension by every loader -/
theorem vertex_extra_coordinates_dropped (fmt : Nat → List Nat) (enc : List Nat → List Nat) (c : Nat)
    (x y z : Val) (more : List Val) (r : List (CTag Val)) :
    render fmt (.point c (x :: y :: z :: more) :: r) = render fmt (.point c [x, y, z] :: r) ∧
    (∀ r12, binWrite r12 enc (.point c (x :: y :: z :: more) :: r) = binWrite r12 enc (.point c [x, y, z] :: r)) ∧
    (∀ compact, jsonWrite fmt compact (.point c (x :: y :: z :: more) :: r) =
      jsonWrite fmt compact (.point c [x, y, z] :: r)) := by
  refine ⟨?_, ?_, ?_⟩
  · simp [render, flattenW, trunc3]
  · intro r12; simp [binWrite, flattenW, trunc3]
  · intro compact; cases compact <;> simp [jsonWrite, jsonTag]

/-- a single int tag is well-formed for the ASCII format whatever its size -/
private theorem asciiWF_int (fmt : Nat → List Nat) (Fin : Nat → Prop) (c : Nat) (i : Int)
    (hb : isBinary c = false) (hd : isDouble c = false) (hi : isIntCode c = true) :
    AsciiWF fmt Fin [.single c (.int i)] := by
  have hpt : isPoint c = false := by
    cases h : isPoint c
    · rfl
    · have := (point_codes_facts c h).2.2.1; rw [hd] at this; cases this
  have hc : c ≠ 999 ∧ c ≠ 0 := by
    simp only [isIntCode, isBytes, isInt16, isInt32, isInt64, inR, Bool.or_eq_true, Bool.and_eq_true,
      decide_eq_true_eq, beq_iff_eq] at hi
    omega
  refine ⟨⟨hpt, trivial⟩, ?_, ?_⟩
  · intro t ht; simp at ht; subst ht; exact ⟨hb, hd, hi⟩
  · intro p hp
    simp [flatten] at hp; subst hp
    refine ⟨?_, hc.1, fun h => hc.2 h.1⟩
    intro x hx
    rcases showInt_chars i x hx with h | h
    · omega
    · simp [isDig] at h; omega

/-- **asymmetry between the writers for integers outside the width of their class**: `TagWriter` (and
    `JSONTagWriter`) write ANY Python int for a 8/16/32/64-bit group code (`"%s" % value`, no range check)
    and the loaders read it back, while `BinaryTagWriter` raises OverflowError (`int.to_bytes`) — the text
    formats accept tag lists the binary format cannot represent -/
theorem int_range_asymmetry (fmt : Nat → List Nat) (parse : List Nat → Option Nat)
    (enc : List Nat → List Nat) (c : Nat) (i : Int)
    (hb : isBinary c = false) (hd : isDouble c = false) (hi : isIntCode c = true)
    (hout : ¬ ValWF ⟨c, .int i⟩) :
    asciiLoad parse (render fmt [.single c (.int i)]) = .ok [.single c (.int i)] ∧
    (∀ compact, jsonLoad parse (jsonWrite fmt compact [.single c (.int i)]) = .ok [.single c (.int i), eofTag]) ∧
    ∀ r12, binWrite r12 enc [.single c (.int i)] = .error .overflowError := by
  -- no double occurs in the list: the float text is irrelevant (instantiate it with the empty domain)
  have ft0 : FloatText fmt parse (fun _ => False) := ⟨fun _ h => h.elim, fun _ h => h.elim, fun _ h => h.elim⟩
  have hwf := asciiWF_int fmt (fun _ => False) c i hb hd hi
  have hc65 : c < 65536 := by
    simp only [isIntCode, isBytes, isInt16, isInt32, isInt64, inR, Bool.or_eq_true, Bool.and_eq_true,
      decide_eq_true_eq, beq_iff_eq] at hi
    omega
  refine ⟨ascii_tag_roundtrip ft0 _ hwf, ?_, ?_⟩
  · intro compact
    have hj : JsonWF (fun _ => False) [.single c (.int i)] := by
      refine ⟨hwf.1, hwf.2.1, ?_⟩
      intro t ht; simp at ht; subst ht
      have := (hwf.2.2 (c, .int i) (by simp [flatten])).2
      exact ⟨this.1, (fun h => by cases h.2), (fun s hs => by cases hs)⟩
    have := json_tag_roundtrip ft0 compact (fun _ => fun _ h => h.1.elim) [.single c (.int i)] hj
    simpa using this
  · intro r12
    have henc : ∃ cb, encCode r12 c = .ok cb := by
      obtain ⟨cb, h, _⟩ := code_framing_all r12 c [] hc65
      exact ⟨cb, h⟩
    obtain ⟨cb, hcb⟩ := henc
    simp only [binWrite, flattenW, List.map_cons, List.map_nil, trunc3, flatten, encV, encAll, bind, Except.bind]
    have hcls : writerCls c = .bytes ∨ writerCls c = .int16 ∨ writerCls c = .int32 ∨ writerCls c = .int64 := by
      unfold writerCls
      simp only [isIntCode, Bool.or_eq_true] at hi
      simp only [hb, hd, Bool.false_eq_true, ↓reduceIte]
      by_cases h1 : isBytes c = true
      · simp [h1]
      · by_cases h2 : isInt16 c = true
        · simp [h1, h2]
        · by_cases h3 : isInt32 c = true
          · simp [h1, h2, h3]
          · have h4 : isInt64 c = true := by
              rcases hi with ((h | h) | h) | h
              · exact absurd h h1
              · exact absurd h h2
              · exact absurd h h3
              · exact h
            simp [h1, h2, h3, h4]
    unfold ValWF at hout
    rcases hcls with h | h | h | h <;> simp only [h] at hout
    · have hout' : ¬ (0 ≤ i ∧ i < 256) := hout
      simp [encTag, h, hcb, encByte, hout', bind, Except.bind]
    · have hout' : ¬ (-32768 ≤ i ∧ i < 32768) := by simpa using hout
      simp [encTag, h, hcb, encSigned, hout', bind, Except.bind]
    · have hout' : ¬ (-2147483648 ≤ i ∧ i < 2147483648) := by simpa using hout
      simp [encTag, h, hcb, encSigned, hout', bind, Except.bind]
    · have hout' : ¬ (-9223372036854775808 ≤ i ∧ i < 9223372036854775808) := by simpa using hout
      simp [encTag, h, hcb, encSigned, hout', bind, Except.bind]

-- the counterexample: (70, 40000) is no 16-bit value
example : ¬ ValWF ⟨70, .int 40000⟩ := by
  have h : writerCls 70 = .int16 := by decide
  simp only [ValWF, h]; omega
#guard okEq (asciiLoad toyParse (render toyFmt [.single 70 (.int 40000)])) [.single 70 (.int 40000)]
#guard (match binWrite true id [.single 70 (.int 40000)] with | .error .overflowError => true | _ => false)
#guard (match binWrite false id [.single 70 (.int 40000)] with | .error .overflowError => true | _ => false)
-- a vertex with four coordinates is written as its first three
#guard render toyFmt [.point 10 [.dbl 1, .dbl 2, .dbl 3, .dbl 4]] == render toyFmt [.point 10 [.dbl 1, .dbl 2, .dbl 3]]

/-! ## the float text assumption as a decidable per-literal check -/

/-- the doubles whose `repr` text passes the two decidable checks: `float(text)` (model `parseFloat`:
    correctly rounded decimal -> binary64) gives back the bit pattern and the text is printable ASCII
    (`floatLitOK`), and the text is one JSON float token (`isFloatLit`) -/
def FinChk (fmt : Nat → List Nat) (b : Nat) : Prop :=
  floatLitOK b (fmt b) = true ∧ (isFiniteBits b = true → isFloatLit (fmt b) = true)

/-- with `float()` modelled, `FloatText` and `JsonFloatTok` hold UNCONDITIONALLY on the doubles that pass
    the per-literal checks: what stays an assumption is only that CPython's `repr(x)` passes them for every
    finite double (evaluated for a large stratified sample on every run, X22) and that `parseFloat` is
    CPython's `float()` (corresponded on the same sample, halfway and boundary cases included) -/
theorem floatText_checked (fmt : Nat → List Nat) :
    FloatText fmt parseFloat (FinChk fmt) ∧ JsonFloatTokF fmt (FinChk fmt) := by
  constructor
  · refine ⟨?_, ?_, ?_⟩
    · intro b hb
      have := hb.1
      simp only [floatLitOK, Bool.and_eq_true, beq_iff_eq] at this
      exact this.1.1
    · intro b hb c hc
      have := hb.1
      simp only [floatLitOK, Bool.and_eq_true, List.all_eq_true, decide_eq_true_eq, bne_iff_ne, ne_eq] at this
      have := this.1.2 c hc
      exact ⟨this.1.1.1, this.1.1.2, this.1.2, this.2⟩
    · intro b hb h
      have := hb.1
      simp [floatLitOK, h] at this
  · exact jsonFloatTok_of_isFloatLit fmt _ (fun b hb => hb.1.2 hb.2)

/-- `formats_agree` with both float assumptions discharged by the per-literal checks -/
theorem formats_agree_checked (fmt : Nat → List Nat) (enc dec : List Nat → List Nat)
    (ts : List (CTag Val)) (h : AllWF fmt (FinChk fmt) enc dec ts) :
    asciiLoad parseFloat (render fmt ts) = .ok ts ∧
    internalLoad parseFloat (render fmt ts) = .ok ts ∧
    (∀ r12, ∃ bs, binWrite r12 enc ts = .ok bs ∧ binLoad r12 dec bs = .ok ts) ∧
    (∀ compact, jsonLoad parseFloat (jsonWrite fmt compact ts) = .ok (ts ++ [eofTag])) :=
  formats_agree (floatText_checked fmt).1 (floatText_checked fmt).2 enc dec ts h

#guard floatLitOK 4591870180066957722 ("0.1".toList.map Char.toNat)
#guard floatLitOK 1 ("5e-324".toList.map Char.toNat) && floatLitOK (2 ^ 63) ("-0.0".toList.map Char.toNat)
#guard floatLitOK 4936209963552724370 ("1e+22".toList.map Char.toNat)
#guard parseFloat ("9007199254740993".toList.map Char.toNat) == some 4845873199050653696   -- halfway: ties to even
#guard !floatLitOK 4591870180066957722 ("0.10000000000000002".toList.map Char.toNat)

-- non-vacuity of `AllWF` (hypothesis of `formats_agree`): string with a leading blank, negative int, 2D point at the end
def tinyAll : List (CTag Val) := [.single 1 (.str [32, 65]), .single 70 (.int (-5)), .point 10 [.dbl 1, .dbl 2]]

example : AllWF toyFmt (fun _ => True) id id tinyAll := by
  have h1 : writerCls 1 = .str := by decide
  have h70 : writerCls 70 = .int16 := by decide
  have h10 : writerCls 10 = .double := by decide
  have h20 : writerCls 20 = .double := by decide
  refine ⟨by simp [tinyAll], ⟨?_, ?_, ?_⟩, ?_, ?_⟩
  · simp [tinyAll, PointWF, isPoint, inR]
  · intro t ht
    simp only [tinyAll, List.mem_cons, List.not_mem_nil, or_false] at ht
    rcases ht with h | h | h <;> subst h
    · exact ⟨by decide, by decide, by decide, by decide⟩
    · exact ⟨by decide, by decide, by decide⟩
    · intro x hx; simp at hx; rcases hx with h | h <;> exact ⟨_, h, trivial⟩
  · intro p hp
    simp only [tinyAll, flatten, flattenPt, List.mem_cons, List.not_mem_nil, or_false, List.cons_append,
      List.nil_append] at hp
    rcases hp with h | h | h | h <;> subst h <;>
      simp [LineOK, valText, toyFmt, natDigits, digitChar, showInt, sEOF]
  · intro t ht
    simp only [tinyAll, List.mem_cons, List.not_mem_nil, or_false] at ht
    rcases ht with h | h | h <;> subst h
    · refine ⟨by decide, by simp [sEOF], ?_⟩
      intro s hs; cases hs
      exact ⟨by intro c hc; simp at hc; omega, by simp [NoSurrPair, isHi]⟩
    · exact ⟨by decide, by simp, by intro s hs; cases hs⟩
    · trivial
  · intro p hp
    simp only [tinyAll, flatten, flattenPt, List.mem_cons, List.not_mem_nil, or_false, List.cons_append,
      List.nil_append] at hp
    rcases hp with h | h | h | h <;> subst h
    · refine ⟨by decide, ?_, rfl⟩
      simp only [ValWF, h1, id]; intro b hb; simp at hb; omega
    · refine ⟨by decide, ?_⟩
      simp only [ValWF, h70]; omega
    · refine ⟨by decide, ?_⟩
      simp only [ValWF, h10]; decide
    · refine ⟨by decide, ?_⟩
      simp only [ValWF, h20]; decide

end EzdxfVerif.Props.C03Text

/-
C14  Flattening and path conversion respect the requested tolerance.
Only property theorems, the definitions needed to state them, `private` helpers and non-vacuity
`example`/`#guard` checks live here; every `theorem` of this file is an obligation counted by ./check C14.

Part 1  the subdivision machines of Model/Flatten.lean (any curve, any test, any tolerance):
        partial correctness `flat_sound_*`, twin agreement, the coded tests vs. the documented criterion.
Part 2  arcs: `arc_chord_length` / `arc_segment_count` as generated from math/arc.py, over the reals:
        `sagitta_bound`.
Part 3  ties: the pieces of the source that the hand model copies, re-extracted on every run
        (Gen/FlattenKernels.lean), still read as they did when the model was written.
-/
import EzdxfVerif.Model.Flatten
import EzdxfVerif.Gen.FlattenKernels
import Mathlib.Tactic.Linarith
import Mathlib.Tactic.Ring
import Mathlib.Tactic.FieldSimp
import Mathlib.Tactic.Positivity
import Mathlib.Analysis.SpecialFunctions.Trigonometric.Inverse

namespace EzdxfVerif.Props.C14
open EzdxfVerif.Flatten

variable {V : Type}

/-- `Good C a l`: starting from the emitted vertex `a`, every next emitted `(t, p)` has a strictly larger
    parameter, is the curve point `P t`, and the chord from its predecessor passed the coded test at the
    middle parameter. -/
def Good (C : Curve V) : TV V → List (TV V) → Prop
  | _, [] => True
  | a, b :: l => a.1 < b.1 ∧ b.2 = C.P b.1 ∧
      C.test a.2 b.2 (C.P ((a.1 + b.1) * (1/2))) = .accept ∧ Good C b l

def lastOf (a : TV V) (l : List (TV V)) : TV V := (l.getLast?).getD a

private theorem lastOf_nil (a : TV V) : lastOf a [] = a := rfl

private theorem lastOf_cons (a b : TV V) (l : List (TV V)) : lastOf a (b :: l) = lastOf b l := by
  cases l with
  | nil => simp [lastOf]
  | cons c l =>
    rw [lastOf, lastOf, List.getLast?_cons_cons, List.getLast?_eq_some_getLast (List.cons_ne_nil c l)]
    rfl

private theorem lastOf_append (a : TV V) (l r : List (TV V)) :
    lastOf a (l ++ r) = lastOf (lastOf a l) r := by
  induction l generalizing a with
  | nil => simp [lastOf_nil]
  | cons b l ih => simp only [List.cons_append, lastOf_cons, ih]

private theorem good_append (C : Curve V) (a : TV V) (l r : List (TV V))
    (hl : Good C a l) (hr : Good C (lastOf a l) r) : Good C a (l ++ r) := by
  induction l generalizing a with
  | nil => simpa [lastOf_nil] using hr
  | cons b l ih =>
    obtain ⟨h1, h2, h3, h4⟩ := hl
    refine ⟨h1, h2, h3, ?_⟩
    exact ih b h4 (by simpa [lastOf_cons] using hr)

/-- specification of an inner subdivision procedure -/
def SubSound (C : Curve V) (sub : Rat → V → Rat → V → Except Err (List (TV V))) : Prop :=
  ∀ t0 s t1 e l, sub t0 s t1 e = .ok l → t0 < t1 → e = C.P t1 →
    l ≠ [] ∧ Good C (t0, s) l ∧ lastOf (t0, s) l = (t1, e)

/-- strictly increasing pending stack of the Python loop, all entries on the curve -/
def StackOK (C : Curve V) : Rat → List (TV V) → Prop
  | _, [] => True
  | t, b :: l => t < b.1 ∧ b.2 = C.P b.1 ∧ StackOK C b.1 l

private theorem stackLoop_sound (C : Curve V) :
    ∀ (fuel : Nat) (t0 : Rat) (s : V) (t1 : Rat) (e : V) (stack out res : List (TV V)),
      stackLoop C fuel t0 s t1 e stack out = .ok res → t0 < t1 → e = C.P t1 → StackOK C t1 stack →
      ∃ l, res = l.reverse ++ out ∧ l ≠ [] ∧ Good C (t0, s) l ∧
        lastOf (t0, s) l = lastOf (t1, e) stack := by
  intro fuel
  induction fuel with
  | zero => intro t0 s t1 e stack out res h; simp [stackLoop] at h
  | succ fuel ih =>
    intro t0 s t1 e stack out res h ht he hst
    unfold stackLoop at h
    simp only at h
    split at h
    · -- accept
      rename_i hacc
      cases stack with
      | nil =>
        simp only [Except.ok.injEq] at h
        refine ⟨[(t1, e)], by simp [← h], by simp, ⟨ht, he, hacc, trivial⟩, ?_⟩
        simp [lastOf]
      | cons top rest =>
        obtain ⟨t1', e'⟩ := top
        obtain ⟨hlt, hpe, hrest⟩ := hst
        simp only at h
        obtain ⟨l', hres, _, hgood, hlast⟩ := ih t1 e t1' e' rest ((t1, e) :: out) res h hlt hpe hrest
        refine ⟨(t1, e) :: l', by simp [hres], by simp, ⟨ht, he, hacc, hgood⟩, ?_⟩
        rw [lastOf_cons, hlast, lastOf_cons]
    · -- split
      have hm1 : t0 < (t0 + t1) * (1/2) := by linarith
      have hm2 : (t0 + t1) * (1/2) < t1 := by linarith
      obtain ⟨l', hres, hne, hgood, hlast⟩ :=
        ih t0 s ((t0 + t1) * (1/2)) (C.P ((t0 + t1) * (1/2))) ((t1, e) :: stack) out res h hm1 rfl
          ⟨hm2, he, hst⟩
      exact ⟨l', hres, hne, hgood, by rw [hlast, lastOf_cons]⟩
    · simp at h

/-- the pure Python stack machine meets the subdivision specification whenever it finishes -/
theorem stackSub_sound (C : Curve V) (fuel : Nat) : SubSound C (stackSub C fuel) := by
  intro t0 s t1 e l h ht he
  unfold stackSub at h
  split at h
  · rename_i r hr
    simp only [Except.ok.injEq] at h
    obtain ⟨l', hres, hne, hgood, hlast⟩ := stackLoop_sound C fuel t0 s t1 e [] [] r hr ht he trivial
    have : l = l' := by rw [← h, hres]; simp
    subst this
    exact ⟨hne, hgood, by simpa [lastOf_nil] using hlast⟩
  · simp at h

/-- the recursive variants (Cython `_Flattening.flatten`, Python `subdiv` generators) meet the same
    specification whenever they return without `RecursionError` / `ZeroDivisionError` -/
theorem recSub_sound (C : Curve V) (budget : Nat) : SubSound C (recSub C budget) := by
  induction budget with
  | zero => intro t0 s t1 e l h; simp [recSub] at h
  | succ b ih =>
    intro t0 s t1 e l h ht he
    unfold recSub at h
    simp only at h
    split at h
    · rename_i hacc
      simp only [Except.ok.injEq] at h
      subst h
      exact ⟨by simp, ⟨ht, he, hacc, trivial⟩, by simp [lastOf]⟩
    · have hm1 : t0 < (t0 + t1) * (1/2) := by linarith
      have hm2 : (t0 + t1) * (1/2) < t1 := by linarith
      split at h
      · simp at h
      · rename_i l1 h1
        split at h
        · simp at h
        · rename_i l2 h2
          simp only [Except.ok.injEq] at h
          subst h
          obtain ⟨n1, g1, e1⟩ := ih _ _ _ _ _ h1 hm1 rfl
          obtain ⟨n2, g2, e2⟩ := ih _ _ _ _ _ h2 hm2 he
          refine ⟨by simp [n1], good_append C _ _ _ g1 (by rw [e1]; exact g2), ?_⟩
          rw [lastOf_append, e1]
          cases l2 with
          | nil => exact absurd rfl n2
          | cons c l2 => rw [lastOf_cons] at e2 ⊢; exact e2
    · simp at h

/-! ## outer loops -/

/-- invariant of the outer loops: everything yielded so far is a good chain from `(a, P a)` and the
    loop variables `(t, start_point)` are the last yielded vertex -/
def Inv (C : Curve V) (a : Rat) (st : St V) : Prop :=
  ∃ l, st.out = (a, C.P a) :: l ∧ Good C (a, C.P a) l ∧ lastOf (a, C.P a) l = (st.t, st.s)

private theorem spanLoop_sound (C : Curve V) (sub : Rat → V → Rat → V → Except Err (List (TV V)))
    (hsub : SubSound C sub) (close : Rat → Rat → Bool) (delta tEnd : Rat) (endPt : V)
    (hδ : 0 < delta) (hend : endPt = C.P tEnd) (a0 a : Rat) (n : Nat) (hn : a + n * delta = tEnd)
    (hsnap : ∀ k : Nat, k + 1 < n → close (a + ((k : Rat) + 1) * delta) tEnd = false) :
    ∀ (fuel k : Nat) (st st' : St V), k ≤ n → st.t = a + k * delta → Inv C a0 st →
      spanLoop C sub close delta tEnd endPt fuel st = .ok st' →
      Inv C a0 st' ∧ st'.t = tEnd ∧ st.out.length + (n - k) ≤ st'.out.length := by
  intro fuel
  induction fuel with
  | zero => intro k st st' _ _ _ h; simp [spanLoop] at h
  | succ fuel ih =>
    intro k st st' hk ht hinv h
    unfold spanLoop at h
    have hkn : (k : Rat) ≤ n := by exact_mod_cast hk
    by_cases hlt : st.t < tEnd
    · simp only [hlt, if_true] at h
      have hk' : k < n := by
        rcases Nat.lt_or_ge k n with h' | h'
        · exact h'
        · have : k = n := le_antisymm hk h'
          subst this; rw [ht, hn] at hlt; exact absurd hlt (lt_irrefl _)
      -- the new end parameter and end vertex, whichever way the snap test goes
      have key : ∀ (t1' : Rat) (e : V),
          t1' = (if close (st.t + delta) tEnd then tEnd else st.t + delta) →
          e = (if close (st.t + delta) tEnd then endPt else C.P (st.t + delta)) →
          t1' = a + ((k + 1 : Nat) : Rat) * delta ∧ e = C.P t1' := by
        intro t1' e h1 h2
        have ht1 : st.t + delta = a + ((k : Rat) + 1) * delta := by rw [ht]; ring
        by_cases hs : close (st.t + delta) tEnd = true
        · simp only [hs, if_true] at h1 h2
          have : ¬ (k + 1 < n) := by
            intro hc
            have := hsnap k hc
            rw [← ht1, hs] at this; exact Bool.noConfusion this
          have hkn1 : k + 1 = n := by omega
          refine ⟨?_, by rw [h2, h1, hend]⟩
          rw [h1, ← hn, ← hkn1]
        · have hs' : close (st.t + delta) tEnd = false := by simpa using hs
          simp only [hs', Bool.false_eq_true, if_false] at h1 h2
          refine ⟨?_, by rw [h2, h1]⟩
          rw [h1, ht1]; push_cast; ring
      generalize ht1' : (if close (st.t + delta) tEnd then tEnd else st.t + delta) = t1' at h
      generalize he' : (if close (st.t + delta) tEnd then endPt else C.P (st.t + delta)) = e at h
      obtain ⟨hval, hep⟩ := key t1' e ht1'.symm he'.symm
      split at h
      · simp at h
      · rename_i l hl
        have hst1 : st.t < t1' := by
          rw [hval, ht]; push_cast; nlinarith
        obtain ⟨hne, hgood, hlast⟩ := hsub _ _ _ _ _ hl hst1 hep
        obtain ⟨l0, hout, hg0, hl0⟩ := hinv
        have hinv' : Inv C a0 ⟨t1', e, st.out ++ l⟩ := by
          refine ⟨l0 ++ l, by simp [hout], good_append C _ _ _ hg0 (by rw [hl0]; exact hgood), ?_⟩
          rw [lastOf_append, hl0, hlast]
        obtain ⟨r1, r2, r3⟩ := ih (k + 1) ⟨t1', e, st.out ++ l⟩ st' hk' hval hinv' h
        refine ⟨r1, r2, ?_⟩
        have : 1 ≤ l.length := by
          cases l with
          | nil => exact absurd rfl hne
          | cons c l => simp
        simp only [List.length_append] at r3
        omega
    · simp only [hlt, if_false, Except.ok.injEq] at h
      subst h
      have hle : tEnd ≤ st.t := not_lt.mp hlt
      have : (k : Rat) * delta ≥ n * delta := by rw [ht, ← hn] at hle; linarith
      have hkn2 : (n : Rat) ≤ k := le_of_mul_le_mul_right this hδ
      have hkeq : k = n := by
        have : n ≤ k := by exact_mod_cast hkn2
        omega
      subst hkeq
      exact ⟨hinv, by rw [ht, hn], by simp⟩

private theorem pyAbs_eq_abs (a : Rat) : pyAbs a = |a| := by
  unfold pyAbs
  split
  · rename_i h; rw [abs_of_nonneg h]
  · rename_i h; rw [abs_of_neg (not_le.mp h)]

private theorem pyIsclose_false (relTol absTol a b : Rat) (h0 : a ≠ b)
    (h1 : |relTol * b| < |b - a|) (h2 : |relTol * a| < |b - a|) (h3 : absTol < |b - a|) :
    pyIsclose relTol absTol a b = false := by
  rw [abs_mul] at h1 h2
  simp [pyIsclose, pyAbs_eq_abs, h0, h3]
  exact ⟨h1, h2⟩

private theorem pyIsclose_self (relTol absTol x : Rat) : pyIsclose relTol absTol x x = true := by
  simp [pyIsclose]

/-- `math.isclose(t1, 1.0)` does not fire before the last of `n` equal steps when `n` is below 1/tol -/
private theorem no_early_snap (relTol absTol : Rat) (n : Nat) (h0 : 0 ≤ relTol)
    (hr : relTol * n < 1) (ha : absTol * n < 1) (k : Nat) (hk : k + 1 < n) :
    pyIsclose relTol absTol (0 + ((k : Rat) + 1) * (1 / (n : Rat))) 1 = false := by
  have hn : (0 : Rat) < n := by exact_mod_cast (by omega : 0 < n)
  have hk1 : ((k : Rat) + 1) + 1 ≤ n := by exact_mod_cast hk
  set t : Rat := 0 + ((k : Rat) + 1) * (1 / (n : Rat)) with ht
  have htn : t * n = (k : Rat) + 1 := by
    rw [ht, zero_add, mul_one_div, div_mul_cancel₀ _ (ne_of_gt hn)]
  have hkpos : (0 : Rat) ≤ k := by exact_mod_cast Nat.zero_le k
  have ht0 : 0 < t := by rw [ht]; positivity
  have ht1 : t < 1 := by
    by_contra hc
    have : (n : Rat) ≤ t * n := by nlinarith [not_lt.mp hc]
    linarith
  have hgap : 1 ≤ (1 - t) * n := by nlinarith
  have hd : |1 - t| = 1 - t := abs_of_pos (by linarith)
  have hrel1 : relTol < 1 - t := by
    by_contra hc
    have : (1 - t) * n ≤ relTol * n := by nlinarith [not_lt.mp hc]
    linarith
  apply pyIsclose_false
  · exact ne_of_lt ht1
  · rw [hd, mul_one, abs_of_nonneg h0]; exact hrel1
  · rw [hd, abs_of_nonneg (by positivity)]
    calc relTol * t ≤ relTol * 1 := by nlinarith
      _ = relTol := mul_one _
      _ < 1 - t := hrel1
  · rw [hd]
    by_contra hc
    have : (1 - t) * n ≤ absTol * n := by nlinarith [not_lt.mp hc]
    linarith

/-! ## what a finished run guarantees -/

/-- the observable contract of a flattening run over the parameter range `[a, b]` -/
structure FlatSpec (C : Curve V) (a b : Rat) (minChords : Nat) (out : List (TV V)) : Prop where
  /-- starts exactly at the curve start -/
  first : out.head? = some (a, C.P a)
  /-- ends exactly at the curve end -/
  last : out.getLast? = some (b, C.P b)
  /-- parameters strictly increase -/
  increasing : (out.map Prod.fst).Pairwise (· < ·)
  /-- every vertex is the curve point at its parameter -/
  onCurve : ∀ p ∈ out, p.2 = C.P p.1
  /-- at least `minChords` chords -/
  count : minChords + 1 ≤ out.length
  /-- every chord passed the coded test at its middle parameter -/
  criterion : ∀ pq ∈ out.zip out.tail,
    C.test pq.1.2 pq.2.2 (C.P ((pq.1.1 + pq.2.1) * (1/2))) = .accept

private theorem good_lt (C : Curve V) (a : TV V) (l : List (TV V)) (h : Good C a l) :
    ∀ p ∈ l, a.1 < p.1 := by
  induction l generalizing a with
  | nil => simp
  | cons b l ih =>
    obtain ⟨h1, _, _, h4⟩ := h
    intro p hp
    rcases List.mem_cons.mp hp with rfl | hp
    · exact h1
    · exact lt_trans h1 (ih b h4 p hp)

private theorem good_pairwise (C : Curve V) (a : TV V) (l : List (TV V)) (h : Good C a l) :
    ((a :: l).map Prod.fst).Pairwise (· < ·) := by
  induction l generalizing a with
  | nil => simp
  | cons b l ih =>
    have hb := ih b h.2.2.2
    rw [List.map_cons, List.pairwise_cons]
    refine ⟨?_, hb⟩
    intro x hx
    obtain ⟨p, hp, rfl⟩ := List.mem_map.mp hx
    exact good_lt C a _ h p hp

private theorem good_onCurve (C : Curve V) (a : TV V) (l : List (TV V)) (h : Good C a l) :
    ∀ p ∈ l, p.2 = C.P p.1 := by
  induction l generalizing a with
  | nil => simp
  | cons b l ih =>
    intro p hp
    rcases List.mem_cons.mp hp with rfl | hp
    · exact h.2.1
    · exact ih b h.2.2.2 p hp

private theorem good_chords (C : Curve V) (a : TV V) (l : List (TV V)) (h : Good C a l) :
    ∀ pq ∈ (a :: l).zip l, C.test pq.1.2 pq.2.2 (C.P ((pq.1.1 + pq.2.1) * (1/2))) = .accept := by
  induction l generalizing a with
  | nil => simp
  | cons b l ih =>
    intro pq hpq
    rw [List.zip_cons_cons] at hpq
    rcases List.mem_cons.mp hpq with rfl | hpq
    · exact h.2.2.1
    · exact ih b h.2.2.2 pq hpq

private theorem lastOf_onCurve (C : Curve V) (a : Rat) (l : List (TV V)) (h : Good C (a, C.P a) l) :
    (lastOf (a, C.P a) l).2 = C.P (lastOf (a, C.P a) l).1 := by
  cases hl : l.getLast? with
  | none => simp [lastOf, hl]
  | some p =>
    have : p ∈ l := List.mem_of_getLast? hl
    simpa [lastOf, hl] using good_onCurve C _ l h p this

private theorem inv_spec (C : Curve V) (a b : Rat) (m : Nat) (st : St V) (h : Inv C a st)
    (ht : st.t = b) (hlen : m + 1 ≤ st.out.length) : FlatSpec C a b m st.out := by
  obtain ⟨l, hout, hg, hl⟩ := h
  have hs : st.s = C.P b := by
    have := lastOf_onCurve C a l hg
    rw [hl] at this; simpa [ht] using this
  refine ⟨by simp [hout], ?_, ?_, ?_, hlen, ?_⟩
  · rw [hout]
    have : ((a, C.P a) :: l).getLast? = some (lastOf (a, C.P a) l) := by
      cases l with
      | nil => simp [lastOf]
      | cons c l =>
        rw [List.getLast?_cons_cons, lastOf, List.getLast?_eq_some_getLast (List.cons_ne_nil c l)]
        rfl
    rw [this, hl, ht, hs]
  · rw [hout]; exact good_pairwise C _ l hg
  · rw [hout]; intro p hp
    rcases List.mem_cons.mp hp with rfl | hp
    · rfl
    · exact good_onCurve C _ l hg p hp
  · rw [hout]; simpa using good_chords C _ l hg

/-- **flat_sound** (generic form): any Bezier flattening run — outer loop of either twin around any
    inner subdivision that meets `SubSound` — that finishes returns a list meeting `FlatSpec` with at
    least `segments` chords.  No assumption on the curve `P`, on the test, or on the tolerance. -/
theorem bezierFlat_sound (C : Curve V) (sub : Rat → V → Rat → V → Except Err (List (TV V)))
    (hsub : SubSound C sub) (relTol absTol : Rat) (first last : V) (n fuel : Nat) (out : List (TV V))
    (hfirst : first = C.P 0) (hlast : last = C.P 1) (hn : 0 < n)
    (h0 : 0 ≤ relTol) (hr : relTol * n < 1) (ha : absTol * n < 1)
    (h : bezierFlat C sub relTol absTol first last n fuel = .ok out) :
    FlatSpec C 0 1 n out := by
  unfold bezierFlat at h
  split at h
  · rename_i st hst
    simp only [Except.ok.injEq] at h
    subst h
    have hnq : (0 : Rat) < n := by exact_mod_cast hn
    have hinv0 : Inv C 0 ⟨0, first, [(0, first)]⟩ := ⟨[], by simp [hfirst], trivial, by simp [lastOf, hfirst]⟩
    obtain ⟨r1, r2, r3⟩ := spanLoop_sound C sub hsub (pyIsclose relTol absTol) (1 / (n : Rat)) 1 last
      (by positivity) hlast 0 0 n (by rw [zero_add, mul_one_div, div_self (ne_of_gt hnq)]) (no_early_snap relTol absTol n h0 hr ha)
      fuel 0 _ st (Nat.zero_le _) (by simp) hinv0 hst
    exact inv_spec C 0 1 n st r1 r2 (by simpa [Nat.add_comm] using r3)
  · simp at h

open EzdxfVerif.Gen.FlattenKernels in
/-- **flat_sound**, pure Python twin (`math/_bezier4p.py`, `_bezier3p.py`: stack machine, `math.isclose`
    defaults): for ANY curve `P`, any test, any tolerance and any fuel, a finished run starts at `P 0`,
    ends at `P 1`, has strictly increasing parameters, only curve points, at least `segments` chords and
    every chord passed the coded test.  (`segments < 10^9`: beyond that `isclose(t1, 1.0)` would snap early.) -/
theorem flat_sound_py (C : Curve V) (first last : V) (n fuel subfuel : Nat) (out : List (TV V))
    (hfirst : first = C.P 0) (hlast : last = C.P 1) (hn : 0 < n) (hn9 : n < 10 ^ 9)
    (h : bezierFlat C (stackSub C subfuel) mathRelTol mathAbsTol first last n fuel = .ok out) :
    FlatSpec C 0 1 n out := by
  have hq : (n : Rat) < 10 ^ 9 := by exact_mod_cast hn9
  refine bezierFlat_sound C _ (stackSub_sound C subfuel) mathRelTol mathAbsTol first last n fuel out
    hfirst hlast hn ?_ ?_ ?_ h
  · norm_num [mathRelTol]
  · rw [mathRelTol]; linarith
  · rw [mathAbsTol]; norm_num

open EzdxfVerif.Gen.FlattenKernels in
/-- **flat_sound**, Cython twin (`acc/bezier4p.pyx`, `bezier3p.pyx`: recursion with `RECURSION_LIMIT`,
    `isclose(t1, 1.0, REL_TOL, ABS_TOL)`): same contract whenever no `RecursionError` is raised -/
theorem flat_sound_pyx (C : Curve V) (first last : V) (n fuel budget : Nat) (out : List (TV V))
    (hfirst : first = C.P 0) (hlast : last = C.P 1) (hn : 0 < n) (hn9 : n < 10 ^ 9)
    (h : bezierFlat C (recSub C budget) pyxRelTol pyxAbsTol first last n fuel = .ok out) :
    FlatSpec C 0 1 n out := by
  have hq : (n : Rat) < 10 ^ 9 := by exact_mod_cast hn9
  refine bezierFlat_sound C _ (recSub_sound C budget) pyxRelTol pyxAbsTol first last n fuel out
    hfirst hlast hn ?_ ?_ ?_ h
  · norm_num [pyxRelTol]
  · rw [pyxRelTol]; linarith
  · rw [pyxAbsTol]; linarith

/-- ConstructionEllipse.flattening (after the parameter prelude): nothing is yielded in the two
    degenerate cases, otherwise the run meets `FlatSpec` over `[param, end_param]`.
    `hsnap` (decidable): `math.isclose(next, end_param)` does not fire before the last step. -/
theorem ellipse_sound (C : Curve V) (budget : Nat) (relTol absTol param endParam delta : Rat)
    (n fuel : Nat) (out : List (TV V)) (hδ : 0 < delta) (hn : param + n * delta = endParam)
    (hsnap : ∀ k : Nat, k < n - 1 → pyIsclose relTol absTol (param + ((k : Rat) + 1) * delta) endParam = false)
    (h : ellipseFlat C budget relTol absTol param endParam delta fuel = .ok out) :
    out = [] ∨ FlatSpec C param endParam n out := by
  unfold ellipseFlat at h
  split at h
  · left; simpa using h.symm
  · split at h
    · left; simpa using h.symm
    · split at h
      · rename_i st hst
        simp only [Except.ok.injEq] at h
        subst h
        right
        have hinv0 : Inv C param ⟨param, C.P param, [(param, C.P param)]⟩ :=
          ⟨[], rfl, trivial, by simp [lastOf]⟩
        obtain ⟨r1, r2, r3⟩ := spanLoop_sound C _ (recSub_sound C budget) (pyIsclose relTol absTol) delta
          endParam (C.P endParam) hδ rfl param param n hn (fun k hk => hsnap k (by omega))
          fuel 0 _ st (Nat.zero_le _) (by simp) hinv0 hst
        exact inv_spec C param endParam n st r1 r2 (by simpa [Nat.add_comm] using r3)
      · simp at h

/-! ### the parameter prelude of `ConstructionEllipse.flattening` -/

/-- Python's `x % tau` for `tau > 0` lies in `[0, tau)` -/
theorem pyMod_range (x tau : Rat) (htau : 0 < tau) : 0 ≤ pyMod x tau ∧ pyMod x tau < tau := by
  unfold pyMod
  have h1 : ((⌊x / tau⌋ : Int) : Rat) ≤ x / tau := Int.floor_le _
  have h2 : x / tau < ((⌊x / tau⌋ : Int) : Rat) + 1 := Int.lt_floor_add_one _
  have hx : x = tau * (x / tau) := by field_simp
  change 0 ≤ x - tau * ((⌊x / tau⌋ : Int) : Rat) ∧ x - tau * ((⌊x / tau⌋ : Int) : Rat) < tau
  constructor
  · have := mul_le_mul_of_nonneg_left h1 htau.le
    linarith
  · have := mul_lt_mul_of_pos_left h2 htau
    linarith

/-- `(x + tau) % tau = x % tau` -/
theorem pyMod_add_period (x tau : Rat) (htau : 0 < tau) : pyMod (x + tau) tau = pyMod x tau := by
  unfold pyMod
  have : (x + tau) / tau = x / tau + 1 := by field_simp
  change x + tau - tau * ((⌊(x + tau) / tau⌋ : Int) : Rat) = x - tau * ((⌊x / tau⌋ : Int) : Rat)
  rw [this, Int.floor_add_one]
  push_cast; ring

/-- **what the prelude hands to the loop**: the start parameter is normalised into `[0, tau)`, the end parameter lies
    strictly behind it and at most one full turn away, `delta = param_span / segments ≠ 0` -/
theorem ellipse_prelude_spec (relTol absTol tau start end_ span : Rat) (n : Nat) (htau : 0 < tau)
    (p e dl : Rat) (h : ellipsePrelude relTol absTol tau start end_ span n = some (p, e, dl)) :
    0 ≤ p ∧ p < tau ∧ p < e ∧ e ≤ p + tau ∧ dl = span / n ∧ dl ≠ 0 := by
  obtain ⟨hp0, hp1⟩ := pyMod_range start tau htau
  unfold ellipsePrelude at h
  simp only at h
  split at h
  · simp at h
  · rename_i hdl
    -- e0
    have he0 : ∀ e0 : Rat, e0 = (if pyIsclose relTol absTol end_ tau then tau else pyMod end_ tau) → 0 ≤ e0 ∧ e0 ≤ tau := by
      intro e0 he
      split at he
      · rw [he]; exact ⟨htau.le, le_refl _⟩
      · rw [he]; exact ⟨(pyMod_range end_ tau htau).1, (pyMod_range end_ tau htau).2.le⟩
    generalize hg : (if pyIsclose relTol absTol end_ tau then tau else pyMod end_ tau) = e0 at h
    obtain ⟨h0, h1⟩ := he0 e0 hg.symm
    split at h
    · split at h
      · simp only [Option.some.injEq, Prod.mk.injEq] at h
        obtain ⟨rfl, rfl, rfl⟩ := h
        exact ⟨hp0, hp1, by linarith, le_refl _, rfl, hdl⟩
      · simp at h
    · rename_i hnc
      have hne : pyMod start tau ≠ e0 := by
        intro hc; rw [hc] at hnc; simp [pyIsclose] at hnc
      split at h
      · rename_i hgt
        simp only [Option.some.injEq, Prod.mk.injEq] at h
        obtain ⟨rfl, rfl, rfl⟩ := h
        exact ⟨hp0, hp1, by linarith, by linarith, rfl, hdl⟩
      · rename_i hgt
        simp only [Option.some.injEq, Prod.mk.injEq] at h
        obtain ⟨rfl, rfl, rfl⟩ := h
        have hle : pyMod start tau ≤ e0 := not_lt.mp hgt
        exact ⟨hp0, hp1, lt_of_le_of_ne hle hne, by linarith, rfl, hdl⟩

/-- **a full ellipse is never empty** (fix of known finding C14-3): given as `(a, a + tau)` with ANY start parameter
    `a`, the prelude hands over exactly one full turn starting at `a % tau`.  (Before the fix the branch
    `isclose(param, end_param)` returned without a vertex: `ConstructionEllipse(start_param=1.0,
    end_param=1.0 + math.tau).flattening(0.1)` was empty although `param_span == tau`.) -/
theorem ellipse_prelude_full (relTol absTol tau a : Rat) (n : Nat) (htau : 0 < tau) (hn : 0 < n)
    (hne : pyIsclose relTol absTol (a + tau) tau = false) :
    ellipsePrelude relTol absTol tau a (a + tau) tau n = some (pyMod a tau, pyMod a tau + tau, tau / n) := by
  have hnq : (0 : Rat) < n := by exact_mod_cast hn
  have hdl : tau / (n : Rat) ≠ 0 := ne_of_gt (div_pos htau hnq)
  unfold ellipsePrelude
  simp only [hdl, if_false, hne, Bool.false_eq_true, pyMod_add_period a tau htau, pyIsclose_self, if_true]

/-- `ConstructionEllipse.flattening` WITH its prelude: nothing is yielded when the prelude returns, otherwise a
    finished run meets `FlatSpec` over the parameter range the prelude computed (with `param_span` consistent with
    that range and no early snap, both decidable) -/
theorem ellipse_full_sound (C : Curve V) (budget : Nat) (relTol absTol tau start end_ span : Rat) (n fuel : Nat)
    (out : List (TV V)) (h : ellipseFlatFull C budget relTol absTol tau start end_ span n fuel = .ok out) :
    (ellipsePrelude relTol absTol tau start end_ span n = none ∧ out = []) ∨
    ∃ p e dl, ellipsePrelude relTol absTol tau start end_ span n = some (p, e, dl) ∧
      (0 < dl → p + n * dl = e →
        (∀ k : Nat, k < n - 1 → pyIsclose relTol absTol (p + ((k : Rat) + 1) * dl) e = false) →
        FlatSpec C p e n out) := by
  unfold ellipseFlatFull at h
  split at h
  · rename_i hnone
    left; exact ⟨hnone, by simpa using h.symm⟩
  · rename_i p e dl hsome
    right
    refine ⟨p, e, dl, hsome, fun hδ hn hsnap => ?_⟩
    split at h
    · rename_i st hst
      simp only [Except.ok.injEq] at h
      subst h
      have hinv0 : Inv C p ⟨p, C.P p, [(p, C.P p)]⟩ := ⟨[], rfl, trivial, by simp [lastOf]⟩
      obtain ⟨r1, r2, r3⟩ := spanLoop_sound C _ (recSub_sound C budget) (pyIsclose relTol absTol) dl
        e (C.P e) hδ rfl p p n hn (fun k hk => hsnap k (by omega))
        fuel 0 _ st (Nat.zero_le _) (by simp) hinv0 hst
      exact inv_spec C p e n st r1 r2 (by simpa [Nat.add_comm] using r3)
    · simp at h

/-- the snap test (`math.isclose(next_t, t1)`; `np.isclose` before the fix of C14-6) does not fire before the last of
    the `segments` steps of any knot span -/
def NoEarlySnap (close : Rat → Rat → Bool) (segs : Nat) : Rat → List Rat → Prop
  | _, [] => True
  | t, t1 :: ks =>
    (∀ k : Nat, k < segs - 1 → close (t + ((k : Rat) + 1) * ((t1 - t) / segs)) t1 = false) ∧
      NoEarlySnap close segs t1 ks

def StrictInc : Rat → List Rat → Prop
  | _, [] => True
  | t, t1 :: ks => t < t1 ∧ StrictInc t1 ks

private theorem knotLoop_sound (C : Curve V) (sub : Rat → V → Rat → V → Except Err (List (TV V)))
    (hsub : SubSound C sub) (close : Rat → Rat → Bool) (segs fuel : Nat) (hsegs : 0 < segs) (a0 : Rat) :
    ∀ (ks : List Rat) (st st' : St V), StrictInc st.t ks → NoEarlySnap close segs st.t ks → Inv C a0 st →
      knotLoop C sub close segs fuel ks st = .ok st' →
      Inv C a0 st' ∧ st'.t = (ks.getLast?).getD st.t ∧ st.out.length + segs * ks.length ≤ st'.out.length := by
  intro ks
  induction ks with
  | nil => intro st st' _ _ hinv h; simp only [knotLoop, Except.ok.injEq] at h; subst h; simp [hinv]
  | cons t1 ks ih =>
    intro st st' hinc hns hinv h
    unfold knotLoop at h
    split at h
    · simp at h
    · rename_i st1 h1
      have hsq : (0 : Rat) < segs := by exact_mod_cast hsegs
      have hδ : 0 < (t1 - st.t) / segs := div_pos (by linarith [hinc.1]) hsq
      obtain ⟨r1, r2, r3⟩ := spanLoop_sound C sub hsub close ((t1 - st.t) / segs) t1 (C.P t1) hδ rfl a0
        st.t segs (by field_simp; ring) (fun k hk => hns.1 k (by omega)) fuel 0 st st1 (Nat.zero_le _)
        (by simp) hinv h1
      obtain ⟨q1, q2, q3⟩ := ih st1 st' (by rw [r2]; exact hinc.2) (by rw [r2]; exact hns.2) r1 h
      refine ⟨q1, ?_, ?_⟩
      · rw [q2, r2]
        cases ks with
        | nil => simp
        | cons c ks =>
          rw [List.getLast?_cons_cons, List.getLast?_eq_some_getLast (List.cons_ne_nil c ks)]
          rfl
      · simp only [List.length_cons, Nat.sub_zero] at r3 q3 ⊢
        have : segs * (ks.length + 1) = segs * ks.length + segs := by ring
        omega

private theorem insertUniq_mem (a : Rat) (l : List Rat) : ∀ x ∈ insertUniq a l, x = a ∨ x ∈ l := by
  induction l with
  | nil => intro x hx; simp [insertUniq] at hx; exact Or.inl hx
  | cons b l ih =>
    intro x hx
    unfold insertUniq at hx
    split at hx
    · rcases List.mem_cons.mp hx with h | h
      · exact Or.inl h
      · exact Or.inr h
    · split at hx
      · exact Or.inr hx
      · rcases List.mem_cons.mp hx with h | h
        · exact Or.inr (by simp [h])
        · rcases ih x h with h' | h'
          · exact Or.inl h'
          · exact Or.inr (List.mem_cons_of_mem _ h')

private theorem insertUniq_sorted (a : Rat) (l : List Rat) (h : l.Pairwise (· < ·)) :
    (insertUniq a l).Pairwise (· < ·) := by
  induction l with
  | nil => simp [insertUniq]
  | cons b l ih =>
    rw [List.pairwise_cons] at h
    unfold insertUniq
    split
    · rename_i hab
      rw [List.pairwise_cons]
      refine ⟨?_, List.pairwise_cons.mpr h⟩
      intro x hx
      rcases List.mem_cons.mp hx with rfl | hx
      · exact hab
      · exact lt_trans hab (h.1 x hx)
    · split
      · exact List.pairwise_cons.mpr h
      · rename_i h1 h2
        have hba : b < a := lt_of_le_of_ne (not_lt.mp h1) (fun hc => h2 hc.symm)
        rw [List.pairwise_cons]
        refine ⟨?_, ih h.2⟩
        intro x hx
        rcases insertUniq_mem a l x hx with rfl | hx
        · exact hba
        · exact h.1 x hx

/-- `np.unique` as modelled returns a strictly increasing list -/
theorem uniq_sorted (l : List Rat) : (uniq l).Pairwise (· < ·) := by
  induction l with
  | nil => simp [uniq]
  | cons a l ih => exact insertUniq_sorted a _ ih

private theorem strictInc_of_pairwise (t : Rat) (ks : List Rat) (h : (t :: ks).Pairwise (· < ·)) :
    StrictInc t ks := by
  induction ks generalizing t with
  | nil => trivial
  | cons t1 ks ih =>
    rw [List.pairwise_cons] at h
    exact ⟨h.1 t1 (by simp), ih t1 h.2⟩

/-- BSpline.flattening: a finished run over the unique knots `t :: ks` meets `FlatSpec` over the whole
    knot range with at least `segments` chords per knot span -/
theorem bspline_sound (C : Curve V) (budget : Nat) (rtol atol : Rat) (knots : List Rat) (segs fuel : Nat)
    (out : List (TV V)) (t : Rat) (ks : List Rat) (hu : uniq knots = t :: ks) (hsegs : 0 < segs)
    (hsnap : NoEarlySnap (pyIsclose rtol atol) segs t ks)
    (h : bsplineFlat C budget rtol atol knots segs fuel = .ok out) :
    FlatSpec C t ((ks.getLast?).getD t) (segs * ks.length) out := by
  unfold bsplineFlat at h
  rw [hu] at h
  simp only at h
  split at h
  · rename_i st hst
    simp only [Except.ok.injEq] at h
    subst h
    have hinv0 : Inv C t ⟨t, C.P t, [(t, C.P t)]⟩ := ⟨[], rfl, trivial, by simp [lastOf]⟩
    have hinc : StrictInc t ks := strictInc_of_pairwise t ks (by rw [← hu]; exact uniq_sorted knots)
    obtain ⟨r1, r2, r3⟩ := knotLoop_sound C _ (recSub_sound C budget) (pyIsclose rtol atol) segs fuel hsegs t
      ks _ st hinc hsnap hinv0 hst
    exact inv_spec C t _ _ st r1 r2 (by simpa [Nat.add_comm] using r3)
  · simp at h

/-- `math.isclose(next_t, t1)` does not fire before the last of `n` equal steps from `t` to `t1` when the span is
    wider than `n` times the tolerance at the larger knot magnitude -/
private theorem no_early_snap_span (relTol absTol t t1 : Rat) (n : Nat) (h0 : 0 ≤ relTol) (hlt : t < t1)
    (hr : relTol * n * max |t| |t1| < t1 - t) (ha : absTol * n < t1 - t) (k : Nat) (hk : k + 1 < n) :
    pyIsclose relTol absTol (t + ((k : Rat) + 1) * ((t1 - t) / n)) t1 = false := by
  have hn : (0 : Rat) < n := by exact_mod_cast (by omega : 0 < n)
  have hk1 : ((k : Rat) + 1) + 1 ≤ n := by exact_mod_cast hk
  have hk0 : (0 : Rat) ≤ k := by exact_mod_cast Nat.zero_le k
  set dl : Rat := (t1 - t) / n with hdl
  have hdn : dl * n = t1 - t := by rw [hdl]; field_simp
  have hdpos : 0 < dl := div_pos (by linarith) hn
  set x : Rat := t + ((k : Rat) + 1) * dl with hx
  have hgap : dl ≤ t1 - x := by
    have : t1 - x = (n - ((k : Rat) + 1)) * dl := by rw [hx]; linarith [hdn]
    rw [this]; nlinarith
  have hxt : t ≤ x := by rw [hx]; nlinarith
  have hxt1 : x < t1 := by linarith
  have hM : |x| ≤ max |t| |t1| := by
    rcases le_total 0 x with hx0 | hx0
    · rw [abs_of_nonneg hx0]
      exact le_trans (le_trans hxt1.le (le_abs_self t1)) (le_max_right _ _)
    · rw [abs_of_nonpos hx0]
      exact le_trans (le_trans (neg_le_neg hxt) (neg_le_abs t)) (le_max_left _ _)
  have hM1 : |t1| ≤ max |t| |t1| := le_max_right _ _
  have hMnn : 0 ≤ max |t| |t1| := le_trans (abs_nonneg t) (le_max_left _ _)
  have hrel : relTol * max |t| |t1| < dl := by
    by_contra hc
    have : dl * n ≤ relTol * max |t| |t1| * n := mul_le_mul_of_nonneg_right (not_lt.mp hc) hn.le
    nlinarith
  have habs : absTol < dl := by
    by_contra hc
    have : dl * n ≤ absTol * n := mul_le_mul_of_nonneg_right (not_lt.mp hc) hn.le
    linarith
  have hd : |t1 - x| = t1 - x := abs_of_pos (by linarith)
  apply pyIsclose_false
  · exact ne_of_lt hxt1
  · rw [hd, abs_mul, abs_of_nonneg h0]
    calc relTol * |t1| ≤ relTol * max |t| |t1| := mul_le_mul_of_nonneg_left hM1 h0
      _ < dl := hrel
      _ ≤ t1 - x := hgap
  · rw [hd, abs_mul, abs_of_nonneg h0]
    calc relTol * |x| ≤ relTol * max |t| |t1| := mul_le_mul_of_nonneg_left hM h0
      _ < dl := hrel
      _ ≤ t1 - x := hgap
  · rw [hd]; linarith

/-- every knot span is wider than `segments` times the `isclose` tolerance at its larger knot magnitude (decidable,
    true for all sane knot vectors: with `rel_tol = 1e-9` a span of width 1 at knot value 1e5 allows 10^4 segments) -/
def GapsOK (relTol absTol : Rat) (segs : Nat) : Rat → List Rat → Prop
  | _, [] => True
  | t, t1 :: ks => relTol * segs * max |t| |t1| < t1 - t ∧ absTol * segs < t1 - t ∧ GapsOK relTol absTol segs t1 ks

private theorem noEarlySnap_of_gaps (relTol absTol : Rat) (segs : Nat) (h0 : 0 ≤ relTol) :
    ∀ (ks : List Rat) (t : Rat), StrictInc t ks → GapsOK relTol absTol segs t ks →
      NoEarlySnap (pyIsclose relTol absTol) segs t ks := by
  intro ks
  induction ks with
  | nil => intro t _ _; trivial
  | cons t1 ks ih =>
    intro t hinc hg
    exact ⟨fun k hk => no_early_snap_span relTol absTol t t1 segs h0 hinc.1 hg.1 hg.2.1 k (by omega),
      ih t1 hinc.2 hg.2.2⟩

/-- **BSpline.flattening, arithmetic form** (current code: `math.isclose` snap, chord-distance test): for a knot
    vector whose spans are wider than `segments` times the tolerance (`GapsOK`), a finished run meets `FlatSpec` over
    the whole knot range with at least `segments` chords per knot span - the no-early-snap condition of
    `bspline_sound` is DERIVED.  (With `np.isclose` before fix of C14-6 this failed for knot values ≥ 1e4.) -/
theorem bspline_sound_gaps (C : Curve V) (budget : Nat) (relTol absTol : Rat) (knots : List Rat) (segs fuel : Nat)
    (out : List (TV V)) (t : Rat) (ks : List Rat) (hu : uniq knots = t :: ks) (hsegs : 0 < segs)
    (h0 : 0 ≤ relTol) (hg : GapsOK relTol absTol segs t ks)
    (h : bsplineFlat C budget relTol absTol knots segs fuel = .ok out) :
    FlatSpec C t ((ks.getLast?).getD t) (segs * ks.length) out :=
  bspline_sound C budget relTol absTol knots segs fuel out t ks hu hsegs
    (noEarlySnap_of_gaps relTol absTol segs h0 ks t
      (strictInc_of_pairwise t ks (by rw [← hu]; exact uniq_sorted knots)) hg) h

-- the knot vector of known finding C14-6 (values ~ 4.9e4, spans ~ 1, segments = 4) meets `GapsOK` with the
-- `math.isclose` defaults; with `np.isclose` (rtol 1e-5) it snapped at the first step
example : GapsOK (1e-9) 0 4 48660 [486611/10, 486623/10, 486631/10, 486643/10, 48665] := by
  simp only [GapsOK]; norm_num [abs_of_pos]

/-! ## the Cython twin is total up to RecursionError -/

private theorem recSub_no_fuel (C : Curve V) :
    ∀ (b : Nat) (t0 : Rat) (s : V) (t1 : Rat) (e : V), recSub C b t0 s t1 e ≠ .error .fuel := by
  intro b
  induction b with
  | zero => intro t0 s t1 e h; simp [recSub] at h
  | succ b ih =>
    intro t0 s t1 e h
    unfold recSub at h
    simp only at h
    split at h
    · simp at h
    · split at h
      · rename_i x hx
        simp only [Except.error.injEq] at h
        subst h
        exact ih _ _ _ _ hx
      · split at h
        · rename_i x hx
          simp only [Except.error.injEq] at h
          subst h
          exact ih _ _ _ _ hx
        · simp at h
    · simp at h

private theorem spanLoop_no_fuel (C : Curve V) (sub : Rat → V → Rat → V → Except Err (List (TV V)))
    (hsub : ∀ t0 s t1 e, sub t0 s t1 e ≠ .error .fuel) (close : Rat → Rat → Bool)
    (delta tEnd : Rat) (endPt : V) (a : Rat) (n : Nat) (hn : a + n * delta = tEnd) :
    ∀ (fuel k : Nat) (st : St V), (st.t = a + k * delta ∧ k ≤ n) ∨ st.t = tEnd → n - k < fuel →
      spanLoop C sub close delta tEnd endPt fuel st ≠ .error .fuel := by
  intro fuel
  induction fuel with
  | zero => intro k st _ hf; omega
  | succ fuel ih =>
    intro k st hst hf h
    unfold spanLoop at h
    by_cases hlt : st.t < tEnd
    · simp only [hlt, if_true] at h
      rcases hst with ⟨ht, hk⟩ | ht
      · have hk' : k < n := by
          rcases Nat.lt_or_ge k n with h' | h'
          · exact h'
          · have : k = n := le_antisymm hk h'
            subst this; rw [ht, hn] at hlt; exact absurd hlt (lt_irrefl _)
        split at h
        · rename_i x hx
          simp only [Except.error.injEq] at h
          subst h
          exact hsub _ _ _ _ hx
        · rename_i l hl
          refine ih (k + 1) _ ?_ (by omega) h
          by_cases hs : close (st.t + delta) tEnd = true
          · right; simp [hs]
          · left
            have hs' : close (st.t + delta) tEnd = false := by simpa using hs
            refine ⟨?_, hk'⟩
            simp only [hs', Bool.false_eq_true, if_false]
            rw [ht]; push_cast; ring
      · rw [ht] at hlt; exact absurd hlt (lt_irrefl _)
    · simp [hlt] at h

/-- **totality of the Cython twin up to RecursionError**: with `segments + 2` units of outer fuel (what the
    driver uses) the model of `acc/bezier4p.pyx` / `bezier3p.pyx` never runs out of fuel - it returns
    a vertex list (which `flat_sound_pyx` describes) or `RecursionError`; the only source of
    non-termination in the family is the unbounded `while True` of the pure Python twin. -/
theorem flat_pyx_total (C : Curve V) (relTol absTol : Rat) (first last : V) (n budget : Nat) (hn : 0 < n) :
    bezierFlat C (recSub C budget) relTol absTol first last n (n + 2) ≠ .error .fuel := by
  intro h
  unfold bezierFlat at h
  split at h
  · simp at h
  · rename_i x hx
    simp only [Except.error.injEq] at h
    subst h
    have hnq : (0 : Rat) < n := by exact_mod_cast hn
    exact spanLoop_no_fuel C _ (recSub_no_fuel C budget) (pyIsclose relTol absTol) (1 / (n : Rat)) 1 last
      0 n (by rw [zero_add, mul_one_div, div_self (ne_of_gt hnq)]) (n + 2) 0 _
      (Or.inl ⟨by simp, Nat.zero_le _⟩) (by omega) hx

/-! ## the two coded tests and the documented criterion -/

private theorem sqrtLt_iff (q d : Rat) : sqrtLt q d = true ↔ 0 < d ∧ q < d * d := by
  simp [sqrtLt]

/-- Bezier (both twins): the test accepts exactly when the curve point is closer than `distance` to the
    chord MIDPOINT (squared form of `chk_point.distance(mid_point) < distance`) -/
theorem midTest_accept_iff (d : Rat) (s e m : V3) :
    midTest d s e m = .accept ↔ 0 < d ∧ V3.dist2 (V3.lerp s e (1/2)) m < d * d := by
  unfold midTest
  split
  · rename_i h; exact ⟨fun _ => (sqrtLt_iff _ _).mp h, fun _ => rfl⟩
  · rename_i h; exact ⟨fun hc => Verdict.noConfusion hc, fun hc => absurd ((sqrtLt_iff _ _).mpr hc) h⟩

/-- documented criterion of the property: the curve point lies within `d` of the chord, i.e. of SOME
    point `s + λ (e - s)`, `0 ≤ λ ≤ 1`, of the segment -/
def WithinChord (d : Rat) (s e m : V3) : Prop :=
  ∃ lam : Rat, 0 ≤ lam ∧ lam ≤ 1 ∧ V3.dist2 (V3.lerp s e lam) m < d * d

/-- the coded Bezier test implies the documented criterion (distance to a segment ≤ distance to its midpoint) -/
theorem midTest_implies_documented (d : Rat) (s e m : V3) (h : midTest d s e m = .accept) :
    WithinChord d s e m :=
  ⟨1/2, by norm_num, by norm_num, ((midTest_accept_iff d s e m).mp h).2⟩

/-- the model's squared comparison is the exact-arithmetic meaning of the code's `sqrt(q) < distance` -/
theorem sqrtLt_spec (q d : Rat) :
    sqrtLt q d = true ↔ Real.sqrt (q : ℝ) < (d : ℝ) := by
  rw [sqrtLt_iff]
  constructor
  · rintro ⟨hd, hlt⟩
    have hd' : (0 : ℝ) < d := by exact_mod_cast hd
    rw [Real.sqrt_lt' hd']
    have : (q : ℝ) < (d : ℝ) * d := by exact_mod_cast hlt
    nlinarith
  · intro h
    have hd' : (0 : ℝ) < d := lt_of_le_of_lt (Real.sqrt_nonneg _) h
    have hd : 0 < d := by exact_mod_cast hd'
    refine ⟨hd, ?_⟩
    have := (Real.sqrt_lt' hd').mp h
    have h2 : (q : ℝ) < (d : ℝ) * d := by nlinarith
    exact_mod_cast h2

/-- with `distance ≤ 0` the Bezier test never accepts … -/
theorem midTest_nonpos (d : Rat) (hd : d ≤ 0) (s e m : V3) : midTest d s e m = .split := by
  unfold midTest
  split
  · rename_i h; exact absurd ((sqrtLt_iff _ _).mp h).1 (not_lt.mpr hd)
  · rfl

/-- … hence `flattening(0.0)` never yields its first chord: the stack machine runs out of ANY fuel
    (both twins loop / recurse forever on the real code; outside the property's quantifier) -/
theorem nonpositive_distance_never_finishes (P : Rat → V3) (d : Rat) (hd : d ≤ 0) :
    ∀ (fuel : Nat) (t0 : Rat) (s : V3) (t1 : Rat) (e : V3) (stack out : List (TV V3)),
      stackLoop ⟨P, midTest d⟩ fuel t0 s t1 e stack out = .error .fuel := by
  intro fuel
  induction fuel with
  | zero => intros; rfl
  | succ fuel ih =>
    intro t0 s t1 e stack out
    unfold stackLoop
    simp only [midTest_nonpos d hd]
    exact ih _ _ _ _ _ _

private theorem dot_self_nonneg (a : V3) : 0 ≤ V3.dot a a := by
  simp only [V3.dot]; nlinarith [mul_self_nonneg a.x, mul_self_nonneg a.y, mul_self_nonneg a.z]

private theorem v3_ext_dist (s e m : V3) (lam : Rat) :
    V3.dist2 (V3.lerp s e lam) m =
      V3.dot (m.sub s) (m.sub s) - 2 * lam * V3.dot (e.sub s) (m.sub s) + lam * lam * V3.dot (e.sub s) (e.sub s) := by
  simp only [V3.dist2, V3.lerp, V3.add, V3.sub, V3.smul, V3.dot]
  ring

/-- B-spline / ellipse: what the coded test `distance_point_line_3d(m, s, e) < distance` means -/
theorem lineTest_accept_iff (relTol absTol : Rat) (catchZero : Bool) (d : Rat) (s e m : V3) :
    lineTest relTol absTol catchZero d s e m = .accept ↔
      (v3Isclose relTol absTol s e = true ∧ catchZero = true ∧ 0 < d) ∨
      (v3Isclose relTol absTol s e = false ∧ 0 < d ∧ lineDist2 s e m < d * d) := by
  unfold lineTest
  by_cases hc : v3Isclose relTol absTol s e = true
  · simp only [hc, if_true]
    cases catchZero
    · simp
    · by_cases hd : 0 < d
      · simp [sqrtLt, hd, mul_pos hd hd]
      · simp [sqrtLt, hd]
  · have hc' : v3Isclose relTol absTol s e = false := by simpa using hc
    simp only [hc', Bool.false_eq_true, if_false]
    by_cases h : sqrtLt (lineDist2 s e m) d = true
    · simp [h, (sqrtLt_iff _ _).mp h]
    · simp only [h]
      constructor
      · intro hx; exact Verdict.noConfusion hx
      · rintro (⟨hx, _⟩ | ⟨_, h1, h2⟩)
        · exact hx.elim
        · exact absurd ((sqrtLt_iff _ _).mpr ⟨h1, h2⟩) h

/-- the curve point lies within `d` of the infinite LINE through the chord ends -/
def WithinLine (d : Rat) (s e m : V3) : Prop :=
  ∃ lam : Rat, V3.dist2 (V3.lerp s e lam) m < d * d

/-- for distinct chord ends the line test is the distance to the infinite line through them
    (foot point parameter `λ = u·v / u·u`, not restricted to `[0, 1]`) -/
theorem lineDist2_is_line_distance (s e m : V3) (hne : V3.dot (e.sub s) (e.sub s) ≠ 0) :
    lineDist2 s e m =
      V3.dist2 (V3.lerp s e (V3.dot (e.sub s) (m.sub s) / V3.dot (e.sub s) (e.sub s))) m := by
  have hfoot : V3.dist2 (V3.lerp s e (V3.dot (e.sub s) (m.sub s) / V3.dot (e.sub s) (e.sub s))) m =
      V3.dot (m.sub s) (m.sub s) - V3.dot (e.sub s) (m.sub s) * V3.dot (e.sub s) (m.sub s) / V3.dot (e.sub s) (e.sub s) := by
    rw [v3_ext_dist]; field_simp; ring
  have hnn : 0 ≤ V3.dist2 (V3.lerp s e (V3.dot (e.sub s) (m.sub s) / V3.dot (e.sub s) (e.sub s))) m := by
    exact dot_self_nonneg _
  unfold lineDist2
  simp only
  split
  · rename_i h; rw [hfoot]; rw [hfoot] at hnn; linarith
  · rw [hfoot]

theorem lineTest_implies_line (relTol absTol : Rat) (catchZero : Bool) (d : Rat) (s e m : V3)
    (hne : V3.dot (e.sub s) (e.sub s) ≠ 0) (hc : v3Isclose relTol absTol s e = false)
    (h : lineTest relTol absTol catchZero d s e m = .accept) : WithinLine d s e m := by
  rcases (lineTest_accept_iff _ _ _ _ _ _ _).mp h with ⟨hx, _⟩ | ⟨_, _, hlt⟩
  · rw [hc] at hx; exact Bool.noConfusion hx
  · exact ⟨_, by rw [← lineDist2_is_line_distance s e m hne]; exact hlt⟩

/-- the documented criterion (distance to the CHORD) is NOT implied by the B-spline / ellipse test:
    a curve point on the line through the chord ends but far outside the chord is accepted -/
theorem lineTest_not_documented :
    ∃ (d : Rat) (s e m : V3), 0 < d ∧ lineTest (1e-9) (1e-12) true d s e m = .accept ∧ ¬ WithinChord d s e m := by
  refine ⟨1/100, ⟨0, 0, 0⟩, ⟨1, 0, 0⟩, ⟨21/4, 0, 0⟩, by norm_num, by decide +kernel, ?_⟩
  rintro ⟨lam, h0, h1, hlt⟩
  simp only [V3.dist2, V3.lerp, V3.add, V3.sub, V3.smul, V3.dot] at hlt
  nlinarith


/-! ## the current B-spline / ellipse test: distance to the chord SEGMENT (fixes 5dd05e20e / c03295f49) -/

/-- B-spline / ellipse (current code): the test accepts exactly when `distance_point_segment_3d` is below
    `distance` (squared form) -/
theorem chordTest_accept_iff (d : Rat) (s e m : V3) :
    chordTest d s e m = .accept ↔ 0 < d ∧ segDist2 s e m < d * d := by
  unfold chordTest
  split
  · rename_i h; exact ⟨fun _ => (sqrtLt_iff _ _).mp h, fun _ => rfl⟩
  · rename_i h; exact ⟨fun hc => Verdict.noConfusion hc, fun hc => absurd ((sqrtLt_iff _ _).mpr hc) h⟩

private theorem dot_self_eq_zero (u : V3) (h : V3.dot u u = 0) : u.x = 0 ∧ u.y = 0 ∧ u.z = 0 := by
  simp only [V3.dot] at h
  have hx := mul_self_nonneg u.x
  have hy := mul_self_nonneg u.y
  have hz := mul_self_nonneg u.z
  refine ⟨?_, ?_, ?_⟩ <;> exact mul_self_eq_zero.mp (by linarith)

private theorem dist2_comm (a b : V3) : V3.dist2 a b = V3.dist2 b a := by
  simp only [V3.dist2, V3.sub, V3.dot]; ring

/-- `distance_point_segment_3d` really is the distance to the chord: its value is attained at a point
    `s + λ (e - s)` with `0 ≤ λ ≤ 1` of the segment, and no point of the segment is closer
    (all four branches: degenerate chord, projection before the start, behind the end, inside) -/
theorem segDist2_is_chord_distance (s e m : V3) :
    (∃ lam : Rat, 0 ≤ lam ∧ lam ≤ 1 ∧ segDist2 s e m = V3.dist2 (V3.lerp s e lam) m) ∧
    ∀ mu : Rat, 0 ≤ mu → mu ≤ 1 → segDist2 s e m ≤ V3.dist2 (V3.lerp s e mu) m := by
  have hL := dot_self_nonneg (e.sub s)
  unfold segDist2
  simp only
  by_cases h0 : V3.dot (e.sub s) (e.sub s) = 0
  · -- degenerate chord: every `lerp s e μ` is `s`
    simp only [h0, if_true]
    obtain ⟨hx, hy, hz⟩ := dot_self_eq_zero _ h0
    have huv : V3.dot (e.sub s) (m.sub s) = 0 := by simp only [V3.dot, hx, hy, hz]; ring
    refine ⟨⟨0, le_refl _, by norm_num, ?_⟩, fun mu _ _ => ?_⟩
    · rw [v3_ext_dist]; ring
    · rw [v3_ext_dist, h0, huv]; linarith
  · simp only [h0, if_false]
    have hLpos : 0 < V3.dot (e.sub s) (e.sub s) := lt_of_le_of_ne hL (Ne.symm h0)
    by_cases ht0 : V3.dot (e.sub s) (m.sub s) / V3.dot (e.sub s) (e.sub s) ≤ 0
    · -- projection before the start point
      simp only [ht0, if_true]
      have huv : V3.dot (e.sub s) (m.sub s) ≤ 0 := by
        have := (div_le_iff₀ hLpos).mp ht0; linarith
      refine ⟨⟨0, le_refl _, by norm_num, ?_⟩, fun mu h0' _ => ?_⟩
      · rw [v3_ext_dist]; ring
      · rw [v3_ext_dist]
        nlinarith [mul_nonneg h0' (neg_nonneg.mpr huv), mul_nonneg (mul_nonneg h0' h0') hL]
    · simp only [ht0, if_false]
      by_cases ht1 : 1 ≤ V3.dot (e.sub s) (m.sub s) / V3.dot (e.sub s) (e.sub s)
      · -- projection behind the end point
        simp only [ht1, if_true]
        have huv : V3.dot (e.sub s) (e.sub s) ≤ V3.dot (e.sub s) (m.sub s) := by
          have := (le_div_iff₀ hLpos).mp ht1; linarith
        have hme : V3.dist2 m e = V3.dist2 (V3.lerp s e 1) m := by
          simp only [V3.dist2, V3.lerp, V3.add, V3.sub, V3.smul, V3.dot]; ring
        refine ⟨⟨1, by norm_num, le_refl _, hme⟩, fun mu h0' h1' => ?_⟩
        rw [hme, v3_ext_dist, v3_ext_dist]
        have h1 : 0 ≤ (1 - mu) * (V3.dot (e.sub s) (m.sub s) - V3.dot (e.sub s) (e.sub s)) :=
          mul_nonneg (by linarith) (by linarith)
        have h2 : 0 ≤ (1 - mu) * (1 - mu) * V3.dot (e.sub s) (e.sub s) :=
          mul_nonneg (mul_nonneg (by linarith) (by linarith)) hL
        nlinarith
      · -- foot point inside the chord
        simp only [ht1, if_false]
        set t := V3.dot (e.sub s) (m.sub s) / V3.dot (e.sub s) (e.sub s) with htdef
        have hfoot : V3.dist2 m (s.add (V3.smul t (e.sub s))) = V3.dist2 (V3.lerp s e t) m := by
          rw [dist2_comm]; rfl
        have htL : t * V3.dot (e.sub s) (e.sub s) = V3.dot (e.sub s) (m.sub s) := by
          rw [htdef]; field_simp
        refine ⟨⟨t, le_of_lt (not_le.mp ht0), le_of_lt (not_le.mp ht1), hfoot⟩, fun mu _ _ => ?_⟩
        rw [hfoot, v3_ext_dist, v3_ext_dist, ← htL]
        nlinarith [mul_nonneg (mul_self_nonneg (mu - t)) hL]

/-- **the coded B-spline / ellipse test IS the documented criterion** (full strength, both directions):
    the chord is accepted exactly when the curve point at the middle parameter lies within `distance` of
    the chord.  (Before the fixes only the weaker `lineTest_implies_line` held and
    `lineTest_not_documented` / `bspline_line_test_counterexample` refuted this statement.) -/
theorem chordTest_iff_documented (d : Rat) (s e m : V3) :
    chordTest d s e m = .accept ↔ 0 < d ∧ WithinChord d s e m := by
  rw [chordTest_accept_iff]
  obtain ⟨⟨lam, h0, h1, heq⟩, hmin⟩ := segDist2_is_chord_distance s e m
  constructor
  · rintro ⟨hd, hlt⟩
    exact ⟨hd, lam, h0, h1, by rw [← heq]; exact hlt⟩
  · rintro ⟨hd, mu, h0', h1', hlt⟩
    exact ⟨hd, lt_of_le_of_lt (hmin mu h0' h1') hlt⟩

/-- a degenerate chord (`s = e`) is no longer accepted blindly (`_dist = 0`, known finding C14-5) and no
    longer raises (C14-2): it is accepted exactly when the curve point itself is within `distance` of `s` -/
theorem chordTest_degenerate (d : Rat) (s m : V3) :
    chordTest d s s m = .accept ↔ 0 < d ∧ V3.dist2 s m < d * d := by
  rw [chordTest_accept_iff]
  have : segDist2 s s m = V3.dist2 s m := by
    have h0 : V3.dot (s.sub s) (s.sub s) = 0 := by simp only [V3.dot, V3.sub]; ring
    unfold segDist2
    simp only [h0, if_true]
    rfl
  rw [this]

/-- every chord of a finished B-spline / ellipse run meets the documented criterion: `FlatSpec` (from
    `bspline_sound` / `ellipse_sound`) with the current test gives `WithinChord` for every consecutive pair -/
theorem flatSpec_chord_documented (P : Rat → V3) (d a b : Rat) (n : Nat) (out : List (TV V3))
    (h : FlatSpec ⟨P, chordTest d⟩ a b n out) :
    ∀ pq ∈ out.zip out.tail, WithinChord d pq.1.2 pq.2.2 (P ((pq.1.1 + pq.2.1) * (1/2))) :=
  fun pq hpq => ((chordTest_iff_documented d _ _ _).mp (h.criterion pq hpq)).2

/-- the same for the Bezier test: every chord of a finished Bezier run (`flat_sound_py/pyx`) meets the
    documented criterion -/
theorem flatSpec_mid_documented (P : Rat → V3) (d a b : Rat) (n : Nat) (out : List (TV V3))
    (h : FlatSpec ⟨P, midTest d⟩ a b n out) :
    ∀ pq ∈ out.zip out.tail, WithinChord d pq.1.2 pq.2.2 (P ((pq.1.1 + pq.2.1) * (1/2))) :=
  fun pq hpq => midTest_implies_documented d _ _ _ (h.criterion pq hpq)

/-! ## path/tools.py: when a Bezier segment may be stored as a straight LINE_TO -/

/-- `add_bezier4p` (rule: start == ctrl1 AND end == ctrl2): a cubic with BOTH handles retracted is its chord,
    `P t = start + (3t² - 2t³) (end - start)` -/
theorem cubic_both_handles_retracted_is_chord (p0 p3 : V3) (t : Rat) :
    bez4Point p0 p0 p3 p3 t = V3.lerp p0 p3 (3 * t * t - 2 * t * t * t) := by
  simp only [bez4Point, V3.lerp, V3.add, V3.sub, V3.smul, V3.mk.injEq]
  refine ⟨?_, ?_, ?_⟩ <;> ring

/-- the chord parameter stays inside `[0, 1]`: the polyline `start, end` reproduces such a cubic exactly -/
theorem cubic_chord_parameter_in_range (t : Rat) (h0 : 0 ≤ t) (h1 : t ≤ 1) :
    0 ≤ 3 * t * t - 2 * t * t * t ∧ 3 * t * t - 2 * t * t * t ≤ 1 := by
  constructor
  · have : 3 * t * t - 2 * t * t * t = t * t * (3 - 2 * t) := by ring
    rw [this]; exact mul_nonneg (mul_nonneg h0 h0) (by linarith)
  · have : 1 - (3 * t * t - 2 * t * t * t) = (1 - t) * (1 - t) * (1 + 2 * t) := by ring
    have h : 0 ≤ (1 - t) * (1 - t) * (1 + 2 * t) := mul_nonneg (mul_nonneg (by linarith) (by linarith)) (by linarith)
    linarith

/-- ONE retracted handle does not make a cubic straight (so the rule must be AND, not OR): the curve
    (0,0) (0,0) (1,1) (2,0) is 3/8 above its chord at t = 1/2 -/
theorem cubic_one_handle_retracted_not_chord :
    ∃ (p0 p2 p3 : V3) (t : Rat), 0 ≤ t ∧ t ≤ 1 ∧ ∀ lam : Rat, bez4Point p0 p0 p2 p3 t ≠ V3.lerp p0 p3 lam := by
  refine ⟨⟨0, 0, 0⟩, ⟨1, 1, 0⟩, ⟨2, 0, 0⟩, 1/2, by norm_num, by norm_num, ?_⟩
  intro lam h
  have hy := congrArg V3.y h
  simp only [bez4Point, V3.lerp, V3.add, V3.sub, V3.smul] at hy
  norm_num at hy

/-- `add_bezier3p` (rule: start == ctrl OR end == ctrl): a quadratic with its control point on an end point
    is its chord -/
theorem quadratic_retracted_is_chord (p0 p2 : V3) (t : Rat) :
    bez3Point p0 p0 p2 t = V3.lerp p0 p2 (t * t) ∧
    bez3Point p0 p2 p2 t = V3.lerp p0 p2 (2 * t * (1 - t) + t * t) := by
  constructor <;>
  · simp only [bez3Point, V3.lerp, V3.add, V3.sub, V3.smul, V3.mk.injEq]
    refine ⟨?_, ?_, ?_⟩ <;> ring

/-! ## the Python stack machine reproduces the recursion of the Cython twin -/

private theorem stack_simulates_rec (C : Curve V) :
    ∀ (b : Nat) (t0 : Rat) (s : V) (t1 : Rat) (e : V) (l : List (TV V)),
      recSub C b t0 s t1 e = .ok l →
      ∃ c : Nat, ∀ (k : Nat) (stack out : List (TV V)),
        stackLoop C (c + k) t0 s t1 e stack out =
          match stack with
          | [] => .ok (l.reverse ++ out)
          | (t', e') :: rest => stackLoop C k t1 e t' e' rest (l.reverse ++ out) := by
  intro b
  induction b with
  | zero => intro t0 s t1 e l h; simp [recSub] at h
  | succ b ih =>
    intro t0 s t1 e l h
    unfold recSub at h
    simp only at h
    split at h
    · rename_i hacc
      simp only [Except.ok.injEq] at h
      subst h
      refine ⟨1, ?_⟩
      intro k stack out
      rw [Nat.add_comm]
      simp only [stackLoop, hacc]
      cases stack with
      | nil => simp
      | cons top rest => obtain ⟨t', e'⟩ := top; simp
    · rename_i hsplit
      split at h
      · simp at h
      · rename_i l1 h1
        split at h
        · simp at h
        · rename_i l2 h2
          simp only [Except.ok.injEq] at h
          subst h
          obtain ⟨c1, hc1⟩ := ih _ _ _ _ _ h1
          obtain ⟨c2, hc2⟩ := ih _ _ _ _ _ h2
          refine ⟨1 + (c1 + c2), ?_⟩
          intro k stack out
          have : 1 + (c1 + c2) + k = (c1 + (c2 + k)) + 1 := by omega
          rw [this]
          simp only [stackLoop, hsplit]
          rw [hc1 (c2 + k) ((t1, e) :: stack) out]
          simp only
          rw [hc2 k stack (l1.reverse ++ out)]
          cases stack with
          | nil => simp
          | cons top rest => obtain ⟨t', e'⟩ := top; simp
    · simp at h

/-- **twin agreement**: whenever the recursive subdivision (Cython twin, any budget) returns a vertex
    list, the pure Python stack machine returns exactly the same list for every sufficiently large fuel
    (so it terminates there, too).  The converse fails only through `RecursionError` (budget). -/
theorem stack_eq_rec (C : Curve V) (b : Nat) (t0 : Rat) (s : V) (t1 : Rat) (e : V) (l : List (TV V))
    (h : recSub C b t0 s t1 e = .ok l) :
    ∃ c : Nat, ∀ k : Nat, stackSub C (c + k) t0 s t1 e = .ok l := by
  obtain ⟨c, hc⟩ := stack_simulates_rec C b t0 s t1 e l h
  refine ⟨c, fun k => ?_⟩
  unfold stackSub
  rw [hc k [] []]
  simp

/-! ## converse: the recursion reproduces the stack machine up to `RecursionError` -/

private theorem recSub_mono (C : Curve V) :
    ∀ (b : Nat) (t0 : Rat) (s : V) (t1 : Rat) (e : V) (l : List (TV V)),
      recSub C b t0 s t1 e = .ok l → ∀ k, recSub C (b + k) t0 s t1 e = .ok l := by
  intro b
  induction b with
  | zero => intro t0 s t1 e l h; simp [recSub] at h
  | succ b ih =>
    intro t0 s t1 e l h k
    have hk : b + 1 + k = (b + k) + 1 := by omega
    rw [hk]
    unfold recSub at h
    simp only at h
    split at h
    · rename_i hacc; simp only [recSub, hacc]; exact h
    · rename_i hsplit
      split at h
      · simp at h
      · rename_i l1 h1
        split at h
        · simp at h
        · rename_i l2 h2
          simp only [recSub, hsplit, ih _ _ _ _ _ h1 k, ih _ _ _ _ _ h2 k]
          exact h
    · simp at h

private theorem recSub_error_stable (C : Curve V) :
    ∀ (b : Nat) (t0 : Rat) (s : V) (t1 : Rat) (e : V) (x : Err),
      recSub C b t0 s t1 e = .error x → x ≠ .recursion → ∀ k, recSub C (b + k) t0 s t1 e = .error x := by
  intro b
  induction b with
  | zero =>
    intro t0 s t1 e x h hx
    simp only [recSub, Except.error.injEq] at h
    exact absurd h.symm hx
  | succ b ih =>
    intro t0 s t1 e x h hx k
    have hk : b + 1 + k = (b + k) + 1 := by omega
    rw [hk]
    unfold recSub at h
    simp only at h
    split at h
    · simp at h
    · rename_i hsplit
      split at h
      · rename_i x1 h1
        simp only [Except.error.injEq] at h
        subst h
        simp only [recSub, hsplit, ih _ _ _ _ _ h1 hx k]
      · rename_i l1 h1
        split at h
        · rename_i x2 h2
          simp only [Except.error.injEq] at h
          subst h
          simp only [recSub, hsplit, recSub_mono C _ _ _ _ _ _ h1 k, ih _ _ _ _ _ h2 hx k]
        · simp at h
    · rename_i hraise; simp only [recSub, hraise]; exact h

private theorem rec_simulates_stack (C : Curve V) :
    ∀ (fuel : Nat) (t0 : Rat) (s : V) (t1 : Rat) (e : V) (stack out res : List (TV V)),
      stackLoop C fuel t0 s t1 e stack out = .ok res →
      ∃ l, recSub C fuel t0 s t1 e = .ok l ∧
        match stack with
        | [] => res = l.reverse ++ out
        | (t', e') :: rest =>
          ∃ fuel', fuel' < fuel ∧ stackLoop C fuel' t1 e t' e' rest (l.reverse ++ out) = .ok res := by
  intro fuel
  induction fuel using Nat.strong_induction_on with
  | _ fuel ih =>
    intro t0 s t1 e stack out res h
    cases fuel with
    | zero => simp [stackLoop] at h
    | succ fuel =>
      unfold stackLoop at h
      simp only at h
      split at h
      · -- accept
        rename_i hacc
        refine ⟨[(t1, e)], by unfold recSub; simp only [hacc], ?_⟩
        cases stack with
        | nil => simp only [Except.ok.injEq] at h; simp [← h]
        | cons top rest =>
          obtain ⟨t', e'⟩ := top
          exact ⟨fuel, Nat.lt_succ_self _, by simpa using h⟩
      · -- split
        rename_i hsplit
        obtain ⟨l1, hr1, hcont⟩ := ih fuel (Nat.lt_succ_self _) _ _ _ _ _ _ _ h
        obtain ⟨fuel', hlt, hrest⟩ := hcont
        obtain ⟨l2, hr2, hfin⟩ := ih fuel' (Nat.lt_succ_of_lt hlt) _ _ _ _ _ _ _ hrest
        have hr2' : recSub C fuel ((t0 + t1) * (1/2)) (C.P ((t0 + t1) * (1/2))) t1 e = .ok l2 := by
          have := recSub_mono C fuel' _ _ _ _ _ hr2 (fuel - fuel')
          rwa [Nat.add_sub_cancel' (Nat.le_of_lt hlt)] at this
        refine ⟨l1 ++ l2, by unfold recSub; simp only [hsplit, hr1, hr2'], ?_⟩
        cases stack with
        | nil => simp only at hfin ⊢; rw [hfin]; simp
        | cons top rest =>
          obtain ⟨t', e'⟩ := top
          simp only at hfin ⊢
          obtain ⟨fuel'', hlt2, hfin2⟩ := hfin
          exact ⟨fuel'', by omega, by simpa using hfin2⟩
      · simp at h

/-- **twin agreement, converse of `stack_eq_rec`**: whenever the pure Python stack machine finishes (with any fuel)
    and returns the list `l`, the recursion of the Cython twin returns exactly `l` for every recursion budget from
    `fuel` on, and for EVERY budget `b` its outcome is either that same list or `RecursionError` - nothing else
    (no other list, no other exception).  For the real twins `b = RECURSION_LIMIT + 1 = 1001`: the Cython
    `flattening` yields the vertices of the Python twin unless it raises `RecursionError`. -/
theorem rec_eq_stack (C : Curve V) (fuel : Nat) (t0 : Rat) (s : V) (t1 : Rat) (e : V) (l : List (TV V))
    (h : stackSub C fuel t0 s t1 e = .ok l) :
    (∀ k, recSub C (fuel + k) t0 s t1 e = .ok l) ∧
    ∀ b, recSub C b t0 s t1 e = .ok l ∨ recSub C b t0 s t1 e = .error .recursion := by
  unfold stackSub at h
  split at h
  · rename_i r hr
    simp only [Except.ok.injEq] at h
    obtain ⟨l', hrec, hres⟩ := rec_simulates_stack C fuel t0 s t1 e [] [] r hr
    simp only [List.append_nil] at hres
    have hl : l' = l := by rw [← h, hres]; simp
    subst hl
    have hmono := recSub_mono C fuel t0 s t1 e l' hrec
    refine ⟨hmono, fun b => ?_⟩
    cases hb : recSub C b t0 s t1 e with
    | ok l2 =>
      left
      have h1 := recSub_mono C b t0 s t1 e l2 hb fuel
      have h2 := hmono b
      rw [Nat.add_comm] at h1
      rw [h1] at h2
      exact h2
    | error x =>
      right
      by_cases hx : x = .recursion
      · rw [hx]
      · have h1 := recSub_error_stable C b t0 s t1 e x hb hx fuel
        have h2 := hmono b
        rw [Nat.add_comm] at h1
        rw [h1] at h2
        exact absurd h2 (by simp)
  · simp at h

/-- the two directions together: for a budget that suffices, both twins' inner subdivisions agree as functions -/
theorem stack_iff_rec (C : Curve V) (t0 : Rat) (s : V) (t1 : Rat) (e : V) (l : List (TV V)) :
    (∃ fuel, stackSub C fuel t0 s t1 e = .ok l) ↔ (∃ b, recSub C b t0 s t1 e = .ok l) := by
  constructor
  · rintro ⟨fuel, h⟩
    exact ⟨fuel, by simpa using (rec_eq_stack C fuel t0 s t1 e l h).1 0⟩
  · rintro ⟨b, h⟩
    obtain ⟨c, hc⟩ := stack_eq_rec C b t0 s t1 e l h
    exact ⟨c, by simpa using hc 0⟩

private theorem spanLoop_twin (C : Curve V) (sub1 sub2 : Rat → V → Rat → V → Except Err (List (TV V)))
    (hrel : ∀ t0 s t1 e l, sub1 t0 s t1 e = .ok l →
      sub2 t0 s t1 e = .ok l ∨ sub2 t0 s t1 e = .error .recursion)
    (close1 close2 : Rat → Rat → Bool) (delta tEnd : Rat) (endPt : V) (a : Rat) (n : Nat)
    (hn : a + n * delta = tEnd)
    (hs1 : ∀ k : Nat, k + 1 < n → close1 (a + ((k : Rat) + 1) * delta) tEnd = false)
    (hs2 : ∀ k : Nat, k + 1 < n → close2 (a + ((k : Rat) + 1) * delta) tEnd = false)
    (hl1 : close1 tEnd tEnd = true) (hl2 : close2 tEnd tEnd = true) :
    ∀ (fuel k : Nat) (st st' : St V), k ≤ n → st.t = a + k * delta →
      spanLoop C sub1 close1 delta tEnd endPt fuel st = .ok st' →
      spanLoop C sub2 close2 delta tEnd endPt fuel st = .ok st' ∨
      spanLoop C sub2 close2 delta tEnd endPt fuel st = .error .recursion := by
  intro fuel
  induction fuel with
  | zero => intro k st st' _ _ h; simp [spanLoop] at h
  | succ fuel ih =>
    intro k st st' hk ht h
    unfold spanLoop at h ⊢
    by_cases hlt : st.t < tEnd
    · simp only [hlt, if_true] at h ⊢
      have hk' : k < n := by
        rcases Nat.lt_or_ge k n with h' | h'
        · exact h'
        · have : k = n := le_antisymm hk h'
          subst this; rw [ht, hn] at hlt; exact absurd hlt (lt_irrefl _)
      have ht1 : st.t + delta = a + ((k : Rat) + 1) * delta := by rw [ht]; ring
      -- both snap tests take the same decision
      have hsame : close1 (st.t + delta) tEnd = close2 (st.t + delta) tEnd := by
        by_cases hk1 : k + 1 < n
        · rw [ht1, hs1 k hk1, hs2 k hk1]
        · have hkn : k + 1 = n := by omega
          have : st.t + delta = tEnd := by
            rw [ht1, ← hn, ← hkn]; push_cast; ring
          rw [this, hl1, hl2]
      rw [← hsame]
      -- the new parameter is `a + (k+1) delta` whichever way the snap went
      have hval : (if close1 (st.t + delta) tEnd then tEnd else st.t + delta) = a + ((k + 1 : Nat) : Rat) * delta := by
        by_cases hs : close1 (st.t + delta) tEnd = true
        · simp only [hs, if_true]
          have : ¬ (k + 1 < n) := by
            intro hc
            have := hs1 k hc
            rw [← ht1, hs] at this; exact Bool.noConfusion this
          have hkn : k + 1 = n := by omega
          rw [← hn, ← hkn]
        · have hs' : close1 (st.t + delta) tEnd = false := by simpa using hs
          simp only [hs', Bool.false_eq_true, if_false]
          rw [ht1]; push_cast; ring
      generalize ht1' : (if close1 (st.t + delta) tEnd then tEnd else st.t + delta) = t1' at h ⊢
      generalize (if close1 (st.t + delta) tEnd then endPt else C.P (st.t + delta)) = e' at h ⊢
      rw [ht1'] at hval
      split at h
      · simp at h
      · rename_i l hl
        rcases hrel _ _ _ _ _ hl with h2 | h2
        · rw [h2]
          exact ih (k + 1) _ st' hk' hval h
        · rw [h2]; right; rfl
    · simp only [hlt, if_false] at h ⊢
      left; exact h

open EzdxfVerif.Gen.FlattenKernels in
/-- **the two Bezier twins agree on whole flattenings**: for `segments < 10^9`, whenever the pure Python
    `Bezier4P/3P.flattening` (stack machine, `math.isclose` defaults) finishes and returns `out`, the Cython twin
    (recursion with any `RECURSION_LIMIT`, `isclose(…, REL_TOL, ABS_TOL)`) run with the same outer fuel returns exactly
    the same vertex list - or raises `RecursionError`, and nothing else.  Any curve, any test, any tolerance. -/
theorem twins_agree (C : Curve V) (first last : V) (n fuel subfuel budget : Nat) (out : List (TV V))
    (hn : 0 < n) (hn9 : n < 10 ^ 9)
    (h : bezierFlat C (stackSub C subfuel) mathRelTol mathAbsTol first last n fuel = .ok out) :
    bezierFlat C (recSub C budget) pyxRelTol pyxAbsTol first last n fuel = .ok out ∨
    bezierFlat C (recSub C budget) pyxRelTol pyxAbsTol first last n fuel = .error .recursion := by
  have hq : (n : Rat) < 10 ^ 9 := by exact_mod_cast hn9
  have hnq : (0 : Rat) < n := by exact_mod_cast hn
  unfold bezierFlat at h ⊢
  split at h
  · rename_i st hst
    simp only [Except.ok.injEq] at h
    have := spanLoop_twin C (stackSub C subfuel) (recSub C budget)
      (fun t0 s t1 e l hl => (rec_eq_stack C subfuel t0 s t1 e l hl).2 budget)
      (pyIsclose mathRelTol mathAbsTol) (pyIsclose pyxRelTol pyxAbsTol) (1 / (n : Rat)) 1 last 0 n
      (by rw [zero_add, mul_one_div, div_self (ne_of_gt hnq)])
      (no_early_snap mathRelTol mathAbsTol n (by norm_num [mathRelTol]) (by rw [mathRelTol]; linarith)
        (by rw [mathAbsTol]; norm_num))
      (no_early_snap pyxRelTol pyxAbsTol n (by norm_num [pyxRelTol]) (by rw [pyxRelTol]; linarith)
        (by rw [pyxAbsTol]; linarith))
      (pyIsclose_self _ _ _) (pyIsclose_self _ _ _) fuel 0 _ st (Nat.zero_le _) (by simp) hst
    rcases this with h2 | h2
    · left; rw [h2]; simp [h]
    · right; rw [h2]
  · simp at h

/-! ## termination -/

/-- **conditional termination of the recursion** (any curve, any test that never raises): if every chord
    inside the parameter range `[lo, hi]` that is narrower than `w` is accepted, a chord of width at most `w · 2^k`
    inside the range is flattened within `k + 1` recursion levels -/
theorem recSub_terminates (C : Curve V) (w lo hi : Rat)
    (hacc : ∀ t0 t1 : Rat, lo ≤ t0 → t1 ≤ hi → t0 < t1 → t1 - t0 ≤ w →
      C.test (C.P t0) (C.P t1) (C.P ((t0 + t1) * (1/2))) = .accept)
    (hnr : ∀ s e m, C.test s e m ≠ .raise) :
    ∀ (k : Nat) (t0 t1 : Rat), lo ≤ t0 → t1 ≤ hi → t0 < t1 → t1 - t0 ≤ w * 2 ^ k →
      ∃ l, recSub C (k + 1) t0 (C.P t0) t1 (C.P t1) = .ok l := by
  intro k
  induction k with
  | zero =>
    intro t0 t1 hlo hhi hlt hw
    refine ⟨[(t1, C.P t1)], ?_⟩
    unfold recSub
    simp only [hacc t0 t1 hlo hhi hlt (by simpa using hw)]
  | succ k ih =>
    intro t0 t1 hlo hhi hlt hw
    have hm1 : t0 < (t0 + t1) * (1/2) := by linarith
    have hm2 : (t0 + t1) * (1/2) < t1 := by linarith
    have hw' : w * 2 ^ (k + 1) = 2 * (w * 2 ^ k) := by rw [pow_succ]; ring
    obtain ⟨l1, h1⟩ := ih t0 ((t0 + t1) * (1/2)) hlo (by linarith) hm1 (by rw [hw'] at hw; linarith)
    obtain ⟨l2, h2⟩ := ih ((t0 + t1) * (1/2)) t1 (by linarith) hhi hm2 (by rw [hw'] at hw; linarith)
    unfold recSub
    simp only
    cases ht : C.test (C.P t0) (C.P t1) (C.P ((t0 + t1) * (1/2))) with
    | accept => exact ⟨_, rfl⟩
    | split => simp only [h1, h2]; exact ⟨_, rfl⟩
    | raise => exact absurd ht (hnr _ _ _)

/-- the stack machine needs at most `2^b` steps where the recursion needs budget `b` -/
private theorem stack_simulates_rec_bound (C : Curve V) :
    ∀ (b : Nat) (t0 : Rat) (s : V) (t1 : Rat) (e : V) (l : List (TV V)),
      recSub C b t0 s t1 e = .ok l →
      ∃ c : Nat, c + 1 ≤ 2 ^ b ∧ ∀ (k : Nat) (stack out : List (TV V)),
        stackLoop C (c + k) t0 s t1 e stack out =
          match stack with
          | [] => .ok (l.reverse ++ out)
          | (t', e') :: rest => stackLoop C k t1 e t' e' rest (l.reverse ++ out) := by
  intro b
  induction b with
  | zero => intro t0 s t1 e l h; simp [recSub] at h
  | succ b ih =>
    intro t0 s t1 e l h
    unfold recSub at h
    simp only at h
    have hpow : 1 ≤ 2 ^ b := Nat.one_le_two_pow
    split at h
    · rename_i hacc
      simp only [Except.ok.injEq] at h
      subst h
      refine ⟨1, by rw [pow_succ]; omega, ?_⟩
      intro k stack out
      rw [Nat.add_comm]
      simp only [stackLoop, hacc]
      cases stack with
      | nil => simp
      | cons top rest => obtain ⟨t', e'⟩ := top; simp
    · rename_i hsplit
      split at h
      · simp at h
      · rename_i l1 h1
        split at h
        · simp at h
        · rename_i l2 h2
          simp only [Except.ok.injEq] at h
          subst h
          obtain ⟨c1, hb1, hc1⟩ := ih _ _ _ _ _ h1
          obtain ⟨c2, hb2, hc2⟩ := ih _ _ _ _ _ h2
          refine ⟨1 + (c1 + c2), by rw [pow_succ]; omega, ?_⟩
          intro k stack out
          have : 1 + (c1 + c2) + k = (c1 + (c2 + k)) + 1 := by omega
          rw [this]
          simp only [stackLoop, hsplit]
          rw [hc1 (c2 + k) ((t1, e) :: stack) out]
          simp only
          rw [hc2 k stack (l1.reverse ++ out)]
          cases stack with
          | nil => simp
          | cons top rest => obtain ⟨t', e'⟩ := top; simp
    · simp at h

/-- `stack_eq_rec` with an explicit fuel: `2^b` steps of the Python loop suffice where the recursion needs budget `b` -/
theorem stack_eq_rec_fuel (C : Curve V) (b : Nat) (t0 : Rat) (s : V) (t1 : Rat) (e : V) (l : List (TV V))
    (h : recSub C b t0 s t1 e = .ok l) : ∀ k, stackSub C (2 ^ b + k) t0 s t1 e = .ok l := by
  obtain ⟨c, hb, hc⟩ := stack_simulates_rec_bound C b t0 s t1 e l h
  intro k
  unfold stackSub
  have : 2 ^ b + k = c + (2 ^ b - c + k) := by omega
  rw [this, hc _ [] []]
  simp

private theorem spanLoop_total (C : Curve V) (sub : Rat → V → Rat → V → Except Err (List (TV V)))
    (close : Rat → Rat → Bool) (delta tEnd : Rat) (endPt : V)
    (a : Rat)
    (hsub : ∀ t0 t1 : Rat, a ≤ t0 → t1 ≤ tEnd → t0 < t1 → t1 - t0 ≤ delta → ∃ l, sub t0 (C.P t0) t1 (C.P t1) = .ok l)
    (hδ : 0 < delta) (hend : endPt = C.P tEnd) (n : Nat) (hn : a + n * delta = tEnd)
    (hsnap : ∀ k : Nat, k + 1 < n → close (a + ((k : Rat) + 1) * delta) tEnd = false) :
    ∀ (fuel k : Nat) (st : St V), k ≤ n → st.t = a + k * delta → st.s = C.P st.t → n - k < fuel →
      ∃ st', spanLoop C sub close delta tEnd endPt fuel st = .ok st' := by
  intro fuel
  induction fuel with
  | zero => intro k st _ _ _ hf; omega
  | succ fuel ih =>
    intro k st hk ht hs hf
    unfold spanLoop
    by_cases hlt : st.t < tEnd
    · simp only [hlt, if_true]
      have hk' : k < n := by
        rcases Nat.lt_or_ge k n with h' | h'
        · exact h'
        · have : k = n := le_antisymm hk h'
          subst this; rw [ht, hn] at hlt; exact absurd hlt (lt_irrefl _)
      have ht1 : st.t + delta = a + ((k : Rat) + 1) * delta := by rw [ht]; ring
      have key : (if close (st.t + delta) tEnd then tEnd else st.t + delta) = a + ((k + 1 : Nat) : Rat) * delta ∧
          (if close (st.t + delta) tEnd then endPt else C.P (st.t + delta)) =
            C.P (if close (st.t + delta) tEnd then tEnd else st.t + delta) := by
        by_cases hsn : close (st.t + delta) tEnd = true
        · simp only [hsn, if_true]
          have : ¬ (k + 1 < n) := by
            intro hc
            have := hsnap k hc
            rw [← ht1, hsn] at this; exact Bool.noConfusion this
          have hkn : k + 1 = n := by omega
          exact ⟨by rw [← hn, ← hkn], hend⟩
        · have hsn' : close (st.t + delta) tEnd = false := by simpa using hsn
          simp only [hsn', Bool.false_eq_true, if_false]
          exact ⟨by rw [ht1]; push_cast; ring, trivial⟩
      obtain ⟨hval, hpt⟩ := key
      generalize (if close (st.t + delta) tEnd then tEnd else st.t + delta) = t1' at hval hpt ⊢
      generalize (if close (st.t + delta) tEnd then endPt else C.P (st.t + delta)) = e' at hpt ⊢
      have hwidth : t1' - st.t = delta := by rw [hval, ht]; push_cast; ring
      have hk0 : (0 : Rat) ≤ k := by exact_mod_cast Nat.zero_le k
      have hk1 : ((k + 1 : Nat) : Rat) ≤ n := by exact_mod_cast hk'
      obtain ⟨l, hl⟩ := hsub st.t t1' (by rw [ht]; nlinarith) (by rw [hval, ← hn]; nlinarith) (by linarith)
        (le_of_eq hwidth)
      rw [hs, hpt, hl]
      simp only
      exact ih (k + 1) ⟨t1', C.P t1', st.out ++ l⟩ hk' hval rfl (by omega)
    · simp only [hlt, if_false]
      exact ⟨st, rfl⟩

/-- **conditional termination of a whole Bezier flattening, both twins**: if every chord in `[0, 1]` narrower than `w` passes
    the coded test (which never raises) and `1 ≤ w · 2^k`, then for every `segments = n ≥ 1` (below 1/tolerance)
    the Cython twin with recursion budget `k + 1` and the pure Python twin with `2^(k+1)` loop steps per chord both
    FINISH with outer fuel `n + 2`, and they return the same vertex list (which `bezierFlat_sound` describes). -/
theorem flat_terminates (C : Curve V) (w : Rat)
    (hacc : ∀ t0 t1 : Rat, 0 ≤ t0 → t1 ≤ 1 → t0 < t1 → t1 - t0 ≤ w →
      C.test (C.P t0) (C.P t1) (C.P ((t0 + t1) * (1/2))) = .accept)
    (hnr : ∀ s e m, C.test s e m ≠ .raise) (k : Nat) (hk : 1 ≤ w * 2 ^ k)
    (relTol absTol : Rat) (n : Nat) (hn : 0 < n) (h0 : 0 ≤ relTol) (hr : relTol * n < 1) (ha : absTol * n < 1) :
    ∃ out, bezierFlat C (recSub C (k + 1)) relTol absTol (C.P 0) (C.P 1) n (n + 2) = .ok out ∧
      bezierFlat C (stackSub C (2 ^ (k + 1))) relTol absTol (C.P 0) (C.P 1) n (n + 2) = .ok out := by
  have hnq : (0 : Rat) < n := by exact_mod_cast hn
  have hδ : (0 : Rat) < 1 / (n : Rat) := by positivity
  have hδ1 : 1 / (n : Rat) ≤ 1 := by
    rw [div_le_one hnq]; exact_mod_cast hn
  have hsubR : ∀ t0 t1 : Rat, 0 ≤ t0 → t1 ≤ 1 → t0 < t1 → t1 - t0 ≤ 1 / (n : Rat) →
      ∃ l, recSub C (k + 1) t0 (C.P t0) t1 (C.P t1) = .ok l :=
    fun t0 t1 hlo hhi hlt hwd => recSub_terminates C w 0 1 hacc hnr k t0 t1 hlo hhi hlt (by linarith)
  have hsum : (0 : Rat) + n * (1 / (n : Rat)) = 1 := by rw [zero_add, mul_one_div, div_self (ne_of_gt hnq)]
  obtain ⟨st, hst⟩ := spanLoop_total C (recSub C (k + 1)) (pyIsclose relTol absTol) (1 / (n : Rat)) 1 (C.P 1) 0 hsubR hδ rfl
    n hsum (no_early_snap relTol absTol n h0 hr ha) (n + 2) 0 ⟨0, C.P 0, [(0, C.P 0)]⟩ (Nat.zero_le _) (by simp) rfl
    (by omega)
  refine ⟨st.out, by unfold bezierFlat; rw [hst], ?_⟩
  -- the Python twin follows the same run: every chord result of the recursion is reproduced by the stack machine
  have hrel : ∀ t0 s t1 e l, recSub C (k + 1) t0 s t1 e = .ok l →
      stackSub C (2 ^ (k + 1)) t0 s t1 e = .ok l ∨ stackSub C (2 ^ (k + 1)) t0 s t1 e = .error .recursion :=
    fun t0 s t1 e l hl => Or.inl (by simpa using stack_eq_rec_fuel C (k + 1) t0 s t1 e l hl 0)
  have := spanLoop_twin C (recSub C (k + 1)) (stackSub C (2 ^ (k + 1))) hrel
    (pyIsclose relTol absTol) (pyIsclose relTol absTol) (1 / (n : Rat)) 1 (C.P 1) 0 n hsum
    (no_early_snap relTol absTol n h0 hr ha) (no_early_snap relTol absTol n h0 hr ha)
    (pyIsclose_self _ _ _) (pyIsclose_self _ _ _) (n + 2) 0 _ st (Nat.zero_le _) (by simp) hst
  rcases this with h2 | h2
  · unfold bezierFlat; rw [h2]
  · -- the stack machine has no recursion error: its only failure is fuel
    exfalso
    have hno : ∀ (fuel : Nat) (t0 : Rat) (s : V) (t1 : Rat) (e : V) (stack out : List (TV V)),
        stackLoop C fuel t0 s t1 e stack out ≠ .error .recursion := by
      intro fuel
      induction fuel with
      | zero => intro t0 s t1 e stack out h; simp [stackLoop] at h
      | succ fuel ih =>
        intro t0 s t1 e stack out h
        unfold stackLoop at h
        simp only at h
        split at h
        · cases stack with
          | nil => simp at h
          | cons top rest => exact ih _ _ _ _ _ _ h
        · exact ih _ _ _ _ _ _ h
        · simp at h
    have hnoSub : ∀ t0 s t1 e, stackSub C (2 ^ (k + 1)) t0 s t1 e ≠ .error .recursion := by
      intro t0 s t1 e h
      unfold stackSub at h
      split at h
      · simp at h
      · rename_i x hx
        simp only [Except.error.injEq] at h
        subst h
        exact hno _ _ _ _ _ _ _ hx
    have hnoSpan : ∀ (fuel : Nat) (st0 : St V),
        spanLoop C (stackSub C (2 ^ (k + 1))) (pyIsclose relTol absTol) (1 / (n : Rat)) 1 (C.P 1) fuel st0
          ≠ .error .recursion := by
      intro fuel
      induction fuel with
      | zero => intro st0 h; simp [spanLoop] at h
      | succ fuel ih =>
        intro st0 h
        unfold spanLoop at h
        split at h
        · simp only at h
          split at h
          · rename_i x hx
            simp only [Except.error.injEq] at h
            subst h
            exact hnoSub _ _ _ _ hx
          · exact ih _ h
        · simp at h
    exact hnoSpan _ _ h2

private theorem bez3_mid_deviation (p0 p1 p2 : V3) (t0 t1 : Rat) :
    V3.dist2 (V3.lerp (bez3Point p0 p1 p2 t0) (bez3Point p0 p1 p2 t1) (1/2))
      (bez3Point p0 p1 p2 ((t0 + t1) * (1/2))) =
      (t1 - t0) ^ 4 / 16 *
        V3.dot ((p0.sub (V3.smul 2 p1)).add p2) ((p0.sub (V3.smul 2 p1)).add p2) := by
  simp only [V3.dist2, V3.lerp, bez3Point, V3.add, V3.sub, V3.smul, V3.dot]
  ring

private theorem bez4_mid_deviation (p0 p1 p2 p3 : V3) (t0 t1 : Rat) :
    V3.dist2 (V3.lerp (bez4Point p0 p1 p2 p3 t0) (bez4Point p0 p1 p2 p3 t1) (1/2))
      (bez4Point p0 p1 p2 p3 ((t0 + t1) * (1/2))) =
      (t1 - t0) ^ 4 / 16 *
        V3.dot ((V3.smul 3 ((p2.sub (V3.smul 2 p1)).add p0)).add
            (V3.smul (3 / 2 * (t0 + t1)) (((p3.sub (V3.smul 3 p2)).add (V3.smul 3 p1)).sub p0)))
          ((V3.smul 3 ((p2.sub (V3.smul 2 p1)).add p0)).add
            (V3.smul (3 / 2 * (t0 + t1)) (((p3.sub (V3.smul 3 p2)).add (V3.smul 3 p1)).sub p0))) := by
  simp only [V3.dist2, V3.lerp, bez4Point, V3.add, V3.sub, V3.smul, V3.dot]
  ring

private theorem sq_add_smul_le (x y σ : Rat) (h0 : 0 ≤ σ) (h3 : σ ≤ 3) :
    (x + σ * y) * (x + σ * y) ≤ 4 * (x * x) + 12 * (y * y) := by
  have h1 : 2 * (x * y) ≤ x * x + y * y := by nlinarith [sq_nonneg (x - y)]
  have hx := mul_self_nonneg x
  have hy := mul_self_nonneg y
  have e : (x + σ * y) * (x + σ * y) = x * x + σ * (2 * (x * y)) + σ * σ * (y * y) := by ring
  have h2 : σ * (2 * (x * y)) ≤ σ * (x * x + y * y) := mul_le_mul_of_nonneg_left h1 h0
  have h4 : σ * σ ≤ 9 := by nlinarith
  nlinarith [mul_nonneg h0 hx, mul_nonneg h0 hy, mul_nonneg (sub_nonneg.mpr h3) hx, mul_nonneg (sub_nonneg.mpr h3) hy,
    mul_nonneg (sub_nonneg.mpr h4) hy]

/-- shared tail of the two unconditional termination theorems: a bound `M` on the squared second-difference vector
    gives the accepted width `16 d² / (M + 16 d²)` and from it both twins' finished, equal runs -/
private theorem bezier_terminates_of_bound (P : Rat → V3) (d M : Rat) (hd : 0 < d) (hM : 0 ≤ M)
    (hdev : ∀ t0 t1 : Rat, 0 ≤ t0 → t1 ≤ 1 → t0 < t1 →
      V3.dist2 (V3.lerp (P t0) (P t1) (1/2)) (P ((t0 + t1) * (1/2))) ≤ (t1 - t0) ^ 4 / 16 * M)
    (n : Nat) (hn : 0 < n) (hn9 : n < 10 ^ 9) :
    ∃ (b : Nat) (out : List (TV V3)),
      bezierFlat ⟨P, midTest d⟩ (recSub ⟨P, midTest d⟩ b) (1e-9) (1e-12) (P 0) (P 1) n (n + 2) = .ok out ∧
      bezierFlat ⟨P, midTest d⟩ (stackSub ⟨P, midTest d⟩ (2 ^ b)) (1e-9) 0 (P 0) (P 1) n (n + 2) = .ok out := by
  have hd2 : 0 < d * d := mul_pos hd hd
  set w : Rat := 16 * (d * d) / (M + 16 * (d * d)) with hw
  have hden : 0 < M + 16 * (d * d) := by linarith
  have hw0 : 0 < w := div_pos (by linarith) hden
  have hw1 : w ≤ 1 := by rw [hw, div_le_one hden]; linarith
  have hacc : ∀ t0 t1 : Rat, 0 ≤ t0 → t1 ≤ 1 → t0 < t1 → t1 - t0 ≤ w →
      midTest d (P t0) (P t1) (P ((t0 + t1) * (1/2))) = .accept := by
    intro t0 t1 hlo hhi hlt hwd
    rw [midTest_accept_iff]
    refine ⟨hd, lt_of_le_of_lt (hdev t0 t1 hlo hhi hlt) ?_⟩
    set h := t1 - t0 with hh
    have hh0 : 0 < h := by linarith
    have hh1 : h ≤ 1 := le_trans hwd hw1
    have h4 : h ^ 4 ≤ h := by
      have h2 : h * h ≤ h := by nlinarith
      have h3 : h * h * h ≤ h := by nlinarith
      have : h ^ 4 = h * h * h * h := by ring
      rw [this]; nlinarith
    have hwM : w * M < 16 * (d * d) := by
      rw [hw, div_mul_eq_mul_div, div_lt_iff₀ hden]
      nlinarith
    have : h ^ 4 * M ≤ w * M := mul_le_mul_of_nonneg_right (le_trans h4 hwd) hM
    have e : h ^ 4 / 16 * M = h ^ 4 * M / 16 := by ring
    rw [e, div_lt_iff₀ (by norm_num : (0 : Rat) < 16)]
    linarith
  have hnr : ∀ s e m, midTest d s e m ≠ .raise := by
    intro s e m; unfold midTest; split <;> simp
  obtain ⟨k, hk⟩ := exists_nat_ge (1 / w)
  have hk2 : 1 ≤ w * 2 ^ k := by
    have h1 : (k : Rat) < 2 ^ k := by exact_mod_cast Nat.lt_two_pow_self
    have h2 : 1 / w < 2 ^ k := lt_of_le_of_lt hk h1
    rw [div_lt_iff₀ hw0] at h2
    linarith
  have hq : (n : Rat) < 10 ^ 9 := by exact_mod_cast hn9
  obtain ⟨out1, h1, _⟩ := flat_terminates ⟨P, midTest d⟩ w hacc hnr k hk2 (1e-9) (1e-12) n hn
    (by norm_num) (by linarith) (by linarith)
  obtain ⟨out2, h2a, h2b⟩ := flat_terminates ⟨P, midTest d⟩ w hacc hnr k hk2 (1e-9) 0 n hn
    (by norm_num) (by linarith) (by linarith)
  have hsame : out1 = out2 := by
    have hnq : (0 : Rat) < n := by exact_mod_cast hn
    unfold bezierFlat at h1 h2a
    split at h1
    · rename_i st1 hst1
      split at h2a
      · rename_i st2 hst2
        have := spanLoop_twin ⟨P, midTest d⟩ (recSub _ (k + 1)) (recSub _ (k + 1))
          (fun _ _ _ _ _ hl => Or.inl hl)
          (pyIsclose (1e-9) (1e-12)) (pyIsclose (1e-9) 0) (1 / (n : Rat)) 1 (P 1) 0 n
          (by rw [zero_add, mul_one_div, div_self (ne_of_gt hnq)])
          (no_early_snap (1e-9) (1e-12) n (by norm_num) (by linarith) (by linarith))
          (no_early_snap (1e-9) 0 n (by norm_num) (by linarith) (by linarith))
          (pyIsclose_self _ _ _) (pyIsclose_self _ _ _) (n + 2) 0 _ st1 (Nat.zero_le _) (by simp) hst1
        rcases this with h3 | h3
        · rw [h3] at hst2
          simp only [Except.ok.injEq] at hst2 h1 h2a
          rw [← h1, ← h2a, hst2]
        · rw [h3] at hst2; simp at hst2
      · simp at h2a
    · simp at h1
  exact ⟨k + 1, out1, h1, by rw [hsame]; exact h2b⟩

/-- **`Bezier3P.flattening` terminates** - unconditionally: for every quadratic Bezier curve, every tolerance
    `d > 0` and every `segments` in `1 ‥ 10^9 - 1` there is a recursion budget `b` with which the Cython twin returns
    a vertex list (no `RecursionError` from budget `b` on), and the pure Python twin returns the same list within
    `2^b` loop steps per chord.  (The mid-point deviation of a quadratic on a chord of width `h` is exactly
    `h² |p0 - 2 p1 + p2| / 4`, so every chord narrower than `16 d² / (|p0 - 2 p1 + p2|² + 16 d²)` is accepted.) -/
theorem bezier3_terminates (p0 p1 p2 : V3) (d : Rat) (hd : 0 < d) (n : Nat) (hn : 0 < n) (hn9 : n < 10 ^ 9) :
    ∃ (b : Nat) (out : List (TV V3)),
      bezierFlat ⟨bez3Point p0 p1 p2, midTest d⟩ (recSub ⟨bez3Point p0 p1 p2, midTest d⟩ b)
        (1e-9) (1e-12) p0 p2 n (n + 2) = .ok out ∧
      bezierFlat ⟨bez3Point p0 p1 p2, midTest d⟩ (stackSub ⟨bez3Point p0 p1 p2, midTest d⟩ (2 ^ b))
        (1e-9) 0 p0 p2 n (n + 2) = .ok out := by
  have hz : bez3Point p0 p1 p2 0 = p0 := by
    cases p0; cases p1; cases p2; simp [bez3Point, V3.add, V3.sub, V3.smul]
  have ho : bez3Point p0 p1 p2 1 = p2 := by
    cases p0; cases p1; cases p2; simp [bez3Point, V3.add, V3.sub, V3.smul]
  have := bezier_terminates_of_bound (bez3Point p0 p1 p2) d
    (V3.dot ((p0.sub (V3.smul 2 p1)).add p2) ((p0.sub (V3.smul 2 p1)).add p2)) hd (dot_self_nonneg _)
    (fun t0 t1 _ _ _ => le_of_eq (bez3_mid_deviation p0 p1 p2 t0 t1)) n hn hn9
  simpa only [hz, ho] using this

/-- **`Bezier4P.flattening` terminates** - unconditionally: for every cubic Bezier curve, every tolerance `d > 0`
    and every `segments` in `1 ‥ 10^9 - 1` there is a recursion budget `b` with which the Cython twin returns a
    vertex list, and the pure Python twin returns the same list within `2^b` loop steps per chord.  (On a chord of
    width `h` inside `[0, 1]` the mid-point deviation of a cubic is `h²/4 · |a₂ + 3/2 (t₀+t₁) a₃|` with
    `a₂ = 3 (p0 - 2 p1 + p2)`, `a₃ = p3 - 3 p2 + 3 p1 - p0`, at most `h²/4 · √(4 |a₂|² + 12 |a₃|²)`.) -/
theorem bezier4_terminates (p0 p1 p2 p3 : V3) (d : Rat) (hd : 0 < d) (n : Nat) (hn : 0 < n) (hn9 : n < 10 ^ 9) :
    ∃ (b : Nat) (out : List (TV V3)),
      bezierFlat ⟨bez4Point p0 p1 p2 p3, midTest d⟩ (recSub ⟨bez4Point p0 p1 p2 p3, midTest d⟩ b)
        (1e-9) (1e-12) p0 p3 n (n + 2) = .ok out ∧
      bezierFlat ⟨bez4Point p0 p1 p2 p3, midTest d⟩ (stackSub ⟨bez4Point p0 p1 p2 p3, midTest d⟩ (2 ^ b))
        (1e-9) 0 p0 p3 n (n + 2) = .ok out := by
  set a2 := V3.smul 3 ((p2.sub (V3.smul 2 p1)).add p0) with ha2
  set a3 := ((p3.sub (V3.smul 3 p2)).add (V3.smul 3 p1)).sub p0 with ha3
  have hz : bez4Point p0 p1 p2 p3 0 = p0 := by
    cases p0; cases p1; cases p2; cases p3; simp [bez4Point, V3.add, V3.sub, V3.smul]
  have ho : bez4Point p0 p1 p2 p3 1 = p3 := by
    cases p0; cases p1; cases p2; cases p3; simp [bez4Point, V3.add, V3.sub, V3.smul]
  have := bezier_terminates_of_bound (bez4Point p0 p1 p2 p3) d (4 * V3.dot a2 a2 + 12 * V3.dot a3 a3) hd
    (by have := dot_self_nonneg a2; have := dot_self_nonneg a3; linarith)
    (by
      intro t0 t1 hlo hhi hlt
      rw [bez4_mid_deviation, ← ha2, ← ha3]
      have hσ0 : 0 ≤ 3 / 2 * (t0 + t1) := by nlinarith
      have hσ3 : 3 / 2 * (t0 + t1) ≤ 3 := by nlinarith
      have hb : V3.dot (a2.add (V3.smul (3 / 2 * (t0 + t1)) a3)) (a2.add (V3.smul (3 / 2 * (t0 + t1)) a3)) ≤
          4 * V3.dot a2 a2 + 12 * V3.dot a3 a3 := by
        simp only [V3.dot, V3.add, V3.smul]
        have hx := sq_add_smul_le a2.x a3.x _ hσ0 hσ3
        have hy := sq_add_smul_le a2.y a3.y _ hσ0 hσ3
        have hz' := sq_add_smul_le a2.z a3.z _ hσ0 hσ3
        linarith
      have hh : 0 ≤ (t1 - t0) ^ 4 / 16 := by positivity
      exact mul_le_mul_of_nonneg_left hb hh)
    n hn hn9
  simpa only [hz, ho] using this

/-! ## termination of B-spline / ellipse flattening under a Lipschitz modulus of the evaluation function -/

/-- `L` is a Lipschitz modulus of the evaluation function `P` on `[lo, hi]` (squared form: no square roots) -/
def Lipschitz (P : Rat → V3) (L lo hi : Rat) : Prop :=
  ∀ a b : Rat, lo ≤ a → a ≤ b → b ≤ hi → V3.dist2 (P a) (P b) ≤ L * L * ((b - a) * (b - a))

private theorem chordTest_no_raise (d : Rat) (s e m : V3) : chordTest d s e m ≠ .raise := by
  unfold chordTest; split <;> simp

/-- **a narrow chord is accepted**: with Lipschitz modulus `L`, the current B-spline / ellipse test
    (`distance_point_segment_3d(m, s, e) < distance`) accepts every chord of parameter width `h` with `h · L < 2 · distance`
    (the curve point at the middle parameter is at most `L h / 2` from the chord start, hence from the chord) -/
theorem chordTest_accepts_lipschitz (P : Rat → V3) (L d lo hi : Rat) (hL : 0 < L) (hd : 0 < d)
    (hlip : Lipschitz P L lo hi) (t0 t1 : Rat) (hlo : lo ≤ t0) (hhi : t1 ≤ hi) (hlt : t0 < t1)
    (hw : (t1 - t0) * L < 2 * d) :
    chordTest d (P t0) (P t1) (P ((t0 + t1) * (1/2))) = .accept := by
  rw [chordTest_accept_iff]
  refine ⟨hd, ?_⟩
  obtain ⟨_, hmin⟩ := segDist2_is_chord_distance (P t0) (P t1) (P ((t0 + t1) * (1/2)))
  have h0 := hmin 0 (le_refl _) (by norm_num)
  have hs : V3.dist2 (V3.lerp (P t0) (P t1) 0) (P ((t0 + t1) * (1/2))) = V3.dist2 (P t0) (P ((t0 + t1) * (1/2))) := by
    rw [v3_ext_dist]; simp [V3.dist2]
  rw [hs] at h0
  have hl := hlip t0 ((t0 + t1) * (1/2)) hlo (by linarith) (by linarith)
  have hhalf : (t0 + t1) * (1/2) - t0 = (t1 - t0) / 2 := by ring
  rw [hhalf] at hl
  have hpos : 0 < (t1 - t0) * L := mul_pos (by linarith) hL
  have hsq : ((t1 - t0) * L) * ((t1 - t0) * L) < (2 * d) * (2 * d) := by nlinarith
  have : L * L * ((t1 - t0) / 2 * ((t1 - t0) / 2)) < d * d := by nlinarith
  linarith

/-- **termination of the B-spline / ellipse subdivision with an explicit depth**: with Lipschitz modulus `L` on `[lo, hi]`,
    every chord `[t0, t1]` inside the range with `(t1 - t0) · L ≤ distance · 2^k` is flattened within `k + 1` recursion
    levels (`subdiv` of `BSpline.flattening` / `ConstructionEllipse.flattening` returns; removes the hypothesis `hacc` of
    `recSub_terminates` for the coded test) -/
theorem recSub_terminates_lipschitz (P : Rat → V3) (L d lo hi : Rat) (hL : 0 < L) (hd : 0 < d)
    (hlip : Lipschitz P L lo hi) (k : Nat) (t0 t1 : Rat) (hlo : lo ≤ t0) (hhi : t1 ≤ hi) (hlt : t0 < t1)
    (hk : (t1 - t0) * L ≤ d * 2 ^ k) :
    ∃ l, recSub ⟨P, chordTest d⟩ (k + 1) t0 (P t0) t1 (P t1) = .ok l := by
  refine recSub_terminates ⟨P, chordTest d⟩ (d / L) lo hi ?_ (fun s e m => chordTest_no_raise d s e m) k t0 t1 hlo hhi hlt ?_
  · intro a b ha hb hab hwd
    refine chordTest_accepts_lipschitz P L d lo hi hL hd hlip a b ha hb hab ?_
    have : (b - a) * L ≤ d := by
      have := mul_le_mul_of_nonneg_right hwd hL.le
      rwa [div_mul_cancel₀ _ hL.ne'] at this
    linarith
  · rw [div_mul_eq_mul_div, le_div_iff₀ hL]; exact hk

/-- **`ConstructionEllipse.flattening` terminates** (loop after the prelude) for every evaluation function with a Lipschitz
    modulus `L` on the parameter range: with recursion budget `k + 1` where `delta · L ≤ distance · 2^k`, and outer fuel
    `segments + 2`, the run returns a vertex list (which `ellipse_sound` describes) -/
theorem ellipse_terminates_lipschitz (P : Rat → V3) (L d : Rat) (hL : 0 < L) (hd : 0 < d)
    (relTol absTol param endParam delta : Rat) (n : Nat) (hδ : 0 < delta) (hn : param + n * delta = endParam)
    (hlip : Lipschitz P L param endParam)
    (hnc : pyIsclose relTol absTol param endParam = false)
    (hsnap : ∀ k : Nat, k + 1 < n → pyIsclose relTol absTol (param + ((k : Rat) + 1) * delta) endParam = false)
    (k : Nat) (hk : delta * L ≤ d * 2 ^ k) :
    ∃ out, ellipseFlat ⟨P, chordTest d⟩ (k + 1) relTol absTol param endParam delta (n + 2) = .ok out := by
  unfold ellipseFlat
  simp only [hδ.ne', if_false, hnc, Bool.false_eq_true]
  obtain ⟨st, hst⟩ := spanLoop_total ⟨P, chordTest d⟩ (recSub ⟨P, chordTest d⟩ (k + 1)) (pyIsclose relTol absTol) delta
    endParam (P endParam) param
    (fun t0 t1 hlo hhi hlt hwd => recSub_terminates_lipschitz P L d param endParam hL hd hlip k t0 t1 hlo hhi hlt
      (le_trans (mul_le_mul_of_nonneg_right hwd hL.le) hk))
    hδ rfl n hn hsnap (n + 2) 0 ⟨param, P param, [(param, P param)]⟩ (Nat.zero_le _) (by simp) rfl (by omega)
  exact ⟨st.out, by rw [hst]⟩

private theorem knotLoop_total (P : Rat → V3) (L d lo hi : Rat) (hL : 0 < L) (hd : 0 < d) (hlip : Lipschitz P L lo hi)
    (k : Nat) (hk : (hi - lo) * L ≤ d * 2 ^ k) (close : Rat → Rat → Bool) (segs : Nat) (hsegs : 0 < segs) (a0 : Rat) :
    ∀ (ks : List Rat) (st : St V3), StrictInc st.t ks → NoEarlySnap close segs st.t ks →
      Inv ⟨P, chordTest d⟩ a0 st → lo ≤ st.t → (∀ x ∈ ks, x ≤ hi) →
      ∃ st', knotLoop ⟨P, chordTest d⟩ (recSub ⟨P, chordTest d⟩ (k + 1)) close segs (segs + 2) ks st = .ok st' := by
  intro ks
  induction ks with
  | nil => intro st _ _ _ _ _; exact ⟨st, rfl⟩
  | cons t1 ks ih =>
    intro st hinc hns hinv hlo hhi
    have hsq : (0 : Rat) < segs := by exact_mod_cast hsegs
    have ht1 : t1 ≤ hi := hhi t1 (by simp)
    have hδ : 0 < (t1 - st.t) / segs := div_pos (by linarith [hinc.1]) hsq
    have hδle : (t1 - st.t) / segs ≤ hi - lo := by
      have h1 : (t1 - st.t) / segs ≤ t1 - st.t := by
        rw [div_le_iff₀ hsq]
        have : (1 : Rat) ≤ segs := by exact_mod_cast hsegs
        nlinarith [hinc.1]
      linarith
    have hsum : st.t + segs * ((t1 - st.t) / segs) = t1 := by field_simp; ring
    have hs : st.s = P st.t := by
      obtain ⟨l, _, hg, hl⟩ := hinv
      have := lastOf_onCurve ⟨P, chordTest d⟩ a0 l hg
      rw [hl] at this; exact this
    obtain ⟨st1, hst1⟩ := spanLoop_total ⟨P, chordTest d⟩ (recSub ⟨P, chordTest d⟩ (k + 1)) close ((t1 - st.t) / segs) t1 (P t1)
      st.t
      (fun u0 u1 h0 h1 hlt hwd => recSub_terminates_lipschitz P L d lo hi hL hd hlip k u0 u1 (by linarith) (by linarith) hlt
        (le_trans (mul_le_mul_of_nonneg_right (le_trans hwd hδle) hL.le) hk))
      hδ rfl segs hsum (fun j hj => hns.1 j (by omega)) (segs + 2) 0 st (Nat.zero_le _) (by simp) hs (by omega)
    obtain ⟨r1, r2, _⟩ := spanLoop_sound ⟨P, chordTest d⟩ _ (recSub_sound _ (k + 1)) close ((t1 - st.t) / segs) t1 (P t1) hδ rfl a0
      st.t segs hsum (fun j hj => hns.1 j (by omega)) (segs + 2) 0 st st1 (Nat.zero_le _) (by simp) hinv hst1
    obtain ⟨st', hst'⟩ := ih st1 (by rw [r2]; exact hinc.2) (by rw [r2]; exact hns.2) r1 (by rw [r2]; linarith [hinc.1])
      (fun x hx => hhi x (List.mem_cons_of_mem _ hx))
    exact ⟨st', by unfold knotLoop; rw [hst1]; exact hst'⟩

/-- **`BSpline.flattening` terminates** for every evaluation function with a Lipschitz modulus `L` on the knot range
    `[lo, hi]`: for a knot vector whose spans are wider than `segments` times the `isclose` tolerance (`GapsOK`), recursion
    budget `k + 1` with `(hi - lo) · L ≤ distance · 2^k` and outer fuel `segments + 2` per knot span, the run returns a
    vertex list (which `bspline_sound_gaps` describes: ≥ `segments` chords per span, every chord within `distance`) -/
theorem bspline_terminates_lipschitz (P : Rat → V3) (L d : Rat) (hL : 0 < L) (hd : 0 < d) (relTol absTol : Rat)
    (knots : List Rat) (segs : Nat) (t : Rat) (ks : List Rat) (hu : uniq knots = t :: ks) (hsegs : 0 < segs)
    (h0 : 0 ≤ relTol) (hg : GapsOK relTol absTol segs t ks) (hi : Rat) (hhi : ∀ x ∈ ks, x ≤ hi)
    (hlip : Lipschitz P L t hi) (k : Nat) (hk : (hi - t) * L ≤ d * 2 ^ k) :
    ∃ out, bsplineFlat ⟨P, chordTest d⟩ (k + 1) relTol absTol knots segs (segs + 2) = .ok out := by
  unfold bsplineFlat
  rw [hu]
  simp only
  have hinc : StrictInc t ks := strictInc_of_pairwise t ks (by rw [← hu]; exact uniq_sorted knots)
  have hinv0 : Inv ⟨P, chordTest d⟩ t ⟨t, P t, [(t, P t)]⟩ := ⟨[], rfl, trivial, by simp [lastOf]⟩
  obtain ⟨st', hst'⟩ := knotLoop_total P L d t hi hL hd hlip k hk (pyIsclose relTol absTol) segs hsegs t ks
    ⟨t, P t, [(t, P t)]⟩ hinc (noEarlySnap_of_gaps relTol absTol segs h0 ks t hinc hg) hinv0 (le_refl _) hhi
  exact ⟨st'.out, by rw [hst']⟩

/-- **total correctness of `BSpline.flattening`** (exact arithmetic): for every evaluation function with Lipschitz modulus `L` on
    the knot range, every `distance > 0`, every `segments ≥ 1` and every knot vector meeting `GapsOK`, the run with a sufficient
    recursion budget RETURNS a vertex list that starts at the first and ends at the last knot's curve point, has strictly
    increasing parameters, only curve points, at least `segments` chords per knot span, and for every chord the curve point
    at the middle parameter lies within `distance` of the chord (the documented criterion) -/
theorem bspline_flattening_total (P : Rat → V3) (L d : Rat) (hL : 0 < L) (hd : 0 < d) (relTol absTol : Rat)
    (knots : List Rat) (segs : Nat) (t : Rat) (ks : List Rat) (hu : uniq knots = t :: ks) (hsegs : 0 < segs)
    (h0 : 0 ≤ relTol) (hg : GapsOK relTol absTol segs t ks) (hi : Rat) (hhi : ∀ x ∈ ks, x ≤ hi)
    (hlip : Lipschitz P L t hi) (k : Nat) (hk : (hi - t) * L ≤ d * 2 ^ k) :
    ∃ out, bsplineFlat ⟨P, chordTest d⟩ (k + 1) relTol absTol knots segs (segs + 2) = .ok out ∧
      FlatSpec ⟨P, chordTest d⟩ t ((ks.getLast?).getD t) (segs * ks.length) out ∧
      ∀ pq ∈ out.zip out.tail, WithinChord d pq.1.2 pq.2.2 (P ((pq.1.1 + pq.2.1) * (1/2))) := by
  obtain ⟨out, hout⟩ := bspline_terminates_lipschitz P L d hL hd relTol absTol knots segs t ks hu hsegs h0 hg hi hhi hlip k hk
  have hspec := bspline_sound_gaps ⟨P, chordTest d⟩ (k + 1) relTol absTol knots segs (segs + 2) out t ks hu hsegs h0 hg hout
  exact ⟨out, hout, hspec, flatSpec_chord_documented P d _ _ _ out hspec⟩

/-- **total correctness of `ConstructionEllipse.flattening`** (loop after the prelude, exact arithmetic): for every evaluation
    function with Lipschitz modulus `L` on `[param, end_param]`, every `distance > 0`, `segments = n ≥ 1` equal steps without
    early snap, the run with recursion budget `k + 1` (`delta · L ≤ distance · 2^k`) RETURNS a vertex list meeting `FlatSpec`
    over the parameter range, and every chord meets the documented criterion -/
theorem ellipse_flattening_total (P : Rat → V3) (L d : Rat) (hL : 0 < L) (hd : 0 < d)
    (relTol absTol param endParam delta : Rat) (n : Nat) (hδ : 0 < delta) (hn : param + n * delta = endParam)
    (hlip : Lipschitz P L param endParam)
    (hnc : pyIsclose relTol absTol param endParam = false)
    (hsnap : ∀ k : Nat, k + 1 < n → pyIsclose relTol absTol (param + ((k : Rat) + 1) * delta) endParam = false)
    (k : Nat) (hk : delta * L ≤ d * 2 ^ k) :
    ∃ out, ellipseFlat ⟨P, chordTest d⟩ (k + 1) relTol absTol param endParam delta (n + 2) = .ok out ∧
      FlatSpec ⟨P, chordTest d⟩ param endParam n out ∧
      ∀ pq ∈ out.zip out.tail, WithinChord d pq.1.2 pq.2.2 (P ((pq.1.1 + pq.2.1) * (1/2))) := by
  obtain ⟨st, hst⟩ := spanLoop_total ⟨P, chordTest d⟩ (recSub ⟨P, chordTest d⟩ (k + 1)) (pyIsclose relTol absTol) delta
    endParam (P endParam) param
    (fun t0 t1 hlo hhi hlt hwd => recSub_terminates_lipschitz P L d param endParam hL hd hlip k t0 t1 hlo hhi hlt
      (le_trans (mul_le_mul_of_nonneg_right hwd hL.le) hk))
    hδ rfl n hn hsnap (n + 2) 0 ⟨param, P param, [(param, P param)]⟩ (Nat.zero_le _) (by simp) rfl (by omega)
  have hinv0 : Inv ⟨P, chordTest d⟩ param ⟨param, P param, [(param, P param)]⟩ := ⟨[], rfl, trivial, by simp [lastOf]⟩
  obtain ⟨r1, r2, r3⟩ := spanLoop_sound ⟨P, chordTest d⟩ _ (recSub_sound _ (k + 1)) (pyIsclose relTol absTol) delta
    endParam (P endParam) hδ rfl param param n hn hsnap (n + 2) 0 _ st (Nat.zero_le _) (by simp) hinv0 hst
  have hspec : FlatSpec ⟨P, chordTest d⟩ param endParam n st.out :=
    inv_spec ⟨P, chordTest d⟩ param endParam n st r1 r2 (by simpa [Nat.add_comm] using r3)
  refine ⟨st.out, ?_, hspec, flatSpec_chord_documented P d _ _ _ st.out hspec⟩
  unfold ellipseFlat
  simp only [hδ.ne', if_false, hnc, Bool.false_eq_true]
  rw [hst]

-- a concrete instance of the total-correctness statement: one knot span, 2 segments, budget 1 suffices for the straight curve
#guard (bsplineFlat ⟨fun t => (⟨3 * t, 4 * t, 0⟩ : V3), chordTest (1/10)⟩ 1 (1e-9) 0 [0, 0, 1, 1] 2 4).toOption.map List.length = some 3
example : GapsOK (1e-9) 0 2 0 [1] := by simp only [GapsOK]; norm_num
-- non-vacuity: the straight-line "curve" t ↦ (3t, 4t, 0) has Lipschitz modulus 5
example : Lipschitz (fun t => (⟨3 * t, 4 * t, 0⟩ : V3)) 5 0 1 := by
  intro a b _ _ _
  simp only [V3.dist2, V3.sub, V3.dot]
  nlinarith [sq_nonneg (b - a)]

/-! ## what the mid-point criterion says about the WHOLE chord -/

/-- **quadratic Bezier curves: the mid-point test bounds the whole chord.**  On the chord `[t0, t1]` the curve point at
    relative position `u` deviates from the chord point at the same relative position by exactly `4 u (1 - u)` times the
    mid-point deviation (squared form) … -/
theorem bezier3_deviation_profile (p0 p1 p2 : V3) (t0 t1 u : Rat) :
    V3.dist2 (V3.lerp (bez3Point p0 p1 p2 t0) (bez3Point p0 p1 p2 t1) u) (bez3Point p0 p1 p2 (t0 + u * (t1 - t0))) =
      (4 * u * (1 - u)) ^ 2 *
        V3.dist2 (V3.lerp (bez3Point p0 p1 p2 t0) (bez3Point p0 p1 p2 t1) (1/2))
          (bez3Point p0 p1 p2 ((t0 + t1) * (1/2))) := by
  simp only [V3.dist2, V3.lerp, bez3Point, V3.add, V3.sub, V3.smul, V3.dot]
  ring

/-- … hence an accepted chord of `Bezier3P.flattening` approximates the WHOLE curve piece within `distance`: every
    curve point between the two vertices lies within `distance` of the chord (not only the one at the middle
    parameter) -/
theorem bezier3_accepted_chord_is_close (p0 p1 p2 : V3) (d t0 t1 u : Rat) (hu0 : 0 ≤ u) (hu1 : u ≤ 1)
    (h : midTest d (bez3Point p0 p1 p2 t0) (bez3Point p0 p1 p2 t1) (bez3Point p0 p1 p2 ((t0 + t1) * (1/2))) = .accept) :
    WithinChord d (bez3Point p0 p1 p2 t0) (bez3Point p0 p1 p2 t1) (bez3Point p0 p1 p2 (t0 + u * (t1 - t0))) := by
  obtain ⟨hd, hlt⟩ := (midTest_accept_iff _ _ _ _).mp h
  refine ⟨u, hu0, hu1, ?_⟩
  rw [bezier3_deviation_profile]
  have hk0 : 0 ≤ 4 * u * (1 - u) := by nlinarith
  have hk1 : 4 * u * (1 - u) ≤ 1 := by nlinarith [sq_nonneg (2 * u - 1)]
  have hk : (4 * u * (1 - u)) ^ 2 ≤ 1 := by nlinarith
  have hnn : 0 ≤ V3.dist2 (V3.lerp (bez3Point p0 p1 p2 t0) (bez3Point p0 p1 p2 t1) (1/2))
      (bez3Point p0 p1 p2 ((t0 + t1) * (1/2))) := dot_self_nonneg _
  nlinarith

/-- **cubic Bezier curves: the mid-point test is blind at an inflection.**  For the S-shaped cubic
    (0,0) (1,2) (2,-2) (3,0) the curve point at the middle parameter lies ON the chord of the whole curve, so
    `flattening(distance, segments=1)` accepts that single chord for EVERY positive distance - the run meets the
    documented criterion - although the curve is 9/16 away from the chord at t = 1/4.  (Only the minimum segment count
    protects against this; not a violation of the property, which states the mid-parameter criterion.) -/
theorem cubic_midpoint_test_blind_at_inflection :
    ∃ (p0 p1 p2 p3 : V3), ∀ (d : Rat) (b : Nat), 0 < d →
      bezierFlat ⟨bez4Point p0 p1 p2 p3, midTest d⟩ (recSub ⟨bez4Point p0 p1 p2 p3, midTest d⟩ (b + 1))
        (1e-9) (1e-12) p0 p3 1 3 = .ok [(0, p0), (1, p3)] ∧
      ¬ WithinChord (1/2) p0 p3 (bez4Point p0 p1 p2 p3 (1/4)) := by
  refine ⟨⟨0, 0, 0⟩, ⟨1, 2, 0⟩, ⟨2, -2, 0⟩, ⟨3, 0, 0⟩, fun d b hd => ⟨?_, ?_⟩⟩
  · have hacc : midTest d (⟨0, 0, 0⟩ : V3) ⟨3, 0, 0⟩
        (bez4Point ⟨0, 0, 0⟩ ⟨1, 2, 0⟩ ⟨2, -2, 0⟩ ⟨3, 0, 0⟩ ((0 + 1) * (1/2))) = .accept := by
      rw [midTest_accept_iff]
      refine ⟨hd, ?_⟩
      have : V3.dist2 (V3.lerp (⟨0, 0, 0⟩ : V3) ⟨3, 0, 0⟩ (1/2))
          (bez4Point ⟨0, 0, 0⟩ ⟨1, 2, 0⟩ ⟨2, -2, 0⟩ ⟨3, 0, 0⟩ ((0 + 1) * (1/2))) = 0 := by
        simp only [V3.dist2, V3.lerp, bez4Point, V3.add, V3.sub, V3.smul, V3.dot]; norm_num
      rw [this]; exact mul_pos hd hd
    have hsub : recSub ⟨bez4Point ⟨0, 0, 0⟩ ⟨1, 2, 0⟩ ⟨2, -2, 0⟩ ⟨3, 0, 0⟩, midTest d⟩ (b + 1) 0 ⟨0, 0, 0⟩ 1 ⟨3, 0, 0⟩ =
        .ok [(1, ⟨3, 0, 0⟩)] := by
      unfold recSub
      simp only [hacc]
    have hone : (0 : Rat) + 1 / ((1 : Nat) : Rat) = 1 := by norm_num
    have hsnap : pyIsclose (1e-9) (1e-12) (1 : Rat) 1 = true := pyIsclose_self _ _ _
    unfold bezierFlat
    unfold spanLoop
    simp only [show (0 : Rat) < 1 by norm_num, if_true, hone, hsnap, hsub]
    unfold spanLoop
    simp
  · rintro ⟨lam, h0, h1, hlt⟩
    simp only [V3.dist2, V3.lerp, bez4Point, V3.add, V3.sub, V3.smul, V3.dot] at hlt
    nlinarith [sq_nonneg (3 * lam - 51/64)]

/-! ## arcs: `arc_chord_length` / `arc_segment_count` over the reals -/

inductive PyExc where
  | valueError | zeroDivisionError
deriving DecidableEq, Repr

def PyExc.name : PyExc → String
  | .valueError => "ValueError"
  | .zeroDivisionError => "ZeroDivisionError"

/-- real semantics of the expression trees emitted by `regenerate`, with the exceptions CPython's
    `math` functions and float division raise -/
noncomputable def evalE (env : String → ℝ) : RExpr → Except PyExc ℝ
  | .var n => .ok (env n)
  | .num q => .ok (q : ℝ)
  | .add a b => match evalE env a, evalE env b with
    | .ok x, .ok y => .ok (x + y) | .error e, _ => .error e | _, .error e => .error e
  | .sub a b => match evalE env a, evalE env b with
    | .ok x, .ok y => .ok (x - y) | .error e, _ => .error e | _, .error e => .error e
  | .mul a b => match evalE env a, evalE env b with
    | .ok x, .ok y => .ok (x * y) | .error e, _ => .error e | _, .error e => .error e
  | .div a b => match evalE env a, evalE env b with
    | .ok x, .ok y => if y = 0 then .error .zeroDivisionError else .ok (x / y)
    | .error e, _ => .error e | _, .error e => .error e
  | .sqrt a => match evalE env a with
    | .ok x => if x < 0 then .error .valueError else .ok (Real.sqrt x)
    | .error e => .error e
  | .asin a => match evalE env a with
    | .ok x => if x < -1 ∨ 1 < x then .error .valueError else .ok (Real.arcsin x)
    | .error e => .error e
  | .ceil a => match evalE env a with
    | .ok x => .ok ((⌈x⌉ : ℤ) : ℝ)
    | .error e => .error e
  | .min a b => match evalE env a, evalE env b with
    | .ok x, .ok y => .ok (min x y) | .error e, _ => .error e | _, .error e => .error e

/-- `try: … except <names>: return <value>` -/
noncomputable def handle (h : List String × Rat) (r : Except PyExc ℝ) : Except PyExc ℝ :=
  match r with
  | .ok v => .ok v
  | .error e => if e.name ∈ h.1 then .ok ((h.2 : ℚ) : ℝ) else .error e

def env3 (radius angle sagitta chord alpha : ℝ) : String → ℝ := fun n =>
  if n = "radius" then radius else if n = "angle" then angle else if n = "sagitta" then sagitta
  else if n = "chord_length" then chord else if n = "alpha" then alpha else 0

/-- `arc_chord_length(radius, sagitta)` as generated from math/arc.py -/
noncomputable def arcChordLength (r s : ℝ) : Except PyExc ℝ :=
  handle Gen.FlattenKernels.chordHandler (evalE (env3 r 0 s 0 0) Gen.FlattenKernels.chordExpr)

/-- `arc_segment_count(radius, angle, sagitta)` as generated from math/arc.py -/
noncomputable def arcSegmentCount (r θ s : ℝ) : Except PyExc ℝ :=
  handle Gen.FlattenKernels.countHandler
    (match arcChordLength r s with
     | .error e => .error e
     | .ok c =>
       match evalE (env3 r θ s c 0) Gen.FlattenKernels.alphaExpr with
       | .error e => .error e
       | .ok α => evalE (env3 r θ s c α) Gen.FlattenKernels.countExpr)

private theorem chord_closed (r s : ℝ) :
    arcChordLength r s = .ok (if 2 * r * s - s * s < 0 then 0 else 2 * Real.sqrt (2 * r * s - s * s)) := by
  simp only [arcChordLength, Gen.FlattenKernels.chordExpr, Gen.FlattenKernels.chordHandler, evalE, env3]
  simp
  split_ifs <;> simp [handle, PyExc.name]


private theorem count_fallback (r θ s : ℝ) (hr : 0 < r) (hs : 2 * r ≤ s) :
    arcSegmentCount r θ s = .ok 1 := by
  have hq : 2 * r * s - s * s ≤ 0 := by nlinarith
  have hc : arcChordLength r s = .ok 0 := by
    rw [chord_closed]
    rcases lt_or_eq_of_le hq with h | h
    · simp [h]
    · simp [h]
  simp only [arcSegmentCount, hc, Gen.FlattenKernels.alphaExpr, Gen.FlattenKernels.countExpr,
    Gen.FlattenKernels.countHandler, evalE, env3]
  have h10 : ¬ ((1:ℝ) < 0) := by norm_num
  simp [hr.ne', handle, PyExc.name, h10]

private theorem count_main (r θ s : ℝ) (hr : 0 < r) (hs0 : 0 < s) (hs : s < 2 * r) :
    0 < Real.arcsin (Real.sqrt (2 * r * s - s * s) / r) * 2 ∧
    arcSegmentCount r θ s =
      .ok ((⌈θ / (Real.arcsin (Real.sqrt (2 * r * s - s * s) / r) * 2)⌉ : ℤ) : ℝ) := by
  have hq : 0 < 2 * r * s - s * s := by nlinarith
  have hsq : 0 < Real.sqrt (2 * r * s - s * s) := Real.sqrt_pos.mpr hq
  have hx0 : 0 < Real.sqrt (2 * r * s - s * s) / r := div_pos hsq hr
  have hx1 : Real.sqrt (2 * r * s - s * s) / r ≤ 1 := by
    rw [div_le_one hr]
    calc Real.sqrt (2 * r * s - s * s) ≤ Real.sqrt (r * r) := Real.sqrt_le_sqrt (by nlinarith [sq_nonneg (r - s)])
      _ = r := Real.sqrt_mul_self hr.le
  have hα : 0 < Real.arcsin (Real.sqrt (2 * r * s - s * s) / r) * 2 := by
    have := Real.arcsin_pos.mpr hx0
    linarith
  refine ⟨hα, ?_⟩
  have hc : arcChordLength r s = .ok (2 * Real.sqrt (2 * r * s - s * s)) := by
    rw [chord_closed]; simp [not_lt.mpr hq.le]
  have hx : 2 * Real.sqrt (2 * r * s - s * s) / 2 / r = Real.sqrt (2 * r * s - s * s) / r := by
    field_simp
  simp only [arcSegmentCount, hc, Gen.FlattenKernels.alphaExpr, Gen.FlattenKernels.countExpr,
    Gen.FlattenKernels.countHandler, evalE, env3]
  have hx2 : (-1:ℝ) ≤ Real.sqrt (2 * r * s - s * s) / r := by linarith
  have hmin : min (Real.sqrt (2 * r * s - s * s) / r) 1 = Real.sqrt (2 * r * s - s * s) / r := min_eq_left hx1
  simp [hr.ne', handle, hmin, hα.ne', not_lt.mpr hx1, not_lt.mpr hx2]

/-- key analytic fact: the cosine of the half segment angle computed by the code is `|r - s| / r`
    (on the domain `0 ≤ s (2r - s)` where the square root is defined) -/
theorem cos_arcsin_sagitta (r s : ℝ) (hr : 0 < r) (hq : 0 ≤ 2 * r * s - s * s) :
    Real.cos (Real.arcsin (Real.sqrt (2 * r * s - s * s) / r)) = |r - s| / r := by
  rw [Real.cos_arcsin, div_pow, Real.sq_sqrt hq]
  have : 1 - (2 * r * s - s * s) / r ^ 2 = ((r - s) / r) ^ 2 := by field_simp; ring
  rw [this, Real.sqrt_sq_eq_abs, abs_div, abs_of_pos hr]

/-- **sagitta_bound**: for every radius `r > 0`, sagitta `s > 0` and span `0 < θ ≤ 2π`,
    `arc_segment_count(r, θ, s)` - the current formula `asin(min(chord / 2 / r, 1.0)) * 2` with the clamp of
    commit 677c29f93 - returns an integer `n ≥ 1` (never raises) and the sagitta
    `r (1 - cos (θ / n / 2))` of each of the `n` equal chords is at most `s`; this covers the
    `s > r` branch (where `asin` folds the half angle back) and both exception fall-backs
    (`s > 2r`: `sqrt` raises, chord 0; `s ≥ 2r`: `angle / 0` raises, count 1). -/
theorem sagitta_bound (r s θ : ℝ) (hr : 0 < r) (hs : 0 < s) (hθ : 0 < θ) (hθ2 : θ ≤ 2 * Real.pi) :
    ∃ n : ℤ, arcSegmentCount r θ s = .ok (n : ℝ) ∧ 1 ≤ n ∧
      r * (1 - Real.cos (θ / n / 2)) ≤ s := by
  by_cases h2 : 2 * r ≤ s
  · refine ⟨1, by simpa using count_fallback r θ s hr h2, le_refl _, ?_⟩
    have := Real.neg_one_le_cos (θ / ((1 : ℤ) : ℝ) / 2)
    nlinarith
  · have h2' : s < 2 * r := not_le.mp h2
    obtain ⟨hα, hcount⟩ := count_main r θ s hr hs h2'
    set x := Real.sqrt (2 * r * s - s * s) / r with hx
    set α := Real.arcsin x * 2 with hαdef
    have hq : 0 ≤ 2 * r * s - s * s := by nlinarith
    have hpos : 0 < θ / α := div_pos hθ hα
    have hn1 : 0 < ⌈θ / α⌉ := Int.ceil_pos.mpr hpos
    have hnR : (0 : ℝ) < (⌈θ / α⌉ : ℤ) := by exact_mod_cast hn1
    refine ⟨⌈θ / α⌉, hcount, by omega, ?_⟩
    have hle : θ / α ≤ (⌈θ / α⌉ : ℤ) := Int.le_ceil _
    have hθn : θ / (⌈θ / α⌉ : ℤ) ≤ α := by
      rw [div_le_iff₀ hnR]
      have := (div_le_iff₀ hα).mp hle
      linarith
    have hhalf : θ / (⌈θ / α⌉ : ℤ) / 2 ≤ Real.arcsin x := by
      rw [hαdef] at hθn; linarith
    have hnonneg : 0 ≤ θ / (⌈θ / α⌉ : ℤ) / 2 := by positivity
    have hasin : Real.arcsin x ≤ Real.pi := le_trans (Real.arcsin_le_pi_div_two x) (by linarith [Real.pi_pos])
    have hcos : Real.cos (Real.arcsin x) ≤ Real.cos (θ / (⌈θ / α⌉ : ℤ) / 2) :=
      Real.cos_le_cos_of_nonneg_of_le_pi hnonneg hasin hhalf
    rw [hx, cos_arcsin_sagitta r s hr hq] at hcos
    have habs : r - s ≤ |r - s| ∧ s - r ≤ |r - s| := ⟨le_abs_self _, by rw [abs_sub_comm]; exact le_abs_self _⟩
    have hmul : |r - s| ≤ r * Real.cos (θ / (⌈θ / α⌉ : ℤ) / 2) := by
      have := mul_le_mul_of_nonneg_left hcos hr.le
      rwa [mul_div_cancel₀ _ hr.ne'] at this
    nlinarith [habs.1, habs.2]

/-- geometric meaning of the bound: on a circle of radius `r` the chord between the angles `m - h` and
    `m + h` has its midpoint at distance `r (1 - cos h)` from the arc point at the middle angle `m`
    (the sagitta); `sagitta_bound` is this with `h = θ / n / 2`. -/
theorem chord_sagitta (r m h : ℝ) :
    (r * Real.cos m - (r * Real.cos (m - h) + r * Real.cos (m + h)) / 2) ^ 2 +
    (r * Real.sin m - (r * Real.sin (m - h) + r * Real.sin (m + h)) / 2) ^ 2 =
      (r * (1 - Real.cos h)) ^ 2 := by
  rw [Real.cos_sub, Real.cos_add, Real.sin_sub, Real.sin_add]
  linear_combination (r ^ 2 * (1 - Real.cos h) ^ 2) * Real.sin_sq_add_cos_sq m

/-! ### the whole run of `ConstructionArc.flattening` -/

/-- the angle normalisation of `ConstructionArc.flattening` (degrees): `start %= 360; stop %= 360;
    if stop <= start: stop += 360` -/
def arcRange (start stop : Rat) : Rat × Rat :=
  let a := pyMod start 360
  let b := pyMod stop 360
  (a, if b ≤ a then b + 360 else b)

/-- the normalised angles always describe a counter-clockwise span in `(0°, 360°]` starting in `[0°, 360°)` -/
theorem arc_range_spec (start stop : Rat) :
    0 ≤ (arcRange start stop).1 ∧ (arcRange start stop).1 < 360 ∧
    0 < (arcRange start stop).2 - (arcRange start stop).1 ∧
    (arcRange start stop).2 - (arcRange start stop).1 ≤ 360 := by
  obtain ⟨ha0, ha1⟩ := pyMod_range start 360 (by norm_num)
  obtain ⟨hb0, hb1⟩ := pyMod_range stop 360 (by norm_num)
  unfold arcRange
  simp only
  split
  · rename_i h; exact ⟨ha0, ha1, by linarith, by linarith⟩
  · rename_i h; exact ⟨ha0, ha1, by linarith [not_le.mp h], by linarith⟩

/-- `math.radians` -/
noncomputable def radians (deg : ℝ) : ℝ := deg * Real.pi / 180

/-- the angle (radians) of the `k`-th vertex of `self.vertices(np.linspace(start, stop, count + 1))` -/
noncomputable def arcAngle (a b : ℝ) (n : ℤ) (k : ℝ) : ℝ := radians (a + k * (b - a) / n)

/-- **a whole run of `ConstructionArc.flattening(sagitta)`**: for every radius `r > 0`, every `sagitta > 0` and every
    pair of angles (degrees, any sign and magnitude) the angle normalisation yields a span `θ ∈ (0, 2π]`,
    `arc_segment_count(r, θ, sagitta)` returns some `n ≥ 1` (never raises), the `n + 1` vertices at equally spaced
    angles start exactly at the start angle and end exactly at the end angle, and for EVERY one of the `n` chords the
    distance between the chord midpoint and the arc point at the middle angle - the sagitta - is at most `sagitta`. -/
theorem arc_flattening_sound (r s : ℝ) (cx cy : ℝ) (hr : 0 < r) (hs : 0 < s) (start stop : Rat) :
    let a : ℝ := ((arcRange start stop).1 : ℚ)
    let b : ℝ := ((arcRange start stop).2 : ℚ)
    let θ := radians (b - a)
    0 < θ ∧ θ ≤ 2 * Real.pi ∧
    ∃ n : ℤ, arcSegmentCount r θ s = .ok (n : ℝ) ∧ 1 ≤ n ∧
      arcAngle a b n 0 = radians a ∧ arcAngle a b n n = radians b ∧
      ∀ k : ℝ,
        (cx + r * Real.cos ((arcAngle a b n k + arcAngle a b n (k + 1)) / 2) -
            ((cx + r * Real.cos (arcAngle a b n k)) + (cx + r * Real.cos (arcAngle a b n (k + 1)))) / 2) ^ 2 +
        (cy + r * Real.sin ((arcAngle a b n k + arcAngle a b n (k + 1)) / 2) -
            ((cy + r * Real.sin (arcAngle a b n k)) + (cy + r * Real.sin (arcAngle a b n (k + 1)))) / 2) ^ 2
          = (r * (1 - Real.cos (θ / n / 2))) ^ 2 ∧
        r * (1 - Real.cos (θ / n / 2)) ≤ s := by
  intro a b θ
  obtain ⟨_, _, hpos, hle⟩ := arc_range_spec start stop
  have hposR : (0 : ℝ) < b - a := by
    have : ((0 : ℚ) : ℝ) < (((arcRange start stop).2 - (arcRange start stop).1 : ℚ) : ℝ) := by exact_mod_cast hpos
    simpa [a, b] using this
  have hleR : b - a ≤ 360 := by
    have : (((arcRange start stop).2 - (arcRange start stop).1 : ℚ) : ℝ) ≤ ((360 : ℚ) : ℝ) := by exact_mod_cast hle
    simpa [a, b] using this
  have hθ0 : 0 < θ := by
    simp only [θ, radians]; have := Real.pi_pos; positivity
  have hθ2 : θ ≤ 2 * Real.pi := by
    simp only [θ, radians]
    have := Real.pi_pos
    nlinarith
  refine ⟨hθ0, hθ2, ?_⟩
  obtain ⟨n, hcount, hn1, hsag⟩ := sagitta_bound r s θ hr hs hθ0 hθ2
  have hnR : (0 : ℝ) < n := by exact_mod_cast (by omega : (0 : ℤ) < n)
  refine ⟨n, hcount, hn1, ?_, ?_, ?_⟩
  · simp [arcAngle]
  · simp only [arcAngle]; congr 1; field_simp; ring
  · intro k
    refine ⟨?_, hsag⟩
    -- middle angle m and half step h of the k-th chord
    have hm : (arcAngle a b n k + arcAngle a b n (k + 1)) / 2 = arcAngle a b n k + θ / n / 2 := by
      simp only [arcAngle, radians, θ]; field_simp; ring
    have h1 : arcAngle a b n k = (arcAngle a b n k + θ / n / 2) - θ / n / 2 := by ring
    have h2 : arcAngle a b n (k + 1) = (arcAngle a b n k + θ / n / 2) + θ / n / 2 := by
      simp only [arcAngle, radians, θ]; field_simp; ring
    rw [hm]
    set m := arcAngle a b n k + θ / n / 2 with hmdef
    rw [h2]
    have h1' : arcAngle a b n k = m - θ / n / 2 := by rw [hmdef]; ring
    rw [h1']
    have := chord_sagitta r m (θ / n / 2)
    linear_combination this

/-! ## Part 3: ties to the current source (Gen/FlattenKernels.lean is rewritten by every run) -/

section ties
open EzdxfVerif.Gen.FlattenKernels

/-- the pure Python stack machine as the model copies it; `last` is `cp[3]` / `cp[2]` -/
def stackKernel (last : String) : List (String × String) :=
  [("segments_default", "4"),
   ("prelude", "stack: list[tuple[float, T]] = []; dt: float = 1.0 / segments; t0: float = 0.0; t1: float; cp = self.control_points; start_point: T = cp[0]; end_point: T; yield start_point"),
   ("outer_test", "t0 < 1.0"),
   ("outer_cmp", "Lt"),
   ("step", "t1 = t0 + dt"),
   ("snap_test", "math.isclose(t1, 1.0)"),
   ("snap_then", "end_point = " ++ last ++ "; t1 = 1.0"),
   ("snap_else", "end_point = self._get_curve_point(t1)"),
   ("inner_test", "True"),
   ("mid_t", "mid_t: float = (t0 + t1) * 0.5"),
   ("mid_point", "mid_point: T = self._get_curve_point(mid_t)"),
   ("chk_point", "chk_point: T = start_point.lerp(end_point)"),
   ("dist", "d = chk_point.distance(mid_point)"),
   ("accept_test", "d < distance"),
   ("accept_cmp", "Lt"),
   ("accept_then", "yield end_point; t0 = t1; start_point = end_point; if stack:\n    t1, end_point = stack.pop()\nelse:\n    break"),
   ("accept_else", "stack.append((t1, end_point)); t1 = mid_t; end_point = mid_point")]

/-- the Cython twin as the model copies it -/
def pyxKernel (outerRest : String) : List (String × String) :=
  [("segments_default", "4"),
   ("recursion_limit", "1000"),
   ("prelude", "dt = 1.0 / segments; t0 = 0.0; f = _Flattening(self, distance); start_point = self.start_point; return f.points"),
   ("outer_test", "t0 < 1.0"),
   ("outer_cmp", "Lt"),
   ("step", "t1 = t0 + dt"),
   ("snap_test", "isclose(t1, 1.0, REL_TOL, ABS_TOL)"),
   ("snap_then", "end_point = self.end_point; t1 = 1.0"),
   ("snap_else", "end_point = self.curve.point(t1)"),
   ("outer_rest", outerRest),
   ("guard_test", "self._recursion_level > RECURSION_LIMIT"),
   ("guard_cmp", "Gt"),
   ("guard_then", "self._recursion_error = 1; return"),
   ("flatten_pre", "self._recursion_level += 1; mid_t = (start_t + end_t) * 0.5; mid_point = self.curve.point(mid_t); d = v3_dist(mid_point, v3_lerp(start_point, end_point, 0.5))"),
   ("accept_test", "d < self.distance"),
   ("accept_cmp", "Lt"),
   ("accept_then", "self.points.append(end_point)"),
   ("accept_else", "self.flatten(start_point, mid_point, start_t, mid_t); self.flatten(mid_point, end_point, mid_t, end_t)"),
   ("flatten_post", "self._recursion_level -= 1")]

def bezierNKernel : List (String × String) :=
  [("segments_default", "4"),
   ("subdiv_args", "start_point, end_point, start_t, end_t"),
   ("subdiv_pre", "mid_t = (start_t + end_t) * 0.5; mid_point = self.point(mid_t); chk_point = start_point.lerp(end_point)"),
   ("accept_test", "chk_point.distance(mid_point) < distance"),
   ("accept_cmp", "Lt"),
   ("accept_then", "yield end_point"),
   ("accept_else", "yield from subdiv(start_point, mid_point, start_t, mid_t); yield from subdiv(mid_point, end_point, mid_t, end_t)"),
   ("prelude", "dt = 1.0 / segments; t0 = 0.0; start_point = self._defpoints[0]; yield start_point"),
   ("outer_test", "t0 < 1.0"),
   ("outer_cmp", "Lt"),
   ("outer_body", "t1 = t0 + dt; if math.isclose(t1, 1.0):\n    end_point = self._defpoints[-1]\n    t1 = 1.0\nelse:\n    end_point = self.point(t1); yield from subdiv(start_point, end_point, t0, t1); t0 = t1; start_point = end_point")]

def bsplineKernel : List (String × String) :=
  [("segments_default", "4"),
   ("subdiv_args", "s, e, start_t, end_t"),
   ("subdiv_pre", "mid_t = (start_t + end_t) * 0.5; m = evaluator.point(mid_t)"),
   ("accept_test", "distance_point_segment_3d(m, s, e) < distance"),
   ("accept_cmp", "Lt"),
   ("accept_then", "yield e"),
   ("accept_else", "yield from subdiv(s, m, start_t, mid_t); yield from subdiv(m, e, mid_t, end_t)"),
   ("prelude", "evaluator = self.evaluator; knots = np.unique(np.array(self.knots())); seg_f64 = np.float64(segments); t = knots[0]; start_point = evaluator.point(t); yield start_point"),
   ("for", "for t1 in knots[1:]"),
   ("for_body", "delta = (t1 - t) / seg_f64; while t < t1:\n    next_t = t + delta\n    if math.isclose(next_t, t1):\n        next_t = t1\n    end_point = evaluator.point(next_t)\n    yield from subdiv(start_point, end_point, t, next_t)\n    t = next_t\n    start_point = end_point")]

def ellipseKernel : List (String × String) :=
  [("segments_default", "4"),
   ("subdiv_args", "s, e, s_param, e_param"),
   ("subdiv_pre", "m_param = (s_param + e_param) * 0.5; m = vertex_(m_param)"),
   ("accept_test", "distance_point_segment_3d(m, s, e) < distance"),
   ("accept_cmp", "Lt"),
   ("accept_then", "yield e"),
   ("accept_else", "yield from subdiv(s, m, s_param, m_param); yield from subdiv(m, e, m_param, e_param)"),
   ("prelude", "x_axis = self.major_axis.normalize(); y_axis = self.minor_axis.normalize(); radius_x = self.major_axis.magnitude; radius_y = radius_x * self.ratio; delta = self.param_span / segments; if delta == 0.0:\n    return; param = self.start_param % math.tau; if math.isclose(self.end_param, math.tau):\n    end_param = math.tau\nelse:\n    end_param = self.end_param % math.tau; if math.isclose(param, end_param):\n    if not math.isclose(self.param_span, math.tau):\n        return\n    end_param = param + math.tau\nelif param > end_param:\n    end_param += math.tau; start_point = vertex_(param); yield start_point"),
   ("outer_test", "param < end_param"),
   ("outer_cmp", "Lt"),
   ("outer_body", "next_end_param = param + delta; if math.isclose(next_end_param, end_param):\n    next_end_param = end_param; end_point = vertex_(next_end_param); yield from subdiv(start_point, end_point, param, next_end_param); param = next_end_param; start_point = end_point")]

def arcFlatteningKernel : List (String × String) :=
  [("arc", "radius: float = abs(self.radius); if radius > 0:\n    start: float = self.start_angle\n    stop: float = self.end_angle\n    if math.isclose(start, stop):\n        return\n    start %= 360\n    stop %= 360\n    if stop <= start:\n        stop += 360\n    angle_span: float = math.radians(stop - start)\n    count = arc_segment_count(radius, angle_span, sagitta)\n    yield from self.vertices(np.linspace(start, stop, count + 1))"),
   ("circle", "from .arc import arc_segment_count; count = arc_segment_count(self.radius, math.tau, sagitta); yield from self.vertices(np.linspace(0.0, math.tau, count + 1))")]

def distancePointLineKernel : String := "if start.isclose(end):\n    raise ZeroDivisionError('Not a line.'); v1 = point - start; v2 = (end - start).project(v1); diff = v1.magnitude_square - v2.magnitude_square; if diff <= 0.0:\n    return 0.0\nelse:\n    return math.sqrt(diff)"

def distancePointSegmentKernel : String := "direction = end - start; v1 = point - start; length_square = direction.magnitude_square; if length_square == 0.0:\n    return v1.magnitude; t = direction.dot(v1) / length_square; if t <= 0.0:\n    return v1.magnitude; if t >= 1.0:\n    return point.distance(end); return point.distance(start + direction * t)"

def bez4PointPyKernel : String := "_, p1, p2, p3 = self._control_points; t2 = t * t; _1_minus_t = 1.0 - t; b = 3.0 * _1_minus_t * _1_minus_t * t; c = 3.0 * _1_minus_t * t2; d = t2 * t; return p1 * b + p2 * c + p3 * d + self._offset"

def bez3PointPyKernel : String := "_, p1, p2 = self._control_points; _1_minus_t = 1.0 - t; b = 2.0 * t * _1_minus_t; c = t * t; return p1 * b + p2 * c + self._offset"

def bez4PointPyxKernel : String := "double x = p0.x; double y = p0.y; double z = p0.z; self.offset[0] = x; self.offset[1] = y; self.offset[2] = z; self.p1[0] = p1.x - x; self.p1[1] = p1.y - y; self.p1[2] = p1.z - z; self.p2[0] = p2.x - x; self.p2[1] = p2.y - y; self.p2[2] = p2.z - z; self.p3[0] = p3.x - x; self.p3[1] = p3.y - y; self.p3[2] = p3.z - z; Vec3 result = Vec3(); double t2 = t * t; double _1_minus_t = 1.0 - t; double b = 3.0 * _1_minus_t * _1_minus_t * t; double c = 3.0 * _1_minus_t * t2; double d = t2 * t; iadd_mul(result, self.p1, b); iadd_mul(result, self.p2, c); iadd_mul(result, self.p3, d); result.x += self.offset[0]; result.y += self.offset[1]; result.z += self.offset[2]"

def bez3PointPyxKernel : String := "self.offset[0] = p0.x; self.offset[1] = p0.y; self.offset[2] = p0.z; self.p1[0] = p1.x - p0.x; self.p1[1] = p1.y - p0.y; self.p1[2] = p1.z - p0.z; self.p2[0] = p2.x - p0.x; self.p2[1] = p2.y - p0.y; self.p2[2] = p2.z - p0.z; Vec3 result = Vec3(); double b = 2.0 * t * (1.0 - t); double c = t * t; iadd_mul(result, self.p1, b); iadd_mul(result, self.p2, c); result.x += self.offset[0]; result.y += self.offset[1]; result.z += self.offset[2]"

def pyxIscloseKernel : String := "cdef double diff = fabs(b - a) return diff <= fabs(rel_tol * b) or diff <= fabs(rel_tol * a) or diff <= abs_tol"

/-- both pure Python Bezier twins still are the stack machine that `stackLoop`/`spanLoop` copy
    (loop tests, step, snap branch, midpoint formula, chord midpoint, `<`, push/pop order) -/
theorem tie_bezier_py : bez4Py = stackKernel "cp[3]" ∧ bez3Py = stackKernel "cp[2]" := by
  constructor <;> rfl

/-- both Cython Bezier twins still are the recursion that `recSub`/`spanLoop` copy
    (`RECURSION_LIMIT`, guard `>`, midpoint formula, `v3_lerp(…, 0.5)`, `<`, recursion order) -/
theorem tie_bezier_pyx :
    bez4Pyx = pyxKernel "f.reset_recursion_check(); f.flatten(start_point, end_point, t0, t1); if f.has_recursion_error():\n    raise RecursionError('Bezier4P flattening error, check for very large coordinates'); t0 = t1; start_point = end_point" ∧
    bez3Pyx = pyxKernel "f.reset_recursion_check(); f.flatten(start_point, end_point, t0, t1); if f.has_recursion_error():\n    raise RecursionError('Bezier3P flattening error, check for very large coordinates'); t0 = t1; start_point = end_point" := by
  constructor <;> rfl

/-- the generator based variants (generic Bezier, B-spline, ellipse), `distance_point_segment_3d` (the
    test of the B-spline and ellipse variants since the fixes 5dd05e20e / c03295f49: `segDist2`, `chordTest`)
    and `distance_point_line_3d` (their former test: `lineDist2`, `lineTest`) -/
theorem tie_recursive_generators :
    bezierN = bezierNKernel ∧ bspline = bsplineKernel ∧ ellipse = ellipseKernel ∧
    distancePointLine3d = distancePointLineKernel ∧ distancePointSegment3d = distancePointSegmentKernel := by
  refine ⟨?_, ?_, ?_, ?_, ?_⟩ <;> rfl

/-- the Bezier point kernels evaluated by the driver (`bez4Point`, `bez3Point`) -/
theorem tie_point_kernels :
    bez4PointPy = bez4PointPyKernel ∧ bez3PointPy = bez3PointPyKernel ∧
    bez4PointPyx = bez4PointPyxKernel ∧ bez3PointPyx = bez3PointPyxKernel := by
  refine ⟨?_, ?_, ?_, ?_⟩ <;> rfl

/-- tolerances: `math.isclose`, Cython `isclose`/constants.h, `numpy.isclose`, `Vec3.isclose` -/
theorem tie_tolerances :
    mathRelTol = 1e-9 ∧ mathAbsTol = 0 ∧ pyxRelTol = 1e-9 ∧ pyxAbsTol = 1e-12 ∧
    npRtol = 1e-5 ∧ npAtol = 1e-8 ∧ vecRelTol = 1e-9 ∧ vecAbsTol = 1e-12 ∧
    pyxIscloseBody = pyxIscloseKernel := by
  refine ⟨by decide +kernel, by decide +kernel, by decide +kernel, by decide +kernel, by decide +kernel,
    by decide +kernel, by decide +kernel, by decide +kernel, rfl⟩

/-- arc flattening still divides the span into `arc_segment_count` equal parts (`np.linspace(…, count + 1)`),
    and the arc formulas are the trees `sagitta_bound` is proved about, including the clamp `min(…, 1.0)` of the
    asin argument (fix 677c29f93: without it float rounding near sagitta = radius raised inside `try` and the
    count fell back to 1; reverting the fix changes `alphaExpr` and re-opens this theorem and `sagitta_bound`) -/
theorem tie_arc :
    arcFlattening = arcFlatteningKernel ∧
    chordExpr = .mul (.num 2) (.sqrt (.sub (.mul (.mul (.num 2) (.var "radius")) (.var "sagitta"))
      (.mul (.var "sagitta") (.var "sagitta")))) ∧
    chordHandler = (["ValueError"], 0) ∧
    alphaExpr = .mul (.asin (.min (.div (.div (.var "chord_length") (.num 2)) (.var "radius")) (.num 1))) (.num 2) ∧
    countExpr = .ceil (.div (.var "angle") (.var "alpha")) ∧
    countHandler = (["ValueError", "ZeroDivisionError"], 1) := by
  refine ⟨?_, ?_, ?_, ?_, ?_, ?_⟩ <;> rfl

/-- path/tools.py still stores a cubic as LINE_TO only if BOTH handles are retracted (`and`) and a quadratic if its
    control point sits on either end (`or`), exact comparison (rel_tol 1e-15, abs_tol 0): the rules that
    `cubic_both_handles_retracted_is_chord` / `quadratic_retracted_is_chord` justify and that
    `cubic_one_handle_retracted_not_chord` shows cannot be weakened -/
theorem tie_path_linear_rules :
    pathLinearRules =
      [("add_bezier4p.op", "And"),
       ("add_bezier4p.operands", "start.isclose(ctrl1, rel_tol=rel_tol, abs_tol=abs_tol); end.isclose(ctrl2, rel_tol=rel_tol, abs_tol=abs_tol)"),
       ("add_bezier4p.then", "path.line_to(end)"),
       ("add_bezier4p.else", "path.curve4_to(end, ctrl1, ctrl2)"),
       ("add_bezier4p.rel_tol", "1e-15"),
       ("add_bezier4p.abs_tol", "0.0"),
       ("add_bezier3p.op", "Or"),
       ("add_bezier3p.operands", "start.isclose(ctrl, rel_tol=rel_tol, abs_tol=abs_tol); end.isclose(ctrl, rel_tol=rel_tol, abs_tol=abs_tol)"),
       ("add_bezier3p.then", "path.line_to(end)"),
       ("add_bezier3p.else", "path.curve3_to(end, ctrl)"),
       ("add_bezier3p.rel_tol", "1e-15"),
       ("add_bezier3p.abs_tol", "0.0")] := by
  rfl

end ties

/-! ## non-vacuity: concrete runs of the model -/

section examples
open EzdxfVerif.Gen.FlattenKernels

private def demoCubic : Curve V3 :=
  ⟨bez4Point ⟨0, 0, 0⟩ ⟨1, 2, 0⟩ ⟨3, 2, 0⟩ ⟨4, 0, 0⟩, midTest (1/100)⟩

-- the Python stack machine and the Cython recursion finish and agree: 17 vertices, first/last exact
#guard (bezierFlat demoCubic (stackSub demoCubic 1000) mathRelTol mathAbsTol ⟨0, 0, 0⟩ ⟨4, 0, 0⟩ 4 6).toOption.map List.length = some 17
#guard bezierFlat demoCubic (stackSub demoCubic 1000) mathRelTol mathAbsTol ⟨0, 0, 0⟩ ⟨4, 0, 0⟩ 4 6 =
  bezierFlat demoCubic (recSub demoCubic 1001) pyxRelTol pyxAbsTol ⟨0, 0, 0⟩ ⟨4, 0, 0⟩ 4 6
-- the recursion budget of the Cython twin turns into RecursionError, the stack machine has no limit
#guard bezierFlat demoCubic (recSub demoCubic 2) pyxRelTol pyxAbsTol ⟨0, 0, 0⟩ ⟨4, 0, 0⟩ 4 6 = .error .recursion
-- rec_eq_stack / stack_iff_rec: the inner subdivisions agree on a concrete chord; a small budget gives RecursionError
#guard stackSub demoCubic 100 0 ⟨0, 0, 0⟩ (1/4) (demoCubic.P (1/4)) = recSub demoCubic 100 0 ⟨0, 0, 0⟩ (1/4) (demoCubic.P (1/4))
#guard (stackSub demoCubic 100 0 ⟨0, 0, 0⟩ (1/4) (demoCubic.P (1/4))).toOption.map List.length = some 4
#guard recSub demoCubic 2 0 ⟨0, 0, 0⟩ (1/4) (demoCubic.P (1/4)) = .error .recursion
-- distance 0: fuel exhausted (the real loop never ends)
#guard bezierFlat ⟨demoCubic.P, midTest 0⟩ (stackSub ⟨demoCubic.P, midTest 0⟩ 5000) mathRelTol mathAbsTol ⟨0, 0, 0⟩ ⟨4, 0, 0⟩ 4 6 = .error .fuel
-- exact tie `d == distance` is NOT accepted (`<`): quadratic with second difference (0,-4,0), dt = 1/4
#guard (bezierFlat ⟨bez3Point ⟨0, 0, 0⟩ ⟨1, 2, 0⟩ ⟨2, 0, 0⟩, midTest (1/16)⟩
    (stackSub ⟨bez3Point ⟨0, 0, 0⟩ ⟨1, 2, 0⟩ ⟨2, 0, 0⟩, midTest (1/16)⟩ 1000) mathRelTol mathAbsTol ⟨0, 0, 0⟩ ⟨2, 0, 0⟩ 4 6).toOption.map List.length = some 9

/-- a collinear "out and back" quadratic B-spline, control points (0,0) (10,0) (1,0), one knot span -/
private def backtrack : Curve V3 :=
  ⟨fun t => ⟨20 * t - 19 * t * t, 0, 0⟩, lineTest vecRelTol vecAbsTol true (1/100)⟩

-- BSpline.flattening(0.01, segments=1) of it yielded just the two end points with the former line test …
#guard bsplineFlat backtrack 900 mathRelTol mathAbsTol [0, 0, 0, 1, 1, 1] 1 3 = .ok [(0, ⟨0, 0, 0⟩), (1, ⟨1, 0, 0⟩)]
-- … with the current chord test (fix 5dd05e20e) the turning region is visited: 0 → 21/4 → 1
#guard bsplineFlat ⟨backtrack.P, chordTest (1/100)⟩ 900 mathRelTol mathAbsTol [0, 0, 0, 1, 1, 1] 1 3 =
  .ok [(0, ⟨0, 0, 0⟩), (1/2, ⟨21/4, 0, 0⟩), (1, ⟨1, 0, 0⟩)]
-- chordTest_iff_documented is not vacuous: accepted and rejected chords
#guard chordTest (1/100) ⟨0, 0, 0⟩ ⟨1, 0, 0⟩ ⟨21/4, 0, 0⟩ = .split
#guard chordTest (1/2) ⟨0, 0, 0⟩ ⟨4, 0, 0⟩ ⟨2, 1/4, 0⟩ = .accept
#guard chordTest (1/2) ⟨0, 0, 0⟩ ⟨0, 0, 0⟩ ⟨2, 1/4, 0⟩ = .split

end examples

/-- … although the curve point at the middle parameter is 4.25 away from that chord: the FORMER B-spline /
    ellipse test (distance to the LINE through the chord ends) does not establish the documented
    criterion (distance to the CHORD) on whole runs either.  (Real code before fix 5dd05e20e:
    `BSpline([(0,0),(10,0),(1,0)], order=3).flattening(0.01, segments=1)` returned `[(0,0,0), (1,0,0)]`;
    the current test is `chordTest`, see `chordTest_iff_documented`.) -/
theorem bspline_line_test_counterexample :
    ∃ (C : Curve V3) (out : List (TV V3)),
      bsplineFlat C 900 (1e-5) (1e-8) [0, 0, 0, 1, 1, 1] 1 3 = .ok out ∧
      out = [(0, C.P 0), (1, C.P 1)] ∧ ¬ WithinChord (1/100) (C.P 0) (C.P 1) (C.P (1/2)) := by
  refine ⟨⟨fun t => ⟨20 * t - 19 * t * t, 0, 0⟩, lineTest (1e-9) (1e-12) true (1/100)⟩,
    [(0, ⟨0, 0, 0⟩), (1, ⟨1, 0, 0⟩)], by decide +kernel, by decide +kernel, ?_⟩
  rintro ⟨lam, h0, h1, hlt⟩
  simp only [V3.dist2, V3.lerp, V3.add, V3.sub, V3.smul, V3.dot] at hlt
  nlinarith

end EzdxfVerif.Props.C14

/-
C11  Vector, matrix and coordinate-system algebra obeys its laws.

Every definition the theorems talk about (`Matrix44Pyx.*`, `Matrix44Py.*`, `VectorPy.*`, `VectorPyx.*`,
`UcsPy.*`, `UcsPyx.*`) is REGENERATED from /repo's current source on every run by harness/translate/py2lean.py
(Gen/*.lean); only `M44.mul/det/adj/inv/chain` (the textbook algebra that stands for NumPy in the pure-Python
twin) and the structures are hand-written (Model/Rat3.lean).  Numbers are exact rationals; `sqrt`, `sin`,
`cos`, `tan` values enter as parameters with the algebraic hypotheses a real value satisfies
(`r*r = radicand`, `0 < r`, `c*c + s*s = 1`).
Only property theorems and non-vacuity examples live here; every `theorem` is a counted obligation.
-/
import EzdxfVerif.Gen.VectorPy
import EzdxfVerif.Gen.VectorPyx
import EzdxfVerif.Gen.Matrix44Py
import EzdxfVerif.Gen.Matrix44Pyx
import EzdxfVerif.Gen.UcsPy
import EzdxfVerif.Gen.UcsPyx
import EzdxfVerif.Gen.UcsAttrs
import EzdxfVerif.Gen.ConstructPy
import EzdxfVerif.Gen.ConstructPyx
import EzdxfVerif.Model.UcsMachine
import Mathlib.Tactic.Ring
import Mathlib.Tactic.FieldSimp
import Mathlib.Tactic.Linarith
import Mathlib.Tactic.Positivity
import Mathlib.Tactic.LinearCombination

namespace EzdxfVerif.Props.C11
open EzdxfVerif.Rat3 EzdxfVerif.Gen EzdxfVerif.UcsMachine

/-! ## 1. Composition: `A * B` is "A then B" (row-vector convention) -/

/-- the explicit product of the Cython twin is the textbook product (which models `np.matmul` of the Python twin) -/
theorem pyx_mul_is_textbook (a b : M44) :
    Matrix44Pyx.mul a b = M44.mul a b ∧ Matrix44Pyx.imul a b = M44.mul a b ∧ Matrix44Pyx.matmul a b = M44.mul a b :=
  ⟨rfl, rfl, rfl⟩

/-- transforming by `A * B` = transforming by `A`, then by `B`.  The hypothesis on `A` is forced by the code:
    `transform` ignores the 4th column of the matrix (see `transform_mul_needs_affine`). -/
theorem transform_mul (a b : M44) (v : V3) (ha : M44.IsAffine a) :
    Matrix44Pyx.transform (Matrix44Pyx.mul a b) v = Matrix44Pyx.transform b (Matrix44Pyx.transform a v) := by
  obtain ⟨h3, h7, h11, h15⟩ := ha
  simp only [Matrix44Pyx.transform, Matrix44Pyx.mul, V3.mk.injEq, h3, h7, h11, h15]
  refine ⟨?_, ?_, ?_⟩ <;> ring

/-- without the affine hypothesis the composition law is false (perspective matrices): concrete witness -/
theorem transform_mul_needs_affine :
    ∃ a b v, ¬ M44.IsAffine a ∧
      Matrix44Pyx.transform (Matrix44Pyx.mul a b) v ≠ Matrix44Pyx.transform b (Matrix44Pyx.transform a v) := by
  refine ⟨⟨1, 0, 0, 1, 0, 1, 0, 0, 0, 0, 1, 0, 0, 0, 0, 1⟩, Matrix44Pyx.translate 1 0 0, ⟨1, 0, 0⟩, ?_, ?_⟩
  · decide +kernel
  · decide +kernel

/-- directions (no translation) compose under the weaker hypothesis that the first three cells of the 4th column vanish -/
theorem transform_direction_mul (a b : M44) (v : V3) (h3 : a.m3 = 0) (h7 : a.m7 = 0) (h11 : a.m11 = 0) :
    Matrix44Pyx.transformDirection (Matrix44Pyx.mul a b) v
      = Matrix44Pyx.transformDirection b (Matrix44Pyx.transformDirection a v) := by
  simp only [Matrix44Pyx.transformDirection, Matrix44Pyx.mul, V3.mk.injEq, h3, h7, h11]
  refine ⟨?_, ?_, ?_⟩ <;> ring

theorem mul_assoc (a b c : M44) : M44.mul (M44.mul a b) c = M44.mul a (M44.mul b c) := by
  simp only [M44.mul, M44.mk.injEq]
  refine ⟨?_, ?_, ?_, ?_, ?_, ?_, ?_, ?_, ?_, ?_, ?_, ?_, ?_, ?_, ?_, ?_⟩ <;> ring

theorem mul_identity (a : M44) : M44.mul a M44.identity = a ∧ M44.mul M44.identity a = a := by
  constructor <;> (cases a; simp [M44.mul, M44.identity])

theorem affine_mul (a b : M44) (ha : M44.IsAffine a) (hb : M44.IsAffine b) : M44.IsAffine (M44.mul a b) := by
  obtain ⟨a3, a7, a11, a15⟩ := ha
  obtain ⟨b3, b7, b11, b15⟩ := hb
  simp [M44.IsAffine, M44.mul, a3, a7, a11, a15, b3, b7, b11, b15]


/-- `m *= m` (the right operand IS the receiver) equals `m * m` for every matrix.  The translator models the
    aliasing exactly (`other` = the same object as `self`): the Cython `__imul__` snapshots both operands
    (`cdef double[16] m1 = self.m`, `cdef double[16] m2 = other.m`) before it overwrites `self.m`.
    (Before the fix 4ffd6dab9 `m2` was a pointer alias and this statement was false, witness
    m = [1,2,0,0, 3,1,0,0, 0,0,1,0, 4,5,6,1].) -/
theorem pyx_imul_self (m : M44) : Matrix44Pyx.imulSelf m = M44.mul m m := rfl

example : Matrix44Pyx.imulSelf ⟨1, 2, 0, 0, 3, 1, 0, 0, 0, 0, 1, 0, 4, 5, 6, 1⟩
    = ⟨7, 4, 0, 0, 6, 7, 0, 0, 0, 0, 1, 0, 23, 18, 12, 1⟩ := by decide +kernel

/-- `Matrix44.chain(*ms)` (Cython loop, translated as a fold) is the left fold of textbook products -/
theorem chain_eq_fold (ms : List M44) : Matrix44Pyx.chain ms = M44.chain ms := rfl

private theorem chain_aux (ms : List M44) (acc : M44) (v : V3) (hacc : M44.IsAffine acc)
    (h : ∀ m ∈ ms, M44.IsAffine m) :
    Matrix44Pyx.transform (ms.foldl M44.mul acc) v
      = ms.foldl (fun p m => Matrix44Pyx.transform m p) (Matrix44Pyx.transform acc v) := by
  induction ms generalizing acc with
  | nil => rfl
  | cons m rest ih =>
    simp only [List.foldl_cons]
    rw [ih (M44.mul acc m) (affine_mul _ _ hacc (h m (by simp))) (fun x hx => h x (by simp [hx]))]
    congr 1
    exact transform_mul acc m v hacc

/-- transforming by `chain(m1, …, mn)` applies m1, then m2, …, then mn — for every list of affine matrices -/
theorem chain_transform (ms : List M44) (v : V3) (h : ∀ m ∈ ms, M44.IsAffine m) :
    Matrix44Pyx.transform (Matrix44Pyx.chain ms) v = ms.foldl (fun p m => Matrix44Pyx.transform m p) v := by
  rw [chain_eq_fold]
  unfold M44.chain
  rw [chain_aux ms M44.identity v (by decide +kernel) h]
  congr 1
  cases v; simp [Matrix44Pyx.transform, M44.identity]

example : Matrix44Pyx.transform (Matrix44Pyx.chain [Matrix44Pyx.translate 1 2 3, Matrix44Pyx.scale 2 2 2]) ⟨1, 1, 1⟩
    = ⟨4, 6, 8⟩ := by decide +kernel

/-! ## 2. Batch transforms equal single transforms -/

theorem batch_eq_single (m : M44) (vs : List V3) (ps : List V2) :
    Matrix44Pyx.transformVertices m vs = vs.map (Matrix44Pyx.transform m)
    ∧ Matrix44Py.transformVertices m vs = vs.map (Matrix44Py.transform m)
    ∧ Matrix44Pyx.transformDirections m vs = vs.map (Matrix44Pyx.transformDirection m)
    ∧ Matrix44Py.transformDirections m vs = vs.map (Matrix44Py.transformDirection m)
    ∧ Matrix44Pyx.fast2d m ps = ps.map (fun p => let q := Matrix44Pyx.transform m ⟨p.x, p.y, 0⟩; ⟨q.x, q.y⟩)
    ∧ Matrix44Py.fast2d m ps = ps.map (fun p => let q := Matrix44Py.transform m ⟨p.x, p.y, 0⟩; ⟨q.x, q.y⟩) := by
  refine ⟨rfl, rfl, rfl, rfl, ?_, ?_⟩ <;>
  · simp only [Matrix44Pyx.fast2d, Matrix44Py.fast2d, Matrix44Pyx.transform, Matrix44Py.transform]
    apply List.map_congr_left
    intro p _
    simp

/-- a row of a point array: coordinates followed by untouched extra columns (widths, bulge, …) -/
def row3 (p : V3) (rest : List Rat) : List Rat := p.x :: p.y :: p.z :: rest
def row2 (p : V2) (rest : List Rat) : List Rat := p.x :: p.y :: rest

/-- `transform_array_inplace(array, 3)` (Cython kernel) transforms the first three columns of every row like
    `transform` and leaves every further column alone — for arrays of any number of rows and columns -/
theorem array3d_eq_single (m : M44) (rows : List (V3 × List Rat)) :
    Matrix44Pyx.array3d m (rows.map fun r => row3 r.1 r.2)
      = rows.map fun r => row3 (Matrix44Pyx.transform m r.1) r.2 := by
  simp only [Matrix44Pyx.array3d, List.map_map]
  apply List.map_congr_left
  intro r _
  simp [row3, Matrix44Pyx.transform, List.set, List.getD]

/-- `transform_array_inplace(array, 2)`: columns 0,1 like `fast_2d_transform`, the rest (incl. a z column) untouched -/
theorem array2d_eq_single (m : M44) (rows : List (V2 × List Rat)) :
    Matrix44Pyx.array2d m (rows.map fun r => row2 r.1 r.2)
      = (Matrix44Pyx.fast2d m (rows.map Prod.fst)).zipWith (fun p r => row2 p r.2) rows := by
  simp only [Matrix44Pyx.array2d, Matrix44Pyx.fast2d, List.map_map]
  induction rows with
  | nil => rfl
  | cons r rest ih =>
    simp only [List.map_cons, List.zipWith_cons_cons, ih]
    congr 1

/-! ## 3. Determinant and inverse (explicit adjugate formulas of the Cython twin) -/

/-- the 24-term determinant of the Cython twin is the Laplace expansion -/
theorem determinant_is_textbook (m : M44) : Matrix44Pyx.determinant m = M44.det m := by
  simp only [Matrix44Pyx.determinant, M44.det, M44.det3]; ring

/-- the determinant is multiplicative -/
theorem det_mul (a b : M44) : M44.det (M44.mul a b) = M44.det a * M44.det b := by
  simp only [M44.det, M44.det3, M44.mul]; ring

theorem det_identity : M44.det M44.identity = 1 := by decide +kernel

/-- `inverse()` is a two-sided inverse of every matrix with non-zero determinant -/
theorem inverse_two_sided (m : M44) (h : Matrix44Pyx.determinant m ≠ 0) :
    ∃ i, Matrix44Pyx.inverse m = .ok i ∧ M44.mul m i = M44.identity ∧ M44.mul i m = M44.identity := by
  refine ⟨_, by simp only [Matrix44Pyx.inverse, if_neg h]; rfl, ?_, ?_⟩ <;>
  · simp only [M44.mul, M44.identity, M44.mk.injEq]
    refine ⟨?_, ?_, ?_, ?_, ?_, ?_, ?_, ?_, ?_, ?_, ?_, ?_, ?_, ?_, ?_, ?_⟩ <;>
    · field_simp
      simp only [Matrix44Pyx.determinant]
      ring

/-- singular matrices raise ZeroDivisionError (and, the receiver being written only after `1./det`, stay unchanged) -/
theorem inverse_singular (m : M44) (h : Matrix44Pyx.determinant m = 0) :
    Matrix44Pyx.inverse m = .error PyErr.zeroDivision := by
  simp only [Matrix44Pyx.inverse, if_pos h]

/-- the 16 hand-expanded adjugate formulas of the Cython twin are the classical adjugate / determinant -/
theorem inverse_is_textbook (m : M44) : Matrix44Pyx.inverse m = M44.inv m := by
  unfold Matrix44Pyx.inverse M44.inv
  rw [determinant_is_textbook]
  by_cases h : M44.det m = 0
  · simp [h]
  · simp only [if_neg h, M44.scale, M44.adj, M44.det3]
    congr 1
    simp only [M44.mk.injEq]
    refine ⟨?_, ?_, ?_, ?_, ?_, ?_, ?_, ?_, ?_, ?_, ?_, ?_, ?_, ?_, ?_, ?_⟩ <;> ring

/-- the inverse is unique: any right inverse equals what `inverse()` returns -/
theorem inverse_unique (m i j : M44) (hi : Matrix44Pyx.inverse m = .ok i) (hj : M44.mul m j = M44.identity) : j = i := by
  by_cases h : Matrix44Pyx.determinant m = 0
  · rw [inverse_singular m h] at hi; cases hi
  · obtain ⟨i', hi', _, hl⟩ := inverse_two_sided m h
    rw [hi] at hi'; cases hi'
    calc j = M44.mul M44.identity j := (mul_identity j).2.symm
      _ = M44.mul (M44.mul i m) j := by rw [hl]
      _ = M44.mul i (M44.mul m j) := mul_assoc _ _ _
      _ = i := by rw [hj, (mul_identity i).1]

theorem transpose_is_textbook (m : M44) :
    Matrix44Pyx.transpose m = M44.transpose m ∧ M44.transpose (M44.transpose m) = m := ⟨rfl, rfl⟩

example : Matrix44Pyx.inverse (Matrix44Pyx.scale 2 4 8)
    = .ok ⟨1/2, 0, 0, 0, 0, 1/4, 0, 0, 0, 0, 1/8, 0, 0, 0, 0, 1⟩ := by decide +kernel
example : Matrix44Pyx.inverse ⟨1, 2, 3, 4, 2, 4, 6, 8, 1, 0, 0, 1, 0, 1, 0, 1⟩ = .error .zeroDivision := by decide +kernel

/-! ## 4. Factory matrices do what their names say -/

theorem translate_spec (dx dy dz : Rat) (v : V3) :
    Matrix44Pyx.transform (Matrix44Pyx.translate dx dy dz) v = ⟨v.x + dx, v.y + dy, v.z + dz⟩
    ∧ Matrix44Pyx.transformDirection (Matrix44Pyx.translate dx dy dz) v = v
    ∧ M44.IsAffine (Matrix44Pyx.translate dx dy dz)
    ∧ M44.det (Matrix44Pyx.translate dx dy dz) = 1 := by
  refine ⟨?_, ?_, ?_, ?_⟩
  · simp [Matrix44Pyx.transform, Matrix44Pyx.translate]
  · cases v; simp [Matrix44Pyx.transformDirection, Matrix44Pyx.translate]
  · simp [M44.IsAffine, Matrix44Pyx.translate]
  · simp [M44.det, M44.det3, Matrix44Pyx.translate]

theorem scale_spec (sx sy sz : Rat) (v : V3) :
    Matrix44Pyx.transform (Matrix44Pyx.scale sx sy sz) v = ⟨v.x * sx, v.y * sy, v.z * sz⟩
    ∧ Matrix44Pyx.scaleUniform sx = Matrix44Pyx.scale sx sx sx
    ∧ M44.IsAffine (Matrix44Pyx.scale sx sy sz)
    ∧ M44.det (Matrix44Pyx.scale sx sy sz) = sx * sy * sz := by
  refine ⟨?_, rfl, ?_, ?_⟩
  · simp [Matrix44Pyx.transform, Matrix44Pyx.scale]
  · simp [M44.IsAffine, Matrix44Pyx.scale]
  · simp [M44.det, M44.det3, Matrix44Pyx.scale]; ring

/-- `z_rotate(θ)` with `c = cos θ`, `s = sin θ`: orthogonal, determinant 1, keeps the z-axis, turns the x-axis
    counter-clockwise towards the y-axis -/
theorem z_rotate_spec (c s : Rat) (h : c * c + s * s = 1) (v : V3) :
    let r := Matrix44Pyx.zRotate c s
    M44.mul r (M44.transpose r) = M44.identity ∧ M44.det r = 1 ∧ M44.IsAffine r
    ∧ Matrix44Pyx.transform r v = ⟨c * v.x - s * v.y, s * v.x + c * v.y, v.z⟩ := by
  refine ⟨?_, ?_, ?_, ?_⟩
  · simp only [Matrix44Pyx.zRotate, M44.mul, M44.transpose, M44.identity, M44.mk.injEq]
    refine ⟨?_, ?_, ?_, ?_, ?_, ?_, ?_, ?_, ?_, ?_, ?_, ?_, ?_, ?_, ?_, ?_⟩ <;> linarith
  · simp only [Matrix44Pyx.zRotate, M44.det, M44.det3]; linarith
  · simp [M44.IsAffine, Matrix44Pyx.zRotate]
  · simp only [Matrix44Pyx.zRotate, Matrix44Pyx.transform, V3.mk.injEq]
    refine ⟨?_, ?_, ?_⟩ <;> ring

theorem x_rotate_spec (c s : Rat) (h : c * c + s * s = 1) (v : V3) :
    let r := Matrix44Pyx.xRotate c s
    M44.mul r (M44.transpose r) = M44.identity ∧ M44.det r = 1 ∧ M44.IsAffine r
    ∧ Matrix44Pyx.transform r v = ⟨v.x, c * v.y - s * v.z, s * v.y + c * v.z⟩ := by
  refine ⟨?_, ?_, ?_, ?_⟩
  · simp only [Matrix44Pyx.xRotate, M44.mul, M44.transpose, M44.identity, M44.mk.injEq]
    refine ⟨?_, ?_, ?_, ?_, ?_, ?_, ?_, ?_, ?_, ?_, ?_, ?_, ?_, ?_, ?_, ?_⟩ <;> linarith
  · simp only [Matrix44Pyx.xRotate, M44.det, M44.det3]; linarith
  · simp [M44.IsAffine, Matrix44Pyx.xRotate]
  · simp only [Matrix44Pyx.xRotate, Matrix44Pyx.transform, V3.mk.injEq]
    refine ⟨?_, ?_, ?_⟩ <;> ring

theorem y_rotate_spec (c s : Rat) (h : c * c + s * s = 1) (v : V3) :
    let r := Matrix44Pyx.yRotate c s
    M44.mul r (M44.transpose r) = M44.identity ∧ M44.det r = 1 ∧ M44.IsAffine r
    ∧ Matrix44Pyx.transform r v = ⟨c * v.x + s * v.z, v.y, c * v.z - s * v.x⟩ := by
  refine ⟨?_, ?_, ?_, ?_⟩
  · simp only [Matrix44Pyx.yRotate, M44.mul, M44.transpose, M44.identity, M44.mk.injEq]
    refine ⟨?_, ?_, ?_, ?_, ?_, ?_, ?_, ?_, ?_, ?_, ?_, ?_, ?_, ?_, ?_, ?_⟩ <;> linarith
  · simp only [Matrix44Pyx.yRotate, M44.det, M44.det3]; linarith
  · simp [M44.IsAffine, Matrix44Pyx.yRotate]
  · simp only [Matrix44Pyx.yRotate, Matrix44Pyx.transform, V3.mk.injEq]
    refine ⟨?_, ?_, ?_⟩ <;> ring

/-- `xyz_rotate(ax, ay, az)` is exactly `z_rotate(az) * y_rotate(ay) * x_rotate(ax)` (apply z first) -/
theorem xyz_rotate_spec (cx sx cy sy cz sz : Rat) :
    Matrix44Pyx.xyzRotate cx sx cy sy cz sz
      = M44.mul (M44.mul (Matrix44Pyx.zRotate cz sz) (Matrix44Pyx.yRotate cy sy)) (Matrix44Pyx.xRotate cx sx) := by
  simp only [Matrix44Pyx.xyzRotate, Matrix44Pyx.xRotate, Matrix44Pyx.yRotate, Matrix44Pyx.zRotate, M44.mul, M44.mk.injEq]
  refine ⟨?_, ?_, ?_, ?_, ?_, ?_, ?_, ?_, ?_, ?_, ?_, ?_, ?_, ?_, ?_, ?_⟩ <;> ring

private theorem axis_unit (ux uy uz c s : Rat) (hu : ux * ux + uy * uy + uz * uz = 1) (hcs : c * c + s * s = 1) :
    ∃ m, Matrix44Pyx.axisRotate ⟨ux, uy, uz⟩ c s 1 = .ok m ∧
      M44.mul m (M44.transpose m) = M44.identity ∧ M44.det m = 1 ∧ M44.IsAffine m ∧
      Matrix44Pyx.transform m ⟨ux, uy, uz⟩ = ⟨ux, uy, uz⟩ := by
  refine ⟨_, by simp only [Matrix44Pyx.axisRotate, if_neg (one_ne_zero)]; rfl, ?_, ?_, ?_, ?_⟩
  · simp only [M44.mul, M44.transpose, M44.identity, M44.mk.injEq]
    refine ⟨?_, ?_, ?_, ?_, ?_, ?_, ?_, ?_, ?_, ?_, ?_, ?_, ?_, ?_, ?_, ?_⟩
    · linear_combination (c^2*ux^2 - c^2 - 2*c*ux^2 + ux^2 + 1) * hu + (uy^2 + uz^2) * hcs
    · linear_combination (c^2*ux*uy - 2*c*ux*uy + ux*uy) * hu + (-ux*uy) * hcs
    · linear_combination (c^2*ux*uz - 2*c*ux*uz + ux*uz) * hu + (-ux*uz) * hcs
    · ring
    · linear_combination (c^2*ux*uy - 2*c*ux*uy + ux*uy) * hu + (-ux*uy) * hcs
    · linear_combination (c^2*uy^2 - 2*c*uy^2 + s^2 + uy^2) * hu + (1 - uy^2) * hcs
    · linear_combination (c^2*uy*uz - 2*c*uy*uz + uy*uz) * hu + (-uy*uz) * hcs
    · ring
    · linear_combination (c^2*ux*uz - 2*c*ux*uz + ux*uz) * hu + (-ux*uz) * hcs
    · linear_combination (c^2*uy*uz - 2*c*uy*uz + uy*uz) * hu + (-uy*uz) * hcs
    · linear_combination (c^2*uz^2 - 2*c*uz^2 + s^2 + uz^2) * hu + (1 - uz^2) * hcs
    · ring
    · ring
    · ring
    · ring
    · ring
  · simp only [M44.det, M44.det3]
    linear_combination (-c^3 + c^2 - c*s^2*ux^2 - c*s^2*uy^2 - c*s^2*uz^2 + s^2*ux^2 + s^2*uy^2 + s^2*uz^2 + s^2) * hu + (1) * hcs
  · simp [M44.IsAffine]
  · simp only [Matrix44Pyx.transform, V3.mk.injEq]
    refine ⟨?_, ?_, ?_⟩
    · linear_combination (-c*ux + ux) * hu
    · linear_combination (-c*uy + uy) * hu
    · linear_combination (-c*uz + uz) * hu

/-- normalising inside `axis_rotate` = calling it with the unit axis and root 1 -/
private theorem axis_rescale (axis : V3) (c s r : Rat) (hr0 : r ≠ 0) :
    Matrix44Pyx.axisRotate axis c s r
      = Matrix44Pyx.axisRotate ⟨axis.x * (1 / r), axis.y * (1 / r), axis.z * (1 / r)⟩ c s 1 := by
  simp only [Matrix44Pyx.axisRotate, if_neg hr0, if_neg (one_ne_zero)]
  congr 1
  simp only [M44.mk.injEq]
  refine ⟨?_, ?_, ?_, ?_, ?_, ?_, ?_, ?_, ?_, ?_, ?_, ?_, ?_, ?_, ?_, ?_⟩ <;> first | trivial | ring

/-- `axis_rotate(axis, θ)`: for every non-zero axis (r = |axis| enters as the value of the square root) the
    result is the Rodrigues rotation about the unit axis u = axis / r:
    v ↦ c·v + s·(u × v) + (1 − c)(u·v)·u ; it is orthogonal with determinant 1 and keeps the axis -/
theorem axis_rotate_spec (axis : V3) (c s r : Rat) (hcs : c * c + s * s = 1)
    (hr : r * r = Matrix44Pyx.axisRotate_rad1 axis c s) (hr0 : r ≠ 0) :
    ∃ m, Matrix44Pyx.axisRotate axis c s r = .ok m ∧
      M44.mul m (M44.transpose m) = M44.identity ∧ M44.det m = 1 ∧ M44.IsAffine m ∧
      Matrix44Pyx.transform m axis = axis ∧
      ∀ v : V3, Matrix44Pyx.transform m v =
        (let u := V3.smul (1 / r) axis
         V3.add (V3.add (V3.smul c v) (V3.smul s (V3.cross u v))) (V3.smul ((1 - c) * V3.dot u v) u)) := by
  obtain ⟨ax, ay, az⟩ := axis
  simp only [Matrix44Pyx.axisRotate_rad1] at hr
  have hu : ax * (1 / r) * (ax * (1 / r)) + ay * (1 / r) * (ay * (1 / r))
      + az * (1 / r) * (az * (1 / r)) = 1 := by
    field_simp; linarith
  obtain ⟨m, hm, ho, hd, ha, hf⟩ := axis_unit _ _ _ c s hu hcs
  have hrod : ∀ v : V3, Matrix44Pyx.transform m v =
      (let u := V3.smul (1 / r) ⟨ax, ay, az⟩
       V3.add (V3.add (V3.smul c v) (V3.smul s (V3.cross u v))) (V3.smul ((1 - c) * V3.dot u v) u)) := by
    intro v
    simp only [Matrix44Pyx.axisRotate, if_neg (one_ne_zero), Except.ok.injEq] at hm
    subst hm
    simp only [Matrix44Pyx.transform, V3.add, V3.smul, V3.cross, V3.dot, V3.mk.injEq]
    refine ⟨?_, ?_, ?_⟩ <;> ring
  refine ⟨m, by rw [axis_rescale _ c s r hr0, hm], ho, hd, ha, ?_, hrod⟩
  rw [hrod]
  simp only [V3.add, V3.smul, V3.cross, V3.dot, V3.mk.injEq]
  refine ⟨?_, ?_, ?_⟩
  · field_simp; linear_combination ((c - 1) * ax) * hr
  · field_simp; linear_combination ((c - 1) * ay) * hr
  · field_simp; linear_combination ((c - 1) * az) * hr

example : ∃ m, Matrix44Pyx.axisRotate ⟨0, 3, 4⟩ (3/5) (4/5) 5 = .ok m ∧ Matrix44Pyx.transform m ⟨1, 0, 0⟩ = ⟨3/5, 16/25, -12/25⟩ :=
  ⟨_, rfl, by decide +kernel⟩

theorem shear_spec (tx ty : Rat) (v : V3) :
    Matrix44Pyx.transform (Matrix44Pyx.shearXY tx ty) v = ⟨v.x + v.y * tx, v.x * ty + v.y, v.z⟩
    ∧ M44.IsAffine (Matrix44Pyx.shearXY tx ty) := by
  constructor
  · simp [Matrix44Pyx.transform, Matrix44Pyx.shearXY]
  · simp [M44.IsAffine, Matrix44Pyx.shearXY]

theorem from2d_spec (a b c d e f : Rat) (p : V2) :
    Matrix44Pyx.fast2d (Matrix44Pyx.from2d a b c d e f) [p] = [⟨p.x * a + p.y * c + e, p.x * b + p.y * d + f⟩]
    ∧ M44.IsAffine (Matrix44Pyx.from2d a b c d e f) := by
  constructor
  · simp [Matrix44Pyx.fast2d, Matrix44Pyx.from2d]
  · simp [M44.IsAffine, Matrix44Pyx.from2d]

/-! ## 6. OCS: the DXF arbitrary axis algorithm -/

/-- DXF arbitrary axis algorithm: direction of the OCS x-axis before normalisation -/
def arbitraryAxis (az : V3) : V3 :=
  if pyAbs az.x < 1 / 64 ∧ pyAbs az.y < 1 / 64 then V3.cross ⟨0, 1, 0⟩ az else V3.cross ⟨0, 0, 1⟩ az

def Orthonormal (m : M44) : Prop :=
  V3.dot m.ux m.ux = 1 ∧ V3.dot m.uy m.uy = 1 ∧ V3.dot m.uz m.uz = 1 ∧
  V3.dot m.ux m.uy = 0 ∧ V3.dot m.ux m.uz = 0 ∧ V3.dot m.uy m.uz = 0

instance (m : M44) : Decidable (Orthonormal m) := by unfold Orthonormal; infer_instance

private theorem pyAbs_sq_lt (a b : Rat) (h : pyAbs a < b) : a * a < b * b := by
  unfold pyAbs at h
  split at h <;> nlinarith

private theorem pyAbs_sq_ge (a b : Rat) (hb : 0 ≤ b) (h : ¬ pyAbs a < b) : b * b ≤ a * a := by
  unfold pyAbs at h
  split at h <;> nlinarith

private theorem sq_eq_one' (r : Rat) (h0 : 0 ≤ r) (h : r * r = 1) : r = 1 := by nlinarith

set_option hygiene false in
/-- closes the polynomial side goals of `ocs_axes` from the unit-normal relation `hu` and the value of r2² `hr2sq` -/
local macro "ocs_poly" : tactic => `(tactic| first
  | trivial
  | exact ⟨trivial, trivial, trivial⟩
  | linear_combination hr2sq
  | linear_combination -hr2sq
  | linear_combination hu
  | linear_combination (x ^ 2 + z ^ 2) * hu - hr2sq
  | linear_combination (x ^ 2 + y ^ 2) * hu - hr2sq
  | (refine ⟨?_, ?_, ?_⟩ <;> first
      | linear_combination (-x) * hr2sq | linear_combination (-y) * hr2sq | linear_combination (-z) * hr2sq
      | linear_combination (x) * hr2sq | linear_combination (y) * hr2sq | linear_combination (z) * hr2sq
      | linear_combination (z) * hu - (z) * hr2sq | linear_combination (-z) * hu + (z) * hr2sq ))

set_option hygiene false in
local macro "ocs_frame" : tactic => `(tactic|
  (refine ⟨?_, hr2pos, trivial, ?_, ?_, ?_, ⟨?_, ?_, ?_, ?_, ?_, ?_⟩, ?_⟩
   all_goals simp only [arbitraryAxis, hB, and_self, if_true, if_false, V3.cross, V3.dot, V3.smul, M44.ux, M44.uy, M44.uz, V3.mk.injEq]
   all_goals try (first | done | ring1 | (refine ⟨?_, ?_, ?_⟩ <;> ring1))
   all_goals try field_simp
   all_goals ocs_poly))

set_option hygiene false in
local macro "ocs_tac" init:ident rad1:ident rad2:ident rad3:ident : tactic => `(tactic|
  (obtain ⟨nx, ny, nz⟩ := n
   have hr1 : r1 ≠ 0 := ne_of_gt h1
   simp only [$rad1:ident] at e1
   have hu : nx * (1 / r1) * (nx * (1 / r1)) + ny * (1 / r1) * (ny * (1 / r1)) + nz * (1 / r1) * (nz * (1 / r1)) = 1 := by
     field_simp; linarith
   generalize hx : nx * (1 / r1) = x at *
   generalize hy : ny * (1 / r1) = y at *
   generalize hz : nz * (1 / r1) = z at *
   unfold $init:ident $rad2:ident $rad3:ident at *
   simp only [if_neg hr1, hx, hy, hz] at *
   split at e2
   · rename_i hC
     split at e2
     · rename_i hB
       simp only [if_pos hC, if_pos hB] at e3 ⊢
       have hr2sq : r2 * r2 = z * z + x * x := by rw [e2]; ring
       have hy2 : y * y < (1 / 64) * (1 / 64) := pyAbs_sq_lt _ _ hB.2
       have hr2pos : 0 < r2 := by
         rcases h2.lt_or_eq with h | h
         · exact h
         · rw [← h] at hr2sq; nlinarith
       have hr2 : r2 ≠ 0 := ne_of_gt hr2pos
       have hr3sq : r3 * r3 = 1 := by
         rw [e3]; field_simp; linear_combination (z * z + x * x) * hu - hr2sq
       have hr3 : r3 = 1 := sq_eq_one' r3 h3 hr3sq
       subst hr3
       simp only [if_neg hr2, one_ne_zero, if_false]
       refine ⟨true, _, rfl, ?_, ?_, ?_, ?_⟩
       · simp [M44.IsAffine]
       · rfl
       · intro h; cases h
       · intro _
         ocs_frame
     · rename_i hB
       simp only [if_pos hC, if_neg hB] at e3 ⊢
       have hr2sq : r2 * r2 = y * y + x * x := by rw [e2]; ring
       have hxy : (1 / 64) * (1 / 64) ≤ x * x ∨ (1 / 64) * (1 / 64) ≤ y * y := by
         by_cases hx1 : pyAbs x < 1 / 64
         · right
           exact pyAbs_sq_ge _ _ (by norm_num) (fun hy1 => hB ⟨hx1, hy1⟩)
         · left
           exact pyAbs_sq_ge _ _ (by norm_num) hx1
       have hr2pos : 0 < r2 := by
         rcases h2.lt_or_eq with h | h
         · exact h
         · rw [← h] at hr2sq; rcases hxy with h' | h' <;> nlinarith [mul_self_nonneg x, mul_self_nonneg y]
       have hr2 : r2 ≠ 0 := ne_of_gt hr2pos
       have hr3sq : r3 * r3 = 1 := by
         rw [e3]; field_simp; linear_combination (y * y + x * x) * hu - hr2sq
       have hr3 : r3 = 1 := sq_eq_one' r3 h3 hr3sq
       subst hr3
       simp only [if_neg hr2, one_ne_zero, if_false]
       refine ⟨true, _, rfl, ?_, ?_, ?_, ?_⟩
       · simp [M44.IsAffine]
       · rfl
       · intro h; cases h
       · intro _
         ocs_frame
   · rename_i hC
     simp only [if_neg hC]
     refine ⟨false, _, rfl, ?_, rfl, fun _ => rfl, fun h => by cases h⟩
     simp [M44.IsAffine]))

/-- OCS construction (`OCS.__init__`, Cython-linked): for EVERY non-zero extrusion vector n, with r1 = |n|,
    r2, r3 the values of the two further square roots the code takes, the constructor never raises and, when it
    decides to transform, builds exactly the frame of the DXF arbitrary-axis algorithm: Az = n/|n|,
    Ax = (Wy × Az or Wz × Az, chosen by |Az.x| < 1/64 ∧ |Az.y| < 1/64) normalised, Ay = Az × Ax (whose
    normalisation factor r3 is provably 1), the frame is orthonormal and right-handed. -/
theorem ocs_axes (n : V3) (r1 r2 r3 : Rat)
    (h1 : 0 < r1) (e1 : r1 * r1 = UcsPyx.ocsInit_rad1 n)
    (h2 : 0 ≤ r2) (e2 : r2 * r2 = UcsPyx.ocsInit_rad2 n r1)
    (h3 : 0 ≤ r3) (e3 : r3 * r3 = UcsPyx.ocsInit_rad3 n r1 r2) :
    ∃ t m, UcsPyx.ocsInit n r1 r2 r3 = .ok (t, m) ∧ M44.IsAffine m ∧ m.origin = ⟨0, 0, 0⟩ ∧
      (t = false → m = M44.identity) ∧
      (t = true →
        let az : V3 := ⟨n.x * (1 / r1), n.y * (1 / r1), n.z * (1 / r1)⟩
        r2 * r2 = V3.dot (arbitraryAxis az) (arbitraryAxis az) ∧ 0 < r2 ∧ r3 = 1 ∧
        m.uz = az ∧ m.ux = V3.smul (1 / r2) (arbitraryAxis az) ∧ m.uy = V3.cross m.uz m.ux ∧
        Orthonormal m ∧ V3.cross m.ux m.uy = m.uz) := by
  ocs_tac UcsPyx.ocsInit UcsPyx.ocsInit_rad1 UcsPyx.ocsInit_rad2 UcsPyx.ocsInit_rad3

/-- the same for `ucs.py` linked against the pure-Python Vec3/Matrix44 -/
theorem ocs_axes_py (n : V3) (r1 r2 r3 : Rat)
    (h1 : 0 < r1) (e1 : r1 * r1 = UcsPy.ocsInit_rad1 n)
    (h2 : 0 ≤ r2) (e2 : r2 * r2 = UcsPy.ocsInit_rad2 n r1)
    (h3 : 0 ≤ r3) (e3 : r3 * r3 = UcsPy.ocsInit_rad3 n r1 r2) :
    ∃ t m, UcsPy.ocsInit n r1 r2 r3 = .ok (t, m) ∧ M44.IsAffine m ∧ m.origin = ⟨0, 0, 0⟩ ∧
      (t = false → m = M44.identity) ∧
      (t = true →
        let az : V3 := ⟨n.x * (1 / r1), n.y * (1 / r1), n.z * (1 / r1)⟩
        r2 * r2 = V3.dot (arbitraryAxis az) (arbitraryAxis az) ∧ 0 < r2 ∧ r3 = 1 ∧
        m.uz = az ∧ m.ux = V3.smul (1 / r2) (arbitraryAxis az) ∧ m.uy = V3.cross m.uz m.ux ∧
        Orthonormal m ∧ V3.cross m.ux m.uy = m.uz) := by
  ocs_tac UcsPy.ocsInit UcsPy.ocsInit_rad1 UcsPy.ocsInit_rad2 UcsPy.ocsInit_rad3

/-! ## 7. UCS matrices, UCS <-> WCS and OCS <-> WCS round trips -/

/-- `Matrix44.ucs(ux, uy, uz, origin)` maps UCS coordinates to WCS: p ↦ origin + p.x·ux + p.y·uy + p.z·uz -/
theorem ucs_spec (ux uy uz o p : V3) :
    Matrix44Pyx.transform (Matrix44Pyx.ucs ux uy uz o) p
      = V3.add o (V3.add (V3.add (V3.smul p.x ux) (V3.smul p.y uy)) (V3.smul p.z uz))
    ∧ M44.IsAffine (Matrix44Pyx.ucs ux uy uz o)
    ∧ (Matrix44Pyx.ucs ux uy uz o).ux = ux ∧ (Matrix44Pyx.ucs ux uy uz o).uy = uy
    ∧ (Matrix44Pyx.ucs ux uy uz o).uz = uz ∧ (Matrix44Pyx.ucs ux uy uz o).origin = o := by
  refine ⟨?_, by simp [M44.IsAffine, Matrix44Pyx.ucs], rfl, rfl, rfl, rfl⟩
  simp only [Matrix44Pyx.transform, Matrix44Pyx.ucs, V3.add, V3.smul, V3.mk.injEq]
  refine ⟨?_, ?_, ?_⟩ <;> ring

/-- rows orthonormal ⇒ columns orthonormal; no determinant trick is spelled out: the matrix of the three axis rows
    has the transposed matrix as right inverse, and right inverses are two-sided (`inverse_unique`) -/
private theorem orthonormal_cols (m : M44) (h : Orthonormal m) :
    m.m0 * m.m0 + m.m4 * m.m4 + m.m8 * m.m8 = 1 ∧ m.m1 * m.m1 + m.m5 * m.m5 + m.m9 * m.m9 = 1 ∧
    m.m2 * m.m2 + m.m6 * m.m6 + m.m10 * m.m10 = 1 ∧ m.m0 * m.m1 + m.m4 * m.m5 + m.m8 * m.m9 = 0 ∧
    m.m0 * m.m2 + m.m4 * m.m6 + m.m8 * m.m10 = 0 ∧ m.m1 * m.m2 + m.m5 * m.m6 + m.m9 * m.m10 = 0 := by
  obtain ⟨hxx, hyy, hzz, hxy, hxz, hyz⟩ := h
  simp only [V3.dot, M44.ux, M44.uy, M44.uz] at hxx hyy hzz hxy hxz hyz
  let R : M44 := ⟨m.m0, m.m1, m.m2, 0, m.m4, m.m5, m.m6, 0, m.m8, m.m9, m.m10, 0, 0, 0, 0, 1⟩
  have hR : M44.mul R (M44.transpose R) = M44.identity := by
    simp only [R, M44.mul, M44.transpose, M44.identity, M44.mk.injEq]
    refine ⟨?_, ?_, ?_, ?_, ?_, ?_, ?_, ?_, ?_, ?_, ?_, ?_, ?_, ?_, ?_, ?_⟩ <;> linarith
  have hdet : Matrix44Pyx.determinant R ≠ 0 := by
    intro h0
    have := det_mul R (M44.transpose R)
    rw [hR, det_identity, ← determinant_is_textbook R, h0] at this
    simp at this
  obtain ⟨i, hi, _, hl⟩ := inverse_two_sided R hdet
  have : M44.transpose R = i := inverse_unique R i _ hi hR
  rw [← this] at hl
  simp only [R, M44.mul, M44.transpose, M44.identity, M44.mk.injEq] at hl
  obtain ⟨c00, c01, c02, _, _, c11, c12, _, _, _, c22, _⟩ := hl
  refine ⟨?_, ?_, ?_, ?_, ?_, ?_⟩ <;> linarith

/-- for a matrix with orthonormal axis rows (any origin) `ucs_vertex_from_wcs` and `transform` are mutually
    inverse, and so are the direction variants: UCS.from_wcs ∘ UCS.to_wcs = id = UCS.to_wcs ∘ UCS.from_wcs -/
theorem ucs_roundtrip (m : M44) (h : Orthonormal m) (p : V3) :
    Matrix44Pyx.ucsVertexFromWcs m (Matrix44Pyx.transform m p) = p
    ∧ Matrix44Pyx.transform m (Matrix44Pyx.ucsVertexFromWcs m p) = p
    ∧ Matrix44Pyx.ucsDirectionFromWcs m (Matrix44Pyx.transformDirection m p) = p
    ∧ Matrix44Pyx.transformDirection m (Matrix44Pyx.ucsDirectionFromWcs m p) = p := by
  obtain ⟨c00, c11, c22, c01, c02, c12⟩ := orthonormal_cols m h
  obtain ⟨hxx, hyy, hzz, hxy, hxz, hyz⟩ := h
  simp only [V3.dot, M44.ux, M44.uy, M44.uz] at hxx hyy hzz hxy hxz hyz
  obtain ⟨px, py, pz⟩ := p
  simp only [Matrix44Pyx.ucsVertexFromWcs, Matrix44Pyx.transform, Matrix44Pyx.ucsDirectionFromWcs,
    Matrix44Pyx.transformDirection, V3.mk.injEq]
  refine ⟨⟨?_, ?_, ?_⟩, ⟨?_, ?_, ?_⟩, ⟨?_, ?_, ?_⟩, ⟨?_, ?_, ?_⟩⟩
  · linear_combination px * hxx + py * hxy + pz * hxz
  · linear_combination px * hxy + py * hyy + pz * hyz
  · linear_combination px * hxz + py * hyz + pz * hzz
  · linear_combination (px - m.m12) * c00 + (py - m.m13) * c01 + (pz - m.m14) * c02
  · linear_combination (px - m.m12) * c01 + (py - m.m13) * c11 + (pz - m.m14) * c12
  · linear_combination (px - m.m12) * c02 + (py - m.m13) * c12 + (pz - m.m14) * c22
  · linear_combination px * hxx + py * hxy + pz * hxz
  · linear_combination px * hxy + py * hyy + pz * hyz
  · linear_combination px * hxz + py * hyz + pz * hzz
  · linear_combination px * c00 + py * c01 + pz * c02
  · linear_combination px * c01 + py * c11 + pz * c12
  · linear_combination px * c02 + py * c12 + pz * c22

/-- the UCS class methods are these matrix kernels (both linkings of ucs.py) -/
theorem ucs_methods (m : M44) (p : V3) (ps : List V3) :
    UcsPyx.ucsToWcs m p = Matrix44Pyx.transform m p ∧ UcsPyx.ucsFromWcs m p = Matrix44Pyx.ucsVertexFromWcs m p
    ∧ UcsPyx.ucsDirectionToWcs m p = Matrix44Pyx.transformDirection m p
    ∧ UcsPyx.ucsDirectionFromWcs m p = Matrix44Pyx.ucsDirectionFromWcs m p
    ∧ UcsPyx.ucsPointsToWcs m ps = ps.map (Matrix44Pyx.transform m)
    ∧ UcsPy.ucsToWcs m p = Matrix44Pyx.transform m p ∧ UcsPy.ucsFromWcs m p = Matrix44Pyx.ucsVertexFromWcs m p
    ∧ UcsPy.ucsDirectionToWcs m p = Matrix44Pyx.transformDirection m p
    ∧ UcsPy.ucsDirectionFromWcs m p = Matrix44Pyx.ucsDirectionFromWcs m p
    ∧ UcsPy.ucsPointsToWcs m ps = ps.map (Matrix44Pyx.transform m) :=
  ⟨rfl, rfl, rfl, rfl, rfl, rfl, rfl, rfl, rfl, rfl⟩

/-- OCS.to_wcs and OCS.from_wcs are mutually inverse for every OCS whose matrix has orthonormal axes
    (the identity pass-through case `transform = false` included) -/
theorem ocs_roundtrip (t : Bool) (m : M44) (h : Orthonormal m) (p : V3) :
    UcsPyx.ocsToWcs t m (UcsPyx.ocsFromWcs t m p) = p ∧ UcsPyx.ocsFromWcs t m (UcsPyx.ocsToWcs t m p) = p
    ∧ UcsPy.ocsToWcs t m (UcsPy.ocsFromWcs t m p) = p ∧ UcsPy.ocsFromWcs t m (UcsPy.ocsToWcs t m p) = p := by
  obtain ⟨_, _, h3, h4⟩ := ucs_roundtrip m h p
  simp only [Matrix44Pyx.ucsDirectionFromWcs, Matrix44Pyx.transformDirection] at h3 h4
  cases t
  · simp [UcsPyx.ocsToWcs, UcsPyx.ocsFromWcs, UcsPy.ocsToWcs, UcsPy.ocsFromWcs]
  · simp only [UcsPyx.ocsToWcs, UcsPyx.ocsFromWcs, UcsPy.ocsToWcs, UcsPy.ocsFromWcs, if_true]
    exact ⟨h4, h3, h4, h3⟩

/-- consequently: for EVERY non-zero extrusion the constructed OCS converts back and forth without loss -/
theorem ocs_roundtrip_all (n : V3) (r1 r2 r3 : Rat) (p : V3)
    (h1 : 0 < r1) (e1 : r1 * r1 = UcsPyx.ocsInit_rad1 n)
    (h2 : 0 ≤ r2) (e2 : r2 * r2 = UcsPyx.ocsInit_rad2 n r1)
    (h3 : 0 ≤ r3) (e3 : r3 * r3 = UcsPyx.ocsInit_rad3 n r1 r2) :
    ∃ t m, UcsPyx.ocsInit n r1 r2 r3 = .ok (t, m) ∧
      UcsPyx.ocsToWcs t m (UcsPyx.ocsFromWcs t m p) = p ∧ UcsPyx.ocsFromWcs t m (UcsPyx.ocsToWcs t m p) = p := by
  obtain ⟨t, m, hm, _, _, hf, ht⟩ := ocs_axes n r1 r2 r3 h1 e1 h2 e2 h3 e3
  refine ⟨t, m, hm, ?_⟩
  have ho : Orthonormal m := by
    cases t
    · rw [hf rfl]; decide +kernel
    · exact (ht rfl).2.2.2.2.2.2.1
  obtain ⟨a, b, _, _⟩ := ocs_roundtrip t m ho p
  exact ⟨a, b⟩

/-- the axis properties of the OCS object -/
theorem ocs_axis_props (t : Bool) (m : M44) :
    UcsPyx.ocsUx t m = (if t then m.ux else ⟨1, 0, 0⟩) ∧ UcsPyx.ocsUy t m = (if t then m.uy else ⟨0, 1, 0⟩)
    ∧ UcsPyx.ocsUz t m = (if t then m.uz else ⟨0, 0, 1⟩) := by
  cases t <;> exact ⟨rfl, rfl, rfl⟩

-- non-vacuity: extrusion (0,0,-1) (mirrored entity), the classic branch-1 case, and (3,4,12)/13 in branch 2
example : UcsPyx.ocsInit ⟨0, 0, -1⟩ 1 1 1 = .ok (true, ⟨-1, 0, 0, 0, 0, 1, 0, 0, 0, 0, -1, 0, 0, 0, 0, 1⟩) := by decide +kernel
example : UcsPyx.ocsInit ⟨3, 4, 12⟩ 13 (5/13) 1
    = .ok (true, ⟨-4/5, 3/5, 0, 0, -36/65, -48/65, 5/13, 0, 3/13, 4/13, 12/13, 0, 0, 0, 0, 1⟩) := by decide +kernel
example : UcsPyx.ocsInit_rad2 ⟨3, 4, 12⟩ 13 = (5/13) * (5/13) ∧ UcsPyx.ocsInit_rad3 ⟨3, 4, 12⟩ 13 (5/13) = 1 := by decide +kernel
example : UcsPyx.ocsInit ⟨0, 0, 2⟩ 2 0 0 = .ok (false, M44.identity) := by decide +kernel
example : UcsPyx.ocsInit ⟨0, 0, 0⟩ 0 0 0 = .error .zeroDivision := by decide +kernel

/-- `UCS(origin, ux, uy)` (z-axis missing): rows are ux/|ux|, uy/|uy|, (ux × uy)/|ux × uy|; if the two given axes
    are perpendicular the frame is orthonormal and right-handed, the third root being |ux|·|uy| -/
theorem ucs_init_xy (o ux uy : V3) (r1 r2 r3 : Rat)
    (h1 : 0 < r1) (e1 : r1 * r1 = UcsPyx.ucsInitXY_rad1 o ux uy)
    (h2 : 0 < r2) (e2 : r2 * r2 = UcsPyx.ucsInitXY_rad2 o ux uy r1)
    (h3 : 0 < r3) (e3 : r3 * r3 = UcsPyx.ucsInitXY_rad3 o ux uy r1 r2) :
    ∃ m, UcsPyx.ucsInitXY o ux uy r1 r2 r3 = .ok m ∧ UcsPy.ucsInitXY o ux uy r1 r2 r3 = .ok m ∧
      m.origin = o ∧ M44.IsAffine m ∧
      m.ux = V3.smul (1 / r1) ux ∧ m.uy = V3.smul (1 / r2) uy ∧ m.uz = V3.smul (1 / r3) (V3.cross ux uy) ∧
      (V3.dot ux uy = 0 → r3 = r1 * r2 ∧ Orthonormal m ∧ V3.cross m.ux m.uy = m.uz) := by
  obtain ⟨ax, ay, az⟩ := ux
  obtain ⟨bx, b_y, bz⟩ := uy
  simp only [UcsPyx.ucsInitXY_rad1, UcsPyx.ucsInitXY_rad2, UcsPyx.ucsInitXY_rad3] at e1 e2 e3
  have n1 : r1 ≠ 0 := ne_of_gt h1
  have n2 : r2 ≠ 0 := ne_of_gt h2
  have n3 : r3 ≠ 0 := ne_of_gt h3
  refine ⟨_, by simp only [UcsPyx.ucsInitXY, if_neg n1, if_neg n2, if_neg n3]; rfl,
    by simp only [UcsPy.ucsInitXY, if_neg n1, if_neg n2, if_neg n3], ?_, by simp [M44.IsAffine], ?_, ?_, ?_, ?_⟩
  · cases o; rfl
  · simp only [M44.ux, V3.smul, V3.mk.injEq]; refine ⟨?_, ?_, ?_⟩ <;> ring
  · simp only [M44.uy, V3.smul, V3.mk.injEq]; refine ⟨?_, ?_, ?_⟩ <;> ring
  · simp only [M44.uz, V3.smul, V3.cross, V3.mk.injEq]; refine ⟨?_, ?_, ?_⟩ <;> ring
  · intro hd
    simp only [V3.dot] at hd
    have hl : r3 * r3 = (r1 * r2) * (r1 * r2) := by
      rw [e3]
      linear_combination (exp := 1) (-(bx * bx + b_y * b_y + bz * bz)) * e1 - (r1 * r1) * e2
        - (ax * bx + ay * b_y + az * bz) * hd
    have h12 : 0 < r1 * r2 := mul_pos h1 h2
    have hr3 : r3 = r1 * r2 := by nlinarith
    subst hr3
    refine ⟨rfl, ⟨?_, ?_, ?_, ?_, ?_, ?_⟩, ?_⟩
    all_goals simp only [M44.ux, M44.uy, M44.uz, V3.dot, V3.cross, V3.mk.injEq]
    · field_simp; linear_combination -e1
    · field_simp; linear_combination -e2
    · field_simp; linear_combination -e3
    · field_simp; linear_combination hd
    · field_simp; ring
    · field_simp; ring
    · refine ⟨?_, ?_, ?_⟩ <;> (field_simp)

example : UcsPyx.ucsInitXY ⟨1, 2, 3⟩ ⟨3, 4, 0⟩ ⟨-8, 6, 0⟩ 5 10 50
    = .ok ⟨3/5, 4/5, 0, 0, -4/5, 3/5, 0, 0, 0, 0, 1, 0, 1, 2, 3, 1⟩ := by decide +kernel


/-- the other `UCS.__init__` variants: every given axis is divided by its own length, a missing axis is the
    normalised cross product of the other two in right-handed order (uy = uz × ux, ux = uy × uz) -/
theorem ucs_init_rows (o a b c : V3) (r1 r2 r3 : Rat) (n1 : r1 ≠ 0) (n2 : r2 ≠ 0) (n3 : r3 ≠ 0) :
    (∃ m, UcsPyx.ucsInitXYZ o a b c r1 r2 r3 = .ok m ∧ UcsPy.ucsInitXYZ o a b c r1 r2 r3 = .ok m ∧ m.origin = o ∧
        m.ux = V3.smul (1 / r1) a ∧ m.uy = V3.smul (1 / r2) b ∧ m.uz = V3.smul (1 / r3) c)
    ∧ (∃ m, UcsPyx.ucsInitXZ o a c r1 r2 r3 = .ok m ∧ UcsPy.ucsInitXZ o a c r1 r2 r3 = .ok m ∧ m.origin = o ∧
        m.ux = V3.smul (1 / r1) a ∧ m.uz = V3.smul (1 / r2) c ∧ m.uy = V3.smul (1 / r3) (V3.cross c a))
    ∧ (∃ m, UcsPyx.ucsInitYZ o b c r1 r2 r3 = .ok m ∧ UcsPy.ucsInitYZ o b c r1 r2 r3 = .ok m ∧ m.origin = o ∧
        m.uy = V3.smul (1 / r1) b ∧ m.uz = V3.smul (1 / r2) c ∧ m.ux = V3.smul (1 / r3) (V3.cross b c)) := by
  obtain ⟨ox, oy, oz⟩ := o
  refine ⟨⟨_, by simp only [UcsPyx.ucsInitXYZ, if_neg n1, if_neg n2, if_neg n3]; rfl,
      by simp only [UcsPy.ucsInitXYZ, if_neg n1, if_neg n2, if_neg n3], rfl, ?_, ?_, ?_⟩,
    ⟨_, by simp only [UcsPyx.ucsInitXZ, if_neg n1, if_neg n2, if_neg n3]; rfl,
      by simp only [UcsPy.ucsInitXZ, if_neg n1, if_neg n2, if_neg n3], rfl, ?_, ?_, ?_⟩,
    ⟨_, by simp only [UcsPyx.ucsInitYZ, if_neg n1, if_neg n2, if_neg n3]; rfl,
      by simp only [UcsPy.ucsInitYZ, if_neg n1, if_neg n2, if_neg n3], rfl, ?_, ?_, ?_⟩⟩ <;>
  · simp only [M44.ux, M44.uy, M44.uz, V3.smul, V3.cross, V3.mk.injEq]
    refine ⟨?_, ?_, ?_⟩ <;> ring

/-! ## 8. Vector identities (both twins) -/

/-- the arithmetic kernels of both twins are the textbook operations -/
theorem vector_ops_textbook (a b : V3) (k : Rat) :
    VectorPyx.v3add a b = V3.add a b ∧ VectorPy.v3add a b = V3.add a b
    ∧ VectorPyx.v3sub a b = V3.sub a b ∧ VectorPy.v3sub a b = V3.sub a b
    ∧ VectorPyx.v3rsub a b = V3.sub b a ∧ VectorPy.v3rsub a b = V3.sub b a
    ∧ VectorPyx.v3dot a b = V3.dot a b ∧ VectorPy.v3dot a b = V3.dot a b
    ∧ VectorPyx.v3cross a b = V3.cross a b ∧ VectorPy.v3cross a b = V3.cross a b
    ∧ VectorPyx.v3mul a k = V3.smul k a ∧ VectorPy.v3mul a k = V3.smul k a
    ∧ VectorPyx.v3neg a = V3.smul (-1) a ∧ VectorPy.v3neg a = V3.smul (-1) a
    ∧ VectorPyx.v3magsq a = V3.dot a a ∧ VectorPy.v3magsq a = V3.dot a a := by
  refine ⟨rfl, rfl, rfl, rfl, rfl, rfl, rfl, rfl, rfl, rfl, ?_, ?_, ?_, ?_, rfl, rfl⟩ <;>
  · simp only [VectorPyx.v3mul, VectorPy.v3mul, VectorPyx.v3neg, VectorPy.v3neg, V3.smul, V3.mk.injEq]
    refine ⟨?_, ?_, ?_⟩ <;> ring

theorem dot_symm_bilinear (a b c : V3) (k : Rat) :
    VectorPyx.v3dot a b = VectorPyx.v3dot b a
    ∧ VectorPyx.v3dot (VectorPyx.v3add a b) c = VectorPyx.v3dot a c + VectorPyx.v3dot b c
    ∧ VectorPyx.v3dot (VectorPyx.v3mul a k) b = k * VectorPyx.v3dot a b
    ∧ 0 ≤ VectorPyx.v3dot a a ∧ (VectorPyx.v3dot a a = 0 → a = ⟨0, 0, 0⟩) := by
  simp only [VectorPyx.v3dot, VectorPyx.v3add, VectorPyx.v3mul]
  refine ⟨by ring, by ring, by ring, by nlinarith [mul_self_nonneg a.x, mul_self_nonneg a.y, mul_self_nonneg a.z], ?_⟩
  intro h
  obtain ⟨x, y, z⟩ := a
  simp only at h
  have hx : x = 0 := by nlinarith [mul_self_nonneg x, mul_self_nonneg y, mul_self_nonneg z]
  have hy : y = 0 := by nlinarith [mul_self_nonneg x, mul_self_nonneg y, mul_self_nonneg z]
  have hz : z = 0 := by nlinarith [mul_self_nonneg x, mul_self_nonneg y, mul_self_nonneg z]
  simp [hx, hy, hz]

/-- a × b is perpendicular to a and b, anti-commutative, and |a × b|² = |a|²|b|² − (a·b)² (Lagrange) -/
theorem cross_laws (a b : V3) :
    VectorPyx.v3dot (VectorPyx.v3cross a b) a = 0 ∧ VectorPyx.v3dot (VectorPyx.v3cross a b) b = 0
    ∧ VectorPyx.v3cross a b = VectorPyx.v3neg (VectorPyx.v3cross b a)
    ∧ VectorPyx.v3magsq (VectorPyx.v3cross a b)
        = VectorPyx.v3magsq a * VectorPyx.v3magsq b - VectorPyx.v3dot a b * VectorPyx.v3dot a b := by
  simp only [VectorPyx.v3dot, VectorPyx.v3cross, VectorPyx.v3neg, VectorPyx.v3magsq, V3.mk.injEq]
  refine ⟨by ring, by ring, ⟨by ring, by ring, by ring⟩, by ring⟩

/-- a × (b × c) = b (a·c) − c (a·b)  and the scalar triple product is cyclic -/
theorem cross_triple (a b c : V3) :
    VectorPyx.v3cross a (VectorPyx.v3cross b c)
      = VectorPyx.v3sub (VectorPyx.v3mul b (VectorPyx.v3dot a c)) (VectorPyx.v3mul c (VectorPyx.v3dot a b))
    ∧ VectorPyx.v3dot a (VectorPyx.v3cross b c) = VectorPyx.v3dot b (VectorPyx.v3cross c a) := by
  simp only [VectorPyx.v3dot, VectorPyx.v3cross, VectorPyx.v3sub, VectorPyx.v3mul, V3.mk.injEq]
  refine ⟨⟨by ring, by ring, by ring⟩, by ring⟩

theorem lerp_laws (a b : V3) (t : Rat) (p q : V2) :
    VectorPyx.v3lerp a b 0 = a ∧ VectorPyx.v3lerp a b 1 = b
    ∧ VectorPyx.v3lerp a b t = VectorPyx.v3add (VectorPyx.v3mul a (1 - t)) (VectorPyx.v3mul b t)
    ∧ VectorPyx.v3lerp a b t = VectorPyx.v3lerp b a (1 - t)
    ∧ VectorPy.v3lerp a b t = VectorPyx.v3lerp a b t
    ∧ VectorPyx.v2lerp p q 0 = p ∧ VectorPyx.v2lerp p q 1 = q ∧ VectorPy.v2lerp p q t = VectorPyx.v2lerp p q t := by
  obtain ⟨ax, ay, az⟩ := a
  obtain ⟨bx, b_y, bz⟩ := b
  obtain ⟨px, py⟩ := p
  obtain ⟨qx, qy⟩ := q
  refine ⟨?_, ?_, ?_, ?_, ?_, ?_, ?_, ?_⟩ <;>
    simp only [VectorPyx.v3lerp, VectorPy.v3lerp, VectorPyx.v3add, VectorPyx.v3mul, VectorPyx.v2lerp, VectorPy.v2lerp,
      V3.mk.injEq, V2.mk.injEq] <;>
    first | trivial | (refine ⟨?_, ?_, ?_⟩ <;> ring) | (refine ⟨?_, ?_⟩ <;> ring)

theorem v2_laws (a b : V2) (k : Rat) (ccw : Bool) :
    VectorPyx.v2det a b = -VectorPyx.v2det b a ∧ VectorPyx.v2dot a b = VectorPyx.v2dot b a
    ∧ VectorPyx.v2dot (VectorPyx.v2ortho a ccw) a = 0
    ∧ VectorPyx.v2det a (VectorPyx.v2ortho a true) = VectorPyx.v2dot a a
    ∧ VectorPyx.v2det a (VectorPyx.v2ortho a false) = -VectorPyx.v2dot a a
    ∧ VectorPyx.v2det a b * VectorPyx.v2det a b + VectorPyx.v2dot a b * VectorPyx.v2dot a b
        = VectorPyx.v2dot a a * VectorPyx.v2dot b b := by
  cases ccw <;>
  · simp only [VectorPyx.v2det, VectorPyx.v2dot, VectorPyx.v2ortho, if_true, Bool.false_eq_true, if_false]
    refine ⟨by ring, by ring, by ring, by ring, by ring, by ring⟩

/-- `orthogonal()` turns by a quarter turn in the xy-plane and keeps z (3-D) -/
theorem ortho_laws (a : V3) :
    VectorPyx.v3ortho a true = ⟨-a.y, a.x, a.z⟩ ∧ VectorPyx.v3ortho a false = ⟨a.y, -a.x, a.z⟩
    ∧ VectorPyx.v3ortho (VectorPyx.v3ortho a true) false = a := by
  cases a; simp [VectorPyx.v3ortho]

/-- `normalize()`: with r = |a| ≠ 0 the result is a/r, has length 1 and is parallel to a; the null vector raises -/
theorem normalize_spec (a : V3) (r : Rat) (hr : r * r = VectorPyx.v3normalize_rad1 a) :
    (r = 0 → VectorPyx.v3normalize a r = .error .zeroDivision) ∧
    (r ≠ 0 → ∃ u, VectorPyx.v3normalize a r = .ok u ∧ VectorPy.v3normalize a r = .ok u ∧ u = V3.smul (1 / r) a
        ∧ VectorPyx.v3dot u u = 1 ∧ VectorPyx.v3cross u a = ⟨0, 0, 0⟩) := by
  simp only [VectorPyx.v3normalize_rad1] at hr
  constructor
  · intro h; simp [VectorPyx.v3normalize, h]
  · intro h
    refine ⟨_, by simp only [VectorPyx.v3normalize, if_neg h]; rfl, by simp only [VectorPy.v3normalize, if_neg h], ?_, ?_, ?_⟩
    · simp only [V3.smul, V3.mk.injEq]; refine ⟨?_, ?_, ?_⟩ <;> ring
    · simp only [VectorPyx.v3dot]; field_simp; linarith
    · simp only [VectorPyx.v3cross, V3.mk.injEq]; refine ⟨?_, ?_, ?_⟩ <;> ring

/-- `project()`: the projection of b onto a ≠ 0 is (a·b / a·a) a -/
theorem project_spec (a b : V3) (r : Rat) (hr : r * r = VectorPyx.v3project_rad1 a b) (h0 : r ≠ 0) :
    ∃ p, VectorPyx.v3project a b r = .ok p ∧ VectorPy.v3project a b r = .ok p
      ∧ p = V3.smul (V3.dot a b / V3.dot a a) a ∧ V3.dot (V3.sub b p) a = 0 := by
  simp only [VectorPyx.v3project_rad1] at hr
  have haa : a.x * a.x + a.y * a.y + a.z * a.z ≠ 0 := by
    rw [← hr]; exact mul_ne_zero h0 h0
  refine ⟨_, by simp only [VectorPyx.v3project, if_neg h0]; rfl, by simp only [VectorPy.v3project, if_neg h0], ?_, ?_⟩
  · simp only [V3.smul, V3.dot, V3.mk.injEq]
    refine ⟨?_, ?_, ?_⟩ <;> (rw [← hr]; field_simp)
  · simp only [V3.sub, V3.dot]; field_simp; linear_combination (a.x * b.x + a.y * b.y + a.z * b.z) * hr

theorem sum_spec (vs : List V3) (ps : List V2) :
    VectorPyx.v3sum vs = vs.foldl V3.add ⟨0, 0, 0⟩ ∧ VectorPy.v3sum vs = vs.foldl V3.add ⟨0, 0, 0⟩
    ∧ VectorPyx.v2sum ps = VectorPy.v2sum ps := ⟨rfl, rfl, rfl⟩

/-! ## 9. Equality, ordering, hashing -/

/-- `==` is component equality in both twins, hence an equivalence relation; `hash(v) = hash(v.xyz)` is a
    function of the components, so equal vectors have equal hashes (for any hash function on triples) -/
theorem eq_spec (a b : V3) (p q : V2) {H : Type} (hash : Rat × Rat × Rat → H) :
    (VectorPyx.v3eq a b = true ↔ a = b) ∧ (VectorPy.v3eq a b = true ↔ a = b)
    ∧ (VectorPyx.v2eq p q = true ↔ p = q) ∧ (VectorPy.v2eq p q = true ↔ p = q)
    ∧ (VectorPyx.v3eq a b = true → hash (a.x, a.y, a.z) = hash (b.x, b.y, b.z)) := by
  obtain ⟨ax, ay, az⟩ := a
  obtain ⟨bx, b_y, bz⟩ := b
  obtain ⟨px, py⟩ := p
  obtain ⟨qx, qy⟩ := q
  refine ⟨?_, ?_, ?_, ?_, ?_⟩ <;>
    simp only [VectorPyx.v3eq, VectorPy.v3eq, VectorPyx.v2eq, VectorPy.v2eq, Bool.and_eq_true, decide_eq_true_eq,
      V3.mk.injEq, V2.mk.injEq, and_assoc]
  rintro ⟨rfl, rfl, rfl⟩; rfl

/-- the pure-Python `Vec3.__lt__` is the lexicographic order on (x, y, z): a strict total order consistent with `==` -/
theorem py_v3lt_strict_total (a b c : V3) :
    VectorPy.v3lt a a = false
    ∧ (VectorPy.v3lt a b = true → VectorPy.v3lt b c = true → VectorPy.v3lt a c = true)
    ∧ (VectorPy.v3lt a b = true ∨ a = b ∨ VectorPy.v3lt b a = true)
    ∧ (VectorPy.v3lt a b = true → VectorPy.v3lt b a = false) := by
  obtain ⟨ax, ay, az⟩ := a
  obtain ⟨bx, b_y, bz⟩ := b
  obtain ⟨cx, cy, cz⟩ := c
  simp only [VectorPy.v3lt, V3.mk.injEq]
  refine ⟨by simp, ?_, ?_, ?_⟩
  · intro h1 h2
    split_ifs at h1 h2 ⊢ <;> simp only [decide_eq_true_eq] at h1 h2 ⊢ <;> (try subst_vars) <;>
      first | exact lt_trans h1 h2 | exact h1 | exact h2 | (exfalso; linarith) | (exfalso; simp_all) | linarith
  · rcases lt_trichotomy ax bx with h | h | h
    · left; simp [ne_of_lt h, h]
    · subst h
      rcases lt_trichotomy ay b_y with h | h | h
      · left; simp [ne_of_lt h, h]
      · subst h
        rcases lt_trichotomy az bz with h | h | h
        · left; simp [h]
        · right; left; simp [h]
        · right; right; simp [h]
      · right; right; simp [ne_of_gt h, ne_of_lt h, h]
    · right; right; simp [ne_of_gt h, ne_of_lt h, h]
  · intro h1
    split_ifs at h1 ⊢ <;> simp only [decide_eq_true_eq, decide_eq_false_iff_not, not_lt] at h1 ⊢ <;>
      first | exact le_of_lt h1 | (exfalso; simp_all) | linarith

/-- the Cython `Vec3.__lt__` is the very same function as the Python twin, hence the same strict total
    lexicographic order consistent with `==`.  (Before the fix fc235f1a9 it never compared z and
    Vec3(1,2,3) < Vec3(1,2,4) was False.) -/
theorem pyx_v3lt_strict_total (a b c : V3) :
    VectorPyx.v3lt = VectorPy.v3lt
    ∧ VectorPyx.v3lt a a = false
    ∧ (VectorPyx.v3lt a b = true → VectorPyx.v3lt b c = true → VectorPyx.v3lt a c = true)
    ∧ (VectorPyx.v3lt a b = true ∨ a = b ∨ VectorPyx.v3lt b a = true)
    ∧ (VectorPyx.v3lt a b = true → VectorPyx.v3lt b a = false) := by
  have h : VectorPyx.v3lt = VectorPy.v3lt := rfl
  rw [h]
  exact ⟨rfl, py_v3lt_strict_total a b c⟩

example : VectorPyx.v3lt ⟨1, 2, 3⟩ ⟨1, 2, 4⟩ = true ∧ VectorPyx.v3lt ⟨1, 2, 4⟩ ⟨1, 2, 3⟩ = false := by decide +kernel

/-- the 2-D orders of both twins are the same strict total order -/
theorem v2lt_strict_total (p q : V2) :
    VectorPyx.v2lt p q = VectorPy.v2lt p q
    ∧ VectorPy.v2lt p p = false
    ∧ (VectorPy.v2lt p q = true ∨ p = q ∨ VectorPy.v2lt q p = true)
    ∧ (VectorPy.v2lt p q = true → VectorPy.v2lt q p = false) := by
  obtain ⟨px, py⟩ := p
  obtain ⟨qx, qy⟩ := q
  refine ⟨rfl, by simp [VectorPy.v2lt], ?_, ?_⟩
  · simp only [VectorPy.v2lt, V2.mk.injEq]
    rcases lt_trichotomy px qx with h | h | h
    · left; simp [ne_of_lt h, h]
    · subst h
      rcases lt_trichotomy py qy with h | h | h
      · left; simp [h]
      · right; left; simp [h]
      · right; right; simp [h]
    · right; right; simp [ne_of_gt h, ne_of_lt h, h]
  · simp only [VectorPy.v2lt]
    intro h1
    split_ifs at h1 ⊢ <;> simp only [decide_eq_true_eq, decide_eq_false_iff_not, not_lt] at h1 ⊢ <;>
      first | exact le_of_lt h1 | (exfalso; simp_all) | linarith

/-! ## 10. The two twins compute the same functions (what C11 needs of C10) -/

theorem twins_agree_matrix :
    Matrix44Py.scale = Matrix44Pyx.scale ∧ Matrix44Py.scaleUniform = Matrix44Pyx.scaleUniform
    ∧ Matrix44Py.translate = Matrix44Pyx.translate ∧ Matrix44Py.xRotate = Matrix44Pyx.xRotate
    ∧ Matrix44Py.yRotate = Matrix44Pyx.yRotate ∧ Matrix44Py.zRotate = Matrix44Pyx.zRotate
    ∧ Matrix44Py.axisRotate = Matrix44Pyx.axisRotate ∧ Matrix44Py.xyzRotate = Matrix44Pyx.xyzRotate
    ∧ Matrix44Py.shearXY = Matrix44Pyx.shearXY ∧ Matrix44Py.ucs = Matrix44Pyx.ucs
    ∧ Matrix44Py.transform = Matrix44Pyx.transform ∧ Matrix44Py.transformDirection = Matrix44Pyx.transformDirection
    ∧ Matrix44Py.transformDirectionN = Matrix44Pyx.transformDirectionN
    ∧ Matrix44Py.transformVertices = Matrix44Pyx.transformVertices
    ∧ Matrix44Py.transformDirections = Matrix44Pyx.transformDirections ∧ Matrix44Py.fast2d = Matrix44Pyx.fast2d
    ∧ Matrix44Py.ucsVertexFromWcs = Matrix44Pyx.ucsVertexFromWcs
    ∧ Matrix44Py.ucsDirectionFromWcs = Matrix44Pyx.ucsDirectionFromWcs
    ∧ Matrix44Py.origin = Matrix44Pyx.origin ∧ Matrix44Py.ux = Matrix44Pyx.ux ∧ Matrix44Py.uy = Matrix44Pyx.uy
    ∧ Matrix44Py.uz = Matrix44Pyx.uz ∧ Matrix44Py.copy = Matrix44Pyx.copy ∧ Matrix44Py.from2d = Matrix44Pyx.from2d :=
  ⟨rfl, rfl, rfl, rfl, rfl, rfl, rfl, rfl, rfl, rfl, rfl, rfl, rfl, rfl, rfl, rfl, rfl, rfl, rfl, rfl, rfl, rfl, rfl, rfl⟩

theorem twins_agree_vector :
    VectorPy.v3add = VectorPyx.v3add ∧ VectorPy.v3sub = VectorPyx.v3sub ∧ VectorPy.v3rsub = VectorPyx.v3rsub
    ∧ VectorPy.v3mul = VectorPyx.v3mul ∧ VectorPy.v3neg = VectorPyx.v3neg ∧ VectorPy.v3dot = VectorPyx.v3dot
    ∧ VectorPy.v3cross = VectorPyx.v3cross ∧ VectorPy.v3lerp = VectorPyx.v3lerp ∧ VectorPy.v3magsq = VectorPyx.v3magsq
    ∧ VectorPy.v3ortho = VectorPyx.v3ortho ∧ VectorPy.v3eq = VectorPyx.v3eq ∧ VectorPy.v3lt = VectorPyx.v3lt
    ∧ VectorPy.v3isnull = VectorPyx.v3isnull
    ∧ VectorPy.v3normalize = VectorPyx.v3normalize ∧ VectorPy.v3project = VectorPyx.v3project
    ∧ VectorPy.v3sum = VectorPyx.v3sum
    ∧ VectorPy.v2add = VectorPyx.v2add ∧ VectorPy.v2sub = VectorPyx.v2sub ∧ VectorPy.v2mul = VectorPyx.v2mul
    ∧ VectorPy.v2neg = VectorPyx.v2neg ∧ VectorPy.v2dot = VectorPyx.v2dot ∧ VectorPy.v2det = VectorPyx.v2det
    ∧ VectorPy.v2lerp = VectorPyx.v2lerp ∧ VectorPy.v2ortho = VectorPyx.v2ortho ∧ VectorPy.v2eq = VectorPyx.v2eq
    ∧ VectorPy.v2lt = VectorPyx.v2lt ∧ VectorPy.v2sum = VectorPyx.v2sum :=
  ⟨rfl, rfl, rfl, rfl, rfl, rfl, rfl, rfl, rfl, rfl, rfl, rfl, rfl, rfl, rfl, rfl, rfl, rfl, rfl, rfl, rfl, rfl, rfl, rfl,
   rfl, rfl, rfl⟩

/-- `isclose`: the hand-written C version of the Cython twin is CPython's `math.isclose` used by the Python twin -/
theorem twins_agree_isclose (a b : V3) (p q : V2) :
    VectorPyx.v3isclose a b = VectorPy.v3isclose a b ∧ VectorPyx.v2isclose p q = VectorPy.v2isclose p q := by
  have key : ∀ x y rel ab : Rat,
      ((decide (pyAbs (y - x) ≤ pyAbs (rel * y)) || decide (pyAbs (y - x) ≤ pyAbs (rel * x))) || decide (pyAbs (y - x) ≤ ab))
        = pyIsclose x y rel ab ∨ (x = y ∧ ab < 0) := by
    intro x y rel ab
    unfold pyIsclose
    by_cases h : x = y
    · subst h
      by_cases hab : ab < 0
      · right; exact ⟨rfl, hab⟩
      · left
        have h0 : pyAbs (x - x) ≤ ab := by simp [pyAbs]; linarith
        simp only [decide_true, Bool.true_or, h0, Bool.or_true]
    · left; simp [h]
  have key2 : ∀ x y : Rat,
      ((decide (pyAbs (y - x) ≤ pyAbs (((4835703278458517 : Rat) / 4835703278458516698824704) * y))
        || decide (pyAbs (y - x) ≤ pyAbs (((4835703278458517 : Rat) / 4835703278458516698824704) * x)))
        || decide (pyAbs (y - x) ≤ ((4951760157141521 : Rat) / 4951760157141521099596496896)))
        = pyIsclose x y ((4835703278458517 : Rat) / 4835703278458516698824704)
            ((4951760157141521 : Rat) / 4951760157141521099596496896) := by
    intro x y
    rcases key x y _ _ with h | h
    · exact h
    · exfalso; have := h.2; norm_num at this
  simp only [VectorPyx.v3isclose, VectorPy.v3isclose, VectorPyx.v2isclose, VectorPy.v2isclose, key2, and_self]

/-! ## 11. UCS as a state machine: laws about method SEQUENCES on one object -/

private theorem ite_ind {α : Type} (P : α → Prop) (c : Prop) [Decidable c] (a b : α) (ha : c → P a) (hb : ¬c → P b) :
    P (ite c a b) := by
  by_cases h : c
  · rw [if_pos h]; exact ha h
  · rw [if_neg h]; exact hb h

private theorem ite_neg_ind {α : Type} (P : α → Prop) (c : Prop) [Decidable c] (a b : α) (hc : ¬ c) (hb : P b) :
    P (ite c a b) := by
  rw [if_neg hc]; exact hb

private theorem ite_map {α β : Type} {c : Prop} [Decidable c] (f : α → β) (a b : Except PyErr β) (a' b' : Except PyErr α)
    (ha : a = Except.map f a') (hb : b = Except.map f b') : ite c a b = Except.map f (ite c a' b') := by
  by_cases h : c
  · rw [if_pos h, if_pos h]; exact ha
  · rw [if_neg h, if_neg h]; exact hb

/-- the complete instance state, re-extracted from the AST of ucs.py on every run: a UCS object is one matrix, an OCS
    object a flag and a matrix.  (Any cached derived attribute added to either class makes this false.) -/
theorem ucs_instance_state :
    UcsAttrs.ucsInstanceAttrs = ["matrix"] ∧ UcsAttrs.ocsInstanceAttrs = ["transform", "matrix"] := by
  decide +kernel

/-- the closed instance state of the value classes (`__slots__` of the Python twin, cdef attributes in the .pxd of the
    Cython twin; regenerated): a Matrix44 is its 16 cells, a vector its components - nothing else can be stored on them -/
theorem value_classes_state :
    UcsAttrs.pyMatrix44Slots = ["_matrix"] ∧ UcsAttrs.pyxMatrix44Fields = ["m"]
    ∧ UcsAttrs.pyVec3Slots = ["_x", "_y", "_z"] ∧ UcsAttrs.pyxVec3Fields = ["x", "y", "z"]
    ∧ UcsAttrs.pyVec2Slots = ["x", "y"] ∧ UcsAttrs.pyxVec2Fields = ["x", "y"] := by
  decide +kernel

/-- what each mutator does to the state: `transform(m)` multiplies from the right (row-vector convention),
    `shift(d)` adds to the origin row, `moveto(o)` overwrites it; no other cell changes; both linkings agree -/
theorem ucs_step_spec (s m : M44) (d o : V3) :
    step s (.transform m) = M44.mul s m
    ∧ (step s (.shift d)).origin = V3.add s.origin d ∧ (step s (.moveto o)).origin = o
    ∧ (∀ op, (∀ m, op ≠ .transform m) →
        (step s op).ux = s.ux ∧ (step s op).uy = s.uy ∧ (step s op).uz = s.uz
        ∧ (step s op).m3 = s.m3 ∧ (step s op).m7 = s.m7 ∧ (step s op).m11 = s.m11 ∧ (step s op).m15 = s.m15)
    ∧ (∀ op, stepPy s op = step s op) := by
  refine ⟨rfl, rfl, rfl, ?_, ?_⟩
  · intro op h
    cases op with
    | transform m => exact absurd rfl (h m)
    | shift d => exact ⟨rfl, rfl, rfl, rfl, rfl, rfl, rfl⟩
    | moveto o => exact ⟨rfl, rfl, rfl, rfl, rfl, rfl, rfl⟩
  · intro op; cases op <;> rfl

/-- queries do not change the state (frame condition, from the regenerated `(query, ucs.matrix)` kernels):
    whenever `to_ocs` returns at all, the object's matrix is what it was -/
theorem ucs_query_frame (s : M44) (p : V3) (r1 r2 r3 : Rat) :
    UcsPyx.ucsToWcsFrame s p = s ∧ UcsPy.ucsToWcsFrame s p = s
    ∧ (∀ x, UcsPyx.ucsToOcsFrame s p r1 r2 r3 = .ok x → x = s)
    ∧ (∀ x, UcsPy.ucsToOcsFrame s p r1 r2 r3 = .ok x → x = s) := by
  let P : Except PyErr M44 → Prop := fun y => ∀ x, y = .ok x → x = s
  have hok : P (.ok s) := fun x h => by cases h; rfl
  have herr : P (.error PyErr.zeroDivision) := fun x h => by cases h
  refine ⟨rfl, rfl, ?_, ?_⟩
  · show P _
    unfold UcsPyx.ucsToOcsFrame
    refine ite_ind P _ _ _ (fun _ => herr) (fun _ => ?_)
    refine ite_ind P _ _ _ (fun _ => ?_) (fun _ => hok)
    refine ite_ind P _ _ _ (fun _ => ?_) (fun _ => ?_) <;>
    · refine ite_ind P _ _ _ (fun _ => herr) (fun _ => ?_)
      exact ite_ind P _ _ _ (fun _ => herr) (fun _ => hok)
  · show P _
    unfold UcsPy.ucsToOcsFrame
    refine ite_ind P _ _ _ (fun _ => herr) (fun _ => ?_)
    refine ite_ind P _ _ _ (fun _ => ?_) (fun _ => hok)
    refine ite_ind P _ _ _ (fun _ => ?_) (fun _ => ?_) <;>
    · refine ite_ind P _ _ _ (fun _ => herr) (fun _ => ?_)
      exact ite_ind P _ _ _ (fun _ => herr) (fun _ => hok)

private theorem foldl_mul_assoc (s acc : M44) (ms : List M44) :
    M44.mul s (ms.foldl M44.mul acc) = ms.foldl M44.mul (M44.mul s acc) := by
  induction ms generalizing acc with
  | nil => rfl
  | cons m rest ih => simp only [List.foldl_cons]; rw [ih, mul_assoc]

private theorem chain_cons (m : M44) (ms : List M44) : M44.chain (m :: ms) = M44.mul m (M44.chain ms) := by
  unfold M44.chain
  simp only [List.foldl_cons]
  rw [foldl_mul_assoc, (mul_identity m).1, (mul_identity m).2]

private theorem shift_is_mul (s : M44) (d : V3) (hs : M44.IsAffine s) :
    UcsPyx.ucsShift s d = M44.mul s (translation d) := by
  obtain ⟨h3, h7, h11, h15⟩ := hs
  cases s
  simp only at h3 h7 h11 h15
  subst h3 h7 h11 h15
  simp [UcsPyx.ucsShift, M44.mul, translation]

private theorem translation_affine (d : V3) : M44.IsAffine (translation d) := by
  simp [M44.IsAffine, translation]

/-- a history of `transform` / `shift` calls on an affine UCS is ONE right multiplication: the state after the
    history is `s · (m₁ · m₂ ⋯ mₙ)` (`shift(d)` counting as `translate(d)`), for histories of any length -/
theorem ucs_history_is_product (s : M44) (ops : List Op) (ms : List M44) (hs : M44.IsAffine s)
    (hm : matrices ops = some ms) (ha : ∀ m ∈ ms, M44.IsAffine m) :
    run s ops = M44.mul s (M44.chain ms) ∧ M44.IsAffine (run s ops) := by
  induction ops generalizing s ms with
  | nil =>
    simp only [matrices, Option.some.injEq] at hm
    subst hm
    exact ⟨((mul_identity s).1).symm, hs⟩
  | cons op rest ih =>
    simp only [matrices] at hm
    cases hop : op.matrix? with
    | none => simp [hop] at hm
    | some m =>
      cases hr : matrices rest with
      | none => simp [hop, hr] at hm
      | some ms' =>
        simp only [hop, hr, Option.some.injEq] at hm
        subst hm
        have hstep : step s op = M44.mul s m := by
          cases op with
          | transform m' => simp only [Op.matrix?, Option.some.injEq] at hop; subst hop; rfl
          | shift d => simp only [Op.matrix?, Option.some.injEq] at hop; subst hop; exact shift_is_mul s d hs
          | moveto o => simp [Op.matrix?] at hop
        have hma : M44.IsAffine m := ha m (by simp)
        have hs' : M44.IsAffine (step s op) := by rw [hstep]; exact affine_mul _ _ hs hma
        obtain ⟨h1, h2⟩ := ih (step s op) ms' hs' hr (fun x hx => ha x (by simp [hx]))
        refine ⟨?_, h2⟩
        show run (step s op) rest = _
        rw [h1, hstep, chain_cons, mul_assoc]

/-- consequently `ucs.transform(m₁) … .transform(mₙ).to_wcs(p)` = mₙ(… m₁(ucs.to_wcs(p))) for every history -/
theorem ucs_history_to_wcs (s : M44) (ops : List Op) (ms : List M44) (p : V3) (hs : M44.IsAffine s)
    (hm : matrices ops = some ms) (ha : ∀ m ∈ ms, M44.IsAffine m) :
    UcsPyx.ucsToWcs (run s ops) p = ms.foldl (fun q m => Matrix44Pyx.transform m q) (UcsPyx.ucsToWcs s p) := by
  rw [(ucs_history_is_product s ops ms hs hm ha).1]
  show Matrix44Pyx.transform (Matrix44Pyx.mul s (M44.chain ms)) p = _
  rw [transform_mul s _ p hs, ← chain_eq_fold, chain_transform ms _ ha]
  rfl


private theorem rigid_orthonormal (m : M44) (h : IsRigid m) : Orthonormal m := h.2

private theorem rigid_mul (a b : M44) (ha : IsRigid a) (hb : IsRigid b) : IsRigid (M44.mul a b) := by
  obtain ⟨haa, axx, ayy, azz, axy, axz, ayz⟩ := ha
  obtain ⟨hba, bxx, byy, bzz, bxy, bxz, byz⟩ := hb
  refine ⟨affine_mul a b haa hba, ?_⟩
  obtain ⟨a3, a7, a11, a15⟩ := haa
  obtain ⟨b3, b7, b11, b15⟩ := hba
  simp only [V3.dot, M44.ux, M44.uy, M44.uz] at axx ayy azz axy axz ayz bxx byy bzz bxy bxz byz
  simp only [V3.dot, M44.ux, M44.uy, M44.uz, M44.mul, a3, a7, a11, b3, b7, b11]
  refine ⟨?_, ?_, ?_, ?_, ?_, ?_⟩
  · linear_combination (a.m0 * a.m0) * bxx + (a.m1 * a.m1) * byy + (a.m2 * a.m2) * bzz + (2 * a.m0 * a.m1) * bxy
      + (2 * a.m0 * a.m2) * bxz + (2 * a.m1 * a.m2) * byz + axx
  · linear_combination (a.m4 * a.m4) * bxx + (a.m5 * a.m5) * byy + (a.m6 * a.m6) * bzz + (2 * a.m4 * a.m5) * bxy
      + (2 * a.m4 * a.m6) * bxz + (2 * a.m5 * a.m6) * byz + ayy
  · linear_combination (a.m8 * a.m8) * bxx + (a.m9 * a.m9) * byy + (a.m10 * a.m10) * bzz + (2 * a.m8 * a.m9) * bxy
      + (2 * a.m8 * a.m10) * bxz + (2 * a.m9 * a.m10) * byz + azz
  · linear_combination (a.m0 * a.m4) * bxx + (a.m1 * a.m5) * byy + (a.m2 * a.m6) * bzz + (a.m0 * a.m5 + a.m1 * a.m4) * bxy
      + (a.m0 * a.m6 + a.m2 * a.m4) * bxz + (a.m1 * a.m6 + a.m2 * a.m5) * byz + axy
  · linear_combination (a.m0 * a.m8) * bxx + (a.m1 * a.m9) * byy + (a.m2 * a.m10) * bzz + (a.m0 * a.m9 + a.m1 * a.m8) * bxy
      + (a.m0 * a.m10 + a.m2 * a.m8) * bxz + (a.m1 * a.m10 + a.m2 * a.m9) * byz + axz
  · linear_combination (a.m4 * a.m8) * bxx + (a.m5 * a.m9) * byy + (a.m6 * a.m10) * bzz + (a.m4 * a.m9 + a.m5 * a.m8) * bxy
      + (a.m4 * a.m10 + a.m6 * a.m8) * bxz + (a.m5 * a.m10 + a.m6 * a.m9) * byz + ayz

private theorem rigid_step (s : M44) (op : Op) (hs : IsRigid s) (hop : RigidOp op) : IsRigid (step s op) := by
  cases op with
  | transform m => exact rigid_mul s m hs hop
  | shift d => exact hs
  | moveto o => exact hs

/-- INVARIANT over method sequences: a cartesian UCS stays cartesian (orthonormal axes, affine matrix) under every
    history of `transform(rigid motion)`, `shift`, `moveto` calls, of any length -/
theorem ucs_history_rigid (s : M44) (ops : List Op) (hs : IsRigid s) (h : ∀ op ∈ ops, RigidOp op) :
    IsRigid (run s ops) := by
  induction ops generalizing s with
  | nil => exact hs
  | cons op rest ih =>
    exact ih (step s op) (rigid_step s op hs (h op (by simp))) (fun x hx => h x (by simp [hx]))

/-- … hence, after ANY such history, `from_wcs` and `to_wcs` of the object are still mutually inverse
    (points and directions) -/
theorem ucs_history_roundtrip (s : M44) (ops : List Op) (p : V3) (hs : IsRigid s) (h : ∀ op ∈ ops, RigidOp op) :
    UcsPyx.ucsFromWcs (run s ops) (UcsPyx.ucsToWcs (run s ops) p) = p
    ∧ UcsPyx.ucsToWcs (run s ops) (UcsPyx.ucsFromWcs (run s ops) p) = p
    ∧ UcsPyx.ucsDirectionFromWcs (run s ops) (UcsPyx.ucsDirectionToWcs (run s ops) p) = p
    ∧ UcsPyx.ucsDirectionToWcs (run s ops) (UcsPyx.ucsDirectionFromWcs (run s ops) p) = p :=
  ucs_roundtrip (run s ops) (rigid_orthonormal _ (ucs_history_rigid s ops hs h)) p

example : IsRigid ⟨0, 1, 0, 0, -1, 0, 0, 0, 0, 0, 1, 0, 5, 6, 7, 1⟩ := by decide +kernel
example : run ⟨0, 1, 0, 0, -1, 0, 0, 0, 0, 0, 1, 0, 5, 6, 7, 1⟩
    [.transform ⟨1, 0, 0, 0, 0, 0, 1, 0, 0, -1, 0, 0, 1, 1, 1, 1⟩, .shift ⟨1, 2, 3⟩, .moveto ⟨0, 0, 9⟩, .shift ⟨1, 0, 0⟩]
    = ⟨0, 0, 1, 0, -1, 0, 0, 0, 0, -1, 0, 0, 1, 0, 9, 1⟩ := by decide +kernel

/-- `UCS.to_ocs(p)` on the state s is: build `OCS(s.uz)`, convert `s.to_wcs(p)` with it - a function of the CURRENT
    matrix only (same for directions and the batch form) -/
theorem ucs_to_ocs_spec (s : M44) (p : V3) (ps : List V3) (r1 r2 r3 : Rat) :
    UcsPyx.ucsToOcs s p r1 r2 r3
      = (UcsPyx.ocsInit s.uz r1 r2 r3).map (fun tm => UcsPyx.ocsFromWcs tm.1 tm.2 (UcsPyx.ucsToWcs s p))
    ∧ UcsPyx.ucsDirToOcs s p r1 r2 r3
      = (UcsPyx.ocsInit s.uz r1 r2 r3).map (fun tm => UcsPyx.ocsFromWcs tm.1 tm.2 (UcsPyx.ucsDirectionToWcs s p))
    ∧ UcsPyx.ucsPointsToOcs s ps r1 r2 r3
      = (UcsPyx.ocsInit s.uz r1 r2 r3).map (fun tm => ps.map fun q => UcsPyx.ocsFromWcs tm.1 tm.2 (UcsPyx.ucsToWcs s q)) := by
  refine ⟨?_, ?_, ?_⟩
  · unfold UcsPyx.ucsToOcs UcsPyx.ocsInit
    refine ite_map _ _ _ _ _ rfl ?_
    refine ite_map _ _ _ _ _ ?_ rfl
    refine ite_map _ _ _ _ _ ?_ ?_ <;>
    · refine ite_map _ _ _ _ _ rfl ?_
      exact ite_map _ _ _ _ _ rfl rfl
  · unfold UcsPyx.ucsDirToOcs UcsPyx.ocsInit
    refine ite_map _ _ _ _ _ rfl ?_
    refine ite_map _ _ _ _ _ ?_ rfl
    refine ite_map _ _ _ _ _ ?_ ?_ <;>
    · refine ite_map _ _ _ _ _ rfl ?_
      exact ite_map _ _ _ _ _ rfl rfl
  · unfold UcsPyx.ucsPointsToOcs UcsPyx.ocsInit
    refine ite_map _ _ _ _ _ rfl ?_
    refine ite_map _ _ _ _ _ ?_ rfl
    refine ite_map _ _ _ _ _ ?_ ?_ <;>
    · refine ite_map _ _ _ _ _ rfl ?_
      exact ite_map _ _ _ _ _ rfl rfl

/-- SEQUENCE LAW for `to_ocs`: after ANY history of in-place mutators, `ucs.to_ocs(p)` is the conversion of
    `ucs.to_wcs(p)` by the OCS of the CURRENT z-axis, never raises for a non-degenerate z-axis, and
    `OCS(ucs.uz).to_wcs(ucs.to_ocs(p)) = ucs.to_wcs(p)`.  r1, r2, r3 are the square roots `OCS.__init__` takes for
    the extrusion `(run s ops).uz`. -/
theorem ucs_history_to_ocs (s : M44) (ops : List Op) (p : V3) (r1 r2 r3 : Rat)
    (h1 : 0 < r1) (e1 : r1 * r1 = UcsPyx.ocsInit_rad1 (run s ops).uz)
    (h2 : 0 ≤ r2) (e2 : r2 * r2 = UcsPyx.ocsInit_rad2 (run s ops).uz r1)
    (h3 : 0 ≤ r3) (e3 : r3 * r3 = UcsPyx.ocsInit_rad3 (run s ops).uz r1 r2) :
    ∃ t m, UcsPyx.ocsInit (run s ops).uz r1 r2 r3 = .ok (t, m)
      ∧ UcsPyx.ucsToOcs (run s ops) p r1 r2 r3 = .ok (UcsPyx.ocsFromWcs t m (UcsPyx.ucsToWcs (run s ops) p))
      ∧ UcsPyx.ocsToWcs t m (UcsPyx.ocsFromWcs t m (UcsPyx.ucsToWcs (run s ops) p)) = UcsPyx.ucsToWcs (run s ops) p := by
  obtain ⟨t, m, hm, _, _, hf, ht⟩ := ocs_axes (run s ops).uz r1 r2 r3 h1 e1 h2 e2 h3 e3
  refine ⟨t, m, hm, ?_, ?_⟩
  · rw [(ucs_to_ocs_spec (run s ops) p [] r1 r2 r3).1, hm]; rfl
  · have ho : Orthonormal m := by
      cases t
      · rw [hf rfl]; decide +kernel
      · exact (ht rfl).2.2.2.2.2.2.1
    exact (ocs_roundtrip t m ho _).1

/-- the radicands of the roots `to_ocs` takes are those of `OCS(s.uz)` -/
theorem ucs_to_ocs_rads (s : M44) (p : V3) (r1 r2 : Rat) :
    UcsPyx.ucsToOcs_rad1 s p = UcsPyx.ocsInit_rad1 s.uz ∧ UcsPyx.ucsToOcs_rad2 s p r1 = UcsPyx.ocsInit_rad2 s.uz r1
    ∧ UcsPyx.ucsToOcs_rad3 s p r1 r2 = UcsPyx.ocsInit_rad3 s.uz r1 r2 := ⟨rfl, rfl, rfl⟩

/-- REGENERATED method sequences on ONE object (`q` warms whatever the object might cache):
    `ucs.to_ocs(q); ucs.transform(m); ucs.to_ocs(p)` is `to_ocs(p)` of the machine state after `transform(m)` -
    with the roots the second call consumes: (r4, r5, r6) if the first `OCS(uz)` needed all three of its roots,
    (r2, r3, r4) if it took the no-transform path after one root.  Same for the direction variant. -/
theorem ucs_seq_transform_to_ocs (s m : M44) (q p : V3) (r1 r2 r3 r4 r5 r6 : Rat) (h1 : r1 ≠ 0) (h2 : r2 ≠ 0) (h3 : r3 ≠ 0) :
    (UcsPyx.ucsSeqTransformToOcs s q m p r1 r2 r3 r4 r5 r6 = UcsPyx.ucsToOcs (step s (.transform m)) p r4 r5 r6
      ∨ UcsPyx.ucsSeqTransformToOcs s q m p r1 r2 r3 r4 r5 r6 = UcsPyx.ucsToOcs (step s (.transform m)) p r2 r3 r4)
    ∧ (UcsPyx.ucsSeqTransformDirToOcs s q m p r1 r2 r3 r4 r5 r6 = UcsPyx.ucsDirToOcs (step s (.transform m)) p r4 r5 r6
      ∨ UcsPyx.ucsSeqTransformDirToOcs s q m p r1 r2 r3 r4 r5 r6 = UcsPyx.ucsDirToOcs (step s (.transform m)) p r2 r3 r4) := by
  constructor
  · let P : Except PyErr V3 → Prop := fun x =>
      x = UcsPyx.ucsToOcs (step s (.transform m)) p r4 r5 r6 ∨ x = UcsPyx.ucsToOcs (step s (.transform m)) p r2 r3 r4
    show P _
    unfold UcsPyx.ucsSeqTransformToOcs
    refine ite_neg_ind P _ _ _ h1 ?_
    refine ite_ind P _ _ _ (fun _ => ?_) (fun _ => Or.inr rfl)
    refine ite_ind P _ _ _ (fun _ => ?_) (fun _ => ?_) <;>
    · refine ite_neg_ind P _ _ _ h2 ?_
      refine ite_neg_ind P _ _ _ h3 ?_
      exact Or.inl rfl
  · let P : Except PyErr V3 → Prop := fun x =>
      x = UcsPyx.ucsDirToOcs (step s (.transform m)) p r4 r5 r6 ∨ x = UcsPyx.ucsDirToOcs (step s (.transform m)) p r2 r3 r4
    show P _
    unfold UcsPyx.ucsSeqTransformDirToOcs
    refine ite_neg_ind P _ _ _ h1 ?_
    refine ite_ind P _ _ _ (fun _ => ?_) (fun _ => Or.inr rfl)
    refine ite_ind P _ _ _ (fun _ => ?_) (fun _ => ?_) <;>
    · refine ite_neg_ind P _ _ _ h2 ?_
      refine ite_neg_ind P _ _ _ h3 ?_
      exact Or.inl rfl

/-- the other regenerated sequences: query, mutate, query again = the query on the machine state after the mutator
    (`shift`/`moveto` keep the z-axis, so the second `to_ocs` consumes the same three roots); both linkings -/
theorem ucs_seq_kernels (s m : M44) (q p d o : V3) (r1 r2 r3 : Rat) :
    UcsPyx.ucsSeqTransformToWcs s q m p = UcsPyx.ucsToWcs (step s (.transform m)) p
    ∧ UcsPyx.ucsSeqTransformFromWcs s q m p = UcsPyx.ucsFromWcs (step s (.transform m)) p
    ∧ UcsPyx.ucsSeqShiftToWcs s q d p = UcsPyx.ucsToWcs (step s (.shift d)) p
    ∧ UcsPy.ucsSeqShiftToWcs s q d p = UcsPy.ucsToWcs (stepPy s (.shift d)) p
    ∧ UcsPyx.ucsSeqShiftToOcs s q d p r1 r2 r3 = UcsPyx.ucsToOcs (step s (.shift d)) p r1 r2 r3
    ∧ UcsPyx.ucsSeqMovetoToOcs s q o p r1 r2 r3 = UcsPyx.ucsToOcs (step s (.moveto o)) p r1 r2 r3
    ∧ UcsPy.ucsSeqShiftToOcs s q d p r1 r2 r3 = UcsPy.ucsToOcs (stepPy s (.shift d)) p r1 r2 r3
    ∧ UcsPy.ucsSeqMovetoToOcs s q o p r1 r2 r3 = UcsPy.ucsToOcs (stepPy s (.moveto o)) p r1 r2 r3
    ∧ (∀ t mm, UcsPyx.ocsSeqRoundtrip t mm p = UcsPyx.ocsToWcs t mm (UcsPyx.ocsFromWcs t mm p)) := by
  refine ⟨rfl, rfl, rfl, rfl, rfl, rfl, rfl, rfl, ?_⟩
  intro t mm
  cases t <;> rfl

/-! ## 12. Inverse, transpose and determinant laws; the error branch of `inverse()` -/

/-- the model's value of `m.inverse()` when it exists (identity otherwise; only used under `det ≠ 0`) -/
def invOr (m : M44) : M44 := match M44.inv m with | .ok i => i | .error _ => M44.identity

/-- `inverse()` has exactly two outcomes: ZeroDivisionError, or a matrix that IS a two-sided inverse; which one is
    decided by the determinant alone.  (Lean's `1 / 0 = 0` plays no role: the generated kernel tests `det = 0`
    before it divides, as the Cython code raises on `1.0 / det`.) -/
theorem inverse_total (m : M44) :
    (Matrix44Pyx.determinant m = 0 ∧ Matrix44Pyx.inverse m = .error PyErr.zeroDivision)
    ∨ (Matrix44Pyx.determinant m ≠ 0 ∧ ∃ i, Matrix44Pyx.inverse m = .ok i ∧ i = invOr m
        ∧ M44.mul m i = M44.identity ∧ M44.mul i m = M44.identity) := by
  by_cases h : Matrix44Pyx.determinant m = 0
  · exact Or.inl ⟨h, inverse_singular m h⟩
  · obtain ⟨i, hi, hr, hl⟩ := inverse_two_sided m h
    refine Or.inr ⟨h, i, hi, ?_, hr, hl⟩
    have := inverse_is_textbook m
    rw [hi] at this
    simp only [invOr, ← this]

/-- a singular matrix HAS no inverse (neither right nor left): raising is the only correct answer -/
theorem singular_no_inverse (m : M44) (h : Matrix44Pyx.determinant m = 0) :
    (¬ ∃ j, M44.mul m j = M44.identity) ∧ (¬ ∃ j, M44.mul j m = M44.identity) := by
  rw [determinant_is_textbook] at h
  constructor <;>
  · rintro ⟨j, hj⟩
    have := det_mul m j
    have h2 := det_mul j m
    rw [hj, det_identity, h] at *
    simp at *

/-- `inverse()` raises ZeroDivisionError exactly for the matrices that have no inverse, and only that error -/
theorem inverse_raises_iff (m : M44) :
    (Matrix44Pyx.inverse m = .error PyErr.zeroDivision ↔ ¬ ∃ j, M44.mul m j = M44.identity)
    ∧ (∀ e, Matrix44Pyx.inverse m = .error e → e = PyErr.zeroDivision)
    ∧ ((∃ i, Matrix44Pyx.inverse m = .ok i) ↔ Matrix44Pyx.determinant m ≠ 0) := by
  rcases inverse_total m with ⟨h0, he⟩ | ⟨h0, i, hi, _, hr, _⟩
  · refine ⟨⟨fun _ => (singular_no_inverse m h0).1, fun _ => he⟩, ?_, ?_⟩
    · intro e h; rw [he] at h; cases h; rfl
    · constructor
      · rintro ⟨i, hi⟩; rw [he] at hi; cases hi
      · intro h; exact absurd h0 h
  · refine ⟨⟨fun h => ?_, fun h => absurd ⟨i, hr⟩ h⟩, ?_, ?_⟩
    · rw [hi] at h; cases h
    · intro e h; rw [hi] at h; cases h
    · exact ⟨fun _ => h0, fun _ => ⟨i, hi⟩⟩

example : ¬ ∃ j, M44.mul ⟨1, 2, 3, 4, 2, 4, 6, 8, 1, 0, 0, 1, 0, 1, 0, 1⟩ j = M44.identity :=
  (singular_no_inverse _ (by decide +kernel)).1

private theorem det_ne (m : M44) : Matrix44Pyx.determinant m ≠ 0 ↔ M44.det m ≠ 0 := by rw [determinant_is_textbook]

/-- (A·B)⁻¹ = B⁻¹·A⁻¹ : `(a * b).inverse()` is the REVERSED product of the inverses -/
theorem inverse_mul (a b : M44) (ha : Matrix44Pyx.determinant a ≠ 0) (hb : Matrix44Pyx.determinant b ≠ 0) :
    ∃ ia ib, Matrix44Pyx.inverse a = .ok ia ∧ Matrix44Pyx.inverse b = .ok ib
      ∧ Matrix44Pyx.inverse (Matrix44Pyx.mul a b) = .ok (M44.mul ib ia) := by
  obtain ⟨ia, hia, har, _⟩ := inverse_two_sided a ha
  obtain ⟨ib, hib, hbr, _⟩ := inverse_two_sided b hb
  have hab : Matrix44Pyx.determinant (M44.mul a b) ≠ 0 := by
    rw [determinant_is_textbook, det_mul]
    exact mul_ne_zero ((det_ne a).1 ha) ((det_ne b).1 hb)
  obtain ⟨iab, hiab, _, _⟩ := inverse_two_sided (M44.mul a b) hab
  refine ⟨ia, ib, hia, hib, ?_⟩
  have : M44.mul ib ia = iab := by
    apply inverse_unique (M44.mul a b) iab _ hiab
    rw [mul_assoc, ← mul_assoc b ib ia, hbr, (mul_identity ia).2, har]
  rw [this]; exact hiab

private theorem chain_snoc (ms : List M44) (m : M44) : M44.chain (ms ++ [m]) = M44.mul (M44.chain ms) m := by
  unfold M44.chain
  rw [List.foldl_append]; rfl

private theorem invOr_spec (m i : M44) (h : Matrix44Pyx.inverse m = .ok i) : invOr m = i := by
  have := inverse_is_textbook m
  rw [h] at this
  simp only [invOr, ← this]

/-- the inverse of `chain(m₁, …, mₙ)` is `chain(mₙ⁻¹, …, m₁⁻¹)`, for chains of any length of regular matrices;
    in particular the chain is regular -/
theorem inverse_chain (ms : List M44) (h : ∀ m ∈ ms, Matrix44Pyx.determinant m ≠ 0) :
    Matrix44Pyx.inverse (Matrix44Pyx.chain ms) = .ok (M44.chain (ms.reverse.map invOr))
    ∧ Matrix44Pyx.determinant (Matrix44Pyx.chain ms) ≠ 0 := by
  rw [chain_eq_fold]
  induction ms with
  | nil => exact ⟨by decide +kernel, by decide +kernel⟩
  | cons m rest ih =>
    obtain ⟨ih1, ih2⟩ := ih (fun x hx => h x (by simp [hx]))
    have hm := h m (by simp)
    rw [chain_cons]
    obtain ⟨im, ir, him, hir, hprod⟩ := inverse_mul m (M44.chain rest) hm ih2
    rw [ih1] at hir
    cases hir
    refine ⟨?_, ?_⟩
    · have : Matrix44Pyx.mul m (M44.chain rest) = M44.mul m (M44.chain rest) := rfl
      rw [this] at hprod
      rw [hprod, List.reverse_cons, List.map_append, List.map_cons, List.map_nil, chain_snoc, invOr_spec m im him]
    · rw [determinant_is_textbook, det_mul]
      exact mul_ne_zero ((det_ne m).1 hm) ((det_ne _).1 ih2)

/-- inverse of the inverse, determinant of the inverse, inverse of the transpose -/
theorem inverse_laws (m : M44) (h : Matrix44Pyx.determinant m ≠ 0) :
    ∃ i, Matrix44Pyx.inverse m = .ok i ∧ Matrix44Pyx.inverse i = .ok m
      ∧ M44.det i * M44.det m = 1
      ∧ Matrix44Pyx.inverse (M44.transpose m) = .ok (M44.transpose i) := by
  obtain ⟨i, hi, hr, hl⟩ := inverse_two_sided m h
  have hdet : M44.det i * M44.det m = 1 := by rw [← det_mul, hl, det_identity]
  have hi0 : Matrix44Pyx.determinant i ≠ 0 := by
    rw [determinant_is_textbook]; intro h0; rw [h0] at hdet; simp at hdet
  obtain ⟨ii, hii, _, _⟩ := inverse_two_sided i hi0
  have hmi : m = ii := inverse_unique i ii m hii hl
  have tmul : ∀ a b : M44, M44.transpose (M44.mul a b) = M44.mul (M44.transpose b) (M44.transpose a) := by
    intro a b
    simp only [M44.transpose, M44.mul, M44.mk.injEq]
    refine ⟨?_, ?_, ?_, ?_, ?_, ?_, ?_, ?_, ?_, ?_, ?_, ?_, ?_, ?_, ?_, ?_⟩ <;> ring
  have ht0 : Matrix44Pyx.determinant (M44.transpose m) ≠ 0 := by
    have : M44.det (M44.transpose m) = M44.det m := by simp only [M44.det, M44.det3, M44.transpose]; ring
    rw [determinant_is_textbook, this]; exact (det_ne m).1 h
  obtain ⟨it, hit, _, _⟩ := inverse_two_sided (M44.transpose m) ht0
  have hti : M44.transpose i = it := by
    apply inverse_unique (M44.transpose m) it _ hit
    rw [← tmul, hl]; rfl
  refine ⟨i, hi, by rw [hmi]; exact hii, hdet, by rw [hti]; exact hit⟩

/-- transpose laws: (A·B)ᵀ = Bᵀ·Aᵀ, det Aᵀ = det A, Iᵀ = I (involution: `transpose_is_textbook`) -/
theorem transpose_laws (a b : M44) :
    M44.transpose (M44.mul a b) = M44.mul (M44.transpose b) (M44.transpose a)
    ∧ M44.det (M44.transpose a) = M44.det a ∧ M44.transpose M44.identity = M44.identity
    ∧ Matrix44Pyx.transpose (Matrix44Pyx.mul a b) = Matrix44Pyx.mul (Matrix44Pyx.transpose b) (Matrix44Pyx.transpose a) := by
  have tmul : M44.transpose (M44.mul a b) = M44.mul (M44.transpose b) (M44.transpose a) := by
    simp only [M44.transpose, M44.mul, M44.mk.injEq]
    refine ⟨?_, ?_, ?_, ?_, ?_, ?_, ?_, ?_, ?_, ?_, ?_, ?_, ?_, ?_, ?_, ?_⟩ <;> ring
  refine ⟨tmul, ?_, rfl, tmul⟩
  simp only [M44.det, M44.det3, M44.transpose]; ring

/-- the inverse of an affine matrix is affine and undoes `transform` (both orders) and `transform_direction` -/
theorem inverse_affine (m : M44) (v : V3) (ha : M44.IsAffine m) (h : Matrix44Pyx.determinant m ≠ 0) :
    ∃ i, Matrix44Pyx.inverse m = .ok i ∧ M44.IsAffine i
      ∧ Matrix44Pyx.transform i (Matrix44Pyx.transform m v) = v
      ∧ Matrix44Pyx.transform m (Matrix44Pyx.transform i v) = v
      ∧ Matrix44Pyx.transformDirection i (Matrix44Pyx.transformDirection m v) = v := by
  obtain ⟨i, hi, hr, hl⟩ := inverse_two_sided m h
  have hia : M44.IsAffine i := by
    obtain ⟨h3, h7, h11, h15⟩ := ha
    have := inverse_is_textbook m
    rw [hi] at this
    have hd : M44.det m ≠ 0 := (det_ne m).1 h
    simp only [M44.inv, if_neg hd, Except.ok.injEq] at this
    subst this
    have hde : M44.det3 m.m0 m.m1 m.m2 m.m4 m.m5 m.m6 m.m8 m.m9 m.m10 = M44.det m := by
      simp only [M44.det, M44.det3, h3, h7, h11, h15]; ring
    refine ⟨?_, ?_, ?_, ?_⟩
    · simp only [M44.scale, M44.adj, M44.det3, h3, h7, h11]; ring
    · simp only [M44.scale, M44.adj, M44.det3, h3, h7, h11]; ring
    · simp only [M44.scale, M44.adj, M44.det3, h3, h7, h11]; ring
    · simp only [M44.scale, M44.adj]
      rw [hde]
      field_simp
  have idv : ∀ w : V3, Matrix44Pyx.transform M44.identity w = w := by
    intro w; cases w; simp [Matrix44Pyx.transform, M44.identity]
  have idd : ∀ w : V3, Matrix44Pyx.transformDirection M44.identity w = w := by
    intro w; cases w; simp [Matrix44Pyx.transformDirection, M44.identity]
  refine ⟨i, hi, hia, ?_, ?_, ?_⟩
  · rw [← transform_mul m i v ha]; show Matrix44Pyx.transform (M44.mul m i) v = v; rw [hr, idv]
  · rw [← transform_mul i m v hia]; show Matrix44Pyx.transform (M44.mul i m) v = v; rw [hl, idv]
  · rw [← transform_direction_mul m i v ha.1 ha.2.1 ha.2.2.1]
    show Matrix44Pyx.transformDirection (M44.mul m i) v = v; rw [hr, idd]

/-- a rotation matrix (orthonormal rows, no translation) is inverted by transposing it - what `ocs_to_wcs` relies on -/
theorem inverse_rotation (m : M44) (h : IsRigid m) (h0 : m.origin = ⟨0, 0, 0⟩) :
    Matrix44Pyx.inverse m = .ok (M44.transpose m) ∧ Matrix44Pyx.determinant m * Matrix44Pyx.determinant m = 1 := by
  obtain ⟨⟨h3, h7, h11, h15⟩, hxx, hyy, hzz, hxy, hxz, hyz⟩ := h
  simp only [M44.origin, V3.mk.injEq] at h0
  obtain ⟨h12, h13, h14⟩ := h0
  simp only [V3.dot, M44.ux, M44.uy, M44.uz] at hxx hyy hzz hxy hxz hyz
  have hT : M44.mul m (M44.transpose m) = M44.identity := by
    simp only [M44.mul, M44.transpose, M44.identity, M44.mk.injEq, h3, h7, h11, h15, h12, h13, h14]
    refine ⟨?_, ?_, ?_, ?_, ?_, ?_, ?_, ?_, ?_, ?_, ?_, ?_, ?_, ?_, ?_, ?_⟩ <;> linarith
  have hdd : M44.det m * M44.det (M44.transpose m) = 1 := by rw [← det_mul, hT, det_identity]
  have hdt : M44.det (M44.transpose m) = M44.det m := (transpose_laws m m).2.1
  rw [hdt] at hdd
  have hd : Matrix44Pyx.determinant m ≠ 0 := by
    rw [determinant_is_textbook]; intro h0'; rw [h0'] at hdd; simp at hdd
  obtain ⟨i, hi, _, _⟩ := inverse_two_sided m hd
  refine ⟨?_, by rw [determinant_is_textbook]; exact hdd⟩
  rw [hi, inverse_unique m i _ hi hT]

example : Matrix44Pyx.inverse (Matrix44Pyx.mul (Matrix44Pyx.scale 2 4 8) (Matrix44Pyx.translate 1 2 3))
    = .ok (M44.mul ⟨1, 0, 0, 0, 0, 1, 0, 0, 0, 0, 1, 0, -1, -2, -3, 1⟩ ⟨1/2, 0, 0, 0, 0, 1/4, 0, 0, 0, 0, 1/8, 0, 0, 0, 0, 1⟩) := by
  decide +kernel

/-! ## 13. More vector algebra and the construct3d helpers -/

/-- division, reflected operators, accessors, magnitudes: `v / k` is `v * (1/k)` and raises ZeroDivisionError for
    k = 0 in both twins (the Python twin divides each component, the Cython twin multiplies by `1.0 / k`),
    `k * v = v * k`, `t + v = v + t`, `reversed = -v`, `xy` drops z, the magnitudes are the roots of v·v and x²+y² -/
theorem vector_ops_more (a b : V3) (p : V2) (k : Rat) :
    (k ≠ 0 → VectorPyx.v3truediv a k = .ok (V3.smul (1 / k) a) ∧ VectorPy.v3truediv a k = .ok (V3.smul (1 / k) a)
        ∧ VectorPyx.v2truediv p k = .ok ⟨p.x * (1 / k), p.y * (1 / k)⟩ ∧ VectorPy.v2truediv p k = .ok ⟨p.x * (1 / k), p.y * (1 / k)⟩)
    ∧ VectorPyx.v3truediv a 0 = .error .zeroDivision ∧ VectorPy.v3truediv a 0 = .error .zeroDivision
    ∧ VectorPyx.v2truediv p 0 = .error .zeroDivision ∧ VectorPy.v2truediv p 0 = .error .zeroDivision
    ∧ VectorPyx.v3rmul a k = VectorPyx.v3mul a k ∧ VectorPy.v3rmul a k = VectorPyx.v3mul a k
    ∧ VectorPyx.v3radd a b = VectorPyx.v3add a b ∧ VectorPy.v3radd a b = VectorPyx.v3add a b
    ∧ VectorPyx.v3reversed a = VectorPyx.v3neg a ∧ VectorPy.v3reversed a = VectorPyx.v3neg a
    ∧ VectorPyx.v3xy a = ⟨a.x, a.y, 0⟩ ∧ VectorPy.v3xy a = ⟨a.x, a.y, 0⟩
    ∧ VectorPyx.v3vec2 a = ⟨a.x, a.y⟩ ∧ VectorPy.v3vec2 a = ⟨a.x, a.y⟩
    ∧ VectorPyx.v3mag_rad1 a = V3.dot a a ∧ VectorPy.v3mag_rad1 a = V3.dot a a
    ∧ VectorPyx.v3magxy_rad1 a = a.x * a.x + a.y * a.y ∧ VectorPy.v3magxy_rad1 a = a.x * a.x + a.y * a.y
    ∧ (∀ r, VectorPyx.v3mag a r = r ∧ VectorPy.v3mag a r = r ∧ VectorPyx.v3magxy a r = r ∧ VectorPy.v3magxy a r = r) := by
  refine ⟨?_, by simp [VectorPyx.v3truediv], by simp [VectorPy.v3truediv], by simp [VectorPyx.v2truediv],
    by simp [VectorPy.v2truediv], rfl, rfl, rfl, rfl, rfl, rfl, rfl, rfl, rfl, rfl, rfl, rfl, rfl, rfl,
    fun r => ⟨rfl, rfl, rfl, rfl⟩⟩
  intro hk
  refine ⟨?_, ?_, ?_, ?_⟩
  · simp only [VectorPyx.v3truediv, if_neg hk, V3.smul, Except.ok.injEq, V3.mk.injEq]; refine ⟨?_, ?_, ?_⟩ <;> ring
  · simp only [VectorPy.v3truediv, if_neg hk, V3.smul, Except.ok.injEq, V3.mk.injEq]; refine ⟨?_, ?_, ?_⟩ <;> ring
  · simp only [VectorPyx.v2truediv, if_neg hk]
  · simp only [VectorPy.v2truediv, if_neg hk, Except.ok.injEq, V2.mk.injEq]; refine ⟨?_, ?_⟩ <;> ring

/-- `normalize(length)`: a·(length/|a|); its squared length is length²; the null vector raises; 2-D variants -/
theorem normalize_length_spec (a : V3) (p q : V2) (len r : Rat) (hr : r * r = VectorPyx.v3normalizeL_rad1 a len) :
    (r = 0 → VectorPyx.v3normalizeL a len r = .error .zeroDivision)
    ∧ (r ≠ 0 → ∃ u, VectorPyx.v3normalizeL a len r = .ok u ∧ VectorPy.v3normalizeL a len r = .ok u
        ∧ u = V3.smul (len / r) a ∧ V3.dot u u = len * len)
    ∧ (∀ s : Rat, s ≠ 0 → s * s = VectorPyx.v2normalize_rad1 p →
        ∃ u, VectorPyx.v2normalize p s = .ok u ∧ VectorPy.v2normalize p s = .ok u ∧ u.x * u.x + u.y * u.y = 1
          ∧ VectorPyx.v2det u p = 0)
    ∧ (∀ s : Rat, s ≠ 0 → s * s = VectorPyx.v2project_rad1 p q →
        ∃ w, VectorPyx.v2project p q s = .ok w ∧ VectorPy.v2project p q s = .ok w
          ∧ VectorPyx.v2dot (VectorPyx.v2sub q w) p = 0 ∧ VectorPyx.v2det w p = 0) := by
  simp only [VectorPyx.v3normalizeL_rad1] at hr
  refine ⟨fun h => by simp [VectorPyx.v3normalizeL, h], fun h => ?_, fun s hs es => ?_, fun s hs es => ?_⟩
  · refine ⟨_, by simp only [VectorPyx.v3normalizeL, if_neg h]; rfl, by simp only [VectorPy.v3normalizeL, if_neg h], ?_, ?_⟩
    · simp only [V3.smul, V3.mk.injEq]; refine ⟨?_, ?_, ?_⟩ <;> ring
    · simp only [V3.dot]; field_simp; linear_combination (-(len * len)) * hr
  · simp only [VectorPyx.v2normalize_rad1] at es
    refine ⟨_, by simp only [VectorPyx.v2normalize, if_neg hs]; rfl, by simp only [VectorPy.v2normalize, if_neg hs], ?_, ?_⟩
    · field_simp; linarith
    · simp only [VectorPyx.v2det]; ring
  · simp only [VectorPyx.v2project_rad1] at es
    refine ⟨_, by simp only [VectorPyx.v2project, if_neg hs]; rfl, by simp only [VectorPy.v2project, if_neg hs], ?_, ?_⟩
    · simp only [VectorPyx.v2dot, VectorPyx.v2sub]; field_simp; linear_combination (p.x * q.x + p.y * q.y) * es
    · simp only [VectorPyx.v2det]; ring

private theorem pyAbs_neg' (x : Rat) : pyAbs (-x) = pyAbs x := by
  unfold pyAbs
  by_cases h1 : 0 ≤ x <;> by_cases h2 : 0 ≤ -x <;> simp only [h1, h2, if_true, if_false] <;> linarith

private theorem pyAbs_sub_comm (x y : Rat) : pyAbs (x - y) = pyAbs (y - x) := by
  rw [← pyAbs_neg' (x - y)]; congr 1; ring

private theorem pyAbs_zero_le (t : Rat) (h : 0 ≤ t) : pyAbs (0 : Rat) ≤ t := by simpa [pyAbs] using h

/-- `is_parallel` as decision logic: BOTH operands are normalised first, so a null operand raises ZeroDivisionError
    (it does not answer False); otherwise the answer is `isclose(â, b̂) or isclose(â, −b̂)` with the default
    tolerances, the relation is symmetric, and every exact multiple b = k·a (k ≠ 0, either sign) IS parallel -/
theorem is_parallel_spec (a b : V3) (r1 r2 : Rat) :
    ((r1 = 0 ∨ r2 = 0) → VectorPyx.v3isparallel a b r1 r2 = .error .zeroDivision)
    ∧ (r1 ≠ 0 → r2 ≠ 0 →
        VectorPyx.v3isparallel a b r1 r2
          = .ok (VectorPyx.v3isclose (V3.smul (1 / r1) a) (V3.smul (1 / r2) b)
                || VectorPyx.v3isclose (V3.smul (1 / r1) a) (VectorPyx.v3neg (V3.smul (1 / r2) b)))
        ∧ VectorPy.v3isparallel a b r1 r2
          = .ok (VectorPy.v3isclose (V3.smul (1 / r1) a) (V3.smul (1 / r2) b)
                || VectorPy.v3isclose (V3.smul (1 / r1) a) (VectorPyx.v3neg (V3.smul (1 / r2) b))))
    ∧ (∀ k : Rat, 0 < r1 → r1 * r1 = VectorPyx.v3isparallel_rad1 a b → k ≠ 0 → b = V3.smul k a → r2 = pyAbs k * r1 →
        VectorPyx.v3isparallel a b r1 r2 = .ok true) := by
  refine ⟨?_, ?_, ?_⟩
  · rintro (h | h)
    · simp [VectorPyx.v3isparallel, h]
    · by_cases h1 : r1 = 0 <;> simp [VectorPyx.v3isparallel, h, h1]
  · intro h1 h2
    constructor
    · simp only [VectorPyx.v3isparallel, if_neg h1, if_neg h2, VectorPyx.v3isclose, VectorPyx.v3neg, V3.smul]
      congr 1
      simp only [mul_comm (1 / r1), mul_comm (1 / r2)]
    · simp only [VectorPy.v3isparallel, if_neg h1, if_neg h2, VectorPy.v3isclose, VectorPyx.v3neg, V3.smul]
      congr 1
      simp only [mul_comm (1 / r1), mul_comm (1 / r2)]
  · intro k hr1 er1 hk hb hr2
    have h1 : r1 ≠ 0 := ne_of_gt hr1
    have hkabs : pyAbs k ≠ 0 := by
      unfold pyAbs; split <;> [exact hk; exact neg_ne_zero.mpr hk]
    have h2 : r2 ≠ 0 := by rw [hr2]; exact mul_ne_zero hkabs h1
    obtain ⟨ax, ay, az⟩ := a
    subst hb
    simp only [V3.smul] at *
    simp only [VectorPyx.v3isparallel, if_neg h1, if_neg h2, Except.ok.injEq]
    have tol : (0 : Rat) ≤ (4951760157141521 : Rat) / 4951760157141521099596496896 := by norm_num
    by_cases hpos : 0 ≤ k
    · have hk' : pyAbs k = k := by simp [pyAbs, hpos]
      have e : ∀ t : Rat, k * t * (1 / r2) = t * (1 / r1) := by
        intro t; rw [hr2, hk']; field_simp
      simp only [e, sub_self, pyAbs_zero_le _ tol, decide_true, Bool.or_true, Bool.and_true, Bool.true_or]
    · have hk' : pyAbs k = -k := by simp [pyAbs, hpos]
      have e : ∀ t : Rat, -(k * t * (1 / r2)) = t * (1 / r1) := by
        intro t; rw [hr2, hk']; field_simp
      simp only [e, sub_self, pyAbs_zero_le _ tol, decide_true, Bool.or_true, Bool.and_true]

example : VectorPyx.v3isparallel ⟨3, 4, 0⟩ ⟨-6, -8, 0⟩ 5 10 = .ok true := by decide +kernel
example : VectorPyx.v3isparallel ⟨3, 4, 0⟩ ⟨4, -3, 0⟩ 5 5 = .ok false := by decide +kernel
example : VectorPyx.v3isparallel ⟨3, 4, 0⟩ ⟨0, 0, 0⟩ 5 0 = .error .zeroDivision := by decide +kernel

/-- `normal_vector_3p(a, b, c)`: the unit normal (b−a)×(c−a)/|…|, perpendicular to both edges; exchanging b and c
    reverses it; collinear points (radicand 0) raise ZeroDivisionError; both linkings agree -/
theorem normal_vector_3p_spec (a b c : V3) (r : Rat) (hr : r * r = ConstructPyx.normal3p_rad1 a b c) :
    ConstructPyx.normal3p_rad1 a b c = V3.dot (V3.cross (V3.sub b a) (V3.sub c a)) (V3.cross (V3.sub b a) (V3.sub c a))
    ∧ (V3.cross (V3.sub b a) (V3.sub c a) = ⟨0, 0, 0⟩ → ConstructPyx.normal3p a b c r = .error .zeroDivision)
    ∧ (r ≠ 0 → ∃ n, ConstructPyx.normal3p a b c r = .ok n ∧ ConstructPy.normal3p a b c r = .ok n
        ∧ n = V3.smul (1 / r) (V3.cross (V3.sub b a) (V3.sub c a))
        ∧ V3.dot n n = 1 ∧ V3.dot n (V3.sub b a) = 0 ∧ V3.dot n (V3.sub c a) = 0
        ∧ ConstructPyx.normal3p a c b r = .ok (V3.smul (-1) n)) := by
  have hrad : ConstructPyx.normal3p_rad1 a b c
      = V3.dot (V3.cross (V3.sub b a) (V3.sub c a)) (V3.cross (V3.sub b a) (V3.sub c a)) := by
    simp only [ConstructPyx.normal3p_rad1, V3.dot, V3.cross, V3.sub]
  refine ⟨hrad, ?_, ?_⟩
  · intro h0
    rw [hrad, h0] at hr
    have : r = 0 := by simpa [V3.dot] using hr
    simp [ConstructPyx.normal3p, this]
  · intro h
    simp only [ConstructPyx.normal3p_rad1] at hr
    refine ⟨_, by simp only [ConstructPyx.normal3p, if_neg h]; rfl, by simp only [ConstructPy.normal3p, if_neg h], ?_, ?_, ?_, ?_, ?_⟩
    · simp only [V3.smul, V3.cross, V3.sub, V3.mk.injEq]; refine ⟨?_, ?_, ?_⟩ <;> ring
    · simp only [V3.dot]; field_simp; linarith
    · simp only [V3.dot, V3.sub]; ring
    · simp only [V3.dot, V3.sub]; ring
    · simp only [ConstructPyx.normal3p, if_neg h, V3.smul, Except.ok.injEq, V3.mk.injEq]; refine ⟨?_, ?_, ?_⟩ <;> ring

example : ConstructPyx.normal3p ⟨0, 0, 0⟩ ⟨2, 0, 0⟩ ⟨0, 3, 0⟩ 6 = .ok ⟨0, 0, 1⟩ := by decide +kernel
example : ConstructPyx.normal3p ⟨0, 0, 0⟩ ⟨1, 1, 1⟩ ⟨2, 2, 2⟩ 0 = .error .zeroDivision := by decide +kernel

/-- `basic_transformation(move, scale, 0)` (rotation omitted by the code when the angle is 0): scaling first, then
    the translation - which the code SKIPS when `move.is_null` (all |components| ≤ 1e-12) -/
theorem basic_transformation_spec (move scale v : V3) :
    ConstructPyx.basicT0 move scale
      = (if VectorPyx.v3isnull move = true then Matrix44Pyx.scale scale.x scale.y scale.z
         else M44.mul (Matrix44Pyx.scale scale.x scale.y scale.z) (Matrix44Pyx.translate move.x move.y move.z))
    ∧ M44.IsAffine (ConstructPyx.basicT0 move scale)
    ∧ Matrix44Pyx.transform (ConstructPyx.basicT0 move scale) v
      = (if VectorPyx.v3isnull move = true then ⟨v.x * scale.x, v.y * scale.y, v.z * scale.z⟩
         else ⟨v.x * scale.x + move.x, v.y * scale.y + move.y, v.z * scale.z + move.z⟩) := by
  have h1 : ConstructPyx.basicT0 move scale
      = (if VectorPyx.v3isnull move = true then Matrix44Pyx.scale scale.x scale.y scale.z
         else M44.mul (Matrix44Pyx.scale scale.x scale.y scale.z) (Matrix44Pyx.translate move.x move.y move.z)) := by
    unfold ConstructPyx.basicT0 VectorPyx.v3isnull
    by_cases h : ((pyAbs move.x) ≤ ((4951760157141521 : Rat) / 4951760157141521099596496896)
        ∧ (pyAbs move.y) ≤ ((4951760157141521 : Rat) / 4951760157141521099596496896))
        ∧ (pyAbs move.z) ≤ ((4951760157141521 : Rat) / 4951760157141521099596496896)
    · have hb : ((decide ((pyAbs move.x) ≤ ((4951760157141521 : Rat) / 4951760157141521099596496896))
          && decide ((pyAbs move.y) ≤ ((4951760157141521 : Rat) / 4951760157141521099596496896)))
          && decide ((pyAbs move.z) ≤ ((4951760157141521 : Rat) / 4951760157141521099596496896))) = true := by
        simp [h.1.1, h.1.2, h.2]
      rw [if_neg (not_not.mpr h), if_pos hb]; rfl
    · have hb : ¬ (((decide ((pyAbs move.x) ≤ ((4951760157141521 : Rat) / 4951760157141521099596496896))
          && decide ((pyAbs move.y) ≤ ((4951760157141521 : Rat) / 4951760157141521099596496896)))
          && decide ((pyAbs move.z) ≤ ((4951760157141521 : Rat) / 4951760157141521099596496896))) = true) := by
        simp only [Bool.and_eq_true, decide_eq_true_eq]; exact h
      rw [if_pos h, if_neg hb]
      simp only [M44.mul, Matrix44Pyx.scale, Matrix44Pyx.translate, M44.mk.injEq]
      refine ⟨?_, ?_, ?_, ?_, ?_, ?_, ?_, ?_, ?_, ?_, ?_, ?_, ?_, ?_, ?_, ?_⟩ <;> ring
  refine ⟨h1, ?_, ?_⟩
  · rw [h1]; split
    · exact (scale_spec _ _ _ v).2.2.1
    · exact affine_mul _ _ (scale_spec _ _ _ v).2.2.1 (translate_spec _ _ _ v).2.2.1
  · rw [h1]; split
    · exact (scale_spec _ _ _ v).1
    · show Matrix44Pyx.transform (Matrix44Pyx.mul _ _) v = _
      rw [transform_mul _ _ v (scale_spec _ _ _ v).2.2.1, (scale_spec _ _ _ v).1, (translate_spec _ _ _ _).1]

private theorem dist_key (vx vy vz ux uy uz r : Rat) (hu : ux * ux + uy * uy + uz * uz = 1) :
    (vx * vx + vy * vy + vz * vz - (ux * (ux * vx + uy * vy + uz * vz) * (ux * (ux * vx + uy * vy + uz * vz))
        + uy * (ux * vx + uy * vy + uz * vz) * (uy * (ux * vx + uy * vy + uz * vz))
        + uz * (ux * vx + uy * vy + uz * vz) * (uz * (ux * vx + uy * vy + uz * vz)))) * (r * r)
      = (vy * (uz * r) - vz * (uy * r)) * (vy * (uz * r) - vz * (uy * r))
        + (vz * (ux * r) - vx * (uz * r)) * (vz * (ux * r) - vx * (uz * r))
        + (vx * (uy * r) - vy * (ux * r)) * (vx * (uy * r) - vy * (ux * r)) := by
  linear_combination (-(r * r) * ((vx * vx + vy * vy + vz * vz) + (ux * vx + uy * vy + uz * vz) ^ 2)) * hu

private theorem sumsq_nonneg (x y z : Rat) : 0 ≤ x * x + y * y + z * z := by
  nlinarith [mul_self_nonneg x, mul_self_nonneg y, mul_self_nonneg z]

private theorem dist_zero_case (B L X : Rat) (key : B * L = X) (hle : B ≤ 0) (hL : 0 < L) (hX : 0 ≤ X) :
    0 * 0 * L = X := by
  have : 0 ≤ B := by
    by_contra hneg
    have : B * L < 0 := mul_neg_of_neg_of_pos (lt_of_not_ge hneg) hL
    linarith
  have hB : B = 0 := le_antisymm hle this
  rw [hB] at key
  linarith

private theorem dist_pos_case (B L X r : Rat) (key : B * L = X) (e : r * r = B) : r * r * L = X := by
  rw [e]; exact key

/-- `distance_point_line_3d(p, a, b)`: raises ZeroDivisionError exactly when `a.isclose(b)` ("not a line");
    otherwise (r1 = |b−a|, r2 = the root of the Pythagoras difference) the result d is ≥ 0 and satisfies
    d²·|b−a|² = |(p−a)×(b−a)|² - the true distance - the `diff <= 0` branch returning exactly 0 only when p is ON the line -/
theorem distance_point_line_spec (p a b : V3) (r1 r2 : Rat)
    (h1 : 0 < r1) (e1 : r1 * r1 = ConstructPyx.distPointLine_rad1 p a b)
    (h2 : 0 ≤ r2) (e2 : r2 * r2 = ConstructPyx.distPointLine_rad2 p a b r1) :
    (VectorPyx.v3isclose a b = true → ConstructPyx.distPointLine p a b r1 r2 = .error .zeroDivision)
    ∧ (VectorPyx.v3isclose a b = false →
        ∃ d, ConstructPyx.distPointLine p a b r1 r2 = .ok d ∧ 0 ≤ d
          ∧ d * d * V3.dot (V3.sub b a) (V3.sub b a)
              = V3.dot (V3.cross (V3.sub p a) (V3.sub b a)) (V3.cross (V3.sub p a) (V3.sub b a))) := by
  let P : Except PyErr Rat → Prop := fun x =>
    (VectorPyx.v3isclose a b = true → x = .error .zeroDivision)
    ∧ (VectorPyx.v3isclose a b = false →
        ∃ d, x = .ok d ∧ 0 ≤ d
          ∧ d * d * V3.dot (V3.sub b a) (V3.sub b a)
              = V3.dot (V3.cross (V3.sub p a) (V3.sub b a)) (V3.cross (V3.sub p a) (V3.sub b a)))
  show P _
  unfold ConstructPyx.distPointLine
  refine ite_ind P _ _ _ (fun hC => ?_) (fun hC => ?_)
  · refine ⟨fun _ => rfl, fun hf => ?_⟩
    exfalso
    have : VectorPyx.v3isclose a b = true := by
      simp only [VectorPyx.v3isclose, Bool.and_eq_true, Bool.or_eq_true, decide_eq_true_eq]; exact hC
    rw [this] at hf; cases hf
  · have hne : ¬ VectorPyx.v3isclose a b = true := by
      intro h
      simp only [VectorPyx.v3isclose, Bool.and_eq_true, Bool.or_eq_true, decide_eq_true_eq] at h
      exact hC h
    rw [ConstructPyx.distPointLine_rad1, if_neg hC] at e1
    rw [ConstructPyx.distPointLine_rad2, if_neg hC] at e2
    refine ⟨fun h => absurd h hne, fun _ => ?_⟩
    have hr1 : r1 ≠ 0 := ne_of_gt h1
    rw [if_neg hr1]
    have hu : (b.x - a.x) * (1 / r1) * ((b.x - a.x) * (1 / r1)) + (b.y - a.y) * (1 / r1) * ((b.y - a.y) * (1 / r1))
        + (b.z - a.z) * (1 / r1) * ((b.z - a.z) * (1 / r1)) = 1 := by
      field_simp; linarith
    have key := dist_key (p.x - a.x) (p.y - a.y) (p.z - a.z) ((b.x - a.x) * (1 / r1)) ((b.y - a.y) * (1 / r1))
      ((b.z - a.z) * (1 / r1)) r1 hu
    have ex : (b.x - a.x) * (1 / r1) * r1 = b.x - a.x := by field_simp
    have ey : (b.y - a.y) * (1 / r1) * r1 = b.y - a.y := by field_simp
    have ez : (b.z - a.z) * (1 / r1) * r1 = b.z - a.z := by field_simp
    rw [ex, ey, ez] at key
    have hdd : V3.dot (V3.sub b a) (V3.sub b a) = r1 * r1 := e1.symm
    have hpos : 0 < r1 * r1 := mul_pos h1 h1
    refine ite_ind (fun x => ∃ d, x = Except.ok d ∧ 0 ≤ d ∧ d * d * V3.dot (V3.sub b a) (V3.sub b a)
        = V3.dot (V3.cross (V3.sub p a) (V3.sub b a)) (V3.cross (V3.sub p a) (V3.sub b a))) _ _ _ (fun hle => ?_) (fun hgt => ?_)
    · refine ⟨0, rfl, le_refl _, ?_⟩
      rw [hdd]
      exact dist_zero_case _ _ _ key hle hpos (sumsq_nonneg _ _ _)
    · rw [if_neg hgt] at e2
      refine ⟨r2, rfl, h2, ?_⟩
      rw [hdd]
      exact dist_pos_case _ _ _ _ key e2

/-! ## 14. UCS factories: the three two-axis constructors and the six axis/point constructors -/

/-- two perpendicular non-null vectors p, q give the right-handed orthonormal frame (p/|p|, q/|q|, (p×q)/|p×q|),
    and |p×q| = |p||q| -/
private theorem frame_from_two (p q : V3) (rp rq r3 : Rat) (hp : 0 < rp) (hq : 0 < rq) (h3 : 0 < r3)
    (ep : rp * rp = V3.dot p p) (eq : rq * rq = V3.dot q q) (e3 : r3 * r3 = V3.dot (V3.cross p q) (V3.cross p q))
    (hpq : V3.dot p q = 0) :
    r3 = rp * rq ∧
    V3.dot (V3.smul (1 / rp) p) (V3.smul (1 / rp) p) = 1 ∧ V3.dot (V3.smul (1 / rq) q) (V3.smul (1 / rq) q) = 1
    ∧ V3.dot (V3.smul (1 / r3) (V3.cross p q)) (V3.smul (1 / r3) (V3.cross p q)) = 1
    ∧ V3.dot (V3.smul (1 / rp) p) (V3.smul (1 / rq) q) = 0
    ∧ V3.dot (V3.smul (1 / rp) p) (V3.smul (1 / r3) (V3.cross p q)) = 0
    ∧ V3.dot (V3.smul (1 / rq) q) (V3.smul (1 / r3) (V3.cross p q)) = 0
    ∧ V3.cross (V3.smul (1 / rp) p) (V3.smul (1 / rq) q) = V3.smul (1 / r3) (V3.cross p q)
    ∧ V3.cross (V3.smul (1 / rq) q) (V3.smul (1 / r3) (V3.cross p q)) = V3.smul (1 / rp) p
    ∧ V3.cross (V3.smul (1 / r3) (V3.cross p q)) (V3.smul (1 / rp) p) = V3.smul (1 / rq) q := by
  obtain ⟨px, py, pz⟩ := p
  obtain ⟨qx, qy, qz⟩ := q
  simp only [V3.dot, V3.cross, V3.smul] at *
  have n1 : rp ≠ 0 := ne_of_gt hp
  have n2 : rq ≠ 0 := ne_of_gt hq
  have n3 : r3 ≠ 0 := ne_of_gt h3
  have hl : r3 * r3 = (rp * rq) * (rp * rq) := by
    rw [e3]
    linear_combination (exp := 1) (-(qx * qx + qy * qy + qz * qz)) * ep - (rp * rp) * eq - (px * qx + py * qy + pz * qz) * hpq
  have h12 : 0 < rp * rq := mul_pos hp hq
  have hr3 : r3 = rp * rq := by nlinarith
  subst hr3
  refine ⟨rfl, ?_, ?_, ?_, ?_, ?_, ?_, ?_, ?_, ?_⟩
  · field_simp; linear_combination -ep
  · field_simp; linear_combination -eq
  · field_simp; linear_combination -e3
  · field_simp; linear_combination hpq
  · field_simp; ring
  · field_simp; ring
  · simp only [V3.mk.injEq]; refine ⟨?_, ?_, ?_⟩ <;> field_simp
  · simp only [V3.mk.injEq]
    refine ⟨?_, ?_, ?_⟩
    · field_simp; linear_combination (-px) * eq + (-qx) * hpq
    · field_simp; linear_combination (-py) * eq + (-qy) * hpq
    · field_simp; linear_combination (-pz) * eq + (-qz) * hpq
  · simp only [V3.mk.injEq]
    refine ⟨?_, ?_, ?_⟩
    · field_simp; linear_combination (-qx) * ep + (-px) * hpq
    · field_simp; linear_combination (-qy) * ep + (-py) * hpq
    · field_simp; linear_combination (-qz) * ep + (-pz) * hpq


private theorem dot_comm' (a b : V3) : V3.dot a b = V3.dot b a := by simp only [V3.dot]; ring

private theorem from_wcs_dots (m : M44) (p : V3) :
    UcsPyx.ucsFromWcs m p = ⟨V3.dot (V3.sub p m.origin) m.ux, V3.dot (V3.sub p m.origin) m.uy, V3.dot (V3.sub p m.origin) m.uz⟩ := rfl

/-- `UCS(origin, ux=a, uz=c)` and `UCS(origin, uy=b, uz=c)` with perpendicular given axes: the missing axis is
    uz × ux resp. uy × uz, the frame is orthonormal and right-handed, the third root is the product of the first two
    (the `ux, uy` variant is `ucs_init_xy`) -/
theorem ucs_init_xz_yz (o a c : V3) (r1 r2 r3 : Rat) (h1 : 0 < r1) (h2 : 0 < r2) (h3 : 0 < r3) (hp : V3.dot a c = 0) :
    (r1 * r1 = UcsPyx.ucsInitXZ_rad1 o a c → r2 * r2 = UcsPyx.ucsInitXZ_rad2 o a c r1 →
      r3 * r3 = UcsPyx.ucsInitXZ_rad3 o a c r1 r2 →
      ∃ m, UcsPyx.ucsInitXZ o a c r1 r2 r3 = .ok m ∧ UcsPy.ucsInitXZ o a c r1 r2 r3 = .ok m ∧ m.origin = o
        ∧ m.ux = V3.smul (1 / r1) a ∧ m.uz = V3.smul (1 / r2) c ∧ m.uy = V3.smul (1 / r3) (V3.cross c a)
        ∧ r3 = r1 * r2 ∧ Orthonormal m ∧ V3.cross m.ux m.uy = m.uz)
    ∧ (r1 * r1 = UcsPyx.ucsInitYZ_rad1 o a c → r2 * r2 = UcsPyx.ucsInitYZ_rad2 o a c r1 →
      r3 * r3 = UcsPyx.ucsInitYZ_rad3 o a c r1 r2 →
      ∃ m, UcsPyx.ucsInitYZ o a c r1 r2 r3 = .ok m ∧ UcsPy.ucsInitYZ o a c r1 r2 r3 = .ok m ∧ m.origin = o
        ∧ m.uy = V3.smul (1 / r1) a ∧ m.uz = V3.smul (1 / r2) c ∧ m.ux = V3.smul (1 / r3) (V3.cross a c)
        ∧ r3 = r1 * r2 ∧ Orthonormal m ∧ V3.cross m.ux m.uy = m.uz) := by
  have n1 : r1 ≠ 0 := ne_of_gt h1
  have n2 : r2 ≠ 0 := ne_of_gt h2
  have n3 : r3 ≠ 0 := ne_of_gt h3
  obtain ⟨_, ⟨mxz, hxz, hxz', oxz, uxz1, uxz2, uxz3⟩, ⟨myz, hyz, hyz', oyz, uyz1, uyz2, uyz3⟩⟩ :=
    ucs_init_rows o a a c r1 r2 r3 n1 n2 n3
  constructor
  · intro e1 e2 e3
    obtain ⟨hr, f11, f22, f33, f12, f13, f23, c12, c23, c31⟩ :=
      frame_from_two c a r2 r1 r3 h2 h1 h3 e2 e1 e3 (by rw [dot_comm']; exact hp)
    refine ⟨mxz, hxz, hxz', oxz, uxz1, uxz2, uxz3, by rw [hr, mul_comm], ?_, ?_⟩
    · unfold Orthonormal
      rw [uxz1, uxz2, uxz3]
      exact ⟨f22, f33, f11, f23, by rw [dot_comm']; exact f12, by rw [dot_comm']; exact f13⟩
    · rw [uxz1, uxz2, uxz3]; exact c23
  · intro e1 e2 e3
    obtain ⟨hr, f11, f22, f33, f12, f13, f23, c12, c23, c31⟩ :=
      frame_from_two a c r1 r2 r3 h1 h2 h3 e1 e2 e3 hp
    refine ⟨myz, hyz, hyz', oyz, uyz1, uyz2, uyz3, hr, ?_, ?_⟩
    · unfold Orthonormal
      rw [uyz1, uyz2, uyz3]
      exact ⟨f33, f11, f22, by rw [dot_comm']; exact f13, by rw [dot_comm']; exact f23, f12⟩
    · rw [uyz1, uyz2, uyz3]; exact c31


set_option hygiene false in
/-- closes `from_wcs m pt = ⟨…⟩` once the rows of m are known -/
local macro "from_axis_coords" eW:ident : tactic => `(tactic|
  (rw [from_wcs_dots, ho, hx, hy, hz]
   subst hr
   simp only [V3.dot, V3.sub, V3.smul, V3.cross, V3.mk.injEq]
   refine ⟨?_, ?_, ?_⟩ <;> field_simp <;>
     first | ring1 | linear_combination $eW:ident | linear_combination -$eW:ident))

/-- the two constructors from an X-AXIS and a point: w = point − origin.
    `from_x_axis_and_point_in_xy`: orthonormal right-handed frame with ux = axis/|axis|; the point has local
    coordinates (w·axis/|axis|, |axis×w|/|axis|, 0): in the xy-plane, on the +y side, at its true distance from the axis.
    `from_x_axis_and_point_in_xz`: likewise with local coordinates (w·axis/|axis|, 0, |w×axis|/|axis|).
    r1, r2, r3 are the three roots each constructor takes (|axis|, |axis×w|, |third axis|). -/
theorem ucs_from_x_axis_spec (o ax pt : V3) (r1 r2 r3 : Rat) (h1 : 0 < r1) (h2 : 0 < r2) (h3 : 0 < r3) :
    (r1 * r1 = UcsPyx.ucsFromXaxisXY_rad1 o ax pt → r2 * r2 = UcsPyx.ucsFromXaxisXY_rad2 o ax pt r1 →
      r3 * r3 = UcsPyx.ucsFromXaxisXY_rad3 o ax pt r1 r2 →
      ∃ m, UcsPyx.ucsFromXaxisXY o ax pt r1 r2 r3 = .ok m ∧ UcsPy.ucsFromXaxisXY o ax pt r1 r2 r3 = .ok m
        ∧ m.origin = o ∧ Orthonormal m ∧ V3.cross m.ux m.uy = m.uz ∧ m.ux = V3.smul (1 / r1) ax
        ∧ UcsPyx.ucsFromWcs m pt = ⟨V3.dot (V3.sub pt o) ax / r1, r2 / r1, 0⟩)
    ∧ (r1 * r1 = UcsPyx.ucsFromXaxisXZ_rad1 o ax pt → r2 * r2 = UcsPyx.ucsFromXaxisXZ_rad2 o ax pt r1 →
      r3 * r3 = UcsPyx.ucsFromXaxisXZ_rad3 o ax pt r1 r2 →
      ∃ m, UcsPyx.ucsFromXaxisXZ o ax pt r1 r2 r3 = .ok m ∧ UcsPy.ucsFromXaxisXZ o ax pt r1 r2 r3 = .ok m
        ∧ m.origin = o ∧ Orthonormal m ∧ V3.cross m.ux m.uy = m.uz ∧ m.ux = V3.smul (1 / r1) ax
        ∧ UcsPyx.ucsFromWcs m pt = ⟨V3.dot (V3.sub pt o) ax / r1, 0, r2 / r1⟩) := by
  have n1 : r1 ≠ 0 := ne_of_gt h1
  have n2 : r2 ≠ 0 := ne_of_gt h2
  constructor
  · intro e1 e2 e3
    have hp : V3.dot ax (V3.cross ax (V3.sub pt o)) = 0 := by simp only [V3.dot, V3.cross, V3.sub]; ring
    obtain ⟨m, hm, hm', ho, hx, hz, hy, hr, hon, hrh⟩ :=
      (ucs_init_xz_yz o ax (V3.cross ax (V3.sub pt o)) r1 r2 r3 h1 h2 h3 hp).1 e1 e2 e3
    refine ⟨m, hm, hm', ho, hon, hrh, hx, ?_⟩
    simp only [UcsPyx.ucsFromXaxisXY_rad2] at e2
    from_axis_coords e2
  · intro e1 e2 e3
    have hp : V3.dot ax (V3.cross (V3.sub pt o) ax) = 0 := by simp only [V3.dot, V3.cross, V3.sub]; ring
    obtain ⟨m, hm, hm', ho, _, hx, hy, hz, hrest⟩ :=
      ucs_init_xy o ax (V3.cross (V3.sub pt o) ax) r1 r2 r3 h1 e1 h2 e2 h3 e3
    obtain ⟨hr, hon, hrh⟩ := hrest hp
    refine ⟨m, hm, hm', ho, hon, hrh, hx, ?_⟩
    simp only [UcsPyx.ucsFromXaxisXZ_rad2] at e2
    from_axis_coords e2


/-- the two constructors from a Y-AXIS and a point (w = point − origin).
    `from_y_axis_and_point_in_xy`: uy = axis/|axis|, local coordinates of the point (|w×axis|/|axis|, w·axis/|axis|, 0).
    `from_y_axis_and_point_in_yz`: uy = axis/|axis|, local coordinates (0, w·axis/|axis|, −|w×axis|/|axis|):
    the code takes ux = w × axis, so - unlike the other five constructors - the defining point lies on the
    NEGATIVE side of its plane (quirk of the source, modelled as it is; the frame is right-handed all the same).
    Roots: XY: r1 = |axis|, r2 = |w×axis|;  YZ: r1 = |w×axis|, r2 = |axis|. -/
theorem ucs_from_y_axis_spec (o ax pt : V3) (r1 r2 r3 : Rat) (h1 : 0 < r1) (h2 : 0 < r2) (h3 : 0 < r3) :
    (r1 * r1 = UcsPyx.ucsFromYaxisXY_rad1 o ax pt → r2 * r2 = UcsPyx.ucsFromYaxisXY_rad2 o ax pt r1 →
      r3 * r3 = UcsPyx.ucsFromYaxisXY_rad3 o ax pt r1 r2 →
      ∃ m, UcsPyx.ucsFromYaxisXY o ax pt r1 r2 r3 = .ok m ∧ UcsPy.ucsFromYaxisXY o ax pt r1 r2 r3 = .ok m
        ∧ m.origin = o ∧ Orthonormal m ∧ V3.cross m.ux m.uy = m.uz ∧ m.uy = V3.smul (1 / r1) ax
        ∧ UcsPyx.ucsFromWcs m pt = ⟨r2 / r1, V3.dot (V3.sub pt o) ax / r1, 0⟩)
    ∧ (r1 * r1 = UcsPyx.ucsFromYaxisYZ_rad1 o ax pt → r2 * r2 = UcsPyx.ucsFromYaxisYZ_rad2 o ax pt r1 →
      r3 * r3 = UcsPyx.ucsFromYaxisYZ_rad3 o ax pt r1 r2 →
      ∃ m, UcsPyx.ucsFromYaxisYZ o ax pt r1 r2 r3 = .ok m ∧ UcsPy.ucsFromYaxisYZ o ax pt r1 r2 r3 = .ok m
        ∧ m.origin = o ∧ Orthonormal m ∧ V3.cross m.ux m.uy = m.uz ∧ m.uy = V3.smul (1 / r2) ax
        ∧ UcsPyx.ucsFromWcs m pt = ⟨0, V3.dot (V3.sub pt o) ax / r2, -(r1 / r2)⟩) := by
  have n1 : r1 ≠ 0 := ne_of_gt h1
  have n2 : r2 ≠ 0 := ne_of_gt h2
  constructor
  · intro e1 e2 e3
    have hp : V3.dot ax (V3.cross (V3.sub pt o) ax) = 0 := by simp only [V3.dot, V3.cross, V3.sub]; ring
    obtain ⟨m, hm, hm', ho, hy, hz, hx, hr, hon, hrh⟩ :=
      (ucs_init_xz_yz o ax (V3.cross (V3.sub pt o) ax) r1 r2 r3 h1 h2 h3 hp).2 e1 e2 e3
    refine ⟨m, hm, hm', ho, hon, hrh, hy, ?_⟩
    simp only [UcsPyx.ucsFromYaxisXY_rad2] at e2
    from_axis_coords e2
  · intro e1 e2 e3
    have hp : V3.dot (V3.cross (V3.sub pt o) ax) ax = 0 := by simp only [V3.dot, V3.cross, V3.sub]; ring
    obtain ⟨m, hm, hm', ho, _, hx, hy, hz, hrest⟩ :=
      ucs_init_xy o (V3.cross (V3.sub pt o) ax) ax r1 r2 r3 h1 e1 h2 e2 h3 e3
    obtain ⟨hr, hon, hrh⟩ := hrest hp
    refine ⟨m, hm, hm', ho, hon, hrh, hy, ?_⟩
    simp only [UcsPyx.ucsFromYaxisYZ_rad1] at e1
    from_axis_coords e1

/-- the two constructors from a Z-AXIS and a point (w = point − origin).
    `from_z_axis_and_point_in_xz`: uz = axis/|axis|, local coordinates of the point (|axis×w|/|axis|, 0, w·axis/|axis|).
    `from_z_axis_and_point_in_yz`: uz = axis/|axis|, local coordinates (0, |w×axis|/|axis|, w·axis/|axis|).
    Roots: r1 = |axis×w|, r2 = |axis| in both. -/
theorem ucs_from_z_axis_spec (o ax pt : V3) (r1 r2 r3 : Rat) (h1 : 0 < r1) (h2 : 0 < r2) (h3 : 0 < r3) :
    (r1 * r1 = UcsPyx.ucsFromZaxisXZ_rad1 o ax pt → r2 * r2 = UcsPyx.ucsFromZaxisXZ_rad2 o ax pt r1 →
      r3 * r3 = UcsPyx.ucsFromZaxisXZ_rad3 o ax pt r1 r2 →
      ∃ m, UcsPyx.ucsFromZaxisXZ o ax pt r1 r2 r3 = .ok m ∧ UcsPy.ucsFromZaxisXZ o ax pt r1 r2 r3 = .ok m
        ∧ m.origin = o ∧ Orthonormal m ∧ V3.cross m.ux m.uy = m.uz ∧ m.uz = V3.smul (1 / r2) ax
        ∧ UcsPyx.ucsFromWcs m pt = ⟨r1 / r2, 0, V3.dot (V3.sub pt o) ax / r2⟩)
    ∧ (r1 * r1 = UcsPyx.ucsFromZaxisYZ_rad1 o ax pt → r2 * r2 = UcsPyx.ucsFromZaxisYZ_rad2 o ax pt r1 →
      r3 * r3 = UcsPyx.ucsFromZaxisYZ_rad3 o ax pt r1 r2 →
      ∃ m, UcsPyx.ucsFromZaxisYZ o ax pt r1 r2 r3 = .ok m ∧ UcsPy.ucsFromZaxisYZ o ax pt r1 r2 r3 = .ok m
        ∧ m.origin = o ∧ Orthonormal m ∧ V3.cross m.ux m.uy = m.uz ∧ m.uz = V3.smul (1 / r2) ax
        ∧ UcsPyx.ucsFromWcs m pt = ⟨0, r1 / r2, V3.dot (V3.sub pt o) ax / r2⟩) := by
  have n1 : r1 ≠ 0 := ne_of_gt h1
  have n2 : r2 ≠ 0 := ne_of_gt h2
  constructor
  · intro e1 e2 e3
    have hp : V3.dot (V3.cross ax (V3.sub pt o)) ax = 0 := by simp only [V3.dot, V3.cross, V3.sub]; ring
    obtain ⟨m, hm, hm', ho, hy, hz, hx, hr, hon, hrh⟩ :=
      (ucs_init_xz_yz o (V3.cross ax (V3.sub pt o)) ax r1 r2 r3 h1 h2 h3 hp).2 e1 e2 e3
    refine ⟨m, hm, hm', ho, hon, hrh, hz, ?_⟩
    simp only [UcsPyx.ucsFromZaxisXZ_rad1] at e1
    from_axis_coords e1
  · intro e1 e2 e3
    have hp : V3.dot (V3.cross (V3.sub pt o) ax) ax = 0 := by simp only [V3.dot, V3.cross, V3.sub]; ring
    obtain ⟨m, hm, hm', ho, hx, hz, hy, hr, hon, hrh⟩ :=
      (ucs_init_xz_yz o (V3.cross (V3.sub pt o) ax) ax r1 r2 r3 h1 h2 h3 hp).1 e1 e2 e3
    refine ⟨m, hm, hm', ho, hon, hrh, hz, ?_⟩
    simp only [UcsPyx.ucsFromZaxisYZ_rad1] at e1
    from_axis_coords e1

example : UcsPyx.ucsFromYaxisYZ ⟨0, 0, 0⟩ ⟨0, 2, 0⟩ ⟨0, 1, 3⟩ 6 2 12
    = .ok ⟨-1, 0, 0, 0, 0, 1, 0, 0, 0, 0, -1, 0, 0, 0, 0, 1⟩ := by decide +kernel
example : UcsPyx.ucsFromZaxisYZ ⟨0, 0, 0⟩ ⟨0, 0, 2⟩ ⟨0, 3, 1⟩ 6 2 12 = .ok M44.identity := by decide +kernel
example : UcsPyx.ucsFromXaxisXY ⟨1, 1, 1⟩ ⟨2, 0, 0⟩ ⟨5, 1, 1⟩ 2 0 0 = .error .zeroDivision := by decide +kernel

/-! ## 15. Frame predicates, `isclose` as a relation -/

private theorem dot_norm (a b c d e f s t : Rat) :
    a * (1 / s) * (b * (1 / t)) + c * (1 / s) * (d * (1 / t)) + e * (1 / s) * (f * (1 / t))
      = (a * b + c * d + e * f) * ((1 / s) * (1 / t)) := by ring

private theorem pyAbs_zero' : pyAbs (0 : Rat) = 0 := by simp [pyAbs]

/-- the frame predicates as decision logic.  `is_orthogonal`: normalises the three axis rows (a null row raises
    ZeroDivisionError - it does not answer False) and tests the three dot products against 1e-9; it is True for every
    matrix with pairwise perpendicular rows whatever their lengths and orientation.  `is_cartesian`: compares
    (uy × uz)/|uy × uz| with ux/|ux|; it is True for every right-handed orthonormal frame.  `UCS.is_cartesian` is the
    matrix predicate. -/
theorem frame_predicates_spec (m : M44) (r1 r2 r3 : Rat) :
    ((r1 = 0 ∨ r2 = 0 ∨ r3 = 0) → Matrix44Pyx.isOrthogonal m r1 r2 r3 = .error .zeroDivision)
    ∧ (r1 ≠ 0 → r2 ≠ 0 → r3 ≠ 0 → V3.dot m.ux m.uy = 0 → V3.dot m.ux m.uz = 0 → V3.dot m.uy m.uz = 0 →
        Matrix44Pyx.isOrthogonal m r1 r2 r3 = .ok true ∧ Matrix44Py.isOrthogonal m r1 r2 r3 = .ok true)
    ∧ (IsRigid m → V3.cross m.ux m.uy = m.uz →
        Matrix44Pyx.isCartesian m 1 1 = .ok true ∧ Matrix44Py.isCartesian m 1 1 = .ok true
        ∧ Matrix44Pyx.isCartesian_rad1 m = 1 ∧ Matrix44Pyx.isCartesian_rad2 m 1 = 1)
    ∧ UcsPyx.ucsIsCartesian m r1 r2 = Matrix44Pyx.isCartesian m r1 r2
    ∧ UcsPy.ucsIsCartesian m r1 r2 = Matrix44Py.isCartesian m r1 r2 := by
  refine ⟨?_, ?_, ?_, rfl, rfl⟩
  · rintro (h | h | h)
    · simp [Matrix44Pyx.isOrthogonal, h]
    · by_cases h1 : r1 = 0 <;> simp [Matrix44Pyx.isOrthogonal, h, h1]
    · by_cases h1 : r1 = 0 <;> by_cases h2 : r2 = 0 <;> simp [Matrix44Pyx.isOrthogonal, h, h1, h2]
  · intro n1 n2 n3 hxy hxz hyz
    simp only [V3.dot, M44.ux, M44.uy, M44.uz] at hxy hxz hyz
    have tol : (0 : Rat) ≤ (4835703278458517 : Rat) / 4835703278458516698824704 := by norm_num
    constructor
    · simp only [Matrix44Pyx.isOrthogonal, if_neg n1, if_neg n2, if_neg n3, dot_norm, hxy, hxz, hyz, zero_mul,
        pyAbs_zero', tol, decide_true, Bool.and_self]
    · simp only [Matrix44Py.isOrthogonal, if_neg n1, if_neg n2, if_neg n3, dot_norm, hxy, hxz, hyz, zero_mul,
        pyAbs_zero', tol, decide_true, Bool.and_self]
  · intro hr hrh
    obtain ⟨_, hxx, hyy, hzz, hxy, hxz, hyz⟩ := hr
    simp only [V3.dot, V3.cross, M44.ux, M44.uy, M44.uz, V3.mk.injEq] at hxx hyy hzz hxy hxz hyz hrh
    obtain ⟨h8, h9, h10⟩ := hrh
    have ex : m.m5 * m.m10 - m.m6 * m.m9 = m.m0 := by
      rw [← h10, ← h9]; linear_combination (m.m0) * hyy - (m.m4) * hxy
    have ey : m.m6 * m.m8 - m.m4 * m.m10 = m.m1 := by
      rw [← h10, ← h8]; linear_combination (m.m1) * hyy - (m.m5) * hxy
    have ez : m.m4 * m.m9 - m.m5 * m.m8 = m.m2 := by
      rw [← h9, ← h8]; linear_combination (m.m2) * hyy - (m.m6) * hxy
    have tol : (0 : Rat) ≤ (4951760157141521 : Rat) / 4951760157141521099596496896 := by norm_num
    refine ⟨?_, ?_, ?_, ?_⟩
    · simp only [Matrix44Pyx.isCartesian, if_neg (one_ne_zero), ex, ey, ez, sub_self, pyAbs_zero', tol, decide_true,
        Bool.or_true, Bool.and_self]
    · simp only [Matrix44Py.isCartesian, if_neg (one_ne_zero), ex, ey, ez, pyIsclose, decide_true, Bool.true_or,
        Bool.and_self]
    · simp only [Matrix44Pyx.isCartesian_rad1, ex, ey, ez]; linarith
    · simp only [Matrix44Pyx.isCartesian_rad2]; linarith

example : Matrix44Pyx.isOrthogonal ⟨3, 4, 0, 0, -8, 6, 0, 0, 0, 0, -2, 0, 5, 5, 5, 1⟩ 5 10 2 = .ok true := by decide +kernel
example : Matrix44Pyx.isCartesian ⟨0, 1, 0, 0, -1, 0, 0, 0, 0, 0, 1, 0, 5, 5, 5, 1⟩ 1 1 = .ok true := by decide +kernel
example : Matrix44Pyx.isCartesian ⟨0, 1, 0, 0, 1, 0, 0, 0, 0, 0, 1, 0, 5, 5, 5, 1⟩ 1 1 = .ok false := by decide +kernel

/-- one component of the C `isclose` of the Cython twin (= CPython's math.isclose without the `a == b` shortcut) -/
private def ic (rel ab x y : Rat) : Bool :=
  (decide (pyAbs (y - x) ≤ pyAbs (rel * y)) || decide (pyAbs (y - x) ≤ pyAbs (rel * x))) || decide (pyAbs (y - x) ≤ ab)

private theorem pyAbs_nonneg' (x : Rat) : 0 ≤ pyAbs x := by
  unfold pyAbs; split <;> linarith

private theorem ic_symm (rel ab x y : Rat) : ic rel ab x y = ic rel ab y x := by
  unfold ic
  have : pyAbs (y - x) = pyAbs (x - y) := by rw [← pyAbs_neg' (y - x)]; congr 1; ring
  rw [this, Bool.or_comm (decide (pyAbs (x - y) ≤ pyAbs (rel * y)))]

private theorem ic_symm_neg (rel ab x y : Rat) : ic rel ab x (-y) = ic rel ab y (-x) := by
  unfold ic
  have h1 : pyAbs (-y - x) = pyAbs (-x - y) := by congr 1; ring
  have h2 : pyAbs (rel * -y) = pyAbs (rel * y) := by rw [mul_neg, pyAbs_neg']
  have h3 : pyAbs (rel * -x) = pyAbs (rel * x) := by rw [mul_neg, pyAbs_neg']
  rw [h1, h2, h3, Bool.or_comm (decide (pyAbs (-x - y) ≤ pyAbs (rel * y)))]

private theorem ic_refl (rel ab x : Rat) : ic rel ab x x = true := by
  unfold ic
  have h : pyAbs (0 : Rat) ≤ pyAbs (rel * x) := by simpa [pyAbs] using pyAbs_nonneg' (rel * x)
  rw [sub_self]
  simp [h]

/-- `isclose` is reflexive (for ANY tolerances, negative ones included: |a−a| = 0 ≤ |rel·a|) and symmetric, for
    explicit and default tolerances, in 3-D and 2-D; it is NOT transitive (witness) -/
theorem isclose_laws (a b : V3) (p q : V2) (rel ab : Rat) :
    VectorPyx.v3isclose2 a a rel ab = true ∧ VectorPyx.v3isclose2 a b rel ab = VectorPyx.v3isclose2 b a rel ab
    ∧ VectorPyx.v3isclose a a = true ∧ VectorPyx.v3isclose a b = VectorPyx.v3isclose b a
    ∧ VectorPy.v3isclose a a = true ∧ VectorPy.v3isclose a b = VectorPy.v3isclose b a
    ∧ VectorPyx.v2isclose p p = true ∧ VectorPyx.v2isclose p q = VectorPyx.v2isclose q p
    ∧ (∃ x y z : V3, VectorPyx.v3isclose x y = true ∧ VectorPyx.v3isclose y z = true ∧ VectorPyx.v3isclose x z = false) := by
  have e2 : ∀ u v : V3, VectorPyx.v3isclose2 u v rel ab = ((ic rel ab u.x v.x && ic rel ab u.y v.y) && ic rel ab u.z v.z) :=
    fun _ _ => rfl
  have e1 : ∀ u v : V3, VectorPyx.v3isclose u v
      = ((ic ((4835703278458517 : Rat) / 4835703278458516698824704) ((4951760157141521 : Rat) / 4951760157141521099596496896) u.x v.x
        && ic ((4835703278458517 : Rat) / 4835703278458516698824704) ((4951760157141521 : Rat) / 4951760157141521099596496896) u.y v.y)
        && ic ((4835703278458517 : Rat) / 4835703278458516698824704) ((4951760157141521 : Rat) / 4951760157141521099596496896) u.z v.z) :=
    fun _ _ => rfl
  have e0 : ∀ u v : V2, VectorPyx.v2isclose u v
      = (ic ((4835703278458517 : Rat) / 4835703278458516698824704) ((4951760157141521 : Rat) / 4951760157141521099596496896) u.x v.x
        && ic ((4835703278458517 : Rat) / 4835703278458516698824704) ((4951760157141521 : Rat) / 4951760157141521099596496896) u.y v.y) :=
    fun _ _ => rfl
  have hpy : ∀ u v : V3, VectorPy.v3isclose u v = VectorPyx.v3isclose u v := fun u v => ((twins_agree_isclose u v p q).1).symm
  refine ⟨?_, ?_, ?_, ?_, ?_, ?_, ?_, ?_, ?_⟩
  · rw [e2]; simp [ic_refl]
  · rw [e2, e2, ic_symm rel ab a.x, ic_symm rel ab a.y, ic_symm rel ab a.z]
  · rw [e1]; simp [ic_refl]
  · rw [e1, e1, ic_symm _ _ a.x, ic_symm _ _ a.y, ic_symm _ _ a.z]
  · rw [hpy, e1]; simp [ic_refl]
  · rw [hpy, hpy, e1, e1, ic_symm _ _ a.x, ic_symm _ _ a.y, ic_symm _ _ a.z]
  · rw [e0]; simp [ic_refl]
  · rw [e0, e0, ic_symm _ _ p.x, ic_symm _ _ p.y]
  · exact ⟨⟨0, 0, 0⟩, ⟨9 / 10000000000000, 0, 0⟩, ⟨18 / 10000000000000, 0, 0⟩, by decide +kernel, by decide +kernel, by decide +kernel⟩

/-- `is_parallel` is symmetric: a ∥ b ⇔ b ∥ a (with the two roots exchanged), error cases included -/
theorem is_parallel_symm (a b : V3) (r1 r2 : Rat) :
    VectorPyx.v3isparallel a b r1 r2 = VectorPyx.v3isparallel b a r2 r1 := by
  by_cases h1 : r1 = 0
  · by_cases h2 : r2 = 0 <;> simp [VectorPyx.v3isparallel, h1, h2]
  by_cases h2 : r2 = 0
  · simp [VectorPyx.v3isparallel, h1, h2]
  have e : ∀ (u v : V3) (s t : Rat), s ≠ 0 → t ≠ 0 → VectorPyx.v3isparallel u v s t = .ok
      (((ic ((4835703278458517 : Rat) / 4835703278458516698824704) ((4951760157141521 : Rat) / 4951760157141521099596496896) (u.x * (1 / s)) (v.x * (1 / t))
        && ic ((4835703278458517 : Rat) / 4835703278458516698824704) ((4951760157141521 : Rat) / 4951760157141521099596496896) (u.y * (1 / s)) (v.y * (1 / t)))
        && ic ((4835703278458517 : Rat) / 4835703278458516698824704) ((4951760157141521 : Rat) / 4951760157141521099596496896) (u.z * (1 / s)) (v.z * (1 / t)))
      || ((ic ((4835703278458517 : Rat) / 4835703278458516698824704) ((4951760157141521 : Rat) / 4951760157141521099596496896) (u.x * (1 / s)) (-(v.x * (1 / t)))
        && ic ((4835703278458517 : Rat) / 4835703278458516698824704) ((4951760157141521 : Rat) / 4951760157141521099596496896) (u.y * (1 / s)) (-(v.y * (1 / t))))
        && ic ((4835703278458517 : Rat) / 4835703278458516698824704) ((4951760157141521 : Rat) / 4951760157141521099596496896) (u.z * (1 / s)) (-(v.z * (1 / t))))) := by
    intro u v s t hs ht
    simp only [VectorPyx.v3isparallel, if_neg hs, if_neg ht]
    rfl
  rw [e a b r1 r2 h1 h2, e b a r2 r1 h2 h1]
  rw [ic_symm _ _ (a.x * (1 / r1)), ic_symm _ _ (a.y * (1 / r1)), ic_symm _ _ (a.z * (1 / r1)),
    ic_symm_neg _ _ (a.x * (1 / r1)), ic_symm_neg _ _ (a.y * (1 / r1)), ic_symm_neg _ _ (a.z * (1 / r1))]

/-- `basic_transformation(move, scale, z_rotation)` in general: scale, THEN rotate about z, THEN translate
    (row-vector convention: S·R·T).  `nz` is the truth value of the angle (`if z_rotation:`), under which the code
    skips the rotation; for the angle 0.0 that changes nothing (c = 1, s = 0).  The translation is skipped when
    `move.is_null`. -/
theorem basic_transformation_full (move scale v : V3) (nz : Bool) (c s : Rat) (hz : nz = false → c = 1 ∧ s = 0) :
    ConstructPyx.basicT move scale nz c s
      = (if VectorPyx.v3isnull move = true
         then M44.mul (Matrix44Pyx.scale scale.x scale.y scale.z) (Matrix44Pyx.zRotate c s)
         else M44.mul (M44.mul (Matrix44Pyx.scale scale.x scale.y scale.z) (Matrix44Pyx.zRotate c s))
                (Matrix44Pyx.translate move.x move.y move.z))
    ∧ M44.IsAffine (ConstructPyx.basicT move scale nz c s)
    ∧ Matrix44Pyx.transform (ConstructPyx.basicT move scale nz c s) v
      = (if VectorPyx.v3isnull move = true
         then ⟨c * (v.x * scale.x) - s * (v.y * scale.y), s * (v.x * scale.x) + c * (v.y * scale.y), v.z * scale.z⟩
         else ⟨c * (v.x * scale.x) - s * (v.y * scale.y) + move.x, s * (v.x * scale.x) + c * (v.y * scale.y) + move.y,
               v.z * scale.z + move.z⟩) := by
  have h1 : ConstructPyx.basicT move scale nz c s
      = (if VectorPyx.v3isnull move = true
         then M44.mul (Matrix44Pyx.scale scale.x scale.y scale.z) (Matrix44Pyx.zRotate c s)
         else M44.mul (M44.mul (Matrix44Pyx.scale scale.x scale.y scale.z) (Matrix44Pyx.zRotate c s))
                (Matrix44Pyx.translate move.x move.y move.z)) := by
    unfold ConstructPyx.basicT VectorPyx.v3isnull
    by_cases h : ((pyAbs move.x) ≤ ((4951760157141521 : Rat) / 4951760157141521099596496896)
        ∧ (pyAbs move.y) ≤ ((4951760157141521 : Rat) / 4951760157141521099596496896))
        ∧ (pyAbs move.z) ≤ ((4951760157141521 : Rat) / 4951760157141521099596496896)
    · have hb : ((decide ((pyAbs move.x) ≤ ((4951760157141521 : Rat) / 4951760157141521099596496896))
          && decide ((pyAbs move.y) ≤ ((4951760157141521 : Rat) / 4951760157141521099596496896)))
          && decide ((pyAbs move.z) ≤ ((4951760157141521 : Rat) / 4951760157141521099596496896))) = true := by
        simp [h.1.1, h.1.2, h.2]
      rw [if_neg (not_not.mpr h), if_neg (not_not.mpr h), if_pos hb]
      cases nz
      · obtain ⟨hc, hs⟩ := hz rfl
        subst hc hs
        simp only [Bool.false_eq_true, if_false, M44.mul, Matrix44Pyx.scale, Matrix44Pyx.zRotate, M44.mk.injEq]
        refine ⟨?_, ?_, ?_, ?_, ?_, ?_, ?_, ?_, ?_, ?_, ?_, ?_, ?_, ?_, ?_, ?_⟩ <;> ring
      · simp only [if_true, M44.mul, Matrix44Pyx.scale, Matrix44Pyx.zRotate, M44.mk.injEq]
        refine ⟨?_, ?_, ?_, ?_, ?_, ?_, ?_, ?_, ?_, ?_, ?_, ?_, ?_, ?_, ?_, ?_⟩ <;> ring
    · have hb : ¬ (((decide ((pyAbs move.x) ≤ ((4951760157141521 : Rat) / 4951760157141521099596496896))
          && decide ((pyAbs move.y) ≤ ((4951760157141521 : Rat) / 4951760157141521099596496896)))
          && decide ((pyAbs move.z) ≤ ((4951760157141521 : Rat) / 4951760157141521099596496896))) = true) := by
        simp only [Bool.and_eq_true, decide_eq_true_eq]; exact h
      rw [if_pos h, if_pos h, if_neg hb]
      cases nz
      · obtain ⟨hc, hs⟩ := hz rfl
        subst hc hs
        simp only [Bool.false_eq_true, if_false, M44.mul, Matrix44Pyx.scale, Matrix44Pyx.zRotate, Matrix44Pyx.translate,
          M44.mk.injEq]
        refine ⟨?_, ?_, ?_, ?_, ?_, ?_, ?_, ?_, ?_, ?_, ?_, ?_, ?_, ?_, ?_, ?_⟩ <;> ring
      · simp only [if_true, M44.mul, Matrix44Pyx.scale, Matrix44Pyx.zRotate, Matrix44Pyx.translate, M44.mk.injEq]
        refine ⟨?_, ?_, ?_, ?_, ?_, ?_, ?_, ?_, ?_, ?_, ?_, ?_, ?_, ?_, ?_, ?_⟩ <;> ring
  have hS : M44.IsAffine (Matrix44Pyx.scale scale.x scale.y scale.z) := (scale_spec _ _ _ v).2.2.1
  have hR : M44.IsAffine (Matrix44Pyx.zRotate c s) := by simp [M44.IsAffine, Matrix44Pyx.zRotate]
  have hT : M44.IsAffine (Matrix44Pyx.translate move.x move.y move.z) := (translate_spec _ _ _ v).2.2.1
  have hSR := affine_mul _ _ hS hR
  have tSR : Matrix44Pyx.transform (M44.mul (Matrix44Pyx.scale scale.x scale.y scale.z) (Matrix44Pyx.zRotate c s)) v
      = ⟨c * (v.x * scale.x) - s * (v.y * scale.y), s * (v.x * scale.x) + c * (v.y * scale.y), v.z * scale.z⟩ := by
    show Matrix44Pyx.transform (Matrix44Pyx.mul _ _) v = _
    rw [transform_mul _ _ v hS, (scale_spec _ _ _ v).1]
    simp only [Matrix44Pyx.zRotate, Matrix44Pyx.transform, V3.mk.injEq]
    refine ⟨?_, ?_, ?_⟩ <;> ring
  refine ⟨h1, ?_, ?_⟩
  · rw [h1]; split
    · exact hSR
    · exact affine_mul _ _ hSR hT
  · rw [h1]; split
    · exact tSR
    · show Matrix44Pyx.transform (Matrix44Pyx.mul _ _) v = _
      rw [transform_mul _ _ v hSR, tSR, (translate_spec _ _ _ _).1]

example : ConstructPyx.basicT ⟨1, 2, 3⟩ ⟨2, 2, 2⟩ true 0 1
    = ⟨0, 2, 0, 0, -2, 0, 0, 0, 0, 0, 2, 0, 1, 2, 3, 1⟩ := by decide +kernel

/-! ## 16. UCS rotations (new objects): structure, and the cartesian case -/

/-- handedness of an orthonormal frame is its determinant: ux × uy = det · uz, and det = ±1 -/
theorem rigid_handedness (m : M44) (h : IsRigid m) :
    V3.cross m.ux m.uy = V3.smul (M44.det m) m.uz ∧ M44.det m * M44.det m = 1
    ∧ M44.det m = V3.triple m.ux m.uy m.uz := by
  obtain ⟨⟨h3, h7, h11, h15⟩, ho⟩ := h
  obtain ⟨c00, c11, c22, c01, c02, c12⟩ := orthonormal_cols m ho
  obtain ⟨hxx, hyy, hzz, hxy, hxz, hyz⟩ := ho
  simp only [V3.dot, M44.ux, M44.uy, M44.uz] at hxx hyy hzz hxy hxz hyz
  have hdet : M44.det m = V3.triple m.ux m.uy m.uz := by
    simp only [M44.det, M44.det3, V3.triple, V3.dot, V3.cross, M44.ux, M44.uy, M44.uz, h3, h7, h11, h15]; ring
  have hw : V3.cross m.ux m.uy = V3.smul (V3.triple m.ux m.uy m.uz) m.uz := by
    simp only [V3.triple, V3.dot, V3.cross, V3.smul, M44.ux, M44.uy, M44.uz, V3.mk.injEq]
    refine ⟨?_, ?_, ?_⟩
    · linear_combination (-(m.m1 * m.m6 - m.m2 * m.m5)) * c00 - (m.m2 * m.m4 - m.m0 * m.m6) * c01 - (m.m0 * m.m5 - m.m1 * m.m4) * c02
    · linear_combination (-(m.m1 * m.m6 - m.m2 * m.m5)) * c01 - (m.m2 * m.m4 - m.m0 * m.m6) * c11 - (m.m0 * m.m5 - m.m1 * m.m4) * c12
    · linear_combination (-(m.m1 * m.m6 - m.m2 * m.m5)) * c02 - (m.m2 * m.m4 - m.m0 * m.m6) * c12 - (m.m0 * m.m5 - m.m1 * m.m4) * c22
  refine ⟨by rw [hdet]; exact hw, ?_, hdet⟩
  rw [hdet]
  simp only [V3.triple, V3.dot, V3.cross, V3.smul, M44.ux, M44.uy, M44.uz, V3.mk.injEq] at hw ⊢
  obtain ⟨wx, wy, wz⟩ := hw
  linear_combination (-(m.m1 * m.m6 - m.m2 * m.m5)) * wx + (-(m.m2 * m.m4 - m.m0 * m.m6)) * wy
    + (-(m.m0 * m.m5 - m.m1 * m.m4)) * wz
    + (m.m4 * m.m4 + m.m5 * m.m5 + m.m6 * m.m6) * hxx + hyy - (m.m0 * m.m4 + m.m1 * m.m5 + m.m2 * m.m6) * hxy


private theorem rigid_of_mul_transpose (r : M44) (ha : M44.IsAffine r) (h : M44.mul r (M44.transpose r) = M44.identity) :
    IsRigid r := by
  obtain ⟨h3, h7, h11, h15⟩ := ha
  simp only [M44.mul, M44.transpose, M44.identity, M44.mk.injEq, h3, h7, h11, h15] at h
  obtain ⟨e00, e01, e02, _, _, e11, e12, _, _, _, e22, _⟩ := h
  refine ⟨⟨h3, h7, h11, h15⟩, ?_, ?_, ?_, ?_, ?_, ?_⟩ <;> simp only [V3.dot, M44.ux, M44.uy, M44.uz] <;> linarith

/-- STRUCTURE of the four rotations that return a new UCS (any UCS whose matrix has a zero 4th column above the 1;
    R = `Matrix44.axis_rotate(axis, θ)`, P = s·R): `rotate` normalises the three rows of P and keeps the origin of s;
    `rotate_local_x/y/z` take the own axis as rotation axis, rotate the two OTHER axes and keep that axis (divided by
    its length r1, which is also the length `axis_rotate` divides by) -/
theorem ucs_rotate_structure (s : M44) (axis : V3) (c sn r1 r2 r3 r4 : Rat)
    (h3 : s.m3 = 0) (h7 : s.m7 = 0) (h11 : s.m11 = 0)
    (n1 : r1 ≠ 0) (n2 : r2 ≠ 0) (n3 : r3 ≠ 0) (n4 : r4 ≠ 0) :
    (∃ R, Matrix44Pyx.axisRotate axis c sn r1 = .ok R ∧
      UcsPyx.ucsRotate s axis c sn r1 r2 r3 r4 = .ok (Matrix44Pyx.ucs (V3.smul (1 / r2) (M44.mul s R).ux)
        (V3.smul (1 / r3) (M44.mul s R).uy) (V3.smul (1 / r4) (M44.mul s R).uz) s.origin)
      ∧ UcsPy.ucsRotate s axis c sn r1 r2 r3 r4 = UcsPyx.ucsRotate s axis c sn r1 r2 r3 r4)
    ∧ (∃ R, Matrix44Pyx.axisRotate s.ux c sn r1 = .ok R ∧
      UcsPyx.ucsRotateLocalX s c sn r1 r2 r3 = .ok (Matrix44Pyx.ucs (V3.smul (1 / r1) s.ux)
        (V3.smul (1 / r2) (M44.mul s R).uy) (V3.smul (1 / r3) (M44.mul s R).uz) s.origin)
      ∧ UcsPy.ucsRotateLocalX s c sn r1 r2 r3 = UcsPyx.ucsRotateLocalX s c sn r1 r2 r3)
    ∧ (∃ R, Matrix44Pyx.axisRotate s.uy c sn r1 = .ok R ∧
      UcsPyx.ucsRotateLocalY s c sn r1 r2 r3 = .ok (Matrix44Pyx.ucs (V3.smul (1 / r2) (M44.mul s R).ux)
        (V3.smul (1 / r1) s.uy) (V3.smul (1 / r3) (M44.mul s R).uz) s.origin)
      ∧ UcsPy.ucsRotateLocalY s c sn r1 r2 r3 = UcsPyx.ucsRotateLocalY s c sn r1 r2 r3)
    ∧ (∃ R, Matrix44Pyx.axisRotate s.uz c sn r1 = .ok R ∧
      UcsPyx.ucsRotateLocalZ s c sn r1 r2 r3 = .ok (Matrix44Pyx.ucs (V3.smul (1 / r2) (M44.mul s R).ux)
        (V3.smul (1 / r3) (M44.mul s R).uy) (V3.smul (1 / r1) s.uz) s.origin)
      ∧ UcsPy.ucsRotateLocalZ s c sn r1 r2 r3 = UcsPyx.ucsRotateLocalZ s c sn r1 r2 r3) := by
  refine ⟨⟨_, by simp only [Matrix44Pyx.axisRotate, if_neg n1]; rfl, ?_, rfl⟩,
    ⟨_, by simp only [Matrix44Pyx.axisRotate, if_neg n1]; rfl, ?_, rfl⟩,
    ⟨_, by simp only [Matrix44Pyx.axisRotate, if_neg n1]; rfl, ?_, rfl⟩,
    ⟨_, by simp only [Matrix44Pyx.axisRotate, if_neg n1]; rfl, ?_, rfl⟩⟩
  · simp only [UcsPyx.ucsRotate, if_neg n1, if_neg n2, if_neg n3, if_neg n4, Matrix44Pyx.ucs, M44.mul, M44.ux, M44.uy,
      M44.uz, M44.origin, V3.smul, Except.ok.injEq, M44.mk.injEq, h3, h7, h11]
    refine ⟨?_, ?_, ?_, ?_, ?_, ?_, ?_, ?_, ?_, ?_, ?_, ?_, ?_, ?_, ?_, ?_⟩ <;> first | trivial | ring
  · simp only [UcsPyx.ucsRotateLocalX, if_neg n1, if_neg n2, if_neg n3, Matrix44Pyx.ucs, M44.mul, M44.ux, M44.uy,
      M44.uz, M44.origin, V3.smul, Except.ok.injEq, M44.mk.injEq, h3, h7, h11]
    refine ⟨?_, ?_, ?_, ?_, ?_, ?_, ?_, ?_, ?_, ?_, ?_, ?_, ?_, ?_, ?_, ?_⟩ <;> first | trivial | ring
  · simp only [UcsPyx.ucsRotateLocalY, if_neg n1, if_neg n2, if_neg n3, Matrix44Pyx.ucs, M44.mul, M44.ux, M44.uy,
      M44.uz, M44.origin, V3.smul, Except.ok.injEq, M44.mk.injEq, h3, h7, h11]
    refine ⟨?_, ?_, ?_, ?_, ?_, ?_, ?_, ?_, ?_, ?_, ?_, ?_, ?_, ?_, ?_, ?_⟩ <;> first | trivial | ring
  · simp only [UcsPyx.ucsRotateLocalZ, if_neg n1, if_neg n2, if_neg n3, Matrix44Pyx.ucs, M44.mul, M44.ux, M44.uy,
      M44.uz, M44.origin, V3.smul, Except.ok.injEq, M44.mk.injEq, h3, h7, h11]
    refine ⟨?_, ?_, ?_, ?_, ?_, ?_, ?_, ?_, ?_, ?_, ?_, ?_, ?_, ?_, ?_, ?_⟩ <;> first | trivial | ring


private theorem rigid_ucs_rows (p : M44) (o : V3) (hp : IsRigid p) :
    IsRigid (Matrix44Pyx.ucs p.ux p.uy p.uz o) ∧ M44.det (Matrix44Pyx.ucs p.ux p.uy p.uz o) = M44.det p := by
  obtain ⟨⟨h3, h7, h11, h15⟩, ho⟩ := hp
  refine ⟨⟨by simp [M44.IsAffine, Matrix44Pyx.ucs], ho⟩, ?_⟩
  simp only [M44.det, M44.det3, Matrix44Pyx.ucs, M44.ux, M44.uy, M44.uz, h3, h7, h11, h15]; ring

private theorem smul_one' (v : V3) : V3.smul (1 / 1) v = v := by cases v; simp [V3.smul]

set_option maxRecDepth 4000 in
/-- the rotations of a CARTESIAN UCS s (c² + s² = 1): the roots taken after `axis_rotate` are all 1, the result is
    again cartesian, has the origin and the handedness (determinant) of s, and its axes are the rows of s·R;
    `rotate_local_z` keeps the z-axis (x, y analogous: `ucs_rotate_structure`) -/
theorem ucs_rotate_cartesian (s : M44) (axis : V3) (c sn r1 : Rat) (hs : IsRigid s) (hcs : c * c + sn * sn = 1) :
    (r1 * r1 = Matrix44Pyx.axisRotate_rad1 axis c sn → r1 ≠ 0 →
      ∃ R m, Matrix44Pyx.axisRotate axis c sn r1 = .ok R
        ∧ UcsPyx.ucsRotate_rad2 s axis c sn r1 = 1 ∧ UcsPyx.ucsRotate_rad3 s axis c sn r1 1 = 1
        ∧ UcsPyx.ucsRotate_rad4 s axis c sn r1 1 1 = 1
        ∧ UcsPyx.ucsRotate s axis c sn r1 1 1 1 = .ok m ∧ UcsPy.ucsRotate s axis c sn r1 1 1 1 = .ok m
        ∧ m.origin = s.origin ∧ m.ux = (M44.mul s R).ux ∧ m.uy = (M44.mul s R).uy ∧ m.uz = (M44.mul s R).uz
        ∧ IsRigid m ∧ M44.det m = M44.det s)
    ∧ (Matrix44Pyx.axisRotate_rad1 s.uz c sn = 1
      ∧ ∃ R m, Matrix44Pyx.axisRotate s.uz c sn 1 = .ok R
        ∧ UcsPyx.ucsRotateLocalZ_rad2 s c sn 1 = 1 ∧ UcsPyx.ucsRotateLocalZ_rad3 s c sn 1 1 = 1
        ∧ UcsPyx.ucsRotateLocalZ s c sn 1 1 1 = .ok m ∧ UcsPy.ucsRotateLocalZ s c sn 1 1 1 = .ok m
        ∧ m.origin = s.origin ∧ m.uz = s.uz ∧ m.ux = (M44.mul s R).ux ∧ m.uy = (M44.mul s R).uy
        ∧ IsRigid m ∧ M44.det m = M44.det s) := by
  have one : (1 : Rat) ≠ 0 := one_ne_zero
  have h3 := hs.1.1
  have h7 := hs.1.2.1
  have h11 := hs.1.2.2.1
  constructor
  · intro hr hr0
    obtain ⟨R, hR, hRT, hRdet, hRa, _, _⟩ := axis_rotate_spec axis c sn r1 hcs hr hr0
    have hRr : IsRigid R := rigid_of_mul_transpose R hRa hRT
    have hP : IsRigid (M44.mul s R) := rigid_mul s R hs hRr
    have hdetP : M44.det (M44.mul s R) = M44.det s := by rw [det_mul, hRdet, mul_one]
    obtain ⟨⟨R', hR', hk, hk'⟩, _⟩ := ucs_rotate_structure s axis c sn r1 1 1 1 h3 h7 h11 hr0 one one one
    rw [hR] at hR'; cases hR'
    rw [smul_one', smul_one', smul_one'] at hk
    obtain ⟨hm1, hm2⟩ := rigid_ucs_rows (M44.mul s R) s.origin hP
    have hRe := hR
    simp only [Matrix44Pyx.axisRotate, if_neg hr0, Except.ok.injEq] at hRe
    obtain ⟨_, pxx, pyy, pzz, _, _, _⟩ := hP
    refine ⟨R, _, hR, ?_, ?_, ?_, hk, by rw [hk', hk], rfl, rfl, rfl, rfl, hm1, by rw [hm2, hdetP]⟩
    · refine Eq.trans ?_ pxx; rw [← hRe]; simp only [UcsPyx.ucsRotate_rad2, V3.dot, M44.ux, M44.mul]; ring
    · refine Eq.trans ?_ pyy; rw [← hRe]; simp only [UcsPyx.ucsRotate_rad3, V3.dot, M44.uy, M44.mul]; ring
    · refine Eq.trans ?_ pzz; rw [← hRe]; simp only [UcsPyx.ucsRotate_rad4, V3.dot, M44.uz, M44.mul]; ring
  · have hzz : Matrix44Pyx.axisRotate_rad1 s.uz c sn = 1 := by
      have := hs.2.2.2.1
      simp only [V3.dot] at this
      simp only [Matrix44Pyx.axisRotate_rad1]; exact this
    refine ⟨hzz, ?_⟩
    obtain ⟨R, hR, hRT, hRdet, hRa, hfix, _⟩ := axis_rotate_spec s.uz c sn 1 hcs (by rw [hzz]; ring) one
    have hRr : IsRigid R := rigid_of_mul_transpose R hRa hRT
    have hP : IsRigid (M44.mul s R) := rigid_mul s R hs hRr
    have hdetP : M44.det (M44.mul s R) = M44.det s := by rw [det_mul, hRdet, mul_one]
    obtain ⟨_, _, _, ⟨R', hR', hk, hk'⟩⟩ := ucs_rotate_structure s s.uz c sn 1 1 1 1 h3 h7 h11 one one one one
    rw [hR] at hR'; cases hR'
    rw [smul_one', smul_one', smul_one'] at hk
    -- the kept z-axis is the rotated one: R fixes its own axis
    have hz : (M44.mul s R).uz = s.uz := by
      have h0 : R.m12 = 0 ∧ R.m13 = 0 ∧ R.m14 = 0 := by
        have hRe := hR
        simp only [Matrix44Pyx.axisRotate, if_neg one, Except.ok.injEq] at hRe
        rw [← hRe]; exact ⟨rfl, rfl, rfl⟩
      simp only [Matrix44Pyx.transform, M44.uz, V3.mk.injEq] at hfix
      obtain ⟨f1, f2, f3⟩ := hfix
      simp only [M44.uz, M44.mul, V3.mk.injEq, h11]
      refine ⟨by linear_combination f1 - h0.1, by linear_combination f2 - h0.2.1, by linear_combination f3 - h0.2.2⟩
    rw [← hz] at hk
    obtain ⟨hm1, hm2⟩ := rigid_ucs_rows (M44.mul s R) s.origin hP
    have hRe := hR
    simp only [Matrix44Pyx.axisRotate, if_neg one, Except.ok.injEq] at hRe
    obtain ⟨_, pxx, pyy, _, _, _, _⟩ := hP
    refine ⟨R, _, hR, ?_, ?_, hk, by rw [hk', hk], rfl, hz, rfl, rfl, hm1, by rw [hm2, hdetP]⟩
    · refine Eq.trans ?_ pxx; rw [← hRe]; simp only [UcsPyx.ucsRotateLocalZ_rad2, V3.dot, M44.ux, M44.uz, M44.mul]; ring
    · refine Eq.trans ?_ pyy; rw [← hRe]; simp only [UcsPyx.ucsRotateLocalZ_rad3, V3.dot, M44.uy, M44.uz, M44.mul]; ring

/-! ## 17. The same laws for ucs.py linked against the pure-Python classes -/

/-- OCS round trip for EVERY non-zero extrusion, Python linking (`ocs_roundtrip_all` is the Cython linking) -/
theorem ocs_roundtrip_all_py (n : V3) (r1 r2 r3 : Rat) (p : V3)
    (h1 : 0 < r1) (e1 : r1 * r1 = UcsPy.ocsInit_rad1 n)
    (h2 : 0 ≤ r2) (e2 : r2 * r2 = UcsPy.ocsInit_rad2 n r1)
    (h3 : 0 ≤ r3) (e3 : r3 * r3 = UcsPy.ocsInit_rad3 n r1 r2) :
    ∃ t m, UcsPy.ocsInit n r1 r2 r3 = .ok (t, m) ∧
      UcsPy.ocsToWcs t m (UcsPy.ocsFromWcs t m p) = p ∧ UcsPy.ocsFromWcs t m (UcsPy.ocsToWcs t m p) = p := by
  obtain ⟨t, m, hm, _, _, hf, ht⟩ := ocs_axes_py n r1 r2 r3 h1 e1 h2 e2 h3 e3
  refine ⟨t, m, hm, ?_⟩
  have ho : Orthonormal m := by
    cases t
    · rw [hf rfl]; decide +kernel
    · exact (ht rfl).2.2.2.2.2.2.1
  obtain ⟨_, _, a, b⟩ := ocs_roundtrip t m ho p
  exact ⟨a, b⟩

/-- `to_ocs` of the Python linking: the same function of the current matrix, for the Python-linked machine `runPy` -/
theorem ucs_history_to_ocs_py (s : M44) (ops : List Op) (p : V3) (r1 r2 r3 : Rat)
    (h1 : 0 < r1) (e1 : r1 * r1 = UcsPy.ocsInit_rad1 (runPy s ops).uz)
    (h2 : 0 ≤ r2) (e2 : r2 * r2 = UcsPy.ocsInit_rad2 (runPy s ops).uz r1)
    (h3 : 0 ≤ r3) (e3 : r3 * r3 = UcsPy.ocsInit_rad3 (runPy s ops).uz r1 r2) :
    runPy s ops = run s ops
    ∧ ∃ t m, UcsPy.ocsInit (runPy s ops).uz r1 r2 r3 = .ok (t, m)
      ∧ UcsPy.ucsToOcs (runPy s ops) p r1 r2 r3 = .ok (UcsPy.ocsFromWcs t m (UcsPy.ucsToWcs (runPy s ops) p))
      ∧ UcsPy.ocsToWcs t m (UcsPy.ocsFromWcs t m (UcsPy.ucsToWcs (runPy s ops) p)) = UcsPy.ucsToWcs (runPy s ops) p := by
  have hrun : runPy s ops = run s ops := by
    have hstep : stepPy = step := by funext st op; exact (ucs_step_spec st st p p).2.2.2.2 op
    unfold runPy run
    rw [hstep]
  refine ⟨hrun, ?_⟩
  obtain ⟨t, m, hm, _, _, hf, ht⟩ := ocs_axes_py (runPy s ops).uz r1 r2 r3 h1 e1 h2 e2 h3 e3
  have hspec : UcsPy.ucsToOcs (runPy s ops) p r1 r2 r3
      = (UcsPy.ocsInit (runPy s ops).uz r1 r2 r3).map
          (fun tm => UcsPy.ocsFromWcs tm.1 tm.2 (UcsPy.ucsToWcs (runPy s ops) p)) := by
    unfold UcsPy.ucsToOcs UcsPy.ocsInit
    refine ite_map _ _ _ _ _ rfl ?_
    refine ite_map _ _ _ _ _ ?_ rfl
    refine ite_map _ _ _ _ _ ?_ ?_ <;>
    · refine ite_map _ _ _ _ _ rfl ?_
      exact ite_map _ _ _ _ _ rfl rfl
  refine ⟨t, m, hm, by rw [hspec, hm]; rfl, ?_⟩
  have ho : Orthonormal m := by
    cases t
    · rw [hf rfl]; decide +kernel
    · exact (ht rfl).2.2.2.2.2.2.1
  exact (ocs_roundtrip t m ho _).2.2.1

/-! ## 18. Constructor decoding and polar construction -/

/-- every documented argument form of the constructors decodes to the same components in both twins (the Python
    `Vec3.decompose` and the Cython `__cinit__` are written independently): missing z is 0, a Vec2 is lifted with
    z = 0, a Vec3 is cut to (x, y) by Vec2, tuples and lists are unpacked -/
theorem vec_ctor_spec (a b c : Rat) (p : V2) (v : V3) :
    VectorPyx.v3ctor0 = ⟨0, 0, 0⟩ ∧ VectorPyx.v3ctor2 a b = ⟨a, b, 0⟩ ∧ VectorPyx.v3ctor3 a b c = ⟨a, b, c⟩
    ∧ VectorPyx.v3ctorT2 a b = ⟨a, b, 0⟩ ∧ VectorPyx.v3ctorT3 a b c = ⟨a, b, c⟩ ∧ VectorPyx.v3ctorL3 a b c = ⟨a, b, c⟩
    ∧ VectorPyx.v3ctorV2 p = ⟨p.x, p.y, 0⟩ ∧ VectorPyx.v3ctorV3 v = v
    ∧ VectorPyx.v2ctor0 = ⟨0, 0⟩ ∧ VectorPyx.v2ctor2 a b = ⟨a, b⟩ ∧ VectorPyx.v2ctorT2 a b = ⟨a, b⟩
    ∧ VectorPyx.v2ctorT3 a b c = ⟨a, b⟩ ∧ VectorPyx.v2ctorV3 v = ⟨v.x, v.y⟩ ∧ VectorPyx.v2ctorV2 p = p
    ∧ VectorPy.v3ctor0 = VectorPyx.v3ctor0 ∧ VectorPy.v3ctor2 = VectorPyx.v3ctor2 ∧ VectorPy.v3ctor3 = VectorPyx.v3ctor3
    ∧ VectorPy.v3ctorT2 = VectorPyx.v3ctorT2 ∧ VectorPy.v3ctorT3 = VectorPyx.v3ctorT3 ∧ VectorPy.v3ctorL3 = VectorPyx.v3ctorL3
    ∧ VectorPy.v3ctorV2 = VectorPyx.v3ctorV2 ∧ VectorPy.v3ctorV3 = VectorPyx.v3ctorV3
    ∧ VectorPy.v2ctor0 = VectorPyx.v2ctor0 ∧ VectorPy.v2ctor2 = VectorPyx.v2ctor2 ∧ VectorPy.v2ctorT2 = VectorPyx.v2ctorT2
    ∧ VectorPy.v2ctorT3 = VectorPyx.v2ctorT3 ∧ VectorPy.v2ctorV3 = VectorPyx.v2ctorV3 ∧ VectorPy.v2ctorV2 = VectorPyx.v2ctorV2 := by
  refine ⟨rfl, rfl, rfl, rfl, rfl, rfl, rfl, rfl, rfl, rfl, rfl, rfl, rfl, rfl, rfl, rfl, rfl, rfl, rfl, rfl, rfl, rfl, rfl, rfl, rfl,
    rfl, rfl, rfl⟩

/-- `from_angle(θ, k)` = (k cos θ, k sin θ[, 0]): squared length k², both twins -/
theorem from_angle_spec (k c s : Rat) (h : c * c + s * s = 1) :
    VectorPyx.v3fromAngle k c s = ⟨c * k, s * k, 0⟩ ∧ VectorPyx.v2fromAngle k c s = ⟨c * k, s * k⟩
    ∧ VectorPy.v3fromAngle = VectorPyx.v3fromAngle ∧ VectorPy.v2fromAngle = VectorPyx.v2fromAngle
    ∧ VectorPyx.v3magsq (VectorPyx.v3fromAngle k c s) = k * k := by
  refine ⟨rfl, rfl, rfl, rfl, ?_⟩
  simp only [VectorPyx.v3magsq, VectorPyx.v3fromAngle]
  linear_combination (k * k) * h

/-- `__hash__` (AST of the current source: `return hash(<E>)`, E regenerated as a kernel): the hash is a function of
    exactly the component tuple in both twins, so `==` vectors hash alike for ANY tuple hash, and the hashed tuple
    determines the vector (collisions can only come from Python's tuple hash) -/
theorem hash_spec (a b : V3) (p q : V2) {H : Type} (hash3 : Rat × Rat × Rat → H) (hash2 : Rat × Rat → H) :
    VectorPyx.v3hashArg a = (a.x, a.y, a.z) ∧ VectorPy.v3hashArg a = (a.x, a.y, a.z)
    ∧ VectorPyx.v2hashArg p = (p.x, p.y) ∧ VectorPy.v2hashArg p = (p.x, p.y)
    ∧ (VectorPyx.v3eq a b = true → hash3 (VectorPyx.v3hashArg a) = hash3 (VectorPyx.v3hashArg b))
    ∧ (VectorPyx.v2eq p q = true → hash2 (VectorPyx.v2hashArg p) = hash2 (VectorPyx.v2hashArg q))
    ∧ (VectorPyx.v3hashArg a = VectorPyx.v3hashArg b → a = b) ∧ (VectorPyx.v2hashArg p = VectorPyx.v2hashArg q → p = q) := by
  refine ⟨rfl, rfl, rfl, rfl, ?_, ?_, ?_, ?_⟩
  · intro h; rw [((eq_spec a b p q hash3).1).1 h]
  · intro h; rw [((eq_spec a b p q hash3).2.2.1).1 h]
  · intro h
    cases a; cases b
    simp only [VectorPyx.v3hashArg, Prod.mk.injEq] at h
    obtain ⟨h1, h2, h3⟩ := h
    subst h1 h2 h3; rfl
  · intro h
    cases p; cases q
    simp only [VectorPyx.v2hashArg, Prod.mk.injEq] at h
    obtain ⟨h1, h2⟩ := h
    subst h1 h2; rfl

/-! ## 19. Matrix44 as a state machine: in-place operations on one object -/

/-- the Python-twin machine (NumPy stand-ins) and the Cython machine (regenerated kernels) are the same function -/
theorem m44_machine_twins (s : M44) (op : M44Machine.Op) : M44Machine.stepPy s op = M44Machine.step s op := by
  cases op with
  | imul o => rfl
  | imulSelf => rfl
  | transpose => rfl
  | inverse => simp only [M44Machine.stepPy, M44Machine.step, inverse_is_textbook]

/-- the determinant of the object after ANY history of `*=`, `m *= m`, `transpose()`, `inverse()` calls: multiply,
    square, keep, invert - a failing `inverse()` (determinant 0) changes nothing -/
theorem m44_history_det (s : M44) (ops : List M44Machine.Op) :
    M44.det (M44Machine.run s ops) = ops.foldl M44Machine.detStep (M44.det s) := by
  induction ops generalizing s with
  | nil => rfl
  | cons op rest ih =>
    show M44.det (M44Machine.run (M44Machine.step s op) rest) = _
    rw [ih]
    simp only [List.foldl_cons]
    congr 1
    cases op with
    | imul o => exact det_mul s o
    | imulSelf => exact det_mul s s
    | transpose => exact (transpose_laws s s).2.1
    | inverse =>
      simp only [M44Machine.step, M44Machine.detStep]
      rcases inverse_total s with ⟨h0, he⟩ | ⟨h0, i, hi, _, hr, _⟩
      · rw [he]; rw [determinant_is_textbook] at h0; simp [h0]
      · rw [hi]
        rw [determinant_is_textbook] at h0
        have : M44.det s * M44.det i = 1 := by rw [← det_mul, hr, det_identity]
        simp only [if_neg h0]
        field_simp
        linarith

/-- `inverse()` twice and `transpose()` twice give the object back - for EVERY matrix (a singular one raises twice
    and is never touched); inverting after `*= o` is o⁻¹·m⁻¹ -/
theorem m44_history_undo (s o : M44) :
    M44Machine.run s [.inverse, .inverse] = s ∧ M44Machine.run s [.transpose, .transpose] = s
    ∧ (Matrix44Pyx.determinant s ≠ 0 → Matrix44Pyx.determinant o ≠ 0 →
        M44Machine.run s [.imul o, .inverse] = M44.mul (invOr o) (invOr s)) := by
  refine ⟨?_, rfl, ?_⟩
  · simp only [M44Machine.run, List.foldl_cons, List.foldl_nil, M44Machine.step]
    rcases inverse_total s with ⟨h0, he⟩ | ⟨h0, i, hi, _, _, _⟩
    · rw [he]; simp only [he]
    · obtain ⟨i', hi', hii, _⟩ := inverse_laws s h0
      rw [hi] at hi'; cases hi'
      rw [hi]; simp only [hii]
  · intro hs ho
    obtain ⟨is_, io, his, hio, hprod⟩ := inverse_mul s o hs ho
    simp only [M44Machine.run, List.foldl_cons, List.foldl_nil, M44Machine.step]
    have : Matrix44Pyx.imul s o = Matrix44Pyx.mul s o := rfl
    rw [this, hprod]
    have e1 : invOr s = is_ := by
      have := inverse_is_textbook s; rw [his] at this; simp only [invOr, ← this]
    have e2 : invOr o = io := by
      have := inverse_is_textbook o; rw [hio] at this; simp only [invOr, ← this]
    rw [e1, e2]

example : M44Machine.run ⟨1, 2, 0, 0, 3, 1, 0, 0, 0, 0, 1, 0, 4, 5, 6, 1⟩ [.imulSelf, .transpose, .inverse, .inverse, .transpose]
    = ⟨7, 4, 0, 0, 6, 7, 0, 0, 0, 0, 1, 0, 23, 18, 12, 1⟩ := by decide +kernel

/-! ## 20. Accessors and the normalising direction transform -/

/-- `get_row(i)` / `get_col(i)` read rows of the matrix / of its transpose; `get_2d_transformation` undoes
    `from_2d_transformation`; both twins -/
theorem accessors_spec (m : M44) (a b c d e f : Rat) :
    Matrix44Pyx.getRow m = ((m.m0, m.m1, m.m2, m.m3), (m.m4, m.m5, m.m6, m.m7), (m.m8, m.m9, m.m10, m.m11), (m.m12, m.m13, m.m14, m.m15))
    ∧ Matrix44Pyx.getCol m = Matrix44Pyx.getRow (M44.transpose m)
    ∧ Matrix44Pyx.get2d (Matrix44Pyx.from2d a b c d e f) = (a, b, 0, c, d, 0, e, f, 1)
    ∧ Matrix44Py.getRow = Matrix44Pyx.getRow ∧ Matrix44Py.getCol = Matrix44Pyx.getCol ∧ Matrix44Py.get2d = Matrix44Pyx.get2d :=
  ⟨rfl, rfl, rfl, rfl, rfl, rfl⟩

/-- `transform_direction(v, normalize=True)`: the transformed direction divided by its length r: unit length, parallel
    to the plain `transform_direction`; a direction that is mapped to the null vector raises ZeroDivisionError -/
theorem transform_direction_normalized (m : M44) (v : V3) (r : Rat) (hr : r * r = Matrix44Pyx.transformDirectionN_rad1 m v) :
    (r = 0 → Matrix44Pyx.transformDirectionN m v r = .error .zeroDivision)
    ∧ (r ≠ 0 → ∃ u, Matrix44Pyx.transformDirectionN m v r = .ok u ∧ Matrix44Py.transformDirectionN m v r = .ok u
        ∧ u = V3.smul (1 / r) (Matrix44Pyx.transformDirection m v) ∧ V3.dot u u = 1) := by
  simp only [Matrix44Pyx.transformDirectionN_rad1] at hr
  constructor
  · intro h; simp [Matrix44Pyx.transformDirectionN, h]
  · intro h
    refine ⟨_, by simp only [Matrix44Pyx.transformDirectionN, if_neg h]; rfl,
      by simp only [Matrix44Py.transformDirectionN, if_neg h], ?_, ?_⟩
    · simp only [V3.smul, Matrix44Pyx.transformDirection, V3.mk.injEq]; refine ⟨?_, ?_, ?_⟩ <;> ring
    · simp only [V3.dot]; field_simp; linarith

/-- truth value of a vector: `bool(v)` is `not v.is_null` (all |components| ≤ 1e-12 ⇒ False) in both twins, 2-D and 3-D;
    `k * p = p * k` for Vec2 -/
theorem bool_spec (a : V3) (p : V2) (k : Rat) :
    VectorPyx.v3bool a = !VectorPyx.v3isnull a ∧ VectorPy.v3bool a = !VectorPyx.v3isnull a
    ∧ VectorPyx.v2bool p = !VectorPyx.v2isnull p ∧ VectorPy.v2bool p = !VectorPyx.v2isnull p
    ∧ VectorPyx.v3bool ⟨0, 0, 0⟩ = false ∧ VectorPyx.v2bool ⟨0, 0⟩ = false
    ∧ VectorPyx.v2rmul p k = VectorPyx.v2mul p k ∧ VectorPy.v2rmul p k = VectorPyx.v2mul p k := by
  exact ⟨rfl, rfl, rfl, rfl, by decide +kernel, by decide +kernel, rfl, rfl⟩

/-! ## 21. copy() and the cartesian predicate on the results of the factories -/

/-- `UCS.copy()`: a new UCS from (origin, ux, uy, uz) - each axis row divided by its own length, the 4th column reset
    to (0, 0, 0, 1) ("scaling gets lost by copying", docstring); a null axis raises; the copy of a CARTESIAN UCS is the
    UCS itself (all three roots are 1) -/
theorem ucs_copy_spec (s : M44) (r1 r2 r3 : Rat) :
    ((r1 = 0 ∨ r2 = 0 ∨ r3 = 0) → UcsPyx.ucsCopy s r1 r2 r3 = .error .zeroDivision)
    ∧ (r1 ≠ 0 → r2 ≠ 0 → r3 ≠ 0 →
        UcsPyx.ucsCopy s r1 r2 r3 = .ok (Matrix44Pyx.ucs (V3.smul (1 / r1) s.ux) (V3.smul (1 / r2) s.uy) (V3.smul (1 / r3) s.uz) s.origin)
        ∧ UcsPy.ucsCopy s r1 r2 r3 = UcsPyx.ucsCopy s r1 r2 r3)
    ∧ (IsRigid s → UcsPyx.ucsCopy_rad1 s = 1 ∧ UcsPyx.ucsCopy_rad2 s 1 = 1 ∧ UcsPyx.ucsCopy_rad3 s 1 1 = 1
        ∧ UcsPyx.ucsCopy s 1 1 1 = .ok s) := by
  refine ⟨?_, ?_, ?_⟩
  · rintro (h | h | h)
    · simp [UcsPyx.ucsCopy, h]
    · by_cases h1 : r1 = 0 <;> simp [UcsPyx.ucsCopy, h, h1]
    · by_cases h1 : r1 = 0 <;> by_cases h2 : r2 = 0 <;> simp [UcsPyx.ucsCopy, h, h1, h2]
  · intro n1 n2 n3
    refine ⟨?_, rfl⟩
    simp only [UcsPyx.ucsCopy, if_neg n1, if_neg n2, if_neg n3, Matrix44Pyx.ucs, V3.smul, M44.ux, M44.uy, M44.uz, M44.origin,
      Except.ok.injEq, M44.mk.injEq]
    refine ⟨?_, ?_, ?_, ?_, ?_, ?_, ?_, ?_, ?_, ?_, ?_, ?_, ?_, ?_, ?_, ?_⟩ <;> first | trivial | ring
  · rintro ⟨⟨h3, h7, h11, h15⟩, hxx, hyy, hzz, _, _, _⟩
    simp only [V3.dot, M44.ux, M44.uy, M44.uz] at hxx hyy hzz
    refine ⟨hxx, hyy, hzz, ?_⟩
    have one : (1 : Rat) ≠ 0 := one_ne_zero
    simp only [UcsPyx.ucsCopy, if_neg one, Except.ok.injEq]
    cases s
    simp only at h3 h7 h11 h15
    subst h3 h7 h11 h15
    simp

/-- the results of `rotate` / `rotate_local_z` of a right-handed cartesian UCS answer `is_cartesian` with True -/
theorem ucs_rotate_is_cartesian (s : M44) (axis : V3) (c sn r1 : Rat) (hs : IsRigid s) (hdet : M44.det s = 1)
    (hcs : c * c + sn * sn = 1) (hr : r1 * r1 = Matrix44Pyx.axisRotate_rad1 axis c sn) (hr0 : r1 ≠ 0) :
    (∃ m, UcsPyx.ucsRotate s axis c sn r1 1 1 1 = .ok m ∧ UcsPyx.ucsIsCartesian m 1 1 = .ok true
        ∧ V3.cross m.ux m.uy = m.uz)
    ∧ (∃ m, UcsPyx.ucsRotateLocalZ s c sn 1 1 1 = .ok m ∧ UcsPyx.ucsIsCartesian m 1 1 = .ok true
        ∧ V3.cross m.ux m.uy = m.uz) := by
  obtain ⟨h1, _, h2⟩ := ucs_rotate_cartesian s axis c sn r1 hs hcs
  constructor
  · obtain ⟨_, m, _, _, _, _, hm, _, _, _, _, _, hrig, hd⟩ := h1 hr hr0
    have hx : V3.cross m.ux m.uy = m.uz := by
      rw [(rigid_handedness m hrig).1, hd, hdet]; cases m; simp [V3.smul, M44.uz]
    refine ⟨m, hm, ?_, hx⟩
    rw [(frame_predicates_spec m 1 1 1).2.2.2.1]
    exact ((frame_predicates_spec m 1 1 1).2.2.1 hrig hx).1
  · obtain ⟨_, m, _, _, _, hm, _, _, _, _, _, hrig, hd⟩ := h2
    have hx : V3.cross m.ux m.uy = m.uz := by
      rw [(rigid_handedness m hrig).1, hd, hdet]; cases m; simp [V3.smul, M44.uz]
    refine ⟨m, hm, ?_, hx⟩
    rw [(frame_predicates_spec m 1 1 1).2.2.2.1]
    exact ((frame_predicates_spec m 1 1 1).2.2.1 hrig hx).1

set_option maxRecDepth 4000 in
/-- `rotate_local_x` / `rotate_local_y` of a CARTESIAN UCS: the own axis is kept, the other two are the rows of s·R,
    all roots are 1, the result is cartesian with the origin and the handedness of s (z: `ucs_rotate_cartesian`) -/
theorem ucs_rotate_local_xy_cartesian (s : M44) (c sn : Rat) (hs : IsRigid s) (hcs : c * c + sn * sn = 1) :
    (Matrix44Pyx.axisRotate_rad1 s.ux c sn = 1
      ∧ ∃ R m, Matrix44Pyx.axisRotate s.ux c sn 1 = .ok R
        ∧ UcsPyx.ucsRotateLocalX_rad2 s c sn 1 = 1 ∧ UcsPyx.ucsRotateLocalX_rad3 s c sn 1 1 = 1
        ∧ UcsPyx.ucsRotateLocalX s c sn 1 1 1 = .ok m ∧ UcsPy.ucsRotateLocalX s c sn 1 1 1 = .ok m
        ∧ m.origin = s.origin ∧ m.ux = s.ux ∧ m.uy = (M44.mul s R).uy ∧ m.uz = (M44.mul s R).uz
        ∧ IsRigid m ∧ M44.det m = M44.det s)
    ∧ (Matrix44Pyx.axisRotate_rad1 s.uy c sn = 1
      ∧ ∃ R m, Matrix44Pyx.axisRotate s.uy c sn 1 = .ok R
        ∧ UcsPyx.ucsRotateLocalY_rad2 s c sn 1 = 1 ∧ UcsPyx.ucsRotateLocalY_rad3 s c sn 1 1 = 1
        ∧ UcsPyx.ucsRotateLocalY s c sn 1 1 1 = .ok m ∧ UcsPy.ucsRotateLocalY s c sn 1 1 1 = .ok m
        ∧ m.origin = s.origin ∧ m.uy = s.uy ∧ m.ux = (M44.mul s R).ux ∧ m.uz = (M44.mul s R).uz
        ∧ IsRigid m ∧ M44.det m = M44.det s) := by
  have one : (1 : Rat) ≠ 0 := one_ne_zero
  have h3 := hs.1.1
  have h7 := hs.1.2.1
  have h11 := hs.1.2.2.1
  constructor
  · have hxx : Matrix44Pyx.axisRotate_rad1 s.ux c sn = 1 := by
      have := hs.2.1
      simp only [V3.dot] at this
      simp only [Matrix44Pyx.axisRotate_rad1]; exact this
    refine ⟨hxx, ?_⟩
    obtain ⟨R, hR, hRT, hRdet, hRa, hfix, _⟩ := axis_rotate_spec s.ux c sn 1 hcs (by rw [hxx]; ring) one
    have hRr : IsRigid R := rigid_of_mul_transpose R hRa hRT
    have hP : IsRigid (M44.mul s R) :=
      ucs_history_rigid s [Op.transform R] hs (by intro op hop; simp only [List.mem_singleton] at hop; subst hop; exact hRr)
    have hdetP : M44.det (M44.mul s R) = M44.det s := by rw [det_mul, hRdet, mul_one]
    obtain ⟨_, ⟨R', hR', hk, hk'⟩, _, _⟩ := ucs_rotate_structure s s.ux c sn 1 1 1 1 h3 h7 h11 one one one one
    rw [hR] at hR'; cases hR'
    rw [smul_one', smul_one', smul_one'] at hk
    have hz : (M44.mul s R).ux = s.ux := by
      have h0 : R.m12 = 0 ∧ R.m13 = 0 ∧ R.m14 = 0 := by
        have hRe := hR
        simp only [Matrix44Pyx.axisRotate, if_neg one, Except.ok.injEq] at hRe
        rw [← hRe]; exact ⟨rfl, rfl, rfl⟩
      simp only [Matrix44Pyx.transform, M44.ux, V3.mk.injEq] at hfix
      obtain ⟨f1, f2, f3⟩ := hfix
      simp only [M44.ux, M44.mul, V3.mk.injEq, h3]
      refine ⟨by linear_combination f1 - h0.1, by linear_combination f2 - h0.2.1, by linear_combination f3 - h0.2.2⟩
    rw [← hz] at hk
    obtain ⟨hm1, hm2⟩ := rigid_ucs_rows (M44.mul s R) s.origin hP
    have hRe := hR
    simp only [Matrix44Pyx.axisRotate, if_neg one, Except.ok.injEq] at hRe
    obtain ⟨_, _, pyy, pzz, _, _, _⟩ := hP
    refine ⟨R, _, hR, ?_, ?_, hk, by rw [hk', hk], rfl, hz, rfl, rfl, hm1, by rw [hm2, hdetP]⟩
    · refine Eq.trans ?_ pyy; rw [← hRe]; simp only [UcsPyx.ucsRotateLocalX_rad2, V3.dot, M44.ux, M44.uy, M44.mul]; ring
    · refine Eq.trans ?_ pzz; rw [← hRe]; simp only [UcsPyx.ucsRotateLocalX_rad3, V3.dot, M44.ux, M44.uz, M44.mul]; ring
  · have hyy : Matrix44Pyx.axisRotate_rad1 s.uy c sn = 1 := by
      have := hs.2.2.1
      simp only [V3.dot] at this
      simp only [Matrix44Pyx.axisRotate_rad1]; exact this
    refine ⟨hyy, ?_⟩
    obtain ⟨R, hR, hRT, hRdet, hRa, hfix, _⟩ := axis_rotate_spec s.uy c sn 1 hcs (by rw [hyy]; ring) one
    have hRr : IsRigid R := rigid_of_mul_transpose R hRa hRT
    have hP : IsRigid (M44.mul s R) :=
      ucs_history_rigid s [Op.transform R] hs (by intro op hop; simp only [List.mem_singleton] at hop; subst hop; exact hRr)
    have hdetP : M44.det (M44.mul s R) = M44.det s := by rw [det_mul, hRdet, mul_one]
    obtain ⟨_, _, ⟨R', hR', hk, hk'⟩, _⟩ := ucs_rotate_structure s s.uy c sn 1 1 1 1 h3 h7 h11 one one one one
    rw [hR] at hR'; cases hR'
    rw [smul_one', smul_one', smul_one'] at hk
    have hz : (M44.mul s R).uy = s.uy := by
      have h0 : R.m12 = 0 ∧ R.m13 = 0 ∧ R.m14 = 0 := by
        have hRe := hR
        simp only [Matrix44Pyx.axisRotate, if_neg one, Except.ok.injEq] at hRe
        rw [← hRe]; exact ⟨rfl, rfl, rfl⟩
      simp only [Matrix44Pyx.transform, M44.uy, V3.mk.injEq] at hfix
      obtain ⟨f1, f2, f3⟩ := hfix
      simp only [M44.uy, M44.mul, V3.mk.injEq, h7]
      refine ⟨by linear_combination f1 - h0.1, by linear_combination f2 - h0.2.1, by linear_combination f3 - h0.2.2⟩
    rw [← hz] at hk
    obtain ⟨hm1, hm2⟩ := rigid_ucs_rows (M44.mul s R) s.origin hP
    have hRe := hR
    simp only [Matrix44Pyx.axisRotate, if_neg one, Except.ok.injEq] at hRe
    obtain ⟨_, pxx, _, pzz, _, _, _⟩ := hP
    refine ⟨R, _, hR, ?_, ?_, hk, by rw [hk', hk], rfl, hz, rfl, rfl, hm1, by rw [hm2, hdetP]⟩
    · refine Eq.trans ?_ pxx; rw [← hRe]; simp only [UcsPyx.ucsRotateLocalY_rad2, V3.dot, M44.ux, M44.uy, M44.mul]; ring
    · refine Eq.trans ?_ pzz; rw [← hRe]; simp only [UcsPyx.ucsRotateLocalY_rad3, V3.dot, M44.uy, M44.uz, M44.mul]; ring

/-! ## 22. `UCS(origin, ux, uy, uz)` with axes of ANY length -/

/-- all three axes given ("unit vectors don't have to be normalized, normalization is done at initialization"):
    whatever the lengths r1, r2, r3 > 0 of the given axes, the stored axes are unit vectors parallel to them; if the
    given axes are pairwise perpendicular the UCS is orthonormal and `from_wcs` / `to_wcs` are mutually inverse
    (points and directions); the stored frame does not depend on the lengths of the given axes -/
theorem ucs_init_xyz_normalizes (o a b c p : V3) (r1 r2 r3 : Rat) (h1 : 0 < r1) (h2 : 0 < r2) (h3 : 0 < r3)
    (e1 : r1 * r1 = UcsPyx.ucsInitXYZ_rad1 o a b c) (e2 : r2 * r2 = UcsPyx.ucsInitXYZ_rad2 o a b c r1)
    (e3 : r3 * r3 = UcsPyx.ucsInitXYZ_rad3 o a b c r1 r2) :
    ∃ m, UcsPyx.ucsInitXYZ o a b c r1 r2 r3 = .ok m ∧ UcsPy.ucsInitXYZ o a b c r1 r2 r3 = .ok m
      ∧ m.origin = o ∧ M44.IsAffine m
      ∧ V3.dot m.ux m.ux = 1 ∧ V3.dot m.uy m.uy = 1 ∧ V3.dot m.uz m.uz = 1
      ∧ m.ux = V3.smul (1 / r1) a ∧ m.uy = V3.smul (1 / r2) b ∧ m.uz = V3.smul (1 / r3) c
      ∧ (V3.dot a b = 0 → V3.dot a c = 0 → V3.dot b c = 0 →
          Orthonormal m
          ∧ UcsPyx.ucsFromWcs m (UcsPyx.ucsToWcs m p) = p ∧ UcsPyx.ucsToWcs m (UcsPyx.ucsFromWcs m p) = p
          ∧ UcsPyx.ucsDirectionFromWcs m (UcsPyx.ucsDirectionToWcs m p) = p)
      ∧ (∀ k1 k2 k3 : Rat, 0 < k1 → 0 < k2 → 0 < k3 →
          UcsPyx.ucsInitXYZ o (V3.smul k1 a) (V3.smul k2 b) (V3.smul k3 c) (k1 * r1) (k2 * r2) (k3 * r3) = .ok m) := by
  have n1 : r1 ≠ 0 := ne_of_gt h1
  have n2 : r2 ≠ 0 := ne_of_gt h2
  have n3 : r3 ≠ 0 := ne_of_gt h3
  obtain ⟨⟨m, hm, hm', ho, hx, hy, hz⟩, _, _⟩ := ucs_init_rows o a b c r1 r2 r3 n1 n2 n3
  simp only [UcsPyx.ucsInitXYZ_rad1, UcsPyx.ucsInitXYZ_rad2, UcsPyx.ucsInitXYZ_rad3] at e1 e2 e3
  have hxx : V3.dot m.ux m.ux = 1 := by rw [hx]; simp only [V3.dot, V3.smul]; field_simp; linarith
  have hyy : V3.dot m.uy m.uy = 1 := by rw [hy]; simp only [V3.dot, V3.smul]; field_simp; linarith
  have hzz : V3.dot m.uz m.uz = 1 := by rw [hz]; simp only [V3.dot, V3.smul]; field_simp; linarith
  have haff : M44.IsAffine m := by
    have := hm
    simp only [UcsPyx.ucsInitXYZ, if_neg n1, if_neg n2, if_neg n3, Except.ok.injEq] at this
    rw [← this]; simp [M44.IsAffine]
  refine ⟨m, hm, hm', ho, haff, hxx, hyy, hzz, hx, hy, hz, ?_, ?_⟩
  · intro hab hac hbc
    have hon : Orthonormal m := by
      refine ⟨hxx, hyy, hzz, ?_, ?_, ?_⟩
      · rw [hx, hy]; simp only [V3.dot, V3.smul] at hab ⊢; field_simp; linarith
      · rw [hx, hz]; simp only [V3.dot, V3.smul] at hac ⊢; field_simp; linarith
      · rw [hy, hz]; simp only [V3.dot, V3.smul] at hbc ⊢; field_simp; linarith
    obtain ⟨r1', r2', r3', _⟩ := ucs_roundtrip m hon p
    exact ⟨hon, r1', r2', r3'⟩
  · intro k1 k2 k3 hk1 hk2 hk3
    have nk1 : k1 * r1 ≠ 0 := mul_ne_zero (ne_of_gt hk1) n1
    have nk2 : k2 * r2 ≠ 0 := mul_ne_zero (ne_of_gt hk2) n2
    have nk3 : k3 * r3 ≠ 0 := mul_ne_zero (ne_of_gt hk3) n3
    have hk1' := ne_of_gt hk1
    have hk2' := ne_of_gt hk2
    have hk3' := ne_of_gt hk3
    have hm2 := hm
    simp only [UcsPyx.ucsInitXYZ, if_neg n1, if_neg n2, if_neg n3, Except.ok.injEq] at hm2
    simp only [UcsPyx.ucsInitXYZ, if_neg nk1, if_neg nk2, if_neg nk3, Except.ok.injEq, V3.smul]
    rw [← hm2]
    simp only [M44.mk.injEq]
    refine ⟨?_, ?_, ?_, ?_, ?_, ?_, ?_, ?_, ?_, ?_, ?_, ?_, ?_, ?_, ?_, ?_⟩ <;> first | trivial | (field_simp)

example : UcsPyx.ucsInitXYZ ⟨1, 2, 3⟩ ⟨2, 0, 0⟩ ⟨0, 3, 0⟩ ⟨0, 0, 1/2⟩ 2 3 (1/2) = .ok ⟨1, 0, 0, 0, 0, 1, 0, 0, 0, 0, 1, 0, 1, 2, 3, 1⟩ := by
  decide +kernel

/-- the assumption boundary of the pure-Python twin, regenerated: the six NumPy-form methods of `Matrix44` are EXACTLY the
    single NumPy calls (np.matmul, ndarray.T, np.linalg.det, np.linalg.inv with LinAlgError -> ZeroDivisionError) that the
    textbook algebra of Model/Rat3.lean stands for; any other code in these methods (a fast path, a guard, a threshold) is
    not covered by that assumption and makes this theorem false -/
theorem py_numpy_forms :
    UcsAttrs.pyNumpyForms = [
      ("__mul__", "m1 = self._matrix.reshape(4, 4); m2 = other._matrix.reshape(4, 4); result = np.matmul(m1, m2); return self.__class__(np.ravel(result))"),
      ("__imul__", "m1 = self._matrix.reshape(4, 4); m2 = other._matrix.reshape(4, 4); result = np.matmul(m1, m2); self._matrix = np.ravel(result); return self"),
      ("__matmul__", "m1 = self._matrix.reshape(4, 4); m2 = other._matrix.reshape(4, 4); result = np.matmul(m1, m2); return self.__class__(np.ravel(result))"),
      ("transpose", "m = self._matrix.reshape(4, 4); self._matrix = np.ravel(m.T)"),
      ("determinant", "return np.linalg.det(self._matrix.reshape(4, 4))"),
      ("inverse", "try:     inverse = np.linalg.inv(self._matrix.reshape(4, 4)) except np.linalg.LinAlgError:     raise ZeroDivisionError; self._matrix = np.ravel(inverse)")] := by
  decide +kernel

/-! ## 23. Growth round 2: batch forms of OCS, exact bands of the frame predicates -/

/-- `OCS.points_to_wcs` / `points_from_wcs` are the maps of the single-point conversions (pass-through OCS included),
    both linkings; hence mutually inverse lists for an orthonormal OCS matrix -/
theorem ocs_points_spec (t : Bool) (m : M44) (ps : List V3) :
    UcsPyx.ocsPointsToWcs t m ps = ps.map (UcsPyx.ocsToWcs t m)
    ∧ UcsPyx.ocsPointsFromWcs t m ps = ps.map (UcsPyx.ocsFromWcs t m)
    ∧ UcsPy.ocsPointsToWcs t m ps = ps.map (UcsPy.ocsToWcs t m)
    ∧ UcsPy.ocsPointsFromWcs t m ps = ps.map (UcsPy.ocsFromWcs t m)
    ∧ (Orthonormal m → UcsPyx.ocsPointsToWcs t m (UcsPyx.ocsPointsFromWcs t m ps) = ps
        ∧ UcsPyx.ocsPointsFromWcs t m (UcsPyx.ocsPointsToWcs t m ps) = ps) := by
  have eta : ∀ qs : List V3, qs.map (fun e : V3 => (⟨e.x, e.y, e.z⟩ : V3)) = qs := by
    intro qs; induction qs with
    | nil => rfl
    | cons q rest ih => simp only [List.map_cons, ih]
  have h1 : UcsPyx.ocsPointsToWcs t m ps = ps.map (UcsPyx.ocsToWcs t m) := by
    cases t <;> exact List.map_congr_left (fun p _ => rfl)
  have h2 : UcsPyx.ocsPointsFromWcs t m ps = ps.map (UcsPyx.ocsFromWcs t m) := by
    cases t <;> exact List.map_congr_left (fun p _ => rfl)
  refine ⟨h1, h2, ?_, ?_, ?_⟩
  · cases t <;> exact List.map_congr_left (fun p _ => rfl)
  · cases t <;> exact List.map_congr_left (fun p _ => rfl)
  · intro ho
    have key := fun p => ocs_roundtrip t m ho p
    constructor
    · have h1' : ∀ qs : List V3, UcsPyx.ocsPointsToWcs t m qs = qs.map (UcsPyx.ocsToWcs t m) := by
        intro qs; cases t <;> exact List.map_congr_left (fun p _ => rfl)
      rw [h2, h1', List.map_map]
      conv_rhs => rw [← List.map_id ps]
      apply List.map_congr_left
      intro p _
      exact (key p).1
    · have h2' : ∀ qs : List V3, UcsPyx.ocsPointsFromWcs t m qs = qs.map (UcsPyx.ocsFromWcs t m) := by
        intro qs; cases t <;> exact List.map_congr_left (fun p _ => rfl)
      rw [h1, h2', List.map_map]
      conv_rhs => rw [← List.map_id ps]
      apply List.map_congr_left
      intro p _
      exact (key p).2.1

private theorem dot_norm' (a b c d e f s t : Rat) :
    a * (1 / s) * (b * (1 / t)) + c * (1 / s) * (d * (1 / t)) + e * (1 / s) * (f * (1 / t))
      = (a * b + c * d + e * f) * ((1 / s) * (1 / t)) := by ring

/-- EXACT band of `is_orthogonal`: with r1, r2, r3 the lengths of the three axis rows it answers True exactly when each of
    the three normalised dot products is within 1e-9 (the double nearest to it) in absolute value - so one pair of axes
    with a larger normalised dot product makes it False -/
theorem is_orthogonal_band (m : M44) (r1 r2 r3 : Rat) (n1 : r1 ≠ 0) (n2 : r2 ≠ 0) (n3 : r3 ≠ 0) :
    Matrix44Pyx.isOrthogonal m r1 r2 r3 = .ok
      ((decide (pyAbs (V3.dot m.ux m.uy * ((1 / r1) * (1 / r2))) ≤ (4835703278458517 : Rat) / 4835703278458516698824704)
        && decide (pyAbs (V3.dot m.ux m.uz * ((1 / r1) * (1 / r3))) ≤ (4835703278458517 : Rat) / 4835703278458516698824704))
        && decide (pyAbs (V3.dot m.uy m.uz * ((1 / r2) * (1 / r3))) ≤ (4835703278458517 : Rat) / 4835703278458516698824704))
    ∧ Matrix44Py.isOrthogonal m r1 r2 r3 = Matrix44Pyx.isOrthogonal m r1 r2 r3
    ∧ ((4835703278458517 : Rat) / 4835703278458516698824704 < pyAbs (V3.dot m.ux m.uy * ((1 / r1) * (1 / r2))) →
        Matrix44Pyx.isOrthogonal m r1 r2 r3 = .ok false) := by
  have h : Matrix44Pyx.isOrthogonal m r1 r2 r3 = .ok
      ((decide (pyAbs (V3.dot m.ux m.uy * ((1 / r1) * (1 / r2))) ≤ (4835703278458517 : Rat) / 4835703278458516698824704)
        && decide (pyAbs (V3.dot m.ux m.uz * ((1 / r1) * (1 / r3))) ≤ (4835703278458517 : Rat) / 4835703278458516698824704))
        && decide (pyAbs (V3.dot m.uy m.uz * ((1 / r2) * (1 / r3))) ≤ (4835703278458517 : Rat) / 4835703278458516698824704)) := by
    simp only [Matrix44Pyx.isOrthogonal, if_neg n1, if_neg n2, if_neg n3, dot_norm', V3.dot, M44.ux, M44.uy, M44.uz]
    rfl
  refine ⟨h, rfl, ?_⟩
  intro hgt
  rw [h]
  have : ¬ (pyAbs (V3.dot m.ux m.uy * ((1 / r1) * (1 / r2))) ≤ (4835703278458517 : Rat) / 4835703278458516698824704) := not_le.mpr hgt
  rw [decide_eq_false this, Bool.false_and, Bool.false_and]

/-- negative direction of `is_cartesian`: a LEFT-handed orthonormal frame (ux × uy = −uz) answers False -/
theorem is_cartesian_left_handed (m : M44) (hr : IsRigid m) (hl : V3.cross m.ux m.uy = V3.smul (-1) m.uz) :
    Matrix44Pyx.isCartesian m 1 1 = .ok false := by
  obtain ⟨_, hxx, hyy, hzz, hxy, hxz, hyz⟩ := hr
  simp only [V3.dot, V3.cross, V3.smul, M44.ux, M44.uy, M44.uz, V3.mk.injEq] at hxx hyy hzz hxy hxz hyz hl
  obtain ⟨h8, h9, h10⟩ := hl
  have e8 : m.m8 = -(m.m1 * m.m6 - m.m2 * m.m5) := by linarith
  have e9 : m.m9 = -(m.m2 * m.m4 - m.m0 * m.m6) := by linarith
  have e10 : m.m10 = -(m.m0 * m.m5 - m.m1 * m.m4) := by linarith
  have ex : m.m5 * m.m10 - m.m6 * m.m9 = -m.m0 := by
    rw [e10, e9]; linear_combination (-m.m0) * hyy + (m.m4) * hxy
  have ey : m.m6 * m.m8 - m.m4 * m.m10 = -m.m1 := by
    rw [e10, e8]; linear_combination (-m.m1) * hyy + (m.m5) * hxy
  have ez : m.m4 * m.m9 - m.m5 * m.m8 = -m.m2 := by
    rw [e9, e8]; linear_combination (-m.m2) * hyy + (m.m6) * hxy
  simp only [Matrix44Pyx.isCartesian, if_neg (one_ne_zero), ex, ey, ez, Except.ok.injEq]
  -- some component of the unit vector ux has |u| ≥ 1/2; there the comparison of u with −u fails
  by_contra hne
  have htrue : ∀ u : Rat,
      (((decide (pyAbs (u * (1 / 1) - -u * (1 / 1)) ≤ pyAbs ((4835703278458517 : Rat) / 4835703278458516698824704 * (u * (1 / 1))))
        || decide (pyAbs (u * (1 / 1) - -u * (1 / 1)) ≤ pyAbs ((4835703278458517 : Rat) / 4835703278458516698824704 * (-u * (1 / 1)))))
        || decide (pyAbs (u * (1 / 1) - -u * (1 / 1)) ≤ (4951760157141521 : Rat) / 4951760157141521099596496896)) = true)
      → u * u ≤ 1 / 1000000 := by
    intro u hu
    simp only [Bool.or_eq_true, decide_eq_true_eq, mul_one, div_one] at hu
    have habs : ∀ x : Rat, pyAbs x = |x| := by intro x; unfold pyAbs; split <;> [exact (abs_of_nonneg ‹_›).symm; exact (abs_of_neg (lt_of_not_ge ‹_›)).symm]
    simp only [habs, sub_neg_eq_add, abs_mul, abs_neg] at hu
    have h2 : |u + u| = 2 * |u| := by rw [← two_mul, abs_mul]; norm_num
    rw [h2] at hu
    have hk : |(4835703278458517 : Rat) / 4835703278458516698824704| = (4835703278458517 : Rat) / 4835703278458516698824704 := abs_of_pos (by norm_num)
    rw [hk] at hu
    have hu0 := abs_nonneg u
    have hsmall : |u| ≤ 1 / 1000 := by
      rcases hu with (h | h) | h <;> nlinarith
    have : u * u = |u| * |u| := (abs_mul_abs_self u).symm
    rw [this]; nlinarith
  rw [Bool.not_eq_false] at hne
  simp only [Bool.and_eq_true] at hne
  obtain ⟨⟨a1, a2⟩, a3⟩ := hne
  have b1 := htrue m.m0 a1
  have b2 := htrue m.m1 a2
  have b3 := htrue m.m2 a3
  nlinarith

example : Matrix44Pyx.isCartesian ⟨1, 0, 0, 0, 0, 1, 0, 0, 0, 0, -1, 0, 0, 0, 0, 1⟩ 1 1 = .ok false := by decide +kernel

/-! ## 24. Growth round 2: angle_between clamping, rotate, project, consistency of ==/isclose, perspective -/

private theorem clamp_ind {P : Except PyErr Rat → Prop} (x : Rat)
    (h1 : x < -1 → P (.ok (-1))) (h2 : ¬ x < -1 → 1 < x → P (.ok 1)) (h3 : ¬ x < -1 → ¬ 1 < x → P (.ok x)) :
    P (if x < (-1 : Rat) then .ok (-1 : Rat) else if 1 < x then .ok 1 else .ok x) := by
  by_cases a : x < -1
  · rw [if_pos a]; exact h1 a
  · rw [if_neg a]
    by_cases b : 1 < x
    · rw [if_pos b]; exact h2 a b
    · rw [if_neg b]; exact h3 a b

/-- `angle_between` up to the call of acos (the kernel is translated with acos returning its ARGUMENT): a null operand
    raises ZeroDivisionError; otherwise the value handed to acos is the normalised dot product clamped into [−1, 1];
    with the exact lengths r1 = |a|, r2 = |b| the clamp is never active (Cauchy–Schwarz) - it only absorbs float noise -,
    the value is symmetric in a and b, and it is exactly 1 for b = k·a, k > 0 -/
theorem angle_between_spec (a b : V3) (r1 r2 : Rat) :
    ((r1 = 0 ∨ r2 = 0) → VectorPyx.v3cosBetween a b r1 r2 = .error .zeroDivision)
    ∧ (r1 ≠ 0 → r2 ≠ 0 → ∃ c, VectorPyx.v3cosBetween a b r1 r2 = .ok c ∧ VectorPy.v3cosBetween a b r1 r2 = .ok c
        ∧ -1 ≤ c ∧ c ≤ 1
        ∧ (0 < r1 → 0 < r2 → r1 * r1 = V3.dot a a → r2 * r2 = V3.dot b b →
            c = V3.dot a b * ((1 / r1) * (1 / r2)) ∧ VectorPyx.v3cosBetween b a r2 r1 = .ok c)) := by
  constructor
  · rintro (h | h)
    · simp [VectorPyx.v3cosBetween, h]
    · by_cases h1 : r1 = 0 <;> simp [VectorPyx.v3cosBetween, h, h1]
  · intro n1 n2
    have hpy : VectorPy.v3cosBetween a b r1 r2 = VectorPyx.v3cosBetween a b r1 r2 := rfl
    rw [hpy]
    simp only [VectorPyx.v3cosBetween, if_neg n1, if_neg n2, if_neg n2, if_neg n1]
    have hx : a.x * (1 / r1) * (b.x * (1 / r2)) + a.y * (1 / r1) * (b.y * (1 / r2)) + a.z * (1 / r1) * (b.z * (1 / r2))
        = V3.dot a b * ((1 / r1) * (1 / r2)) := by simp only [V3.dot]; ring
    have hy : b.x * (1 / r2) * (a.x * (1 / r1)) + b.y * (1 / r2) * (a.y * (1 / r1)) + b.z * (1 / r2) * (a.z * (1 / r1))
        = V3.dot a b * ((1 / r1) * (1 / r2)) := by simp only [V3.dot]; ring
    rw [hx, hy]
    have hL : V3.dot a b * V3.dot a b ≤ V3.dot a a * V3.dot b b := by
      simp only [V3.dot]
      nlinarith [sq_nonneg (a.x * b.y - a.y * b.x), sq_nonneg (a.y * b.z - a.z * b.y), sq_nonneg (a.z * b.x - a.x * b.z)]
    have hsq : 0 < r1 → 0 < r2 → r1 * r1 = V3.dot a a → r2 * r2 = V3.dot b b →
        (V3.dot a b * ((1 / r1) * (1 / r2))) * (V3.dot a b * ((1 / r1) * (1 / r2))) ≤ 1 := by
      intro p1 p2 e1 e2
      have hpos : 0 < r1 * r1 * (r2 * r2) := by positivity
      have : (V3.dot a b * ((1 / r1) * (1 / r2))) * (V3.dot a b * ((1 / r1) * (1 / r2))) * (r1 * r1 * (r2 * r2))
          = V3.dot a b * V3.dot a b := by field_simp
      rw [← e1, ← e2] at hL
      by_contra hgt
      rw [not_le] at hgt
      nlinarith
    generalize V3.dot a b * ((1 / r1) * (1 / r2)) = x at hsq ⊢
    by_cases c1 : x < -1
    · rw [if_pos c1]
      refine ⟨-1, rfl, rfl, le_refl _, by norm_num, ?_⟩
      intro p1 p2 e1 e2
      have := hsq p1 p2 e1 e2
      exfalso; nlinarith
    · rw [if_neg c1]
      by_cases c2 : 1 < x
      · rw [if_pos c2]
        refine ⟨1, rfl, rfl, by norm_num, le_refl _, ?_⟩
        intro p1 p2 e1 e2
        have := hsq p1 p2 e1 e2
        exfalso; nlinarith
      · rw [if_neg c2]
        exact ⟨x, rfl, rfl, le_of_not_gt c1, le_of_not_gt c2, fun _ _ _ _ => ⟨rfl, rfl⟩⟩

/-- `rotate(θ)` about the z-axis (implemented as from_angle(atan2(y, x) + θ, hypot(x, y)); atan2 enters through its
    defining identities cos = x/r, sin = y/r, atan2(0,0) = 0): for EVERY vector (r = hypot(x, y), the null xy-part
    included) it is the rotation (x c − y s, x s + y c, z); it keeps the length when c² + s² = 1; Vec2 likewise;
    `rotate_deg` (Python twin) is the same function of the converted angle -/
theorem rotate_spec (a : V3) (p : V2) (c s r : Rat) (h0 : 0 ≤ r) :
    (r * r = VectorPyx.v3rotate_rad1 a c s →
      VectorPyx.v3rotate a c s r = ⟨a.x * c - a.y * s, a.x * s + a.y * c, a.z⟩
      ∧ VectorPy.v3rotate a c s r = VectorPyx.v3rotate a c s r ∧ VectorPy.v3rotateDeg a c s r = VectorPyx.v3rotate a c s r
      ∧ (c * c + s * s = 1 → VectorPyx.v3magsq (VectorPyx.v3rotate a c s r) = VectorPyx.v3magsq a))
    ∧ (r * r = VectorPyx.v2rotate_rad1 p c s →
      VectorPyx.v2rotate p c s r = ⟨p.x * c - p.y * s, p.x * s + p.y * c⟩
      ∧ VectorPy.v2rotate p c s r = VectorPyx.v2rotate p c s r ∧ VectorPy.v2rotateDeg p c s r = VectorPyx.v2rotate p c s r) := by
  constructor
  · intro hr
    simp only [VectorPyx.v3rotate_rad1] at hr
    have h1 : VectorPyx.v3rotate a c s r = ⟨a.x * c - a.y * s, a.x * s + a.y * c, a.z⟩ := by
      simp only [VectorPyx.v3rotate, V3.mk.injEq]
      by_cases hz : r = 0
      · have hx : a.x = 0 := by rw [hz] at hr; nlinarith [mul_self_nonneg a.x, mul_self_nonneg a.y]
        have hy : a.y = 0 := by rw [hz] at hr; nlinarith [mul_self_nonneg a.x, mul_self_nonneg a.y]
        simp [hz, hx, hy]
      · simp only [if_neg hz]
        refine ⟨?_, ?_, trivial⟩ <;> (field_simp <;> try ring)
    refine ⟨h1, rfl, rfl, ?_⟩
    intro hcs
    rw [h1]
    simp only [VectorPyx.v3magsq]
    linear_combination (a.x * a.x + a.y * a.y) * hcs
  · intro hr
    simp only [VectorPyx.v2rotate_rad1] at hr
    refine ⟨?_, rfl, rfl⟩
    simp only [VectorPyx.v2rotate, V2.mk.injEq]
    by_cases hz : r = 0
    · have hx : p.x = 0 := by rw [hz] at hr; nlinarith [mul_self_nonneg p.x, mul_self_nonneg p.y]
      have hy : p.y = 0 := by rw [hz] at hr; nlinarith [mul_self_nonneg p.x, mul_self_nonneg p.y]
      simp [hz, hx, hy]
    · simp only [if_neg hz]
      refine ⟨?_, ?_⟩ <;> (field_simp <;> try ring)

/-- `project` is idempotent, `==` implies `isclose` (any tolerances), both twins -/
theorem project_idempotent (a b : V3) (r : Rat) (hr : r * r = VectorPyx.v3project_rad1 a b) (h0 : r ≠ 0) :
    ∃ p, VectorPyx.v3project a b r = .ok p ∧ VectorPyx.v3project a p r = .ok p
      ∧ (∀ rel ab : Rat, VectorPyx.v3eq a b = true → VectorPyx.v3isclose2 a b rel ab = true ∧ VectorPyx.v3isclose a b = true
          ∧ VectorPy.v3isclose a b = true) := by
  obtain ⟨p, hp, _, _, _⟩ := project_spec a b r hr h0
  simp only [VectorPyx.v3project_rad1] at hr
  refine ⟨p, hp, ?_, ?_⟩
  · have hu : a.x * (1 / r) * (a.x * (1 / r)) + a.y * (1 / r) * (a.y * (1 / r)) + a.z * (1 / r) * (a.z * (1 / r)) = 1 := by
      field_simp; linarith
    simp only [VectorPyx.v3project, if_neg h0, Except.ok.injEq] at hp ⊢
    subst hp
    generalize a.x * (1 / r) = ux at hu ⊢
    generalize a.y * (1 / r) = uy at hu ⊢
    generalize a.z * (1 / r) = uz at hu ⊢
    simp only [V3.mk.injEq]
    refine ⟨?_, ?_, ?_⟩
    · linear_combination (ux * (ux * b.x + uy * b.y + uz * b.z)) * hu
    · linear_combination (uy * (ux * b.x + uy * b.y + uz * b.z)) * hu
    · linear_combination (uz * (ux * b.x + uy * b.y + uz * b.z)) * hu
  · intro rel ab he
    have hab : a = b := ((eq_spec a b ⟨0, 0⟩ ⟨0, 0⟩ (fun t => t)).1).1 he
    subst hab
    obtain ⟨i1, _, i3, _, i5, _⟩ := isclose_laws a a ⟨0, 0⟩ ⟨0, 0⟩ rel ab
    exact ⟨i1, i3, i5⟩

/-- `perspective_projection(left, right, top, bottom, near, far)`: ZeroDivisionError exactly when right = left or
    top = bottom or far = near; otherwise the OpenGL frustum matrix (row-vector form), whose last column is (0, 0, −1, 0):
    NOT affine - `transform` ignores that column, the perspective division is left to the caller; both twins -/
theorem perspective_spec (l r t b n f : Rat) :
    ((r - l = 0 ∨ t - b = 0 ∨ f - n = 0) → Matrix44Pyx.perspective l r t b n f = .error .zeroDivision)
    ∧ (r - l ≠ 0 → t - b ≠ 0 → f - n ≠ 0 →
        Matrix44Pyx.perspective l r t b n f = .ok ⟨2 * n / (r - l), 0, 0, 0, 0, 2 * n / (t - b), 0, 0,
          (r + l) / (r - l), (t + b) / (t - b), -((f + n) / (f - n)), -1, 0, 0, -(2 * f * n / (f - n)), 0⟩
        ∧ ¬ M44.IsAffine ⟨2 * n / (r - l), 0, 0, 0, 0, 2 * n / (t - b), 0, 0,
          (r + l) / (r - l), (t + b) / (t - b), -((f + n) / (f - n)), -1, 0, 0, -(2 * f * n / (f - n)), 0⟩)
    ∧ Matrix44Py.perspective = Matrix44Pyx.perspective := by
  refine ⟨?_, ?_, rfl⟩
  · rintro (h | h | h)
    · simp [Matrix44Pyx.perspective, h]
    · by_cases h1 : r - l = 0 <;> simp [Matrix44Pyx.perspective, h, h1]
    · by_cases h1 : r - l = 0 <;> by_cases h2 : t - b = 0 <;> simp [Matrix44Pyx.perspective, h, h1, h2]
  · intro h1 h2 h3
    refine ⟨by simp only [Matrix44Pyx.perspective, if_neg h1, if_neg h2, if_neg h3], ?_⟩
    simp [M44.IsAffine]

/-! ## 25. Growth round 2: `rotate_local_z` in closed form, compositions, `to_ocs_angle_*` -/

private theorem m44_ext_rows (a b : M44) (ha : M44.IsAffine a) (hb : M44.IsAffine b)
    (hx : a.ux = b.ux) (hy : a.uy = b.uy) (hz : a.uz = b.uz) (ho : a.origin = b.origin) : a = b := by
  obtain ⟨a3, a7, a11, a15⟩ := ha
  obtain ⟨b3, b7, b11, b15⟩ := hb
  cases a; cases b
  simp only [M44.ux, M44.uy, M44.uz, M44.origin, V3.mk.injEq] at hx hy hz ho
  simp only at a3 a7 a11 a15 b3 b7 b11 b15
  simp only [M44.mk.injEq]
  refine ⟨hx.1, hx.2.1, hx.2.2, by rw [a3, b3], hy.1, hy.2.1, hy.2.2, by rw [a7, b7], hz.1, hz.2.1, hz.2.2, by rw [a11, b11],
    ho.1, ho.2.1, ho.2.2, by rw [a15, b15]⟩

/-- `rotate_local_z(θ)` of a right-handed cartesian UCS in closed form: ux' = cos θ·ux + sin θ·uy,
    uy' = −sin θ·ux + cos θ·uy, uz and the origin are kept; the result is again right-handed cartesian -/
theorem ucs_rotate_local_z_formula (s : M44) (c sn : Rat) (hs : IsRigid s) (hdet : M44.det s = 1)
    (hcs : c * c + sn * sn = 1) :
    ∃ m, UcsPyx.ucsRotateLocalZ s c sn 1 1 1 = .ok m ∧ UcsPy.ucsRotateLocalZ s c sn 1 1 1 = .ok m
      ∧ m.ux = V3.add (V3.smul c s.ux) (V3.smul sn s.uy) ∧ m.uy = V3.add (V3.smul (-sn) s.ux) (V3.smul c s.uy)
      ∧ m.uz = s.uz ∧ m.origin = s.origin ∧ IsRigid m ∧ M44.det m = 1 := by
  obtain ⟨hzz, R, m, hR, _, _, hm, hm', ho, huz, hux, huy, hrig, hd⟩ := (ucs_rotate_cartesian s s.uz c sn 1 hs hcs).2
  have one : (1 : Rat) ≠ 0 := one_ne_zero
  obtain ⟨R', hR', _, _, hRa, _, hrod⟩ := axis_rotate_spec s.uz c sn 1 hcs (by rw [hzz]; ring) one
  rw [hR] at hR'; cases hR'
  have hrh : V3.cross s.ux s.uy = s.uz := by
    rw [(rigid_handedness s hs).1, hdet]; cases s; simp [V3.smul, M44.uz]
  obtain ⟨⟨h3, h7, h11, h15⟩, hxx, hyy, hzz', hxy, hxz, hyz⟩ := hs
  have h0 : R.m12 = 0 ∧ R.m13 = 0 ∧ R.m14 = 0 := by
    have hRe := hR
    simp only [Matrix44Pyx.axisRotate, if_neg one, Except.ok.injEq] at hRe
    rw [← hRe]; exact ⟨rfl, rfl, rfl⟩
  have rowx : (M44.mul s R).ux = Matrix44Pyx.transform R s.ux := by
    simp only [M44.mul, M44.ux, Matrix44Pyx.transform, V3.mk.injEq, h3, h0.1, h0.2.1, h0.2.2]
    refine ⟨?_, ?_, ?_⟩ <;> ring
  have rowy : (M44.mul s R).uy = Matrix44Pyx.transform R s.uy := by
    simp only [M44.mul, M44.uy, Matrix44Pyx.transform, V3.mk.injEq, h7, h0.1, h0.2.1, h0.2.2]
    refine ⟨?_, ?_, ?_⟩ <;> ring
  simp only [V3.dot, V3.cross, M44.ux, M44.uy, M44.uz, V3.mk.injEq] at hxx hyy hzz' hxy hxz hyz hrh
  obtain ⟨r8, r9, r10⟩ := hrh
  refine ⟨m, hm, hm', ?_, ?_, huz, ho, hrig, by rw [hd, hdet]⟩
  · rw [hux, rowx, hrod]
    simp only [V3.add, V3.smul, V3.cross, V3.dot, M44.ux, M44.uy, M44.uz, V3.mk.injEq, ← r8, ← r9, ← r10]
    refine ⟨?_, ?_, ?_⟩
    · linear_combination (sn * s.m4) * hxx - (sn * s.m0) * hxy
    · linear_combination (sn * s.m5) * hxx - (sn * s.m1) * hxy
    · linear_combination (sn * s.m6) * hxx - (sn * s.m2) * hxy
  · rw [huy, rowy, hrod]
    simp only [V3.add, V3.smul, V3.cross, V3.dot, M44.ux, M44.uy, M44.uz, V3.mk.injEq, ← r8, ← r9, ← r10]
    refine ⟨?_, ?_, ?_⟩
    · linear_combination (-(sn * s.m0)) * hyy + (sn * s.m4) * hxy
    · linear_combination (-(sn * s.m1)) * hyy + (sn * s.m5) * hxy
    · linear_combination (-(sn * s.m2)) * hyy + (sn * s.m6) * hxy


/-- COMPOSITION: `ucs.rotate_local_z(α).rotate_local_z(β)` = `ucs.rotate_local_z(α + β)` (cos/sin of the sum by the
    addition theorems), for every right-handed cartesian UCS -/
theorem ucs_rotate_local_z_compose (s : M44) (c1 s1 c2 s2 : Rat) (hs : IsRigid s) (hdet : M44.det s = 1)
    (h1 : c1 * c1 + s1 * s1 = 1) (h2 : c2 * c2 + s2 * s2 = 1) :
    ∃ m1 m2, UcsPyx.ucsRotateLocalZ s c1 s1 1 1 1 = .ok m1 ∧ UcsPyx.ucsRotateLocalZ m1 c2 s2 1 1 1 = .ok m2
      ∧ UcsPyx.ucsRotateLocalZ s (c1 * c2 - s1 * s2) (s1 * c2 + c1 * s2) 1 1 1 = .ok m2 := by
  obtain ⟨m1, hm1, _, x1, y1, z1, o1, r1, d1⟩ := ucs_rotate_local_z_formula s c1 s1 hs hdet h1
  obtain ⟨m2, hm2, _, x2, y2, z2, o2, r2, d2⟩ := ucs_rotate_local_z_formula m1 c2 s2 r1 d1 h2
  have h12 : (c1 * c2 - s1 * s2) * (c1 * c2 - s1 * s2) + (s1 * c2 + c1 * s2) * (s1 * c2 + c1 * s2) = 1 := by
    linear_combination (c2 * c2 + s2 * s2) * h1 + h2
  obtain ⟨m3, hm3, _, x3, y3, z3, o3, r3, d3⟩ := ucs_rotate_local_z_formula s _ _ hs hdet h12
  refine ⟨m1, m2, hm1, hm2, ?_⟩
  rw [hm3]
  congr 1
  apply m44_ext_rows m3 m2 r3.1 r2.1
  · rw [x3, x2, x1, y1]; simp only [V3.add, V3.smul, V3.mk.injEq]; refine ⟨?_, ?_, ?_⟩ <;> ring
  · rw [y3, y2, x1, y1]; simp only [V3.add, V3.smul, V3.mk.injEq]; refine ⟨?_, ?_, ?_⟩ <;> ring
  · rw [z3, z2, z1]
  · rw [o3, o2, o1]

/-- `to_ocs_angle_rad(θ)` / `to_ocs_angle_deg(θ)` return the polar angle of the vector
    `ucs_direction_to_ocs_direction(Vec3.from_angle(θ))` (the final `.angle` = atan2 is outside the model): that vector is
    the `to_ocs` direction conversion of (cos θ, sin θ, 0) - the same function of the CURRENT state as `to_ocs` -/
theorem ucs_to_ocs_angle_vec_spec (s : M44) (c sn r1 r2 r3 : Rat) :
    UcsPyx.ucsToOcsAngleVec s c sn r1 r2 r3 = UcsPyx.ucsDirToOcs s (VectorPyx.v3fromAngle 1 c sn) r1 r2 r3
    ∧ UcsPy.ucsToOcsAngleVec s c sn r1 r2 r3 = UcsPy.ucsDirToOcs s (VectorPyx.v3fromAngle 1 c sn) r1 r2 r3
    ∧ VectorPyx.v3fromAngle 1 c sn = ⟨c, sn, 0⟩ := by
  refine ⟨rfl, rfl, ?_⟩
  simp [VectorPyx.v3fromAngle]

/-- the four rotations return a UCS with the origin of the receiver: `UCS.rotate(axis, θ)` turns the AXES about the
    given direction, it does not move the UCS about the WCS origin (both linkings, any roots, any axis) -/
theorem ucs_rotate_keeps_origin (s : M44) (axis : V3) (c sn r1 r2 r3 r4 : Rat)
    (h3 : s.m3 = 0) (h7 : s.m7 = 0) (h11 : s.m11 = 0) (n1 : r1 ≠ 0) (n2 : r2 ≠ 0) (n3 : r3 ≠ 0) (n4 : r4 ≠ 0) :
    (∃ m, UcsPyx.ucsRotate s axis c sn r1 r2 r3 r4 = .ok m ∧ UcsPy.ucsRotate s axis c sn r1 r2 r3 r4 = .ok m ∧ m.origin = s.origin)
    ∧ (∃ m, UcsPyx.ucsRotateLocalX s c sn r1 r2 r3 = .ok m ∧ UcsPy.ucsRotateLocalX s c sn r1 r2 r3 = .ok m ∧ m.origin = s.origin)
    ∧ (∃ m, UcsPyx.ucsRotateLocalY s c sn r1 r2 r3 = .ok m ∧ UcsPy.ucsRotateLocalY s c sn r1 r2 r3 = .ok m ∧ m.origin = s.origin)
    ∧ (∃ m, UcsPyx.ucsRotateLocalZ s c sn r1 r2 r3 = .ok m ∧ UcsPy.ucsRotateLocalZ s c sn r1 r2 r3 = .ok m ∧ m.origin = s.origin) := by
  obtain ⟨⟨_, _, a1, a2⟩, ⟨_, _, b1, b2⟩, ⟨_, _, c1, c2⟩, ⟨_, _, d1, d2⟩⟩ :=
    ucs_rotate_structure s axis c sn r1 r2 r3 r4 h3 h7 h11 n1 n2 n3 n4
  exact ⟨⟨_, a1, by rw [a2, a1], rfl⟩, ⟨_, b1, by rw [b2, b1], rfl⟩, ⟨_, c1, by rw [c2, c1], rfl⟩, ⟨_, d1, by rw [d2, d1], rfl⟩⟩

example : ∃ m, UcsPyx.ucsRotate ⟨1, 0, 0, 0, 0, 1, 0, 0, 0, 0, 1, 0, 10, 0, 0, 1⟩ ⟨0, 0, 1⟩ 0 1 1 1 1 1 = .ok m ∧ m.origin = ⟨10, 0, 0⟩
    ∧ m.ux = ⟨0, 1, 0⟩ := ⟨_, rfl, by decide +kernel, by decide +kernel⟩

/-- `UCS.points_from_wcs` is the map of `from_wcs` (the other list variants: `ucs_methods`, `ucs_to_ocs_spec`) -/
theorem ucs_points_from_wcs_spec (s : M44) (ps : List V3) :
    UcsPyx.ucsPointsFromWcs s ps = ps.map (UcsPyx.ucsFromWcs s) ∧ UcsPy.ucsPointsFromWcs s ps = ps.map (UcsPy.ucsFromWcs s)
    ∧ (Orthonormal s → UcsPyx.ucsPointsFromWcs s (UcsPyx.ucsPointsToWcs s ps) = ps) := by
  refine ⟨rfl, rfl, ?_⟩
  intro ho
  show (List.map (Matrix44Pyx.transform s) ps).map (UcsPyx.ucsFromWcs s) = ps
  rw [List.map_map]
  conv_rhs => rw [← List.map_id ps]
  apply List.map_congr_left
  intro p _
  exact (ucs_roundtrip s ho p).1

/-- `perspective_projection_fov(fov, aspect, near, far)` (t = tan(fov/2), v = near·t) calls
    `perspective_projection(-v·aspect, v·aspect, bottom, top, near, far)` - it hands `bottom = -v` over as the parameter
    `top` and `top = v` as `bottom`; the y scale of the result is therefore NEGATIVE (−1/t, the image is flipped
    vertically against `perspective_projection(l, r, top = v, bottom = −v, …)`); both twins do the same.  Modelled as it is. -/
theorem perspective_fov_spec (a n f t : Rat) :
    Matrix44Pyx.perspectiveFov a n f t = Matrix44Pyx.perspective (-(n * t) * a) (n * t * a) (-(n * t)) (n * t) n f
    ∧ Matrix44Py.perspectiveFov = Matrix44Pyx.perspectiveFov
    ∧ (n * t * a ≠ 0 → f - n ≠ 0 → ∃ m, Matrix44Pyx.perspectiveFov a n f t = .ok m ∧ m.m0 = 1 / (t * a) ∧ m.m5 = -(1 / t)) := by
  refine ⟨rfl, rfl, ?_⟩
  intro h1 h2
  have hn : n ≠ 0 := fun h => h1 (by rw [h]; ring)
  have ht : t ≠ 0 := fun h => h1 (by rw [h]; ring)
  have ha : a ≠ 0 := fun h => h1 (by rw [h]; ring)
  have c1 : ¬ (n * t * a - (-(n * t)) * a = 0) := by
    intro h; apply h1; linarith
  have c2 : ¬ ((-(n * t)) - n * t = 0) := by
    intro h; apply mul_ne_zero hn ht; linarith
  refine ⟨_, by simp only [Matrix44Pyx.perspectiveFov, if_neg c1, if_neg c2, if_neg h2]; rfl, ?_, ?_⟩
  · show 2 * n / (n * t * a - -(n * t) * a) = 1 / (t * a)
    field_simp; ring
  · show 2 * n / (-(n * t) - n * t) = -(1 / t)
    field_simp; ring

/-- `rotate_local_x(θ)` / `rotate_local_y(θ)` of a right-handed cartesian UCS in closed form:
    x: uy' = cos θ·uy + sin θ·uz, uz' = −sin θ·uy + cos θ·uz;  y: uz' = cos θ·uz + sin θ·ux, ux' = cos θ·ux − sin θ·uz;
    own axis and origin kept, result right-handed cartesian -/
theorem ucs_rotate_local_xy_formula (s : M44) (c sn : Rat) (hs : IsRigid s) (hdet : M44.det s = 1)
    (hcs : c * c + sn * sn = 1) :
    (∃ m, UcsPyx.ucsRotateLocalX s c sn 1 1 1 = .ok m ∧ m.ux = s.ux
      ∧ m.uy = V3.add (V3.smul c s.uy) (V3.smul sn s.uz) ∧ m.uz = V3.add (V3.smul (-sn) s.uy) (V3.smul c s.uz)
      ∧ m.origin = s.origin ∧ IsRigid m ∧ M44.det m = 1)
    ∧ (∃ m, UcsPyx.ucsRotateLocalY s c sn 1 1 1 = .ok m ∧ m.uy = s.uy
      ∧ m.uz = V3.add (V3.smul c s.uz) (V3.smul sn s.ux) ∧ m.ux = V3.add (V3.smul c s.ux) (V3.smul (-sn) s.uz)
      ∧ m.origin = s.origin ∧ IsRigid m ∧ M44.det m = 1) := by
  have one : (1 : Rat) ≠ 0 := one_ne_zero
  have hrh : V3.cross s.ux s.uy = s.uz := by
    rw [(rigid_handedness s hs).1, hdet]; cases s; simp [V3.smul, M44.uz]
  obtain ⟨⟨hxx', R, m, hR, _, _, hm, _, ho, hux, huy, huz, hrig, hd⟩,
          ⟨hyy', R2, m2, hR2, _, _, hm2, _, ho2, huy2, hux2, huz2, hrig2, hd2⟩⟩ := ucs_rotate_local_xy_cartesian s c sn hs hcs
  obtain ⟨R', hR', _, _, _, _, hrod⟩ := axis_rotate_spec s.ux c sn 1 hcs (by rw [hxx']; ring) one
  rw [hR] at hR'; cases hR'
  obtain ⟨R2', hR2', _, _, _, _, hrod2⟩ := axis_rotate_spec s.uy c sn 1 hcs (by rw [hyy']; ring) one
  rw [hR2] at hR2'; cases hR2'
  obtain ⟨⟨h3, h7, h11, h15⟩, hxx, hyy, hzz, hxy, hxz, hyz⟩ := hs
  have z0 : ∀ (Q : M44) (ax : V3), Matrix44Pyx.axisRotate ax c sn 1 = .ok Q → Q.m12 = 0 ∧ Q.m13 = 0 ∧ Q.m14 = 0 := by
    intro Q ax hQ
    simp only [Matrix44Pyx.axisRotate, if_neg one, Except.ok.injEq] at hQ
    rw [← hQ]; exact ⟨rfl, rfl, rfl⟩
  have rows : ∀ Q : M44, Q.m12 = 0 ∧ Q.m13 = 0 ∧ Q.m14 = 0 →
      (M44.mul s Q).ux = Matrix44Pyx.transform Q s.ux ∧ (M44.mul s Q).uy = Matrix44Pyx.transform Q s.uy
      ∧ (M44.mul s Q).uz = Matrix44Pyx.transform Q s.uz := by
    intro Q h0
    refine ⟨?_, ?_, ?_⟩ <;>
    · simp only [M44.mul, M44.ux, M44.uy, M44.uz, Matrix44Pyx.transform, V3.mk.injEq, h3, h7, h11, h0.1, h0.2.1, h0.2.2]
      refine ⟨?_, ?_, ?_⟩ <;> ring
  obtain ⟨_, ry, rz⟩ := rows R (z0 R _ hR)
  obtain ⟨rx2, _, rz2⟩ := rows R2 (z0 R2 _ hR2)
  simp only [V3.dot, V3.cross, M44.ux, M44.uy, M44.uz, V3.mk.injEq] at hxx hyy hzz hxy hxz hyz hrh
  obtain ⟨r8, r9, r10⟩ := hrh
  constructor
  · refine ⟨m, hm, hux, ?_, ?_, ho, hrig, by rw [hd, hdet]⟩
    · rw [huy, ry, hrod]
      simp only [V3.add, V3.smul, V3.cross, V3.dot, M44.ux, M44.uy, M44.uz, V3.mk.injEq, ← r8, ← r9, ← r10]
      refine ⟨?_, ?_, ?_⟩
      · linear_combination ((1 - c) * s.m0) * hxy
      · linear_combination ((1 - c) * s.m1) * hxy
      · linear_combination ((1 - c) * s.m2) * hxy
    · rw [huz, rz, hrod]
      simp only [V3.add, V3.smul, V3.cross, V3.dot, M44.ux, M44.uy, M44.uz, V3.mk.injEq, ← r8, ← r9, ← r10]
      refine ⟨?_, ?_, ?_⟩
      · linear_combination (sn * s.m0) * hxy - (sn * s.m4) * hxx
      · linear_combination (sn * s.m1) * hxy - (sn * s.m5) * hxx
      · linear_combination (sn * s.m2) * hxy - (sn * s.m6) * hxx
  · refine ⟨m2, hm2, huy2, ?_, ?_, ho2, hrig2, by rw [hd2, hdet]⟩
    · rw [huz2, rz2, hrod2]
      simp only [V3.add, V3.smul, V3.cross, V3.dot, M44.ux, M44.uy, M44.uz, V3.mk.injEq, ← r8, ← r9, ← r10]
      refine ⟨?_, ?_, ?_⟩
      · linear_combination (sn * s.m0) * hyy - (sn * s.m4) * hxy
      · linear_combination (sn * s.m1) * hyy - (sn * s.m5) * hxy
      · linear_combination (sn * s.m2) * hyy - (sn * s.m6) * hxy
    · rw [hux2, rx2, hrod2]
      simp only [V3.add, V3.smul, V3.cross, V3.dot, M44.ux, M44.uy, M44.uz, V3.mk.injEq, ← r8, ← r9, ← r10]
      refine ⟨?_, ?_, ?_⟩
      · linear_combination ((1 - c) * s.m4) * hxy
      · linear_combination ((1 - c) * s.m5) * hxy
      · linear_combination ((1 - c) * s.m6) * hxy

/-- COMPOSITION of the other two local rotations: `rotate_local_x(α).rotate_local_x(β)` = `rotate_local_x(α+β)`, same for y -/
theorem ucs_rotate_local_xy_compose (s : M44) (c1 s1 c2 s2 : Rat) (hs : IsRigid s) (hdet : M44.det s = 1)
    (h1 : c1 * c1 + s1 * s1 = 1) (h2 : c2 * c2 + s2 * s2 = 1) :
    (∃ m1 m2, UcsPyx.ucsRotateLocalX s c1 s1 1 1 1 = .ok m1 ∧ UcsPyx.ucsRotateLocalX m1 c2 s2 1 1 1 = .ok m2
      ∧ UcsPyx.ucsRotateLocalX s (c1 * c2 - s1 * s2) (s1 * c2 + c1 * s2) 1 1 1 = .ok m2)
    ∧ (∃ m1 m2, UcsPyx.ucsRotateLocalY s c1 s1 1 1 1 = .ok m1 ∧ UcsPyx.ucsRotateLocalY m1 c2 s2 1 1 1 = .ok m2
      ∧ UcsPyx.ucsRotateLocalY s (c1 * c2 - s1 * s2) (s1 * c2 + c1 * s2) 1 1 1 = .ok m2) := by
  have h12 : (c1 * c2 - s1 * s2) * (c1 * c2 - s1 * s2) + (s1 * c2 + c1 * s2) * (s1 * c2 + c1 * s2) = 1 := by
    linear_combination (c2 * c2 + s2 * s2) * h1 + h2
  constructor
  · obtain ⟨⟨m1, hm1, x1, y1, z1, o1, r1, d1⟩, _⟩ := ucs_rotate_local_xy_formula s c1 s1 hs hdet h1
    obtain ⟨⟨m2, hm2, x2, y2, z2, o2, r2, d2⟩, _⟩ := ucs_rotate_local_xy_formula m1 c2 s2 r1 d1 h2
    obtain ⟨⟨m3, hm3, x3, y3, z3, o3, r3, d3⟩, _⟩ := ucs_rotate_local_xy_formula s _ _ hs hdet h12
    refine ⟨m1, m2, hm1, hm2, ?_⟩
    rw [hm3]; congr 1
    apply m44_ext_rows m3 m2 r3.1 r2.1
    · rw [x3, x2, x1]
    · rw [y3, y2, y1, z1]; simp only [V3.add, V3.smul, V3.mk.injEq]; refine ⟨?_, ?_, ?_⟩ <;> ring
    · rw [z3, z2, y1, z1]; simp only [V3.add, V3.smul, V3.mk.injEq]; refine ⟨?_, ?_, ?_⟩ <;> ring
    · rw [o3, o2, o1]
  · obtain ⟨_, ⟨m1, hm1, y1, z1, x1, o1, r1, d1⟩⟩ := ucs_rotate_local_xy_formula s c1 s1 hs hdet h1
    obtain ⟨_, ⟨m2, hm2, y2, z2, x2, o2, r2, d2⟩⟩ := ucs_rotate_local_xy_formula m1 c2 s2 r1 d1 h2
    obtain ⟨_, ⟨m3, hm3, y3, z3, x3, o3, r3, d3⟩⟩ := ucs_rotate_local_xy_formula s _ _ hs hdet h12
    refine ⟨m1, m2, hm1, hm2, ?_⟩
    rw [hm3]; congr 1
    apply m44_ext_rows m3 m2 r3.1 r2.1
    · rw [x3, x2, x1, z1]; simp only [V3.add, V3.smul, V3.mk.injEq]; refine ⟨?_, ?_, ?_⟩ <;> ring
    · rw [y3, y2, y1]
    · rw [z3, z2, x1, z1]; simp only [V3.add, V3.smul, V3.mk.injEq]; refine ⟨?_, ?_, ?_⟩ <;> ring
    · rw [o3, o2, o1]

/-- 2-D `angle_between` up to acos: the same clamp logic, both twins -/
theorem angle_between_v2_spec (p q : V2) (r1 r2 : Rat) (n1 : r1 ≠ 0) (n2 : r2 ≠ 0) :
    ∃ c, VectorPyx.v2cosBetween p q r1 r2 = .ok c ∧ VectorPy.v2cosBetween p q r1 r2 = .ok c ∧ -1 ≤ c ∧ c ≤ 1
      ∧ (¬ (VectorPyx.v2dot p q * ((1 / r1) * (1 / r2)) < -1) → ¬ (1 < VectorPyx.v2dot p q * ((1 / r1) * (1 / r2))) →
          c = VectorPyx.v2dot p q * ((1 / r1) * (1 / r2))) := by
  have hpy : VectorPy.v2cosBetween p q r1 r2 = VectorPyx.v2cosBetween p q r1 r2 := rfl
  rw [hpy]
  simp only [VectorPyx.v2cosBetween, if_neg n1, if_neg n2]
  have hx : p.x * (1 / r1) * (q.x * (1 / r2)) + p.y * (1 / r1) * (q.y * (1 / r2)) = VectorPyx.v2dot p q * ((1 / r1) * (1 / r2)) := by
    simp only [VectorPyx.v2dot]; ring
  rw [hx]
  generalize VectorPyx.v2dot p q * ((1 / r1) * (1 / r2)) = x
  by_cases c1 : x < -1
  · rw [if_pos c1]; exact ⟨-1, rfl, rfl, le_refl _, by norm_num, fun h _ => absurd c1 h⟩
  · rw [if_neg c1]
    by_cases c2 : 1 < x
    · rw [if_pos c2]; exact ⟨1, rfl, rfl, by norm_num, le_refl _, fun _ h => absurd c2 h⟩
    · rw [if_neg c2]; exact ⟨x, rfl, rfl, le_of_not_gt c1, le_of_not_gt c2, fun _ _ => rfl⟩

end EzdxfVerif.Props.C11

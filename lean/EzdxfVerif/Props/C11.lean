/-
C11  Vector, matrix and coordinate-system algebra obeys its laws.

Every definition the theorems talk about (`Matrix44Pyx.*`, `Matrix44Py.*`, `VectorPy.*`, `VectorPyx.*`,
`UcsPy.*`, `UcsPyx.*`) is REGENERATED from /repo's current source on every run by harness/translate/py2lean.py
(Gen/*.lean); only `M44.mul/det/adj/inv/chain` (the textbook algebra that stands for NumPy in the pure-Python
twin) and the structures are hand-written (Model/Rat3.lean).  Numbers are exact rationals; `sqrt`, `sin`,
`cos`, `tan` values enter as parameters with the algebraic hypotheses a real value satisfies
(`r*r = radicand`, `0 < r`, `c*c + s*s = 1`).
Only property theorems and non-vacuity examples live here; every `theorem` is a counted obligation.
-/
import EzdxfVerif.Gen.VectorPy
import EzdxfVerif.Gen.VectorPyx
import EzdxfVerif.Gen.Matrix44Py
import EzdxfVerif.Gen.Matrix44Pyx
import EzdxfVerif.Gen.UcsPy
import EzdxfVerif.Gen.UcsPyx
import Mathlib.Tactic.Ring
import Mathlib.Tactic.FieldSimp
import Mathlib.Tactic.Linarith
import Mathlib.Tactic.Positivity
import Mathlib.Tactic.LinearCombination

namespace EzdxfVerif.Props.C11
open EzdxfVerif.Rat3 EzdxfVerif.Gen

/-! ## 1. Composition: `A * B` is "A then B" (row-vector convention) -/

/-- the explicit product of the Cython twin is the textbook product (which models `np.matmul` of the Python twin) -/
theorem pyx_mul_is_textbook (a b : M44) :
    Matrix44Pyx.mul a b = M44.mul a b ∧ Matrix44Pyx.imul a b = M44.mul a b ∧ Matrix44Pyx.matmul a b = M44.mul a b :=
  ⟨rfl, rfl, rfl⟩

/-- transforming by `A * B` = transforming by `A`, then by `B`.  The hypothesis on `A` is forced by the code:
    `transform` ignores the 4th column of the matrix (see `transform_mul_needs_affine`). -/
theorem transform_mul (a b : M44) (v : V3) (ha : M44.IsAffine a) :
    Matrix44Pyx.transform (Matrix44Pyx.mul a b) v = Matrix44Pyx.transform b (Matrix44Pyx.transform a v) := by
  obtain ⟨h3, h7, h11, h15⟩ := ha
  simp only [Matrix44Pyx.transform, Matrix44Pyx.mul, V3.mk.injEq, h3, h7, h11, h15]
  refine ⟨?_, ?_, ?_⟩ <;> ring

/-- without the affine hypothesis the composition law is false (perspective matrices): concrete witness -/
theorem transform_mul_needs_affine :
    ∃ a b v, ¬ M44.IsAffine a ∧
      Matrix44Pyx.transform (Matrix44Pyx.mul a b) v ≠ Matrix44Pyx.transform b (Matrix44Pyx.transform a v) := by
  refine ⟨⟨1, 0, 0, 1, 0, 1, 0, 0, 0, 0, 1, 0, 0, 0, 0, 1⟩, Matrix44Pyx.translate 1 0 0, ⟨1, 0, 0⟩, ?_, ?_⟩
  · decide +kernel
  · decide +kernel

/-- directions (no translation) compose under the weaker hypothesis that the first three cells of the 4th column vanish -/
theorem transform_direction_mul (a b : M44) (v : V3) (h3 : a.m3 = 0) (h7 : a.m7 = 0) (h11 : a.m11 = 0) :
    Matrix44Pyx.transformDirection (Matrix44Pyx.mul a b) v
      = Matrix44Pyx.transformDirection b (Matrix44Pyx.transformDirection a v) := by
  simp only [Matrix44Pyx.transformDirection, Matrix44Pyx.mul, V3.mk.injEq, h3, h7, h11]
  refine ⟨?_, ?_, ?_⟩ <;> ring

theorem mul_assoc (a b c : M44) : M44.mul (M44.mul a b) c = M44.mul a (M44.mul b c) := by
  simp only [M44.mul, M44.mk.injEq]
  refine ⟨?_, ?_, ?_, ?_, ?_, ?_, ?_, ?_, ?_, ?_, ?_, ?_, ?_, ?_, ?_, ?_⟩ <;> ring

theorem mul_identity (a : M44) : M44.mul a M44.identity = a ∧ M44.mul M44.identity a = a := by
  constructor <;> (cases a; simp [M44.mul, M44.identity])

theorem affine_mul (a b : M44) (ha : M44.IsAffine a) (hb : M44.IsAffine b) : M44.IsAffine (M44.mul a b) := by
  obtain ⟨a3, a7, a11, a15⟩ := ha
  obtain ⟨b3, b7, b11, b15⟩ := hb
  simp [M44.IsAffine, M44.mul, a3, a7, a11, a15, b3, b7, b11, b15]


/-- `m *= m` (the right operand IS the receiver) equals `m * m` for every matrix.  The translator models the
    aliasing exactly (`other` = the same object as `self`): the Cython `__imul__` snapshots both operands
    (`cdef double[16] m1 = self.m`, `cdef double[16] m2 = other.m`) before it overwrites `self.m`.
    (Before the fix 4ffd6dab9 `m2` was a pointer alias and this statement was false, witness
    m = [1,2,0,0, 3,1,0,0, 0,0,1,0, 4,5,6,1].) -/
theorem pyx_imul_self (m : M44) : Matrix44Pyx.imulSelf m = M44.mul m m := rfl

example : Matrix44Pyx.imulSelf ⟨1, 2, 0, 0, 3, 1, 0, 0, 0, 0, 1, 0, 4, 5, 6, 1⟩
    = ⟨7, 4, 0, 0, 6, 7, 0, 0, 0, 0, 1, 0, 23, 18, 12, 1⟩ := by decide +kernel

/-- `Matrix44.chain(*ms)` (Cython loop, translated as a fold) is the left fold of textbook products -/
theorem chain_eq_fold (ms : List M44) : Matrix44Pyx.chain ms = M44.chain ms := rfl

private theorem chain_aux (ms : List M44) (acc : M44) (v : V3) (hacc : M44.IsAffine acc)
    (h : ∀ m ∈ ms, M44.IsAffine m) :
    Matrix44Pyx.transform (ms.foldl M44.mul acc) v
      = ms.foldl (fun p m => Matrix44Pyx.transform m p) (Matrix44Pyx.transform acc v) := by
  induction ms generalizing acc with
  | nil => rfl
  | cons m rest ih =>
    simp only [List.foldl_cons]
    rw [ih (M44.mul acc m) (affine_mul _ _ hacc (h m (by simp))) (fun x hx => h x (by simp [hx]))]
    congr 1
    exact transform_mul acc m v hacc

/-- transforming by `chain(m1, …, mn)` applies m1, then m2, …, then mn — for every list of affine matrices -/
theorem chain_transform (ms : List M44) (v : V3) (h : ∀ m ∈ ms, M44.IsAffine m) :
    Matrix44Pyx.transform (Matrix44Pyx.chain ms) v = ms.foldl (fun p m => Matrix44Pyx.transform m p) v := by
  rw [chain_eq_fold]
  unfold M44.chain
  rw [chain_aux ms M44.identity v (by decide +kernel) h]
  congr 1
  cases v; simp [Matrix44Pyx.transform, M44.identity]

example : Matrix44Pyx.transform (Matrix44Pyx.chain [Matrix44Pyx.translate 1 2 3, Matrix44Pyx.scale 2 2 2]) ⟨1, 1, 1⟩
    = ⟨4, 6, 8⟩ := by decide +kernel

/-! ## 2. Batch transforms equal single transforms -/

theorem batch_eq_single (m : M44) (vs : List V3) (ps : List V2) :
    Matrix44Pyx.transformVertices m vs = vs.map (Matrix44Pyx.transform m)
    ∧ Matrix44Py.transformVertices m vs = vs.map (Matrix44Py.transform m)
    ∧ Matrix44Pyx.transformDirections m vs = vs.map (Matrix44Pyx.transformDirection m)
    ∧ Matrix44Py.transformDirections m vs = vs.map (Matrix44Py.transformDirection m)
    ∧ Matrix44Pyx.fast2d m ps = ps.map (fun p => let q := Matrix44Pyx.transform m ⟨p.x, p.y, 0⟩; ⟨q.x, q.y⟩)
    ∧ Matrix44Py.fast2d m ps = ps.map (fun p => let q := Matrix44Py.transform m ⟨p.x, p.y, 0⟩; ⟨q.x, q.y⟩) := by
  refine ⟨rfl, rfl, rfl, rfl, ?_, ?_⟩ <;>
  · simp only [Matrix44Pyx.fast2d, Matrix44Py.fast2d, Matrix44Pyx.transform, Matrix44Py.transform]
    apply List.map_congr_left
    intro p _
    simp

/-- a row of a point array: coordinates followed by untouched extra columns (widths, bulge, …) -/
def row3 (p : V3) (rest : List Rat) : List Rat := p.x :: p.y :: p.z :: rest
def row2 (p : V2) (rest : List Rat) : List Rat := p.x :: p.y :: rest

/-- `transform_array_inplace(array, 3)` (Cython kernel) transforms the first three columns of every row like
    `transform` and leaves every further column alone — for arrays of any number of rows and columns -/
theorem array3d_eq_single (m : M44) (rows : List (V3 × List Rat)) :
    Matrix44Pyx.array3d m (rows.map fun r => row3 r.1 r.2)
      = rows.map fun r => row3 (Matrix44Pyx.transform m r.1) r.2 := by
  simp only [Matrix44Pyx.array3d, List.map_map]
  apply List.map_congr_left
  intro r _
  simp [row3, Matrix44Pyx.transform, List.set, List.getD]

/-- `transform_array_inplace(array, 2)`: columns 0,1 like `fast_2d_transform`, the rest (incl. a z column) untouched -/
theorem array2d_eq_single (m : M44) (rows : List (V2 × List Rat)) :
    Matrix44Pyx.array2d m (rows.map fun r => row2 r.1 r.2)
      = (Matrix44Pyx.fast2d m (rows.map Prod.fst)).zipWith (fun p r => row2 p r.2) rows := by
  simp only [Matrix44Pyx.array2d, Matrix44Pyx.fast2d, List.map_map]
  induction rows with
  | nil => rfl
  | cons r rest ih =>
    simp only [List.map_cons, List.zipWith_cons_cons, ih]
    congr 1

/-! ## 3. Determinant and inverse (explicit adjugate formulas of the Cython twin) -/

/-- the 24-term determinant of the Cython twin is the Laplace expansion -/
theorem determinant_is_textbook (m : M44) : Matrix44Pyx.determinant m = M44.det m := by
  simp only [Matrix44Pyx.determinant, M44.det, M44.det3]; ring

/-- the determinant is multiplicative -/
theorem det_mul (a b : M44) : M44.det (M44.mul a b) = M44.det a * M44.det b := by
  simp only [M44.det, M44.det3, M44.mul]; ring

theorem det_identity : M44.det M44.identity = 1 := by decide +kernel

/-- `inverse()` is a two-sided inverse of every matrix with non-zero determinant -/
theorem inverse_two_sided (m : M44) (h : Matrix44Pyx.determinant m ≠ 0) :
    ∃ i, Matrix44Pyx.inverse m = .ok i ∧ M44.mul m i = M44.identity ∧ M44.mul i m = M44.identity := by
  refine ⟨_, by simp only [Matrix44Pyx.inverse, if_neg h]; rfl, ?_, ?_⟩ <;>
  · simp only [M44.mul, M44.identity, M44.mk.injEq]
    refine ⟨?_, ?_, ?_, ?_, ?_, ?_, ?_, ?_, ?_, ?_, ?_, ?_, ?_, ?_, ?_, ?_⟩ <;>
    · field_simp
      simp only [Matrix44Pyx.determinant]
      ring

/-- singular matrices raise ZeroDivisionError (and, the receiver being written only after `1./det`, stay unchanged) -/
theorem inverse_singular (m : M44) (h : Matrix44Pyx.determinant m = 0) :
    Matrix44Pyx.inverse m = .error PyErr.zeroDivision := by
  simp only [Matrix44Pyx.inverse, if_pos h]

/-- the 16 hand-expanded adjugate formulas of the Cython twin are the classical adjugate / determinant -/
theorem inverse_is_textbook (m : M44) : Matrix44Pyx.inverse m = M44.inv m := by
  unfold Matrix44Pyx.inverse M44.inv
  rw [determinant_is_textbook]
  by_cases h : M44.det m = 0
  · simp [h]
  · simp only [if_neg h, M44.scale, M44.adj, M44.det3]
    congr 1
    simp only [M44.mk.injEq]
    refine ⟨?_, ?_, ?_, ?_, ?_, ?_, ?_, ?_, ?_, ?_, ?_, ?_, ?_, ?_, ?_, ?_⟩ <;> ring

/-- the inverse is unique: any right inverse equals what `inverse()` returns -/
theorem inverse_unique (m i j : M44) (hi : Matrix44Pyx.inverse m = .ok i) (hj : M44.mul m j = M44.identity) : j = i := by
  by_cases h : Matrix44Pyx.determinant m = 0
  · rw [inverse_singular m h] at hi; cases hi
  · obtain ⟨i', hi', _, hl⟩ := inverse_two_sided m h
    rw [hi] at hi'; cases hi'
    calc j = M44.mul M44.identity j := (mul_identity j).2.symm
      _ = M44.mul (M44.mul i m) j := by rw [hl]
      _ = M44.mul i (M44.mul m j) := mul_assoc _ _ _
      _ = i := by rw [hj, (mul_identity i).1]

theorem transpose_is_textbook (m : M44) :
    Matrix44Pyx.transpose m = M44.transpose m ∧ M44.transpose (M44.transpose m) = m := ⟨rfl, rfl⟩

example : Matrix44Pyx.inverse (Matrix44Pyx.scale 2 4 8)
    = .ok ⟨1/2, 0, 0, 0, 0, 1/4, 0, 0, 0, 0, 1/8, 0, 0, 0, 0, 1⟩ := by decide +kernel
example : Matrix44Pyx.inverse ⟨1, 2, 3, 4, 2, 4, 6, 8, 1, 0, 0, 1, 0, 1, 0, 1⟩ = .error .zeroDivision := by decide +kernel

/-! ## 4. Factory matrices do what their names say -/

theorem translate_spec (dx dy dz : Rat) (v : V3) :
    Matrix44Pyx.transform (Matrix44Pyx.translate dx dy dz) v = ⟨v.x + dx, v.y + dy, v.z + dz⟩
    ∧ Matrix44Pyx.transformDirection (Matrix44Pyx.translate dx dy dz) v = v
    ∧ M44.IsAffine (Matrix44Pyx.translate dx dy dz)
    ∧ M44.det (Matrix44Pyx.translate dx dy dz) = 1 := by
  refine ⟨?_, ?_, ?_, ?_⟩
  · simp [Matrix44Pyx.transform, Matrix44Pyx.translate]
  · cases v; simp [Matrix44Pyx.transformDirection, Matrix44Pyx.translate]
  · simp [M44.IsAffine, Matrix44Pyx.translate]
  · simp [M44.det, M44.det3, Matrix44Pyx.translate]

theorem scale_spec (sx sy sz : Rat) (v : V3) :
    Matrix44Pyx.transform (Matrix44Pyx.scale sx sy sz) v = ⟨v.x * sx, v.y * sy, v.z * sz⟩
    ∧ Matrix44Pyx.scaleUniform sx = Matrix44Pyx.scale sx sx sx
    ∧ M44.IsAffine (Matrix44Pyx.scale sx sy sz)
    ∧ M44.det (Matrix44Pyx.scale sx sy sz) = sx * sy * sz := by
  refine ⟨?_, rfl, ?_, ?_⟩
  · simp [Matrix44Pyx.transform, Matrix44Pyx.scale]
  · simp [M44.IsAffine, Matrix44Pyx.scale]
  · simp [M44.det, M44.det3, Matrix44Pyx.scale]; ring

/-- `z_rotate(θ)` with `c = cos θ`, `s = sin θ`: orthogonal, determinant 1, keeps the z-axis, turns the x-axis
    counter-clockwise towards the y-axis -/
theorem z_rotate_spec (c s : Rat) (h : c * c + s * s = 1) (v : V3) :
    let r := Matrix44Pyx.zRotate c s
    M44.mul r (M44.transpose r) = M44.identity ∧ M44.det r = 1 ∧ M44.IsAffine r
    ∧ Matrix44Pyx.transform r v = ⟨c * v.x - s * v.y, s * v.x + c * v.y, v.z⟩ := by
  refine ⟨?_, ?_, ?_, ?_⟩
  · simp only [Matrix44Pyx.zRotate, M44.mul, M44.transpose, M44.identity, M44.mk.injEq]
    refine ⟨?_, ?_, ?_, ?_, ?_, ?_, ?_, ?_, ?_, ?_, ?_, ?_, ?_, ?_, ?_, ?_⟩ <;> linarith
  · simp only [Matrix44Pyx.zRotate, M44.det, M44.det3]; linarith
  · simp [M44.IsAffine, Matrix44Pyx.zRotate]
  · simp only [Matrix44Pyx.zRotate, Matrix44Pyx.transform, V3.mk.injEq]
    refine ⟨?_, ?_, ?_⟩ <;> ring

theorem x_rotate_spec (c s : Rat) (h : c * c + s * s = 1) (v : V3) :
    let r := Matrix44Pyx.xRotate c s
    M44.mul r (M44.transpose r) = M44.identity ∧ M44.det r = 1 ∧ M44.IsAffine r
    ∧ Matrix44Pyx.transform r v = ⟨v.x, c * v.y - s * v.z, s * v.y + c * v.z⟩ := by
  refine ⟨?_, ?_, ?_, ?_⟩
  · simp only [Matrix44Pyx.xRotate, M44.mul, M44.transpose, M44.identity, M44.mk.injEq]
    refine ⟨?_, ?_, ?_, ?_, ?_, ?_, ?_, ?_, ?_, ?_, ?_, ?_, ?_, ?_, ?_, ?_⟩ <;> linarith
  · simp only [Matrix44Pyx.xRotate, M44.det, M44.det3]; linarith
  · simp [M44.IsAffine, Matrix44Pyx.xRotate]
  · simp only [Matrix44Pyx.xRotate, Matrix44Pyx.transform, V3.mk.injEq]
    refine ⟨?_, ?_, ?_⟩ <;> ring

theorem y_rotate_spec (c s : Rat) (h : c * c + s * s = 1) (v : V3) :
    let r := Matrix44Pyx.yRotate c s
    M44.mul r (M44.transpose r) = M44.identity ∧ M44.det r = 1 ∧ M44.IsAffine r
    ∧ Matrix44Pyx.transform r v = ⟨c * v.x + s * v.z, v.y, c * v.z - s * v.x⟩ := by
  refine ⟨?_, ?_, ?_, ?_⟩
  · simp only [Matrix44Pyx.yRotate, M44.mul, M44.transpose, M44.identity, M44.mk.injEq]
    refine ⟨?_, ?_, ?_, ?_, ?_, ?_, ?_, ?_, ?_, ?_, ?_, ?_, ?_, ?_, ?_, ?_⟩ <;> linarith
  · simp only [Matrix44Pyx.yRotate, M44.det, M44.det3]; linarith
  · simp [M44.IsAffine, Matrix44Pyx.yRotate]
  · simp only [Matrix44Pyx.yRotate, Matrix44Pyx.transform, V3.mk.injEq]
    refine ⟨?_, ?_, ?_⟩ <;> ring

/-- `xyz_rotate(ax, ay, az)` is exactly `z_rotate(az) * y_rotate(ay) * x_rotate(ax)` (apply z first) -/
theorem xyz_rotate_spec (cx sx cy sy cz sz : Rat) :
    Matrix44Pyx.xyzRotate cx sx cy sy cz sz
      = M44.mul (M44.mul (Matrix44Pyx.zRotate cz sz) (Matrix44Pyx.yRotate cy sy)) (Matrix44Pyx.xRotate cx sx) := by
  simp only [Matrix44Pyx.xyzRotate, Matrix44Pyx.xRotate, Matrix44Pyx.yRotate, Matrix44Pyx.zRotate, M44.mul, M44.mk.injEq]
  refine ⟨?_, ?_, ?_, ?_, ?_, ?_, ?_, ?_, ?_, ?_, ?_, ?_, ?_, ?_, ?_, ?_⟩ <;> ring

private theorem axis_unit (ux uy uz c s : Rat) (hu : ux * ux + uy * uy + uz * uz = 1) (hcs : c * c + s * s = 1) :
    ∃ m, Matrix44Pyx.axisRotate ⟨ux, uy, uz⟩ c s 1 = .ok m ∧
      M44.mul m (M44.transpose m) = M44.identity ∧ M44.det m = 1 ∧ M44.IsAffine m ∧
      Matrix44Pyx.transform m ⟨ux, uy, uz⟩ = ⟨ux, uy, uz⟩ := by
  refine ⟨_, by simp only [Matrix44Pyx.axisRotate, if_neg (one_ne_zero)]; rfl, ?_, ?_, ?_, ?_⟩
  · simp only [M44.mul, M44.transpose, M44.identity, M44.mk.injEq]
    refine ⟨?_, ?_, ?_, ?_, ?_, ?_, ?_, ?_, ?_, ?_, ?_, ?_, ?_, ?_, ?_, ?_⟩
    · linear_combination (c^2*ux^2 - c^2 - 2*c*ux^2 + ux^2 + 1) * hu + (uy^2 + uz^2) * hcs
    · linear_combination (c^2*ux*uy - 2*c*ux*uy + ux*uy) * hu + (-ux*uy) * hcs
    · linear_combination (c^2*ux*uz - 2*c*ux*uz + ux*uz) * hu + (-ux*uz) * hcs
    · ring
    · linear_combination (c^2*ux*uy - 2*c*ux*uy + ux*uy) * hu + (-ux*uy) * hcs
    · linear_combination (c^2*uy^2 - 2*c*uy^2 + s^2 + uy^2) * hu + (1 - uy^2) * hcs
    · linear_combination (c^2*uy*uz - 2*c*uy*uz + uy*uz) * hu + (-uy*uz) * hcs
    · ring
    · linear_combination (c^2*ux*uz - 2*c*ux*uz + ux*uz) * hu + (-ux*uz) * hcs
    · linear_combination (c^2*uy*uz - 2*c*uy*uz + uy*uz) * hu + (-uy*uz) * hcs
    · linear_combination (c^2*uz^2 - 2*c*uz^2 + s^2 + uz^2) * hu + (1 - uz^2) * hcs
    · ring
    · ring
    · ring
    · ring
    · ring
  · simp only [M44.det, M44.det3]
    linear_combination (-c^3 + c^2 - c*s^2*ux^2 - c*s^2*uy^2 - c*s^2*uz^2 + s^2*ux^2 + s^2*uy^2 + s^2*uz^2 + s^2) * hu + (1) * hcs
  · simp [M44.IsAffine]
  · simp only [Matrix44Pyx.transform, V3.mk.injEq]
    refine ⟨?_, ?_, ?_⟩
    · linear_combination (-c*ux + ux) * hu
    · linear_combination (-c*uy + uy) * hu
    · linear_combination (-c*uz + uz) * hu

/-- normalising inside `axis_rotate` = calling it with the unit axis and root 1 -/
private theorem axis_rescale (axis : V3) (c s r : Rat) (hr0 : r ≠ 0) :
    Matrix44Pyx.axisRotate axis c s r
      = Matrix44Pyx.axisRotate ⟨axis.x * (1 / r), axis.y * (1 / r), axis.z * (1 / r)⟩ c s 1 := by
  simp only [Matrix44Pyx.axisRotate, if_neg hr0, if_neg (one_ne_zero)]
  congr 1
  simp only [M44.mk.injEq]
  refine ⟨?_, ?_, ?_, ?_, ?_, ?_, ?_, ?_, ?_, ?_, ?_, ?_, ?_, ?_, ?_, ?_⟩ <;> first | trivial | ring

/-- `axis_rotate(axis, θ)`: for every non-zero axis (r = |axis| enters as the value of the square root) the
    result is the Rodrigues rotation about the unit axis u = axis / r:
    v ↦ c·v + s·(u × v) + (1 − c)(u·v)·u ; it is orthogonal with determinant 1 and keeps the axis -/
theorem axis_rotate_spec (axis : V3) (c s r : Rat) (hcs : c * c + s * s = 1)
    (hr : r * r = Matrix44Pyx.axisRotate_rad1 axis c s) (hr0 : r ≠ 0) :
    ∃ m, Matrix44Pyx.axisRotate axis c s r = .ok m ∧
      M44.mul m (M44.transpose m) = M44.identity ∧ M44.det m = 1 ∧ M44.IsAffine m ∧
      Matrix44Pyx.transform m axis = axis ∧
      ∀ v : V3, Matrix44Pyx.transform m v =
        (let u := V3.smul (1 / r) axis
         V3.add (V3.add (V3.smul c v) (V3.smul s (V3.cross u v))) (V3.smul ((1 - c) * V3.dot u v) u)) := by
  obtain ⟨ax, ay, az⟩ := axis
  simp only [Matrix44Pyx.axisRotate_rad1] at hr
  have hu : ax * (1 / r) * (ax * (1 / r)) + ay * (1 / r) * (ay * (1 / r))
      + az * (1 / r) * (az * (1 / r)) = 1 := by
    field_simp; linarith
  obtain ⟨m, hm, ho, hd, ha, hf⟩ := axis_unit _ _ _ c s hu hcs
  have hrod : ∀ v : V3, Matrix44Pyx.transform m v =
      (let u := V3.smul (1 / r) ⟨ax, ay, az⟩
       V3.add (V3.add (V3.smul c v) (V3.smul s (V3.cross u v))) (V3.smul ((1 - c) * V3.dot u v) u)) := by
    intro v
    simp only [Matrix44Pyx.axisRotate, if_neg (one_ne_zero), Except.ok.injEq] at hm
    subst hm
    simp only [Matrix44Pyx.transform, V3.add, V3.smul, V3.cross, V3.dot, V3.mk.injEq]
    refine ⟨?_, ?_, ?_⟩ <;> ring
  refine ⟨m, by rw [axis_rescale _ c s r hr0, hm], ho, hd, ha, ?_, hrod⟩
  rw [hrod]
  simp only [V3.add, V3.smul, V3.cross, V3.dot, V3.mk.injEq]
  refine ⟨?_, ?_, ?_⟩
  · field_simp; linear_combination ((c - 1) * ax) * hr
  · field_simp; linear_combination ((c - 1) * ay) * hr
  · field_simp; linear_combination ((c - 1) * az) * hr

example : ∃ m, Matrix44Pyx.axisRotate ⟨0, 3, 4⟩ (3/5) (4/5) 5 = .ok m ∧ Matrix44Pyx.transform m ⟨1, 0, 0⟩ = ⟨3/5, 16/25, -12/25⟩ :=
  ⟨_, rfl, by decide +kernel⟩

theorem shear_spec (tx ty : Rat) (v : V3) :
    Matrix44Pyx.transform (Matrix44Pyx.shearXY tx ty) v = ⟨v.x + v.y * tx, v.x * ty + v.y, v.z⟩
    ∧ M44.IsAffine (Matrix44Pyx.shearXY tx ty) := by
  constructor
  · simp [Matrix44Pyx.transform, Matrix44Pyx.shearXY]
  · simp [M44.IsAffine, Matrix44Pyx.shearXY]

theorem from2d_spec (a b c d e f : Rat) (p : V2) :
    Matrix44Pyx.fast2d (Matrix44Pyx.from2d a b c d e f) [p] = [⟨p.x * a + p.y * c + e, p.x * b + p.y * d + f⟩]
    ∧ M44.IsAffine (Matrix44Pyx.from2d a b c d e f) := by
  constructor
  · simp [Matrix44Pyx.fast2d, Matrix44Pyx.from2d]
  · simp [M44.IsAffine, Matrix44Pyx.from2d]

/-! ## 6. OCS: the DXF arbitrary axis algorithm -/

/-- DXF arbitrary axis algorithm: direction of the OCS x-axis before normalisation -/
def arbitraryAxis (az : V3) : V3 :=
  if pyAbs az.x < 1 / 64 ∧ pyAbs az.y < 1 / 64 then V3.cross ⟨0, 1, 0⟩ az else V3.cross ⟨0, 0, 1⟩ az

def Orthonormal (m : M44) : Prop :=
  V3.dot m.ux m.ux = 1 ∧ V3.dot m.uy m.uy = 1 ∧ V3.dot m.uz m.uz = 1 ∧
  V3.dot m.ux m.uy = 0 ∧ V3.dot m.ux m.uz = 0 ∧ V3.dot m.uy m.uz = 0

instance (m : M44) : Decidable (Orthonormal m) := by unfold Orthonormal; infer_instance

private theorem pyAbs_sq_lt (a b : Rat) (h : pyAbs a < b) : a * a < b * b := by
  unfold pyAbs at h
  split at h <;> nlinarith

private theorem pyAbs_sq_ge (a b : Rat) (hb : 0 ≤ b) (h : ¬ pyAbs a < b) : b * b ≤ a * a := by
  unfold pyAbs at h
  split at h <;> nlinarith

private theorem sq_eq_one' (r : Rat) (h0 : 0 ≤ r) (h : r * r = 1) : r = 1 := by nlinarith

set_option hygiene false in
/-- closes the polynomial side goals of `ocs_axes` from the unit-normal relation `hu` and the value of r2² `hr2sq` -/
local macro "ocs_poly" : tactic => `(tactic| first
  | trivial
  | exact ⟨trivial, trivial, trivial⟩
  | linear_combination hr2sq
  | linear_combination -hr2sq
  | linear_combination hu
  | linear_combination (x ^ 2 + z ^ 2) * hu - hr2sq
  | linear_combination (x ^ 2 + y ^ 2) * hu - hr2sq
  | (refine ⟨?_, ?_, ?_⟩ <;> first
      | linear_combination (-x) * hr2sq | linear_combination (-y) * hr2sq | linear_combination (-z) * hr2sq
      | linear_combination (x) * hr2sq | linear_combination (y) * hr2sq | linear_combination (z) * hr2sq
      | linear_combination (z) * hu - (z) * hr2sq | linear_combination (-z) * hu + (z) * hr2sq ))

set_option hygiene false in
local macro "ocs_frame" : tactic => `(tactic|
  (refine ⟨?_, hr2pos, trivial, ?_, ?_, ?_, ⟨?_, ?_, ?_, ?_, ?_, ?_⟩, ?_⟩
   all_goals simp only [arbitraryAxis, hB, and_self, if_true, if_false, V3.cross, V3.dot, V3.smul, M44.ux, M44.uy, M44.uz, V3.mk.injEq]
   all_goals try (first | done | ring1 | (refine ⟨?_, ?_, ?_⟩ <;> ring1))
   all_goals try field_simp
   all_goals ocs_poly))

set_option hygiene false in
local macro "ocs_tac" init:ident rad1:ident rad2:ident rad3:ident : tactic => `(tactic|
  (obtain ⟨nx, ny, nz⟩ := n
   have hr1 : r1 ≠ 0 := ne_of_gt h1
   simp only [$rad1:ident] at e1
   have hu : nx * (1 / r1) * (nx * (1 / r1)) + ny * (1 / r1) * (ny * (1 / r1)) + nz * (1 / r1) * (nz * (1 / r1)) = 1 := by
     field_simp; linarith
   generalize hx : nx * (1 / r1) = x at *
   generalize hy : ny * (1 / r1) = y at *
   generalize hz : nz * (1 / r1) = z at *
   unfold $init:ident $rad2:ident $rad3:ident at *
   simp only [if_neg hr1, hx, hy, hz] at *
   split at e2
   · rename_i hC
     split at e2
     · rename_i hB
       simp only [if_pos hC, if_pos hB] at e3 ⊢
       have hr2sq : r2 * r2 = z * z + x * x := by rw [e2]; ring
       have hy2 : y * y < (1 / 64) * (1 / 64) := pyAbs_sq_lt _ _ hB.2
       have hr2pos : 0 < r2 := by
         rcases h2.lt_or_eq with h | h
         · exact h
         · rw [← h] at hr2sq; nlinarith
       have hr2 : r2 ≠ 0 := ne_of_gt hr2pos
       have hr3sq : r3 * r3 = 1 := by
         rw [e3]; field_simp; linear_combination (z * z + x * x) * hu - hr2sq
       have hr3 : r3 = 1 := sq_eq_one' r3 h3 hr3sq
       subst hr3
       simp only [if_neg hr2, one_ne_zero, if_false]
       refine ⟨true, _, rfl, ?_, ?_, ?_, ?_⟩
       · simp [M44.IsAffine]
       · rfl
       · intro h; cases h
       · intro _
         ocs_frame
     · rename_i hB
       simp only [if_pos hC, if_neg hB] at e3 ⊢
       have hr2sq : r2 * r2 = y * y + x * x := by rw [e2]; ring
       have hxy : (1 / 64) * (1 / 64) ≤ x * x ∨ (1 / 64) * (1 / 64) ≤ y * y := by
         by_cases hx1 : pyAbs x < 1 / 64
         · right
           exact pyAbs_sq_ge _ _ (by norm_num) (fun hy1 => hB ⟨hx1, hy1⟩)
         · left
           exact pyAbs_sq_ge _ _ (by norm_num) hx1
       have hr2pos : 0 < r2 := by
         rcases h2.lt_or_eq with h | h
         · exact h
         · rw [← h] at hr2sq; rcases hxy with h' | h' <;> nlinarith [mul_self_nonneg x, mul_self_nonneg y]
       have hr2 : r2 ≠ 0 := ne_of_gt hr2pos
       have hr3sq : r3 * r3 = 1 := by
         rw [e3]; field_simp; linear_combination (y * y + x * x) * hu - hr2sq
       have hr3 : r3 = 1 := sq_eq_one' r3 h3 hr3sq
       subst hr3
       simp only [if_neg hr2, one_ne_zero, if_false]
       refine ⟨true, _, rfl, ?_, ?_, ?_, ?_⟩
       · simp [M44.IsAffine]
       · rfl
       · intro h; cases h
       · intro _
         ocs_frame
   · rename_i hC
     simp only [if_neg hC]
     refine ⟨false, _, rfl, ?_, rfl, fun _ => rfl, fun h => by cases h⟩
     simp [M44.IsAffine]))

/-- OCS construction (`OCS.__init__`, Cython-linked): for EVERY non-zero extrusion vector n, with r1 = |n|,
    r2, r3 the values of the two further square roots the code takes, the constructor never raises and, when it
    decides to transform, builds exactly the frame of the DXF arbitrary-axis algorithm: Az = n/|n|,
    Ax = (Wy × Az or Wz × Az, chosen by |Az.x| < 1/64 ∧ |Az.y| < 1/64) normalised, Ay = Az × Ax (whose
    normalisation factor r3 is provably 1), the frame is orthonormal and right-handed. -/
theorem ocs_axes (n : V3) (r1 r2 r3 : Rat)
    (h1 : 0 < r1) (e1 : r1 * r1 = UcsPyx.ocsInit_rad1 n)
    (h2 : 0 ≤ r2) (e2 : r2 * r2 = UcsPyx.ocsInit_rad2 n r1)
    (h3 : 0 ≤ r3) (e3 : r3 * r3 = UcsPyx.ocsInit_rad3 n r1 r2) :
    ∃ t m, UcsPyx.ocsInit n r1 r2 r3 = .ok (t, m) ∧ M44.IsAffine m ∧ m.origin = ⟨0, 0, 0⟩ ∧
      (t = false → m = M44.identity) ∧
      (t = true →
        let az : V3 := ⟨n.x * (1 / r1), n.y * (1 / r1), n.z * (1 / r1)⟩
        r2 * r2 = V3.dot (arbitraryAxis az) (arbitraryAxis az) ∧ 0 < r2 ∧ r3 = 1 ∧
        m.uz = az ∧ m.ux = V3.smul (1 / r2) (arbitraryAxis az) ∧ m.uy = V3.cross m.uz m.ux ∧
        Orthonormal m ∧ V3.cross m.ux m.uy = m.uz) := by
  ocs_tac UcsPyx.ocsInit UcsPyx.ocsInit_rad1 UcsPyx.ocsInit_rad2 UcsPyx.ocsInit_rad3

/-- the same for `ucs.py` linked against the pure-Python Vec3/Matrix44 -/
theorem ocs_axes_py (n : V3) (r1 r2 r3 : Rat)
    (h1 : 0 < r1) (e1 : r1 * r1 = UcsPy.ocsInit_rad1 n)
    (h2 : 0 ≤ r2) (e2 : r2 * r2 = UcsPy.ocsInit_rad2 n r1)
    (h3 : 0 ≤ r3) (e3 : r3 * r3 = UcsPy.ocsInit_rad3 n r1 r2) :
    ∃ t m, UcsPy.ocsInit n r1 r2 r3 = .ok (t, m) ∧ M44.IsAffine m ∧ m.origin = ⟨0, 0, 0⟩ ∧
      (t = false → m = M44.identity) ∧
      (t = true →
        let az : V3 := ⟨n.x * (1 / r1), n.y * (1 / r1), n.z * (1 / r1)⟩
        r2 * r2 = V3.dot (arbitraryAxis az) (arbitraryAxis az) ∧ 0 < r2 ∧ r3 = 1 ∧
        m.uz = az ∧ m.ux = V3.smul (1 / r2) (arbitraryAxis az) ∧ m.uy = V3.cross m.uz m.ux ∧
        Orthonormal m ∧ V3.cross m.ux m.uy = m.uz) := by
  ocs_tac UcsPy.ocsInit UcsPy.ocsInit_rad1 UcsPy.ocsInit_rad2 UcsPy.ocsInit_rad3

/-! ## 7. UCS matrices, UCS <-> WCS and OCS <-> WCS round trips -/

/-- `Matrix44.ucs(ux, uy, uz, origin)` maps UCS coordinates to WCS: p ↦ origin + p.x·ux + p.y·uy + p.z·uz -/
theorem ucs_spec (ux uy uz o p : V3) :
    Matrix44Pyx.transform (Matrix44Pyx.ucs ux uy uz o) p
      = V3.add o (V3.add (V3.add (V3.smul p.x ux) (V3.smul p.y uy)) (V3.smul p.z uz))
    ∧ M44.IsAffine (Matrix44Pyx.ucs ux uy uz o)
    ∧ (Matrix44Pyx.ucs ux uy uz o).ux = ux ∧ (Matrix44Pyx.ucs ux uy uz o).uy = uy
    ∧ (Matrix44Pyx.ucs ux uy uz o).uz = uz ∧ (Matrix44Pyx.ucs ux uy uz o).origin = o := by
  refine ⟨?_, by simp [M44.IsAffine, Matrix44Pyx.ucs], rfl, rfl, rfl, rfl⟩
  simp only [Matrix44Pyx.transform, Matrix44Pyx.ucs, V3.add, V3.smul, V3.mk.injEq]
  refine ⟨?_, ?_, ?_⟩ <;> ring

/-- rows orthonormal ⇒ columns orthonormal; no determinant trick is spelled out: the matrix of the three axis rows
    has the transposed matrix as right inverse, and right inverses are two-sided (`inverse_unique`) -/
private theorem orthonormal_cols (m : M44) (h : Orthonormal m) :
    m.m0 * m.m0 + m.m4 * m.m4 + m.m8 * m.m8 = 1 ∧ m.m1 * m.m1 + m.m5 * m.m5 + m.m9 * m.m9 = 1 ∧
    m.m2 * m.m2 + m.m6 * m.m6 + m.m10 * m.m10 = 1 ∧ m.m0 * m.m1 + m.m4 * m.m5 + m.m8 * m.m9 = 0 ∧
    m.m0 * m.m2 + m.m4 * m.m6 + m.m8 * m.m10 = 0 ∧ m.m1 * m.m2 + m.m5 * m.m6 + m.m9 * m.m10 = 0 := by
  obtain ⟨hxx, hyy, hzz, hxy, hxz, hyz⟩ := h
  simp only [V3.dot, M44.ux, M44.uy, M44.uz] at hxx hyy hzz hxy hxz hyz
  let R : M44 := ⟨m.m0, m.m1, m.m2, 0, m.m4, m.m5, m.m6, 0, m.m8, m.m9, m.m10, 0, 0, 0, 0, 1⟩
  have hR : M44.mul R (M44.transpose R) = M44.identity := by
    simp only [R, M44.mul, M44.transpose, M44.identity, M44.mk.injEq]
    refine ⟨?_, ?_, ?_, ?_, ?_, ?_, ?_, ?_, ?_, ?_, ?_, ?_, ?_, ?_, ?_, ?_⟩ <;> linarith
  have hdet : Matrix44Pyx.determinant R ≠ 0 := by
    intro h0
    have := det_mul R (M44.transpose R)
    rw [hR, det_identity, ← determinant_is_textbook R, h0] at this
    simp at this
  obtain ⟨i, hi, _, hl⟩ := inverse_two_sided R hdet
  have : M44.transpose R = i := inverse_unique R i _ hi hR
  rw [← this] at hl
  simp only [R, M44.mul, M44.transpose, M44.identity, M44.mk.injEq] at hl
  obtain ⟨c00, c01, c02, _, _, c11, c12, _, _, _, c22, _⟩ := hl
  refine ⟨?_, ?_, ?_, ?_, ?_, ?_⟩ <;> linarith

/-- for a matrix with orthonormal axis rows (any origin) `ucs_vertex_from_wcs` and `transform` are mutually
    inverse, and so are the direction variants: UCS.from_wcs ∘ UCS.to_wcs = id = UCS.to_wcs ∘ UCS.from_wcs -/
theorem ucs_roundtrip (m : M44) (h : Orthonormal m) (p : V3) :
    Matrix44Pyx.ucsVertexFromWcs m (Matrix44Pyx.transform m p) = p
    ∧ Matrix44Pyx.transform m (Matrix44Pyx.ucsVertexFromWcs m p) = p
    ∧ Matrix44Pyx.ucsDirectionFromWcs m (Matrix44Pyx.transformDirection m p) = p
    ∧ Matrix44Pyx.transformDirection m (Matrix44Pyx.ucsDirectionFromWcs m p) = p := by
  obtain ⟨c00, c11, c22, c01, c02, c12⟩ := orthonormal_cols m h
  obtain ⟨hxx, hyy, hzz, hxy, hxz, hyz⟩ := h
  simp only [V3.dot, M44.ux, M44.uy, M44.uz] at hxx hyy hzz hxy hxz hyz
  obtain ⟨px, py, pz⟩ := p
  simp only [Matrix44Pyx.ucsVertexFromWcs, Matrix44Pyx.transform, Matrix44Pyx.ucsDirectionFromWcs,
    Matrix44Pyx.transformDirection, V3.mk.injEq]
  refine ⟨⟨?_, ?_, ?_⟩, ⟨?_, ?_, ?_⟩, ⟨?_, ?_, ?_⟩, ⟨?_, ?_, ?_⟩⟩
  · linear_combination px * hxx + py * hxy + pz * hxz
  · linear_combination px * hxy + py * hyy + pz * hyz
  · linear_combination px * hxz + py * hyz + pz * hzz
  · linear_combination (px - m.m12) * c00 + (py - m.m13) * c01 + (pz - m.m14) * c02
  · linear_combination (px - m.m12) * c01 + (py - m.m13) * c11 + (pz - m.m14) * c12
  · linear_combination (px - m.m12) * c02 + (py - m.m13) * c12 + (pz - m.m14) * c22
  · linear_combination px * hxx + py * hxy + pz * hxz
  · linear_combination px * hxy + py * hyy + pz * hyz
  · linear_combination px * hxz + py * hyz + pz * hzz
  · linear_combination px * c00 + py * c01 + pz * c02
  · linear_combination px * c01 + py * c11 + pz * c12
  · linear_combination px * c02 + py * c12 + pz * c22

/-- the UCS class methods are these matrix kernels (both linkings of ucs.py) -/
theorem ucs_methods (m : M44) (p : V3) (ps : List V3) :
    UcsPyx.ucsToWcs m p = Matrix44Pyx.transform m p ∧ UcsPyx.ucsFromWcs m p = Matrix44Pyx.ucsVertexFromWcs m p
    ∧ UcsPyx.ucsDirectionToWcs m p = Matrix44Pyx.transformDirection m p
    ∧ UcsPyx.ucsDirectionFromWcs m p = Matrix44Pyx.ucsDirectionFromWcs m p
    ∧ UcsPyx.ucsPointsToWcs m ps = ps.map (Matrix44Pyx.transform m)
    ∧ UcsPy.ucsToWcs m p = Matrix44Pyx.transform m p ∧ UcsPy.ucsFromWcs m p = Matrix44Pyx.ucsVertexFromWcs m p
    ∧ UcsPy.ucsDirectionToWcs m p = Matrix44Pyx.transformDirection m p
    ∧ UcsPy.ucsDirectionFromWcs m p = Matrix44Pyx.ucsDirectionFromWcs m p
    ∧ UcsPy.ucsPointsToWcs m ps = ps.map (Matrix44Pyx.transform m) :=
  ⟨rfl, rfl, rfl, rfl, rfl, rfl, rfl, rfl, rfl, rfl⟩

/-- OCS.to_wcs and OCS.from_wcs are mutually inverse for every OCS whose matrix has orthonormal axes
    (the identity pass-through case `transform = false` included) -/
theorem ocs_roundtrip (t : Bool) (m : M44) (h : Orthonormal m) (p : V3) :
    UcsPyx.ocsToWcs t m (UcsPyx.ocsFromWcs t m p) = p ∧ UcsPyx.ocsFromWcs t m (UcsPyx.ocsToWcs t m p) = p
    ∧ UcsPy.ocsToWcs t m (UcsPy.ocsFromWcs t m p) = p ∧ UcsPy.ocsFromWcs t m (UcsPy.ocsToWcs t m p) = p := by
  obtain ⟨_, _, h3, h4⟩ := ucs_roundtrip m h p
  simp only [Matrix44Pyx.ucsDirectionFromWcs, Matrix44Pyx.transformDirection] at h3 h4
  cases t
  · simp [UcsPyx.ocsToWcs, UcsPyx.ocsFromWcs, UcsPy.ocsToWcs, UcsPy.ocsFromWcs]
  · simp only [UcsPyx.ocsToWcs, UcsPyx.ocsFromWcs, UcsPy.ocsToWcs, UcsPy.ocsFromWcs, if_true]
    exact ⟨h4, h3, h4, h3⟩

/-- consequently: for EVERY non-zero extrusion the constructed OCS converts back and forth without loss -/
theorem ocs_roundtrip_all (n : V3) (r1 r2 r3 : Rat) (p : V3)
    (h1 : 0 < r1) (e1 : r1 * r1 = UcsPyx.ocsInit_rad1 n)
    (h2 : 0 ≤ r2) (e2 : r2 * r2 = UcsPyx.ocsInit_rad2 n r1)
    (h3 : 0 ≤ r3) (e3 : r3 * r3 = UcsPyx.ocsInit_rad3 n r1 r2) :
    ∃ t m, UcsPyx.ocsInit n r1 r2 r3 = .ok (t, m) ∧
      UcsPyx.ocsToWcs t m (UcsPyx.ocsFromWcs t m p) = p ∧ UcsPyx.ocsFromWcs t m (UcsPyx.ocsToWcs t m p) = p := by
  obtain ⟨t, m, hm, _, _, hf, ht⟩ := ocs_axes n r1 r2 r3 h1 e1 h2 e2 h3 e3
  refine ⟨t, m, hm, ?_⟩
  have ho : Orthonormal m := by
    cases t
    · rw [hf rfl]; decide +kernel
    · exact (ht rfl).2.2.2.2.2.2.1
  obtain ⟨a, b, _, _⟩ := ocs_roundtrip t m ho p
  exact ⟨a, b⟩

/-- the axis properties of the OCS object -/
theorem ocs_axis_props (t : Bool) (m : M44) :
    UcsPyx.ocsUx t m = (if t then m.ux else ⟨1, 0, 0⟩) ∧ UcsPyx.ocsUy t m = (if t then m.uy else ⟨0, 1, 0⟩)
    ∧ UcsPyx.ocsUz t m = (if t then m.uz else ⟨0, 0, 1⟩) := by
  cases t <;> exact ⟨rfl, rfl, rfl⟩

-- non-vacuity: extrusion (0,0,-1) (mirrored entity), the classic branch-1 case, and (3,4,12)/13 in branch 2
example : UcsPyx.ocsInit ⟨0, 0, -1⟩ 1 1 1 = .ok (true, ⟨-1, 0, 0, 0, 0, 1, 0, 0, 0, 0, -1, 0, 0, 0, 0, 1⟩) := by decide +kernel
example : UcsPyx.ocsInit ⟨3, 4, 12⟩ 13 (5/13) 1
    = .ok (true, ⟨-4/5, 3/5, 0, 0, -36/65, -48/65, 5/13, 0, 3/13, 4/13, 12/13, 0, 0, 0, 0, 1⟩) := by decide +kernel
example : UcsPyx.ocsInit_rad2 ⟨3, 4, 12⟩ 13 = (5/13) * (5/13) ∧ UcsPyx.ocsInit_rad3 ⟨3, 4, 12⟩ 13 (5/13) = 1 := by decide +kernel
example : UcsPyx.ocsInit ⟨0, 0, 2⟩ 2 0 0 = .ok (false, M44.identity) := by decide +kernel
example : UcsPyx.ocsInit ⟨0, 0, 0⟩ 0 0 0 = .error .zeroDivision := by decide +kernel

/-- `UCS(origin, ux, uy)` (z-axis missing): rows are ux/|ux|, uy/|uy|, (ux × uy)/|ux × uy|; if the two given axes
    are perpendicular the frame is orthonormal and right-handed, the third root being |ux|·|uy| -/
theorem ucs_init_xy (o ux uy : V3) (r1 r2 r3 : Rat)
    (h1 : 0 < r1) (e1 : r1 * r1 = UcsPyx.ucsInitXY_rad1 o ux uy)
    (h2 : 0 < r2) (e2 : r2 * r2 = UcsPyx.ucsInitXY_rad2 o ux uy r1)
    (h3 : 0 < r3) (e3 : r3 * r3 = UcsPyx.ucsInitXY_rad3 o ux uy r1 r2) :
    ∃ m, UcsPyx.ucsInitXY o ux uy r1 r2 r3 = .ok m ∧ UcsPy.ucsInitXY o ux uy r1 r2 r3 = .ok m ∧
      m.origin = o ∧ M44.IsAffine m ∧
      m.ux = V3.smul (1 / r1) ux ∧ m.uy = V3.smul (1 / r2) uy ∧ m.uz = V3.smul (1 / r3) (V3.cross ux uy) ∧
      (V3.dot ux uy = 0 → r3 = r1 * r2 ∧ Orthonormal m ∧ V3.cross m.ux m.uy = m.uz) := by
  obtain ⟨ax, ay, az⟩ := ux
  obtain ⟨bx, b_y, bz⟩ := uy
  simp only [UcsPyx.ucsInitXY_rad1, UcsPyx.ucsInitXY_rad2, UcsPyx.ucsInitXY_rad3] at e1 e2 e3
  have n1 : r1 ≠ 0 := ne_of_gt h1
  have n2 : r2 ≠ 0 := ne_of_gt h2
  have n3 : r3 ≠ 0 := ne_of_gt h3
  refine ⟨_, by simp only [UcsPyx.ucsInitXY, if_neg n1, if_neg n2, if_neg n3]; rfl,
    by simp only [UcsPy.ucsInitXY, if_neg n1, if_neg n2, if_neg n3], ?_, by simp [M44.IsAffine], ?_, ?_, ?_, ?_⟩
  · cases o; rfl
  · simp only [M44.ux, V3.smul, V3.mk.injEq]; refine ⟨?_, ?_, ?_⟩ <;> ring
  · simp only [M44.uy, V3.smul, V3.mk.injEq]; refine ⟨?_, ?_, ?_⟩ <;> ring
  · simp only [M44.uz, V3.smul, V3.cross, V3.mk.injEq]; refine ⟨?_, ?_, ?_⟩ <;> ring
  · intro hd
    simp only [V3.dot] at hd
    have hl : r3 * r3 = (r1 * r2) * (r1 * r2) := by
      rw [e3]
      linear_combination (exp := 1) (-(bx * bx + b_y * b_y + bz * bz)) * e1 - (r1 * r1) * e2
        - (ax * bx + ay * b_y + az * bz) * hd
    have h12 : 0 < r1 * r2 := mul_pos h1 h2
    have hr3 : r3 = r1 * r2 := by nlinarith
    subst hr3
    refine ⟨rfl, ⟨?_, ?_, ?_, ?_, ?_, ?_⟩, ?_⟩
    all_goals simp only [M44.ux, M44.uy, M44.uz, V3.dot, V3.cross, V3.mk.injEq]
    · field_simp; linear_combination -e1
    · field_simp; linear_combination -e2
    · field_simp; linear_combination -e3
    · field_simp; linear_combination hd
    · field_simp; ring
    · field_simp; ring
    · refine ⟨?_, ?_, ?_⟩ <;> (field_simp)

example : UcsPyx.ucsInitXY ⟨1, 2, 3⟩ ⟨3, 4, 0⟩ ⟨-8, 6, 0⟩ 5 10 50
    = .ok ⟨3/5, 4/5, 0, 0, -4/5, 3/5, 0, 0, 0, 0, 1, 0, 1, 2, 3, 1⟩ := by decide +kernel


/-- the other `UCS.__init__` variants: every given axis is divided by its own length, a missing axis is the
    normalised cross product of the other two in right-handed order (uy = uz × ux, ux = uy × uz) -/
theorem ucs_init_rows (o a b c : V3) (r1 r2 r3 : Rat) (n1 : r1 ≠ 0) (n2 : r2 ≠ 0) (n3 : r3 ≠ 0) :
    (∃ m, UcsPyx.ucsInitXYZ o a b c r1 r2 r3 = .ok m ∧ UcsPy.ucsInitXYZ o a b c r1 r2 r3 = .ok m ∧ m.origin = o ∧
        m.ux = V3.smul (1 / r1) a ∧ m.uy = V3.smul (1 / r2) b ∧ m.uz = V3.smul (1 / r3) c)
    ∧ (∃ m, UcsPyx.ucsInitXZ o a c r1 r2 r3 = .ok m ∧ UcsPy.ucsInitXZ o a c r1 r2 r3 = .ok m ∧ m.origin = o ∧
        m.ux = V3.smul (1 / r1) a ∧ m.uz = V3.smul (1 / r2) c ∧ m.uy = V3.smul (1 / r3) (V3.cross c a))
    ∧ (∃ m, UcsPyx.ucsInitYZ o b c r1 r2 r3 = .ok m ∧ UcsPy.ucsInitYZ o b c r1 r2 r3 = .ok m ∧ m.origin = o ∧
        m.uy = V3.smul (1 / r1) b ∧ m.uz = V3.smul (1 / r2) c ∧ m.ux = V3.smul (1 / r3) (V3.cross b c)) := by
  obtain ⟨ox, oy, oz⟩ := o
  refine ⟨⟨_, by simp only [UcsPyx.ucsInitXYZ, if_neg n1, if_neg n2, if_neg n3]; rfl,
      by simp only [UcsPy.ucsInitXYZ, if_neg n1, if_neg n2, if_neg n3], rfl, ?_, ?_, ?_⟩,
    ⟨_, by simp only [UcsPyx.ucsInitXZ, if_neg n1, if_neg n2, if_neg n3]; rfl,
      by simp only [UcsPy.ucsInitXZ, if_neg n1, if_neg n2, if_neg n3], rfl, ?_, ?_, ?_⟩,
    ⟨_, by simp only [UcsPyx.ucsInitYZ, if_neg n1, if_neg n2, if_neg n3]; rfl,
      by simp only [UcsPy.ucsInitYZ, if_neg n1, if_neg n2, if_neg n3], rfl, ?_, ?_, ?_⟩⟩ <;>
  · simp only [M44.ux, M44.uy, M44.uz, V3.smul, V3.cross, V3.mk.injEq]
    refine ⟨?_, ?_, ?_⟩ <;> ring

/-! ## 8. Vector identities (both twins) -/

/-- the arithmetic kernels of both twins are the textbook operations -/
theorem vector_ops_textbook (a b : V3) (k : Rat) :
    VectorPyx.v3add a b = V3.add a b ∧ VectorPy.v3add a b = V3.add a b
    ∧ VectorPyx.v3sub a b = V3.sub a b ∧ VectorPy.v3sub a b = V3.sub a b
    ∧ VectorPyx.v3rsub a b = V3.sub b a ∧ VectorPy.v3rsub a b = V3.sub b a
    ∧ VectorPyx.v3dot a b = V3.dot a b ∧ VectorPy.v3dot a b = V3.dot a b
    ∧ VectorPyx.v3cross a b = V3.cross a b ∧ VectorPy.v3cross a b = V3.cross a b
    ∧ VectorPyx.v3mul a k = V3.smul k a ∧ VectorPy.v3mul a k = V3.smul k a
    ∧ VectorPyx.v3neg a = V3.smul (-1) a ∧ VectorPy.v3neg a = V3.smul (-1) a
    ∧ VectorPyx.v3magsq a = V3.dot a a ∧ VectorPy.v3magsq a = V3.dot a a := by
  refine ⟨rfl, rfl, rfl, rfl, rfl, rfl, rfl, rfl, rfl, rfl, ?_, ?_, ?_, ?_, rfl, rfl⟩ <;>
  · simp only [VectorPyx.v3mul, VectorPy.v3mul, VectorPyx.v3neg, VectorPy.v3neg, V3.smul, V3.mk.injEq]
    refine ⟨?_, ?_, ?_⟩ <;> ring

theorem dot_symm_bilinear (a b c : V3) (k : Rat) :
    VectorPyx.v3dot a b = VectorPyx.v3dot b a
    ∧ VectorPyx.v3dot (VectorPyx.v3add a b) c = VectorPyx.v3dot a c + VectorPyx.v3dot b c
    ∧ VectorPyx.v3dot (VectorPyx.v3mul a k) b = k * VectorPyx.v3dot a b
    ∧ 0 ≤ VectorPyx.v3dot a a ∧ (VectorPyx.v3dot a a = 0 → a = ⟨0, 0, 0⟩) := by
  simp only [VectorPyx.v3dot, VectorPyx.v3add, VectorPyx.v3mul]
  refine ⟨by ring, by ring, by ring, by nlinarith [mul_self_nonneg a.x, mul_self_nonneg a.y, mul_self_nonneg a.z], ?_⟩
  intro h
  obtain ⟨x, y, z⟩ := a
  simp only at h
  have hx : x = 0 := by nlinarith [mul_self_nonneg x, mul_self_nonneg y, mul_self_nonneg z]
  have hy : y = 0 := by nlinarith [mul_self_nonneg x, mul_self_nonneg y, mul_self_nonneg z]
  have hz : z = 0 := by nlinarith [mul_self_nonneg x, mul_self_nonneg y, mul_self_nonneg z]
  simp [hx, hy, hz]

/-- a × b is perpendicular to a and b, anti-commutative, and |a × b|² = |a|²|b|² − (a·b)² (Lagrange) -/
theorem cross_laws (a b : V3) :
    VectorPyx.v3dot (VectorPyx.v3cross a b) a = 0 ∧ VectorPyx.v3dot (VectorPyx.v3cross a b) b = 0
    ∧ VectorPyx.v3cross a b = VectorPyx.v3neg (VectorPyx.v3cross b a)
    ∧ VectorPyx.v3magsq (VectorPyx.v3cross a b)
        = VectorPyx.v3magsq a * VectorPyx.v3magsq b - VectorPyx.v3dot a b * VectorPyx.v3dot a b := by
  simp only [VectorPyx.v3dot, VectorPyx.v3cross, VectorPyx.v3neg, VectorPyx.v3magsq, V3.mk.injEq]
  refine ⟨by ring, by ring, ⟨by ring, by ring, by ring⟩, by ring⟩

/-- a × (b × c) = b (a·c) − c (a·b)  and the scalar triple product is cyclic -/
theorem cross_triple (a b c : V3) :
    VectorPyx.v3cross a (VectorPyx.v3cross b c)
      = VectorPyx.v3sub (VectorPyx.v3mul b (VectorPyx.v3dot a c)) (VectorPyx.v3mul c (VectorPyx.v3dot a b))
    ∧ VectorPyx.v3dot a (VectorPyx.v3cross b c) = VectorPyx.v3dot b (VectorPyx.v3cross c a) := by
  simp only [VectorPyx.v3dot, VectorPyx.v3cross, VectorPyx.v3sub, VectorPyx.v3mul, V3.mk.injEq]
  refine ⟨⟨by ring, by ring, by ring⟩, by ring⟩

theorem lerp_laws (a b : V3) (t : Rat) (p q : V2) :
    VectorPyx.v3lerp a b 0 = a ∧ VectorPyx.v3lerp a b 1 = b
    ∧ VectorPyx.v3lerp a b t = VectorPyx.v3add (VectorPyx.v3mul a (1 - t)) (VectorPyx.v3mul b t)
    ∧ VectorPyx.v3lerp a b t = VectorPyx.v3lerp b a (1 - t)
    ∧ VectorPy.v3lerp a b t = VectorPyx.v3lerp a b t
    ∧ VectorPyx.v2lerp p q 0 = p ∧ VectorPyx.v2lerp p q 1 = q ∧ VectorPy.v2lerp p q t = VectorPyx.v2lerp p q t := by
  obtain ⟨ax, ay, az⟩ := a
  obtain ⟨bx, b_y, bz⟩ := b
  obtain ⟨px, py⟩ := p
  obtain ⟨qx, qy⟩ := q
  refine ⟨?_, ?_, ?_, ?_, ?_, ?_, ?_, ?_⟩ <;>
    simp only [VectorPyx.v3lerp, VectorPy.v3lerp, VectorPyx.v3add, VectorPyx.v3mul, VectorPyx.v2lerp, VectorPy.v2lerp,
      V3.mk.injEq, V2.mk.injEq] <;>
    first | trivial | (refine ⟨?_, ?_, ?_⟩ <;> ring) | (refine ⟨?_, ?_⟩ <;> ring)

theorem v2_laws (a b : V2) (k : Rat) (ccw : Bool) :
    VectorPyx.v2det a b = -VectorPyx.v2det b a ∧ VectorPyx.v2dot a b = VectorPyx.v2dot b a
    ∧ VectorPyx.v2dot (VectorPyx.v2ortho a ccw) a = 0
    ∧ VectorPyx.v2det a (VectorPyx.v2ortho a true) = VectorPyx.v2dot a a
    ∧ VectorPyx.v2det a (VectorPyx.v2ortho a false) = -VectorPyx.v2dot a a
    ∧ VectorPyx.v2det a b * VectorPyx.v2det a b + VectorPyx.v2dot a b * VectorPyx.v2dot a b
        = VectorPyx.v2dot a a * VectorPyx.v2dot b b := by
  cases ccw <;>
  · simp only [VectorPyx.v2det, VectorPyx.v2dot, VectorPyx.v2ortho, if_true, Bool.false_eq_true, if_false]
    refine ⟨by ring, by ring, by ring, by ring, by ring, by ring⟩

/-- `orthogonal()` turns by a quarter turn in the xy-plane and keeps z (3-D) -/
theorem ortho_laws (a : V3) :
    VectorPyx.v3ortho a true = ⟨-a.y, a.x, a.z⟩ ∧ VectorPyx.v3ortho a false = ⟨a.y, -a.x, a.z⟩
    ∧ VectorPyx.v3ortho (VectorPyx.v3ortho a true) false = a := by
  cases a; simp [VectorPyx.v3ortho]

/-- `normalize()`: with r = |a| ≠ 0 the result is a/r, has length 1 and is parallel to a; the null vector raises -/
theorem normalize_spec (a : V3) (r : Rat) (hr : r * r = VectorPyx.v3normalize_rad1 a) :
    (r = 0 → VectorPyx.v3normalize a r = .error .zeroDivision) ∧
    (r ≠ 0 → ∃ u, VectorPyx.v3normalize a r = .ok u ∧ VectorPy.v3normalize a r = .ok u ∧ u = V3.smul (1 / r) a
        ∧ VectorPyx.v3dot u u = 1 ∧ VectorPyx.v3cross u a = ⟨0, 0, 0⟩) := by
  simp only [VectorPyx.v3normalize_rad1] at hr
  constructor
  · intro h; simp [VectorPyx.v3normalize, h]
  · intro h
    refine ⟨_, by simp only [VectorPyx.v3normalize, if_neg h]; rfl, by simp only [VectorPy.v3normalize, if_neg h], ?_, ?_, ?_⟩
    · simp only [V3.smul, V3.mk.injEq]; refine ⟨?_, ?_, ?_⟩ <;> ring
    · simp only [VectorPyx.v3dot]; field_simp; linarith
    · simp only [VectorPyx.v3cross, V3.mk.injEq]; refine ⟨?_, ?_, ?_⟩ <;> ring

/-- `project()`: the projection of b onto a ≠ 0 is (a·b / a·a) a -/
theorem project_spec (a b : V3) (r : Rat) (hr : r * r = VectorPyx.v3project_rad1 a b) (h0 : r ≠ 0) :
    ∃ p, VectorPyx.v3project a b r = .ok p ∧ VectorPy.v3project a b r = .ok p
      ∧ p = V3.smul (V3.dot a b / V3.dot a a) a ∧ V3.dot (V3.sub b p) a = 0 := by
  simp only [VectorPyx.v3project_rad1] at hr
  have haa : a.x * a.x + a.y * a.y + a.z * a.z ≠ 0 := by
    rw [← hr]; exact mul_ne_zero h0 h0
  refine ⟨_, by simp only [VectorPyx.v3project, if_neg h0]; rfl, by simp only [VectorPy.v3project, if_neg h0], ?_, ?_⟩
  · simp only [V3.smul, V3.dot, V3.mk.injEq]
    refine ⟨?_, ?_, ?_⟩ <;> (rw [← hr]; field_simp)
  · simp only [V3.sub, V3.dot]; field_simp; linear_combination (a.x * b.x + a.y * b.y + a.z * b.z) * hr

theorem sum_spec (vs : List V3) (ps : List V2) :
    VectorPyx.v3sum vs = vs.foldl V3.add ⟨0, 0, 0⟩ ∧ VectorPy.v3sum vs = vs.foldl V3.add ⟨0, 0, 0⟩
    ∧ VectorPyx.v2sum ps = VectorPy.v2sum ps := ⟨rfl, rfl, rfl⟩

/-! ## 9. Equality, ordering, hashing -/

/-- `==` is component equality in both twins, hence an equivalence relation; `hash(v) = hash(v.xyz)` is a
    function of the components, so equal vectors have equal hashes (for any hash function on triples) -/
theorem eq_spec (a b : V3) (p q : V2) {H : Type} (hash : Rat × Rat × Rat → H) :
    (VectorPyx.v3eq a b = true ↔ a = b) ∧ (VectorPy.v3eq a b = true ↔ a = b)
    ∧ (VectorPyx.v2eq p q = true ↔ p = q) ∧ (VectorPy.v2eq p q = true ↔ p = q)
    ∧ (VectorPyx.v3eq a b = true → hash (a.x, a.y, a.z) = hash (b.x, b.y, b.z)) := by
  obtain ⟨ax, ay, az⟩ := a
  obtain ⟨bx, b_y, bz⟩ := b
  obtain ⟨px, py⟩ := p
  obtain ⟨qx, qy⟩ := q
  refine ⟨?_, ?_, ?_, ?_, ?_⟩ <;>
    simp only [VectorPyx.v3eq, VectorPy.v3eq, VectorPyx.v2eq, VectorPy.v2eq, Bool.and_eq_true, decide_eq_true_eq,
      V3.mk.injEq, V2.mk.injEq, and_assoc]
  rintro ⟨rfl, rfl, rfl⟩; rfl

/-- the pure-Python `Vec3.__lt__` is the lexicographic order on (x, y, z): a strict total order consistent with `==` -/
theorem py_v3lt_strict_total (a b c : V3) :
    VectorPy.v3lt a a = false
    ∧ (VectorPy.v3lt a b = true → VectorPy.v3lt b c = true → VectorPy.v3lt a c = true)
    ∧ (VectorPy.v3lt a b = true ∨ a = b ∨ VectorPy.v3lt b a = true)
    ∧ (VectorPy.v3lt a b = true → VectorPy.v3lt b a = false) := by
  obtain ⟨ax, ay, az⟩ := a
  obtain ⟨bx, b_y, bz⟩ := b
  obtain ⟨cx, cy, cz⟩ := c
  simp only [VectorPy.v3lt, V3.mk.injEq]
  refine ⟨by simp, ?_, ?_, ?_⟩
  · intro h1 h2
    split_ifs at h1 h2 ⊢ <;> simp only [decide_eq_true_eq] at h1 h2 ⊢ <;> (try subst_vars) <;>
      first | exact lt_trans h1 h2 | exact h1 | exact h2 | (exfalso; linarith) | (exfalso; simp_all) | linarith
  · rcases lt_trichotomy ax bx with h | h | h
    · left; simp [ne_of_lt h, h]
    · subst h
      rcases lt_trichotomy ay b_y with h | h | h
      · left; simp [ne_of_lt h, h]
      · subst h
        rcases lt_trichotomy az bz with h | h | h
        · left; simp [h]
        · right; left; simp [h]
        · right; right; simp [h]
      · right; right; simp [ne_of_gt h, ne_of_lt h, h]
    · right; right; simp [ne_of_gt h, ne_of_lt h, h]
  · intro h1
    split_ifs at h1 ⊢ <;> simp only [decide_eq_true_eq, decide_eq_false_iff_not, not_lt] at h1 ⊢ <;>
      first | exact le_of_lt h1 | (exfalso; simp_all) | linarith

/-- the Cython `Vec3.__lt__` is the very same function as the Python twin, hence the same strict total
    lexicographic order consistent with `==`.  (Before the fix fc235f1a9 it never compared z and
    Vec3(1,2,3) < Vec3(1,2,4) was False.) -/
theorem pyx_v3lt_strict_total (a b c : V3) :
    VectorPyx.v3lt = VectorPy.v3lt
    ∧ VectorPyx.v3lt a a = false
    ∧ (VectorPyx.v3lt a b = true → VectorPyx.v3lt b c = true → VectorPyx.v3lt a c = true)
    ∧ (VectorPyx.v3lt a b = true ∨ a = b ∨ VectorPyx.v3lt b a = true)
    ∧ (VectorPyx.v3lt a b = true → VectorPyx.v3lt b a = false) := by
  have h : VectorPyx.v3lt = VectorPy.v3lt := rfl
  rw [h]
  exact ⟨rfl, py_v3lt_strict_total a b c⟩

example : VectorPyx.v3lt ⟨1, 2, 3⟩ ⟨1, 2, 4⟩ = true ∧ VectorPyx.v3lt ⟨1, 2, 4⟩ ⟨1, 2, 3⟩ = false := by decide +kernel

/-- the 2-D orders of both twins are the same strict total order -/
theorem v2lt_strict_total (p q : V2) :
    VectorPyx.v2lt p q = VectorPy.v2lt p q
    ∧ VectorPy.v2lt p p = false
    ∧ (VectorPy.v2lt p q = true ∨ p = q ∨ VectorPy.v2lt q p = true)
    ∧ (VectorPy.v2lt p q = true → VectorPy.v2lt q p = false) := by
  obtain ⟨px, py⟩ := p
  obtain ⟨qx, qy⟩ := q
  refine ⟨rfl, by simp [VectorPy.v2lt], ?_, ?_⟩
  · simp only [VectorPy.v2lt, V2.mk.injEq]
    rcases lt_trichotomy px qx with h | h | h
    · left; simp [ne_of_lt h, h]
    · subst h
      rcases lt_trichotomy py qy with h | h | h
      · left; simp [h]
      · right; left; simp [h]
      · right; right; simp [h]
    · right; right; simp [ne_of_gt h, ne_of_lt h, h]
  · simp only [VectorPy.v2lt]
    intro h1
    split_ifs at h1 ⊢ <;> simp only [decide_eq_true_eq, decide_eq_false_iff_not, not_lt] at h1 ⊢ <;>
      first | exact le_of_lt h1 | (exfalso; simp_all) | linarith

/-! ## 10. The two twins compute the same functions (what C11 needs of C10) -/

theorem twins_agree_matrix :
    Matrix44Py.scale = Matrix44Pyx.scale ∧ Matrix44Py.scaleUniform = Matrix44Pyx.scaleUniform
    ∧ Matrix44Py.translate = Matrix44Pyx.translate ∧ Matrix44Py.xRotate = Matrix44Pyx.xRotate
    ∧ Matrix44Py.yRotate = Matrix44Pyx.yRotate ∧ Matrix44Py.zRotate = Matrix44Pyx.zRotate
    ∧ Matrix44Py.axisRotate = Matrix44Pyx.axisRotate ∧ Matrix44Py.xyzRotate = Matrix44Pyx.xyzRotate
    ∧ Matrix44Py.shearXY = Matrix44Pyx.shearXY ∧ Matrix44Py.ucs = Matrix44Pyx.ucs
    ∧ Matrix44Py.transform = Matrix44Pyx.transform ∧ Matrix44Py.transformDirection = Matrix44Pyx.transformDirection
    ∧ Matrix44Py.transformDirectionN = Matrix44Pyx.transformDirectionN
    ∧ Matrix44Py.transformVertices = Matrix44Pyx.transformVertices
    ∧ Matrix44Py.transformDirections = Matrix44Pyx.transformDirections ∧ Matrix44Py.fast2d = Matrix44Pyx.fast2d
    ∧ Matrix44Py.ucsVertexFromWcs = Matrix44Pyx.ucsVertexFromWcs
    ∧ Matrix44Py.ucsDirectionFromWcs = Matrix44Pyx.ucsDirectionFromWcs
    ∧ Matrix44Py.origin = Matrix44Pyx.origin ∧ Matrix44Py.ux = Matrix44Pyx.ux ∧ Matrix44Py.uy = Matrix44Pyx.uy
    ∧ Matrix44Py.uz = Matrix44Pyx.uz ∧ Matrix44Py.copy = Matrix44Pyx.copy ∧ Matrix44Py.from2d = Matrix44Pyx.from2d :=
  ⟨rfl, rfl, rfl, rfl, rfl, rfl, rfl, rfl, rfl, rfl, rfl, rfl, rfl, rfl, rfl, rfl, rfl, rfl, rfl, rfl, rfl, rfl, rfl, rfl⟩

theorem twins_agree_vector :
    VectorPy.v3add = VectorPyx.v3add ∧ VectorPy.v3sub = VectorPyx.v3sub ∧ VectorPy.v3rsub = VectorPyx.v3rsub
    ∧ VectorPy.v3mul = VectorPyx.v3mul ∧ VectorPy.v3neg = VectorPyx.v3neg ∧ VectorPy.v3dot = VectorPyx.v3dot
    ∧ VectorPy.v3cross = VectorPyx.v3cross ∧ VectorPy.v3lerp = VectorPyx.v3lerp ∧ VectorPy.v3magsq = VectorPyx.v3magsq
    ∧ VectorPy.v3ortho = VectorPyx.v3ortho ∧ VectorPy.v3eq = VectorPyx.v3eq ∧ VectorPy.v3lt = VectorPyx.v3lt
    ∧ VectorPy.v3isnull = VectorPyx.v3isnull
    ∧ VectorPy.v3normalize = VectorPyx.v3normalize ∧ VectorPy.v3project = VectorPyx.v3project
    ∧ VectorPy.v3sum = VectorPyx.v3sum
    ∧ VectorPy.v2add = VectorPyx.v2add ∧ VectorPy.v2sub = VectorPyx.v2sub ∧ VectorPy.v2mul = VectorPyx.v2mul
    ∧ VectorPy.v2neg = VectorPyx.v2neg ∧ VectorPy.v2dot = VectorPyx.v2dot ∧ VectorPy.v2det = VectorPyx.v2det
    ∧ VectorPy.v2lerp = VectorPyx.v2lerp ∧ VectorPy.v2ortho = VectorPyx.v2ortho ∧ VectorPy.v2eq = VectorPyx.v2eq
    ∧ VectorPy.v2lt = VectorPyx.v2lt ∧ VectorPy.v2sum = VectorPyx.v2sum :=
  ⟨rfl, rfl, rfl, rfl, rfl, rfl, rfl, rfl, rfl, rfl, rfl, rfl, rfl, rfl, rfl, rfl, rfl, rfl, rfl, rfl, rfl, rfl, rfl, rfl,
   rfl, rfl, rfl⟩

/-- `isclose`: the hand-written C version of the Cython twin is CPython's `math.isclose` used by the Python twin -/
theorem twins_agree_isclose (a b : V3) (p q : V2) :
    VectorPyx.v3isclose a b = VectorPy.v3isclose a b ∧ VectorPyx.v2isclose p q = VectorPy.v2isclose p q := by
  have key : ∀ x y rel ab : Rat,
      ((decide (pyAbs (y - x) ≤ pyAbs (rel * y)) || decide (pyAbs (y - x) ≤ pyAbs (rel * x))) || decide (pyAbs (y - x) ≤ ab))
        = pyIsclose x y rel ab ∨ (x = y ∧ ab < 0) := by
    intro x y rel ab
    unfold pyIsclose
    by_cases h : x = y
    · subst h
      by_cases hab : ab < 0
      · right; exact ⟨rfl, hab⟩
      · left
        have h0 : pyAbs (x - x) ≤ ab := by simp [pyAbs]; linarith
        simp only [decide_true, Bool.true_or, h0, Bool.or_true]
    · left; simp [h]
  have key2 : ∀ x y : Rat,
      ((decide (pyAbs (y - x) ≤ pyAbs (((4835703278458517 : Rat) / 4835703278458516698824704) * y))
        || decide (pyAbs (y - x) ≤ pyAbs (((4835703278458517 : Rat) / 4835703278458516698824704) * x)))
        || decide (pyAbs (y - x) ≤ ((4951760157141521 : Rat) / 4951760157141521099596496896)))
        = pyIsclose x y ((4835703278458517 : Rat) / 4835703278458516698824704)
            ((4951760157141521 : Rat) / 4951760157141521099596496896) := by
    intro x y
    rcases key x y _ _ with h | h
    · exact h
    · exfalso; have := h.2; norm_num at this
  simp only [VectorPyx.v3isclose, VectorPy.v3isclose, VectorPyx.v2isclose, VectorPy.v2isclose, key2, and_self]

end EzdxfVerif.Props.C11

/-
C12  Transforming an entity transforms exactly its geometry.

The theorems talk about `EzdxfVerif.Transform` (Model/Transform.lean): hand-written control flow of the per-entity
`transform()` methods over arithmetic kernels that are REGENERATED from /repo's current source on every run
(Gen/TransformKernels.lean).  Numbers are exact rationals; square roots enter through a parameter `sqrt` and every theorem
assumes `sqrt x * sqrt x = x` (and `0 < sqrt x` where a sign matters) only for the radicands that are evaluated; angles are
unit direction vectors.  Helper lemmas live in Lemmas/Transform.lean; every `theorem` below is a counted obligation.
The findings C12-F1 (uniform test ignored the angle), C12-F2/F3 (thickness sign / zero) and C12-Fa (rotated INSERT) are FIXED
in /repo (09cb6723e, abadd9f3f, 603b8b3fe); their former counterexample theorems are replaced by the full-strength statements
(`uniform_detected_iff`, `thickness_vector_law`, `insert_rotated_example`).  Reverting one of the fixes changes
Gen/TransformKernels.lean (or the correspondence) and re-opens these proofs.
-/
import EzdxfVerif.Lemmas.Transform
import EzdxfVerif.Lemmas.TransformSeq
import EzdxfVerif.Lemmas.TransformIns
import EzdxfVerif.Lemmas.TransformHatch
import EzdxfVerif.Lemmas.TransformText
import EzdxfVerif.Lemmas.TransformRytz

namespace EzdxfVerif.Props.C12
open EzdxfVerif.Rat3 EzdxfVerif.Transform EzdxfVerif.Gen

/-! ## 1. linear law for WCS entities -/

def lerp (a b : V3) (t : Rat) : V3 := V3.add a (V3.smul t (V3.sub b a))

/-- weighted sum Σ wᵢ·pᵢ (B-spline / NURBS curve points, mesh face points, ... are such sums with Σ wᵢ = 1) -/
def wsum : List (Rat × V3) → V3
  | [] => ⟨0, 0, 0⟩
  | (w, p) :: r => V3.add (V3.smul w p) (wsum r)

def wtotal : List (Rat × V3) → Rat
  | [] => 0
  | (w, _) :: r => w + wtotal r

private theorem wsum_dir (m : M44) (ws : List (Rat × V3)) :
    applyDir m (wsum ws) = wsum (ws.map fun wp => (wp.1, applyDir m wp.2)) := by
  induction ws with
  | nil => simp [wsum, applyDir, TransformKernels.mTransformDirection]
  | cons wp r ih =>
    obtain ⟨w, p⟩ := wp
    simp only [wsum, List.map_cons, applyDir_add, applyDir_smul, ih]

private theorem wsum_shift (m : M44) (ws : List (Rat × V3)) :
    wsum (ws.map fun wp => (wp.1, apply m wp.2))
      = V3.add (wsum (ws.map fun wp => (wp.1, applyDir m wp.2))) (V3.smul (wtotal ws) (M44.origin m)) := by
  induction ws with
  | nil => simp [wsum, wtotal, V3.add, V3.smul]
  | cons wp r ih =>
    obtain ⟨w, p⟩ := wp
    simp only [wsum, wtotal, List.map_cons, ih]
    simp only [apply, applyDir, TransformKernels.mTransform, TransformKernels.mTransformDirection, V3.add, V3.smul, M44.origin,
      V3.mk.injEq]
    refine ⟨?_, ?_, ?_⟩ <;> ring

/-- LINE, POINT, 3DFACE, MESH, SPLINE control / fit points, XLINE/RAY start, LEADER, 3-D POLYLINE: the stored points are
    mapped by `m` one by one ... -/
theorem linear_law (m : M44) (ps : List V3) :
    transformPoints m ps = ps.map (apply m) ∧ (transformPoints m ps).length = ps.length := by
  simp [transformPoints]

/-- ... and therefore every point of the geometry they span is mapped by `m`: any affine combination (weights summing to
    1: points of a segment, of a face, of a B-spline or NURBS curve after normalisation of its weights) of the new points is
    `m` applied to the same combination of the old points.  Holds for EVERY matrix (the 4th column is ignored by the code). -/
theorem affine_combination_law (m : M44) (ws : List (Rat × V3)) (h : wtotal ws = 1) :
    apply m (wsum ws) = wsum (ws.map fun wp => (wp.1, apply m wp.2)) := by
  rw [wsum_shift, h, ← wsum_dir]
  simp only [apply, applyDir, TransformKernels.mTransform, TransformKernels.mTransformDirection, V3.add, V3.smul, M44.origin,
    V3.mk.injEq]
  refine ⟨?_, ?_, ?_⟩ <;> ring

/-- LINE: whenever `Line.transform` succeeds, every point of the new segment is the image of the corresponding old point -/
theorem line_law (sqrt : Rat → Rat) (m : M44) (l l' : Line) (h : Line.transform sqrt m l = .ok l') (t : Rat) :
    lerp l'.start l'.stop t = apply m (lerp l.start l.stop t) := by
  unfold Line.transform at h
  split at h
  · cases h
  · cases h
    simp only [lerp, apply, TransformKernels.mTransform, V3.add, V3.smul, V3.sub, V3.mk.injEq]
    refine ⟨?_, ?_, ?_⟩ <;> ring

/-! ### thickness and extrusion of LINE / POINT (`transform_thickness_and_extrusion_without_ocs`) -/

private theorem sign_sq (t : Rat) : sign t * sign t = 1 := by
  unfold sign; split <;> norm_num

/-- the extruded side of a LINE / POINT is mapped correctly for EVERY thickness (positive, negative, zero) and every
    matrix: new thickness · new extrusion = m (thickness · extrusion), whenever the transformation succeeds.
    (Was false for thickness ≤ 0 before the fix abadd9f3f: findings C12-F2 / C12-F3.) -/
theorem thickness_vector_law (sqrt : Rat → Rat) (m : M44) (t : Rat) (n : Option V3) (t' : Option Rat) (n' : Option V3)
    (h : thicknessNoOcs sqrt m (some t) n = .ok (t', n')) :
    thicknessVector t' n' = applyDir m (thicknessVector (some t) n) := by
  simp only [thicknessNoOcs] at h
  split at h
  · rename_i h0
    subst h0
    have hz : applyDir m (thicknessVector (some 0) n) = ⟨0, 0, 0⟩ := by
      simp [thicknessVector, applyDir, TransformKernels.mTransformDirection, V3.smul]
    rw [hz]
    cases n with
    | none => cases h; simp [thicknessVector, V3.smul]
    | some e =>
      simp only at h
      split at h
      · cases h
      · cases h; simp [thicknessVector, V3.smul]
  · split at h
    · cases h
    · rename_i hr
      cases h
      simp only [thicknessVector, Option.getD_some]
      generalize applyDir m (V3.smul t (n.getD ⟨0, 0, 1⟩)) = v at *
      generalize sqrt (magSq v) = r at *
      have hs := sign_sq t
      obtain ⟨vx, vy, vz⟩ := v
      simp only [V3.smul, V3.mk.injEq]
      refine ⟨?_, ?_, ?_⟩
      · field_simp; linear_combination vx * hs
      · field_simp; linear_combination vy * hs
      · field_simp; linear_combination vz * hs

/-- an explicit thickness of 0 never makes the transformation fail on its own account: without an extrusion attribute the
    pair is returned unchanged (ZeroDivisionError before the fix: finding C12-F3) -/
theorem thickness_zero_ok (sqrt : Rat → Rat) (m : M44) :
    thicknessNoOcs sqrt m (some 0) none = .ok (some 0, none) := by
  simp [thicknessNoOcs]

/-! ## 2. OCS entities: vertices, directions, thickness -/

/-- `OCSTransform.transform_vertex / transform_direction`: the OCS point (direction) obtained by old OCS → WCS → m → new OCS
    denotes, in the new OCS, exactly `m` applied to the WCS position of the old point.  Hypothesis = what the code relies on:
    the axes of the NEW OCS are orthonormal (established by `OCS.__init__` for every extrusion, property C11 `ocs_axes`).
    No hypothesis on `m` or on the old OCS. -/
theorem ocs_vertex_law (o : OcsT) (h : o.new.Orthonormal) (p : V3) :
    o.new.toWcs (o.vertex p) = apply o.m (o.old.toWcs p) ∧
    o.new.toWcs (o.direction p) = applyDir o.m (o.old.toWcs p) := by
  rw [vertex_spec, direction_spec]
  exact ⟨toWcs_fromWcs _ h _, toWcs_fromWcs _ h _⟩

/-- the orthonormality of the new axes is needed: with a new "OCS" whose x-axis has length 2 the law fails -/
theorem ocs_vertex_law_needs_orthonormal :
    ∃ (o : OcsT) (p : V3), ¬ o.new.Orthonormal ∧ o.new.toWcs (o.vertex p) ≠ apply o.m (o.old.toWcs p) := by
  refine ⟨⟨M44.identity, Ocs.std, ⟨true, ⟨2, 0, 0, 0, 0, 1, 0, 0, 0, 0, 1, 0, 0, 0, 0, 1⟩⟩, true⟩, ⟨1, 0, 0⟩, ?_, ?_⟩ <;>
    decide +kernel

/-- 2-D variant used by HATCH edges (`transform_2d_vertex`): x and y of the transformed vertex; the dropped z is the new
    elevation, which `DXFPolygon.transform` / `LWPolyline.transform` take from a transformed vertex -/
theorem ocs_vertex2d_law (o : OcsT) (h : o.new.Orthonormal) (v : V2) (e : Rat) :
    o.new.toWcs ⟨(o.vertex2d v e).x, (o.vertex2d v e).y, (o.vertex ⟨v.x, v.y, e⟩).z⟩ = apply o.m (o.old.toWcs ⟨v.x, v.y, e⟩) := by
  rw [vertex2d_spec]
  exact (ocs_vertex_law o h _).1

/-- thickness of an OCS entity (`transform_thickness` keeps the z-component in the new OCS): if the image of the old
    extrusion direction is parallel to the new extrusion (true for every similarity, and whenever `m` keeps the extrusion
    direction perpendicular to the entity plane), new thickness · new extrusion = m (thickness · old extrusion),
    sign included (negative thickness, mirrored matrices) -/
theorem ocs_thickness_law (o : OcsT) (h : o.new.Orthonormal) (t lam : Rat)
    (hpar : applyDir o.m o.old.uz = V3.smul lam o.new.uz) :
    V3.smul (o.thickness t) o.new.uz = applyDir o.m (V3.smul t o.old.uz) := by
  obtain ⟨hxx, hyy, hzz, hxy, hxz, hyz⟩ := h
  have hto : o.old.toWcs ⟨0, 0, t⟩ = V3.smul t o.old.uz := by
    rw [toWcs_spec]; simp [V3.add, V3.smul]
  rw [thickness_spec, direction_spec, fromWcs_spec, hto, applyDir_smul, hpar]
  generalize o.new.uz = c at *
  obtain ⟨c1, c2, c3⟩ := c
  simp only [V3.dot, V3.smul, V3.mk.injEq] at *
  refine ⟨?_, ?_, ?_⟩
  · linear_combination t * lam * c1 * hzz
  · linear_combination t * lam * c2 * hzz
  · linear_combination t * lam * c3 * hzz

/-! ## 3. the new extrusion -/

/-- `transform_extrusion`: the new extrusion is the unit normal of the plane spanned by the images of the OCS x- and
    y-axis, oriented so that (image of x, image of y, new extrusion) is right-handed -/
theorem extrusion_law (sqrt : Rat → Rat) (old : Ocs) (m : M44) (n : V3) (u : Bool)
    (hs : sqrt (magSq (V3.cross (applyDir m old.ux) (applyDir m old.uy))) * sqrt (magSq (V3.cross (applyDir m old.ux) (applyDir m old.uy)))
            = magSq (V3.cross (applyDir m old.ux) (applyDir m old.uy)))
    (hpos : 0 ≤ sqrt (magSq (V3.cross (applyDir m old.ux) (applyDir m old.uy))))
    (h : transformExtrusion sqrt old m = .ok (n, u)) :
    V3.dot n (applyDir m old.ux) = 0 ∧ V3.dot n (applyDir m old.uy) = 0 ∧ V3.dot n n = 1 ∧
    0 < V3.triple n (applyDir m old.ux) (applyDir m old.uy) ∧
    V3.smul (sqrt (magSq (V3.cross (applyDir m old.ux) (applyDir m old.uy)))) n = V3.cross (applyDir m old.ux) (applyDir m old.uy) := by
  rw [extrusion_spec] at h
  simp only at h
  split at h
  · cases h
  · rename_i hr
    cases h
    generalize applyDir m old.ux = a at *
    generalize applyDir m old.uy = b at *
    generalize hr' : sqrt (magSq (V3.cross a b)) = r at *
    have hrpos : 0 < r := lt_of_le_of_ne hpos (Ne.symm hr)
    obtain ⟨a1, a2, a3⟩ := a; obtain ⟨b1, b2, b3⟩ := b
    simp only [magSq, V3.dot, V3.cross, V3.smul, V3.triple, V3.mk.injEq] at *
    refine ⟨?_, ?_, ?_, ?_, ?_, ?_, ?_⟩
    · field_simp; ring
    · field_simp; ring
    · field_simp; linarith
    · have : 1 / r * (a2 * b3 - a3 * b2) * (a2 * b3 - a3 * b2) + 1 / r * (a3 * b1 - a1 * b3) * (a3 * b1 - a1 * b3)
          + 1 / r * (a1 * b2 - a2 * b1) * (a1 * b2 - a2 * b1) = r := by
        field_simp; linarith
      linarith
    · field_simp
    · field_simp
    · field_simp

/-- ... and for a similarity (rotation, uniform scaling, reflection and their products) it is parallel to the linear part
    applied to the OLD extrusion, pointing the same way iff the matrix preserves orientation:
    k²·(m x̂ × m ŷ) = det(m)·m(ẑ) for the right-handed orthonormal old axes x̂, ŷ, ẑ -/
theorem extrusion_parallel_similarity (old : Ocs) (m : M44) (k2 : Rat) (hm : IsSimilarity m k2) (hr : old.RightHanded) :
    V3.smul k2 (V3.cross (applyDir m old.ux) (applyDir m old.uy)) = V3.smul (det3 m) (applyDir m old.uz) := by
  rw [cross_similarity m k2 hm, hr]

/-! ## 4. decision logic: uniform scaling test and NonUniformScalingError -/

/-- the `is_uniform` flag is exactly: equal squared lengths of the two image axes (math.isclose, abs_tol 1e-9) AND
    |m x̂ · m ŷ| ≤ 1e-9 · max(|m x̂|², |m ŷ|²) -/
theorem uniform_flag_spec (sqrt : Rat → Rat) (old : Ocs) (m : M44) (n : V3) (u : Bool)
    (h : transformExtrusion sqrt old m = .ok (n, u)) :
    u = uniformTest (applyDir m old.ux) (applyDir m old.uy) := by
  rw [extrusion_spec] at h
  simp only at h
  split at h
  · cases h
  · cases h; rfl

private theorem magSq_nonneg (v : V3) : 0 ≤ magSq v := by
  simp only [magSq, V3.dot]
  nlinarith [mul_self_nonneg v.x, mul_self_nonneg v.y, mul_self_nonneg v.z]

/-- completeness: a matrix that acts as a similarity on the entity plane (equal lengths, right angle kept) is accepted -/
theorem uniform_detected_of_similar (sqrt : Rat → Rat) (old : Ocs) (m : M44) (n : V3) (u : Bool)
    (h : transformExtrusion sqrt old m = .ok (n, u))
    (heq : magSq (applyDir m old.ux) = magSq (applyDir m old.uy))
    (hperp : V3.dot (applyDir m old.ux) (applyDir m old.uy) = 0) : u = true := by
  rw [uniform_flag_spec sqrt old m n u h]
  have h0 := magSq_nonneg (applyDir m old.uy)
  simp only [uniformTest, heq, hperp, lt_irrefl, if_false, Bool.and_eq_true, decide_eq_true_eq]
  refine ⟨by simp [pyIsclose], ?_⟩
  have : pyAbs 0 = 0 := by simp [pyAbs]
  rw [this]
  have : (0 : Rat) ≤ tol9 := by unfold tol9; norm_num
  positivity

/-- uniform_detected_iff (full strength; was false before the fix 09cb6723e, finding C12-F1): the flag is set exactly when
    the two image axes have (numerically) equal length AND stay (numerically) perpendicular — in particular a set flag
    bounds the cosine of the angle between them by 1e-9, so circles stay circles -/
theorem uniform_detected_iff (sqrt : Rat → Rat) (old : Ocs) (m : M44) (n : V3) (u : Bool)
    (h : transformExtrusion sqrt old m = .ok (n, u)) :
    u = true ↔
      (pyIsclose (magSq (applyDir m old.ux)) (magSq (applyDir m old.uy)) tol9 tol9 = true ∧
       pyAbs (V3.dot (applyDir m old.ux) (applyDir m old.uy)) ≤
         tol9 * (if magSq (applyDir m old.ux) < magSq (applyDir m old.uy) then magSq (applyDir m old.uy)
                 else magSq (applyDir m old.ux))) := by
  rw [uniform_flag_spec sqrt old m n u h]
  simp [uniformTest]

/-- regression fact: "rotate by 45° about z, then scale x by 2" (images (2,1,0), (-2,1,0): equal length, dot -3), which the
    unfixed code accepted as uniform, is rejected now -/
theorem uniform_rejects_shear :
    transformExtrusion (fun x => if x = 16 then 4 else 0) Ocs.std ⟨2, 1, 0, 0, -2, 1, 0, 0, 0, 0, 1, 0, 0, 0, 0, 1⟩
      = .ok (⟨0, 0, 1⟩, false) := by
  decide +kernel

/-- CIRCLE / ARC / LWPOLYLINE: the error is raised exactly when the flag is off (and, for polylines, a bulge exists); a
    transform that raises returns no entity at all (the model is a pure function: "the entity is left unchanged"), and a
    transform that succeeds never raises -/
theorem nonuniform_error_iff (sqrt : Rat → Rat) (o : OcsT) (c : Circle) (a : Arc) (p : LwPolyline) :
    (Circle.transform sqrt o c = .error .nonUniformScaling ↔ o.uniform = false) ∧
    (Arc.transform sqrt o a = .error .nonUniformScaling ↔ o.uniform = false) ∧
    (LwPolyline.transform sqrt o p = .error .nonUniformScaling ↔ (o.uniform = false ∧ p.hasArc = true)) ∧
    ((∃ c', Circle.transform sqrt o c = .ok c') ↔ o.uniform = true) := by
  refine ⟨?_, ?_, ?_, ?_⟩
  · cases hu : o.uniform <;> simp [Circle.transform, hu]
  · cases hu : o.uniform
    · simp [Arc.transform, Circle.transform, hu]
    · simp only [Arc.transform, Circle.transform, hu, if_true]
      repeat' split
      all_goals simp
  · cases hu : o.uniform <;> cases hp : p.hasArc <;> simp [LwPolyline.transform, hu, hp]
  · cases hu : o.uniform <;> simp [Circle.transform, hu]

/-! ## 5. circles and arcs under a similarity of the entity plane -/

/-- `m` acts on the plane of the old OCS as a similarity with squared factor k2 and maps it into the plane of the new OCS -/
def PlaneSimilar (o : OcsT) (k2 : Rat) : Prop :=
  magSq o.ax = k2 ∧ magSq o.ay = k2 ∧ V3.dot o.ax o.ay = 0 ∧ V3.dot o.ax o.new.uz = 0 ∧ V3.dot o.ay o.new.uz = 0
instance (o : OcsT) (k2 : Rat) : Decidable (PlaneSimilar o k2) := by unfold PlaneSimilar; infer_instance

/-- radius_scale + "circles stay circles": after `Circle.transform`, for EVERY unit direction d the image under `m` of the
    old circle point lies in the plane of the new circle at distance (new radius) from the new centre, and
    (new radius)² = k²·(old radius)².  (`sqrt` is only assumed correct on the one radicand the code evaluates.) -/
theorem radius_scale (sqrt : Rat → Rat) (o : OcsT) (k2 : Rat) (c c' : Circle) (d : V2)
    (hn : o.new.Orthonormal) (hp : PlaneSimilar o k2) (hd : d.x * d.x + d.y * d.y = 1)
    (hs : sqrt (magSq (applyDir o.m (o.old.toWcs ⟨c.radius, 0, 0⟩))) * sqrt (magSq (applyDir o.m (o.old.toWcs ⟨c.radius, 0, 0⟩)))
            = magSq (applyDir o.m (o.old.toWcs ⟨c.radius, 0, 0⟩)))
    (h : Circle.transform sqrt o c = .ok c') :
    c'.radius * c'.radius = k2 * (c.radius * c.radius) ∧
    magSq (V3.sub (apply o.m (Circle.point o.old c d)) (o.new.toWcs c'.center)) = c'.radius * c'.radius ∧
    V3.dot (V3.sub (apply o.m (Circle.point o.old c d)) (o.new.toWcs c'.center)) o.new.uz = 0 := by
  unfold Circle.transform at h
  split at h
  · cases h
    obtain ⟨hxx, hyy, hxy, hxz, hyz⟩ := hp
    have hrad : magSq (applyDir o.m (o.old.toWcs ⟨c.radius, 0, 0⟩)) = k2 * (c.radius * c.radius) := by
      rw [toWcs_spec]
      simp only [OcsT.ax] at hxx
      generalize o.old.ux = a at *
      simp only [magSq, V3.dot, V3.add, V3.smul, applyDir, TransformKernels.mTransformDirection] at *
      linear_combination (c.radius * c.radius) * hxx
    simp only [length_spec]
    rw [hs, hrad, (ocs_vertex_law o hn c.center).1, Circle.point, image_offset]
    refine ⟨rfl, ?_, ?_⟩
    · simp only [OcsT.ax, OcsT.ay] at hxx hyy hxy
      generalize applyDir o.m o.old.ux = a at *
      generalize applyDir o.m o.old.uy = b at *
      generalize apply o.m (o.old.toWcs c.center) = q
      simp only [magSq, V3.dot, V3.add, V3.sub, V3.smul] at *
      linear_combination (c.radius * c.radius * d.x * d.x) * hxx + (c.radius * c.radius * d.y * d.y) * hyy
        + (2 * c.radius * c.radius * d.x * d.y) * hxy + (k2 * c.radius * c.radius) * hd
    · simp only [OcsT.ax, OcsT.ay] at hxz hyz
      generalize applyDir o.m o.old.ux = a at *
      generalize applyDir o.m o.old.uy = b at *
      generalize apply o.m (o.old.toWcs c.center) = q
      generalize o.new.uz = n at *
      simp only [V3.dot, V3.add, V3.sub, V3.smul] at *
      linear_combination (c.radius * d.x) * hxz + (c.radius * d.y) * hyz
  · cases h

/-- the planar map old OCS → new OCS multiplies every oriented angle by its determinant: counter-clockwise stays
    counter-clockwise iff `planeDet > 0` -/
theorem plane_map_orientation (o : OcsT) (u v : V2) : cross2 (dir2 o u) (dir2 o v) = o.planeDet * cross2 u v := by
  simp only [dir2, cross2, OcsT.planeDet]
  rw [direction_plane o u.x u.y, direction_plane o v.x v.y]
  simp only [V3.add, V3.smul]
  ring

private theorem dir2_lin (o : OcsT) (u : V2) :
    dir2 o u = ⟨u.x * (o.direction ⟨1, 0, 0⟩).x + u.y * (o.direction ⟨0, 1, 0⟩).x,
                u.x * (o.direction ⟨1, 0, 0⟩).y + u.y * (o.direction ⟨0, 1, 0⟩).y⟩ := by
  simp only [dir2]
  rw [direction_plane o u.x u.y]
  simp [V3.add, V3.smul]

/-- under a similarity of the entity plane the planar map multiplies dot products by k² -/
private theorem dir2_dot (o : OcsT) (k2 : Rat) (hn : o.new.Orthonormal) (hp : PlaneSimilar o k2) (u v : V2) :
    dot2 (dir2 o u) (dir2 o v) = k2 * dot2 u v := by
  obtain ⟨hxx, hyy, hxy, hxz, hyz⟩ := hp
  have e11 := fromWcs_dot o.new hn o.ax o.ax
  have e22 := fromWcs_dot o.new hn o.ay o.ay
  have e12 := fromWcs_dot o.new hn o.ax o.ay
  rw [dir2_lin, dir2_lin, direction_e1, direction_e2]
  rw [fromWcs_spec] at *
  rw [fromWcs_spec] at *
  generalize o.ax = a at *; generalize o.ay = b at *
  generalize o.new.ux = x at *; generalize o.new.uy = y at *; generalize o.new.uz = z at *
  simp only [magSq] at hxx hyy
  generalize V3.dot a x = ax at *; generalize V3.dot a y = ay at *; generalize V3.dot a z = az at *
  generalize V3.dot b x = bx at *; generalize V3.dot b y = by' at *; generalize V3.dot b z = bz at *
  simp only [V3.dot] at e11 e22 e12
  subst hxz hyz
  simp only [dot2]
  linear_combination (u.x * v.x) * (e11.trans hxx) + (u.y * v.y) * (e22.trans hyy) + (u.x * v.y + u.y * v.x) * (e12.trans hxy)

private theorem planeDet_similar (o : OcsT) (k2 r : Rat) (hn : o.new.Orthonormal) (hrh : o.new.RightHanded)
    (hp : PlaneSimilar o k2) (hr : 0 < r) (hnr : V3.smul r o.new.uz = V3.cross o.ax o.ay) : o.planeDet = k2 ∧ 0 < k2 := by
  have hdet : o.planeDet = r := by
    rw [planeDet_spec, hrh, ← hnr]
    have hu := hn.2.2.1
    generalize o.new.uz = n at *
    simp only [V3.dot, V3.smul] at *
    linear_combination r * hu
  have h11 := dir2_dot o k2 hn hp ⟨1, 0⟩ ⟨1, 0⟩
  have h22 := dir2_dot o k2 hn hp ⟨0, 1⟩ ⟨0, 1⟩
  have h12 := dir2_dot o k2 hn hp ⟨1, 0⟩ ⟨0, 1⟩
  have hsq : o.planeDet * o.planeDet = k2 * k2 := by
    simp only [OcsT.planeDet, dir2, dot2] at *
    generalize o.direction ⟨1, 0, 0⟩ = p at *
    generalize o.direction ⟨0, 1, 0⟩ = q at *
    linear_combination (q.x * q.x + q.y * q.y) * h11 + k2 * h22 - (p.x * q.x + p.y * q.y) * h12
  have hk : 0 ≤ k2 := by
    have := hp.1
    simp only [magSq, V3.dot] at this
    rw [← this]
    nlinarith [mul_self_nonneg o.ax.x, mul_self_nonneg o.ax.y, mul_self_nonneg o.ax.z]
  rw [hdet] at hsq ⊢
  have : r = k2 := by nlinarith
  exact ⟨this, this ▸ hr⟩

private theorem spanKept_similar (o : OcsT) (k2 : Rat) (hdet : o.planeDet = k2) (hk : 0 < k2)
    (hdot : ∀ u v, dot2 (dir2 o u) (dir2 o v) = k2 * dot2 u v) (u v : V2) (hu : dot2 u u = 1) (hv : dot2 v v = 1) :
    spanKept u v (dir2 o u) (dir2 o v) = true := by
  have hc : cross2 (dir2 o u) (dir2 o v) = k2 * cross2 u v := by rw [plane_map_orientation, hdet]
  simp only [spanKept, decide_eq_true_eq, hc, hdot]
  have hl : cross2 u v * cross2 u v + dot2 u v * dot2 u v = 1 := by
    simp only [cross2, dot2] at *
    linear_combination (v.x * v.x + v.y * v.y) * hu + hv
  generalize cross2 u v = c at *
  generalize dot2 u v = d at *
  refine ⟨?_, ?_⟩
  · have h0 : c * (k2 * d) - k2 * c * d = 0 := by ring
    rw [h0]
    have : (k2 * c * (k2 * c) + k2 * d * (k2 * d)) = k2 * k2 * (c * c + d * d) := by ring
    rw [this, hl]
    have := mul_pos hk hk
    nlinarith
  · have : c * (k2 * c) + d * (k2 * d) = k2 := by linear_combination k2 * hl
    rw [this]; exact hk

/-- arc_reflection, part 1 (what the code does for `transform`): because the NEW extrusion is chosen as the normalised
    m x̂ × m ŷ (extrusion_law), the planar map old OCS → new OCS has POSITIVE determinant (= k²) for every similarity of the
    plane, mirrored ones included: the angle span of an ARC is kept, start and end direction are mapped in place and are
    NOT exchanged, and bulge values keep their sign (bulge_similarity).  Semicircles included. -/
theorem arc_orientation_preserved (sqrt : Rat → Rat) (o : OcsT) (k2 r : Rat) (a a' : Arc)
    (hn : o.new.Orthonormal) (hrh : o.new.RightHanded) (hp : PlaneSimilar o k2)
    (hr : 0 < r) (hnr : V3.smul r o.new.uz = V3.cross o.ax o.ay)
    (hs : dot2 a.s a.s = 1) (he : dot2 a.e a.e = 1)
    (h : Arc.transform sqrt o a = .ok a') :
    o.planeDet = k2 ∧ 0 < k2 ∧ (a.full = false → a'.s = dir2 o a.s ∧ a'.e = dir2 o a.e) ∧
    (a.full = true → a'.s = a.s ∧ a'.e = a.e) := by
  obtain ⟨hdet, hk⟩ := planeDet_similar o k2 r hn hrh hp hr hnr
  have hdot := dir2_dot o k2 hn hp
  refine ⟨hdet, hk, ?_, ?_⟩
  · intro hf
    unfold Arc.transform at h
    split at h
    · cases h
    · simp only [hf, Bool.false_eq_true, if_false] at h
      have hprobe : dot2 (⟨3 / 5 * a.s.x - 4 / 5 * a.s.y, 4 / 5 * a.s.x + 3 / 5 * a.s.y⟩ : V2)
          ⟨3 / 5 * a.s.x - 4 / 5 * a.s.y, 4 / 5 * a.s.x + 3 / 5 * a.s.y⟩ = 1 := by
        simp only [dot2] at *
        linear_combination hs
      have k1 := spanKept_similar o k2 hdet hk hdot a.s a.e hs he
      have k2' := spanKept_similar o k2 hdet hk hdot a.s _ hs hprobe
      split at h
      all_goals first
        | (cases h; exact ⟨rfl, rfl⟩)
        | (rw [if_pos k2'] at h; cases h; exact ⟨rfl, rfl⟩)
        | (rw [if_pos k1] at h; cases h; exact ⟨rfl, rfl⟩)
  · intro hf
    unfold Arc.transform at h
    split at h
    · cases h
    · simp only [hf, if_true] at h
      cases h
      exact ⟨rfl, rfl⟩

/-! ### bulges: an arc segment is given by its end points and its apex -/

/-- orientation preserving similarity of the plane: p ↦ (a·x - b·y + tx, b·x + a·y + ty) -/
def sim2 (a b tx ty : Rat) (p : V2) : V2 := ⟨a * p.x - b * p.y + tx, b * p.x + a * p.y + ty⟩
/-- orientation reversing similarity of the plane -/
def refl2 (a b tx ty : Rat) (p : V2) : V2 := ⟨a * p.x + b * p.y + tx, b * p.x - a * p.y + ty⟩

/-- a bulge value is invariant under orientation preserving similarities (what LWPOLYLINE / POLYLINE / HATCH polyline
    paths rely on when they copy the bulge) and changes sign under orientation reversing ones -/
theorem bulge_similarity (a b tx ty : Rat) (p1 p2 : V2) (β : Rat) :
    bulgeApex (sim2 a b tx ty p1) (sim2 a b tx ty p2) β = sim2 a b tx ty (bulgeApex p1 p2 β) ∧
    bulgeApex (refl2 a b tx ty p1) (refl2 a b tx ty p2) (-β) = refl2 a b tx ty (bulgeApex p1 p2 β) := by
  simp only [bulgeApex, sim2, refl2, V2.mk.injEq]
  refine ⟨⟨?_, ?_⟩, ⟨?_, ?_⟩⟩ <;> ring

/-- `LWPolyline.transform` keeps every bulge and maps every vertex by `transform_vertex` at the old elevation -/
theorem lwpolyline_vertices (sqrt : Rat → Rat) (o : OcsT) (p p' : LwPolyline) (h : LwPolyline.transform sqrt o p = .ok p') :
    p'.pts.map (fun v => v.bulge) = p.pts.map (fun v => v.bulge) ∧
    p'.pts.map (fun v => (v.x, v.y)) = p.pts.map (fun v => ((o.vertex ⟨v.x, v.y, p.elevation⟩).x, (o.vertex ⟨v.x, v.y, p.elevation⟩).y)) := by
  unfold LwPolyline.transform at h
  split at h
  · cases h
  · cases h
    simp only
    generalize p.pts = l
    constructor
    · induction l with
      | nil => rfl
      | cons v r ih => simpa [List.zipWith] using ih
    · induction l with
      | nil => rfl
      | cons v r ih => simpa [List.zipWith] using ih

/-- width_scale: LWPOLYLINE start / end / constant widths (`transform_width`) under a similarity of the entity plane: the new
    width is the old one scaled by the similarity factor, (width')² = k²·width² (widths of at most 1e-12 become 0; a negative
    width is stored by its absolute value) -/
theorem width_scale (sqrt : Rat → Rat) (o : OcsT) (k2 : Rat) (w : Rat) (hp : PlaneSimilar o k2)
    (hs : sqrt (k2 * (pyAbs w * pyAbs w)) * sqrt (k2 * (pyAbs w * pyAbs w)) = k2 * (pyAbs w * pyAbs w)) :
    o.width sqrt w * o.width sqrt w
      = if (4951760157141521 : Rat) / 4951760157141521099596496896 < pyAbs w then k2 * (w * w) else 0 := by
  obtain ⟨hxx, hyy, hxy, _, _⟩ := hp
  rw [width_spec]
  have ra : magSq (applyDir o.m (o.old.toWcs ⟨pyAbs w, 0, 0⟩)) = k2 * (pyAbs w * pyAbs w) := by
    rw [magSq_plane_image, hxx, hyy, hxy]; ring
  have rb : magSq (applyDir o.m (o.old.toWcs ⟨0, pyAbs w, 0⟩)) = k2 * (pyAbs w * pyAbs w) := by
    rw [magSq_plane_image, hxx, hyy, hxy]; ring
  have habs : pyAbs w * pyAbs w = w * w := by unfold pyAbs; split_ifs <;> ring
  split_ifs with hw
  · simp only [ra, rb, lt_irrefl, if_false]
    rw [hs, habs]
  · simp

/-! ## 6. INSERT -/

/-- `Insert.transform`: whenever it succeeds, the insertion point and the rotation direction obey the OCS laws: the new
    insert is `m` applied to the old one (WCS), the new rotation direction is the transformed old one -/
theorem insert_point_law (sqrt : Rat → Rat) (old new : Ocs) (m : M44) (i i' : Ins) (tol : Rat) (hn : new.Orthonormal)
    (h : Ins.transform sqrt old new m i tol = .ok i') :
    new.toWcs i'.insert = apply m (old.toWcs i.insert) ∧ i'.rot = dir2 ⟨m, old, new, true⟩ i.rot := by
  unfold Ins.transform at h
  split at h
  · cases h
  · cases h
  · cases h
    exact ⟨(ocs_vertex_law ⟨m, old, new, true⟩ hn i.insert).1, rfl⟩

/-- what an INSERT must satisfy to represent `m` applied to another INSERT: its three scaled axes are the images of the old
    scaled axes and its insertion point is the image of the old one.  Then the two block-reference matrices compose, for
    every block base point: matrix44(new) = matrix44(old) · m as point maps -/
theorem insert_matrix_law (old new : Ocs) (m : M44) (i i' : Ins) (base : V3)
    (hx : (insertMatrix new i' ⟨0, 0, 0⟩).ux = applyDir m (insertMatrix old i ⟨0, 0, 0⟩).ux)
    (hy : (insertMatrix new i' ⟨0, 0, 0⟩).uy = applyDir m (insertMatrix old i ⟨0, 0, 0⟩).uy)
    (hz : (insertMatrix new i' ⟨0, 0, 0⟩).uz = applyDir m (insertMatrix old i ⟨0, 0, 0⟩).uz)
    (hins : new.toWcs i'.insert = apply m (old.toWcs i.insert)) (p : V3) :
    apply (insertMatrix new i' base) p = apply m (apply (insertMatrix old i base) p) ∧
    M44.IsAffine (insertMatrix new i' base) := by
  refine ⟨?_, by simp [M44.IsAffine, insertMatrix]⟩
  simp only [insertMatrix, M44.ux, M44.uy, M44.uz] at *
  generalize new.toWcs i'.insert = q' at *
  generalize old.toWcs i.insert = q at *
  obtain ⟨q1, q2, q3⟩ := q; obtain ⟨q1', q2', q3'⟩ := q'
  generalize old.ux = a at *; generalize old.uy = b at *; generalize old.uz = c at *
  generalize new.ux = a' at *; generalize new.uy = b' at *; generalize new.uz = c' at *
  simp only [apply, applyDir, TransformKernels.mTransform,
    TransformKernels.mTransformDirection, V3.add, V3.sub, V3.smul, V3.mk.injEq] at *
  obtain ⟨hx1, hx2, hx3⟩ := hx; obtain ⟨hy1, hy2, hy3⟩ := hy; obtain ⟨hz1, hz2, hz3⟩ := hz
  obtain ⟨hi1, hi2, hi3⟩ := hins
  refine ⟨?_, ?_, ?_⟩
  · linear_combination (p.x - base.x) * hx1 + (p.y - base.y) * hy1 + (p.z - base.z) * hz1 + hi1
  · linear_combination (p.x - base.x) * hx2 + (p.y - base.y) * hy2 + (p.z - base.z) * hz2 + hi2
  · linear_combination (p.x - base.x) * hx3 + (p.y - base.y) * hy3 + (p.z - base.z) * hz3 + hi3

/-! ### insert_transform_law at full generality (session 3)

`X = insX old m i`, `Y = insY old m i`, `Z = insZ old m` are the images under `m` of the block reference's own x-, y- and
z-axis (the OCS axes turned by the rotation (c, s) of the reference).  An INSERT can represent `m ∘ (old reference)` exactly when
these three vectors are mutually orthogonal; `InsertCoordinateSystem.transform` (regenerated kernel `icsScales`) then measures
|X|·sx, ±|Y|·sy, |Z|·sz and the model's `Ins.transform` returns a reference whose matrix44 is matrix44(old)·m. -/

/-- insert_transform_law: for EVERY matrix `m`, every old OCS, every rotation direction (c, s) (no normalisation needed), every
    scale factors and every base point: if the images X, Y, Z of the reference's axes are non-null and mutually orthogonal
    (similarities, mirrors, and any non-uniform scaling along the reference's own axes), `Ins.transform` SUCCEEDS for every
    tolerance 0 ≤ tol < 1 and the new block-reference matrix is the old one followed by `m`, point for point.
    `new` is the OCS of the new extrusion Z/|Z| (orthonormal, right-handed: `OCS.__init__`, property C11); the square root is
    only assumed correct (r·r = q, r > 0) on the three radicands the code evaluates. -/
theorem insert_transform_law (sqrt : Rat → Rat) (old new : Ocs) (m : M44) (i : Ins) (tol : Rat)
    (hn : new.Orthonormal) (hrh : new.RightHanded)
    (hs1 : sqrt (magSq (insX old m i)) * sqrt (magSq (insX old m i)) = magSq (insX old m i)) (hp1 : 0 < sqrt (magSq (insX old m i)))
    (hs2 : sqrt (magSq (insY old m i)) * sqrt (magSq (insY old m i)) = magSq (insY old m i)) (hp2 : 0 < sqrt (magSq (insY old m i)))
    (hp3 : 0 < sqrt (magSq (insZ old m)))
    (hxy : V3.dot (insX old m i) (insY old m i) = 0) (hxz : V3.dot (insX old m i) (insZ old m) = 0)
    (hyz : V3.dot (insY old m i) (insZ old m) = 0) (ht0 : 0 ≤ tol) (ht1 : tol < 1)
    (hnew : new.uz = nrm (sqrt (magSq (insZ old m))) (insZ old m)) :
    ∃ i', Ins.transform sqrt old new m i tol = .ok i' ∧
      (∀ base p, apply (insertMatrix new (i'.unitRot sqrt) base) p = apply m (apply (insertMatrix old i base) p)) ∧
      i'.sx = sqrt (magSq (insX old m i)) * i.sx ∧
      (i'.sy = sqrt (magSq (insY old m i)) * i.sy ∨ i'.sy = -(sqrt (magSq (insY old m i)) * i.sy)) ∧
      i'.sz = sqrt (magSq (insZ old m)) * i.sz := by
  obtain ⟨i', h, hx, hy, hz, hins, s1, s2, s3⟩ :=
    ins_transform_axes sqrt old new m i tol hn hrh hs1 hp1 hs2 hp2 hp3 hxy hxz hyz ht0 ht1 hnew
  exact ⟨i', h, fun base p => (insert_matrix_law old new m i (i'.unitRot sqrt) base hx hy hz hins p).1, s1, s2, s3⟩

/-- minsert_grid_law (fix 1240d5ce0 at full generality): under the hypotheses of `insert_transform_law` and for non-zero x / y
    scale, the column step and the row step of a MINSERT grid — spacing times the unit x- / y-axis of the reference — are mapped
    by the linear part of `m`: new spacing · new axis = m(old spacing · old axis), mirrored matrices included (the row spacing
    changes sign with the y scale) -/
theorem minsert_grid_law (sqrt : Rat → Rat) (old new : Ocs) (m : M44) (i : Ins) (tol cs rs : Rat)
    (hn : new.Orthonormal) (hrh : new.RightHanded)
    (hs1 : sqrt (magSq (insX old m i)) * sqrt (magSq (insX old m i)) = magSq (insX old m i)) (hp1 : 0 < sqrt (magSq (insX old m i)))
    (hs2 : sqrt (magSq (insY old m i)) * sqrt (magSq (insY old m i)) = magSq (insY old m i)) (hp2 : 0 < sqrt (magSq (insY old m i)))
    (hp3 : 0 < sqrt (magSq (insZ old m)))
    (hxy : V3.dot (insX old m i) (insY old m i) = 0) (hxz : V3.dot (insX old m i) (insZ old m) = 0)
    (hyz : V3.dot (insY old m i) (insZ old m) = 0) (ht0 : 0 ≤ tol) (ht1 : tol < 1)
    (hnew : new.uz = nrm (sqrt (magSq (insZ old m))) (insZ old m)) (hsx : i.sx ≠ 0) (hsy : i.sy ≠ 0) :
    ∃ i', Ins.transform sqrt old new m i tol = .ok i' ∧
      V3.smul (minsertSpacing i i' cs rs).1 ((i'.unitRot sqrt).xAxis new) = applyDir m (V3.smul cs (i.xAxis old)) ∧
      V3.smul (minsertSpacing i i' cs rs).2 ((i'.unitRot sqrt).yAxis new) = applyDir m (V3.smul rs (i.yAxis old)) := by
  obtain ⟨i', h, hx, hy, _, _, _, _, _⟩ :=
    ins_transform_axes sqrt old new m i tol hn hrh hs1 hp1 hs2 hp2 hp3 hxy hxz hyz ht0 ht1 hnew
  refine ⟨i', h, ?_, ?_⟩
  · rw [(insertMatrix_axes new _).1, (insertMatrix_axes old i).1, applyDir_smul] at hx
    simp only [minsertSpacing, hsx, if_false, Ins.xAxis, applyDir_smul]
    have : (i'.unitRot sqrt).sx = i'.sx := rfl
    rw [this] at hx
    generalize V3.add (V3.smul (i'.unitRot sqrt).rot.x new.ux) (V3.smul (i'.unitRot sqrt).rot.y new.uy) = A at *
    generalize applyDir m (V3.add (V3.smul i.rot.x old.ux) (V3.smul i.rot.y old.uy)) = B at *
    simp only [V3.smul, V3.mk.injEq] at hx ⊢
    obtain ⟨h1, h2, h3⟩ := hx
    refine ⟨?_, ?_, ?_⟩ <;> field_simp
    · linear_combination cs * h1
    · linear_combination cs * h2
    · linear_combination cs * h3
  · rw [(insertMatrix_axes new _).2.1, (insertMatrix_axes old i).2.1, applyDir_smul] at hy
    simp only [minsertSpacing, hsy, if_false, Ins.yAxis, applyDir_smul]
    have : (i'.unitRot sqrt).sy = i'.sy := rfl
    rw [this] at hy
    generalize V3.add (V3.smul (-(i'.unitRot sqrt).rot.y) new.ux) (V3.smul (i'.unitRot sqrt).rot.x new.uy) = A at *
    generalize applyDir m (V3.add (V3.smul (-i.rot.y) old.ux) (V3.smul i.rot.x old.uy)) = B at *
    simp only [V3.smul, V3.mk.injEq] at hy ⊢
    obtain ⟨h1, h2, h3⟩ := hy
    refine ⟨?_, ?_, ?_⟩ <;> field_simp
    · linear_combination rs * h1
    · linear_combination rs * h2
    · linear_combination rs * h3

/-- insert_error_iff: `InsertTransformationError` is raised EXACTLY when all three image axes are non-null and the cosine of
    one of the three angles between them exceeds `tol` in absolute value (the code's test, on the reference's own axes) -/
theorem insert_error_iff (sqrt : Rat → Rat) (old new : Ocs) (m : M44) (i : Ins) (tol : Rat) :
    Ins.transform sqrt old new m i tol = .error .insertTransformation ↔
      (sqrt (magSq (insX old m i)) ≠ 0 ∧ sqrt (magSq (insY old m i)) ≠ 0 ∧ sqrt (magSq (insZ old m)) ≠ 0 ∧
       ((tol < pyAbs (cosOf sqrt (insX old m i) (insZ old m)) ∨ tol < pyAbs (cosOf sqrt (insX old m i) (insY old m i))) ∨
        tol < pyAbs (cosOf sqrt (insZ old m) (insY old m i)))) :=
  ins_error_iff sqrt old new m i tol

/-- with an exact test (tol = 0) the error is raised exactly OUTSIDE the representable set: some pair of image axes is not
    orthogonal (for non-null axes) -/
theorem insert_error_exact (sqrt : Rat → Rat) (old new : Ocs) (m : M44) (i : Ins)
    (h1 : sqrt (magSq (insX old m i)) ≠ 0) (h2 : sqrt (magSq (insY old m i)) ≠ 0) (h3 : sqrt (magSq (insZ old m)) ≠ 0) :
    Ins.transform sqrt old new m i 0 = .error .insertTransformation ↔
      ¬ (V3.dot (insX old m i) (insZ old m) = 0 ∧ V3.dot (insX old m i) (insY old m i) = 0 ∧
         V3.dot (insZ old m) (insY old m i) = 0) := by
  rw [ins_error_iff]
  have hpos : ∀ x : Rat, 0 < pyAbs x ↔ x ≠ 0 := by
    intro x; unfold pyAbs; split_ifs with h
    · exact ⟨fun hx => ne_of_gt hx, fun hx => lt_of_le_of_ne h (Ne.symm hx)⟩
    · exact ⟨fun _ => by intro h0; rw [h0] at h; exact h (le_refl 0), fun _ => by linarith⟩
  have hcos : ∀ u v : V3, sqrt (magSq u) ≠ 0 → sqrt (magSq v) ≠ 0 → (cosOf sqrt u v ≠ 0 ↔ V3.dot u v ≠ 0) := by
    intro u v hu hv
    unfold cosOf
    constructor
    · intro h h0; rw [h0] at h; simp at h
    · intro h; exact mul_ne_zero (mul_ne_zero h (one_div_ne_zero hu)) (one_div_ne_zero hv)
  simp only [h1, h2, h3, ne_eq, not_false_eq_true, true_and, hpos, hcos _ _ h1 h3, hcos _ _ h1 h2, hcos _ _ h3 h2]
  tauto

/-- necessity: if SOME block reference (orthonormal OCS, any rotation direction and scale factors) has the images of the old
    scaled axes as its scaled axes, then these images are mutually orthogonal: outside the orthogonal case no INSERT
    represents the transformed reference, so raising is the only correct answer -/
theorem insert_representable_only_if (old new : Ocs) (m : M44) (i i' : Ins) (hn : new.Orthonormal)
    (hx : (insertMatrix new i' ⟨0, 0, 0⟩).ux = applyDir m (insertMatrix old i ⟨0, 0, 0⟩).ux)
    (hy : (insertMatrix new i' ⟨0, 0, 0⟩).uy = applyDir m (insertMatrix old i ⟨0, 0, 0⟩).uy)
    (hz : (insertMatrix new i' ⟨0, 0, 0⟩).uz = applyDir m (insertMatrix old i ⟨0, 0, 0⟩).uz)
    (hsx : i.sx ≠ 0) (hsy : i.sy ≠ 0) (hsz : i.sz ≠ 0) :
    V3.dot (insX old m i) (insY old m i) = 0 ∧ V3.dot (insX old m i) (insZ old m) = 0 ∧
    V3.dot (insY old m i) (insZ old m) = 0 := by
  obtain ⟨oxy, oxz, oyz⟩ := insertMatrix_orthogonal new hn i'
  obtain ⟨o1, o2, o3⟩ := old_axes_image old m i
  rw [hx, hy, o1, o2] at oxy
  rw [hx, hz, o1, o3] at oxz
  rw [hy, hz, o2, o3] at oyz
  have e : ∀ (k l : Rat) (u v : V3), V3.dot (V3.smul k u) (V3.smul l v) = k * l * V3.dot u v := by
    intro k l u v; simp only [V3.dot, V3.smul]; ring
  rw [e] at oxy oxz oyz
  refine ⟨?_, ?_, ?_⟩
  · exact (mul_eq_zero.mp oxy).resolve_left (mul_ne_zero hsx hsy)
  · exact (mul_eq_zero.mp oxz).resolve_left (mul_ne_zero hsx hsz)
  · exact (mul_eq_zero.mp oyz).resolve_left (mul_ne_zero hsy hsz)

/-- a tilted orthonormal right-handed OCS: extrusion (-2/3, 2/3, -1/3) -/
def tilt : Ocs := ⟨true, ⟨1/3, 2/3, 2/3, 0, 2/3, 1/3, -2/3, 0, -2/3, 2/3, -1/3, 0, 0, 0, 0, 1⟩⟩
/-- rotation (3/5, 4/5) about z combined with scaling by 5 and a translation -/
def rot5 : M44 := ⟨3, 4, 0, 0, -4, 3, 0, 0, 0, 0, 5, 0, 7, 8, 9, 1⟩
def mirrorX : M44 := ⟨-1, 0, 0, 0, 0, 1, 0, 0, 0, 0, 1, 0, 0, 0, 0, 1⟩
/-- exact square roots on the squares that occur in the examples -/
def sqrt100 : Rat → Rat := fun x =>
  if x = 1 then 1 else if x = 4 then 2 else if x = 16 then 4 else if x = 25 then 5 else if x = 100 then 10 else if x = 625 then 25 else 0

/-- exact square roots for the two examples below -/
def sqrtEx : Rat → Rat := fun x => if x = 4 then 2 else if x = 1 then 1 else 0

/-- the law holds on the model (= regenerated kernel) for an UNROTATED reference under the non-uniform Matrix44.scale(2,1,1) -/
theorem insert_unrotated_example :
    ∃ i', Ins.transform sqrtEx Ocs.std Ocs.std ⟨2, 0, 0, 0, 0, 1, 0, 0, 0, 0, 1, 0, 0, 0, 0, 1⟩ ⟨⟨1, 2, 0⟩, 3, 1, 1, ⟨1, 0⟩⟩ tol9 = .ok i' ∧
      insertMatrix Ocs.std (i'.unitRot sqrtEx) ⟨0, 0, 0⟩
        = M44.mul (insertMatrix Ocs.std ⟨⟨1, 2, 0⟩, 3, 1, 1, ⟨1, 0⟩⟩ ⟨0, 0, 0⟩) ⟨2, 0, 0, 0, 0, 1, 0, 0, 0, 0, 1, 0, 0, 0, 0, 1⟩ := by
  refine ⟨⟨⟨2, 2, 0⟩, 6, 1, 1, ⟨2, 0⟩⟩, ?_, ?_⟩ <;> decide +kernel

/-- the former counterexample of finding C12-Fa / C15-F1 (fixed by 603b8b3fe): a reference rotated by 90° under
    Matrix44.scale(2, 1, 1).  The scale factors are now measured on the reference's own axes: the block x-axis points along
    WCS y (not stretched, xscale stays 1), the block y-axis along -x (yscale 2), and matrix44(new) = matrix44(old) · m;
    the block point (1, 0, 0) lands at (0, 1, 0) (it was (0, 2, 0)). -/
theorem insert_rotated_example :
    ∃ i', Ins.transform sqrtEx Ocs.std Ocs.std ⟨2, 0, 0, 0, 0, 1, 0, 0, 0, 0, 1, 0, 0, 0, 0, 1⟩ ⟨⟨0, 0, 0⟩, 1, 1, 1, ⟨0, 1⟩⟩ tol9 = .ok i' ∧
      i'.sx = 1 ∧ i'.sy = 2 ∧
      insertMatrix Ocs.std (i'.unitRot sqrtEx) ⟨0, 0, 0⟩
        = M44.mul (insertMatrix Ocs.std ⟨⟨0, 0, 0⟩, 1, 1, 1, ⟨0, 1⟩⟩ ⟨0, 0, 0⟩) ⟨2, 0, 0, 0, 0, 1, 0, 0, 0, 0, 1, 0, 0, 0, 0, 1⟩ ∧
      apply (insertMatrix Ocs.std (i'.unitRot sqrtEx) ⟨0, 0, 0⟩) ⟨1, 0, 0⟩ = ⟨0, 1, 0⟩ := by
  refine ⟨⟨⟨0, 0, 0⟩, 1, 2, 1, ⟨0, 1⟩⟩, ?_, rfl, rfl, ?_, ?_⟩ <;> decide +kernel

/-- a reference rotated by the Pythagorean angle (3/5, 4/5) with base point (1, 1, 1) under a MIRRORED similarity (factor 5):
    the y-scale becomes negative and the four images of the block frame agree, i.e. matrix44(new) = matrix44(old) · m -/
theorem insert_rotated_mirrored_example :
    ∃ i', Ins.transform sqrt100 Ocs.std Ocs.std (M44.mul mirrorX rot5) ⟨⟨1, 2, 3⟩, 2, 1, 1, ⟨3 / 5, 4 / 5⟩⟩ tol9 = .ok i' ∧
      i'.sy < 0 ∧
      [(⟨1, 0, 0⟩ : V3), ⟨0, 1, 0⟩, ⟨0, 0, 1⟩, ⟨0, 0, 0⟩].map (apply (insertMatrix Ocs.std (i'.unitRot sqrt100) ⟨1, 1, 1⟩))
        = [(⟨1, 0, 0⟩ : V3), ⟨0, 1, 0⟩, ⟨0, 0, 1⟩, ⟨0, 0, 0⟩].map
            (fun p => apply (M44.mul mirrorX rot5) (apply (insertMatrix Ocs.std ⟨⟨1, 2, 3⟩, 2, 1, 1, ⟨3 / 5, 4 / 5⟩⟩ ⟨1, 1, 1⟩) p)) := by
  refine ⟨⟨⟨-4, 10, 24⟩, 10, -5, 5, ⟨-5, 0⟩⟩, ?_, ?_, ?_⟩ <;> decide +kernel

/-! ## 7. nested block references, any depth -/

mutual
/-- every reference matrix in the tree is affine (true for `Insert.matrix44()`: last column (0, 0, 0, 1)) -/
def Node.Affine : Node → Prop
  | .point _ => True
  | .ref m content => M44.IsAffine m ∧ Node.AffineList content
def Node.AffineList : List Node → Prop
  | [] => True
  | n :: ns => Node.Affine n ∧ Node.AffineList ns
end

mutual
private theorem expand_flat (acc : M44) : (n : Node) → Node.Affine n → (Node.expand n).map (apply acc) = Node.flat acc n
  | .point p, _ => by simp [Node.expand, Node.flat]
  | .ref m content, h => by
    obtain ⟨hm, hc⟩ := h
    have ih := expandList_flat (M44.mul m acc) content hc
    simp only [Node.expand, Node.flat, List.map_map, ← ih]
    apply List.map_congr_left
    intro p _
    simp [apply_mul m acc hm]
private theorem expandList_flat (acc : M44) : (ns : List Node) → Node.AffineList ns →
    (Node.expandList ns).map (apply acc) = Node.flatList acc ns
  | [], _ => by simp [Node.expandList, Node.flatList]
  | n :: ns, h => by
    obtain ⟨h1, h2⟩ := h
    simp only [Node.expandList, Node.flatList, List.map_append]
    rw [expand_flat acc n h1, expandList_flat acc ns h2]
end

/-- nested_insert: expanding block references level by level (the content of a reference is expanded in block coordinates,
    then transformed by `Insert.matrix44()` — what `virtual_entities()` / `explode()` do) maps every leaf point by the
    PRODUCT of the reference matrices along its path, innermost first — for trees of any depth and any branching -/
theorem nested_insert (acc : M44) (n : Node) (h : Node.Affine n) :
    (Node.expand n).map (apply acc) = Node.flat acc n ∧ Node.expand n = Node.flat M44.identity n := by
  refine ⟨expand_flat acc n h, ?_⟩
  rw [← expand_flat M44.identity n h]
  conv_lhs => rw [← List.map_id (Node.expand n)]
  apply List.map_congr_left
  intro p _
  simp [apply, TransformKernels.mTransform, M44.identity]

/-- depth 2 spelled out: a point p in block A, referenced from block B with matrix a, referenced with matrix b -/
theorem nested_insert_depth2 (a b : M44) (ha : M44.IsAffine a) (p : V3) :
    Node.expand (.ref b [.ref a [.point p]]) = [apply (M44.mul a b) p] := by
  simp [Node.expand, Node.expandList, apply_mul a b ha]

/-! ## 8. upright(): OCS (0, 0, -1) → (0, 0, 1) never moves geometry -/

/-- CIRCLE / ARC: every point of the flipped entity in the +Z OCS is the point of the original in the -Z OCS at the mirrored
    angle; the thickness vector is unchanged -/
theorem upright_circle (c : Circle) (d : V2) (t : Rat) :
    Circle.point Ocs.std c.upright (flipDir d) = Circle.point Ocs.negZ c d ∧
    V3.smul (-t) Ocs.std.uz = V3.smul t Ocs.negZ.uz := by
  refine ⟨?_, ?_⟩
  · simp only [Circle.point, Circle.upright, flipVertex, flipDir, Ocs.toWcs, Ocs.std, Ocs.negZ, TransformKernels.ocsToWcs,
      if_true, Bool.false_eq_true, if_false, V3.mk.injEq]
    refine ⟨?_, ?_, ?_⟩ <;> ring
  · simp [Ocs.std, Ocs.negZ, Ocs.uz, M44.uz, V3.smul]

/-- arc_reflection, part 2 (what `upright` does): the flip reverses orientation in the OCS plane, so start and end are
    exchanged (and bulges negated): the new start is the mirrored old end, counter-clockwise order is kept -/
theorem upright_arc (a : Arc) :
    a.upright.s = flipDir a.e ∧ a.upright.e = flipDir a.s ∧ cross2 a.upright.s a.upright.e = cross2 a.s a.e ∧
    (∀ u v, cross2 (flipDir u) (flipDir v) = -cross2 u v) := by
  refine ⟨rfl, rfl, ?_, ?_⟩
  · simp only [Arc.upright, flipDir, cross2]; ring
  · intro u v; simp only [flipDir, cross2]; ring

theorem upright_solid (s : Solid) : s.upright.vtx.map Ocs.std.toWcs = s.vtx.map Ocs.negZ.toWcs := by
  simp only [Solid.upright, List.map_map]
  apply List.map_congr_left
  intro v _
  simp [flipVertex, Ocs.toWcs, Ocs.std, Ocs.negZ, TransformKernels.ocsToWcs]

/-- LWPOLYLINE: vertices and the apex of every bulge segment (bulge negated, end points mirrored) stay where they are -/
theorem upright_lwpolyline (p : LwPolyline) (v w : LwVertex) :
    Ocs.std.toWcs ⟨-v.x, v.y, p.upright.elevation⟩ = Ocs.negZ.toWcs ⟨v.x, v.y, p.elevation⟩ ∧
    (let q := bulgeApex ⟨-v.x, v.y⟩ ⟨-w.x, w.y⟩ (-v.bulge)
     let q0 := bulgeApex ⟨v.x, v.y⟩ ⟨w.x, w.y⟩ v.bulge
     Ocs.std.toWcs ⟨q.x, q.y, p.upright.elevation⟩ = Ocs.negZ.toWcs ⟨q0.x, q0.y, p.elevation⟩) ∧
    p.upright.pts.map (fun u => u.bulge) = p.pts.map (fun u => -u.bulge) := by
  refine ⟨?_, ?_, ?_⟩
  · simp [LwPolyline.upright, Ocs.toWcs, Ocs.std, Ocs.negZ, TransformKernels.ocsToWcs]
  · simp only [LwPolyline.upright, Ocs.toWcs, Ocs.std, Ocs.negZ, TransformKernels.ocsToWcs, bulgeApex, if_true, Bool.false_eq_true,
      if_false, V3.mk.injEq]
    refine ⟨?_, ?_, ?_⟩ <;> ring
  · simp [LwPolyline.upright, List.map_map, Function.comp_def]

/-- INSERT: the block-reference matrix is unchanged (rotation negated, x- and z-scale negated, insert mirrored) -/
theorem upright_insert (i : Ins) (base : V3) : insertMatrix Ocs.std i.upright base = insertMatrix Ocs.negZ i base := by
  simp only [insertMatrix, Ins.upright, flipVertex, Ocs.toWcs, Ocs.std, Ocs.negZ, Ocs.ux, Ocs.uy, Ocs.uz, M44.ux, M44.uy, M44.uz,
    TransformKernels.ocsToWcs, V3.add, V3.sub, V3.smul, if_true, Bool.false_eq_true, if_false, M44.mk.injEq]
  refine ⟨?_, ?_, ?_, ?_, ?_, ?_, ?_, ?_, ?_, ?_, ?_, ?_, ?_, ?_, ?_, ?_⟩ <;> first | trivial | ring

/-! ## 9. histories: successive transformations of one entity (session 3) -/

/-- temp_transform_law: ACIS entities (BODY, 3DSOLID, REGION, SURFACE ...) cannot transform their SAT/SAB data, `transform(m)`
    accumulates a matrix (`TemporaryTransformation.add_matrix`, regenerated) which becomes the block-reference matrix at export.
    For EVERY history m₁, m₂, …, mₙ (n ≥ 1, affine matrices) the accumulated matrix exists, is affine, and maps every point
    exactly as the history applied step by step maps it: world geometry = mₙ(…m₂(m₁(p))…) — the order matters. -/
theorem temp_transform_law (m : M44) (ms : List M44) (hm : M44.IsAffine m) (hms : AllAffine ms) :
    ∃ acc, tempRun none (m :: ms) = some acc ∧ M44.IsAffine acc ∧ ∀ p, apply acc p = applySeq (m :: ms) p := by
  have h0 : tempRun none (m :: ms) = tempRun (some m) ms := by
    simp [tempRun, tempAdd, TransformKernels.tempAddNone]
  obtain ⟨acc, h1, h2, h3⟩ := tempRun_some m hm ms hms
  exact ⟨acc, h0 ▸ h1, h2, fun p => by rw [h3 p]; rfl⟩

/-- an empty history leaves "no pending transformation" (nothing is exported as a block reference) -/
theorem temp_empty : tempRun none [] = none := rfl

/-- the order of a history matters and the model keeps it: rotate by 90° about z then translate by (10, 0, 0) sends
    (1, 0, 0) to (10, 1, 0); the other order to (0, 11, 0) -/
theorem temp_order_example :
    (tempRun none [⟨0, 1, 0, 0, -1, 0, 0, 0, 0, 0, 1, 0, 0, 0, 0, 1⟩, ⟨1, 0, 0, 0, 0, 1, 0, 0, 0, 0, 1, 0, 10, 0, 0, 1⟩]).map (fun a => apply a ⟨1, 0, 0⟩)
      = some ⟨10, 1, 0⟩ ∧
    (tempRun none [⟨1, 0, 0, 0, 0, 1, 0, 0, 0, 0, 1, 0, 10, 0, 0, 1⟩, ⟨0, 1, 0, 0, -1, 0, 0, 0, 0, 0, 1, 0, 0, 0, 0, 1⟩]).map (fun a => apply a ⟨1, 0, 0⟩)
      = some ⟨0, 11, 0⟩ := by
  decide +kernel

/-- WCS entities: two successive `transform` calls act as the product matrix (first m₁, then m₂) -/
theorem linear_compose (m1 m2 : M44) (h1 : M44.IsAffine m1) (ps : List V3) :
    transformPoints m2 (transformPoints m1 ps) = transformPoints (M44.mul m1 m2) ps := by
  simp only [transformPoints, List.map_map]
  apply List.map_congr_left
  intro p _
  simp [apply_mul m1 m2 h1]

/-- OCS entities: two successive OCS transformations (old → mid by m₁, mid → new by m₂; both target frames orthonormal, as
    `OCS.__init__` builds them) denote the composed map: the final OCS point is m₂(m₁(WCS position of the original)) -/
theorem ocs_compose (o1 o2 : OcsT) (hmid : o2.old = o1.new) (h1 : o1.new.Orthonormal) (h2 : o2.new.Orthonormal) (p : V3) :
    o2.new.toWcs (o2.vertex (o1.vertex p)) = apply o2.m (apply o1.m (o1.old.toWcs p)) := by
  rw [(ocs_vertex_law o2 h2 _).1, hmid, (ocs_vertex_law o1 h1 p).1]

/-! ## 10. HATCH / MPOLYGON boundary paths (session 3)

`PlaneToPlane o`: both image axes are perpendicular to the new extrusion — what `transform_extrusion` establishes for EVERY
matrix (`extrusion_law`), so the laws below hold for every invertible `m`: non-uniform scaling, tilted extrusion, elevation ≠ 0. -/

/-- hatch_vertex_law: one boundary point.  (x', y') = transform_2d_vertex((x, y), elevation) lifted with the NEW elevation
    (z of the transformed point (0, 0, elevation)) is `m` applied to the old point lifted with the old elevation. -/
theorem hatch_vertex_law (o : OcsT) (hn : o.new.Orthonormal) (hp : PlaneToPlane o) (v : V2) (e : Rat) :
    hatchPoint o.new (o.vertex ⟨0, 0, e⟩).z (o.vertex2d v e) = apply o.m (hatchPoint o.old e v) ∧
    (∀ x y, (o.vertex ⟨x, y, e⟩).z = (o.vertex ⟨0, 0, e⟩).z) :=
  ⟨hatch_point_law o hn hp v e, fun x y => vertex_z_const o hp x y e⟩

/-- hatch_law: whenever `DXFPolygon.transform` needs no arc → ellipse conversion (the model answers `some`), EVERY stored
    boundary point of EVERY path (polyline vertices, line edge end points, arc and ellipse edge centres, spline edge control
    and fit points; any number of paths and edges) lifted from the new OCS with the new elevation is `m` applied to the
    corresponding old point lifted from the old OCS with the old elevation; spline edge tangents are mapped as directions
    (no elevation: fix 4b0c973a6); bulge values and the path structure are kept. -/
theorem hatch_law (sqrt : Rat → Rat) (o : OcsT) (h h' : Hatch) (hn : o.new.Orthonormal) (hp : PlaneToPlane o)
    (ht : Hatch.transform sqrt o h = some h') :
    h'.points.map (hatchPoint o.new h'.elevation) = h.points.map (fun v => apply o.m (hatchPoint o.old h.elevation v)) ∧
    h'.tangents.map (fun t => o.new.toWcs ⟨t.x, t.y, 0⟩) = h.tangents.map (fun t => applyDir o.m (o.old.toWcs ⟨t.x, t.y, 0⟩)) ∧
    h'.bulges = h.bulges ∧ h'.paths.length = h.paths.length ∧
    h'.elevation = (o.vertex ⟨0, 0, h.elevation⟩).z := by
  unfold Hatch.transform at ht
  split at ht
  · cases ht
  · cases ht
    simp only [TransformKernels.hatchPathElev, TransformKernels.hatchPathsElev, TransformKernels.hatchNewElevationZ]
    refine ⟨?_, ?_, ?_, by simp, by first | rfl | trivial⟩
    · simp only [Hatch.points, List.flatMap_map, List.map_flatMap, BPath.points_transform, List.map_map]
      congr 1
      funext p
      apply List.map_congr_left
      intro v _
      exact hatch_point_law o hn hp v h.elevation
    · simp only [Hatch.tangents, List.flatMap_map, List.map_flatMap, BPath.tangents_transform, List.map_map]
      congr 1
      funext p
      apply List.map_congr_left
      intro t _
      exact hatch_direction_law o hn hp t
    · simp only [Hatch.bulges, List.flatMap_map, BPath.bulges_transform]

/-- the model (and the code without conversion) is defined exactly when the scaling of the OCS plane is uniform or no path
    holds an arc (bulge / arc edge); outside, `BoundaryPaths.transform` first converts arcs to ellipse edges -/
theorem hatch_defined_iff (sqrt : Rat → Rat) (o : OcsT) (h : Hatch) :
    (∃ h', Hatch.transform sqrt o h = some h') ↔ (o.uniform = true ∨ h.paths.any BPath.needsConversion = false) := by
  have := hatch_transform_none_iff sqrt o h
  cases hh : Hatch.transform sqrt o h with
  | none => rw [hh] at this; simp only [true_iff] at this; simp [this.1, this.2]
  | some h' =>
    rw [hh] at this
    simp only [reduceCtorEq, false_iff, not_and, Bool.not_eq_true] at this
    simp only [Option.some.injEq, exists_eq', true_iff]
    cases hu : o.uniform
    · right; exact this hu
    · left; rfl

/-- arc edges are transformed as circles: centre, radius and angle directions of the new arc edge are those of
    `Circle.transform` / `dir2` on the circle lifted to the elevation, so `radius_scale` and `arc_orientation_preserved` apply;
    the ccw flag and "full circle" are kept, a full circle keeps start = end -/
theorem hatch_arc_law (sqrt : Rat → Rat) (o : OcsT) (e : Rat) (c : V2) (r : Rat) (s t : V2) (full ccw : Bool) (hu : o.uniform = true) :
    ∃ c' r' s' t', HEdge.transform sqrt o e (.arc c r s t full ccw) = .arc c' r' s' t' full ccw ∧
      Circle.transform sqrt o ⟨⟨c.x, c.y, e⟩, r, none⟩ = .ok ⟨⟨c'.x, c'.y, (o.vertex ⟨c.x, c.y, e⟩).z⟩, r', none⟩ ∧
      s' = dir2 o s ∧ t' = (if full then dir2 o s else dir2 o t) := by
  refine ⟨_, _, _, _, rfl, ?_, rfl, rfl⟩
  simp [Circle.transform, hu, TransformKernels.hatchArcCenterElev, vertex2d_spec]

/-- for a similarity of the OCS plane (mirrored ones included) the planar map old OCS → new OCS is CONFORMAL and orientation
    preserving: the image of ŷ is the image of x̂ turned by +90°, hence every direction turned by +90° is mapped to the image
    turned by +90° -/
private theorem plane_conformal (o : OcsT) (k2 r : Rat) (hn : o.new.Orthonormal) (hrh : o.new.RightHanded) (hp : PlaneSimilar o k2)
    (hr : 0 < r) (hnr : V3.smul r o.new.uz = V3.cross o.ax o.ay) :
    (o.direction ⟨0, 1, 0⟩).x = -(o.direction ⟨1, 0, 0⟩).y ∧ (o.direction ⟨0, 1, 0⟩).y = (o.direction ⟨1, 0, 0⟩).x ∧
    ∀ d : V2, dir2 o (rot90 d) = rot90 (dir2 o d) := by
  obtain ⟨hdet, hk⟩ := planeDet_similar o k2 r hn hrh hp hr hnr
  have h11 := dir2_dot o k2 hn hp ⟨1, 0⟩ ⟨1, 0⟩
  have h22 := dir2_dot o k2 hn hp ⟨0, 1⟩ ⟨0, 1⟩
  simp only [dir2, dot2, OcsT.planeDet] at h11 h22 hdet
  have hsq : ((o.direction ⟨0, 1, 0⟩).x + (o.direction ⟨1, 0, 0⟩).y) * ((o.direction ⟨0, 1, 0⟩).x + (o.direction ⟨1, 0, 0⟩).y)
      + ((o.direction ⟨0, 1, 0⟩).y - (o.direction ⟨1, 0, 0⟩).x) * ((o.direction ⟨0, 1, 0⟩).y - (o.direction ⟨1, 0, 0⟩).x) = 0 := by
    linear_combination h11 + h22 - 2 * hdet
  have s1 := mul_self_nonneg ((o.direction ⟨0, 1, 0⟩).x + (o.direction ⟨1, 0, 0⟩).y)
  have s2 := mul_self_nonneg ((o.direction ⟨0, 1, 0⟩).y - (o.direction ⟨1, 0, 0⟩).x)
  have hA : (o.direction ⟨0, 1, 0⟩).x + (o.direction ⟨1, 0, 0⟩).y = 0 := mul_self_eq_zero.mp (by linarith)
  have hB : (o.direction ⟨0, 1, 0⟩).y - (o.direction ⟨1, 0, 0⟩).x = 0 := mul_self_eq_zero.mp (by linarith)
  have e1 : (o.direction ⟨0, 1, 0⟩).x = -(o.direction ⟨1, 0, 0⟩).y := by linarith
  have e2 : (o.direction ⟨0, 1, 0⟩).y = (o.direction ⟨1, 0, 0⟩).x := by linarith
  refine ⟨e1, e2, ?_⟩
  intro d
  rw [dir2_lin, dir2_lin]
  simp only [rot90, e1, e2, V2.mk.injEq]
  constructor <;> ring

/-- bulge_apex_law: polyline paths (HATCH), LWPOLYLINE and 2-D POLYLINE keep their bulge values under `transform`; this is
    right because for every similarity of the OCS plane — MIRRORED ones included, the new extrusion being the normalised
    m x̂ × m ŷ — the planar map old OCS → new OCS is an orientation PRESERVING similarity: the apex of the arc through the new
    end points with the OLD bulge is the image of the old apex, so the whole arc is the image arc. -/
theorem bulge_apex_law (o : OcsT) (k2 r : Rat) (hn : o.new.Orthonormal) (hrh : o.new.RightHanded) (hp : PlaneSimilar o k2)
    (hr : 0 < r) (hnr : V3.smul r o.new.uz = V3.cross o.ax o.ay) (p1 p2 : V2) (β e : Rat) :
    bulgeApex (o.vertex2d p1 e) (o.vertex2d p2 e) β = o.vertex2d (bulgeApex p1 p2 β) e ∧
    hatchPoint o.new (o.vertex ⟨0, 0, e⟩).z (bulgeApex (o.vertex2d p1 e) (o.vertex2d p2 e) β)
      = apply o.m (hatchPoint o.old e (bulgeApex p1 p2 β)) := by
  obtain ⟨e1, e2, _⟩ := plane_conformal o k2 r hn hrh hp hr hnr
  have key : bulgeApex (o.vertex2d p1 e) (o.vertex2d p2 e) β = o.vertex2d (bulgeApex p1 p2 β) e := by
    rw [vertex2d_affine o p1, vertex2d_affine o p2, vertex2d_affine o (bulgeApex p1 p2 β)]
    simp only [bulgeApex, e1, e2, V2.mk.injEq]
    constructor <;> ring
  refine ⟨key, ?_⟩
  rw [key]
  exact hatch_point_law o hn ⟨hp.2.2.2.1, hp.2.2.2.2⟩ _ e

/-! ## 11. TEXT / ATTRIB / ATTDEF and MTEXT (session 3) -/

/-- text_law, part 1 (EVERY matrix, both branches of `Text.transform`): insert and align point are mapped as points
    (an absent align point is stored as the image of the insert), the rotation is the transformed baseline direction — lifted
    to WCS it is exactly `m` applied to the old baseline direction — and the thickness goes through `transform_thickness`
    (`ocs_thickness_law`) -/
theorem text_law (sqrt : Rat → Rat) (o : OcsT) (t t' : Txt) (hn : o.new.Orthonormal) (hp : PlaneToPlane o)
    (h : Txt.transform sqrt o t = .ok t') :
    o.new.toWcs t'.insert = apply o.m (o.old.toWcs t.insert) ∧
    (∃ al, t'.align = some al ∧ o.new.toWcs al = apply o.m (o.old.toWcs (t.align.getD t.insert))) ∧
    o.new.toWcs ⟨t'.rot.x, t'.rot.y, 0⟩ = applyDir o.m (o.old.toWcs ⟨t.rot.x, t.rot.y, 0⟩) ∧
    t'.thickness = t.thickness.map o.thickness := by
  obtain ⟨e1, e2, e3, e4⟩ := txt_transform_common sqrt o t t' h
  refine ⟨?_, ⟨_, e2, ?_⟩, ?_, e4⟩
  · rw [e1]; exact (ocs_vertex_law o hn _).1
  · exact (ocs_vertex_law o hn _).1
  · rw [e3]; exact hatch_direction_law o hn hp t.rot

/-- text_law, part 2 (similarities of the text plane, mirrored ones included; unit rotation direction): the height is scaled
    by the similarity factor (height'² = k²·height²), the relative width factor and the oblique angle are unchanged, and the
    text is NOT mirrored within its plane: the up direction (baseline turned by +90°) is mapped to the new baseline turned by
    +90° in the new OCS — a mirrored matrix flips the extrusion instead.  `sqrt` is only assumed correct on the radicand k². -/
theorem text_similarity_law (sqrt : Rat → Rat) (o : OcsT) (k2 r : Rat) (t t' : Txt) (hn : o.new.Orthonormal) (hrh : o.new.RightHanded)
    (hp : PlaneSimilar o k2) (hr : 0 < r) (hnr : V3.smul r o.new.uz = V3.cross o.ax o.ay) (hu : o.uniform = true)
    (hd : t.rot.x * t.rot.x + t.rot.y * t.rot.y = 1) (hs : sqrt k2 * sqrt k2 = k2)
    (h : Txt.transform sqrt o t = .ok t') :
    t'.height * t'.height = k2 * (t.height * t.height) ∧ t'.width = t.width ∧ t'.obl = t.obl ∧
    dir2 o (rot90 t.rot) = rot90 t'.rot := by
  obtain ⟨_, _, e3, _⟩ := txt_transform_common sqrt o t t' h
  obtain ⟨h0, eo, eh, ew⟩ := txt_transform_uniform sqrt o t t' hu h
  obtain ⟨hxx, hyy, hxy, _, _⟩ := hp
  have rx : magSq (applyDir o.m (o.old.toWcs ⟨t.rot.x, t.rot.y, 0⟩)) = k2 := by
    rw [magSq_plane_image, hxx, hyy, hxy]; linear_combination k2 * hd
  have ry : magSq (applyDir o.m (o.old.toWcs ⟨(rot90 t.rot).x, (rot90 t.rot).y, 0⟩)) = k2 := by
    rw [magSq_plane_image, hxx, hyy, hxy]; simp only [rot90]; linear_combination k2 * hd
  simp only [length_spec, rx, ry] at h0 eh ew
  refine ⟨?_, ?_, eo, ?_⟩
  · rw [eh]; linear_combination (t.height * t.height) * hs
  · rw [ew, div_self h0, mul_one]
  · rw [e3]
    exact (plane_conformal o k2 r hn hrh ⟨hxx, hyy, hxy, ‹_›, ‹_›⟩ hr hnr).2.2 t.rot

/-- text_law, part 3 (NON-uniform branch, every matrix): the new oblique angle ω' = (cos, sin) stored by `Text.transform` is
    exactly the angle for which the new slant direction — the normal of the new baseline turned by −ω' — is the IMAGE of the old
    slant direction: n̂'·cos ω' + d̂'·sin ω' = ob' / |ob'| (d' = image of the baseline, n̂' = d̂' turned by +90°, ob' = image of the
    old slant vector `t.slant`), and cos²ω' + sin²ω' = 1.  `sqrt` is assumed correct on the two radicands |d'|², |ob'|². -/
theorem text_oblique_law (sqrt : Rat → Rat) (o : OcsT) (t t' : Txt) (hu : o.uniform = false)
    (hd : sqrt (dot2 (dir2 o t.rot) (dir2 o t.rot)) * sqrt (dot2 (dir2 o t.rot) (dir2 o t.rot)) = dot2 (dir2 o t.rot) (dir2 o t.rot))
    (ho : sqrt (dot2 (dir2 o t.slant) (dir2 o t.slant)) * sqrt (dot2 (dir2 o t.slant) (dir2 o t.slant)) = dot2 (dir2 o t.slant) (dir2 o t.slant))
    (h : Txt.transform sqrt o t = .ok t') :
    (rot90 (dir2 o t.rot)).x / sqrt (dot2 (dir2 o t.rot) (dir2 o t.rot)) * t'.obl.x + (dir2 o t.rot).x / sqrt (dot2 (dir2 o t.rot) (dir2 o t.rot)) * t'.obl.y
      = (dir2 o t.slant).x / sqrt (dot2 (dir2 o t.slant) (dir2 o t.slant)) ∧
    (rot90 (dir2 o t.rot)).y / sqrt (dot2 (dir2 o t.rot) (dir2 o t.rot)) * t'.obl.x + (dir2 o t.rot).y / sqrt (dot2 (dir2 o t.rot) (dir2 o t.rot)) * t'.obl.y
      = (dir2 o t.slant).y / sqrt (dot2 (dir2 o t.slant) (dir2 o t.slant)) ∧
    t'.obl.x * t'.obl.x + t'.obl.y * t'.obl.y = 1 := by
  obtain ⟨h0, eo, _, _⟩ := txt_transform_nonuniform sqrt o t t' hu h
  have key := rot90_decompose (dir2 o t.rot) (dir2 o t.slant)
  have lag : cross2 (dir2 o t.rot) (dir2 o t.slant) * cross2 (dir2 o t.rot) (dir2 o t.slant)
      + dot2 (dir2 o t.rot) (dir2 o t.slant) * dot2 (dir2 o t.rot) (dir2 o t.slant)
      = dot2 (dir2 o t.rot) (dir2 o t.rot) * dot2 (dir2 o t.slant) (dir2 o t.slant) := by
    simp only [cross2, dot2]; ring
  rw [eo]
  simp only [V2.mk.injEq] at key
  obtain ⟨k1, k2⟩ := key
  generalize dir2 o t.rot = d' at *
  generalize dir2 o t.slant = ob' at *
  rw [← hd] at k1 k2
  rw [← hd, ← ho] at lag
  generalize sqrt (dot2 d' d') = rd at *
  generalize sqrt (dot2 ob' ob') = ro at *
  have hrd : rd ≠ 0 := left_ne_zero_of_mul h0
  have hro : ro ≠ 0 := right_ne_zero_of_mul h0
  generalize cross2 d' ob' = cr at *
  generalize dot2 d' ob' = dt at *
  refine ⟨?_, ?_, ?_⟩
  · field_simp
    linear_combination k1
  · field_simp
    linear_combination k2
  · field_simp
    linear_combination lag

/-- text_law, part 4 (NON-uniform branch; fix b560c7405): the new height is the TRUE height of the image of the text frame over
    its new baseline: height'·|d'| = height·(d' × u') for the images d', u' of the baseline and up direction — the area of the
    image of the (baseline, height) rectangle = new base × new height — for every matrix that maps the text plane onto the
    plane of the new OCS and every oblique angle.  (Before the fix the height was multiplied by cos(new oblique) instead, which
    is too small whenever oblique ≠ 0: TEXT height 1, oblique 30°, Matrix44.scale(1, 2, 1) gave 1.92 instead of 2.) -/
theorem text_height_law (sqrt : Rat → Rat) (o : OcsT) (t t' : Txt) (hn : o.new.Orthonormal) (hp : PlaneToPlane o)
    (hu : o.uniform = false)
    (hd : sqrt (dot2 (dir2 o t.rot) (dir2 o t.rot)) * sqrt (dot2 (dir2 o t.rot) (dir2 o t.rot)) = dot2 (dir2 o t.rot) (dir2 o t.rot))
    (h : Txt.transform sqrt o t = .ok t') :
    t'.height * sqrt (dot2 (dir2 o t.rot) (dir2 o t.rot)) = t.height * cross2 (dir2 o t.rot) (dir2 o (rot90 t.rot)) := by
  obtain ⟨_, _, h1, eh⟩ := txt_transform_nonuniform sqrt o t t' hu h
  rw [eh, length_spec, ← dir2_length o hn hp (rot90 t.rot)]
  generalize sqrt (dot2 (dir2 o t.rot) (dir2 o t.rot)) = rd at *
  generalize sqrt (dot2 (dir2 o (rot90 t.rot)) (dir2 o (rot90 t.rot))) = ru at *
  have hrd : rd ≠ 0 := left_ne_zero_of_mul h1
  have hru : ru ≠ 0 := right_ne_zero_of_mul h1
  field_simp

/-- text_frame_law (NON-uniform branch): the glyph frame of a TEXT — a glyph point (x, y) sits at
    insert + x·(height·width)·d̂ + y·height·(n̂ + tan ω·d̂) — is mapped by `m`:
    (a) height'·width' = height·width·|d'|  (the x-extent follows the image of the baseline), and
    (b) height'·cos ω = height·cos ω'·|ob'|; with `text_oblique_law` (cos ω'·n̂' + sin ω'·d̂' = ob'/|ob'|) this is
        height'·(n̂' + tan ω'·d̂') = (height / cos ω)·ob' = image of height·(n̂ + tan ω·d̂), the slanted height vector.
    With `text_law` (insert, baseline) every glyph point of the new TEXT is `m` applied to the old one, for every matrix that maps
    the text plane onto the plane of the new OCS, every rotation and every oblique angle. -/
theorem text_frame_law (sqrt : Rat → Rat) (o : OcsT) (t t' : Txt) (hn : o.new.Orthonormal) (hp : PlaneToPlane o)
    (hu : o.uniform = false)
    (hd : sqrt (dot2 (dir2 o t.rot) (dir2 o t.rot)) * sqrt (dot2 (dir2 o t.rot) (dir2 o t.rot)) = dot2 (dir2 o t.rot) (dir2 o t.rot))
    (h : Txt.transform sqrt o t = .ok t') :
    t'.width * t'.height = t.width * t.height * sqrt (dot2 (dir2 o t.rot) (dir2 o t.rot)) ∧
    t'.height * t.obl.x = t.height * t'.obl.x * sqrt (dot2 (dir2 o t.slant) (dir2 o t.slant)) := by
  have hh := text_height_law sqrt o t t' hn hp hu hd h
  obtain ⟨h0, eo, _, _⟩ := txt_transform_nonuniform sqrt o t t' hu h
  refine ⟨?_, ?_⟩
  · rw [txt_transform_nonuniform_width sqrt o t t' hu h, length_spec, ← dir2_length o hn hp t.rot]
  · rw [eo]
    simp only
    have hc : cross2 (dir2 o t.rot) (dir2 o t.slant) = t.obl.x * cross2 (dir2 o t.rot) (dir2 o (rot90 t.rot)) := by
      rw [dir2_slant]; simp only [cross2]; ring
    rw [hc]
    generalize sqrt (dot2 (dir2 o t.rot) (dir2 o t.rot)) = rd at *
    generalize sqrt (dot2 (dir2 o t.slant) (dir2 o t.slant)) = ro at *
    have hrd : rd ≠ 0 := left_ne_zero_of_mul h0
    have hro : ro ≠ 0 := right_ne_zero_of_mul h0
    field_simp
    linear_combination t.obl.x * hh

/-- mtext_law (EVERY matrix): insert and text direction of an MTEXT are mapped by `m` (a WCS entity), and the new character
    height is the true height of the image of the (direction, character-height) rectangle over its new baseline:
    char_height'² · |T'|² = |T' × H'|² for the image T' of the direction and H' of the height vector (area = base × height),
    whatever shear or non-uniform scaling `m` contains.  `sqrt` is assumed correct on the three radicands involved. -/
theorem mtext_law (sqrt : Rat → Rat) (old : Ocs) (m : M44) (t t' : MTxt)
    (hT : sqrt (magSq (applyDir m t.dir)) * sqrt (magSq (applyDir m t.dir)) = magSq (applyDir m t.dir))
    (hH : sqrt (magSq (t.heightVec sqrt m)) * sqrt (magSq (t.heightVec sqrt m)) = magSq (t.heightVec sqrt m))
    (hS : ∀ c : Rat, c * c ≤ 1 → sqrt (1 - c * c) * sqrt (1 - c * c) = 1 - c * c)
    (h : MTxt.transform sqrt old m t = .ok t') :
    t'.insert = apply m t.insert ∧ t'.dir = applyDir m t.dir ∧
    t'.charHeight * t'.charHeight * magSq (applyDir m t.dir) = magSq (V3.cross (applyDir m t.dir) (t.heightVec sqrt m)) := by
  have key : sqrt (magSq (applyDir m t.dir)) ≠ 0 → sqrt (magSq (t.heightVec sqrt m)) ≠ 0 → ∀ hh : Rat,
      hh = sqrt (magSq (t.heightVec sqrt m)) * sqrt (1 -
        clamp1 (V3.dot (V3.smul (1 / sqrt (magSq (applyDir m t.dir))) (applyDir m t.dir)) (V3.smul (1 / sqrt (magSq (t.heightVec sqrt m))) (t.heightVec sqrt m))) *
        clamp1 (V3.dot (V3.smul (1 / sqrt (magSq (applyDir m t.dir))) (applyDir m t.dir)) (V3.smul (1 / sqrt (magSq (t.heightVec sqrt m))) (t.heightVec sqrt m)))) →
        hh * hh * magSq (applyDir m t.dir) = magSq (V3.cross (applyDir m t.dir) (t.heightVec sqrt m)) := by
    intro nT nH hh ehh
    rw [← lagrange]
    generalize applyDir m t.dir = T at *
    generalize t.heightVec sqrt m = H at *
    generalize sqrt (magSq T) = rT at *
    generalize sqrt (magSq H) = rH at *
    have hc0 : V3.dot (V3.smul (1 / rT) T) (V3.smul (1 / rH) H) = V3.dot T H / (rT * rH) := by
      simp only [V3.dot, V3.smul]; field_simp
    rw [hc0] at ehh
    have hpos : 0 < (rT * rH) * (rT * rH) := mul_self_pos.mpr (mul_ne_zero nT nH)
    have hcs : (V3.dot T H / (rT * rH)) * (V3.dot T H / (rT * rH)) ≤ 1 := by
      have hl := lagrange T H
      have hnn := magSq_nonneg' (V3.cross T H)
      rw [div_mul_div_comm, div_le_one hpos]
      nlinarith
    have hlo : ¬ V3.dot T H / (rT * rH) < -1 := by
      intro hneg; nlinarith
    have hhi : ¬ 1 < V3.dot T H / (rT * rH) := by
      intro hgt; nlinarith
    simp only [clamp1, if_neg hlo, if_neg hhi] at ehh
    have hsq := hS _ hcs
    generalize sqrt (1 - V3.dot T H / (rT * rH) * (V3.dot T H / (rT * rH))) = sn at *
    rw [ehh]
    have : rH * sn * (rH * sn) * magSq T = rH * rH * (sn * sn) * magSq T := by ring
    rw [this, hsq, ← hT, ← hH]
    field_simp
  unfold MTxt.transform at h
  split at h
  · cases h
  · simp only at h
    split_ifs at h with h1 h2 h3 <;>
      (split at h <;>
        first
        | (cases h; exact ⟨rfl, rfl, key (fun h0 => h2 (Or.inl h0)) (fun h0 => h2 (Or.inr h0)) _ rfl⟩)
        | cases h)

/-- mtext_width_law (EVERY matrix): the column width of an MTEXT follows the image of its baseline: width'²·|T|² = width²·|m T|²
    (T the text direction, any length), and the new extrusion is the one `transform_extrusion` returns for the OCS of the old
    extrusion, so `extrusion_law` applies to it.  `sqrt` is assumed correct on |T|² and on the radicand of the new width. -/
theorem mtext_width_law (sqrt : Rat → Rat) (old : Ocs) (m : M44) (t t' : MTxt) (w : Rat) (hw : t.width = some w)
    (hD : sqrt (magSq t.dir) * sqrt (magSq t.dir) = magSq t.dir)
    (hW : sqrt (magSq (applyDir m (V3.smul (w / sqrt (magSq t.dir)) t.dir))) * sqrt (magSq (applyDir m (V3.smul (w / sqrt (magSq t.dir)) t.dir)))
            = magSq (applyDir m (V3.smul (w / sqrt (magSq t.dir)) t.dir)))
    (h : MTxt.transform sqrt old m t = .ok t') :
    (∃ w', t'.width = some w' ∧ w' * w' * magSq t.dir = w * w * magSq (applyDir m t.dir)) ∧
    (∃ u, transformExtrusion sqrt old m = .ok (t'.ext, u)) := by
  unfold MTxt.transform at h
  split at h
  · cases h
  · rename_i n u hext
    simp only [hw] at h
    split_ifs at h with h1 h2 h3
    cases h
    refine ⟨⟨_, rfl, ?_⟩, u, hext⟩
    rw [hW, applyDir_smul]
    have : magSq (V3.smul (w / sqrt (magSq t.dir)) (applyDir m t.dir))
        = w / sqrt (magSq t.dir) * (w / sqrt (magSq t.dir)) * magSq (applyDir m t.dir) := by
      simp only [magSq, V3.dot, V3.smul]; ring
    rw [this]
    generalize sqrt (magSq t.dir) = rD at *
    rw [← hD]
    field_simp

/-! ## 12. Rytz's axis construction (session 3): ELLIPSE, arc → ellipse fallback, HATCH ellipse edges

`ConstructionEllipse.transform` maps the two conjugate half-diameters (major axis, minor axis) by `m` and, when the images are
not orthogonal, rebuilds principal axes with `rytz_axis_construction` — regenerated as `TransformKernels.rytz` (8 square roots
r1 … r8, each only assumed to satisfy r·r = its radicand). -/

/-- rytz_axes_law (xy-plane branch, the position of every planar drawing): for conjugate half-diameters d1, d2 in the
    xy-plane the constructed major and minor axis are ORTHOGONAL, stay in the plane, and describe the SAME ellipse:
    mj mjᵀ + mn mnᵀ = d1 d1ᵀ + d2 d2ᵀ (the point set {cos t·u + sin t·v} depends on u uᵀ + v vᵀ only), and
    ratio·|major| = |minor|.  Full generality in d1, d2; square roots enter only through r·r = radicand. -/
theorem rytz_axes_law (d1 d2 : V3) (r1 r2 r3 r4 r5 r6 r7 r8 : Rat) (mj mn : V3) (ratio : Rat) (hz1 : d1.z = 0) (hz2 : d2.z = 0)
    (h1 : r1 * r1 = TransformKernels.rytz_rad1 d1 d2) (h2 : r2 * r2 = TransformKernels.rytz_rad2 d1 d2 r1)
    (h3 : r3 * r3 = TransformKernels.rytz_rad3 d1 d2 r1 r2) (h4 : r4 * r4 = TransformKernels.rytz_rad4 d1 d2 r1 r2 r3)
    (h5 : r5 * r5 = TransformKernels.rytz_rad5 d1 d2 r1 r2 r3 r4) (h6 : r6 * r6 = TransformKernels.rytz_rad6 d1 d2 r1 r2 r3 r4 r5)
    (hr1 : r1 ≠ 0) (h : TransformKernels.rytz d1 d2 r1 r2 r3 r4 r5 r6 r7 r8 = .ok (mj, mn, ratio)) :
    V3.dot mj mn = 0 ∧
    mj.x * mj.x + mn.x * mn.x = d1.x * d1.x + d2.x * d2.x ∧ mj.x * mj.y + mn.x * mn.y = d1.x * d1.y + d2.x * d2.y ∧
    mj.y * mj.y + mn.y * mn.y = d1.y * d1.y + d2.y * d2.y ∧ mj.z = 0 ∧ mn.z = 0 ∧
    ratio * r3 = r4 ∧ magSq mj = r3 * r3 ∧ magSq mn = r4 * r4 := by
  have hflat : Flat d1 d2 := by simp [Flat, hz1, hz2, pyIsclose]
  rw [rytz_flat d1 d2 r1 r2 r3 r4 r5 r6 r7 r8 hflat] at h
  obtain ⟨e1, e2, e36⟩ := rytz_rads_flat d1 d2 r1 r2 r3 r4 r5 hflat
  have hc := h
  unfold rytzCore at hc
  split_ifs at hc with c1 c2 c3 c4 c5 c6
  obtain ⟨e3, e4, e56⟩ := e36 c1 c2
  obtain ⟨e5, e6⟩ := e56 c3 c4
  exact rytz_core_law d1 d2 hz1 hz2 r1 r2 r3 r4 r5 r6 mj mn ratio (e1 ▸ h1) (e2 ▸ h2) hr1 (e3 ▸ h3) (e4 ▸ h4) (e5 ▸ h5) (e6 c5 ▸ h6) h

/-- rytz_axes_law_space (general position in space, the branch every tilted ELLIPSE / HATCH ellipse edge takes): the
    constructed axes are orthogonal and describe the SAME ellipse as the conjugate half-diameters d1, d2:
    mj mjᵀ + mn mnᵀ = d1 d1ᵀ + d2 d2ᵀ, all components (i, j range over the three coordinate projections).
    Full generality in d1, d2 (not both in the xy-plane); the eight square roots enter only through r·r = radicand. -/
theorem rytz_axes_law_space (d1 d2 : V3) (r1 r2 r3 r4 r5 r6 r7 r8 : Rat) (mj mn : V3) (ratio : Rat) (hflat : ¬ Flat d1 d2)
    (h1 : r1 * r1 = TransformKernels.rytz_rad1 d1 d2) (h2 : r2 * r2 = TransformKernels.rytz_rad2 d1 d2 r1)
    (h3 : r3 * r3 = TransformKernels.rytz_rad3 d1 d2 r1 r2) (h4 : r4 * r4 = TransformKernels.rytz_rad4 d1 d2 r1 r2 r3)
    (h5 : r5 * r5 = TransformKernels.rytz_rad5 d1 d2 r1 r2 r3 r4) (h6 : r6 * r6 = TransformKernels.rytz_rad6 d1 d2 r1 r2 r3 r4 r5)
    (h7 : r7 * r7 = TransformKernels.rytz_rad7 d1 d2 r1 r2 r3 r4 r5 r6) (h8 : r8 * r8 = TransformKernels.rytz_rad8 d1 d2 r1 r2 r3 r4 r5 r6 r7)
    (hr1 : r1 ≠ 0) (hr3 : r3 ≠ 0) (h : TransformKernels.rytz d1 d2 r1 r2 r3 r4 r5 r6 r7 r8 = .ok (mj, mn, ratio)) :
    V3.dot mj mn = 0 ∧
    (∀ (i j : V3 → Rat), (i = V3.x ∨ i = V3.y ∨ i = V3.z) → (j = V3.x ∨ j = V3.y ∨ j = V3.z) →
      i mj * j mj + i mn * j mn = i d1 * j d1 + i d2 * j d2) := by
  rw [rytz_space d1 d2 r1 r2 r3 r4 r5 r6 r7 r8 hflat] at h
  split_ifs at h with c2
  obtain ⟨e3, e4⟩ := rytz_rads_space d1 d2 r1 r2 r3 hflat c2
  obtain ⟨e1, e2, e58⟩ := rytz_rads_space_all d1 d2 r1 r2 r3 r4 r5 r6 r7 hflat
  have hc := h
  unfold rytzCore at hc
  split_ifs at hc with c4 cn cz c5 c7 c8
  obtain ⟨e5, e6, e78⟩ := e58 c2 c4 cn
  obtain ⟨e7, e8⟩ := e78 cz c5
  exact rytz_space_law d1 d2 r1 r2 r3 r4 r5 r6 r7 r8 mj mn ratio (e1 ▸ h1) (e2 ▸ h2) hr1 c2 (e3 ▸ h3) (e4 ▸ h4) hr3
    (e5 ▸ h5) (e6 ▸ h6) (e7 ▸ h7) (e8 c7 ▸ h8) h

/-- rytz_point_law (xy-plane branch): EVERY point cos t·d1 + sin t·d2 of the ellipse given by the conjugate half-diameters
    satisfies the implicit equation of the ellipse with the constructed principal axes:
    (X·mj)²/|mj|⁴ + (X·mn)²/|mn|⁴ = 1 (denominators cleared; cos, sin any rationals with cos² + sin² = 1) -/
theorem rytz_point_law (d1 d2 : V3) (r1 r2 r3 r4 r5 r6 r7 r8 : Rat) (mj mn : V3) (ratio : Rat) (hz1 : d1.z = 0) (hz2 : d2.z = 0)
    (h1 : r1 * r1 = TransformKernels.rytz_rad1 d1 d2) (h2 : r2 * r2 = TransformKernels.rytz_rad2 d1 d2 r1)
    (h3 : r3 * r3 = TransformKernels.rytz_rad3 d1 d2 r1 r2) (h4 : r4 * r4 = TransformKernels.rytz_rad4 d1 d2 r1 r2 r3)
    (h5 : r5 * r5 = TransformKernels.rytz_rad5 d1 d2 r1 r2 r3 r4) (h6 : r6 * r6 = TransformKernels.rytz_rad6 d1 d2 r1 r2 r3 r4 r5)
    (hr1 : r1 ≠ 0) (h : TransformKernels.rytz d1 d2 r1 r2 r3 r4 r5 r6 r7 r8 = .ok (mj, mn, ratio))
    (c s : Rat) (hcs : c * c + s * s = 1) :
    V3.dot (V3.add (V3.smul c d1) (V3.smul s d2)) mj * V3.dot (V3.add (V3.smul c d1) (V3.smul s d2)) mj * (magSq mn * magSq mn)
      + V3.dot (V3.add (V3.smul c d1) (V3.smul s d2)) mn * V3.dot (V3.add (V3.smul c d1) (V3.smul s d2)) mn * (magSq mj * magSq mj)
      = magSq mj * magSq mj * (magSq mn * magSq mn) := by
  obtain ⟨ho, kxx, kxy, kyy, zj, zn, _⟩ := rytz_axes_law d1 d2 r1 r2 r3 r4 r5 r6 r7 r8 mj mn ratio hz1 hz2 h1 h2 h3 h4 h5 h6 hr1 h
  have hT : SameTensor mj mn d1 d2 := by
    intro i j hi hj
    rcases hi with rfl | rfl | rfl <;> rcases hj with rfl | rfl | rfl <;>
      first
      | exact kxx | exact kxy | exact kyy
      | (rw [mul_comm mj.y mj.x, mul_comm mn.y mn.x, mul_comm d1.y d1.x, mul_comm d2.y d2.x]; exact kxy)
      | simp [hz1, hz2, zj, zn]
  exact ellipse_implicit mj mn d1 d2 ho hT c s hcs

/-- rytz_point_law_space: the same in general position (3-D branch) -/
theorem rytz_point_law_space (d1 d2 : V3) (r1 r2 r3 r4 r5 r6 r7 r8 : Rat) (mj mn : V3) (ratio : Rat) (hflat : ¬ Flat d1 d2)
    (h1 : r1 * r1 = TransformKernels.rytz_rad1 d1 d2) (h2 : r2 * r2 = TransformKernels.rytz_rad2 d1 d2 r1)
    (h3 : r3 * r3 = TransformKernels.rytz_rad3 d1 d2 r1 r2) (h4 : r4 * r4 = TransformKernels.rytz_rad4 d1 d2 r1 r2 r3)
    (h5 : r5 * r5 = TransformKernels.rytz_rad5 d1 d2 r1 r2 r3 r4) (h6 : r6 * r6 = TransformKernels.rytz_rad6 d1 d2 r1 r2 r3 r4 r5)
    (h7 : r7 * r7 = TransformKernels.rytz_rad7 d1 d2 r1 r2 r3 r4 r5 r6) (h8 : r8 * r8 = TransformKernels.rytz_rad8 d1 d2 r1 r2 r3 r4 r5 r6 r7)
    (hr1 : r1 ≠ 0) (hr3 : r3 ≠ 0) (h : TransformKernels.rytz d1 d2 r1 r2 r3 r4 r5 r6 r7 r8 = .ok (mj, mn, ratio))
    (c s : Rat) (hcs : c * c + s * s = 1) :
    V3.dot (V3.add (V3.smul c d1) (V3.smul s d2)) mj * V3.dot (V3.add (V3.smul c d1) (V3.smul s d2)) mj * (magSq mn * magSq mn)
      + V3.dot (V3.add (V3.smul c d1) (V3.smul s d2)) mn * V3.dot (V3.add (V3.smul c d1) (V3.smul s d2)) mn * (magSq mj * magSq mj)
      = magSq mj * magSq mj * (magSq mn * magSq mn) := by
  obtain ⟨ho, hT⟩ := rytz_axes_law_space d1 d2 r1 r2 r3 r4 r5 r6 r7 r8 mj mn ratio hflat h1 h2 h3 h4 h5 h6 h7 h8 hr1 hr3 h
  exact ellipse_implicit mj mn d1 d2 ho hT c s hcs

/-- ellipse_image_law: `m` maps the ellipse  centre + cos t·u + sin t·v  point by point onto the ellipse with centre m(centre)
    and the conjugate half-diameters m(u), m(v) (linear parts) — the pair `ConstructionEllipse.transform` hands to the Rytz
    construction; together with rytz_point_law: every image point lies on the ELLIPSE / ellipse edge that is stored -/
theorem ellipse_image_law (m : M44) (center u v : V3) (c s : Rat) :
    apply m (V3.add center (V3.add (V3.smul c u) (V3.smul s v)))
      = V3.add (apply m center) (V3.add (V3.smul c (applyDir m u)) (V3.smul s (applyDir m v))) := by
  simp only [apply, applyDir, TransformKernels.mTransform, TransformKernels.mTransformDirection, V3.add, V3.smul, V3.mk.injEq]
  refine ⟨?_, ?_, ?_⟩ <;> ring

/-- circle_to_ellipse_law ("arcs become ellipses", general position): for EVERY matrix and every CIRCLE / ARC (any OCS, centre,
    radius), the image of the circle point at the unit direction d, taken relative to the image of the centre, is
    cos·(r·m x̂) + sin·(r·m ŷ) — conjugate half-diameters r·m x̂, r·m ŷ — and satisfies the implicit equation of the ellipse whose
    axes `rytz_axis_construction` builds from them: the ELLIPSE produced by the non-uniform fallback of ezdxf.transform / the HATCH
    arc → ellipse conversion contains every image point of the arc.  (The kernel's eight roots only through r·r = radicand.) -/
theorem circle_to_ellipse_law (o : OcsT) (c : Circle) (d : V2) (hd : d.x * d.x + d.y * d.y = 1)
    (r1 r2 r3 r4 r5 r6 r7 r8 : Rat) (mj mn : V3) (ratio : Rat)
    (hflat : ¬ Flat (V3.smul c.radius o.ax) (V3.smul c.radius o.ay))
    (h1 : r1 * r1 = TransformKernels.rytz_rad1 (V3.smul c.radius o.ax) (V3.smul c.radius o.ay))
    (h2 : r2 * r2 = TransformKernels.rytz_rad2 (V3.smul c.radius o.ax) (V3.smul c.radius o.ay) r1)
    (h3 : r3 * r3 = TransformKernels.rytz_rad3 (V3.smul c.radius o.ax) (V3.smul c.radius o.ay) r1 r2)
    (h4 : r4 * r4 = TransformKernels.rytz_rad4 (V3.smul c.radius o.ax) (V3.smul c.radius o.ay) r1 r2 r3)
    (h5 : r5 * r5 = TransformKernels.rytz_rad5 (V3.smul c.radius o.ax) (V3.smul c.radius o.ay) r1 r2 r3 r4)
    (h6 : r6 * r6 = TransformKernels.rytz_rad6 (V3.smul c.radius o.ax) (V3.smul c.radius o.ay) r1 r2 r3 r4 r5)
    (h7 : r7 * r7 = TransformKernels.rytz_rad7 (V3.smul c.radius o.ax) (V3.smul c.radius o.ay) r1 r2 r3 r4 r5 r6)
    (h8 : r8 * r8 = TransformKernels.rytz_rad8 (V3.smul c.radius o.ax) (V3.smul c.radius o.ay) r1 r2 r3 r4 r5 r6 r7)
    (hr1 : r1 ≠ 0) (hr3 : r3 ≠ 0)
    (h : TransformKernels.rytz (V3.smul c.radius o.ax) (V3.smul c.radius o.ay) r1 r2 r3 r4 r5 r6 r7 r8 = .ok (mj, mn, ratio)) :
    V3.sub (apply o.m (Circle.point o.old c d)) (apply o.m (o.old.toWcs c.center))
      = V3.add (V3.smul d.x (V3.smul c.radius o.ax)) (V3.smul d.y (V3.smul c.radius o.ay)) ∧
    (let X := V3.sub (apply o.m (Circle.point o.old c d)) (apply o.m (o.old.toWcs c.center))
     V3.dot X mj * V3.dot X mj * (magSq mn * magSq mn) + V3.dot X mn * V3.dot X mn * (magSq mj * magSq mj)
       = magSq mj * magSq mj * (magSq mn * magSq mn)) := by
  have e : V3.sub (apply o.m (Circle.point o.old c d)) (apply o.m (o.old.toWcs c.center))
      = V3.add (V3.smul d.x (V3.smul c.radius o.ax)) (V3.smul d.y (V3.smul c.radius o.ay)) := by
    rw [Circle.point, image_offset]
    simp only [OcsT.ax, OcsT.ay]
    generalize applyDir o.m o.old.ux = a; generalize applyDir o.m o.old.uy = b
    generalize apply o.m (o.old.toWcs c.center) = q
    simp only [V3.sub, V3.add, V3.smul, V3.mk.injEq]
    refine ⟨?_, ?_, ?_⟩ <;> ring
  refine ⟨e, ?_⟩
  simp only
  rw [e]
  exact rytz_point_law_space _ _ r1 r2 r3 r4 r5 r6 r7 r8 mj mn ratio hflat h1 h2 h3 h4 h5 h6 h7 h8 hr1 hr3 h d.x d.y hd

/-- circle_to_ellipse_law_plane: the same when the image plane is the xy-plane (planar drawings: both image axes have z = 0),
    where `rytz_axis_construction` takes its 2-D branch -/
theorem circle_to_ellipse_law_plane (o : OcsT) (c : Circle) (d : V2) (hd : d.x * d.x + d.y * d.y = 1)
    (r1 r2 r3 r4 r5 r6 r7 r8 : Rat) (mj mn : V3) (ratio : Rat) (hzx : o.ax.z = 0) (hzy : o.ay.z = 0)
    (h1 : r1 * r1 = TransformKernels.rytz_rad1 (V3.smul c.radius o.ax) (V3.smul c.radius o.ay))
    (h2 : r2 * r2 = TransformKernels.rytz_rad2 (V3.smul c.radius o.ax) (V3.smul c.radius o.ay) r1)
    (h3 : r3 * r3 = TransformKernels.rytz_rad3 (V3.smul c.radius o.ax) (V3.smul c.radius o.ay) r1 r2)
    (h4 : r4 * r4 = TransformKernels.rytz_rad4 (V3.smul c.radius o.ax) (V3.smul c.radius o.ay) r1 r2 r3)
    (h5 : r5 * r5 = TransformKernels.rytz_rad5 (V3.smul c.radius o.ax) (V3.smul c.radius o.ay) r1 r2 r3 r4)
    (h6 : r6 * r6 = TransformKernels.rytz_rad6 (V3.smul c.radius o.ax) (V3.smul c.radius o.ay) r1 r2 r3 r4 r5)
    (hr1 : r1 ≠ 0)
    (h : TransformKernels.rytz (V3.smul c.radius o.ax) (V3.smul c.radius o.ay) r1 r2 r3 r4 r5 r6 r7 r8 = .ok (mj, mn, ratio)) :
    (let X := V3.sub (apply o.m (Circle.point o.old c d)) (apply o.m (o.old.toWcs c.center))
     V3.dot X mj * V3.dot X mj * (magSq mn * magSq mn) + V3.dot X mn * V3.dot X mn * (magSq mj * magSq mj)
       = magSq mj * magSq mj * (magSq mn * magSq mn)) := by
  have e : V3.sub (apply o.m (Circle.point o.old c d)) (apply o.m (o.old.toWcs c.center))
      = V3.add (V3.smul d.x (V3.smul c.radius o.ax)) (V3.smul d.y (V3.smul c.radius o.ay)) := by
    rw [Circle.point, image_offset]
    simp only [OcsT.ax, OcsT.ay]
    generalize applyDir o.m o.old.ux = a; generalize applyDir o.m o.old.uy = b
    generalize apply o.m (o.old.toWcs c.center) = q
    simp only [V3.sub, V3.add, V3.smul, V3.mk.injEq]
    refine ⟨?_, ?_, ?_⟩ <;> ring
  simp only
  rw [e]
  exact rytz_point_law _ _ r1 r2 r3 r4 r5 r6 r7 r8 mj mn ratio (by simp [V3.smul, hzx]) (by simp [V3.smul, hzy])
    h1 h2 h3 h4 h5 h6 hr1 h d.x d.y hd

/-- minor_axis_law: `minor_axis(major, extrusion, ratio)` (regenerated; the second conjugate half-diameter of every ELLIPSE and
    ellipse edge) is perpendicular to the major axis and to the extrusion and has the length ratio·|major| — for ANY extrusion
    vector that is not parallel to the major axis (it need not be a unit vector, nor perpendicular to the major axis) -/
theorem minor_axis_law (mj ext : V3) (ratio r1 r2 : Rat) (mn : V3)
    (h1 : r1 * r1 = TransformKernels.minorAxis_rad1 mj ext ratio) (h2 : r2 * r2 = TransformKernels.minorAxis_rad2 mj ext ratio r1)
    (h : TransformKernels.minorAxis mj ext ratio r1 r2 = .ok mn) :
    V3.dot mn mj = 0 ∧ V3.dot mn ext = 0 ∧ magSq mn = ratio * ratio * magSq mj ∧
    mn = V3.smul (r1 * ratio / r2) (V3.cross ext mj) := by
  unfold TransformKernels.minorAxis at h
  split_ifs at h with h0
  cases h
  simp only [TransformKernels.minorAxis_rad1, TransformKernels.minorAxis_rad2] at h1 h2
  refine ⟨?_, ?_, ?_, ?_⟩
  · simp only [V3.dot]; ring
  · simp only [V3.dot]; ring
  · simp only [magSq, V3.dot]
    have : ∀ a b c k : Rat, a * k * (a * k) + b * k * (b * k) + c * k * (c * k) = (a * a + b * b + c * c) * (k * k) := by
      intro a b c k; ring
    rw [this, ← h2, ← h1]
    field_simp
  · simp only [V3.smul, V3.cross, V3.mk.injEq]; refine ⟨?_, ?_, ?_⟩ <;> ring

/-- ellipse_shortcut_law: the branch of `ConstructionEllipse.transform` for (numerically) orthogonal image axes keeps the image
    of the major axis and REBUILDS the minor axis as `minor_axis(major', (major' × minor').normalize(), |minor'| / |major'|)`.
    For exactly orthogonal images this rebuilt axis IS the image of the old minor axis — so with `ellipse_image_law` the stored
    ellipse is the image ellipse.  (positive roots: ra = |major'|, rb = |minor'|, rn = |major' × minor'|, r2 = |ext' × major'|) -/
theorem ellipse_shortcut_law (mj' mn' : V3) (ra rb rn r2 : Rat) (res : V3)
    (horth : V3.dot mj' mn' = 0)
    (ha : ra * ra = magSq mj') (hb : rb * rb = magSq mn') (hn : rn * rn = magSq (V3.cross mj' mn'))
    (pa : 0 < ra) (pb : 0 < rb) (pn : 0 < rn) (p2 : 0 < r2)
    (h2 : r2 * r2 = TransformKernels.minorAxis_rad2 mj' (V3.smul (1 / rn) (V3.cross mj' mn')) (rb / ra) ra)
    (h : TransformKernels.minorAxis mj' (V3.smul (1 / rn) (V3.cross mj' mn')) (rb / ra) ra r2 = .ok res) :
    res = mn' := by
  unfold TransformKernels.minorAxis at h
  split_ifs at h with h0
  cases h
  -- (mj' × mn') × mj' = |mj'|²·mn' for perpendicular vectors
  have hx : V3.cross (V3.cross mj' mn') mj' = V3.smul (magSq mj') mn' := by
    simp only [V3.dot] at horth
    simp only [V3.cross, V3.smul, magSq, V3.dot, V3.mk.injEq]
    refine ⟨?_, ?_, ?_⟩
    · linear_combination (-mj'.x) * horth
    · linear_combination (-mj'.y) * horth
    · linear_combination (-mj'.z) * horth
  have hlag : magSq (V3.cross mj' mn') = magSq mj' * magSq mn' := by
    rw [← lagrange, horth]; ring
  have hrn : rn * rn = ra * ra * (rb * rb) := by rw [hn, hlag, ha, hb]
  have hrn' : rn = ra * rb := by
    have : (rn - ra * rb) * (rn + ra * rb) = 0 := by linear_combination hrn
    rcases mul_eq_zero.mp this with e | e
    · linarith
    · have : 0 < ra * rb := mul_pos pa pb
      linarith
  -- the cross product the kernel normalises: ext' × mj' = (ra / rb)·mn'
  have hc : V3.cross (V3.smul (1 / rn) (V3.cross mj' mn')) mj' = V3.smul (ra / rb) mn' := by
    have : V3.cross (V3.smul (1 / rn) (V3.cross mj' mn')) mj' = V3.smul (1 / rn) (V3.cross (V3.cross mj' mn') mj') := by
      simp only [V3.cross, V3.smul, V3.mk.injEq]; refine ⟨?_, ?_, ?_⟩ <;> ring
    rw [this, hx, ← ha, hrn']
    simp only [V3.smul, V3.mk.injEq]
    refine ⟨?_, ?_, ?_⟩ <;> field_simp
  have h2' : r2 * r2 = ra * ra := by
    have e : TransformKernels.minorAxis_rad2 mj' (V3.smul (1 / rn) (V3.cross mj' mn')) (rb / ra) ra
        = magSq (V3.cross (V3.smul (1 / rn) (V3.cross mj' mn')) mj') := by
      simp only [TransformKernels.minorAxis_rad2, magSq, V3.dot, V3.cross]
    rw [h2, e, hc]
    have hb0 : rb ≠ 0 := ne_of_gt pb
    have hk : magSq (V3.smul (ra / rb) mn') = ra / rb * (ra / rb) * magSq mn' := by
      simp only [magSq, V3.dot, V3.smul]; ring
    rw [hk, ← hb]
    field_simp
  have hr2 : r2 = ra := by
    have : (r2 - ra) * (r2 + ra) = 0 := by linear_combination h2'
    rcases mul_eq_zero.mp this with e | e
    · linarith
    · linarith
  have key : ∀ v : V3, (⟨(V3.cross (V3.smul (1 / rn) (V3.cross mj' mn')) mj').x * (ra * (rb / ra) / r2),
      (V3.cross (V3.smul (1 / rn) (V3.cross mj' mn')) mj').y * (ra * (rb / ra) / r2),
      (V3.cross (V3.smul (1 / rn) (V3.cross mj' mn')) mj').z * (ra * (rb / ra) / r2)⟩ : V3) = v →
      (⟨((V3.smul (1 / rn) (V3.cross mj' mn')).y * mj'.z - (V3.smul (1 / rn) (V3.cross mj' mn')).z * mj'.y) * (ra * (rb / ra) / r2),
        ((V3.smul (1 / rn) (V3.cross mj' mn')).z * mj'.x - (V3.smul (1 / rn) (V3.cross mj' mn')).x * mj'.z) * (ra * (rb / ra) / r2),
        ((V3.smul (1 / rn) (V3.cross mj' mn')).x * mj'.y - (V3.smul (1 / rn) (V3.cross mj' mn')).y * mj'.x) * (ra * (rb / ra) / r2)⟩ : V3) = v := by
    intro v hv; rw [← hv]; rfl
  apply key
  rw [hc, hr2]
  have ha0 : ra ≠ 0 := ne_of_gt pa
  have hb0 : rb ≠ 0 := ne_of_gt pb
  simp only [V3.smul]
  ext <;> simp <;> field_simp

/-- ellipse_shortcut_general (removes the orthogonality hypothesis of `ellipse_shortcut_law`): in the branch of
    `ConstructionEllipse.transform` for images that are orthogonal only WITHIN the tolerance 1e-6, the rebuilt minor axis is, exactly,
    the rejection of the image minor axis from the image major axis — (mj' × mn') × mj' = |mj'|²·(mn' − proj) — rescaled to the
    length of the image minor axis:  |mj' × mn'|·|mj'|·res = |mn'|·((mj' × mn') × mj'),  and the cosine of the angle between the
    stored and the true minor axis is |mj' × mn'| / (|mj'||mn'|) = sin θ:  (res · mn')·|mj'| = |mn'|·|mj' × mn'|.  Hence
    |res − mn'|² = 2|mn'|²(1 − sin θ) ≤ 2|mn'|²·(1 − √(1 − 10⁻¹²)) in that branch, and res = mn' when θ = 90°. -/
theorem ellipse_shortcut_general (mj' mn' : V3) (ra rb rn r2 : Rat) (res : V3)
    (ha : ra * ra = magSq mj') (hb : rb * rb = magSq mn') (hn : rn * rn = magSq (V3.cross mj' mn'))
    (pa : 0 < ra) (pn : 0 < rn) (p2 : 0 < r2)
    (h2 : r2 * r2 = TransformKernels.minorAxis_rad2 mj' (V3.smul (1 / rn) (V3.cross mj' mn')) (rb / ra) ra)
    (h : TransformKernels.minorAxis mj' (V3.smul (1 / rn) (V3.cross mj' mn')) (rb / ra) ra r2 = .ok res) :
    V3.smul (rn * ra) res = V3.smul rb (V3.cross (V3.cross mj' mn') mj') ∧
    V3.dot res mn' * ra = rb * rn ∧ V3.dot res mj' = 0 := by
  unfold TransformKernels.minorAxis at h
  split_ifs at h with h0
  cases h
  have hrn0 : rn ≠ 0 := ne_of_gt pn
  have ha0 : ra ≠ 0 := ne_of_gt pa
  -- |n × mj'|² = |n|²|mj'|² because n = mj' × mn' is perpendicular to mj'
  have hperp : V3.dot (V3.cross mj' mn') mj' = 0 := by simp only [V3.dot, V3.cross]; ring
  have hl : magSq (V3.cross (V3.cross mj' mn') mj') = magSq (V3.cross mj' mn') * magSq mj' := by
    rw [← lagrange, hperp]; ring
  have e2 : TransformKernels.minorAxis_rad2 mj' (V3.smul (1 / rn) (V3.cross mj' mn')) (rb / ra) ra
      = (1 / rn) * (1 / rn) * magSq (V3.cross (V3.cross mj' mn') mj') := by
    simp only [TransformKernels.minorAxis_rad2, magSq, V3.dot, V3.cross, V3.smul]; ring
  have h2' : r2 * r2 = ra * ra := by
    rw [h2, e2, hl, ← hn, ← ha]; field_simp
  have hr2 : r2 = ra := by
    have : (r2 - ra) * (r2 + ra) = 0 := by linear_combination h2'
    rcases mul_eq_zero.mp this with e | e <;> linarith
  subst hr2
  have htriple : V3.dot (V3.cross (V3.cross mj' mn') mj') mn' = magSq (V3.cross mj' mn') := by
    simp only [V3.dot, V3.cross, magSq]; ring
  have hperp2 : V3.dot (V3.cross (V3.cross mj' mn') mj') mj' = 0 := by simp only [V3.dot, V3.cross]; ring
  generalize hX : V3.cross (V3.cross mj' mn') mj' = X at *
  have eres : (⟨((V3.smul (1 / rn) (V3.cross mj' mn')).y * mj'.z - (V3.smul (1 / rn) (V3.cross mj' mn')).z * mj'.y) * (r2 * (rb / r2) / r2),
      ((V3.smul (1 / rn) (V3.cross mj' mn')).z * mj'.x - (V3.smul (1 / rn) (V3.cross mj' mn')).x * mj'.z) * (r2 * (rb / r2) / r2),
      ((V3.smul (1 / rn) (V3.cross mj' mn')).x * mj'.y - (V3.smul (1 / rn) (V3.cross mj' mn')).y * mj'.x) * (r2 * (rb / r2) / r2)⟩ : V3)
      = V3.smul (rb / (rn * r2)) X := by
    rw [← hX]
    simp only [V3.smul, V3.cross, V3.mk.injEq]
    refine ⟨?_, ?_, ?_⟩ <;> field_simp
  rw [eres]
  refine ⟨?_, ?_, ?_⟩
  · simp only [V3.smul, V3.mk.injEq]; refine ⟨?_, ?_, ?_⟩ <;> field_simp
  · have : V3.dot (V3.smul (rb / (rn * r2)) X) mn' = rb / (rn * r2) * V3.dot X mn' := by simp only [V3.dot, V3.smul]; ring
    rw [this, htriple, ← hn]; field_simp
  · have : V3.dot (V3.smul (rb / (rn * r2)) X) mj' = rb / (rn * r2) * V3.dot X mj' := by simp only [V3.dot, V3.smul]; ring
    rw [this, hperp2, mul_zero]

/-- ellipse_swap_law: the exchange of axes for ratio > 1 at the end of `ConstructionEllipse.transform` — two `minor_axis` calls with
    the unit normal n = (a × b)/|a × b| — turns orthogonal axes (a, b) into (b, −a) EXACTLY: the same ellipse (same tensor), major
    and minor exchanged, ratio inverted.  (positive roots: ra = |a|, rb = |b|, rn = |a × b|, r2 / r2' = the two |n × ·|) -/
theorem ellipse_swap_law (a b : V3) (ra rb rn r2 r2' : Rat) (a2 b2 : V3) (horth : V3.dot a b = 0)
    (ha : ra * ra = magSq a) (hb : rb * rb = magSq b) (hn : rn * rn = magSq (V3.cross a b))
    (pa : 0 < ra) (pb : 0 < rb) (pn : 0 < rn) (p2 : 0 < r2) (p2' : 0 < r2')
    (h2 : r2 * r2 = TransformKernels.minorAxis_rad2 a (V3.smul (1 / rn) (V3.cross a b)) (rb / ra) ra)
    (h : TransformKernels.minorAxis a (V3.smul (1 / rn) (V3.cross a b)) (rb / ra) ra r2 = .ok a2)
    (h2' : r2' * r2' = TransformKernels.minorAxis_rad2 a2 (V3.smul (1 / rn) (V3.cross a b)) (ra / rb) rb)
    (h' : TransformKernels.minorAxis a2 (V3.smul (1 / rn) (V3.cross a b)) (ra / rb) rb r2' = .ok b2) :
    a2 = b ∧ b2 = V3.smul (-1) a ∧ SameTensor a2 b2 a b := by
  have e1 : a2 = b := ellipse_shortcut_law a b ra rb rn r2 a2 horth ha hb hn pa pb pn p2 h2 h
  subst e1
  have hcr : V3.cross a2 (V3.smul (-1) a) = V3.cross a a2 := by
    simp only [V3.cross, V3.smul, V3.mk.injEq]; refine ⟨?_, ?_, ?_⟩ <;> ring
  have horth' : V3.dot a2 (V3.smul (-1) a) = 0 := by
    simp only [V3.dot, V3.smul] at horth ⊢; linear_combination (-1 : Rat) * horth
  have hma : ra * ra = magSq (V3.smul (-1) a) := by
    rw [ha]; simp only [magSq, V3.dot, V3.smul]; ring
  have e2 : b2 = V3.smul (-1) a :=
    ellipse_shortcut_law a2 (V3.smul (-1) a) rb ra rn r2' b2 horth' hb hma (by rw [hcr]; exact hn) pb pa pn p2'
      (by rw [hcr]; exact h2') (by rw [hcr]; exact h')
  refine ⟨rfl, e2, ?_⟩
  subst e2
  intro i j hi hj
  rcases hi with rfl | rfl | rfl <;> rcases hj with rfl | rfl | rfl <;> simp only [V3.smul] <;> ring

/-- rytz_orthogonal (both branches, any position in space): whenever the construction succeeds the two axes are orthogonal
    (Thales) and ratio·(major length) = (minor length) -/
theorem rytz_orthogonal (d1 d2 : V3) (r1 r2 r3 r4 r5 r6 r7 r8 : Rat) (mj mn : V3) (ratio : Rat)
    (h1 : r1 * r1 = TransformKernels.rytz_rad1 d1 d2) (h2 : r2 * r2 = TransformKernels.rytz_rad2 d1 d2 r1)
    (h3 : r3 * r3 = TransformKernels.rytz_rad3 d1 d2 r1 r2) (h4 : r4 * r4 = TransformKernels.rytz_rad4 d1 d2 r1 r2 r3)
    (h : TransformKernels.rytz d1 d2 r1 r2 r3 r4 r5 r6 r7 r8 = .ok (mj, mn, ratio)) :
    V3.dot mj mn = 0 := by
  by_cases hflat : Flat d1 d2
  · rw [rytz_flat d1 d2 r1 r2 r3 r4 r5 r6 r7 r8 hflat] at h
    obtain ⟨e1, e2, _⟩ := rytz_rads_flat d1 d2 r1 r2 r3 r4 r5 hflat
    exact (rytz_core_orthogonal d1 (orthoCw d2) r1 r2 r3 r4 r5 r6 mj mn ratio (e1 ▸ h1) (e2 ▸ h2) h).1
  · rw [rytz_space d1 d2 r1 r2 r3 r4 r5 r6 r7 r8 hflat] at h
    split_ifs at h with c2
    obtain ⟨e3, e4⟩ := rytz_rads_space d1 d2 r1 r2 r3 hflat c2
    exact (rytz_core_orthogonal d1 _ r3 r4 r5 r6 r7 r8 mj mn ratio (e3 ▸ h3) (e4 ▸ h4) h).1

/-! ## 13. MLINE (session 3) -/

/-- mline_law: the reference vertices are mapped as points (every matrix), and for EVERY similarity — whatever rotation or
    mirror it contains — the scale factor of the element lines is multiplied by the similarity factor k (k·k = k²).
    (Before the fix 97344826c the factor was read off the image of the vector (s, s, s): any rotation in `m` left the scale
    factor unchanged, a point reflection made it negative.) -/
theorem mline_law (sqrt : Rat → Rat) (m : M44) (k2 : Rat) (l : MLine) (hm : IsSimilarity m k2) :
    (MLine.transform sqrt m l).locations = l.locations.map (apply m) ∧
    (MLine.transform sqrt m l).scale = l.scale * sqrt k2 := by
  obtain ⟨hxx, hyy, hzz, _, _, _⟩ := hm
  refine ⟨rfl, ?_⟩
  have e1 : TransformKernels.mlineScale_rad1 l.scale m = k2 := by
    rw [← hxx]; simp only [TransformKernels.mlineScale_rad1, V3.dot, M44.ux]; ring
  have e2 : ∀ r, TransformKernels.mlineScale_rad2 l.scale m r = k2 := by
    intro r; rw [← hyy]; simp only [TransformKernels.mlineScale_rad2, V3.dot, M44.uy]; ring
  have e3 : ∀ r s, TransformKernels.mlineScale_rad3 l.scale m r s = k2 := by
    intro r s; rw [← hzz]; simp only [TransformKernels.mlineScale_rad3, V3.dot, M44.uz]; ring
  simp only [MLine.transform, TransformKernels.mlineScaleS, e1, e2, e3, TransformKernels.mlineScale]
  have hc : pyIsclose (sqrt k2) (sqrt k2) (4835703278458517 / 4835703278458516698824704) (4722366482869645 / 4722366482869645213696) = true := by
    simp [pyIsclose]
  simp only [hc, and_self, if_true]
  ring

/-! ## 14. DIMENSION (session 3) -/

/-- the DXF reference fixes which DIMENSION points live in the OCS and which in the WCS; the tables read from the source agree -/
theorem dimension_tables :
    TransformKernels.dimOcsVertexNames = ["text_midpoint", "defpoint5", "insert"] ∧
    TransformKernels.dimWcsVertexNames = ["defpoint", "defpoint2", "defpoint3", "defpoint4"] ∧
    TransformKernels.dimAngleNames = ["text_rotation", "horizontal_direction", "angle"] := by
  decide +kernel

/-- dimension_law: `Dimension.transform` keeps the attribute list (names, order) and maps every definition point by `m`:
    the WCS points defpoint … defpoint4 directly, the OCS points text_midpoint / defpoint5 / insert through the OCS law
    (new.toWcs p' = m(old.toWcs p)), and the three angles as directions of the OCS plane (lifted: exactly m of the old
    direction, for every matrix that maps the OCS plane onto the new one) -/
theorem dimension_law (o : OcsT) (hn : o.new.Orthonormal) (hp : PlaneToPlane o) (attrs : List (String × DimVal)) :
    (Dim.transform o attrs).map (·.1) = attrs.map (·.1) ∧
    ∀ name v, (name, v) ∈ attrs →
      (∀ p, v = .pt p → name ∈ ["defpoint", "defpoint2", "defpoint3", "defpoint4"] → (name, DimVal.pt (apply o.m p)) ∈ Dim.transform o attrs) ∧
      (∀ p, v = .pt p → name ∈ ["text_midpoint", "defpoint5", "insert"] →
        ∃ p', (name, DimVal.pt p') ∈ Dim.transform o attrs ∧ o.new.toWcs p' = apply o.m (o.old.toWcs p)) ∧
      (∀ d, v = .ang d → name ∈ ["text_rotation", "horizontal_direction", "angle"] →
        ∃ d', (name, DimVal.ang d') ∈ Dim.transform o attrs ∧
          o.new.toWcs ⟨d'.x, d'.y, 0⟩ = applyDir o.m (o.old.toWcs ⟨d.x, d.y, 0⟩)) := by
  obtain ⟨t1, t2, t3⟩ := dimension_tables
  refine ⟨by simp [Dim.transform, Function.comp_def], ?_⟩
  intro name v hmem
  have himg : (name, dimAttr o name v) ∈ Dim.transform o attrs := by
    simp only [Dim.transform, List.mem_map]
    exact ⟨(name, v), hmem, rfl⟩
  refine ⟨?_, ?_, ?_⟩
  · intro p hv hname
    subst hv
    have hnot : name ∉ TransformKernels.dimOcsVertexNames := by
      rw [t1]; revert hname; simp only [List.mem_cons, List.not_mem_nil, or_false]
      rintro (h | h | h | h) <;> subst h <;> decide
    simpa [dimAttr, hnot, t2, hname] using himg
  · intro p hv hname
    subst hv
    refine ⟨o.vertex p, ?_, (ocs_vertex_law o hn p).1⟩
    simpa [dimAttr, t1, hname] using himg
  · intro d hv hname
    subst hv
    refine ⟨dir2 o d, ?_, hatch_direction_law o hn hp d⟩
    simpa [dimAttr, t3, hname] using himg

/-! ## 15. 2-D POLYLINE (session 3) -/

/-- polyline2d_law: `Polyline.transform` (2-D) raises NonUniformScalingError exactly for arcs under a non-uniform OCS
    transformation; otherwise every vertex location — with the polyline elevation as z when the attribute exists, else its own
    z — is mapped as a point (lifted: m of the old lifted location), bulges are kept (right by `bulge_apex_law`), the vertex
    count is kept and the new elevation is the z of the first new location -/
theorem polyline2d_law (sqrt : Rat → Rat) (o : OcsT) (p : Polyline2d) (hn : o.new.Orthonormal) :
    (Polyline2d.transform sqrt o p = .error .nonUniformScaling ↔ (o.uniform = false ∧ p.vertices.any (fun v => v.bulge != 0) = true)) ∧
    ∀ p', Polyline2d.transform sqrt o p = .ok p' →
      p'.vertices.map (fun v => o.new.toWcs v.loc) = p.vertices.map (fun v => apply o.m (o.old.toWcs (v.ocsLocation p.elevation))) ∧
      p'.vertices.map (fun v => v.bulge) = p.vertices.map (fun v => v.bulge) ∧
      p'.thickness = p.thickness.map o.thickness ∧
      (∀ v vs, p'.vertices = v :: vs → p'.elevation = some v.loc.z) := by
  constructor
  · unfold Polyline2d.transform
    cases hu : o.uniform <;> cases ha : p.vertices.any (fun v => v.bulge != 0) <;> simp
  · intro p' h
    unfold Polyline2d.transform at h
    split_ifs at h
    cases h
    refine ⟨?_, ?_, rfl, ?_⟩
    · simp only [List.map_map]
      apply List.map_congr_left
      intro v _
      exact (ocs_vertex_law o hn _).1
    · simp [List.map_map, Function.comp_def]
    · intro v vs hv
      simp only at hv ⊢
      rw [hv]

/-! ## 16. WCS entities with named attributes (session 3) -/

/-- wcs_attr_tables: what the `transform(self, m)` methods of IMAGE/WIPEOUT, LEADER, HELIX, TOLERANCE, LIGHT, XLINE/RAY and of the
    MLINE vertices do, statement by statement (read from the source), is the classification of the DXF reference: locations are
    mapped as POINTS, pixel / axis / direction vectors as VECTORS (no translation), the XLINE direction is re-normalised, LEADER
    vertices as a point list, normals through `transform_extrusion`, the HELIX radius as the length of an image vector -/
theorem wcs_attr_tables :
    TransformKernels.wcsAttrTable =
      [("IMAGE", "insert", "point"), ("IMAGE", "u_pixel", "vector"), ("IMAGE", "v_pixel", "vector"),
       ("LEADER", "vertices", "points"), ("LEADER", "normal_vector", "normal"), ("LEADER", "horizontal_direction", "vector"),
       ("HELIX", "*", "super"), ("HELIX", "axis_base_point", "point"), ("HELIX", "axis_vector", "vector"),
       ("HELIX", "start_point", "point"), ("HELIX", "radius", "xlength"),
       ("TOLERANCE", "insert", "point"), ("TOLERANCE", "x_axis_vector", "vector"), ("TOLERANCE", "extrusion", "normal"),
       ("LIGHT", "location", "point"), ("LIGHT", "target", "point"),
       ("XLINE", "start", "point"), ("XLINE", "unit_vector", "unit"),
       ("MLINEVERTEX", "location", "point"), ("MLINEVERTEX", "line_direction", "vector"), ("MLINEVERTEX", "miter_direction", "vector")] := by
  decide +kernel

/-- wcs_attr_law: a point attribute is mapped by `m` and a vector attribute by the linear part, so (IMAGE) every pixel position
    insert + i·u + j·v is mapped by `m`; point lists element-wise; a re-normalised direction is parallel to the image of the old
    one and has length 1 (sqrt exact on the one radicand, image not null) -/
theorem wcs_attr_law (sqrt : Rat → Rat) (m : M44) (p u v : V3) (l : List V3) (i j : Rat) :
    wcsAttr sqrt m "point" (.pt p) = .pt (apply m p) ∧ wcsAttr sqrt m "vector" (.vec u) = .vec (applyDir m u) ∧
    wcsAttr sqrt m "points" (.pts l) = .pts (l.map (apply m)) ∧
    apply m (V3.add p (V3.add (V3.smul i u) (V3.smul j v)))
      = V3.add (apply m p) (V3.add (V3.smul i (applyDir m u)) (V3.smul j (applyDir m v))) ∧
    (sqrt (magSq (applyDir m u)) * sqrt (magSq (applyDir m u)) = magSq (applyDir m u) → sqrt (magSq (applyDir m u)) ≠ 0 →
      ∃ w, wcsAttr sqrt m "unit" (.vec u) = .vec w ∧ magSq w = 1 ∧ V3.smul (sqrt (magSq (applyDir m u))) w = applyDir m u) := by
  refine ⟨rfl, rfl, rfl, ellipse_image_law m p u v i j, ?_⟩
  intro hs h0
  refine ⟨_, rfl, ?_, ?_⟩
  · generalize applyDir m u = w at *
    generalize sqrt (magSq w) = r at *
    simp only [magSq, V3.dot, V3.smul] at *
    field_simp
    linarith
  · generalize applyDir m u = w at *
    generalize sqrt (magSq w) = r at *
    simp only [V3.smul]
    ext <;> simp <;> field_simp

/-! ## 17. ELLIPSE: `ConstructionEllipse.transform`, axes part (session 3) -/

/-- ellipse_transform_cases: whenever the (modelled, corresponded: X14) axes part of `ConstructionEllipse.transform` succeeds,
    the centre is mapped as a point and the stored axes come from exactly one of the regenerated kernels applied to the IMAGES
    m(major), m(minor) of the two conjugate half-diameters:
    (1) images not orthogonal (|cos| > 1e-6): `rytz_axis_construction` — `rytz_axes_law(_space)` / `rytz_point_law(_space)` apply:
        orthogonal axes spanning the image ellipse;
    (2) images orthogonal within 1e-6: the image of the major axis is kept and the minor axis is rebuilt by `minor_axis` —
        `ellipse_shortcut_law`: for exactly orthogonal images it IS the image of the old minor axis;
    in both cases axes with ratio > 1 are exchanged through two further `minor_axis` calls (`minor_axis_law`: perpendicular, the
    lengths are exchanged).  With `ellipse_image_law` this chains "ELLIPSE / ellipse edge / arc → ellipse" to the image ellipse. -/
theorem ellipse_transform_cases (sqrt : Rat → Rat) (m : M44) (e : Ell) (out : EllOut) (h : Ell.transform sqrt m e = .ok out) :
    out.center = apply m e.center ∧
    ∃ mn, TransformKernels.minorAxisS sqrt e.major e.ext e.ratio = .ok mn ∧
      ∃ a b r n,
        ((tol6 < pyAbs (V3.dot (nrmV (sqrt (magSq (applyDir m e.major))) (applyDir m e.major))
                               (nrmV (sqrt (magSq (applyDir m mn))) (applyDir m mn))) ∧
          TransformKernels.rytzS sqrt (applyDir m e.major) (applyDir m mn) = .ok (a, b, r) ∧
          n = nrmV (sqrt (magSq (V3.cross a b))) (V3.cross a b)) ∨
         (¬ tol6 < pyAbs (V3.dot (nrmV (sqrt (magSq (applyDir m e.major))) (applyDir m e.major))
                                 (nrmV (sqrt (magSq (applyDir m mn))) (applyDir m mn))) ∧
          a = applyDir m e.major ∧ r = sqrt (magSq (applyDir m mn)) / sqrt (magSq (applyDir m e.major)) ∧
          n = nrmV (sqrt (magSq (V3.cross (applyDir m e.major) (applyDir m mn)))) (V3.cross (applyDir m e.major) (applyDir m mn)) ∧
          TransformKernels.minorAxisS sqrt (applyDir m e.major) n r = .ok b)) ∧
        ((¬ 1 < r ∧ out.major = a ∧ out.minor = b ∧ out.ratio = r ∧ out.ext = n) ∨
         (1 < r ∧ TransformKernels.minorAxisS sqrt a n r = .ok out.major ∧
          TransformKernels.minorAxisS sqrt out.major n (1 / r) = .ok out.minor ∧ out.ratio = 1 / r ∧ out.ext = n)) := by
  unfold Ell.transform at h
  split at h
  · cases h
  · rename_i mn hmn
    simp only at h
    split_ifs at h with h0 hcos
    · -- rytz branch
      split at h
      · cases h
      · rename_i a b r n hcore
        split at hcore
        · cases hcore
        · rename_i a' b' r' hry
          split_ifs at hcore with hrn
          simp only [Except.ok.injEq, Prod.mk.injEq] at hcore
          obtain ⟨rfl, rfl, rfl, rfl⟩ := hcore
          split_ifs at h with hr
          · split at h
            · cases h
            · rename_i a2 ha2
              split at h
              · cases h
              · rename_i b2 hb2
                cases h
                exact ⟨rfl, mn, hmn, a', b', r', _, Or.inl ⟨hcos, hry, rfl⟩, Or.inr ⟨hr, ha2, hb2, rfl, rfl⟩⟩
          · cases h
            exact ⟨rfl, mn, hmn, a', b', r', _, Or.inl ⟨hcos, hry, rfl⟩, Or.inl ⟨hr, rfl, rfl, rfl, rfl⟩⟩
    · -- orthogonal branch
      split at h
      · cases h
      · rename_i a b r n hcore
        split at hcore
        · cases hcore
        · rename_i b' hb'
          simp only [Except.ok.injEq, Prod.mk.injEq] at hcore
          obtain ⟨rfl, rfl, rfl, rfl⟩ := hcore
          split_ifs at h with hr
          · split at h
            · cases h
            · rename_i a2 ha2
              split at h
              · cases h
              · rename_i b2 hb2
                cases h
                exact ⟨rfl, mn, hmn, _, b', _, _, Or.inr ⟨hcos, rfl, rfl, rfl, hb'⟩, Or.inr ⟨hr, ha2, hb2, rfl, rfl⟩⟩
          · cases h
            exact ⟨rfl, mn, hmn, _, b', _, _, Or.inr ⟨hcos, rfl, rfl, rfl, hb'⟩, Or.inl ⟨hr, rfl, rfl, rfl, rfl⟩⟩

/-- ellipse_edge_law: a HATCH ellipse edge (and an arc edge converted to one) is transformed as the WCS ellipse with the centre
    lifted by the elevation, the major axis lifted as a direction and the extrusion of the old OCS: the new centre is the one of
    `hatch_law`, and major axis / ratio are the new-OCS coordinates of the output of `Ell.transform`, to which
    `ellipse_transform_cases` (rytz or orthogonal branch) applies -/
theorem ellipse_edge_law (sqrt : Rat → Rat) (o : OcsT) (elev : Rat) (center major : V2) (ratio : Rat) (c' mj' : V2) (r' : Rat)
    (h : ellipseEdgeAxes sqrt o elev center major ratio = .ok (c', mj', r')) :
    c' = o.vertex2d center elev ∧
    ∃ out, Ell.transform sqrt o.m ⟨o.old.toWcs ⟨center.x, center.y, elev⟩, o.old.toWcs ⟨major.x, major.y, 0⟩, o.old.uz, ratio⟩ = .ok out ∧
      mj' = ⟨(o.new.fromWcs out.major).x, (o.new.fromWcs out.major).y⟩ ∧ r' = out.ratio := by
  unfold ellipseEdgeAxes at h
  simp only [TransformKernels.hatchEllipseCenterElev] at h
  split at h
  · cases h
  · rename_i out hout
    simp only [Except.ok.injEq, Prod.mk.injEq] at h
    obtain ⟨e1, e2, e3⟩ := h
    refine ⟨?_, out, hout, e2.symm, e3.symm⟩
    have hc := (ellipse_transform_cases sqrt o.m _ out hout).1
    rw [← e1, hc, vertex2d_spec, vertex_spec]

/-! ## 18. the convenience interface: translate / scale / scale_uniform / rotate_* = transform(matrix) (follow-up session)

Found in the LIVE entity classes (T-tab, regenerated): only `translate` is overridden, by Circle (also ARC), Ellipse, Insert, Line,
Point, Text (also ATTRIB / ATTDEF) and XLine (also RAY); every other method of every class is the DXFGraphic default
`return self.transform(Matrix44.<factory>(…))`.  The seven fast paths are translated by py2lean (`translate<Class>`). -/

/-- the override table of the live classes, the DXFGraphic defaults and the module functions of ezdxf.transform (each hands ONE
    `Matrix44` factory call to `transform` / `inplace`) are what the model assumes: a new override, or a default that no longer
    delegates, stops this proof until it is modelled -/
theorem convenience_tables :
    TransformKernels.convOverrides =
      [("translate", "Circle"), ("translate", "Ellipse"), ("translate", "Insert"), ("translate", "Line"), ("translate", "Point"),
       ("translate", "Text"), ("translate", "XLine")] ∧
    TransformKernels.convDefaults =
      [("rotate_axis", "Matrix44.axis_rotate(axis, angle)"), ("rotate_x", "Matrix44.x_rotate(angle)"),
       ("rotate_y", "Matrix44.y_rotate(angle)"), ("rotate_z", "Matrix44.z_rotate(angle)"), ("scale", "Matrix44.scale(sx, sy, sz)"),
       ("scale_uniform", "Matrix44.scale(s)"), ("translate", "Matrix44.translate(dx, dy, dz)")] ∧
    TransformKernels.insertTranslatesAttribs = true ∧
    TransformKernels.xtDefaults =
      [("axis_rotate", "Matrix44.axis_rotate(v, a)"), ("scale", "Matrix44.scale(safe(sx), safe(sy), safe(sz))"),
       ("scale_uniform", "Matrix44.scale(f, f, f)"), ("translate", "Matrix44.translate(v.x, v.y, v.z)"),
       ("x_rotate", "Matrix44.x_rotate(a)"), ("y_rotate", "Matrix44.y_rotate(a)"), ("z_rotate", "Matrix44.z_rotate(a)")] := by
  decide +kernel

/-- `Matrix44.translate(dx, dy, dz)` (regenerated) moves points by the offset and leaves directions alone -/
theorem translate_matrix_law (dx dy dz : Rat) (p v : V3) :
    apply (TransformKernels.m44Translate dx dy dz) p = V3.add p ⟨dx, dy, dz⟩ ∧
    applyDir (TransformKernels.m44Translate dx dy dz) v = v ∧ M44.IsAffine (TransformKernels.m44Translate dx dy dz) := by
  refine ⟨?_, ?_, by simp [M44.IsAffine, TransformKernels.m44Translate]⟩
  · simp only [apply, TransformKernels.mTransform, TransformKernels.m44Translate, V3.add, V3.mk.injEq]
    refine ⟨?_, ?_, ?_⟩ <;> ring
  · simp only [applyDir, TransformKernels.mTransformDirection, TransformKernels.m44Translate]
    ext <;> simp

/-- translate_eq_transform (WCS classes): the fast paths of LINE, POINT, XLINE/RAY and ELLIPSE store exactly what
    `transform(Matrix44.translate(dx, dy, dz))` stores for these points (`m.transform`) -/
theorem translate_eq_transform_wcs (dx dy dz : Rat) (p q : V3) :
    TransformKernels.translateLine p q dx dy dz
      = (apply (TransformKernels.m44Translate dx dy dz) p, apply (TransformKernels.m44Translate dx dy dz) q) ∧
    TransformKernels.translatePoint p dx dy dz = apply (TransformKernels.m44Translate dx dy dz) p ∧
    TransformKernels.translateXLine p dx dy dz = apply (TransformKernels.m44Translate dx dy dz) p ∧
    TransformKernels.translateEllipse p dx dy dz = apply (TransformKernels.m44Translate dx dy dz) p := by
  simp only [TransformKernels.translateLine, TransformKernels.translatePoint, TransformKernels.translateXLine,
    TransformKernels.translateEllipse, apply, TransformKernels.mTransform, TransformKernels.m44Translate, Prod.mk.injEq, V3.mk.injEq]
  refine ⟨⟨⟨?_, ?_, ?_⟩, ⟨?_, ?_, ?_⟩⟩, ⟨?_, ?_, ?_⟩, ⟨?_, ?_, ?_⟩, ⟨?_, ?_, ?_⟩⟩ <;> ring

/-- translate_eq_transform (OCS classes): the fast paths of CIRCLE/ARC (centre), TEXT/ATTRIB/ATTDEF (insert and align point) and
    INSERT (insert) store exactly `OCSTransform.transform_vertex` for the matrix `Matrix44.translate(dx, dy, dz)` between the OCS
    and itself — what `transform()` stores, since a translation keeps the extrusion — for EVERY OCS, tilted ones included
    (`Text.translate` with `ocs.to_wcs(offset)` instead, seeded change C12-m6, regenerates a different kernel: this proof fails) -/
theorem translate_eq_transform_ocs (o : Ocs) (dx dy dz : Rat) (p q : V3) :
    TransformKernels.translateCircle o.t o.m p dx dy dz = OcsT.vertex ⟨TransformKernels.m44Translate dx dy dz, o, o, true⟩ p ∧
    TransformKernels.translateInsert o.t o.m p dx dy dz = OcsT.vertex ⟨TransformKernels.m44Translate dx dy dz, o, o, true⟩ p ∧
    TransformKernels.translateText o.t o.m p q dx dy dz
      = (OcsT.vertex ⟨TransformKernels.m44Translate dx dy dz, o, o, true⟩ p, OcsT.vertex ⟨TransformKernels.m44Translate dx dy dz, o, o, true⟩ q) := by
  obtain ⟨t, M⟩ := o
  cases t <;>
    simp only [TransformKernels.translateCircle, TransformKernels.translateInsert, TransformKernels.translateText, OcsT.vertex,
      TransformKernels.otVertex, TransformKernels.m44Translate, Prod.mk.injEq, V3.mk.injEq, if_true, Bool.false_eq_true, if_false] <;>
    refine ⟨⟨?_, ?_, ?_⟩, ⟨?_, ?_, ?_⟩, ⟨?_, ?_, ?_⟩, ⟨?_, ?_, ?_⟩⟩ <;> ring

/-- translate_law: geometric reading for an orthonormal OCS: the WCS position of the stored point moves by exactly (dx, dy, dz),
    and every direction (rotation, angles, axes) and length is what `transform` would compute: unchanged -/
theorem translate_law (o : Ocs) (h : o.Orthonormal) (dx dy dz : Rat) (p v : V3) :
    o.toWcs (TransformKernels.translateCircle o.t o.m p dx dy dz) = V3.add (o.toWcs p) ⟨dx, dy, dz⟩ ∧
    o.toWcs (TransformKernels.translateText o.t o.m p v dx dy dz).1 = V3.add (o.toWcs p) ⟨dx, dy, dz⟩ ∧
    o.toWcs (TransformKernels.translateText o.t o.m p v dx dy dz).2 = V3.add (o.toWcs v) ⟨dx, dy, dz⟩ ∧
    o.toWcs (TransformKernels.translateInsert o.t o.m p dx dy dz) = V3.add (o.toWcs p) ⟨dx, dy, dz⟩ ∧
    OcsT.direction ⟨TransformKernels.m44Translate dx dy dz, o, o, true⟩ v = v := by
  obtain ⟨e1, e2, e3⟩ := translate_eq_transform_ocs o dx dy dz p v
  rw [e1, e2, e3]
  have hv := fun q => (ocs_vertex_law ⟨TransformKernels.m44Translate dx dy dz, o, o, true⟩ h q).1
  simp only at hv
  refine ⟨?_, ?_, ?_, ?_, ?_⟩
  · rw [hv, (translate_matrix_law dx dy dz _ v).1]
  · rw [hv, (translate_matrix_law dx dy dz _ v).1]
  · rw [hv, (translate_matrix_law dx dy dz _ v).1]
  · rw [hv, (translate_matrix_law dx dy dz _ v).1]
  · rw [direction_spec]
    simp only
    rw [(translate_matrix_law dx dy dz p _).2.1, fromWcs_toWcs o h]

/-! ## 19. `Insert.matrix44()` regenerated (follow-up session) -/

/-- matrix44_base_point_law: `Insert.matrix44()` — translated statement by statement (order kept) over the Cython twin of
    Matrix44 — maps the BASE POINT of the block onto the insertion point of the reference, for every OCS, scale factors, rotation
    (c, s), insert and base point, and its last column is (0, 0, 0, 1): the translation row is `insert − base·L` for the FINAL linear
    part L (scaling, OCS, rotation).  Computing the offset before the rotation is applied (seeded changes C12-m1 / C12-m5)
    regenerates a kernel for which this proof fails. -/
theorem matrix44_base_point_law (o : Ocs) (sx sy sz c s r1 : Rat) (ins base : V3) (M : M44)
    (h : TransformKernels.insertMatrixGen o.t o.m sx sy sz ins base c s r1 = .ok M) :
    apply M base = o.toWcs ins ∧ M44.IsAffine M := by
  obtain ⟨t, m⟩ := o
  cases t
  · simp only [TransformKernels.insertMatrixGen, Bool.false_eq_true, if_false, Except.ok.injEq] at h
    subst h
    refine ⟨?_, by simp [M44.IsAffine]⟩
    simp only [apply, TransformKernels.mTransform, Ocs.toWcs, TransformKernels.ocsToWcs, Bool.false_eq_true, if_false, V3.mk.injEq]
    refine ⟨?_, ?_, ?_⟩ <;> ring
  · simp only [TransformKernels.insertMatrixGen, if_true] at h
    split_ifs at h with h0
    simp only [Except.ok.injEq] at h
    subst h
    refine ⟨?_, by simp [M44.IsAffine]⟩
    simp only [apply, TransformKernels.mTransform, Ocs.toWcs, TransformKernels.ocsToWcs, if_true, V3.mk.injEq]
    refine ⟨?_, ?_, ?_⟩ <;> ring

/-- matrix44_spec: for an orthonormal right-handed OCS (what `OCS.__init__` builds) the regenerated `Insert.matrix44()` IS the
    closed form `insertMatrix` the other INSERT theorems talk about (insert_matrix_law, insert_transform_law, minsert_grid_law,
    nested_insert, upright_insert): x-axis sx·(c·Ux + s·Uy), y-axis sy·(−s·Ux + c·Uy), z-axis sz·Uz, translation
    insert − base·L.  r1 = |Uz| is the one square root (`axis_rotate` normalises its axis); (c, s) need not be normalised. -/
theorem matrix44_spec (m : M44) (sx sy sz c s r1 : Rat) (ins base : V3) (M : M44)
    (ho : (Ocs.mk true m).Orthonormal) (hrh : (Ocs.mk true m).RightHanded)
    (h1 : r1 * r1 = TransformKernels.insertMatrixGen_rad1 true m sx sy sz ins base c s) (hp : 0 < r1)
    (h : TransformKernels.insertMatrixGen true m sx sy sz ins base c s r1 = .ok M) :
    M = insertMatrix ⟨true, m⟩ ⟨ins, sx, sy, sz, ⟨c, s⟩⟩ base := by
  obtain ⟨hA, hB⟩ := frame_cross ⟨true, m⟩ ho hrh
  obtain ⟨hxx, hyy, hzz, hxy, hxz, hyz⟩ := ho
  simp only [Ocs.ux, Ocs.uy, Ocs.uz, M44.ux, M44.uy, M44.uz, if_true, V3.dot, V3.cross, V3.smul, V3.mk.injEq] at hA hB hxx hyy hzz hxy hxz hyz
  obtain ⟨hA1, hA2, hA3⟩ := hA
  obtain ⟨hB1, hB2, hB3⟩ := hB
  have hr : r1 = 1 := by
    simp only [TransformKernels.insertMatrixGen_rad1, if_true] at h1
    have : (r1 - 1) * (r1 + 1) = 0 := by linear_combination h1 + hzz
    rcases mul_eq_zero.mp this with e | e <;> linarith
  subst hr
  simp only [TransformKernels.insertMatrixGen, if_true, one_ne_zero, if_false, Except.ok.injEq] at h
  subst h
  simp only [insertMatrix, Ocs.ux, Ocs.uy, Ocs.uz, Ocs.toWcs, TransformKernels.ocsToWcs, M44.ux, M44.uy, M44.uz, if_true, V3.add, V3.sub,
    V3.smul, M44.mk.injEq]
  refine ⟨?_, ?_, ?_, ?_, ?_, ?_, ?_, ?_, ?_, ?_, ?_, ?_, ?_, ?_, ?_, ?_⟩
  · linear_combination ((sx * s) * hA1 + (sx * (1 - c) * m.m8) * hxz)
  · linear_combination ((sx * s) * hA2 + (sx * (1 - c) * m.m9) * hxz)
  · linear_combination ((sx * s) * hA3 + (sx * (1 - c) * m.m10) * hxz)
  · ring
  · linear_combination ((sy * s) * hB1 + (sy * (1 - c) * m.m8) * hyz)
  · linear_combination ((sy * s) * hB2 + (sy * (1 - c) * m.m9) * hyz)
  · linear_combination ((sy * s) * hB3 + (sy * (1 - c) * m.m10) * hyz)
  · ring
  · linear_combination (sz * (1 - c) * m.m8) * hzz
  · linear_combination (sz * (1 - c) * m.m9) * hzz
  · linear_combination (sz * (1 - c) * m.m10) * hzz
  · ring
  · linear_combination (-base.x) * ((sx * s) * hA1 + (sx * (1 - c) * m.m8) * hxz) + (-base.y) * ((sy * s) * hB1 + (sy * (1 - c) * m.m8) * hyz) + (-base.z) * ((sz * (1 - c) * m.m8) * hzz)
  · linear_combination (-base.x) * ((sx * s) * hA2 + (sx * (1 - c) * m.m9) * hxz) + (-base.y) * ((sy * s) * hB2 + (sy * (1 - c) * m.m9) * hyz) + (-base.z) * ((sz * (1 - c) * m.m9) * hzz)
  · linear_combination (-base.x) * ((sx * s) * hA3 + (sx * (1 - c) * m.m10) * hxz) + (-base.y) * ((sy * s) * hB3 + (sy * (1 - c) * m.m10) * hyz) + (-base.z) * ((sz * (1 - c) * m.m10) * hzz)
  · trivial

/-- the hand-written `insertMatrix` (used by insert_matrix_law, insert_transform_law, nested_insert) has the same defining
    property, so model and regenerated code agree on where the base point goes; their linear parts are tied by X4 -/
theorem insertMatrix_base_point (o : Ocs) (i : Ins) (base : V3) : apply (insertMatrix o i base) base = o.toWcs i.insert := by
  simp only [insertMatrix]
  generalize o.toWcs i.insert = q
  obtain ⟨q1, q2, q3⟩ := q
  simp only [apply, TransformKernels.mTransform, V3.add, V3.sub, V3.smul, V3.mk.injEq]
  refine ⟨?_, ?_, ?_⟩ <;> ring

/-! ## 20. final round: MINSERT grid expansion, matrix44 for the untransformed OCS, POLYMESH / POLYFACE -/

/-- multi_insert_law: the grid element (col, row) of a MINSERT (`Insert.multi_insert()`, model `Ins.gridCell`, corresponded: X18)
    places the block content where the MINSERT itself places it, moved by col·column_spacing along the reference's x-axis and
    row·row_spacing along its y-axis (unit axes: the scale factors do not stretch the grid) — every OCS, rotation, base point -/
theorem multi_insert_law (o : Ocs) (i : Ins) (base : V3) (col row cs rs : Rat) (p : V3) :
    apply (insertMatrix o (i.gridCell col row cs rs) base) p
      = V3.add (apply (insertMatrix o i base) p) (V3.add (V3.smul (col * cs) (i.xAxis o)) (V3.smul (row * rs) (i.yAxis o))) := by
  simp only [insertMatrix, Ins.gridCell, Ins.xAxis, Ins.yAxis, toWcs_spec]
  generalize o.ux = a; generalize o.uy = b; generalize o.uz = n
  simp only [apply, TransformKernels.mTransform, V3.add, V3.sub, V3.smul, V3.mk.injEq]
  refine ⟨?_, ?_, ?_⟩ <;> ring

/-- minsert_expansion_law: transforming a MINSERT and then expanding it equals expanding it and transforming every grid element:
    under the hypotheses of `insert_transform_law` (orthogonal image axes) and non-zero x / y scale, for EVERY grid position
    (col, row), base point and block point p: the cell matrix of the transformed MINSERT (new spacing from `Insert.transform`)
    applied to p is `m` applied to the old cell matrix applied to p — mirrored matrices and non-uniform scaling along the axes
    included.  (Lifts `minsert_grid_law` from the two step vectors to the whole expansion.) -/
theorem minsert_expansion_law (sqrt : Rat → Rat) (old new : Ocs) (m : M44) (i : Ins) (tol cs rs : Rat)
    (hn : new.Orthonormal) (hrh : new.RightHanded)
    (hs1 : sqrt (magSq (insX old m i)) * sqrt (magSq (insX old m i)) = magSq (insX old m i)) (hp1 : 0 < sqrt (magSq (insX old m i)))
    (hs2 : sqrt (magSq (insY old m i)) * sqrt (magSq (insY old m i)) = magSq (insY old m i)) (hp2 : 0 < sqrt (magSq (insY old m i)))
    (hp3 : 0 < sqrt (magSq (insZ old m)))
    (hxy : V3.dot (insX old m i) (insY old m i) = 0) (hxz : V3.dot (insX old m i) (insZ old m) = 0)
    (hyz : V3.dot (insY old m i) (insZ old m) = 0) (ht0 : 0 ≤ tol) (ht1 : tol < 1)
    (hnew : new.uz = nrm (sqrt (magSq (insZ old m))) (insZ old m)) (hsx : i.sx ≠ 0) (hsy : i.sy ≠ 0) :
    ∃ i', Ins.transform sqrt old new m i tol = .ok i' ∧
      ∀ (col row : Rat) (base p : V3),
        apply (insertMatrix new ((i'.unitRot sqrt).gridCell col row (minsertSpacing i i' cs rs).1 (minsertSpacing i i' cs rs).2) base) p
          = apply m (apply (insertMatrix old (i.gridCell col row cs rs) base) p) := by
  obtain ⟨i', h, hpt, _, _, _⟩ :=
    insert_transform_law sqrt old new m i tol hn hrh hs1 hp1 hs2 hp2 hp3 hxy hxz hyz ht0 ht1 hnew
  obtain ⟨i'', h', hgx, hgy⟩ :=
    minsert_grid_law sqrt old new m i tol cs rs hn hrh hs1 hp1 hs2 hp2 hp3 hxy hxz hyz ht0 ht1 hnew hsx hsy
  have e : i'' = i' := by rw [h] at h'; cases h'; rfl
  subst e
  refine ⟨i'', h, ?_⟩
  intro col row base p
  rw [multi_insert_law, multi_insert_law, hpt base p, apply_add_dir, applyDir_add]
  congr 1
  have ex : V3.smul (col * (minsertSpacing i i'' cs rs).1) ((i''.unitRot sqrt).xAxis new) = applyDir m (V3.smul (col * cs) (i.xAxis old)) := by
    have : V3.smul (col * (minsertSpacing i i'' cs rs).1) ((i''.unitRot sqrt).xAxis new)
        = V3.smul col (V3.smul (minsertSpacing i i'' cs rs).1 ((i''.unitRot sqrt).xAxis new)) := by
      simp only [V3.smul, V3.mk.injEq]; refine ⟨?_, ?_, ?_⟩ <;> ring
    rw [this, hgx, ← applyDir_smul]
    congr 1
    simp only [V3.smul, V3.mk.injEq]; refine ⟨?_, ?_, ?_⟩ <;> ring
  have ey : V3.smul (row * (minsertSpacing i i'' cs rs).2) ((i''.unitRot sqrt).yAxis new) = applyDir m (V3.smul (row * rs) (i.yAxis old)) := by
    have : V3.smul (row * (minsertSpacing i i'' cs rs).2) ((i''.unitRot sqrt).yAxis new)
        = V3.smul row (V3.smul (minsertSpacing i i'' cs rs).2 ((i''.unitRot sqrt).yAxis new)) := by
      simp only [V3.smul, V3.mk.injEq]; refine ⟨?_, ?_, ?_⟩ <;> ring
    rw [this, hgy, ← applyDir_smul]
    congr 1
    simp only [V3.smul, V3.mk.injEq]; refine ⟨?_, ?_, ?_⟩ <;> ring
  rw [ex, ey]

/-- matrix44_spec_std: `matrix44_spec` without its OCS hypotheses for the untransformed OCS (extrusion (0, 0, 1), `OCS.transform =
    False`, the most common case): the regenerated `Insert.matrix44()` is the closed form `insertMatrix`, for all inputs -/
theorem matrix44_spec_std (m : M44) (sx sy sz c s r1 : Rat) (ins base : V3) (M : M44)
    (h : TransformKernels.insertMatrixGen false m sx sy sz ins base c s r1 = .ok M) :
    M = insertMatrix ⟨false, m⟩ ⟨ins, sx, sy, sz, ⟨c, s⟩⟩ base := by
  simp only [TransformKernels.insertMatrixGen, Bool.false_eq_true, if_false, Except.ok.injEq] at h
  subst h
  simp only [insertMatrix, Ocs.ux, Ocs.uy, Ocs.uz, Ocs.toWcs, TransformKernels.ocsToWcs, Bool.false_eq_true, if_false, V3.add, V3.sub,
    V3.smul, M44.mk.injEq]
  refine ⟨?_, ?_, ?_, ?_, ?_, ?_, ?_, ?_, ?_, ?_, ?_, ?_, ?_, ?_, ?_, ?_⟩ <;> first | ring | trivial

/-- polymesh_law: 3-D POLYLINE, POLYMESH and POLYFACE: `Polyline.transform` hands every VERTEX to `DXFVertex.transform`, which maps
    the location as a WCS point and leaves face records (vertex indices) alone (`vertexRule`, pinned from the source): the vertex
    list keeps its length and order, every location is `m` applied to the old one, so every mesh point / face corner — any affine
    combination (`affine_combination_law`) — is mapped by `m`, for every matrix -/
theorem polymesh_law (m : M44) (vs : List MeshVertex) :
    TransformKernels.vertexRule = ["3-D polyline / mesh / polyface: every vertex", "face record: unchanged", "location: point"] ∧
    (meshTransform m vs).length = vs.length ∧
    (meshTransform m vs).map (·.faceRecord) = vs.map (·.faceRecord) ∧
    ((meshTransform m vs).filter (fun v => !v.faceRecord)).map (·.loc) = ((vs.filter (fun v => !v.faceRecord)).map (·.loc)).map (apply m) ∧
    (meshTransform m vs).filter (·.faceRecord) = vs.filter (·.faceRecord) := by
  refine ⟨by decide +kernel, by simp [meshTransform], ?_, ?_, ?_⟩
  · induction vs with
    | nil => rfl
    | cons v r ih =>
      simp only [meshTransform, List.map_cons] at ih ⊢
      cases hv : v.faceRecord <;> simp [hv, ih]
  · induction vs with
    | nil => rfl
    | cons v r ih =>
      simp only [meshTransform, List.map_cons] at ih ⊢
      cases hv : v.faceRecord <;> simp [hv, List.filter_cons, ih]
  · induction vs with
    | nil => rfl
    | cons v r ih =>
      simp only [meshTransform, List.map_cons] at ih ⊢
      cases hv : v.faceRecord <;> simp [hv, List.filter_cons, ih]

/-- `transform_length(v, reflection)`: the length of the image times the sign of `reflection` -/
private theorem lengthR_spec (sqrt : Rat → Rat) (o : OcsT) (v : V3) (refl : Rat) :
    o.lengthR sqrt v refl = sqrt (magSq (applyDir o.m (o.old.toWcs v))) * (if refl < 0 then -1 else 1) := by
  obtain ⟨m, ⟨t1, m1⟩, ⟨t2, m2⟩, u⟩ := o
  have hr : TransformKernels.otLengthR_rad1 m t1 m1 t2 m2 v refl = magSq (applyDir m (Ocs.toWcs ⟨t1, m1⟩ v)) := by
    cases t1 <;>
      simp only [TransformKernels.otLengthR_rad1, magSq, V3.dot, applyDir, TransformKernels.mTransformDirection, Ocs.toWcs,
        TransformKernels.ocsToWcs, if_true, if_false, Bool.false_eq_true]
  simp only [OcsT.lengthR, TransformKernels.otLengthRS, hr, TransformKernels.otLengthR]
  cases t1 <;> simp

/-- shape_law: SHAPE under a similarity of its plane (mirrored ones included): the insertion point is mapped as a point (every
    matrix), the rotation is the transformed direction, size'² = k²·size², xscale'² = k²·xscale² and the x scale KEEPS ITS SIGN
    (a mirrored SHAPE stays mirrored in its OCS; the extrusion carries the reflection of the matrix) -/
theorem shape_law (sqrt : Rat → Rat) (o : OcsT) (k2 : Rat) (s : Shp) (hp : PlaneSimilar o k2)
    (hs1 : sqrt (k2 * (s.size * s.size)) * sqrt (k2 * (s.size * s.size)) = k2 * (s.size * s.size))
    (hs2 : sqrt (k2 * (s.xscale * s.xscale)) * sqrt (k2 * (s.xscale * s.xscale)) = k2 * (s.xscale * s.xscale))
    (hpos : 0 ≤ sqrt (k2 * (s.xscale * s.xscale))) :
    (Shp.transform sqrt o s).insert = apply o.m s.insert ∧ (Shp.transform sqrt o s).rot = dir2 o s.rot ∧
    (Shp.transform sqrt o s).size * (Shp.transform sqrt o s).size = k2 * (s.size * s.size) ∧
    (Shp.transform sqrt o s).xscale * (Shp.transform sqrt o s).xscale = k2 * (s.xscale * s.xscale) ∧
    (s.xscale < 0 → (Shp.transform sqrt o s).xscale ≤ 0) ∧ (0 ≤ s.xscale → 0 ≤ (Shp.transform sqrt o s).xscale) ∧
    (Shp.transform sqrt o s).thickness = s.thickness.map o.thickness := by
  obtain ⟨hxx, hyy, hxy, _, _⟩ := hp
  have ry : magSq (applyDir o.m (o.old.toWcs ⟨0, s.size, 0⟩)) = k2 * (s.size * s.size) := by
    rw [magSq_plane_image, hxx, hyy, hxy]; ring
  have rx : magSq (applyDir o.m (o.old.toWcs ⟨s.xscale, 0, 0⟩)) = k2 * (s.xscale * s.xscale) := by
    rw [magSq_plane_image, hxx, hyy, hxy]; ring
  simp only [Shp.transform, length_spec, lengthR_spec, ry, rx]
  refine ⟨trivial, trivial, hs1, ?_, ?_, ?_, trivial⟩
  · split_ifs <;> linear_combination hs2
  · intro hneg; rw [if_pos hneg]; linarith
  · intro hge; rw [if_neg (not_lt.mpr hge)]; linarith

/-! ## non-vacuity: the hypotheses used above are met by non-trivial values -/


example : tilt.Orthonormal ∧ tilt.RightHanded ∧ Ocs.negZ.Orthonormal ∧ Ocs.negZ.RightHanded ∧ Ocs.std.Orthonormal := by
  decide +kernel
example : IsSimilarity rot5 25 ∧ det3 rot5 = 125 ∧ M44.IsAffine rot5 := by decide +kernel
example : PlaneSimilar ⟨rot5, Ocs.std, Ocs.std, true⟩ 25 := by decide +kernel
-- ocs_vertex_law on a tilted target frame: the OCS point really denotes m(p)
example : tilt.toWcs (OcsT.vertex ⟨rot5, Ocs.negZ, tilt, true⟩ ⟨1, 2, 3⟩) = apply rot5 (Ocs.negZ.toWcs ⟨1, 2, 3⟩) := by decide +kernel
-- radius_scale: radius 2 becomes 10 under the factor-5 similarity, centre (1, 2, 3) ↦ (2, 18, 24)
example : Circle.transform sqrt100 ⟨rot5, Ocs.std, Ocs.std, true⟩ ⟨⟨1, 2, 3⟩, 2, none⟩ = .ok ⟨⟨2, 18, 24⟩, 10, none⟩ := by
  decide +kernel
-- extrusion_law: the hypotheses on sqrt are met with a positive root; a mirror flips the extrusion to -Z
example : transformExtrusion sqrt100 Ocs.std mirrorX = .ok (⟨0, 0, -1⟩, true) := by decide +kernel
example : transformExtrusion sqrt100 Ocs.std rot5 = .ok (⟨0, 0, 1⟩, true) := by decide +kernel
-- arc_orientation_preserved: mirrored matrix, new OCS = OCS(0,0,-1): determinant of the planar map is +1
example : V3.smul 1 Ocs.negZ.uz = V3.cross (OcsT.ax ⟨mirrorX, Ocs.std, Ocs.negZ, true⟩) (OcsT.ay ⟨mirrorX, Ocs.std, Ocs.negZ, true⟩)
    ∧ OcsT.planeDet ⟨mirrorX, Ocs.std, Ocs.negZ, true⟩ = 1 := by decide +kernel
-- thickness laws: hypotheses satisfiable (|m(2·ẑ)| = 10 under rot5)
example : thicknessNoOcs sqrt100 rot5 (some 2) none = .ok (some 10, some ⟨0, 0, 1⟩) := by decide +kernel
example : thicknessNoOcs sqrt100 rot5 (some (-2)) none = .ok (some (-10), some ⟨0, 0, 1⟩) := by decide +kernel
-- nested references: two levels, the leaf point is mapped by a·b
example : Node.expand (.ref rot5 [.ref mirrorX [.point ⟨1, 0, 0⟩], .point ⟨0, 0, 0⟩]) = [⟨4, 4, 9⟩, ⟨7, 8, 9⟩] := by
  decide +kernel

-- insert_transform_law: every hypothesis is met by (1) a reference rotated by (3/5, 4/5) in a TILTED OCS under a MIRRORED
-- similarity of factor 5 (the new OCS is a right-handed orthonormal frame with z = Z/|Z|), where the law's conclusion gives a
-- negative y scale, and (2) a reference rotated by 90° under the NON-UNIFORM scaling (2, 3, 4): xscale 3, yscale 2, zscale 4
def newTilt : Ocs := ⟨true, ⟨-73/75, -14/75, -2/15, 0, -14/75, 23/75, 14/15, 0, -2/15, 14/15, -1/3, 0, 0, 0, 0, 1⟩⟩
def insA : Ins := ⟨⟨1, 2, 3⟩, 2, 1, 1, ⟨3 / 5, 4 / 5⟩⟩
def insB : Ins := ⟨⟨1, 2, 3⟩, 1, 1, 1, ⟨0, 1⟩⟩
def scale234 : M44 := ⟨2, 0, 0, 0, 0, 3, 0, 0, 0, 0, 4, 0, 0, 0, 0, 1⟩
def sqrtB : Rat → Rat := fun x => if x = 9 then 3 else if x = 4 then 2 else if x = 16 then 4 else 0
example : newTilt.Orthonormal ∧ newTilt.RightHanded ∧
    sqrt100 (magSq (insX tilt (M44.mul mirrorX rot5) insA)) = 5 ∧ magSq (insX tilt (M44.mul mirrorX rot5) insA) = 25 ∧
    sqrt100 (magSq (insY tilt (M44.mul mirrorX rot5) insA)) = 5 ∧ magSq (insY tilt (M44.mul mirrorX rot5) insA) = 25 ∧
    sqrt100 (magSq (insZ tilt (M44.mul mirrorX rot5))) = 5 ∧
    V3.dot (insX tilt (M44.mul mirrorX rot5) insA) (insY tilt (M44.mul mirrorX rot5) insA) = 0 ∧
    V3.dot (insX tilt (M44.mul mirrorX rot5) insA) (insZ tilt (M44.mul mirrorX rot5)) = 0 ∧
    V3.dot (insY tilt (M44.mul mirrorX rot5) insA) (insZ tilt (M44.mul mirrorX rot5)) = 0 ∧
    newTilt.uz = nrm (sqrt100 (magSq (insZ tilt (M44.mul mirrorX rot5)))) (insZ tilt (M44.mul mirrorX rot5)) ∧
    (∃ i', Ins.transform sqrt100 tilt newTilt (M44.mul mirrorX rot5) insA tol9 = .ok i' ∧ i'.sx = 10 ∧ i'.sy = -5 ∧ i'.sz = 5) := by
  refine ⟨by decide +kernel, by decide +kernel, by decide +kernel, by decide +kernel, by decide +kernel, by decide +kernel,
    by decide +kernel, by decide +kernel, by decide +kernel, by decide +kernel, by decide +kernel,
    ⟨⟨⟨112/75, 566/75, 278/15⟩, 10, -5, 5, ⟨5, 0⟩⟩, by decide +kernel, rfl, rfl, rfl⟩⟩
example : sqrtB (magSq (insX Ocs.std scale234 insB)) = 3 ∧ sqrtB (magSq (insY Ocs.std scale234 insB)) = 2 ∧
    sqrtB (magSq (insZ Ocs.std scale234)) = 4 ∧ magSq (insX Ocs.std scale234 insB) = 9 ∧ magSq (insY Ocs.std scale234 insB) = 4 ∧
    V3.dot (insX Ocs.std scale234 insB) (insY Ocs.std scale234 insB) = 0 ∧ V3.dot (insX Ocs.std scale234 insB) (insZ Ocs.std scale234) = 0 ∧
    V3.dot (insY Ocs.std scale234 insB) (insZ Ocs.std scale234) = 0 ∧
    Ocs.std.uz = nrm (sqrtB (magSq (insZ Ocs.std scale234))) (insZ Ocs.std scale234) ∧
    Ins.transform sqrtB Ocs.std Ocs.std scale234 insB tol9 = .ok ⟨⟨2, 6, 12⟩, 3, 2, 4, ⟨0, 3⟩⟩ := by
  decide +kernel
-- insert_error_iff / insert_error_exact: a 45° rotated reference under scale (2, 1, 1) is rejected (shear of its own axes)
example : Ins.transform (fun x => if x = 5 / 2 then 3 / 2 else 1) Ocs.std Ocs.std ⟨2, 0, 0, 0, 0, 1, 0, 0, 0, 0, 1, 0, 0, 0, 0, 1⟩
    ⟨⟨0, 0, 0⟩, 1, 1, 1, ⟨1, 1⟩⟩ tol9 = .error .insertTransformation := by decide +kernel

-- hatch laws: a TILTED old OCS, a non-uniform matrix with shear that maps the OCS plane onto the plane of `newTilt` while the
-- image of the old z-axis is NOT parallel to the new normal (the elevation leaks into x/y), elevation 5
def mHatch : M44 := ⟨-122/225, -496/225, 92/45, 0, -661/225, 577/225, 16/45, 0, 13/45, -91/45, -16/9, 0, 7, 8, 9, 1⟩
def oHatch : OcsT := ⟨mHatch, tilt, newTilt, false⟩
def hEx : Hatch := ⟨[.poly [⟨0, 0, 0⟩, ⟨4, 0, 0⟩, ⟨4, 3, 0⟩] true,
  .edges [.line ⟨1, 1⟩ ⟨2, 5⟩, .spline [⟨0, 0⟩, ⟨1, 2⟩, ⟨3, 1⟩, ⟨4, 4⟩] [⟨2, 2⟩] (some ⟨1, 2⟩) none, .ellipse ⟨2, 3⟩]], 5⟩
example : PlaneToPlane oHatch ∧ oHatch.new.Orthonormal ∧ (Hatch.transform sqrtEx oHatch hEx).isSome = true ∧
    applyDir mHatch tilt.uz ≠ V3.smul 4 newTilt.uz ∧
    -- the law on one point, spelled out: (4, 3) at elevation 5
    hatchPoint newTilt (oHatch.vertex ⟨0, 0, 5⟩).z (oHatch.vertex2d ⟨4, 3⟩ 5) = apply mHatch (hatchPoint tilt 5 ⟨4, 3⟩) := by
  decide +kernel
-- hatch_defined_iff: with a bulge the non-uniform case needs the conversion (model: none), the uniform case does not
example : Hatch.transform sqrtEx oHatch ⟨[.poly [⟨0, 0, 1⟩, ⟨4, 0, 0⟩] false], 0⟩ = none ∧
    (Hatch.transform sqrt100 ⟨rot5, Ocs.std, Ocs.std, true⟩ ⟨[.poly [⟨0, 0, 1⟩, ⟨4, 0, 0⟩] false], 2⟩).isSome = true := by
  decide +kernel
-- bulge_apex_law: hypotheses met by the mirrored similarity (new OCS = OCS(0,0,-1), r = 1 · k² with k² = 1)
example : PlaneSimilar ⟨mirrorX, Ocs.std, Ocs.negZ, true⟩ 1 ∧
    V3.smul 1 Ocs.negZ.uz = V3.cross (OcsT.ax ⟨mirrorX, Ocs.std, Ocs.negZ, true⟩) (OcsT.ay ⟨mirrorX, Ocs.std, Ocs.negZ, true⟩) := by
  decide +kernel

-- text laws: a TEXT rotated by (3/5, 4/5) under the factor-5 similarity: height 2 ↦ 10, width factor and oblique kept
example : PlaneSimilar ⟨rot5, Ocs.std, Ocs.std, true⟩ 25 ∧ PlaneToPlane ⟨rot5, Ocs.std, Ocs.std, true⟩ ∧
    V3.smul 25 Ocs.std.uz = V3.cross (OcsT.ax ⟨rot5, Ocs.std, Ocs.std, true⟩) (OcsT.ay ⟨rot5, Ocs.std, Ocs.std, true⟩) ∧
    sqrt100 25 * sqrt100 25 = 25 ∧
    Txt.transform sqrt100 ⟨rot5, Ocs.std, Ocs.std, true⟩ ⟨⟨1, 2, 3⟩, none, ⟨3 / 5, 4 / 5⟩, ⟨1, 0⟩, 2, 1, some 1⟩
      = .ok ⟨⟨2, 18, 24⟩, some ⟨2, 18, 24⟩, ⟨-7 / 5, 24 / 5⟩, ⟨1, 0⟩, 10, 1, some 5⟩ := by decide +kernel
-- text_law on the non-uniform branch (oblique recomputed): the hatch example frame, not uniform
example : (Txt.transform (fun _ => 1) oHatch ⟨⟨1, 2, 3⟩, some ⟨2, 2, 3⟩, ⟨1, 0⟩, ⟨1, 0⟩, 2, 1, none⟩).toOption.map
    (fun t' => newTilt.toWcs t'.insert) = some (apply mHatch (tilt.toWcs ⟨1, 2, 3⟩)) := by decide +kernel
-- mtext_law: non-uniform scaling (2, 3, 4) of an MTEXT along x with character height 2 and width 10
def sqrtM : Rat → Rat := fun x => if x = 4 then 2 else if x = 36 then 6 else if x = 1 then 1 else if x = 400 then 20 else 0
example : MTxt.transform sqrtM Ocs.std scale234 ⟨⟨1, 2, 3⟩, ⟨1, 0, 0⟩, ⟨0, 0, 1⟩, 2, some 10⟩
    = .ok ⟨⟨2, 6, 12⟩, ⟨2, 0, 0⟩, ⟨0, 0, 1⟩, 6, some 20⟩ := by decide +kernel

-- rytz_axes_law: the conjugate half-diameters (6/5, 4/5), (-8/5, 3/5) of the ellipse with semi-axes 2 and 1 (parameter
-- cos t = 3/5): all six square roots are rational, the construction returns the principal axes (2, 0), (0, 1), ratio 1/2
def sqrtR : Rat → Rat := fun x =>
  if x = 9 / 4 then 3 / 2 else if x = 1 then 1 else if x = 4 then 2 else if x = 81 / 25 then 9 / 5 else if x = 144 / 25 then 12 / 5 else 0
example : TransformKernels.rytzS sqrtR ⟨6 / 5, 4 / 5, 0⟩ ⟨-8 / 5, 3 / 5, 0⟩ = .ok (⟨2, 0, 0⟩, ⟨0, 1, 0⟩, 1 / 2) ∧
    TransformKernels.rytz_rad1 ⟨6 / 5, 4 / 5, 0⟩ ⟨-8 / 5, 3 / 5, 0⟩ = 9 / 4 ∧
    TransformKernels.rytz_rad2 ⟨6 / 5, 4 / 5, 0⟩ ⟨-8 / 5, 3 / 5, 0⟩ (3 / 2) = 1 ∧
    TransformKernels.rytz_rad3 ⟨6 / 5, 4 / 5, 0⟩ ⟨-8 / 5, 3 / 5, 0⟩ (3 / 2) 1 = 4 ∧
    TransformKernels.rytz_rad5 ⟨6 / 5, 4 / 5, 0⟩ ⟨-8 / 5, 3 / 5, 0⟩ (3 / 2) 1 2 1 = 81 / 25 := by decide +kernel

-- mline_law: the rotated, mirrored similarity of factor 5 multiplies the scale factor 3/2 by 5 (it stayed 3/2 before the fix)
example : IsSimilarity (M44.mul mirrorX rot5) 25 ∧
    MLine.transform sqrt100 (M44.mul mirrorX rot5) ⟨[⟨0, 0, 0⟩, ⟨4, 0, 0⟩], 3 / 2⟩ = ⟨[⟨7, 8, 9⟩, ⟨-5, -8, 9⟩], 15 / 2⟩ := by decide +kernel

-- rytz_axes_law_space: the conjugate half-diameters (9/4, 16/3), (-3, 4) of the ellipse with semi-axes 20/3 and 15/4, placed in
-- the tilted plane of `tilt`: the 3-D branch is taken, all eight square roots are rational, the principal axes come back
def sqrtS : Rat → Rat := fun x =>
  if x = 25 then 5 else if x = 15625 then 125 else if x = 1225 / 576 then 35 / 24 else if x = 15625 / 144 then 125 / 12
  else if x = 400 / 9 then 20 / 3 else if x = 225 / 16 then 15 / 4 else if x = 49 / 9 then 7 / 3 else if x = 49 / 16 then 7 / 4 else 0
example : ¬ Flat ⟨155/36, 59/18, -37/18⟩ ⟨5/3, -2/3, -14/3⟩ ∧
    TransformKernels.rytzS sqrtS ⟨155/36, 59/18, -37/18⟩ ⟨5/3, -2/3, -14/3⟩ = .ok (⟨40/9, 20/9, -40/9⟩, ⟨-5/4, -5/2, -5/2⟩, 9 / 16) := by decide +kernel

-- translate laws on a tilted OCS: TEXT at OCS (1, 2, 3) of `tilt`, offset (10, 20, 30)
example : tilt.toWcs (TransformKernels.translateText tilt.t tilt.m ⟨1, 2, 3⟩ ⟨0, 0, 3⟩ 10 20 30).1 = V3.add (tilt.toWcs ⟨1, 2, 3⟩) ⟨10, 20, 30⟩ ∧
    (TransformKernels.translateText tilt.t tilt.m ⟨1, 2, 3⟩ ⟨0, 0, 3⟩ 10 20 30).1 ≠ V3.add ⟨1, 2, 3⟩ (tilt.toWcs ⟨10, 20, 30⟩) := by decide +kernel

-- matrix44_spec / matrix44_base_point_law: tilted OCS, rotation (3/5, 4/5), scale (2, 1, 1), base point (1, 1, 1)
example : tilt.Orthonormal ∧ tilt.RightHanded ∧
    TransformKernels.insertMatrixGen true tilt.m 2 1 1 ⟨1, 2, 3⟩ ⟨1, 1, 1⟩ (3 / 5) (4 / 5) 1 = .ok (insertMatrix tilt insA ⟨1, 1, 1⟩) ∧
    TransformKernels.insertMatrixGen_rad1 true tilt.m 2 1 1 ⟨1, 2, 3⟩ ⟨1, 1, 1⟩ (3 / 5) (4 / 5) = 1 := by decide +kernel

-- multi_insert_law / matrix44_spec_std / polymesh_law on concrete values
example : apply (insertMatrix tilt (insA.gridCell 2 1 4 5) ⟨1, 1, 1⟩) ⟨0, 0, 0⟩
      = V3.add (apply (insertMatrix tilt insA ⟨1, 1, 1⟩) ⟨0, 0, 0⟩) (V3.add (V3.smul 8 (insA.xAxis tilt)) (V3.smul 5 (insA.yAxis tilt))) ∧
    TransformKernels.insertMatrixGen false M44.identity 2 3 4 ⟨1, 2, 3⟩ ⟨1, 1, 1⟩ (3 / 5) (4 / 5) 1
      = .ok (insertMatrix Ocs.std ⟨⟨1, 2, 3⟩, 2, 3, 4, ⟨3 / 5, 4 / 5⟩⟩ ⟨1, 1, 1⟩) ∧
    meshTransform rot5 [⟨⟨1, 0, 0⟩, false⟩, ⟨⟨1, 2, 3⟩, true⟩] = [⟨⟨10, 12, 9⟩, false⟩, ⟨⟨1, 2, 3⟩, true⟩] := by decide +kernel

-- shape_law: mirrored SHAPE (xscale -2) under the factor-5 similarity: size 2 -> 10, xscale -2 -> -10
example : Shp.transform sqrt100 ⟨rot5, Ocs.std, Ocs.std, true⟩ ⟨⟨1, 2, 3⟩, ⟨1, 0⟩, 2, -2, none⟩ = ⟨⟨2, 18, 24⟩, ⟨3, 4⟩, 10, -10, none⟩ ∧
    sqrt100 (25 * (2 * 2)) = 10 := by decide +kernel

-- ellipse_shortcut_general: images (1, 0, 0) and (3, 4, 0) (not orthogonal): the rebuilt minor axis is the rejection (0, 4, 0)
-- rescaled to the length 5; roots ra = 1, rb = 5, rn = 4, r2 = 1
example : TransformKernels.minorAxis ⟨1, 0, 0⟩ (V3.smul (1 / 4) (V3.cross ⟨1, 0, 0⟩ ⟨3, 4, 0⟩)) (5 / 1) 1 1 = .ok ⟨0, 5, 0⟩ ∧
    TransformKernels.minorAxis_rad2 ⟨1, 0, 0⟩ (V3.smul (1 / 4) (V3.cross ⟨1, 0, 0⟩ ⟨3, 4, 0⟩)) (5 / 1) 1 = 1 * 1 ∧
    magSq (V3.cross ⟨1, 0, 0⟩ ⟨3, 4, 0⟩) = 4 * 4 := by decide +kernel

-- temp_transform_law: hypotheses met by a non-trivial history (rotation, mirror)
example : AllAffine [rot5, mirrorX] ∧ M44.IsAffine rot5 := by decide +kernel
-- ocs_compose: Ocs.negZ --rot5--> tilt --mirrorX--> Ocs.std
example : (OcsT.mk mirrorX tilt Ocs.std true).old = (OcsT.mk rot5 Ocs.negZ tilt true).new := rfl

end EzdxfVerif.Props.C12

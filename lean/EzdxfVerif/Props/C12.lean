/-
C12  Transforming an entity transforms exactly its geometry.

The theorems talk about `EzdxfVerif.Transform` (Model/Transform.lean): hand-written control flow of the per-entity
`transform()` methods over arithmetic kernels that are REGENERATED from /repo's current source on every run
(Gen/TransformKernels.lean).  Numbers are exact rationals; square roots enter through a parameter `sqrt` and every theorem
assumes `sqrt x * sqrt x = x` (and `0 < sqrt x` where a sign matters) only for the radicands that are evaluated; angles are
unit direction vectors.  Helper lemmas live in Lemmas/Transform.lean; every `theorem` below is a counted obligation.
The findings C12-F1 (uniform test ignored the angle), C12-F2/F3 (thickness sign / zero) and C12-Fa (rotated INSERT) are FIXED
in /repo (09cb6723e, abadd9f3f, 603b8b3fe); their former counterexample theorems are replaced by the full-strength statements
(`uniform_detected_iff`, `thickness_vector_law`, `insert_rotated_example`).  Reverting one of the fixes changes
Gen/TransformKernels.lean (or the correspondence) and re-opens these proofs.
-/
import EzdxfVerif.Lemmas.Transform

namespace EzdxfVerif.Props.C12
open EzdxfVerif.Rat3 EzdxfVerif.Transform EzdxfVerif.Gen

/-! ## 1. linear law for WCS entities -/

def lerp (a b : V3) (t : Rat) : V3 := V3.add a (V3.smul t (V3.sub b a))

/-- weighted sum Σ wᵢ·pᵢ (B-spline / NURBS curve points, mesh face points, ... are such sums with Σ wᵢ = 1) -/
def wsum : List (Rat × V3) → V3
  | [] => ⟨0, 0, 0⟩
  | (w, p) :: r => V3.add (V3.smul w p) (wsum r)

def wtotal : List (Rat × V3) → Rat
  | [] => 0
  | (w, _) :: r => w + wtotal r

private theorem wsum_dir (m : M44) (ws : List (Rat × V3)) :
    applyDir m (wsum ws) = wsum (ws.map fun wp => (wp.1, applyDir m wp.2)) := by
  induction ws with
  | nil => simp [wsum, applyDir, TransformKernels.mTransformDirection]
  | cons wp r ih =>
    obtain ⟨w, p⟩ := wp
    simp only [wsum, List.map_cons, applyDir_add, applyDir_smul, ih]

private theorem wsum_shift (m : M44) (ws : List (Rat × V3)) :
    wsum (ws.map fun wp => (wp.1, apply m wp.2))
      = V3.add (wsum (ws.map fun wp => (wp.1, applyDir m wp.2))) (V3.smul (wtotal ws) (M44.origin m)) := by
  induction ws with
  | nil => simp [wsum, wtotal, V3.add, V3.smul]
  | cons wp r ih =>
    obtain ⟨w, p⟩ := wp
    simp only [wsum, wtotal, List.map_cons, ih]
    simp only [apply, applyDir, TransformKernels.mTransform, TransformKernels.mTransformDirection, V3.add, V3.smul, M44.origin,
      V3.mk.injEq]
    refine ⟨?_, ?_, ?_⟩ <;> ring

/-- LINE, POINT, 3DFACE, MESH, SPLINE control / fit points, XLINE/RAY start, LEADER, 3-D POLYLINE: the stored points are
    mapped by `m` one by one ... -/
theorem linear_law (m : M44) (ps : List V3) :
    transformPoints m ps = ps.map (apply m) ∧ (transformPoints m ps).length = ps.length := by
  simp [transformPoints]

/-- ... and therefore every point of the geometry they span is mapped by `m`: any affine combination (weights summing to
    1: points of a segment, of a face, of a B-spline or NURBS curve after normalisation of its weights) of the new points is
    `m` applied to the same combination of the old points.  Holds for EVERY matrix (the 4th column is ignored by the code). -/
theorem affine_combination_law (m : M44) (ws : List (Rat × V3)) (h : wtotal ws = 1) :
    apply m (wsum ws) = wsum (ws.map fun wp => (wp.1, apply m wp.2)) := by
  rw [wsum_shift, h, ← wsum_dir]
  simp only [apply, applyDir, TransformKernels.mTransform, TransformKernels.mTransformDirection, V3.add, V3.smul, M44.origin,
    V3.mk.injEq]
  refine ⟨?_, ?_, ?_⟩ <;> ring

/-- LINE: whenever `Line.transform` succeeds, every point of the new segment is the image of the corresponding old point -/
theorem line_law (sqrt : Rat → Rat) (m : M44) (l l' : Line) (h : Line.transform sqrt m l = .ok l') (t : Rat) :
    lerp l'.start l'.stop t = apply m (lerp l.start l.stop t) := by
  unfold Line.transform at h
  split at h
  · cases h
  · cases h
    simp only [lerp, apply, TransformKernels.mTransform, V3.add, V3.smul, V3.sub, V3.mk.injEq]
    refine ⟨?_, ?_, ?_⟩ <;> ring

/-! ### thickness and extrusion of LINE / POINT (`transform_thickness_and_extrusion_without_ocs`) -/

private theorem sign_sq (t : Rat) : sign t * sign t = 1 := by
  unfold sign; split <;> norm_num

/-- the extruded side of a LINE / POINT is mapped correctly for EVERY thickness (positive, negative, zero) and every
    matrix: new thickness · new extrusion = m (thickness · extrusion), whenever the transformation succeeds.
    (Was false for thickness ≤ 0 before the fix abadd9f3f: findings C12-F2 / C12-F3.) -/
theorem thickness_vector_law (sqrt : Rat → Rat) (m : M44) (t : Rat) (n : Option V3) (t' : Option Rat) (n' : Option V3)
    (h : thicknessNoOcs sqrt m (some t) n = .ok (t', n')) :
    thicknessVector t' n' = applyDir m (thicknessVector (some t) n) := by
  simp only [thicknessNoOcs] at h
  split at h
  · rename_i h0
    subst h0
    have hz : applyDir m (thicknessVector (some 0) n) = ⟨0, 0, 0⟩ := by
      simp [thicknessVector, applyDir, TransformKernels.mTransformDirection, V3.smul]
    rw [hz]
    cases n with
    | none => cases h; simp [thicknessVector, V3.smul]
    | some e =>
      simp only at h
      split at h
      · cases h
      · cases h; simp [thicknessVector, V3.smul]
  · split at h
    · cases h
    · rename_i hr
      cases h
      simp only [thicknessVector, Option.getD_some]
      generalize applyDir m (V3.smul t (n.getD ⟨0, 0, 1⟩)) = v at *
      generalize sqrt (magSq v) = r at *
      have hs := sign_sq t
      obtain ⟨vx, vy, vz⟩ := v
      simp only [V3.smul, V3.mk.injEq]
      refine ⟨?_, ?_, ?_⟩
      · field_simp; linear_combination vx * hs
      · field_simp; linear_combination vy * hs
      · field_simp; linear_combination vz * hs

/-- an explicit thickness of 0 never makes the transformation fail on its own account: without an extrusion attribute the
    pair is returned unchanged (ZeroDivisionError before the fix: finding C12-F3) -/
theorem thickness_zero_ok (sqrt : Rat → Rat) (m : M44) :
    thicknessNoOcs sqrt m (some 0) none = .ok (some 0, none) := by
  simp [thicknessNoOcs]

/-! ## 2. OCS entities: vertices, directions, thickness -/

/-- `OCSTransform.transform_vertex / transform_direction`: the OCS point (direction) obtained by old OCS → WCS → m → new OCS
    denotes, in the new OCS, exactly `m` applied to the WCS position of the old point.  Hypothesis = what the code relies on:
    the axes of the NEW OCS are orthonormal (established by `OCS.__init__` for every extrusion, property C11 `ocs_axes`).
    No hypothesis on `m` or on the old OCS. -/
theorem ocs_vertex_law (o : OcsT) (h : o.new.Orthonormal) (p : V3) :
    o.new.toWcs (o.vertex p) = apply o.m (o.old.toWcs p) ∧
    o.new.toWcs (o.direction p) = applyDir o.m (o.old.toWcs p) := by
  rw [vertex_spec, direction_spec]
  exact ⟨toWcs_fromWcs _ h _, toWcs_fromWcs _ h _⟩

/-- the orthonormality of the new axes is needed: with a new "OCS" whose x-axis has length 2 the law fails -/
theorem ocs_vertex_law_needs_orthonormal :
    ∃ (o : OcsT) (p : V3), ¬ o.new.Orthonormal ∧ o.new.toWcs (o.vertex p) ≠ apply o.m (o.old.toWcs p) := by
  refine ⟨⟨M44.identity, Ocs.std, ⟨true, ⟨2, 0, 0, 0, 0, 1, 0, 0, 0, 0, 1, 0, 0, 0, 0, 1⟩⟩, true⟩, ⟨1, 0, 0⟩, ?_, ?_⟩ <;>
    decide +kernel

/-- 2-D variant used by HATCH edges (`transform_2d_vertex`): x and y of the transformed vertex; the dropped z is the new
    elevation, which `DXFPolygon.transform` / `LWPolyline.transform` take from a transformed vertex -/
theorem ocs_vertex2d_law (o : OcsT) (h : o.new.Orthonormal) (v : V2) (e : Rat) :
    o.new.toWcs ⟨(o.vertex2d v e).x, (o.vertex2d v e).y, (o.vertex ⟨v.x, v.y, e⟩).z⟩ = apply o.m (o.old.toWcs ⟨v.x, v.y, e⟩) := by
  rw [vertex2d_spec]
  exact (ocs_vertex_law o h _).1

/-- thickness of an OCS entity (`transform_thickness` keeps the z-component in the new OCS): if the image of the old
    extrusion direction is parallel to the new extrusion (true for every similarity, and whenever `m` keeps the extrusion
    direction perpendicular to the entity plane), new thickness · new extrusion = m (thickness · old extrusion),
    sign included (negative thickness, mirrored matrices) -/
theorem ocs_thickness_law (o : OcsT) (h : o.new.Orthonormal) (t lam : Rat)
    (hpar : applyDir o.m o.old.uz = V3.smul lam o.new.uz) :
    V3.smul (o.thickness t) o.new.uz = applyDir o.m (V3.smul t o.old.uz) := by
  obtain ⟨hxx, hyy, hzz, hxy, hxz, hyz⟩ := h
  have hto : o.old.toWcs ⟨0, 0, t⟩ = V3.smul t o.old.uz := by
    rw [toWcs_spec]; simp [V3.add, V3.smul]
  rw [thickness_spec, direction_spec, fromWcs_spec, hto, applyDir_smul, hpar]
  generalize o.new.uz = c at *
  obtain ⟨c1, c2, c3⟩ := c
  simp only [V3.dot, V3.smul, V3.mk.injEq] at *
  refine ⟨?_, ?_, ?_⟩
  · linear_combination t * lam * c1 * hzz
  · linear_combination t * lam * c2 * hzz
  · linear_combination t * lam * c3 * hzz

/-! ## 3. the new extrusion -/

/-- `transform_extrusion`: the new extrusion is the unit normal of the plane spanned by the images of the OCS x- and
    y-axis, oriented so that (image of x, image of y, new extrusion) is right-handed -/
theorem extrusion_law (sqrt : Rat → Rat) (old : Ocs) (m : M44) (n : V3) (u : Bool)
    (hs : sqrt (magSq (V3.cross (applyDir m old.ux) (applyDir m old.uy))) * sqrt (magSq (V3.cross (applyDir m old.ux) (applyDir m old.uy)))
            = magSq (V3.cross (applyDir m old.ux) (applyDir m old.uy)))
    (hpos : 0 ≤ sqrt (magSq (V3.cross (applyDir m old.ux) (applyDir m old.uy))))
    (h : transformExtrusion sqrt old m = .ok (n, u)) :
    V3.dot n (applyDir m old.ux) = 0 ∧ V3.dot n (applyDir m old.uy) = 0 ∧ V3.dot n n = 1 ∧
    0 < V3.triple n (applyDir m old.ux) (applyDir m old.uy) ∧
    V3.smul (sqrt (magSq (V3.cross (applyDir m old.ux) (applyDir m old.uy)))) n = V3.cross (applyDir m old.ux) (applyDir m old.uy) := by
  rw [extrusion_spec] at h
  simp only at h
  split at h
  · cases h
  · rename_i hr
    cases h
    generalize applyDir m old.ux = a at *
    generalize applyDir m old.uy = b at *
    generalize hr' : sqrt (magSq (V3.cross a b)) = r at *
    have hrpos : 0 < r := lt_of_le_of_ne hpos (Ne.symm hr)
    obtain ⟨a1, a2, a3⟩ := a; obtain ⟨b1, b2, b3⟩ := b
    simp only [magSq, V3.dot, V3.cross, V3.smul, V3.triple, V3.mk.injEq] at *
    refine ⟨?_, ?_, ?_, ?_, ?_, ?_, ?_⟩
    · field_simp; ring
    · field_simp; ring
    · field_simp; linarith
    · have : 1 / r * (a2 * b3 - a3 * b2) * (a2 * b3 - a3 * b2) + 1 / r * (a3 * b1 - a1 * b3) * (a3 * b1 - a1 * b3)
          + 1 / r * (a1 * b2 - a2 * b1) * (a1 * b2 - a2 * b1) = r := by
        field_simp; linarith
      linarith
    · field_simp
    · field_simp
    · field_simp

/-- ... and for a similarity (rotation, uniform scaling, reflection and their products) it is parallel to the linear part
    applied to the OLD extrusion, pointing the same way iff the matrix preserves orientation:
    k²·(m x̂ × m ŷ) = det(m)·m(ẑ) for the right-handed orthonormal old axes x̂, ŷ, ẑ -/
theorem extrusion_parallel_similarity (old : Ocs) (m : M44) (k2 : Rat) (hm : IsSimilarity m k2) (hr : old.RightHanded) :
    V3.smul k2 (V3.cross (applyDir m old.ux) (applyDir m old.uy)) = V3.smul (det3 m) (applyDir m old.uz) := by
  rw [cross_similarity m k2 hm, hr]

/-! ## 4. decision logic: uniform scaling test and NonUniformScalingError -/

/-- the `is_uniform` flag is exactly: equal squared lengths of the two image axes (math.isclose, abs_tol 1e-9) AND
    |m x̂ · m ŷ| ≤ 1e-9 · max(|m x̂|², |m ŷ|²) -/
theorem uniform_flag_spec (sqrt : Rat → Rat) (old : Ocs) (m : M44) (n : V3) (u : Bool)
    (h : transformExtrusion sqrt old m = .ok (n, u)) :
    u = uniformTest (applyDir m old.ux) (applyDir m old.uy) := by
  rw [extrusion_spec] at h
  simp only at h
  split at h
  · cases h
  · cases h; rfl

private theorem magSq_nonneg (v : V3) : 0 ≤ magSq v := by
  simp only [magSq, V3.dot]
  nlinarith [mul_self_nonneg v.x, mul_self_nonneg v.y, mul_self_nonneg v.z]

/-- completeness: a matrix that acts as a similarity on the entity plane (equal lengths, right angle kept) is accepted -/
theorem uniform_detected_of_similar (sqrt : Rat → Rat) (old : Ocs) (m : M44) (n : V3) (u : Bool)
    (h : transformExtrusion sqrt old m = .ok (n, u))
    (heq : magSq (applyDir m old.ux) = magSq (applyDir m old.uy))
    (hperp : V3.dot (applyDir m old.ux) (applyDir m old.uy) = 0) : u = true := by
  rw [uniform_flag_spec sqrt old m n u h]
  have h0 := magSq_nonneg (applyDir m old.uy)
  simp only [uniformTest, heq, hperp, lt_irrefl, if_false, Bool.and_eq_true, decide_eq_true_eq]
  refine ⟨by simp [pyIsclose], ?_⟩
  have : pyAbs 0 = 0 := by simp [pyAbs]
  rw [this]
  have : (0 : Rat) ≤ tol9 := by unfold tol9; norm_num
  positivity

/-- uniform_detected_iff (full strength; was false before the fix 09cb6723e, finding C12-F1): the flag is set exactly when
    the two image axes have (numerically) equal length AND stay (numerically) perpendicular — in particular a set flag
    bounds the cosine of the angle between them by 1e-9, so circles stay circles -/
theorem uniform_detected_iff (sqrt : Rat → Rat) (old : Ocs) (m : M44) (n : V3) (u : Bool)
    (h : transformExtrusion sqrt old m = .ok (n, u)) :
    u = true ↔
      (pyIsclose (magSq (applyDir m old.ux)) (magSq (applyDir m old.uy)) tol9 tol9 = true ∧
       pyAbs (V3.dot (applyDir m old.ux) (applyDir m old.uy)) ≤
         tol9 * (if magSq (applyDir m old.ux) < magSq (applyDir m old.uy) then magSq (applyDir m old.uy)
                 else magSq (applyDir m old.ux))) := by
  rw [uniform_flag_spec sqrt old m n u h]
  simp [uniformTest]

/-- regression fact: "rotate by 45° about z, then scale x by 2" (images (2,1,0), (-2,1,0): equal length, dot -3), which the
    unfixed code accepted as uniform, is rejected now -/
theorem uniform_rejects_shear :
    transformExtrusion (fun x => if x = 16 then 4 else 0) Ocs.std ⟨2, 1, 0, 0, -2, 1, 0, 0, 0, 0, 1, 0, 0, 0, 0, 1⟩
      = .ok (⟨0, 0, 1⟩, false) := by
  decide +kernel

/-- CIRCLE / ARC / LWPOLYLINE: the error is raised exactly when the flag is off (and, for polylines, a bulge exists); a
    transform that raises returns no entity at all (the model is a pure function: "the entity is left unchanged"), and a
    transform that succeeds never raises -/
theorem nonuniform_error_iff (sqrt : Rat → Rat) (o : OcsT) (c : Circle) (a : Arc) (p : LwPolyline) :
    (Circle.transform sqrt o c = .error .nonUniformScaling ↔ o.uniform = false) ∧
    (Arc.transform sqrt o a = .error .nonUniformScaling ↔ o.uniform = false) ∧
    (LwPolyline.transform sqrt o p = .error .nonUniformScaling ↔ (o.uniform = false ∧ p.hasArc = true)) ∧
    ((∃ c', Circle.transform sqrt o c = .ok c') ↔ o.uniform = true) := by
  refine ⟨?_, ?_, ?_, ?_⟩
  · cases hu : o.uniform <;> simp [Circle.transform, hu]
  · cases hu : o.uniform
    · simp [Arc.transform, Circle.transform, hu]
    · simp only [Arc.transform, Circle.transform, hu, if_true]
      repeat' split
      all_goals simp
  · cases hu : o.uniform <;> cases hp : p.hasArc <;> simp [LwPolyline.transform, hu, hp]
  · cases hu : o.uniform <;> simp [Circle.transform, hu]

/-! ## 5. circles and arcs under a similarity of the entity plane -/

/-- `m` acts on the plane of the old OCS as a similarity with squared factor k2 and maps it into the plane of the new OCS -/
def PlaneSimilar (o : OcsT) (k2 : Rat) : Prop :=
  magSq o.ax = k2 ∧ magSq o.ay = k2 ∧ V3.dot o.ax o.ay = 0 ∧ V3.dot o.ax o.new.uz = 0 ∧ V3.dot o.ay o.new.uz = 0
instance (o : OcsT) (k2 : Rat) : Decidable (PlaneSimilar o k2) := by unfold PlaneSimilar; infer_instance

/-- radius_scale + "circles stay circles": after `Circle.transform`, for EVERY unit direction d the image under `m` of the
    old circle point lies in the plane of the new circle at distance (new radius) from the new centre, and
    (new radius)² = k²·(old radius)².  (`sqrt` is only assumed correct on the one radicand the code evaluates.) -/
theorem radius_scale (sqrt : Rat → Rat) (o : OcsT) (k2 : Rat) (c c' : Circle) (d : V2)
    (hn : o.new.Orthonormal) (hp : PlaneSimilar o k2) (hd : d.x * d.x + d.y * d.y = 1)
    (hs : sqrt (magSq (applyDir o.m (o.old.toWcs ⟨c.radius, 0, 0⟩))) * sqrt (magSq (applyDir o.m (o.old.toWcs ⟨c.radius, 0, 0⟩)))
            = magSq (applyDir o.m (o.old.toWcs ⟨c.radius, 0, 0⟩)))
    (h : Circle.transform sqrt o c = .ok c') :
    c'.radius * c'.radius = k2 * (c.radius * c.radius) ∧
    magSq (V3.sub (apply o.m (Circle.point o.old c d)) (o.new.toWcs c'.center)) = c'.radius * c'.radius ∧
    V3.dot (V3.sub (apply o.m (Circle.point o.old c d)) (o.new.toWcs c'.center)) o.new.uz = 0 := by
  unfold Circle.transform at h
  split at h
  · cases h
    obtain ⟨hxx, hyy, hxy, hxz, hyz⟩ := hp
    have hrad : magSq (applyDir o.m (o.old.toWcs ⟨c.radius, 0, 0⟩)) = k2 * (c.radius * c.radius) := by
      rw [toWcs_spec]
      simp only [OcsT.ax] at hxx
      generalize o.old.ux = a at *
      simp only [magSq, V3.dot, V3.add, V3.smul, applyDir, TransformKernels.mTransformDirection] at *
      linear_combination (c.radius * c.radius) * hxx
    simp only [length_spec]
    rw [hs, hrad, (ocs_vertex_law o hn c.center).1, Circle.point, image_offset]
    refine ⟨rfl, ?_, ?_⟩
    · simp only [OcsT.ax, OcsT.ay] at hxx hyy hxy
      generalize applyDir o.m o.old.ux = a at *
      generalize applyDir o.m o.old.uy = b at *
      generalize apply o.m (o.old.toWcs c.center) = q
      simp only [magSq, V3.dot, V3.add, V3.sub, V3.smul] at *
      linear_combination (c.radius * c.radius * d.x * d.x) * hxx + (c.radius * c.radius * d.y * d.y) * hyy
        + (2 * c.radius * c.radius * d.x * d.y) * hxy + (k2 * c.radius * c.radius) * hd
    · simp only [OcsT.ax, OcsT.ay] at hxz hyz
      generalize applyDir o.m o.old.ux = a at *
      generalize applyDir o.m o.old.uy = b at *
      generalize apply o.m (o.old.toWcs c.center) = q
      generalize o.new.uz = n at *
      simp only [V3.dot, V3.add, V3.sub, V3.smul] at *
      linear_combination (c.radius * d.x) * hxz + (c.radius * d.y) * hyz
  · cases h

/-- the planar map old OCS → new OCS multiplies every oriented angle by its determinant: counter-clockwise stays
    counter-clockwise iff `planeDet > 0` -/
theorem plane_map_orientation (o : OcsT) (u v : V2) : cross2 (dir2 o u) (dir2 o v) = o.planeDet * cross2 u v := by
  simp only [dir2, cross2, OcsT.planeDet]
  rw [direction_plane o u.x u.y, direction_plane o v.x v.y]
  simp only [V3.add, V3.smul]
  ring

private theorem dir2_lin (o : OcsT) (u : V2) :
    dir2 o u = ⟨u.x * (o.direction ⟨1, 0, 0⟩).x + u.y * (o.direction ⟨0, 1, 0⟩).x,
                u.x * (o.direction ⟨1, 0, 0⟩).y + u.y * (o.direction ⟨0, 1, 0⟩).y⟩ := by
  simp only [dir2]
  rw [direction_plane o u.x u.y]
  simp [V3.add, V3.smul]

/-- under a similarity of the entity plane the planar map multiplies dot products by k² -/
private theorem dir2_dot (o : OcsT) (k2 : Rat) (hn : o.new.Orthonormal) (hp : PlaneSimilar o k2) (u v : V2) :
    dot2 (dir2 o u) (dir2 o v) = k2 * dot2 u v := by
  obtain ⟨hxx, hyy, hxy, hxz, hyz⟩ := hp
  have e11 := fromWcs_dot o.new hn o.ax o.ax
  have e22 := fromWcs_dot o.new hn o.ay o.ay
  have e12 := fromWcs_dot o.new hn o.ax o.ay
  rw [dir2_lin, dir2_lin, direction_e1, direction_e2]
  rw [fromWcs_spec] at *
  rw [fromWcs_spec] at *
  generalize o.ax = a at *; generalize o.ay = b at *
  generalize o.new.ux = x at *; generalize o.new.uy = y at *; generalize o.new.uz = z at *
  simp only [magSq] at hxx hyy
  generalize V3.dot a x = ax at *; generalize V3.dot a y = ay at *; generalize V3.dot a z = az at *
  generalize V3.dot b x = bx at *; generalize V3.dot b y = by' at *; generalize V3.dot b z = bz at *
  simp only [V3.dot] at e11 e22 e12
  subst hxz hyz
  simp only [dot2]
  linear_combination (u.x * v.x) * (e11.trans hxx) + (u.y * v.y) * (e22.trans hyy) + (u.x * v.y + u.y * v.x) * (e12.trans hxy)

private theorem planeDet_similar (o : OcsT) (k2 r : Rat) (hn : o.new.Orthonormal) (hrh : o.new.RightHanded)
    (hp : PlaneSimilar o k2) (hr : 0 < r) (hnr : V3.smul r o.new.uz = V3.cross o.ax o.ay) : o.planeDet = k2 ∧ 0 < k2 := by
  have hdet : o.planeDet = r := by
    rw [planeDet_spec, hrh, ← hnr]
    have hu := hn.2.2.1
    generalize o.new.uz = n at *
    simp only [V3.dot, V3.smul] at *
    linear_combination r * hu
  have h11 := dir2_dot o k2 hn hp ⟨1, 0⟩ ⟨1, 0⟩
  have h22 := dir2_dot o k2 hn hp ⟨0, 1⟩ ⟨0, 1⟩
  have h12 := dir2_dot o k2 hn hp ⟨1, 0⟩ ⟨0, 1⟩
  have hsq : o.planeDet * o.planeDet = k2 * k2 := by
    simp only [OcsT.planeDet, dir2, dot2] at *
    generalize o.direction ⟨1, 0, 0⟩ = p at *
    generalize o.direction ⟨0, 1, 0⟩ = q at *
    linear_combination (q.x * q.x + q.y * q.y) * h11 + k2 * h22 - (p.x * q.x + p.y * q.y) * h12
  have hk : 0 ≤ k2 := by
    have := hp.1
    simp only [magSq, V3.dot] at this
    rw [← this]
    nlinarith [mul_self_nonneg o.ax.x, mul_self_nonneg o.ax.y, mul_self_nonneg o.ax.z]
  rw [hdet] at hsq ⊢
  have : r = k2 := by nlinarith
  exact ⟨this, this ▸ hr⟩

private theorem spanKept_similar (o : OcsT) (k2 : Rat) (hdet : o.planeDet = k2) (hk : 0 < k2)
    (hdot : ∀ u v, dot2 (dir2 o u) (dir2 o v) = k2 * dot2 u v) (u v : V2) (hu : dot2 u u = 1) (hv : dot2 v v = 1) :
    spanKept u v (dir2 o u) (dir2 o v) = true := by
  have hc : cross2 (dir2 o u) (dir2 o v) = k2 * cross2 u v := by rw [plane_map_orientation, hdet]
  simp only [spanKept, decide_eq_true_eq, hc, hdot]
  have hl : cross2 u v * cross2 u v + dot2 u v * dot2 u v = 1 := by
    simp only [cross2, dot2] at *
    linear_combination (v.x * v.x + v.y * v.y) * hu + hv
  generalize cross2 u v = c at *
  generalize dot2 u v = d at *
  refine ⟨?_, ?_⟩
  · have h0 : c * (k2 * d) - k2 * c * d = 0 := by ring
    rw [h0]
    have : (k2 * c * (k2 * c) + k2 * d * (k2 * d)) = k2 * k2 * (c * c + d * d) := by ring
    rw [this, hl]
    have := mul_pos hk hk
    nlinarith
  · have : c * (k2 * c) + d * (k2 * d) = k2 := by linear_combination k2 * hl
    rw [this]; exact hk

/-- arc_reflection, part 1 (what the code does for `transform`): because the NEW extrusion is chosen as the normalised
    m x̂ × m ŷ (extrusion_law), the planar map old OCS → new OCS has POSITIVE determinant (= k²) for every similarity of the
    plane, mirrored ones included: the angle span of an ARC is kept, start and end direction are mapped in place and are
    NOT exchanged, and bulge values keep their sign (bulge_similarity).  Semicircles included. -/
theorem arc_orientation_preserved (sqrt : Rat → Rat) (o : OcsT) (k2 r : Rat) (a a' : Arc)
    (hn : o.new.Orthonormal) (hrh : o.new.RightHanded) (hp : PlaneSimilar o k2)
    (hr : 0 < r) (hnr : V3.smul r o.new.uz = V3.cross o.ax o.ay)
    (hs : dot2 a.s a.s = 1) (he : dot2 a.e a.e = 1)
    (h : Arc.transform sqrt o a = .ok a') :
    o.planeDet = k2 ∧ 0 < k2 ∧ (a.full = false → a'.s = dir2 o a.s ∧ a'.e = dir2 o a.e) ∧
    (a.full = true → a'.s = a.s ∧ a'.e = a.e) := by
  obtain ⟨hdet, hk⟩ := planeDet_similar o k2 r hn hrh hp hr hnr
  have hdot := dir2_dot o k2 hn hp
  refine ⟨hdet, hk, ?_, ?_⟩
  · intro hf
    unfold Arc.transform at h
    split at h
    · cases h
    · simp only [hf, Bool.false_eq_true, if_false] at h
      have hprobe : dot2 (⟨3 / 5 * a.s.x - 4 / 5 * a.s.y, 4 / 5 * a.s.x + 3 / 5 * a.s.y⟩ : V2)
          ⟨3 / 5 * a.s.x - 4 / 5 * a.s.y, 4 / 5 * a.s.x + 3 / 5 * a.s.y⟩ = 1 := by
        simp only [dot2] at *
        linear_combination hs
      have k1 := spanKept_similar o k2 hdet hk hdot a.s a.e hs he
      have k2' := spanKept_similar o k2 hdet hk hdot a.s _ hs hprobe
      split at h
      all_goals first
        | (cases h; exact ⟨rfl, rfl⟩)
        | (rw [if_pos k2'] at h; cases h; exact ⟨rfl, rfl⟩)
        | (rw [if_pos k1] at h; cases h; exact ⟨rfl, rfl⟩)
  · intro hf
    unfold Arc.transform at h
    split at h
    · cases h
    · simp only [hf, if_true] at h
      cases h
      exact ⟨rfl, rfl⟩

/-! ### bulges: an arc segment is given by its end points and its apex -/

/-- orientation preserving similarity of the plane: p ↦ (a·x - b·y + tx, b·x + a·y + ty) -/
def sim2 (a b tx ty : Rat) (p : V2) : V2 := ⟨a * p.x - b * p.y + tx, b * p.x + a * p.y + ty⟩
/-- orientation reversing similarity of the plane -/
def refl2 (a b tx ty : Rat) (p : V2) : V2 := ⟨a * p.x + b * p.y + tx, b * p.x - a * p.y + ty⟩

/-- a bulge value is invariant under orientation preserving similarities (what LWPOLYLINE / POLYLINE / HATCH polyline
    paths rely on when they copy the bulge) and changes sign under orientation reversing ones -/
theorem bulge_similarity (a b tx ty : Rat) (p1 p2 : V2) (β : Rat) :
    bulgeApex (sim2 a b tx ty p1) (sim2 a b tx ty p2) β = sim2 a b tx ty (bulgeApex p1 p2 β) ∧
    bulgeApex (refl2 a b tx ty p1) (refl2 a b tx ty p2) (-β) = refl2 a b tx ty (bulgeApex p1 p2 β) := by
  simp only [bulgeApex, sim2, refl2, V2.mk.injEq]
  refine ⟨⟨?_, ?_⟩, ⟨?_, ?_⟩⟩ <;> ring

/-- `LWPolyline.transform` keeps every bulge and maps every vertex by `transform_vertex` at the old elevation -/
theorem lwpolyline_vertices (sqrt : Rat → Rat) (o : OcsT) (p p' : LwPolyline) (h : LwPolyline.transform sqrt o p = .ok p') :
    p'.pts.map (fun v => v.bulge) = p.pts.map (fun v => v.bulge) ∧
    p'.pts.map (fun v => (v.x, v.y)) = p.pts.map (fun v => ((o.vertex ⟨v.x, v.y, p.elevation⟩).x, (o.vertex ⟨v.x, v.y, p.elevation⟩).y)) := by
  unfold LwPolyline.transform at h
  split at h
  · cases h
  · cases h
    simp only
    generalize p.pts = l
    constructor
    · induction l with
      | nil => rfl
      | cons v r ih => simpa [List.zipWith] using ih
    · induction l with
      | nil => rfl
      | cons v r ih => simpa [List.zipWith] using ih

/-! ## 6. INSERT -/

/-- `Insert.transform`: whenever it succeeds, the insertion point and the rotation direction obey the OCS laws: the new
    insert is `m` applied to the old one (WCS), the new rotation direction is the transformed old one -/
theorem insert_point_law (sqrt : Rat → Rat) (old new : Ocs) (m : M44) (i i' : Ins) (tol : Rat) (hn : new.Orthonormal)
    (h : Ins.transform sqrt old new m i tol = .ok i') :
    new.toWcs i'.insert = apply m (old.toWcs i.insert) ∧ i'.rot = dir2 ⟨m, old, new, true⟩ i.rot := by
  unfold Ins.transform at h
  split at h
  · cases h
  · cases h
  · cases h
    exact ⟨(ocs_vertex_law ⟨m, old, new, true⟩ hn i.insert).1, rfl⟩

/-- what an INSERT must satisfy to represent `m` applied to another INSERT: its three scaled axes are the images of the old
    scaled axes and its insertion point is the image of the old one.  Then the two block-reference matrices compose, for
    every block base point: matrix44(new) = matrix44(old) · m as point maps -/
theorem insert_matrix_law (old new : Ocs) (m : M44) (i i' : Ins) (base : V3)
    (hx : (insertMatrix new i' ⟨0, 0, 0⟩).ux = applyDir m (insertMatrix old i ⟨0, 0, 0⟩).ux)
    (hy : (insertMatrix new i' ⟨0, 0, 0⟩).uy = applyDir m (insertMatrix old i ⟨0, 0, 0⟩).uy)
    (hz : (insertMatrix new i' ⟨0, 0, 0⟩).uz = applyDir m (insertMatrix old i ⟨0, 0, 0⟩).uz)
    (hins : new.toWcs i'.insert = apply m (old.toWcs i.insert)) (p : V3) :
    apply (insertMatrix new i' base) p = apply m (apply (insertMatrix old i base) p) ∧
    M44.IsAffine (insertMatrix new i' base) := by
  refine ⟨?_, by simp [M44.IsAffine, insertMatrix]⟩
  simp only [insertMatrix, M44.ux, M44.uy, M44.uz] at *
  generalize new.toWcs i'.insert = q' at *
  generalize old.toWcs i.insert = q at *
  obtain ⟨q1, q2, q3⟩ := q; obtain ⟨q1', q2', q3'⟩ := q'
  generalize old.ux = a at *; generalize old.uy = b at *; generalize old.uz = c at *
  generalize new.ux = a' at *; generalize new.uy = b' at *; generalize new.uz = c' at *
  simp only [apply, applyDir, TransformKernels.mTransform,
    TransformKernels.mTransformDirection, V3.add, V3.sub, V3.smul, V3.mk.injEq] at *
  obtain ⟨hx1, hx2, hx3⟩ := hx; obtain ⟨hy1, hy2, hy3⟩ := hy; obtain ⟨hz1, hz2, hz3⟩ := hz
  obtain ⟨hi1, hi2, hi3⟩ := hins
  refine ⟨?_, ?_, ?_⟩
  · linear_combination (p.x - base.x) * hx1 + (p.y - base.y) * hy1 + (p.z - base.z) * hz1 + hi1
  · linear_combination (p.x - base.x) * hx2 + (p.y - base.y) * hy2 + (p.z - base.z) * hz2 + hi2
  · linear_combination (p.x - base.x) * hx3 + (p.y - base.y) * hy3 + (p.z - base.z) * hz3 + hi3

/-- a tilted orthonormal right-handed OCS: extrusion (-2/3, 2/3, -1/3) -/
def tilt : Ocs := ⟨true, ⟨1/3, 2/3, 2/3, 0, 2/3, 1/3, -2/3, 0, -2/3, 2/3, -1/3, 0, 0, 0, 0, 1⟩⟩
/-- rotation (3/5, 4/5) about z combined with scaling by 5 and a translation -/
def rot5 : M44 := ⟨3, 4, 0, 0, -4, 3, 0, 0, 0, 0, 5, 0, 7, 8, 9, 1⟩
def mirrorX : M44 := ⟨-1, 0, 0, 0, 0, 1, 0, 0, 0, 0, 1, 0, 0, 0, 0, 1⟩
/-- exact square roots on the squares that occur in the examples -/
def sqrt100 : Rat → Rat := fun x =>
  if x = 1 then 1 else if x = 4 then 2 else if x = 16 then 4 else if x = 25 then 5 else if x = 100 then 10 else if x = 625 then 25 else 0

/-- exact square roots for the two examples below -/
def sqrtEx : Rat → Rat := fun x => if x = 4 then 2 else if x = 1 then 1 else 0

/-- the law holds on the model (= regenerated kernel) for an UNROTATED reference under the non-uniform Matrix44.scale(2,1,1) -/
theorem insert_unrotated_example :
    ∃ i', Ins.transform sqrtEx Ocs.std Ocs.std ⟨2, 0, 0, 0, 0, 1, 0, 0, 0, 0, 1, 0, 0, 0, 0, 1⟩ ⟨⟨1, 2, 0⟩, 3, 1, 1, ⟨1, 0⟩⟩ tol9 = .ok i' ∧
      insertMatrix Ocs.std (i'.unitRot sqrtEx) ⟨0, 0, 0⟩
        = M44.mul (insertMatrix Ocs.std ⟨⟨1, 2, 0⟩, 3, 1, 1, ⟨1, 0⟩⟩ ⟨0, 0, 0⟩) ⟨2, 0, 0, 0, 0, 1, 0, 0, 0, 0, 1, 0, 0, 0, 0, 1⟩ := by
  refine ⟨⟨⟨2, 2, 0⟩, 6, 1, 1, ⟨2, 0⟩⟩, ?_, ?_⟩ <;> decide +kernel

/-- the former counterexample of finding C12-Fa / C15-F1 (fixed by 603b8b3fe): a reference rotated by 90° under
    Matrix44.scale(2, 1, 1).  The scale factors are now measured on the reference's own axes: the block x-axis points along
    WCS y (not stretched, xscale stays 1), the block y-axis along -x (yscale 2), and matrix44(new) = matrix44(old) · m;
    the block point (1, 0, 0) lands at (0, 1, 0) (it was (0, 2, 0)). -/
theorem insert_rotated_example :
    ∃ i', Ins.transform sqrtEx Ocs.std Ocs.std ⟨2, 0, 0, 0, 0, 1, 0, 0, 0, 0, 1, 0, 0, 0, 0, 1⟩ ⟨⟨0, 0, 0⟩, 1, 1, 1, ⟨0, 1⟩⟩ tol9 = .ok i' ∧
      i'.sx = 1 ∧ i'.sy = 2 ∧
      insertMatrix Ocs.std (i'.unitRot sqrtEx) ⟨0, 0, 0⟩
        = M44.mul (insertMatrix Ocs.std ⟨⟨0, 0, 0⟩, 1, 1, 1, ⟨0, 1⟩⟩ ⟨0, 0, 0⟩) ⟨2, 0, 0, 0, 0, 1, 0, 0, 0, 0, 1, 0, 0, 0, 0, 1⟩ ∧
      apply (insertMatrix Ocs.std (i'.unitRot sqrtEx) ⟨0, 0, 0⟩) ⟨1, 0, 0⟩ = ⟨0, 1, 0⟩ := by
  refine ⟨⟨⟨0, 0, 0⟩, 1, 2, 1, ⟨0, 1⟩⟩, ?_, rfl, rfl, ?_, ?_⟩ <;> decide +kernel

/-- a reference rotated by the Pythagorean angle (3/5, 4/5) with base point (1, 1, 1) under a MIRRORED similarity (factor 5):
    the y-scale becomes negative and the four images of the block frame agree, i.e. matrix44(new) = matrix44(old) · m -/
theorem insert_rotated_mirrored_example :
    ∃ i', Ins.transform sqrt100 Ocs.std Ocs.std (M44.mul mirrorX rot5) ⟨⟨1, 2, 3⟩, 2, 1, 1, ⟨3 / 5, 4 / 5⟩⟩ tol9 = .ok i' ∧
      i'.sy < 0 ∧
      [(⟨1, 0, 0⟩ : V3), ⟨0, 1, 0⟩, ⟨0, 0, 1⟩, ⟨0, 0, 0⟩].map (apply (insertMatrix Ocs.std (i'.unitRot sqrt100) ⟨1, 1, 1⟩))
        = [(⟨1, 0, 0⟩ : V3), ⟨0, 1, 0⟩, ⟨0, 0, 1⟩, ⟨0, 0, 0⟩].map
            (fun p => apply (M44.mul mirrorX rot5) (apply (insertMatrix Ocs.std ⟨⟨1, 2, 3⟩, 2, 1, 1, ⟨3 / 5, 4 / 5⟩⟩ ⟨1, 1, 1⟩) p)) := by
  refine ⟨⟨⟨-4, 10, 24⟩, 10, -5, 5, ⟨-5, 0⟩⟩, ?_, ?_, ?_⟩ <;> decide +kernel

/-! ## 7. nested block references, any depth -/

mutual
/-- every reference matrix in the tree is affine (true for `Insert.matrix44()`: last column (0, 0, 0, 1)) -/
def Node.Affine : Node → Prop
  | .point _ => True
  | .ref m content => M44.IsAffine m ∧ Node.AffineList content
def Node.AffineList : List Node → Prop
  | [] => True
  | n :: ns => Node.Affine n ∧ Node.AffineList ns
end

mutual
private theorem expand_flat (acc : M44) : (n : Node) → Node.Affine n → (Node.expand n).map (apply acc) = Node.flat acc n
  | .point p, _ => by simp [Node.expand, Node.flat]
  | .ref m content, h => by
    obtain ⟨hm, hc⟩ := h
    have ih := expandList_flat (M44.mul m acc) content hc
    simp only [Node.expand, Node.flat, List.map_map, ← ih]
    apply List.map_congr_left
    intro p _
    simp [apply_mul m acc hm]
private theorem expandList_flat (acc : M44) : (ns : List Node) → Node.AffineList ns →
    (Node.expandList ns).map (apply acc) = Node.flatList acc ns
  | [], _ => by simp [Node.expandList, Node.flatList]
  | n :: ns, h => by
    obtain ⟨h1, h2⟩ := h
    simp only [Node.expandList, Node.flatList, List.map_append]
    rw [expand_flat acc n h1, expandList_flat acc ns h2]
end

/-- nested_insert: expanding block references level by level (the content of a reference is expanded in block coordinates,
    then transformed by `Insert.matrix44()` — what `virtual_entities()` / `explode()` do) maps every leaf point by the
    PRODUCT of the reference matrices along its path, innermost first — for trees of any depth and any branching -/
theorem nested_insert (acc : M44) (n : Node) (h : Node.Affine n) :
    (Node.expand n).map (apply acc) = Node.flat acc n ∧ Node.expand n = Node.flat M44.identity n := by
  refine ⟨expand_flat acc n h, ?_⟩
  rw [← expand_flat M44.identity n h]
  conv_lhs => rw [← List.map_id (Node.expand n)]
  apply List.map_congr_left
  intro p _
  simp [apply, TransformKernels.mTransform, M44.identity]

/-- depth 2 spelled out: a point p in block A, referenced from block B with matrix a, referenced with matrix b -/
theorem nested_insert_depth2 (a b : M44) (ha : M44.IsAffine a) (p : V3) :
    Node.expand (.ref b [.ref a [.point p]]) = [apply (M44.mul a b) p] := by
  simp [Node.expand, Node.expandList, apply_mul a b ha]

/-! ## 8. upright(): OCS (0, 0, -1) → (0, 0, 1) never moves geometry -/

/-- CIRCLE / ARC: every point of the flipped entity in the +Z OCS is the point of the original in the -Z OCS at the mirrored
    angle; the thickness vector is unchanged -/
theorem upright_circle (c : Circle) (d : V2) (t : Rat) :
    Circle.point Ocs.std c.upright (flipDir d) = Circle.point Ocs.negZ c d ∧
    V3.smul (-t) Ocs.std.uz = V3.smul t Ocs.negZ.uz := by
  refine ⟨?_, ?_⟩
  · simp only [Circle.point, Circle.upright, flipVertex, flipDir, Ocs.toWcs, Ocs.std, Ocs.negZ, TransformKernels.ocsToWcs,
      if_true, Bool.false_eq_true, if_false, V3.mk.injEq]
    refine ⟨?_, ?_, ?_⟩ <;> ring
  · simp [Ocs.std, Ocs.negZ, Ocs.uz, M44.uz, V3.smul]

/-- arc_reflection, part 2 (what `upright` does): the flip reverses orientation in the OCS plane, so start and end are
    exchanged (and bulges negated): the new start is the mirrored old end, counter-clockwise order is kept -/
theorem upright_arc (a : Arc) :
    a.upright.s = flipDir a.e ∧ a.upright.e = flipDir a.s ∧ cross2 a.upright.s a.upright.e = cross2 a.s a.e ∧
    (∀ u v, cross2 (flipDir u) (flipDir v) = -cross2 u v) := by
  refine ⟨rfl, rfl, ?_, ?_⟩
  · simp only [Arc.upright, flipDir, cross2]; ring
  · intro u v; simp only [flipDir, cross2]; ring

theorem upright_solid (s : Solid) : s.upright.vtx.map Ocs.std.toWcs = s.vtx.map Ocs.negZ.toWcs := by
  simp only [Solid.upright, List.map_map]
  apply List.map_congr_left
  intro v _
  simp [flipVertex, Ocs.toWcs, Ocs.std, Ocs.negZ, TransformKernels.ocsToWcs]

/-- LWPOLYLINE: vertices and the apex of every bulge segment (bulge negated, end points mirrored) stay where they are -/
theorem upright_lwpolyline (p : LwPolyline) (v w : LwVertex) :
    Ocs.std.toWcs ⟨-v.x, v.y, p.upright.elevation⟩ = Ocs.negZ.toWcs ⟨v.x, v.y, p.elevation⟩ ∧
    (let q := bulgeApex ⟨-v.x, v.y⟩ ⟨-w.x, w.y⟩ (-v.bulge)
     let q0 := bulgeApex ⟨v.x, v.y⟩ ⟨w.x, w.y⟩ v.bulge
     Ocs.std.toWcs ⟨q.x, q.y, p.upright.elevation⟩ = Ocs.negZ.toWcs ⟨q0.x, q0.y, p.elevation⟩) ∧
    p.upright.pts.map (fun u => u.bulge) = p.pts.map (fun u => -u.bulge) := by
  refine ⟨?_, ?_, ?_⟩
  · simp [LwPolyline.upright, Ocs.toWcs, Ocs.std, Ocs.negZ, TransformKernels.ocsToWcs]
  · simp only [LwPolyline.upright, Ocs.toWcs, Ocs.std, Ocs.negZ, TransformKernels.ocsToWcs, bulgeApex, if_true, Bool.false_eq_true,
      if_false, V3.mk.injEq]
    refine ⟨?_, ?_, ?_⟩ <;> ring
  · simp [LwPolyline.upright, List.map_map, Function.comp_def]

/-- INSERT: the block-reference matrix is unchanged (rotation negated, x- and z-scale negated, insert mirrored) -/
theorem upright_insert (i : Ins) (base : V3) : insertMatrix Ocs.std i.upright base = insertMatrix Ocs.negZ i base := by
  simp only [insertMatrix, Ins.upright, flipVertex, Ocs.toWcs, Ocs.std, Ocs.negZ, Ocs.ux, Ocs.uy, Ocs.uz, M44.ux, M44.uy, M44.uz,
    TransformKernels.ocsToWcs, V3.add, V3.sub, V3.smul, if_true, Bool.false_eq_true, if_false, M44.mk.injEq]
  refine ⟨?_, ?_, ?_, ?_, ?_, ?_, ?_, ?_, ?_, ?_, ?_, ?_, ?_, ?_, ?_, ?_⟩ <;> first | trivial | ring

/-! ## non-vacuity: the hypotheses used above are met by non-trivial values -/


example : tilt.Orthonormal ∧ tilt.RightHanded ∧ Ocs.negZ.Orthonormal ∧ Ocs.negZ.RightHanded ∧ Ocs.std.Orthonormal := by
  decide +kernel
example : IsSimilarity rot5 25 ∧ det3 rot5 = 125 ∧ M44.IsAffine rot5 := by decide +kernel
example : PlaneSimilar ⟨rot5, Ocs.std, Ocs.std, true⟩ 25 := by decide +kernel
-- ocs_vertex_law on a tilted target frame: the OCS point really denotes m(p)
example : tilt.toWcs (OcsT.vertex ⟨rot5, Ocs.negZ, tilt, true⟩ ⟨1, 2, 3⟩) = apply rot5 (Ocs.negZ.toWcs ⟨1, 2, 3⟩) := by decide +kernel
-- radius_scale: radius 2 becomes 10 under the factor-5 similarity, centre (1, 2, 3) ↦ (2, 18, 24)
example : Circle.transform sqrt100 ⟨rot5, Ocs.std, Ocs.std, true⟩ ⟨⟨1, 2, 3⟩, 2, none⟩ = .ok ⟨⟨2, 18, 24⟩, 10, none⟩ := by
  decide +kernel
-- extrusion_law: the hypotheses on sqrt are met with a positive root; a mirror flips the extrusion to -Z
example : transformExtrusion sqrt100 Ocs.std mirrorX = .ok (⟨0, 0, -1⟩, true) := by decide +kernel
example : transformExtrusion sqrt100 Ocs.std rot5 = .ok (⟨0, 0, 1⟩, true) := by decide +kernel
-- arc_orientation_preserved: mirrored matrix, new OCS = OCS(0,0,-1): determinant of the planar map is +1
example : V3.smul 1 Ocs.negZ.uz = V3.cross (OcsT.ax ⟨mirrorX, Ocs.std, Ocs.negZ, true⟩) (OcsT.ay ⟨mirrorX, Ocs.std, Ocs.negZ, true⟩)
    ∧ OcsT.planeDet ⟨mirrorX, Ocs.std, Ocs.negZ, true⟩ = 1 := by decide +kernel
-- thickness laws: hypotheses satisfiable (|m(2·ẑ)| = 10 under rot5)
example : thicknessNoOcs sqrt100 rot5 (some 2) none = .ok (some 10, some ⟨0, 0, 1⟩) := by decide +kernel
example : thicknessNoOcs sqrt100 rot5 (some (-2)) none = .ok (some (-10), some ⟨0, 0, 1⟩) := by decide +kernel
-- nested references: two levels, the leaf point is mapped by a·b
example : Node.expand (.ref rot5 [.ref mirrorX [.point ⟨1, 0, 0⟩], .point ⟨0, 0, 0⟩]) = [⟨4, 4, 9⟩, ⟨7, 8, 9⟩] := by
  decide +kernel

end EzdxfVerif.Props.C12

/-
C10  Cython accelerated math equals the pure-Python implementation.

Both twins of every kernel below are REGENERATED from /repo's current source on every run by
harness/translate/py2lean.py: `…Py.f` from src/ezdxf/math/_*.py, `…Pyx.f` from src/ezdxf/acc/*.pyx.
`twin_f : Py.f = Pyx.f` states that the two implementations are the same function of their (rational)
arguments — including which Python exception is raised and on which inputs; sqrt / sin / cos values are shared
parameters.  What the theorems cannot see (argument coercion, result types, float rounding order, methods
outside the translated subset) is covered by the differential oracle of harness/props/c10.py.
Only property theorems and non-vacuity examples live here; every `theorem` is a counted obligation.
-/
import EzdxfVerif.Gen.VectorPy
import EzdxfVerif.Gen.VectorPyx
import EzdxfVerif.Gen.Matrix44Py
import EzdxfVerif.Gen.Matrix44Pyx
import EzdxfVerif.Gen.TwinsPy
import EzdxfVerif.Gen.TwinsPyx
import Mathlib.Tactic.Ring
import Mathlib.Tactic.Linarith
import Mathlib.Tactic.SplitIfs
import Mathlib.Tactic.NormNum

namespace EzdxfVerif.Props.C10
open EzdxfVerif.Rat3 EzdxfVerif.Gen

/-- closes `Py.f args = Pyx.f args` after unfolding: same decision structure, leaves equal up to `ring` -/
local macro "twin_close" : tactic => `(tactic|
  ((try split_ifs) <;> first
     | rfl
     | ring1
     | (congr 2 <;> ring1)
     | (congr 1 <;> ring1)
     | (exfalso; simp_all; done)
     | (simp only [Prod.mk.injEq, V3.ext_iff, V2.ext_iff]; (repeat' constructor) <;> ring1)
     | (simp_all; done)))

/-! ## 1. Vec3 / Vec2 (kernels shared with C11: Gen/Vector*.lean) -/

theorem twin_v3add : VectorPy.v3add = VectorPyx.v3add := rfl
theorem twin_v3sub : VectorPy.v3sub = VectorPyx.v3sub := rfl
theorem twin_v3rsub : VectorPy.v3rsub = VectorPyx.v3rsub := rfl
theorem twin_v3mul : VectorPy.v3mul = VectorPyx.v3mul := rfl
theorem twin_v3neg : VectorPy.v3neg = VectorPyx.v3neg := rfl
theorem twin_v3dot : VectorPy.v3dot = VectorPyx.v3dot := rfl
theorem twin_v3cross : VectorPy.v3cross = VectorPyx.v3cross := rfl
theorem twin_v3lerp : VectorPy.v3lerp = VectorPyx.v3lerp := rfl
theorem twin_v3magsq : VectorPy.v3magsq = VectorPyx.v3magsq := rfl
theorem twin_v3ortho : VectorPy.v3ortho = VectorPyx.v3ortho := rfl
theorem twin_v3eq : VectorPy.v3eq = VectorPyx.v3eq := rfl
theorem twin_v3lt : VectorPy.v3lt = VectorPyx.v3lt := rfl
theorem twin_v3isnull : VectorPy.v3isnull = VectorPyx.v3isnull := rfl
theorem twin_v3normalize : VectorPy.v3normalize = VectorPyx.v3normalize := rfl
theorem twin_v3normalize_rad1 : VectorPy.v3normalize_rad1 = VectorPyx.v3normalize_rad1 := rfl
theorem twin_v3project : VectorPy.v3project = VectorPyx.v3project := rfl
theorem twin_v3project_rad1 : VectorPy.v3project_rad1 = VectorPyx.v3project_rad1 := rfl
theorem twin_v3distance : VectorPy.v3distance = VectorPyx.v3distance := rfl
theorem twin_v3sum : VectorPy.v3sum = VectorPyx.v3sum := rfl
theorem twin_v2add : VectorPy.v2add = VectorPyx.v2add := rfl
theorem twin_v2sub : VectorPy.v2sub = VectorPyx.v2sub := rfl
theorem twin_v2mul : VectorPy.v2mul = VectorPyx.v2mul := rfl
theorem twin_v2neg : VectorPy.v2neg = VectorPyx.v2neg := rfl
theorem twin_v2dot : VectorPy.v2dot = VectorPyx.v2dot := rfl
theorem twin_v2det : VectorPy.v2det = VectorPyx.v2det := rfl
theorem twin_v2lerp : VectorPy.v2lerp = VectorPyx.v2lerp := rfl
theorem twin_v2ortho : VectorPy.v2ortho = VectorPyx.v2ortho := rfl
theorem twin_v2eq : VectorPy.v2eq = VectorPyx.v2eq := rfl
theorem twin_v2lt : VectorPy.v2lt = VectorPyx.v2lt := rfl
theorem twin_v2sum : VectorPy.v2sum = VectorPyx.v2sum := rfl

theorem twin_v3distance_rad1 : VectorPy.v3distance_rad1 = VectorPyx.v3distance_rad1 := by
  funext a b; simp only [VectorPy.v3distance_rad1, VectorPyx.v3distance_rad1]; ring

private theorem pyAbs_nonneg (a : Rat) : 0 ≤ pyAbs a := by
  unfold pyAbs; split_ifs <;> linarith

/-- the hand-written C `isclose` of vector.pyx is CPython's `math.isclose`, for every tolerance pair -/
private theorem isclose_bool (x y rel ab : Rat) :
    ((decide (pyAbs (y - x) ≤ pyAbs (rel * y)) || decide (pyAbs (y - x) ≤ pyAbs (rel * x)))
      || decide (pyAbs (y - x) ≤ ab)) = pyIsclose x y rel ab := by
  unfold pyIsclose
  by_cases h : x = y
  · subst h
    have h0 : pyAbs (x - x) ≤ pyAbs (rel * x) := by
      have : pyAbs (x - x) = 0 := by simp [pyAbs]
      rw [this]; exact pyAbs_nonneg _
    simp only [decide_true, Bool.true_or, h0, Bool.or_true]
  · simp [h]

private theorem isclose_prop (x y rel ab : Rat) :
    ((pyAbs (y - x) ≤ pyAbs (rel * y) ∨ pyAbs (y - x) ≤ pyAbs (rel * x)) ∨ pyAbs (y - x) ≤ ab)
      ↔ pyIsclose x y rel ab = true := by
  rw [← isclose_bool]
  simp only [Bool.or_eq_true, decide_eq_true_eq]

theorem twin_v3isclose : VectorPy.v3isclose = VectorPyx.v3isclose := by
  funext a b; simp only [VectorPy.v3isclose, VectorPyx.v3isclose, isclose_bool]

theorem twin_v2isclose : VectorPy.v2isclose = VectorPyx.v2isclose := by
  funext a b; simp only [VectorPy.v2isclose, VectorPyx.v2isclose, isclose_bool]

/-! ## 2. Matrix44 (Gen/Matrix44*.lean).  The NumPy forms of the Python twin (`__mul__`, `transpose`, `determinant`,
    `inverse`) have no translation; they are the textbook algebra of Model/Rat3.lean by assumption, and the Cython
    formulas are proved equal to that algebra. -/

theorem twin_scale : Matrix44Py.scale = Matrix44Pyx.scale := rfl
theorem twin_scaleUniform : Matrix44Py.scaleUniform = Matrix44Pyx.scaleUniform := rfl
theorem twin_translate : Matrix44Py.translate = Matrix44Pyx.translate := rfl
theorem twin_xRotate : Matrix44Py.xRotate = Matrix44Pyx.xRotate := rfl
theorem twin_yRotate : Matrix44Py.yRotate = Matrix44Pyx.yRotate := rfl
theorem twin_zRotate : Matrix44Py.zRotate = Matrix44Pyx.zRotate := rfl
theorem twin_axisRotate : Matrix44Py.axisRotate = Matrix44Pyx.axisRotate := rfl
theorem twin_axisRotate_rad1 : Matrix44Py.axisRotate_rad1 = Matrix44Pyx.axisRotate_rad1 := rfl
theorem twin_xyzRotate : Matrix44Py.xyzRotate = Matrix44Pyx.xyzRotate := rfl
theorem twin_shearXY : Matrix44Py.shearXY = Matrix44Pyx.shearXY := rfl
theorem twin_ucs : Matrix44Py.ucs = Matrix44Pyx.ucs := rfl
theorem twin_transform : Matrix44Py.transform = Matrix44Pyx.transform := rfl
theorem twin_transformDirection : Matrix44Py.transformDirection = Matrix44Pyx.transformDirection := rfl
theorem twin_transformDirectionN : Matrix44Py.transformDirectionN = Matrix44Pyx.transformDirectionN := rfl
theorem twin_transformDirectionN_rad1 : Matrix44Py.transformDirectionN_rad1 = Matrix44Pyx.transformDirectionN_rad1 := rfl
theorem twin_transformVertices : Matrix44Py.transformVertices = Matrix44Pyx.transformVertices := rfl
theorem twin_transformDirections : Matrix44Py.transformDirections = Matrix44Pyx.transformDirections := rfl
theorem twin_fast2d : Matrix44Py.fast2d = Matrix44Pyx.fast2d := rfl
theorem twin_ucsVertexFromWcs : Matrix44Py.ucsVertexFromWcs = Matrix44Pyx.ucsVertexFromWcs := rfl
theorem twin_ucsDirectionFromWcs : Matrix44Py.ucsDirectionFromWcs = Matrix44Pyx.ucsDirectionFromWcs := rfl
theorem twin_origin : Matrix44Py.origin = Matrix44Pyx.origin := rfl
theorem twin_ux : Matrix44Py.ux = Matrix44Pyx.ux := rfl
theorem twin_uy : Matrix44Py.uy = Matrix44Pyx.uy := rfl
theorem twin_uz : Matrix44Py.uz = Matrix44Pyx.uz := rfl
theorem twin_copy : Matrix44Py.copy = Matrix44Pyx.copy := rfl
theorem twin_from2d : Matrix44Py.from2d = Matrix44Pyx.from2d := rfl

theorem twin_mul_textbook (a b : M44) :
    Matrix44Pyx.mul a b = M44.mul a b ∧ Matrix44Pyx.imul a b = M44.mul a b ∧ Matrix44Pyx.matmul a b = M44.mul a b
    ∧ Matrix44Pyx.imulSelf a = M44.mul a a ∧ Matrix44Pyx.transpose a = M44.transpose a
    ∧ Matrix44Pyx.chain = M44.chain := ⟨rfl, rfl, rfl, rfl, rfl, rfl⟩

theorem twin_determinant_textbook (m : M44) : Matrix44Pyx.determinant m = M44.det m := by
  simp only [Matrix44Pyx.determinant, M44.det, M44.det3]; ring

theorem twin_inverse_textbook (m : M44) : Matrix44Pyx.inverse m = M44.inv m := by
  unfold Matrix44Pyx.inverse M44.inv
  rw [twin_determinant_textbook]
  by_cases h : M44.det m = 0
  · simp [h]
  · simp only [if_neg h, M44.scale, M44.adj, M44.det3]
    congr 1
    simp only [M44.mk.injEq]
    refine ⟨?_, ?_, ?_, ?_, ?_, ?_, ?_, ?_, ?_, ?_, ?_, ?_, ?_, ?_, ?_, ?_⟩ <;> ring

/-! ## 3. Further vector kernels, Bezier4P / Bezier3P, construction helpers (Gen/Twins*.lean) -/

theorem twin_v3bool : TwinsPy.v3bool = TwinsPyx.v3bool := by
  first
  | rfl
  | (repeat (apply funext; intro)
     simp only [TwinsPy.v3bool, TwinsPyx.v3bool]
     twin_close)

theorem twin_v3truediv : TwinsPy.v3truediv = TwinsPyx.v3truediv := by
  first
  | rfl
  | (repeat (apply funext; intro)
     simp only [TwinsPy.v3truediv, TwinsPyx.v3truediv]
     twin_close)

theorem twin_v3rmul : TwinsPy.v3rmul = TwinsPyx.v3rmul := by
  first
  | rfl
  | (repeat (apply funext; intro)
     simp only [TwinsPy.v3rmul, TwinsPyx.v3rmul]
     twin_close)

theorem twin_v3radd : TwinsPy.v3radd = TwinsPyx.v3radd := by
  first
  | rfl
  | (repeat (apply funext; intro)
     simp only [TwinsPy.v3radd, TwinsPyx.v3radd]
     twin_close)

theorem twin_v3xy : TwinsPy.v3xy = TwinsPyx.v3xy := by
  first
  | rfl
  | (repeat (apply funext; intro)
     simp only [TwinsPy.v3xy, TwinsPyx.v3xy]
     twin_close)

theorem twin_v3vec2 : TwinsPy.v3vec2 = TwinsPyx.v3vec2 := by
  first
  | rfl
  | (repeat (apply funext; intro)
     simp only [TwinsPy.v3vec2, TwinsPyx.v3vec2]
     twin_close)

theorem twin_v3replaceX : TwinsPy.v3replaceX = TwinsPyx.v3replaceX := by
  first
  | rfl
  | (repeat (apply funext; intro)
     simp only [TwinsPy.v3replaceX, TwinsPyx.v3replaceX]
     twin_close)

theorem twin_v3fromAngle : TwinsPy.v3fromAngle = TwinsPyx.v3fromAngle := by
  first
  | rfl
  | (repeat (apply funext; intro)
     simp only [TwinsPy.v3fromAngle, TwinsPyx.v3fromAngle]
     twin_close)

theorem twin_v3magnitude_rad1 : TwinsPy.v3magnitude_rad1 = TwinsPyx.v3magnitude_rad1 := by
  first
  | rfl
  | (repeat (apply funext; intro)
     simp only [TwinsPy.v3magnitude_rad1, TwinsPyx.v3magnitude_rad1]
     twin_close)

theorem twin_v3magnitude : TwinsPy.v3magnitude = TwinsPyx.v3magnitude := by
  first
  | rfl
  | (repeat (apply funext; intro)
     simp only [TwinsPy.v3magnitude, TwinsPyx.v3magnitude]
     twin_close)

theorem twin_v3magnitudeXY_rad1 : TwinsPy.v3magnitudeXY_rad1 = TwinsPyx.v3magnitudeXY_rad1 := by
  first
  | rfl
  | (repeat (apply funext; intro)
     simp only [TwinsPy.v3magnitudeXY_rad1, TwinsPyx.v3magnitudeXY_rad1]
     twin_close)

theorem twin_v3magnitudeXY : TwinsPy.v3magnitudeXY = TwinsPyx.v3magnitudeXY := by
  first
  | rfl
  | (repeat (apply funext; intro)
     simp only [TwinsPy.v3magnitudeXY, TwinsPyx.v3magnitudeXY]
     twin_close)

theorem twin_v3isParallel_rad1 : TwinsPy.v3isParallel_rad1 = TwinsPyx.v3isParallel_rad1 := by
  first
  | rfl
  | (repeat (apply funext; intro)
     simp only [TwinsPy.v3isParallel_rad1, TwinsPyx.v3isParallel_rad1]
     twin_close)

theorem twin_v3isParallel_rad2 : TwinsPy.v3isParallel_rad2 = TwinsPyx.v3isParallel_rad2 := by
  first
  | rfl
  | (repeat (apply funext; intro)
     simp only [TwinsPy.v3isParallel_rad2, TwinsPyx.v3isParallel_rad2]
     twin_close)

theorem twin_modDistance_rad1 : TwinsPy.modDistance_rad1 = TwinsPyx.modDistance_rad1 := by
  first
  | rfl
  | (repeat (apply funext; intro)
     simp only [TwinsPy.modDistance_rad1, TwinsPyx.modDistance_rad1]
     twin_close)

theorem twin_modDistance : TwinsPy.modDistance = TwinsPyx.modDistance := by
  first
  | rfl
  | (repeat (apply funext; intro)
     simp only [TwinsPy.modDistance, TwinsPyx.modDistance]
     twin_close)

theorem twin_modLerp : TwinsPy.modLerp = TwinsPyx.modLerp := by
  first
  | rfl
  | (repeat (apply funext; intro)
     simp only [TwinsPy.modLerp, TwinsPyx.modLerp]
     twin_close)

theorem twin_v2isnull : TwinsPy.v2isnull = TwinsPyx.v2isnull := by
  first
  | rfl
  | (repeat (apply funext; intro)
     simp only [TwinsPy.v2isnull, TwinsPyx.v2isnull]
     twin_close)

theorem twin_v2truediv : TwinsPy.v2truediv = TwinsPyx.v2truediv := by
  first
  | rfl
  | (repeat (apply funext; intro)
     simp only [TwinsPy.v2truediv, TwinsPyx.v2truediv]
     twin_close)

theorem twin_v2rmul : TwinsPy.v2rmul = TwinsPyx.v2rmul := by
  first
  | rfl
  | (repeat (apply funext; intro)
     simp only [TwinsPy.v2rmul, TwinsPyx.v2rmul]
     twin_close)

theorem twin_v2normalize_rad1 : TwinsPy.v2normalize_rad1 = TwinsPyx.v2normalize_rad1 := by
  first
  | rfl
  | (repeat (apply funext; intro)
     simp only [TwinsPy.v2normalize_rad1, TwinsPyx.v2normalize_rad1]
     twin_close)

theorem twin_v2normalize : TwinsPy.v2normalize = TwinsPyx.v2normalize := by
  first
  | rfl
  | (repeat (apply funext; intro)
     simp only [TwinsPy.v2normalize, TwinsPyx.v2normalize]
     twin_close)

theorem twin_v2project_rad1 : TwinsPy.v2project_rad1 = TwinsPyx.v2project_rad1 := by
  first
  | rfl
  | (repeat (apply funext; intro)
     simp only [TwinsPy.v2project_rad1, TwinsPyx.v2project_rad1]
     twin_close)

theorem twin_v2project : TwinsPy.v2project = TwinsPyx.v2project := by
  first
  | rfl
  | (repeat (apply funext; intro)
     simp only [TwinsPy.v2project, TwinsPyx.v2project]
     twin_close)

theorem twin_v2distance_rad1 : TwinsPy.v2distance_rad1 = TwinsPyx.v2distance_rad1 := by
  first
  | rfl
  | (repeat (apply funext; intro)
     simp only [TwinsPy.v2distance_rad1, TwinsPyx.v2distance_rad1]
     twin_close)

theorem twin_v2distance : TwinsPy.v2distance = TwinsPyx.v2distance := by
  first
  | rfl
  | (repeat (apply funext; intro)
     simp only [TwinsPy.v2distance, TwinsPyx.v2distance]
     twin_close)

theorem twin_v2magnitude_rad1 : TwinsPy.v2magnitude_rad1 = TwinsPyx.v2magnitude_rad1 := by
  first
  | rfl
  | (repeat (apply funext; intro)
     simp only [TwinsPy.v2magnitude_rad1, TwinsPyx.v2magnitude_rad1]
     twin_close)

theorem twin_v2magnitude : TwinsPy.v2magnitude = TwinsPyx.v2magnitude := by
  first
  | rfl
  | (repeat (apply funext; intro)
     simp only [TwinsPy.v2magnitude, TwinsPyx.v2magnitude]
     twin_close)

theorem twin_v2vec3 : TwinsPy.v2vec3 = TwinsPyx.v2vec3 := by
  first
  | rfl
  | (repeat (apply funext; intro)
     simp only [TwinsPy.v2vec3, TwinsPyx.v2vec3]
     twin_close)

theorem twin_v2fromAngle : TwinsPy.v2fromAngle = TwinsPyx.v2fromAngle := by
  first
  | rfl
  | (repeat (apply funext; intro)
     simp only [TwinsPy.v2fromAngle, TwinsPyx.v2fromAngle]
     twin_close)

theorem twin_bez4Point : TwinsPy.bez4Point = TwinsPyx.bez4Point := by
  first
  | rfl
  | (repeat (apply funext; intro)
     simp only [TwinsPy.bez4Point, TwinsPyx.bez4Point]
     twin_close)

theorem twin_bez4Tangent : TwinsPy.bez4Tangent = TwinsPyx.bez4Tangent := by
  first
  | rfl
  | (repeat (apply funext; intro)
     simp only [TwinsPy.bez4Tangent, TwinsPyx.bez4Tangent]
     twin_close)

theorem twin_bez4ControlPoints : TwinsPy.bez4ControlPoints = TwinsPyx.bez4ControlPoints := by
  first
  | rfl
  | (repeat (apply funext; intro)
     simp only [TwinsPy.bez4ControlPoints, TwinsPyx.bez4ControlPoints]
     twin_close)

theorem twin_bez4Reverse : TwinsPy.bez4Reverse = TwinsPyx.bez4Reverse := by
  first
  | rfl
  | (repeat (apply funext; intro)
     simp only [TwinsPy.bez4Reverse, TwinsPyx.bez4Reverse]
     twin_close)

theorem twin_bez4Transform : TwinsPy.bez4Transform = TwinsPyx.bez4Transform := by
  first
  | rfl
  | (repeat (apply funext; intro)
     simp only [TwinsPy.bez4Transform, TwinsPyx.bez4Transform]
     twin_close)

theorem twin_bez4Approx4 : TwinsPy.bez4Approx4 = TwinsPyx.bez4Approx4 := by
  first
  | rfl
  | (repeat (apply funext; intro)
     simp only [TwinsPy.bez4Approx4, TwinsPyx.bez4Approx4]
     twin_close)

theorem twin_bez4Point2d : TwinsPy.bez4Point2d = TwinsPyx.bez4Point2d := by
  first
  | rfl
  | (repeat (apply funext; intro)
     simp only [TwinsPy.bez4Point2d, TwinsPyx.bez4Point2d]
     twin_close)

theorem twin_bez3Point : TwinsPy.bez3Point = TwinsPyx.bez3Point := by
  first
  | rfl
  | (repeat (apply funext; intro)
     simp only [TwinsPy.bez3Point, TwinsPyx.bez3Point]
     twin_close)

theorem twin_bez3Tangent : TwinsPy.bez3Tangent = TwinsPyx.bez3Tangent := by
  first
  | rfl
  | (repeat (apply funext; intro)
     simp only [TwinsPy.bez3Tangent, TwinsPyx.bez3Tangent]
     twin_close)

theorem twin_bez3ControlPoints : TwinsPy.bez3ControlPoints = TwinsPyx.bez3ControlPoints := by
  first
  | rfl
  | (repeat (apply funext; intro)
     simp only [TwinsPy.bez3ControlPoints, TwinsPyx.bez3ControlPoints]
     twin_close)

theorem twin_bez3Reverse : TwinsPy.bez3Reverse = TwinsPyx.bez3Reverse := by
  first
  | rfl
  | (repeat (apply funext; intro)
     simp only [TwinsPy.bez3Reverse, TwinsPyx.bez3Reverse]
     twin_close)

theorem twin_bez3Transform : TwinsPy.bez3Transform = TwinsPyx.bez3Transform := by
  first
  | rfl
  | (repeat (apply funext; intro)
     simp only [TwinsPy.bez3Transform, TwinsPyx.bez3Transform]
     twin_close)

theorem twin_bez3Approx4 : TwinsPy.bez3Approx4 = TwinsPyx.bez3Approx4 := by
  first
  | rfl
  | (repeat (apply funext; intro)
     simp only [TwinsPy.bez3Approx4, TwinsPyx.bez3Approx4]
     twin_close)

theorem twin_bez3Point2d : TwinsPy.bez3Point2d = TwinsPyx.bez3Point2d := by
  first
  | rfl
  | (repeat (apply funext; intro)
     simp only [TwinsPy.bez3Point2d, TwinsPyx.bez3Point2d]
     twin_close)

theorem twin_lineLine : TwinsPy.lineLine = TwinsPyx.lineLine := by
  first
  | rfl
  | (repeat (apply funext; intro)
     simp only [TwinsPy.lineLine, TwinsPyx.lineLine]
     twin_close)

theorem twin_rayRay_rad1 : TwinsPy.rayRay_rad1 = TwinsPyx.rayRay_rad1 := by
  first
  | rfl
  | (repeat (apply funext; intro)
     simp only [TwinsPy.rayRay_rad1, TwinsPyx.rayRay_rad1]
     twin_close)

theorem twin_rayRay_rad2 : TwinsPy.rayRay_rad2 = TwinsPyx.rayRay_rad2 := by
  first
  | rfl
  | (repeat (apply funext; intro)
     simp only [TwinsPy.rayRay_rad2, TwinsPyx.rayRay_rad2]
     twin_close)

theorem twin_v3isParallel : TwinsPy.v3isParallel = TwinsPyx.v3isParallel := by
  funext a b r1 r2
  simp only [TwinsPy.v3isParallel, TwinsPyx.v3isParallel, isclose_prop, isclose_bool]

theorem twin_clockwise3 : TwinsPy.clockwise3 = TwinsPyx.clockwise3 := by
  funext a b c
  simp only [TwinsPy.clockwise3, TwinsPyx.clockwise3, isclose_prop]

theorem twin_clockwise4 : TwinsPy.clockwise4 = TwinsPyx.clockwise4 := by
  funext a b c d
  simp only [TwinsPy.clockwise4, TwinsPyx.clockwise4, isclose_prop]

/-! ## 4. Kernels that were NOT twins before the fixes 7e56e0b90 (bool(Vec2)) and 54fb65f8e (intersection_ray_ray_3d) -/

/-- `bool(Vec2)`: both twins are `not is_null` (|x|, |y| ≤ 1e-12 counts as the null vector).  Before the fix the Cython twin
    tested `x != 0 or y != 0` and Vec2(1e-13, 0) was truthy only with the C extension. -/
theorem twin_v2bool : TwinsPy.v2bool = TwinsPyx.v2bool := by
  first
  | rfl
  | (funext a; simp only [TwinsPy.v2bool, TwinsPyx.v2bool])

example : TwinsPyx.v2bool ⟨1 / 10000000000000, 0⟩ = false ∧ TwinsPyx.v2bool ⟨1 / 100000000000, 0⟩ = true := by decide +kernel

/-- `intersection_ray_ray_3d`: same exceptions, same parallel verdict, same decision "the rays meet" (relative tolerance 1e-9,
    absolute tolerance abs_tol) and the same points.  Before the fix the Cython twin used abs_tol also as relative tolerance. -/
theorem twin_rayRay : TwinsPy.rayRay = TwinsPyx.rayRay := by
  funext a b c d tol r1 r2
  simp only [TwinsPy.rayRay, TwinsPyx.rayRay, isclose_prop]

theorem twin_rayRay_rad : TwinsPy.rayRay_rad1 = TwinsPyx.rayRay_rad1 ∧ TwinsPy.rayRay_rad2 = TwinsPyx.rayRay_rad2 := ⟨rfl, rfl⟩

/-- regression witness of the fixed defect: the two skew rays whose closest points are 5e-10 apart give ONE point in both twins now -/
example : TwinsPyx.rayRay ⟨1, 0, 0⟩ ⟨1, 1, 0⟩ ⟨1 + 1 / 2000000000, 0, 1⟩ ⟨1 + 1 / 2000000000, 0, 2⟩ (1 / 10000000000) 1 1
    = TwinsPy.rayRay ⟨1, 0, 0⟩ ⟨1, 1, 0⟩ ⟨1 + 1 / 2000000000, 0, 1⟩ ⟨1 + 1 / 2000000000, 0, 2⟩ (1 / 10000000000) 1 1 := by
  decide +kernel

end EzdxfVerif.Props.C10

/-
C10  Cython accelerated math equals the pure-Python implementation.

Both twins of every kernel below are REGENERATED from /repo's current source on every run by
harness/translate/py2lean.py: `…Py.f` from src/ezdxf/math/_*.py, `…Pyx.f` from src/ezdxf/acc/*.pyx.
`twin_f : Py.f = Pyx.f` states that the two implementations are the same function of their (rational)
arguments — including which Python exception is raised and on which inputs; sqrt / sin / cos values are shared
parameters.  What the theorems cannot see (argument coercion, result types, float rounding order, methods
outside the translated subset) is covered by the differential oracle of harness/props/c10.py.
Only property theorems and non-vacuity examples live here; every `theorem` is a counted obligation.
-/
import EzdxfVerif.Gen.VectorPy
import EzdxfVerif.Gen.VectorPyx
import EzdxfVerif.Gen.Matrix44Py
import EzdxfVerif.Gen.Matrix44Pyx
import EzdxfVerif.Gen.TwinsPy
import EzdxfVerif.Gen.TwinsPyx
import EzdxfVerif.Gen.TwinLoopsPy
import EzdxfVerif.Gen.TwinLoopsPyx
import EzdxfVerif.Lemmas.TwinLoops
import Mathlib.Tactic.Ring
import Mathlib.Tactic.Linarith
import Mathlib.Tactic.SplitIfs
import Mathlib.Tactic.NormNum
import Mathlib.Tactic.IntervalCases

namespace EzdxfVerif.Props.C10
open EzdxfVerif.Rat3 EzdxfVerif.Gen

/-- closes `Py.f args = Pyx.f args` after unfolding: same decision structure, leaves equal up to `ring` -/
local macro "twin_close" : tactic => `(tactic|
  ((try split_ifs) <;> first
     | rfl
     | ring1
     | (congr 2 <;> ring1)
     | (congr 1 <;> ring1)
     | (exfalso; simp_all; done)
     | (simp only [Prod.mk.injEq, V3.ext_iff, V2.ext_iff]; (repeat' constructor) <;> ring1)
     | (simp_all; done)))

/-! ## 1. Vec3 / Vec2 (kernels shared with C11: Gen/Vector*.lean) -/

theorem twin_v3add : VectorPy.v3add = VectorPyx.v3add := rfl
theorem twin_v3sub : VectorPy.v3sub = VectorPyx.v3sub := rfl
theorem twin_v3rsub : VectorPy.v3rsub = VectorPyx.v3rsub := rfl
theorem twin_v3mul : VectorPy.v3mul = VectorPyx.v3mul := rfl
theorem twin_v3neg : VectorPy.v3neg = VectorPyx.v3neg := rfl
theorem twin_v3dot : VectorPy.v3dot = VectorPyx.v3dot := rfl
theorem twin_v3cross : VectorPy.v3cross = VectorPyx.v3cross := rfl
theorem twin_v3lerp : VectorPy.v3lerp = VectorPyx.v3lerp := rfl
theorem twin_v3magsq : VectorPy.v3magsq = VectorPyx.v3magsq := rfl
theorem twin_v3ortho : VectorPy.v3ortho = VectorPyx.v3ortho := rfl
theorem twin_v3eq : VectorPy.v3eq = VectorPyx.v3eq := rfl
theorem twin_v3lt : VectorPy.v3lt = VectorPyx.v3lt := rfl
theorem twin_v3isnull : VectorPy.v3isnull = VectorPyx.v3isnull := rfl
theorem twin_v3normalize : VectorPy.v3normalize = VectorPyx.v3normalize := rfl
theorem twin_v3normalize_rad1 : VectorPy.v3normalize_rad1 = VectorPyx.v3normalize_rad1 := rfl
theorem twin_v3project : VectorPy.v3project = VectorPyx.v3project := rfl
theorem twin_v3project_rad1 : VectorPy.v3project_rad1 = VectorPyx.v3project_rad1 := rfl
theorem twin_v3distance : VectorPy.v3distance = VectorPyx.v3distance := rfl
theorem twin_v3sum : VectorPy.v3sum = VectorPyx.v3sum := rfl
theorem twin_v2add : VectorPy.v2add = VectorPyx.v2add := rfl
theorem twin_v2sub : VectorPy.v2sub = VectorPyx.v2sub := rfl
theorem twin_v2mul : VectorPy.v2mul = VectorPyx.v2mul := rfl
theorem twin_v2neg : VectorPy.v2neg = VectorPyx.v2neg := rfl
theorem twin_v2dot : VectorPy.v2dot = VectorPyx.v2dot := rfl
theorem twin_v2det : VectorPy.v2det = VectorPyx.v2det := rfl
theorem twin_v2lerp : VectorPy.v2lerp = VectorPyx.v2lerp := rfl
theorem twin_v2ortho : VectorPy.v2ortho = VectorPyx.v2ortho := rfl
theorem twin_v2eq : VectorPy.v2eq = VectorPyx.v2eq := rfl
theorem twin_v2lt : VectorPy.v2lt = VectorPyx.v2lt := rfl
theorem twin_v2sum : VectorPy.v2sum = VectorPyx.v2sum := rfl

theorem twin_v3distance_rad1 : VectorPy.v3distance_rad1 = VectorPyx.v3distance_rad1 := by
  funext a b; simp only [VectorPy.v3distance_rad1, VectorPyx.v3distance_rad1]; ring

private theorem pyAbs_nonneg (a : Rat) : 0 ≤ pyAbs a := by
  unfold pyAbs; split_ifs <;> linarith

/-- the hand-written C `isclose` of vector.pyx is CPython's `math.isclose`, for every tolerance pair -/
private theorem isclose_bool (x y rel ab : Rat) :
    ((decide (pyAbs (y - x) ≤ pyAbs (rel * y)) || decide (pyAbs (y - x) ≤ pyAbs (rel * x)))
      || decide (pyAbs (y - x) ≤ ab)) = pyIsclose x y rel ab := by
  unfold pyIsclose
  by_cases h : x = y
  · subst h
    have h0 : pyAbs (x - x) ≤ pyAbs (rel * x) := by
      have : pyAbs (x - x) = 0 := by simp [pyAbs]
      rw [this]; exact pyAbs_nonneg _
    simp only [decide_true, Bool.true_or, h0, Bool.or_true]
  · simp [h]

private theorem isclose_prop (x y rel ab : Rat) :
    ((pyAbs (y - x) ≤ pyAbs (rel * y) ∨ pyAbs (y - x) ≤ pyAbs (rel * x)) ∨ pyAbs (y - x) ≤ ab)
      ↔ pyIsclose x y rel ab = true := by
  rw [← isclose_bool]
  simp only [Bool.or_eq_true, decide_eq_true_eq]

theorem twin_v3isclose : VectorPy.v3isclose = VectorPyx.v3isclose := by
  funext a b; simp only [VectorPy.v3isclose, VectorPyx.v3isclose, isclose_bool]

theorem twin_v2isclose : VectorPy.v2isclose = VectorPyx.v2isclose := by
  funext a b; simp only [VectorPy.v2isclose, VectorPyx.v2isclose, isclose_bool]

/-! ## 2. Matrix44 (Gen/Matrix44*.lean).  The NumPy forms of the Python twin (`__mul__`, `transpose`, `determinant`,
    `inverse`) have no translation; they are the textbook algebra of Model/Rat3.lean by assumption, and the Cython
    formulas are proved equal to that algebra. -/

theorem twin_scale : Matrix44Py.scale = Matrix44Pyx.scale := rfl
theorem twin_scaleUniform : Matrix44Py.scaleUniform = Matrix44Pyx.scaleUniform := rfl
theorem twin_translate : Matrix44Py.translate = Matrix44Pyx.translate := rfl
theorem twin_xRotate : Matrix44Py.xRotate = Matrix44Pyx.xRotate := rfl
theorem twin_yRotate : Matrix44Py.yRotate = Matrix44Pyx.yRotate := rfl
theorem twin_zRotate : Matrix44Py.zRotate = Matrix44Pyx.zRotate := rfl
theorem twin_axisRotate : Matrix44Py.axisRotate = Matrix44Pyx.axisRotate := rfl
theorem twin_axisRotate_rad1 : Matrix44Py.axisRotate_rad1 = Matrix44Pyx.axisRotate_rad1 := rfl
theorem twin_xyzRotate : Matrix44Py.xyzRotate = Matrix44Pyx.xyzRotate := rfl
theorem twin_shearXY : Matrix44Py.shearXY = Matrix44Pyx.shearXY := rfl
theorem twin_ucs : Matrix44Py.ucs = Matrix44Pyx.ucs := rfl
theorem twin_transform : Matrix44Py.transform = Matrix44Pyx.transform := rfl
theorem twin_transformDirection : Matrix44Py.transformDirection = Matrix44Pyx.transformDirection := rfl
theorem twin_transformDirectionN : Matrix44Py.transformDirectionN = Matrix44Pyx.transformDirectionN := rfl
theorem twin_transformDirectionN_rad1 : Matrix44Py.transformDirectionN_rad1 = Matrix44Pyx.transformDirectionN_rad1 := rfl
theorem twin_transformVertices : Matrix44Py.transformVertices = Matrix44Pyx.transformVertices := rfl
theorem twin_transformDirections : Matrix44Py.transformDirections = Matrix44Pyx.transformDirections := rfl
theorem twin_fast2d : Matrix44Py.fast2d = Matrix44Pyx.fast2d := rfl
theorem twin_ucsVertexFromWcs : Matrix44Py.ucsVertexFromWcs = Matrix44Pyx.ucsVertexFromWcs := rfl
theorem twin_ucsDirectionFromWcs : Matrix44Py.ucsDirectionFromWcs = Matrix44Pyx.ucsDirectionFromWcs := rfl
theorem twin_origin : Matrix44Py.origin = Matrix44Pyx.origin := rfl
theorem twin_ux : Matrix44Py.ux = Matrix44Pyx.ux := rfl
theorem twin_uy : Matrix44Py.uy = Matrix44Pyx.uy := rfl
theorem twin_uz : Matrix44Py.uz = Matrix44Pyx.uz := rfl
theorem twin_copy : Matrix44Py.copy = Matrix44Pyx.copy := rfl
theorem twin_from2d : Matrix44Py.from2d = Matrix44Pyx.from2d := rfl

theorem twin_mul_textbook (a b : M44) :
    Matrix44Pyx.mul a b = M44.mul a b ∧ Matrix44Pyx.imul a b = M44.mul a b ∧ Matrix44Pyx.matmul a b = M44.mul a b
    ∧ Matrix44Pyx.imulSelf a = M44.mul a a ∧ Matrix44Pyx.transpose a = M44.transpose a
    ∧ Matrix44Pyx.chain = M44.chain := ⟨rfl, rfl, rfl, rfl, rfl, rfl⟩

theorem twin_determinant_textbook (m : M44) : Matrix44Pyx.determinant m = M44.det m := by
  simp only [Matrix44Pyx.determinant, M44.det, M44.det3]; ring

theorem twin_inverse_textbook (m : M44) : Matrix44Pyx.inverse m = M44.inv m := by
  unfold Matrix44Pyx.inverse M44.inv
  rw [twin_determinant_textbook]
  by_cases h : M44.det m = 0
  · simp [h]
  · simp only [if_neg h, M44.scale, M44.adj, M44.det3]
    congr 1
    simp only [M44.mk.injEq]
    refine ⟨?_, ?_, ?_, ?_, ?_, ?_, ?_, ?_, ?_, ?_, ?_, ?_, ?_, ?_, ?_, ?_⟩ <;> ring

/-! ## 3. Further vector kernels, Bezier4P / Bezier3P, construction helpers (Gen/Twins*.lean) -/

theorem twin_v3bool : TwinsPy.v3bool = TwinsPyx.v3bool := by
  first
  | rfl
  | (repeat (apply funext; intro)
     simp only [TwinsPy.v3bool, TwinsPyx.v3bool]
     twin_close)

theorem twin_v3truediv : TwinsPy.v3truediv = TwinsPyx.v3truediv := by
  first
  | rfl
  | (repeat (apply funext; intro)
     simp only [TwinsPy.v3truediv, TwinsPyx.v3truediv]
     twin_close)

theorem twin_v3rmul : TwinsPy.v3rmul = TwinsPyx.v3rmul := by
  first
  | rfl
  | (repeat (apply funext; intro)
     simp only [TwinsPy.v3rmul, TwinsPyx.v3rmul]
     twin_close)

theorem twin_v3radd : TwinsPy.v3radd = TwinsPyx.v3radd := by
  first
  | rfl
  | (repeat (apply funext; intro)
     simp only [TwinsPy.v3radd, TwinsPyx.v3radd]
     twin_close)

theorem twin_v3xy : TwinsPy.v3xy = TwinsPyx.v3xy := by
  first
  | rfl
  | (repeat (apply funext; intro)
     simp only [TwinsPy.v3xy, TwinsPyx.v3xy]
     twin_close)

theorem twin_v3vec2 : TwinsPy.v3vec2 = TwinsPyx.v3vec2 := by
  first
  | rfl
  | (repeat (apply funext; intro)
     simp only [TwinsPy.v3vec2, TwinsPyx.v3vec2]
     twin_close)

theorem twin_v3replaceX : TwinsPy.v3replaceX = TwinsPyx.v3replaceX := by
  first
  | rfl
  | (repeat (apply funext; intro)
     simp only [TwinsPy.v3replaceX, TwinsPyx.v3replaceX]
     twin_close)

theorem twin_v3fromAngle : TwinsPy.v3fromAngle = TwinsPyx.v3fromAngle := by
  first
  | rfl
  | (repeat (apply funext; intro)
     simp only [TwinsPy.v3fromAngle, TwinsPyx.v3fromAngle]
     twin_close)

theorem twin_v3magnitude_rad1 : TwinsPy.v3magnitude_rad1 = TwinsPyx.v3magnitude_rad1 := by
  first
  | rfl
  | (repeat (apply funext; intro)
     simp only [TwinsPy.v3magnitude_rad1, TwinsPyx.v3magnitude_rad1]
     twin_close)

theorem twin_v3magnitude : TwinsPy.v3magnitude = TwinsPyx.v3magnitude := by
  first
  | rfl
  | (repeat (apply funext; intro)
     simp only [TwinsPy.v3magnitude, TwinsPyx.v3magnitude]
     twin_close)

theorem twin_v3magnitudeXY_rad1 : TwinsPy.v3magnitudeXY_rad1 = TwinsPyx.v3magnitudeXY_rad1 := by
  first
  | rfl
  | (repeat (apply funext; intro)
     simp only [TwinsPy.v3magnitudeXY_rad1, TwinsPyx.v3magnitudeXY_rad1]
     twin_close)

theorem twin_v3magnitudeXY : TwinsPy.v3magnitudeXY = TwinsPyx.v3magnitudeXY := by
  first
  | rfl
  | (repeat (apply funext; intro)
     simp only [TwinsPy.v3magnitudeXY, TwinsPyx.v3magnitudeXY]
     twin_close)

theorem twin_v3isParallel_rad1 : TwinsPy.v3isParallel_rad1 = TwinsPyx.v3isParallel_rad1 := by
  first
  | rfl
  | (repeat (apply funext; intro)
     simp only [TwinsPy.v3isParallel_rad1, TwinsPyx.v3isParallel_rad1]
     twin_close)

theorem twin_v3isParallel_rad2 : TwinsPy.v3isParallel_rad2 = TwinsPyx.v3isParallel_rad2 := by
  first
  | rfl
  | (repeat (apply funext; intro)
     simp only [TwinsPy.v3isParallel_rad2, TwinsPyx.v3isParallel_rad2]
     twin_close)

theorem twin_modDistance_rad1 : TwinsPy.modDistance_rad1 = TwinsPyx.modDistance_rad1 := by
  first
  | rfl
  | (repeat (apply funext; intro)
     simp only [TwinsPy.modDistance_rad1, TwinsPyx.modDistance_rad1]
     twin_close)

theorem twin_modDistance : TwinsPy.modDistance = TwinsPyx.modDistance := by
  first
  | rfl
  | (repeat (apply funext; intro)
     simp only [TwinsPy.modDistance, TwinsPyx.modDistance]
     twin_close)

theorem twin_modLerp : TwinsPy.modLerp = TwinsPyx.modLerp := by
  first
  | rfl
  | (repeat (apply funext; intro)
     simp only [TwinsPy.modLerp, TwinsPyx.modLerp]
     twin_close)

theorem twin_v2isnull : TwinsPy.v2isnull = TwinsPyx.v2isnull := by
  first
  | rfl
  | (repeat (apply funext; intro)
     simp only [TwinsPy.v2isnull, TwinsPyx.v2isnull]
     twin_close)

theorem twin_v2truediv : TwinsPy.v2truediv = TwinsPyx.v2truediv := by
  first
  | rfl
  | (repeat (apply funext; intro)
     simp only [TwinsPy.v2truediv, TwinsPyx.v2truediv]
     twin_close)

theorem twin_v2rmul : TwinsPy.v2rmul = TwinsPyx.v2rmul := by
  first
  | rfl
  | (repeat (apply funext; intro)
     simp only [TwinsPy.v2rmul, TwinsPyx.v2rmul]
     twin_close)

theorem twin_v2normalize_rad1 : TwinsPy.v2normalize_rad1 = TwinsPyx.v2normalize_rad1 := by
  first
  | rfl
  | (repeat (apply funext; intro)
     simp only [TwinsPy.v2normalize_rad1, TwinsPyx.v2normalize_rad1]
     twin_close)

theorem twin_v2normalize : TwinsPy.v2normalize = TwinsPyx.v2normalize := by
  first
  | rfl
  | (repeat (apply funext; intro)
     simp only [TwinsPy.v2normalize, TwinsPyx.v2normalize]
     twin_close)

theorem twin_v2project_rad1 : TwinsPy.v2project_rad1 = TwinsPyx.v2project_rad1 := by
  first
  | rfl
  | (repeat (apply funext; intro)
     simp only [TwinsPy.v2project_rad1, TwinsPyx.v2project_rad1]
     twin_close)

theorem twin_v2project : TwinsPy.v2project = TwinsPyx.v2project := by
  first
  | rfl
  | (repeat (apply funext; intro)
     simp only [TwinsPy.v2project, TwinsPyx.v2project]
     twin_close)

theorem twin_v2distance_rad1 : TwinsPy.v2distance_rad1 = TwinsPyx.v2distance_rad1 := by
  first
  | rfl
  | (repeat (apply funext; intro)
     simp only [TwinsPy.v2distance_rad1, TwinsPyx.v2distance_rad1]
     twin_close)

theorem twin_v2distance : TwinsPy.v2distance = TwinsPyx.v2distance := by
  first
  | rfl
  | (repeat (apply funext; intro)
     simp only [TwinsPy.v2distance, TwinsPyx.v2distance]
     twin_close)

theorem twin_v2magnitude_rad1 : TwinsPy.v2magnitude_rad1 = TwinsPyx.v2magnitude_rad1 := by
  first
  | rfl
  | (repeat (apply funext; intro)
     simp only [TwinsPy.v2magnitude_rad1, TwinsPyx.v2magnitude_rad1]
     twin_close)

theorem twin_v2magnitude : TwinsPy.v2magnitude = TwinsPyx.v2magnitude := by
  first
  | rfl
  | (repeat (apply funext; intro)
     simp only [TwinsPy.v2magnitude, TwinsPyx.v2magnitude]
     twin_close)

theorem twin_v2vec3 : TwinsPy.v2vec3 = TwinsPyx.v2vec3 := by
  first
  | rfl
  | (repeat (apply funext; intro)
     simp only [TwinsPy.v2vec3, TwinsPyx.v2vec3]
     twin_close)

theorem twin_v2fromAngle : TwinsPy.v2fromAngle = TwinsPyx.v2fromAngle := by
  first
  | rfl
  | (repeat (apply funext; intro)
     simp only [TwinsPy.v2fromAngle, TwinsPyx.v2fromAngle]
     twin_close)

theorem twin_bez4Point : TwinsPy.bez4Point = TwinsPyx.bez4Point := by
  first
  | rfl
  | (repeat (apply funext; intro)
     simp only [TwinsPy.bez4Point, TwinsPyx.bez4Point]
     twin_close)

theorem twin_bez4Tangent : TwinsPy.bez4Tangent = TwinsPyx.bez4Tangent := by
  first
  | rfl
  | (repeat (apply funext; intro)
     simp only [TwinsPy.bez4Tangent, TwinsPyx.bez4Tangent]
     twin_close)

theorem twin_bez4ControlPoints : TwinsPy.bez4ControlPoints = TwinsPyx.bez4ControlPoints := by
  first
  | rfl
  | (repeat (apply funext; intro)
     simp only [TwinsPy.bez4ControlPoints, TwinsPyx.bez4ControlPoints]
     twin_close)

theorem twin_bez4Reverse : TwinsPy.bez4Reverse = TwinsPyx.bez4Reverse := by
  first
  | rfl
  | (repeat (apply funext; intro)
     simp only [TwinsPy.bez4Reverse, TwinsPyx.bez4Reverse]
     twin_close)

theorem twin_bez4Transform : TwinsPy.bez4Transform = TwinsPyx.bez4Transform := by
  first
  | rfl
  | (repeat (apply funext; intro)
     simp only [TwinsPy.bez4Transform, TwinsPyx.bez4Transform]
     twin_close)

theorem twin_bez4Approx4 : TwinsPy.bez4Approx4 = TwinsPyx.bez4Approx4 := by
  first
  | rfl
  | (repeat (apply funext; intro)
     simp only [TwinsPy.bez4Approx4, TwinsPyx.bez4Approx4]
     twin_close)

theorem twin_bez4Point2d : TwinsPy.bez4Point2d = TwinsPyx.bez4Point2d := by
  first
  | rfl
  | (repeat (apply funext; intro)
     simp only [TwinsPy.bez4Point2d, TwinsPyx.bez4Point2d]
     twin_close)

theorem twin_bez3Point : TwinsPy.bez3Point = TwinsPyx.bez3Point := by
  first
  | rfl
  | (repeat (apply funext; intro)
     simp only [TwinsPy.bez3Point, TwinsPyx.bez3Point]
     twin_close)

theorem twin_bez3Tangent : TwinsPy.bez3Tangent = TwinsPyx.bez3Tangent := by
  first
  | rfl
  | (repeat (apply funext; intro)
     simp only [TwinsPy.bez3Tangent, TwinsPyx.bez3Tangent]
     twin_close)

theorem twin_bez3ControlPoints : TwinsPy.bez3ControlPoints = TwinsPyx.bez3ControlPoints := by
  first
  | rfl
  | (repeat (apply funext; intro)
     simp only [TwinsPy.bez3ControlPoints, TwinsPyx.bez3ControlPoints]
     twin_close)

theorem twin_bez3Reverse : TwinsPy.bez3Reverse = TwinsPyx.bez3Reverse := by
  first
  | rfl
  | (repeat (apply funext; intro)
     simp only [TwinsPy.bez3Reverse, TwinsPyx.bez3Reverse]
     twin_close)

theorem twin_bez3Transform : TwinsPy.bez3Transform = TwinsPyx.bez3Transform := by
  first
  | rfl
  | (repeat (apply funext; intro)
     simp only [TwinsPy.bez3Transform, TwinsPyx.bez3Transform]
     twin_close)

theorem twin_bez3Approx4 : TwinsPy.bez3Approx4 = TwinsPyx.bez3Approx4 := by
  first
  | rfl
  | (repeat (apply funext; intro)
     simp only [TwinsPy.bez3Approx4, TwinsPyx.bez3Approx4]
     twin_close)

theorem twin_bez3Point2d : TwinsPy.bez3Point2d = TwinsPyx.bez3Point2d := by
  first
  | rfl
  | (repeat (apply funext; intro)
     simp only [TwinsPy.bez3Point2d, TwinsPyx.bez3Point2d]
     twin_close)

theorem twin_lineLine : TwinsPy.lineLine = TwinsPyx.lineLine := by
  first
  | rfl
  | (repeat (apply funext; intro)
     simp only [TwinsPy.lineLine, TwinsPyx.lineLine]
     twin_close)

theorem twin_rayRay_rad1 : TwinsPy.rayRay_rad1 = TwinsPyx.rayRay_rad1 := by
  first
  | rfl
  | (repeat (apply funext; intro)
     simp only [TwinsPy.rayRay_rad1, TwinsPyx.rayRay_rad1]
     twin_close)

theorem twin_rayRay_rad2 : TwinsPy.rayRay_rad2 = TwinsPyx.rayRay_rad2 := by
  first
  | rfl
  | (repeat (apply funext; intro)
     simp only [TwinsPy.rayRay_rad2, TwinsPyx.rayRay_rad2]
     twin_close)

theorem twin_v3isParallel : TwinsPy.v3isParallel = TwinsPyx.v3isParallel := by
  funext a b r1 r2
  simp only [TwinsPy.v3isParallel, TwinsPyx.v3isParallel, isclose_prop, isclose_bool]

theorem twin_clockwise3 : TwinsPy.clockwise3 = TwinsPyx.clockwise3 := by
  funext a b c
  simp only [TwinsPy.clockwise3, TwinsPyx.clockwise3, isclose_prop]

theorem twin_clockwise4 : TwinsPy.clockwise4 = TwinsPyx.clockwise4 := by
  funext a b c d
  simp only [TwinsPy.clockwise4, TwinsPyx.clockwise4, isclose_prop]

/-! ## 4. Kernels that were NOT twins before the fixes 7e56e0b90 (bool(Vec2)) and 54fb65f8e (intersection_ray_ray_3d) -/

/-- `bool(Vec2)`: both twins are `not is_null` (|x|, |y| ≤ 1e-12 counts as the null vector).  Before the fix the Cython twin
    tested `x != 0 or y != 0` and Vec2(1e-13, 0) was truthy only with the C extension. -/
theorem twin_v2bool : TwinsPy.v2bool = TwinsPyx.v2bool := by
  first
  | rfl
  | (funext a; simp only [TwinsPy.v2bool, TwinsPyx.v2bool])

example : TwinsPyx.v2bool ⟨1 / 10000000000000, 0⟩ = false ∧ TwinsPyx.v2bool ⟨1 / 100000000000, 0⟩ = true := by decide +kernel

/-- `intersection_ray_ray_3d`: same exceptions, same parallel verdict, same decision "the rays meet" (relative tolerance 1e-9,
    absolute tolerance abs_tol) and the same points.  Before the fix the Cython twin used abs_tol also as relative tolerance. -/
theorem twin_rayRay : TwinsPy.rayRay = TwinsPyx.rayRay := by
  funext a b c d tol r1 r2
  simp only [TwinsPy.rayRay, TwinsPyx.rayRay, isclose_prop]

theorem twin_rayRay_rad : TwinsPy.rayRay_rad1 = TwinsPyx.rayRay_rad1 ∧ TwinsPy.rayRay_rad2 = TwinsPyx.rayRay_rad2 := ⟨rfl, rfl⟩

/-- regression witness of the fixed defect: the two skew rays whose closest points are 5e-10 apart give ONE point in both twins now -/
example : TwinsPyx.rayRay ⟨1, 0, 0⟩ ⟨1, 1, 0⟩ ⟨1 + 1 / 2000000000, 0, 1⟩ ⟨1 + 1 / 2000000000, 0, 2⟩ (1 / 10000000000) 1 1
    = TwinsPy.rayRay ⟨1, 0, 0⟩ ⟨1, 1, 0⟩ ⟨1 + 1 / 2000000000, 0, 1⟩ ⟨1 + 1 / 2000000000, 0, 2⟩ (1 / 10000000000) 1 1 := by
  decide +kernel

/-! ## 5. Loops (session 3): B-spline Basis / Evaluator, line type renderer, clockwise tests.
    Gen/TwinLoops{Py,Pyx}.lean hold (a) every loop body and loop test of both twins, cut out of the current source and
    translated by py2lean (harness/translate/py2lean_c10.py), and (b) the loop skeletons of Model/TwinLoops.lean
    instantiated with them.  5.1 proves the cuts equal kernel by kernel, 5.2 lifts that through the loops with the generic
    lemmas of Lemmas/TwinLoops.lean.  The skeleton text the model stands for is compared with the source on every run. -/

open EzdxfVerif TwinLoops

/-! ### 5.1 loop bodies and loop tests -/

theorem twin_fsSpecial : TwinLoopsPy.fsSpecial = TwinLoopsPyx.fsSpecial := by
  first | rfl | (funext u k; simp only [TwinLoopsPy.fsSpecial, TwinLoopsPyx.fsSpecial])
theorem twin_fsBack : TwinLoopsPy.fsBack = TwinLoopsPyx.fsBack := by
  first | rfl | (funext a b c d; simp only [TwinLoopsPy.fsBack, TwinLoopsPyx.fsBack])
theorem twin_fsUseBisect : TwinLoopsPy.fsUseBisect = TwinLoopsPyx.fsUseBisect := by
  first | rfl | (funext a; simp only [TwinLoopsPy.fsUseBisect, TwinLoopsPyx.fsUseBisect])
theorem twin_fsLinear : TwinLoopsPy.fsLinear = TwinLoopsPyx.fsLinear := by
  first | rfl | (funext a b c d; simp only [TwinLoopsPy.fsLinear, TwinLoopsPyx.fsLinear])
/-- the comparison of Lib/bisect.py `bisect_right` (key is None) and of the hand rolled `bisect_right` of bspline.pyx -/
theorem twin_bisectLess : TwinLoopsPy.bisectLess = TwinLoopsPyx.bisectLess := by
  first | rfl | (funext a b; simp only [TwinLoopsPy.bisectLess, TwinLoopsPyx.bisectLess])

/-- `max(0, span + 1 - j)` (Python) = `i1 = span + 1 - j; if i1 < 0: i1 = 0` (Cython) -/
theorem twin_bfIndex : TwinLoopsPy.bfIndex = TwinLoopsPyx.bfIndex := by
  funext span j
  simp only [TwinLoopsPy.bfIndex, TwinLoopsPyx.bfIndex]
  split_ifs <;> linarith
theorem twin_bfLeft : TwinLoopsPy.bfLeft = TwinLoopsPyx.bfLeft := by
  first | rfl | (funext a b; simp only [TwinLoopsPy.bfLeft, TwinLoopsPyx.bfLeft]; ring)
theorem twin_bfRight : TwinLoopsPy.bfRight = TwinLoopsPyx.bfRight := by
  first | rfl | (funext a b; simp only [TwinLoopsPy.bfRight, TwinLoopsPyx.bfRight]; ring)
/-- the body of the inner loop of A2.2, including the ZeroDivisionError of `N[r] / (right[r+1] + left[j-r])` -/
theorem twin_bfInner : TwinLoopsPy.bfInner = TwinLoopsPyx.bfInner := by
  first
  | rfl
  | (funext a b c d; simp only [TwinLoopsPy.bfInner, TwinLoopsPyx.bfInner]; twin_close)

theorem twin_swProduct : TwinLoopsPy.swProduct = TwinLoopsPyx.swProduct := by
  first | rfl | (funext a b; simp only [TwinLoopsPy.swProduct, TwinLoopsPyx.swProduct]; ring)
theorem twin_swQuot : TwinLoopsPy.swQuot = TwinLoopsPyx.swQuot := by
  first | rfl | (funext a b; simp only [TwinLoopsPy.swQuot, TwinLoopsPyx.swQuot]; twin_close)
/-- Python tests `s == 0.0` and returns zeros, Cython tests `s != 0` and returns the quotients: complementary tests -/
theorem twin_swTest (s : Rat) : TwinLoopsPy.swTest s = !TwinLoopsPyx.swTest s := by
  simp [TwinLoopsPy.swTest, TwinLoopsPyx.swTest]

/-- the snapping test of `Evaluator.point`: `math.isclose(u, max_t, abs_tol=ABS_TOL)` vs `isclose(u, max_t, REL_TOL, ABS_TOL)`.
    Before the fix (D13) the Python twin called `math.isclose(u, max_t)` (abs_tol 0): for |max_t| < 1e-3 the twins snapped different
    parameters and evaluated the curve at different places. -/
theorem twin_epSnap : TwinLoopsPy.epSnap = TwinLoopsPyx.epSnap := by
  funext u m; simp only [TwinLoopsPy.epSnap, TwinLoopsPyx.epSnap, isclose_bool]
theorem twin_edSnap : TwinLoopsPy.edSnap = TwinLoopsPyx.edSnap := by
  funext u m; simp only [TwinLoopsPy.edSnap, TwinLoopsPyx.edSnap, isclose_bool]

theorem twin_epAccum (s : V3) (n : Rat) (c : V3) : TwinLoopsPyx.epAccum s n c = VectorPy.v3add s (TwinLoopsPy.epTerm n c) := by
  first | rfl | (simp only [TwinLoopsPyx.epAccum, VectorPy.v3add, TwinLoopsPy.epTerm])

theorem twin_edWeight : TwinLoopsPy.edWeight = TwinLoopsPyx.edWeight := by
  first | rfl | (funext a b; simp only [TwinLoopsPy.edWeight, TwinLoopsPyx.edWeight]; ring)
theorem twin_edAccV : TwinLoopsPy.edAccV = TwinLoopsPyx.edAccV := by
  first | rfl | (funext a b c; simp only [TwinLoopsPy.edAccV, TwinLoopsPyx.edAccV]; twin_close)
theorem twin_edAccW : TwinLoopsPy.edAccW = TwinLoopsPyx.edAccW := by
  first | rfl | (funext a b; simp only [TwinLoopsPy.edAccW, TwinLoopsPyx.edAccW]; ring)
/-- `v -= binomial_coefficient(k, i) * wders[i] * CK[k - i]` vs `v3_sub(v, v3_mul(CK[k - j], binom * wders[j]))` -/
theorem twin_edSub : TwinLoopsPy.edSub = TwinLoopsPyx.edSub := by
  first | rfl | (funext a b c d; simp only [TwinLoopsPy.edSub, TwinLoopsPyx.edSub]; twin_close)
/-- `v / wders[0]` (Python: x / w) vs `Vec3.__truediv__` of vector.pyx (x * (1 / w)): equal over the rationals, same ZeroDivisionError -/
theorem twin_edDiv : TwinLoopsPy.edDiv = TwinLoopsPyx.edDiv := by
  funext a w
  simp only [TwinLoopsPy.edDiv, TwinLoopsPyx.edDiv]
  split_ifs
  · rfl
  · congr 1; simp only [V3.mk.injEq]; refine ⟨?_, ?_, ?_⟩ <;> ring
theorem twin_edAccum (s : V3) (d : Rat) (c : V3) : TwinLoopsPyx.edAccum s d c = VectorPy.v3add s (TwinLoopsPy.edTerm d c) := by
  first | rfl | (simp only [TwinLoopsPyx.edAccum, VectorPy.v3add, TwinLoopsPy.edTerm])

theorem twin_rdFits : TwinLoopsPy.rdFits = TwinLoopsPyx.rdFits := by
  first | rfl | (funext a b; simp only [TwinLoopsPy.rdFits, TwinLoopsPyx.rdFits])
theorem twin_rdRemain : TwinLoopsPy.rdRemain = TwinLoopsPyx.rdRemain := by
  first | rfl | (funext a b; simp only [TwinLoopsPy.rdRemain, TwinLoopsPyx.rdRemain]; ring)
/-- `current_dash_length < ABS_TOL` with ABS_TOL = 1e-12 in both twins (fix 95d8af343: the Python twin tested `== 0`) -/
theorem twin_rdCycleTest : TwinLoopsPy.rdCycleTest = TwinLoopsPyx.rdCycleTest := by
  first | rfl | (funext a; simp only [TwinLoopsPy.rdCycleTest, TwinLoopsPyx.rdCycleTest])
theorem twin_rdMore : TwinLoopsPy.rdMore = TwinLoopsPyx.rdMore := by
  first | rfl | (funext a b; simp only [TwinLoopsPy.rdMore, TwinLoopsPyx.rdMore])
theorem twin_rdLess : TwinLoopsPy.rdLess = TwinLoopsPyx.rdLess := by
  first | rfl | (funext a b; simp only [TwinLoopsPy.rdLess, TwinLoopsPyx.rdLess]; ring)
theorem twin_rdRest : TwinLoopsPy.rdRest = TwinLoopsPyx.rdRest := by
  first | rfl | (funext a; simp only [TwinLoopsPy.rdRest, TwinLoopsPyx.rdRest])

/-- `_start.isclose(_end)` (three `math.isclose`) vs `v3_isclose(start, end, REL_TOL, ABS_TOL)` -/
theorem twin_lsSame : TwinLoopsPy.lsSame = TwinLoopsPyx.lsSame := by
  funext a b; simp only [TwinLoopsPy.lsSame, TwinLoopsPyx.lsSame, isclose_bool]
theorem twin_lsLength : TwinLoopsPy.lsLength = TwinLoopsPyx.lsLength ∧ TwinLoopsPy.lsLength_rad1 = TwinLoopsPyx.lsLength_rad1 := by
  constructor
  · first | rfl | (funext a b r; simp only [TwinLoopsPy.lsLength, TwinLoopsPyx.lsLength])
  · first | rfl | (funext a b; simp only [TwinLoopsPy.lsLength_rad1, TwinLoopsPyx.lsLength_rad1]; ring)
/-- `segment_vec / segment_length` vs `v3_mul(segment_vec, 1.0 / segment_length)` -/
theorem twin_lsDir : TwinLoopsPy.lsDir = TwinLoopsPyx.lsDir := by
  funext a b r
  simp only [TwinLoopsPy.lsDir, TwinLoopsPyx.lsDir]
  split_ifs
  · rfl
  · congr 1; simp only [V3.mk.injEq]; refine ⟨?_, ?_, ?_⟩ <;> ring
theorem twin_lsStep : TwinLoopsPy.lsStep = TwinLoopsPyx.lsStep := by
  first | rfl | (funext a b c; simp only [TwinLoopsPy.lsStep, TwinLoopsPyx.lsStep]; twin_close)

theorem twin_cwClosed : TwinLoopsPy.cwClosed = TwinLoopsPyx.cwClosed := by
  funext a b; simp only [TwinLoopsPy.cwClosed, TwinLoopsPyx.cwClosed, isclose_bool]
theorem twin_cwAccum (s : Rat) (a b : V2) : TwinLoopsPyx.cwAccum s a b = s + TwinLoopsPy.cwTerm a b := by
  first | rfl | (simp only [TwinLoopsPyx.cwAccum, TwinLoopsPy.cwTerm])
theorem twin_cwSign : TwinLoopsPy.cwSign = TwinLoopsPyx.cwSign ∧ TwinLoopsPy.cwSign = TwinLoopsPyx.npSign := by
  constructor <;> first | rfl | (funext a; simp only [TwinLoopsPy.cwSign, TwinLoopsPyx.cwSign, TwinLoopsPyx.npSign])
theorem twin_npClosed (a b : V2) : (TwinLoopsPyx.npCloseX a.x b.x && TwinLoopsPyx.npCloseY a.y b.y) = TwinLoopsPy.cwClosed a b := by
  simp only [TwinLoopsPyx.npCloseX, TwinLoopsPyx.npCloseY, TwinLoopsPy.cwClosed, isclose_bool]
theorem twin_npAccum (s : Rat) (a b : V2) : TwinLoopsPyx.npAccum s a.x a.y b.x b.y = s + TwinLoopsPy.cwTerm a b := by
  first | rfl | (simp only [TwinLoopsPyx.npAccum, TwinLoopsPy.cwTerm])

/-! ### 5.2 whole loops -/

/-- `bisect.bisect_right(knots, u, lo, hi)` (Lib/bisect.py) = `bisect_right(knots, u, lo, hi)` of bspline.pyx, any array, any bounds -/
theorem twin_bisectRight : TwinLoopsPy.bisectRight = TwinLoopsPyx.bisectRight := by
  simp only [TwinLoopsPy.bisectRight, TwinLoopsPyx.bisectRight, twin_bisectLess]

/-- `Basis.find_span(u)`: same span (or the same non-termination) for every knot vector, order, count and parameter -/
theorem twin_findSpan : TwinLoopsPy.findSpan = TwinLoopsPyx.findSpan := by
  simp only [TwinLoopsPy.findSpan, TwinLoopsPyx.findSpan, TwinLoopsPy.findSpanK, TwinLoopsPyx.findSpanK,
    twin_fsSpecial, twin_fsBack, twin_fsUseBisect, twin_fsLinear, twin_bisectLess]

/-- `Basis.basis_funcs(span, u)` of a non rational basis (A2.2): same values, same ZeroDivisionError, any order -/
theorem twin_basisFuncsN : TwinLoopsPy.basisFuncsN = TwinLoopsPyx.basisFuncsN := by
  simp only [TwinLoopsPy.basisFuncsN, TwinLoopsPyx.basisFuncsN, TwinLoopsPy.basisFuncsK, TwinLoopsPyx.basisFuncsK,
    twin_bfIndex, twin_bfLeft, twin_bfRight, twin_bfInner]

/-- `Basis.span_weighting(nbasis, span)`: the branches are written the other way round in the two twins -/
theorem twin_spanWeighting : TwinLoopsPy.spanWeighting = TwinLoopsPyx.spanWeighting :=
  spanWeighting_twin TwinLoopsPy.spanWeightK TwinLoopsPyx.spanWeightK twin_swProduct twin_swQuot twin_swTest

/-- `Basis.basis_funcs(span, u)` including the rational branch -/
theorem twin_basisFuncs : TwinLoopsPy.basisFuncs = TwinLoopsPyx.basisFuncs := by
  simp only [TwinLoopsPy.basisFuncs, TwinLoopsPyx.basisFuncs, TwinLoopsPy.basisFuncsK, TwinLoopsPyx.basisFuncsK,
    twin_bfIndex, twin_bfLeft, twin_bfRight, twin_bfInner, twin_spanWeighting]

/-- `Basis.basis_vector(t)`: list concatenation with possibly negative counts vs conditional `extend` -/
theorem twin_basisVector : TwinLoopsPy.basisVector = TwinLoopsPyx.basisVector := by
  simp only [TwinLoopsPy.basisVector, TwinLoopsPyx.basisVector, twin_findSpan, twin_basisFuncs, basisVector_twin]

/-- the summation of `Evaluator.point`: `Vec3.sum` of a generator of products vs in place accumulation of components -/
theorem twin_pointSum : TwinLoopsPy.pointSum = TwinLoopsPyx.pointSum :=
  pointSum_twin TwinLoopsPy.epTerm VectorPy.v3add TwinLoopsPyx.epAccum twin_epAccum

/-- `Evaluator.point(u)` (A3.1): snapping of `u`, span search, basis functions (rational or not), weighted sum of the control
    points; same point, same exception, for every knot vector, weight list, order, control polygon and parameter -/
theorem twin_evalPoint : TwinLoopsPy.evalPoint = TwinLoopsPyx.evalPoint := by
  simp only [TwinLoopsPy.evalPoint, TwinLoopsPyx.evalPoint, twin_epSnap, twin_findSpan, twin_basisFuncs, twin_pointSum]

/-- regression witness of D13: parameter range [-1, 0], u = -5e-13 is snapped to max_t = 0 by both twins now -/
example : TwinLoopsPy.epSnap (-1 / 2000000000000) 0 = true ∧ TwinLoopsPyx.epSnap (-1 / 2000000000000) 0 = true := by decide +kernel

/-- `_render_dashes(length)`: same state afterwards and the same (is_dash, length) sequence; any pattern, any state, any fuel.
    (Both twins record the pair itself since the fix of D15.) -/
theorem twin_renderDashes : TwinLoopsPy.renderDashes = TwinLoopsPyx.renderDashes := by
  funext dashes fuel len st
  simp only [TwinLoopsPy.renderDashes, TwinLoopsPyx.renderDashes, TwinLoopsPy.renderK, TwinLoopsPyx.renderK,
    twin_rdFits, twin_rdRemain, twin_rdCycleTest, twin_rdMore, twin_rdLess, twin_rdRest]

/-- the encoding the Cython twin used before the fix of D15 (`length if is_dash else -length`, read back with `copysign` / `abs`)
    gives the Python sequence exactly when every recorded length has a clear sign bit: the hypothesis that `-0.0` in a pattern broke -/
theorem twin_renderDashes_signed_encoding (dashes : List Rat) (fuel : Nat) (len : Rat) (st : LtState) :
    (TwinLoops.renderDashes TwinLoopsPyx.renderK dashes emitPyx fuel len (st, [])).map (fun o => (o.1, o.2.map decodePyx))
      = TwinLoopsPyx.renderDashes dashes fuel len st := by
  simp only [TwinLoopsPyx.renderDashes]
  exact renderDashes_twin _ dashes fuel len st

/-- `_LineTypeRenderer.line_segment(start, end)`: same segments, same state, same exception -/
theorem twin_lineSegment : TwinLoopsPy.lineSegment = TwinLoopsPyx.lineSegment := by
  funext dashes fuel
  simp only [TwinLoopsPy.lineSegment, TwinLoopsPyx.lineSegment, TwinLoopsPy.lineSegK, TwinLoopsPyx.lineSegK,
    twin_lsSame, twin_lsLength.1, twin_lsDir, twin_lsStep, twin_renderDashes]

/-- `has_clockwise_orientation` of _construct.py and construct.pyx, for vertex lists of ANY length (the unrolled
    `twin_clockwise3/4` above cover 3 and 4 vertices by path enumeration) -/
theorem twin_clockwise : TwinLoopsPy.clockwise = TwinLoopsPyx.clockwise := by
  simp only [TwinLoopsPy.clockwise, TwinLoopsPyx.clockwise, ← twin_cwClosed, ← twin_cwSign.1]
  exact cw_py_pyx _ _ _ _ twin_cwAccum

/-- `np_support.has_clockwise_orientation` (what `NumpyPath2d` uses with the extension) = the construct function (what it uses
    without): the numpy loop starts at the LAST vertex instead of appending the first one -/
theorem twin_clockwiseNp : TwinLoopsPyx.clockwiseNp = TwinLoopsPy.clockwise := by
  simp only [TwinLoopsPy.clockwise, TwinLoopsPyx.clockwiseNp, ← twin_cwSign.2]
  exact cw_py_np _ _ _ _ _ _ twin_npClosed twin_npAccum

/-! ### 5.3 `Basis.basis_funcs_derivatives` (first loop) and `Evaluator.derivative` -/

theorem twin_bdIndex : TwinLoopsPy.bdIndex = TwinLoopsPyx.bdIndex := by
  funext span j
  simp only [TwinLoopsPy.bdIndex, TwinLoopsPyx.bdIndex]
  split_ifs <;> linarith
theorem twin_bdLeft : TwinLoopsPy.bdLeft = TwinLoopsPyx.bdLeft := by
  first | rfl | (funext a b; simp only [TwinLoopsPy.bdLeft, TwinLoopsPyx.bdLeft]; ring)
theorem twin_bdRight : TwinLoopsPy.bdRight = TwinLoopsPyx.bdRight := by
  first | rfl | (funext a b; simp only [TwinLoopsPy.bdRight, TwinLoopsPyx.bdRight]; ring)
/-- body of the inner loop of A2.3 (lower and upper triangle of `ndu`), including its ZeroDivisionError; the remaining loops of
    A2.3 are the same text in both twins (checked on every run, DERIV_REWRITES in harness/props/c10_loops.py) -/
theorem twin_bdInner : TwinLoopsPy.bdInner = TwinLoopsPyx.bdInner := by
  first
  | rfl
  | (funext a b c d; simp only [TwinLoopsPy.bdInner, TwinLoopsPyx.bdInner]; twin_close)

/-- `binomial_coefficient(k, i)`: `math.factorial` (linalg.py) vs the table FACTORIAL[0..18] of bspline.pyx (regenerated), for every
    k the table covers (the Cython Basis limits the order to 11, so k ≤ 10) and every i -/
theorem twin_binomial (k i : Nat) (hk : k ≤ 18) : binomPyx TwinLoopsPyx.factorialTable k i = binomPy k i := by
  have ht : ∀ m, m ≤ 18 → kget TwinLoopsPyx.factorialTable m = (factorial m : Rat) := by
    intro m hm
    interval_cases m <;> simp [kget, TwinLoopsPyx.factorialTable, factorial]
  unfold binomPyx binomPy
  by_cases h : i > k
  · simp [h]
  · simp only [h, if_false]
    rw [ht k hk, ht (k - i) (by omega), ht i (by omega)]

/-- `Evaluator.derivative(u, n)` (A3.2 and the rational case A4.2): same derivatives, same exceptions, for every knot vector,
    weights, control polygon, parameter and derivative order, GIVEN the same table of basis function derivatives (`dersFn`, A2.3:
    kernels above + text identity) and the same binomial coefficients (`twin_binomial`) -/
theorem twin_evalDerivative (binom : Nat → Nat → Rat) (dersFn : Int → Rat → Nat → Except PyErr (List (List Rat))) :
    TwinLoopsPy.evalDerivative binom dersFn = TwinLoopsPyx.evalDerivative binom dersFn := by
  have hp : pointSumPy TwinLoopsPy.edTerm VectorPy.v3add = pointSumPyx TwinLoopsPyx.edAccum :=
    pointSum_twin TwinLoopsPy.edTerm VectorPy.v3add TwinLoopsPyx.edAccum twin_edAccum
  simp only [TwinLoopsPy.evalDerivative, TwinLoopsPyx.evalDerivative, TwinLoopsPy.derivK, TwinLoopsPyx.derivK, twin_edSnap,
    twin_findSpan, twin_edWeight, twin_edAccV, twin_edAccW, twin_edSub, twin_edDiv, hp]

/-! ### 5.4 non-vacuity: the instantiated loops compute the values of the real code (same inputs as in the correspondence stream) -/

example : binomPyx TwinLoopsPyx.factorialTable 10 4 = 210 ∧ binomPy 10 4 = 210 ∧ binomPy 3 5 = 0 := by decide +kernel
#guard TwinLoopsPy.findSpan [0, 0, 0, 0, 1, 2, 2, 2, 2] 4 5 (3 / 2) = some 4          -- bisect path
#guard TwinLoopsPyx.findSpan [5 / 2, 7 / 2, 9 / 2, 11 / 2, 13 / 2, 15 / 2] 2 4 5 = some 2  -- linear search path
#guard TwinLoopsPyx.findSpan [0, 0, 1, 2, 2, 2] 2 4 2 = some 2                      -- special case: walks back over the repeated end knot
#guard TwinLoopsPy.basisFuncs [0, 0, 0, 0, 1, 2, 2, 2, 2] [] 4 4 (3 / 2) = .ok [1 / 32, 1 / 4, 19 / 32, 1 / 8]
#guard TwinLoopsPyx.basisFuncs [0, 0, 0, 0, 1, 2, 2, 2, 2] [1, 2, 1, 1, 1] 4 4 (3 / 2) = .ok [2 / 33, 8 / 33, 19 / 33, 4 / 33]
#guard TwinLoopsPy.basisFuncs [0, 0, 1, 1, 1, 2] [] 3 2 1 = .error .zeroDivision      -- repeated knots: ZeroDivisionError in both twins
#guard TwinLoopsPyx.evalPoint [0, 0, 0, 0, 1, 2, 2, 2, 2] [] 4 [⟨0, 0, 0⟩, ⟨1, 2, 0⟩, ⟨3, -1, 0⟩, ⟨5, 5, 0⟩, ⟨6, 0, 1⟩] (3 / 2)
    = some (.ok ⟨9 / 2, 89 / 32, 1 / 8⟩)
#guard (TwinLoopsPyx.renderDashes [1, 1 / 2] 100 4 (ltInit [1, 1 / 2])).map (·.2)
    = some [(true, 1), (false, 1 / 2), (true, 1), (false, 1 / 2), (true, 1)]
#guard (TwinLoopsPy.renderDashes [0, 1 / 2, 1 / 4] 100 1 (ltInit [0, 1 / 2, 1 / 4])).map (·.2)
    = some [(true, 0), (false, 1 / 2), (true, 1 / 4), (false, 0), (true, 1 / 4)]  -- odd pattern: roles alternate per cycle, a dot first
#guard TwinLoopsPy.clockwise [⟨0, 0⟩, ⟨0, 1⟩, ⟨1, 1⟩, ⟨1, 0⟩] = .ok true
#guard TwinLoopsPyx.clockwiseNp [⟨0, 0⟩, ⟨1, 0⟩, ⟨1, 1⟩, ⟨0, 1⟩, ⟨0, 0⟩] = .ok false
#guard TwinLoopsPyx.clockwise [⟨0, 0⟩, ⟨1, 0⟩] = .error .valueError

/-! ### 5.5 earcut (growth round 2): the functions of mapbox_earcut.pyx / _mapbox_earcut.py that are NOT the same text.  After the cuts below
    are replaced by their kernel names every function of the two modules except `earcut` itself is the same text (checked on every run). -/

private theorem box_twin (a_x a_y b_x b_y c_x c_y : Rat) :
    ((if c_x < (if b_x < a_x then b_x else a_x) then c_x else (if b_x < a_x then b_x else a_x),
      if (if a_x < b_x then b_x else a_x) < c_x then c_x else (if a_x < b_x then b_x else a_x),
      if c_y < (if b_y < a_y then b_y else a_y) then c_y else (if b_y < a_y then b_y else a_y),
      if (if a_y < b_y then b_y else a_y) < c_y then c_y else (if a_y < b_y then b_y else a_y)) : Rat × Rat × Rat × Rat)
    = (if (if c_x < b_x then c_x else b_x) < a_x then (if c_x < b_x then c_x else b_x) else a_x,
       if a_x < (if b_x < c_x then c_x else b_x) then (if b_x < c_x then c_x else b_x) else a_x,
       if (if c_y < b_y then c_y else b_y) < a_y then (if c_y < b_y then c_y else b_y) else a_y,
       if a_y < (if b_y < c_y then c_y else b_y) then (if b_y < c_y then c_y else b_y) else a_y) := by
  refine Prod.ext ?_ (Prod.ext ?_ (Prod.ext ?_ ?_)) <;> simp only [] <;> split_ifs <;> linarith

/-- bounding box of the ear triangle: `min(ax, bx, cx)` … (CPython: left fold) vs `fmin(a.x, fmin(b.x, c.x))` … -/
theorem twin_ecBox : TwinLoopsPy.ecBox = TwinLoopsPyx.ecBox := by
  funext a_x a_y b_x b_y c_x c_y
  simp only [TwinLoopsPy.ecBox, TwinLoopsPyx.ecBox]
  first | rfl | exact box_twin a_x a_y b_x b_y c_x c_y
theorem twin_ehBox : TwinLoopsPy.ehBox = TwinLoopsPyx.ehBox := by
  funext a_x a_y b_x b_y c_x c_y
  simp only [TwinLoopsPy.ehBox, TwinLoopsPyx.ehBox]
  first | rfl | exact box_twin a_x a_y b_x b_y c_x c_y
/-- "another vertex blocks the ear": box test, point_in_triangle (inlined), area sign; local copies ax… vs attributes a.x… -/
theorem twin_ecBlocked : TwinLoopsPy.ecBlockedP1 = TwinLoopsPyx.ecBlockedP1 := rfl
theorem twin_ehBlocked : TwinLoopsPy.ehBlockedP1 = TwinLoopsPyx.ehBlockedP1 ∧ TwinLoopsPy.ehBlockedN1 = TwinLoopsPyx.ehBlockedN1
    ∧ TwinLoopsPy.ehBlockedP2 = TwinLoopsPyx.ehBlockedP2 ∧ TwinLoopsPy.ehBlockedN2 = TwinLoopsPyx.ehBlockedN2 := ⟨rfl, rfl, rfl, rfl⟩
/-- sort key of the hole queue: `lambda node: (node.x, node.y)` vs `node_key` (seed C10-m4 changed the Python key to `node.x`) -/
theorem twin_holeKey : TwinLoopsPy.holeKey = TwinLoopsPyx.holeKey := rfl
theorem twin_saStep (s px py x y : Rat) : TwinLoopsPyx.saStep s px py x y = (TwinLoopsPy.saTerm s px py x y, x, y) := rfl
/-- earcut `signed_area(points)`, any number of points -/
theorem twin_signedArea : TwinLoopsPy.signedArea = TwinLoopsPyx.signedArea :=
  signedArea_twin TwinLoopsPy.saTerm TwinLoopsPyx.saStep twin_saStep
#guard TwinLoopsPyx.signedArea [⟨0, 0⟩, ⟨0, 1⟩, ⟨1, 1⟩, ⟨1, 0⟩] = 2
#guard TwinLoopsPy.ecBox 3 1 (-2) 5 0 0 = (-2, 3, 0, 5)

/-! ### 5.6 banded LU (growth round 2): `linalg._lu_decompose` / `_solve_vector_banded_matrix` vs `np_support._lu_decompose_cext` /
    `_solve_vector_banded_matrix_cext`; the loop nests are modelled by `TwinLoops.luDecompose` / `svSolve` (pinned skeletons LU::*) -/
theorem twin_luPivotTest : TwinLoopsPy.luPivotTest = TwinLoopsPyx.luPivotTest := by
  first | rfl | (funext a b; simp only [TwinLoopsPy.luPivotTest, TwinLoopsPyx.luPivotTest])
/-- `float(upper[i][0]) / float(upper[k][0])` (Python floats since fix D14) vs the C division: same ZeroDivisionError -/
theorem twin_luFactor : TwinLoopsPy.luFactor = TwinLoopsPyx.luFactor := by
  first | rfl | (funext a b; simp only [TwinLoopsPy.luFactor, TwinLoopsPyx.luFactor]; twin_close)
theorem twin_luElim : TwinLoopsPy.luElim = TwinLoopsPyx.luElim := by
  first | rfl | (funext a b c; simp only [TwinLoopsPy.luElim, TwinLoopsPyx.luElim]; ring)
theorem twin_svFwd : TwinLoopsPy.svFwd = TwinLoopsPyx.svFwd := by
  first | rfl | (funext a b c; simp only [TwinLoopsPy.svFwd, TwinLoopsPyx.svFwd]; ring)
theorem twin_svBack : TwinLoopsPy.svBack = TwinLoopsPyx.svBack := by
  first | rfl | (funext a b c; simp only [TwinLoopsPy.svBack, TwinLoopsPyx.svBack]; ring)
theorem twin_svDiv : TwinLoopsPy.svDiv = TwinLoopsPyx.svDiv := by
  first | rfl | (funext a b; simp only [TwinLoopsPy.svDiv, TwinLoopsPyx.svDiv]; twin_close)
/-- banded LU decomposition with partial pivoting: same upper, lower, pivot index, same ZeroDivisionError; any size, any band widths -/
theorem twin_luDecompose : TwinLoopsPy.luDecompose = TwinLoopsPyx.luDecompose := by
  simp only [TwinLoopsPy.luDecompose, TwinLoopsPyx.luDecompose, TwinLoopsPy.luK, TwinLoopsPyx.luK, twin_luPivotTest, twin_luFactor, twin_luElim]
/-- forward / back substitution -/
theorem twin_svSolve : TwinLoopsPy.svSolve = TwinLoopsPyx.svSolve := by
  simp only [TwinLoopsPy.svSolve, TwinLoopsPyx.svSolve, TwinLoopsPy.svK, TwinLoopsPyx.svK, twin_svFwd, twin_svBack, twin_svDiv]
#guard (TwinLoopsPyx.luDecompose [[0, 8, 1], [2, 9, -1], [1, 10, 0]] 1 1).toOption.map (fun s => (s.upper, s.lower, s.index))
    = some ([[8, 1, 0], [35 / 4, -1, 0], [354 / 35, 0, 0]], [[1 / 4], [4 / 35], [0]], [1, 2, 3])
#guard (TwinLoopsPy.luDecompose [[0, 0, 1], [0, 0, 1], [0, 0, 1]] 1 1).toOption.isNone   -- zero pivot: ZeroDivisionError in both twins (D14)

/-! ### 5.7 `Basis.basis_funcs_derivatives` (A2.3) complete, and `Evaluator.derivative` without the "given the same table" proviso -/
theorem twin_bdA0 : TwinLoopsPy.bdA0 = TwinLoopsPyx.bdA0 := by
  first | rfl | (funext a b; simp only [TwinLoopsPy.bdA0, TwinLoopsPyx.bdA0]; twin_close)
theorem twin_bdD0 : TwinLoopsPy.bdD0 = TwinLoopsPyx.bdD0 := by
  first | rfl | (funext a b; simp only [TwinLoopsPy.bdD0, TwinLoopsPyx.bdD0]; ring)
theorem twin_bdAj : TwinLoopsPy.bdAj = TwinLoopsPyx.bdAj := by
  first | rfl | (funext a b c; simp only [TwinLoopsPy.bdAj, TwinLoopsPyx.bdAj]; twin_close)
theorem twin_bdDj : TwinLoopsPy.bdDj = TwinLoopsPyx.bdDj := by
  first | rfl | (funext a b c; simp only [TwinLoopsPy.bdDj, TwinLoopsPyx.bdDj]; ring)
theorem twin_bdAk : TwinLoopsPy.bdAk = TwinLoopsPyx.bdAk := by
  first | rfl | (funext a b; simp only [TwinLoopsPy.bdAk, TwinLoopsPyx.bdAk]; twin_close)
theorem twin_bdDk : TwinLoopsPy.bdDk = TwinLoopsPyx.bdDk := by
  first | rfl | (funext a b c; simp only [TwinLoopsPy.bdDk, TwinLoopsPyx.bdDk]; ring)
/-- `derivatives[k][j] *= r` with the Python float `r = float(p)` / the C double `rr = p`, and `r *= p - k` -/
theorem twin_bdScale : TwinLoopsPy.bdScale = TwinLoopsPyx.bdScale ∧ TwinLoopsPy.bdNext = TwinLoopsPyx.bdNext := by
  constructor
  · first | rfl | (funext a b; simp only [TwinLoopsPy.bdScale, TwinLoopsPyx.bdScale]; ring)
  · first | rfl | (funext a b c; simp only [TwinLoopsPy.bdNext, TwinLoopsPyx.bdNext]; ring)
/-- A2.3: the table of the basis functions and their derivatives up to order n, for every knot vector, order, span, parameter, n -/
theorem twin_basisFuncsDerivatives : TwinLoopsPy.basisFuncsDerivatives = TwinLoopsPyx.basisFuncsDerivatives := by
  simp only [TwinLoopsPy.basisFuncsDerivatives, TwinLoopsPyx.basisFuncsDerivatives, TwinLoopsPy.dersK, TwinLoopsPyx.dersK,
    twin_bdIndex, twin_bdLeft, twin_bdRight, twin_bdInner, twin_bdA0, twin_bdD0, twin_bdAj, twin_bdDj, twin_bdAk, twin_bdDk,
    twin_bdScale.1, twin_bdScale.2]
/-- `Evaluator.derivative(u, n)` with each twin's own A2.3: the only remaining parameter is the binomial coefficient function
    (equal on the table range by `twin_binomial`) -/
theorem twin_evalDerivative_full (binom : Nat → Nat → Rat) (knots : List Rat) (order : Nat) :
    TwinLoopsPy.evalDerivative binom (TwinLoopsPy.basisFuncsDerivatives knots order)
      = TwinLoopsPyx.evalDerivative binom (TwinLoopsPyx.basisFuncsDerivatives knots order) := by
  rw [twin_basisFuncsDerivatives]; exact twin_evalDerivative binom _
#guard TwinLoopsPy.basisFuncsDerivatives [0, 0, 0, 1, 2, 3, 3, 3] 3 2 (1 / 2) 1 = .ok [[1 / 4, 5 / 8, 1 / 8], [-1, 1 / 2, 1 / 2]]

/-! ### 5.8 `cubic_bezier_arc_parameters` (bezier4p): ceil / tan / cos / sin and the double `pi` are shared parameters, the algebraic rest
    of both twins is translated and proved equal -/
theorem twin_apScalars : TwinLoopsPy.apSegmentsBad = TwinLoopsPyx.apSegmentsBad ∧ TwinLoopsPy.apDelta = TwinLoopsPyx.apDelta
    ∧ TwinLoopsPy.apPositive = TwinLoopsPyx.apPositive ∧ TwinLoopsPy.apCeilArg = TwinLoopsPyx.apCeilArg
    ∧ TwinLoopsPy.apSegAngle = TwinLoopsPyx.apSegAngle ∧ TwinLoopsPy.apTanArg = TwinLoopsPyx.apTanArg
    ∧ TwinLoopsPy.apTanLen = TwinLoopsPyx.apTanLen ∧ TwinLoopsPy.apAngle = TwinLoopsPyx.apAngle
    ∧ TwinLoopsPy.apFromAngle = TwinLoopsPyx.apFromAngle := ⟨rfl, rfl, rfl, rfl, rfl, rfl, rfl, rfl, rfl⟩
/-- `max(ceil(…), segments)` vs `arc_count = <int> ceil(…); if segments > arc_count: arc_count = segments` -/
theorem twin_apCount : TwinLoopsPy.apCount = TwinLoopsPyx.apCount := by
  first | rfl | (funext a b; simp only [TwinLoopsPy.apCount, TwinLoopsPyx.apCount])
/-- control points: `start_point + (-y·t, x·t)` keeps the z of the start point, the Cython twin builds a fresh `Vec3()` (z = 0):
    equal for the points this function produces (`from_angle` has z = 0), NOT for arbitrary points -/
theorem twin_apCp (c s tl : Rat) :
    TwinLoopsPy.apCp1 (TwinLoopsPy.apFromAngle c s) tl = TwinLoopsPyx.apCp1 (TwinLoopsPy.apFromAngle c s) tl
    ∧ TwinLoopsPy.apCp2 (TwinLoopsPy.apFromAngle c s) tl = TwinLoopsPyx.apCp2 (TwinLoopsPy.apFromAngle c s) tl := by
  simp only [TwinLoopsPy.apCp1, TwinLoopsPyx.apCp1, TwinLoopsPy.apCp2, TwinLoopsPyx.apCp2, TwinLoopsPy.apFromAngle, V3.mk.injEq]
  refine ⟨⟨?_, ?_, ?_⟩, ⟨?_, ?_, ?_⟩⟩ <;> first | rfl | ring | (simp only []; ring) | simp
example : TwinLoopsPy.apCp1 ⟨1, 0, 5⟩ 1 ≠ TwinLoopsPyx.apCp1 ⟨1, 0, 5⟩ 1 := by decide +kernel

private theorem arcLoop_twin (cos sin : Rat → Rat) (sa tl : Rat) : ∀ (n : Nat) (a : Rat),
    arcLoop TwinLoopsPy.arcK (fun a => TwinLoopsPy.apFromAngle (cos a) (sin a)) sa tl n a
      = arcLoop TwinLoopsPyx.arcK (fun a => TwinLoopsPyx.apFromAngle (cos a) (sin a)) sa tl n a := by
  intro n
  induction n with
  | zero => intro a; rfl
  | succ n ih =>
    intro a
    have hA : TwinLoopsPy.arcK.angle = TwinLoopsPyx.arcK.angle := rfl
    have h1 : ∀ c s t, TwinLoopsPy.arcK.cp1 (TwinLoopsPy.apFromAngle c s) t = TwinLoopsPyx.arcK.cp1 (TwinLoopsPyx.apFromAngle c s) t :=
      fun c s t => (twin_apCp c s t).1
    have h2 : ∀ c s t, TwinLoopsPy.arcK.cp2 (TwinLoopsPy.apFromAngle c s) t = TwinLoopsPyx.arcK.cp2 (TwinLoopsPyx.apFromAngle c s) t :=
      fun c s t => (twin_apCp c s t).2
    have hF : TwinLoopsPy.apFromAngle = TwinLoopsPyx.apFromAngle := rfl
    simp only [arcLoop, hA, h1, h2, ih]
    simp only [hF]

/-- `cubic_bezier_arc_parameters(start, end, segments)`: same exceptions, same number of segments, same control points, for every
    choice of the library functions ceil, tan, cos, sin and of the constant pi -/
theorem twin_arcParameters (ceil tan cos sin : Rat → Rat) :
    TwinLoopsPy.arcParameters ceil tan cos sin = TwinLoopsPyx.arcParameters ceil tan cos sin := by
  funext pi startA endA segments
  simp only [TwinLoopsPy.arcParameters, TwinLoopsPyx.arcParameters, TwinLoops.arcParameters, arcLoop_twin]
  rfl

/-! ### 5.9 `is_point_in_polygon_2d` (construct): polygons of ANY size (the whole-function translation explodes: 13 MB of Lean for a triangle;
    with the loop body cut out it is three kernels and a fold) -/
theorem twin_pipClosed : TwinLoopsPy.pipClosed = TwinLoopsPyx.pipClosed := by
  funext a b; simp only [TwinLoopsPy.pipClosed, TwinLoopsPyx.pipClosed, isclose_bool]
/-- "the point lies on this edge" (bounding interval in x and y, |cross product| ≤ abs_tol) -/
theorem twin_pipOnEdge : TwinLoopsPy.pipOnEdge = TwinLoopsPyx.pipOnEdge := by
  first | rfl | (funext a b c d e f g; simp only [TwinLoopsPy.pipOnEdge, TwinLoopsPyx.pipOnEdge])
/-- the ray crossing test incl. the (unreachable) ZeroDivisionError of `(y - y1) / (y2 - y1)` -/
theorem twin_pipToggle : TwinLoopsPy.pipToggle = TwinLoopsPyx.pipToggle := by
  first | rfl | (funext a b c d e f; simp only [TwinLoopsPy.pipToggle, TwinLoopsPyx.pipToggle])
/-- `is_point_in_polygon_2d`: +1 / 0 / -1 equal for every point, polygon (any vertex count, closed or open) and tolerance; the Python twin
    slices the closing vertex off, the Cython twin shortens its index range -/
theorem twin_pointInPolygon : TwinLoopsPy.pointInPolygon = TwinLoopsPyx.pointInPolygon := by
  simp only [TwinLoopsPy.pointInPolygon, TwinLoopsPyx.pointInPolygon, TwinLoopsPy.pipK, TwinLoopsPyx.pipK,
    twin_pipClosed, twin_pipOnEdge, twin_pipToggle, pip_twin]
#guard TwinLoopsPy.pointInPolygon ⟨1, 1⟩ [⟨0, 0⟩, ⟨2, 0⟩, ⟨2, 2⟩, ⟨0, 2⟩, ⟨0, 0⟩] (1 / 10000000000) = .ok 1
#guard TwinLoopsPyx.pointInPolygon ⟨2, 1⟩ [⟨0, 0⟩, ⟨2, 0⟩, ⟨2, 2⟩, ⟨0, 2⟩] (1 / 10000000000) = .ok 0
#guard TwinLoopsPyx.pointInPolygon ⟨3, 1⟩ [⟨0, 0⟩, ⟨2, 0⟩, ⟨2, 2⟩, ⟨0, 2⟩] (1 / 10000000000) = .ok (-1)

/-! ### 5.10 `arc_angle_span_deg` / `arc_angle_span_rad` (construct): the whole functions; the two float modulo results (`start % 360.0`,
    `end % 360.0`; Python `%` in both twins) are shared parameters -/
private theorem c360 : ((217606647530633265 : Rat) / 604462909807314587353088)
    = pyAbs (((4835703278458517 : Rat) / 4835703278458516698824704) * 360) := by
  unfold pyAbs; norm_num
/-- `math.isclose(a, b, abs_tol=DEG_ABS_TOL)` vs `isclose(a, b, REL_TOL, DEG_ABS_TOL)` three times, same branches, same results -/
theorem twin_spanDeg : TwinLoopsPy.spanDeg = TwinLoopsPyx.spanDeg := by
  funext st en s_mod e_mod
  simp only [TwinLoopsPy.spanDeg, TwinLoopsPyx.spanDeg, c360, isclose_prop]
theorem twin_spanRad : TwinLoopsPy.spanRad = TwinLoopsPyx.spanRad := by
  funext st en s_mod e_mod tau
  simp only [TwinLoopsPy.spanRad, TwinLoopsPyx.spanRad, isclose_prop]

/-- **Evaluator.derivative(u, n)** with NO remaining parameter: the Python twin with `math.factorial` binomials, its own A2.3 and its own arithmetic,
    the Cython twin with the FACTORIAL table, its own A2.3 and arithmetic - same derivatives, same exceptions, for every knot vector, weight list, order,
    control polygon, parameter and derivative order n ≤ 18 (the table range; the Cython Basis limits the order to 11, n is clamped to the degree) -/
theorem twin_evalDerivative_closed (knots weights : List Rat) (order : Nat) (cps : List V3) (u : Rat) (n : Nat) (hn : n ≤ 18) :
    TwinLoopsPy.evalDerivative binomPy (TwinLoopsPy.basisFuncsDerivatives knots order) knots weights order cps u n
      = TwinLoopsPyx.evalDerivative (binomPyx TwinLoopsPyx.factorialTable) (TwinLoopsPyx.basisFuncsDerivatives knots order) knots weights order cps u n := by
  rw [twin_evalDerivative_full binomPy knots order]
  simp only [TwinLoopsPyx.evalDerivative, TwinLoops.evalDerivative]
  have hb : ∀ (ders : List (List Rat)) (w : List Rat) (c : List V3) (span : Int) (p : Nat),
      derivRational TwinLoopsPyx.derivK binomPy ders w c span p n
        = derivRational TwinLoopsPyx.derivK (binomPyx TwinLoopsPyx.factorialTable) ders w c span p n :=
    fun ders w c span p => derivRational_binom _ _ _ ders w c span p n (fun k hk i => (twin_binomial k i (by omega)).symm)
  simp only [hb]
example : (18 : Nat) ≤ 18 := by decide

/-! ### 5.11 `cubic_bezier_from_arc` -/
theorem twin_faKernels : TwinLoopsPy.faTiny = TwinLoopsPyx.faTiny ∧ TwinLoopsPy.faMore = TwinLoopsPyx.faMore ∧ TwinLoopsPy.faBump = TwinLoopsPyx.faBump
    ∧ TwinLoopsPy.faPoint = TwinLoopsPyx.faPoint := ⟨rfl, rfl, rfl, rfl⟩
/-- `cubic_bezier_from_arc`: same curves, same exceptions, for every choice of the library functions, GIVEN that `math.radians(x)` is `x * (pi / 180)`
    (CPython's definition; the Cython twin multiplies by `DEG2RAD = M_PI / 180.0` itself) -/
theorem twin_fromArc (ceil tan cos sin radians : Rat → Rat) (fmod : Rat → Rat → Rat) (pi tau deg2rad : Rat)
    (hrad : ∀ x, radians x = x * deg2rad) :
    TwinLoopsPy.fromArc ceil tan cos sin radians fmod pi tau deg2rad = TwinLoopsPyx.fromArc ceil tan cos sin radians fmod pi tau deg2rad := by
  have h1 : radians = fun s => TwinLoopsPyx.faStartRad s deg2rad := funext fun s => by simp only [TwinLoopsPyx.faStartRad, hrad]
  have h2 : (fun s sp => radians (TwinLoopsPy.faEndArg s sp)) = fun s sp => TwinLoopsPyx.faEndRad s sp deg2rad := by
    funext s sp; simp only [TwinLoopsPy.faEndArg, TwinLoopsPyx.faEndRad, hrad]
  simp only [TwinLoopsPy.fromArc, TwinLoopsPyx.fromArc, h2, twin_spanDeg, twin_arcParameters, twin_faKernels.1, twin_faKernels.2.1,
    twin_faKernels.2.2.1, twin_faKernels.2.2.2]
  rw [h1]
example : ∀ x : Rat, (fun x => x * (1 / 57)) x = x * (1 / 57) := fun _ => rfl

end EzdxfVerif.Props.C10

/-
C18  The drawing front end renders what the document defines.
Only property theorems and non-vacuity examples live here (helper lemmas: Lemmas/Render.lean); every `theorem` of this
file is an obligation counted by ./check C18.
-/
import Mathlib.Algebra.Order.Field.Rat
import Mathlib.Tactic.Ring
import Mathlib.Tactic.Linarith
import Mathlib.Tactic.FieldSimp
import Mathlib.Algebra.Order.Ring.Abs
import EzdxfVerif.Model.Render
import EzdxfVerif.Lemmas.Render
import EzdxfVerif.Gen.RenderTables
import EzdxfVerif.Gen.RenderShape

namespace EzdxfVerif.Props.C18
open EzdxfVerif.Render

/-! ## the transformation algebra the specification composes with -/

/-- `(f @ g).transform(p) = g.transform(f.transform(p))`: the product of reference matrices along a path acts
    innermost first -/
theorem apply_comp (f g : Aff) (p : P2) : (f.comp g).apply p = g.apply (f.apply p) := by
  simp only [Aff.comp, Aff.apply, P2.mk.injEq]
  constructor <;> ring

theorem comp_assoc (f g h : Aff) : (f.comp g).comp h = f.comp (g.comp h) := by
  simp only [Aff.comp, Aff.mk.injEq]
  refine ⟨?_, ?_, ?_, ?_, ?_, ?_⟩ <;> ring

theorem comp_id (f : Aff) : f.comp Aff.id = f ∧ Aff.id.comp f = f := by
  constructor <;> (cases f; simp [Aff.comp, Aff.id])

/-! ## the block reference state stack -/

/-- the state stack (`current_block_reference_properties`, `_saved_states`) is the same after any successful draw,
    also on the invisible/skip paths and after every grid element of a MINSERT; no acyclicity or lawfulness hypothesis.
    (Session 3: proved through the invariant principle `inv_drawEnts`, which needs one fact per step of the traversal;
    the pairing push_state/pop_state of the source is tied by `tie_push_pop_shape`.) -/
theorem stack_balanced (doc : Doc) (ctx : Ctx) (fuel h : Nat) (ents : List Ent) (st : State) :
    ∀ out st', drawEnts doc ctx fuel h ents st = .ok (out, st') → st' = st := by
  intro out st' hh
  refine inv_drawEnts (R := fun a _ b => b = a) ⟨?_, ?_, ?_, ?_, ?_⟩ doc fuel h ents st out st' hh
  · intro _; rfl
  · intro a _ b _ c h1 h2; rw [h2, h1]
  · intros; rfl
  · intros; rfl
  · intro st rp o st2 st3 h1 h2
    subst h1
    simp [State.pop, State.push] at h2
    exact h2.symm

/-! ## nothing is drawn on hidden layers -/

private theorem emitLeaf_layer (k : Kind) (rp : RProps) (h : Nat) (pts : List P2) :
    ∀ pr ∈ emitLeaf k rp h pts, pr.layer = rp.layer := by
  intro pr hh
  cases k <;> simp only [emitLeaf] at hh
  case line => simp [mkPrim] at hh; simp [hh]
  case point => split at hh <;> simp [mkPrim] at hh; simp [hh]
  case attdef => simp [mkPrim] at hh; simp [hh]
  case circle => simp [mkPrim] at hh; simp [hh]
  case polyline c =>
    split at hh
    · simp at hh
    · simp at hh
    · split at hh <;> simp [mkPrim] at hh <;> simp [hh]
  case solid =>
    split at hh
    · split at hh <;> simp [mkPrim] at hh <;> simp [hh]
    · simp at hh

private theorem visible_shown (ctx : Ctx) (cur : Option RProps) (f : Bool) (p : EProps)
    (h : (resolveAll ctx cur false f p).visible = true) : LayerShown ctx (resolveAll ctx cur false f p).layer := by
  intro lp hl
  simp only [resolveAll, resolveVisible] at h hl
  simp only [hl] at h
  simp at h
  by_contra hc
  simp at hc
  simp [hc] at h

private theorem drawAttribs_shown (ctx : Ctx) (cur : Option RProps) (h : Nat) (as : List Attrib) :
    ∀ pr ∈ drawAttribs ctx cur h as, LayerShown ctx pr.layer := by
  intro pr hh
  simp only [drawAttribs, List.mem_flatMap] at hh
  obtain ⟨a, _, ha⟩ := hh
  split at ha
  · rename_i hv
    simp [mkPrim] at ha
    rw [ha]
    exact visible_shown ctx cur a.flag a.props hv
  · simp at ha

/-- nothing reaches the backend on a layer that the (resolved) layer table hides: off, frozen, not plotted in export mode,
    frozen in the viewport (`mkVpCtx`), switched off by a layer properties override (`Ctx.overrideLayers`) -/
theorem nothing_on_hidden_layers (doc : Doc) (ctx : Ctx) (fuel h : Nat) (ents : List Ent) (st : State) :
    ∀ out st', drawEnts doc ctx fuel h ents st = .ok (out, st') → ∀ pr ∈ out, LayerShown ctx pr.layer := by
  intro out st' hh
  refine inv_drawEnts (R := fun _ o _ => ∀ pr ∈ o, LayerShown ctx pr.layer) ⟨?_, ?_, ?_, ?_, ?_⟩ doc fuel h ents st out st' hh
  · intro _ pr hpr; simp at hpr
  · intro _ o1 _ o2 _ h1 h2 pr hpr
    rcases List.mem_append.mp hpr with h | h
    · exact h1 pr h
    · exact h2 pr h
  · intro st k p hh pts hv pr hpr
    rw [emitLeaf_layer k _ hh pts pr hpr]
    exact visible_shown ctx st.current false p hv
  · intro st hh as pr hpr
    exact drawAttribs_shown ctx st.current hh as pr hpr
  · intro _ _ _ _ _ h1 _; exact h1

/-- the SPECIFICATION itself (what the document defines, `Spec.flatten` of any block tree, any matrices, any grids) never lists a
    primitive on a layer that the layer table hides - independently of the traversal, of lawfulness and of the fall-back -/
theorem spec_nothing_on_hidden_layers (ctx : Ctx) (f : Forest) (env : Option RProps) (acc : Aff) (h : Nat) :
    ∀ pr ∈ Spec.flatten ctx env acc h f, LayerShown ctx pr.layer := by
  refine spec_forall ctx (fun pr => LayerShown ctx pr.layer) ?_ ?_ f env acc h
  · intro env k p hh pts hv pr hpr
    rw [emitLeaf_layer k _ hh pts pr hpr]
    exact visible_shown ctx env false p hv
  · intro cur hh as pr hpr
    exact drawAttribs_shown ctx cur hh as pr hpr

/-! ## `Insert.transform` is lawful wherever it does not raise -/

/-- FULL GENERALITY (session 3): for EVERY matrix `m` (shear, non-uniform, mirror), every rotation given by a rational
    (cos, sin), every scale factors, extrusion ±Z, MINSERT or not: if `Insert.transform(m)` does not raise
    (`InsertCoordinateSystem.transform`: transformed axes orthogonal, lengths non-zero) the transformed reference has the
    matrix `matrix44() @ m`, and keeps its properties, block name, extrusion, grid counts; its ATTRIBs are transformed by `m` -/
theorem transformIns_lawful_general (m : Aff) (i i' : Ins) (base : P2) (h : transformIns m i = .ok i') :
    xfOf i' base = (xfOf i base).comp m ∧ i'.props = i.props ∧ i'.name = i.name ∧
    i'.attribs = i.attribs.map (transformAttrib m) ∧ i'.flip = i.flip ∧ i'.rows = i.rows ∧ i'.cols = i.cols :=
  ⟨transformIns_ok_matrix m i i' base h, transformIns_ok_fields m i i' h⟩

/-- `Insert.transform(m)` raises `InsertTransformationError` (and `virtual_block_reference_entities` takes the explode
    fall-back, finding F20) exactly when the images of the reference's axes are non-zero and NOT orthogonal -/
theorem fallback_iff_not_orthogonal (m : Aff) (i : Ins) :
    transformIns m i = .error .fallback ↔
      (dot (m.lin (ocsFlip i.flip i.dir)) (m.lin (ocsFlip i.flip i.dir)) ≠ 0 ∧
       dot (m.lin (ocsFlip i.flip ⟨-i.dir.y, i.dir.x⟩)) (m.lin (ocsFlip i.flip ⟨-i.dir.y, i.dir.x⟩)) ≠ 0 ∧
       dot (m.lin (ocsFlip i.flip i.dir)) (m.lin (ocsFlip i.flip ⟨-i.dir.y, i.dir.x⟩)) ≠ 0) := by
  simp only [transformIns]
  constructor
  · intro h
    split at h
    · simp at h
    · rename_i hz
      split at h
      · rename_i hd
        exact ⟨fun h0 => hz (Or.inl h0), fun h0 => hz (Or.inr h0), hd⟩
      · split at h <;> simp at h
  · rintro ⟨h1, h2, h3⟩
    simp [h1, h2, h3]

/-- what the fall-back does (finding F20, modelled as the code is): the sheared reference is replaced by the content of the
    referenced block - for every grid element, transformed by the element's matrix and then by `m` - and never reaches
    `draw_entity`: no `push_state` for it, its ATTRIBs are not drawn, its invisible flag is not looked at -/
theorem fallback_explodes_in_place (doc : Doc) (f : Nat) (m : Aff) (i : Ins) (h : transformIns m i = .error .fallback) :
    transformOne doc (some (explode doc f)) m (.ins i) =
      flatMapE (fun c =>
        match vbreWith doc (explode doc f) c with
        | .error e => .error e
        | .ok inner => explode doc f m inner) (cells i) := by
  simp only [transformOne, h]
  rfl

/-- GEOMETRY in the explode fall-back (the part of finding F20 that is right): a sheared reference to a block of leaf entities
    is replaced, for every grid element, by the block's entities mapped by the PRODUCT `matrix44(element) @ m` - exactly the
    points the specification lists for them (`Spec.flatten` maps leaf points by the same product); what is lost is the
    reference's state, not the geometry -/
theorem fallback_geometry (doc : Doc) (f : Nat) (m : Aff) (i : Ins) (blk : Block)
    (hfb : transformIns m i = .error .fallback) (hfind : doc.find i.name = some blk)
    (hleaf : (blockCopies blk).all isLeaf = true) :
    transformOne doc (some (explode doc f)) m (.ins i) =
      .ok ((cells i).flatMap (fun c => mapLeaves ((xfOf c blk.base).comp m) (blockCopies blk))) :=
  EzdxfVerif.Render.fallback_geometry doc f m i blk hfb hfind hleaf

/-- without a sheared reference `virtual_block_reference_entities` is the plain element-wise `entity.transform(m)` -/
theorem explode_plain (doc : Doc) (f : Nat) (m : Aff) (src ents : List Ent) (h : mapE (transformEnt m) src = .ok ents) :
    explode doc f m src = .ok ents :=
  explode_of_mapE doc f m src ents h

/-- quarter-turn class: `Insert.transform(m)` gives the INSERT with matrix `matrix44() @ m` for every axis-monomial `m` (any
    composition of translations, non-zero axis scalings, mirrors, quarter turns) and every reference rotated by a
    multiple of 90° -/
theorem transformIns_lawful (m : Aff) (i : Ins) (base : P2) (hm : Monomial m) (hdir : AxisUnit i.dir) :
    lawful m i base = true := by
  obtain ⟨i', hi'⟩ := transformIns_ok_quarter m i hm hdir
  simp [lawful, hi', transformIns_ok_matrix m i i' base hi']

/-- uniform class: the same for every similarity `m` (translations, ANY rotations, uniform scalings, mirrors) and every
    rotation of the reference -/
theorem transformIns_lawful_similarity (m : Aff) (k : Rat) (i : Ins) (base : P2) (hm : Similarity m k) (hdir : UnitDir i.dir) :
    lawful m i base = true := by
  obtain ⟨i', hi'⟩ := transformIns_ok_similarity m k i hm hdir
  simp [lawful, hi', transformIns_ok_matrix m i i' base hi']

def p0 : EProps := ⟨"0", 256, none, "BYLAYER", -1, false, none, 0⟩
/-- INNER rotated by 90° -/
def wInner : Ins := ⟨p0, "INNER", ⟨0, 0⟩, 1, 1, ⟨0, 1⟩, false, [], 1, 1, 0, 0⟩
/-- OUTER scaled (2, 1) -/
def wOuter : Ins := ⟨p0, "OUTER", ⟨0, 0⟩, 2, 1, ⟨1, 0⟩, false, [], 1, 1, 0, 0⟩
def wDoc : Doc := ⟨[⟨"INNER", ⟨0, 0⟩, [.leaf .line p0 [⟨0, 0⟩, ⟨1, 0⟩]]⟩, ⟨"OUTER", ⟨0, 0⟩, [.ins wInner]⟩]⟩
def wCtx : Ctx := mkCtx 0xFFFFFF Gen.RenderTables.aciRgb false [⟨"0", 7, none, none, "Continuous", -3, 0, true⟩]

/-- REGRESSION FACT about the UNFIXED configuration (code before 603b8b3fe, `transformInsPreFix`: scale factors measured
    on the unrotated OCS axes; finding F18, fixed): OUTER = scale (2, 1), INNER rotated by 90° is not lawful there.
    The current model (`transformIns`) is lawful on the same input. -/
theorem regression_prefix_transform_unlawful :
    Monomial (xfOf wOuter ⟨0, 0⟩) ∧ AxisUnit wInner.dir ∧
    xfOf (transformInsPreFix (xfOf wOuter ⟨0, 0⟩) wInner) ⟨0, 0⟩ ≠ (xfOf wInner ⟨0, 0⟩).comp (xfOf wOuter ⟨0, 0⟩) ∧
    lawful (xfOf wOuter ⟨0, 0⟩) wInner ⟨0, 0⟩ = true := by
  have h1 : Monomial (xfOf wOuter ⟨0, 0⟩) := by left; simp [xfOf, wOuter, exSign, Aff.lin, ocsFlip]
  have h2 : AxisUnit wInner.dir := by right; left; rfl
  exact ⟨h1, h2, by decide +kernel, transformIns_lawful _ _ _ h1 h2⟩

-- the witness of F18 is drawn at its world geometry (0,0)-(0,1), and draw = spec on it
#guard (drawLayout wDoc wCtx [.ins wOuter]).toOption.map (fun r => r.1.map (·.pts)) = some [[⟨0, 0⟩, ⟨0, 1⟩]]
#guard (unfold wDoc 3 [.ins wOuter]).map (fun f => (Spec.flatten wCtx none Aff.id 0 f).map (·.pts)) = some [[⟨0, 0⟩, ⟨0, 1⟩]]
#guard reach wDoc (wDoc.blocks.length + 1) [.ins wOuter]
#guard (unfold wDoc 3 [.ins wOuter]).map (fun f => f.lawful Aff.id) = some true

/-- general rotation: INNER rotated by the 3-4-5 angle below OUTER rotated by the 5-12-13 angle, uniformly scaled by 2 -/
def gInner : Ins := ⟨p0, "INNER", ⟨1, 0⟩, 1, 1, ⟨3/5, 4/5⟩, false, [], 1, 1, 0, 0⟩
def gOuter : Ins := ⟨p0, "OUTER", ⟨0, 0⟩, 2, -2, ⟨5/13, 12/13⟩, false, [], 1, 1, 0, 0⟩
def gDoc : Doc := ⟨[⟨"INNER", ⟨0, 0⟩, [.leaf .line p0 [⟨0, 0⟩, ⟨5, 0⟩]]⟩, ⟨"OUTER", ⟨0, 0⟩, [.ins gInner]⟩]⟩
#guard (unfold gDoc 3 [.ins gOuter]).map (fun f => f.lawful Aff.id) = some true
#guard (drawLayout gDoc wCtx [.ins gOuter]).toOption.map (fun r => r.1.map (·.pts)) =
  (unfold gDoc 3 [.ins gOuter]).map (fun f => (Spec.flatten wCtx none Aff.id 0 f).map (·.pts))
/-- the F20 shape: INNER (red, its content BYBLOCK) rotated by the 3-4-5 angle below a NON-uniformly scaled OUTER (green): the
    block tree is not lawful, the code takes the explode fall-back (`transformOne`): geometry as specified, but the line is
    drawn in the colour of OUTER (pen 3) where the document defines the colour of INNER (pen 1) -/
def fInner : Ins := ⟨{ p0 with color := 1 }, "INNER", ⟨1, 0⟩, 1, 1, ⟨3/5, 4/5⟩, false, [], 1, 1, 0, 0⟩
def fDoc : Doc := ⟨[⟨"INNER", ⟨0, 0⟩, [.leaf .line { p0 with color := 0 } [⟨0, 0⟩, ⟨5, 0⟩]]⟩, ⟨"OUTER", ⟨0, 0⟩, [.ins fInner]⟩]⟩
def sOuter : Ins := ⟨{ p0 with color := 3 }, "OUTER", ⟨0, 0⟩, 2, 1, ⟨1, 0⟩, false, [], 1, 1, 0, 0⟩
#guard (unfold fDoc 3 [.ins sOuter]).map (fun f => f.lawful Aff.id) = some false
#guard (drawLayout fDoc wCtx [.ins sOuter]).toOption.map (fun r => r.1.map (fun pr => (pr.pen, pr.pts))) = some [(3, [⟨2, 0⟩, ⟨8, 4⟩])]
#guard (unfold fDoc 3 [.ins sOuter]).map (fun f => (Spec.flatten wCtx none Aff.id 0 f).map (fun pr => (pr.pen, pr.pts))) =
  some [(1, [⟨2, 0⟩, ⟨8, 4⟩])]
-- non-vacuity of `fallback_geometry`: the F20 witness (INNER is a block of one LINE; sheared below OUTER = scale (2, 1))
#guard (transformIns (xfOf sOuter ⟨0, 0⟩) fInner) = .error .fallback
#guard (blockCopies ⟨"INNER", ⟨0, 0⟩, [.leaf .line { p0 with color := 0 } [⟨0, 0⟩, ⟨5, 0⟩]]⟩).all isLeaf

/-- MINSERT: a 2 x 3 grid of OUTER (quarter turn, non-uniform) -/
def mOuter : Ins := ⟨p0, "OUTER", ⟨1, 1⟩, 2, 1, ⟨0, 1⟩, false, [], 2, 3, 5, 7⟩
#guard (cells mOuter).length = 6
#guard (unfold wDoc 3 [.ins mOuter]).map (fun f => f.lawful Aff.id) = some true
#guard (drawLayout wDoc wCtx [.ins mOuter]).toOption.map (fun r => r.1.length) = some 6

/-! ## draw = specification

General form (session 3): the only hypothesis about transformations is `Forest.lawful` — a decidable check that
`Insert.transform` is lawful at every reference of the block tree under the matrix accumulated on the way to it, i.e. that
the code never takes the explode fall-back (finding F20).  Any rotation (rational cos/sin), any scale factors, mirrors,
extrusion ±Z, MINSERT grids, entity handles.  Two classes of documents are proved to satisfy the check outright:
quarter-turn documents (`draw_eq_spec_quarter`, the session-2 theorem) and uniformly scaled documents with arbitrary
rotations (`draw_eq_spec_uniform`).  `reach`: the block graph is acyclic and closed (otherwise the front end raises). -/

/-- General form (any nesting depth, any accumulated matrix `m`, any state, any current handle): if `Insert.transform` is
    lawful along the block tree, the transformed copies exist and the stateful traversal (in-place transformed copies,
    `Insert.transform` on nested references, push/pop of the block reference state, MINSERT expansion, handle propagation)
    returns exactly `Spec.flatten` of the block tree under `m`, and the state it started with. -/
theorem draw_eq_spec_tree (doc : Doc) (ctx : Ctx) (fuel : Nat) (ents : List Ent) (m : Aff) (forest : Forest)
    (hu : unfold doc fuel ents = some forest) (hl : forest.lawful m = true) :
    ∃ ents', mapE (transformEnt m) ents = .ok ents' ∧
      ∀ h st, drawEnts doc ctx fuel h ents' st = .ok (Spec.flatten ctx st.current m h forest, st) :=
  EzdxfVerif.Render.draw_eq_spec_tree doc ctx fuel ents m forest hu hl

/-- the block tree exists for every acyclic, closed document -/
theorem unfold_of_reach (doc : Doc) (fuel : Nat) (ents : List Ent) :
    reach doc fuel ents = true → ∃ f, unfold doc fuel ents = some f :=
  EzdxfVerif.Render.unfold_of_reach doc fuel ents

/-- `draw_layout` sends exactly `Spec.flatten` of the block tree to the backend and leaves the block reference state
    stack as it found it: for every acyclic closed document, well-formed layout references (unit direction, non-zero
    scales) and lawful block tree. -/
theorem draw_eq_spec (doc : Doc) (ctx : Ctx) (ents : List Ent) (he : EntsWF ents)
    (hr : reach doc (doc.blocks.length + 1) ents = true)
    (hl : ∀ forest, unfold doc (doc.blocks.length + 1) ents = some forest → forest.lawful Aff.id = true) :
    ∃ forest, unfold doc (doc.blocks.length + 1) ents = some forest ∧
      drawLayout doc ctx ents = .ok (Spec.flatten ctx none Aff.id 0 forest, State.init) := by
  obtain ⟨f, hf⟩ := unfold_of_reach doc _ ents hr
  refine ⟨f, hf, ?_⟩
  obtain ⟨ents', hmap, hdraw⟩ := draw_eq_spec_tree doc ctx _ ents Aff.id f hf (hl f hf)
  rw [mapE_transformEnt_id ents he] at hmap
  simp only [Except.ok.injEq] at hmap
  subst hmap
  exact hdraw 0 State.init

private theorem copyIns_quarter (i : Ins) (h : InsQuarter i) : InsQuarter (copyIns i) := h
private theorem copyIns_uniform (i : Ins) (h : InsUniform i) : InsUniform (copyIns i) := h
private theorem gridCell_quarter (i : Ins) (off : P2) (h : InsQuarter i) : InsQuarter (gridCell i off) := h
private theorem gridCell_uniform (i : Ins) (off : P2) (h : InsUniform i) : InsUniform (gridCell i off) := h

/-- MINSERT below any transformation (session 3): for EVERY matrix `m` for which `Insert.transform` does not raise, the grid
    elements of the transformed reference are the transformed grid elements of the reference - same matrices
    `matrix44(element) @ m`, same ATTRIBs - so a MINSERT is drawn where the document puts it at every nesting depth
    (non-zero scale factors; this is the statement that fixes 1240d5ce0 - spacing - and 2b2432f57 - ATTRIBs - make true) -/
theorem minsert_cells_lawful (m : Aff) (i i' : Ins) (base : P2) (h : transformIns m i = .ok i') (hsx : i.sx ≠ 0) (hsy : i.sy ≠ 0) :
    cellsAgree m base (cells i') (cells i) = true :=
  cells_transform m i i' base h hsx hsy

/-- the SIGN of the MINSERT grid below a transformation (follow-up of session 3; seeded change C18-m6 is its negation): after
    `Insert.transform(m)` the column spacing is the old one times the length `nx > 0` of the image of the reference's x-axis;
    the row spacing is the old one times `ny > 0` and it CHANGES ITS SIGN - together with the y scale factor - exactly when
    `m` is a reflection (negative determinant), for every rotation, scale and extrusion ±Z; with `minsert_cells_lawful`: at
    any nesting depth, under every combination of reflections, the rows grow where the document puts them -/
theorem minsert_spacing_sign (m : Aff) (i i' : Ins) (h : transformIns m i = .ok i') (hsx : i.sx ≠ 0) (hsy : i.sy ≠ 0)
    (hd : UnitDir i.dir) :
    ∃ nx ny : Rat, 0 < nx ∧ 0 < ny ∧ i'.sx = nx * i.sx ∧ i'.colSp = i.colSp * nx ∧
      (0 < m.det → i'.sy = ny * i.sy ∧ i'.rowSp = i.rowSp * ny) ∧
      (m.det < 0 → i'.sy = -(ny * i.sy) ∧ i'.rowSp = -(i.rowSp * ny)) ∧ m.det ≠ 0 :=
  transformIns_spacing_sign m i i' h hsx hsy hd

-- non-vacuity: a 3 x 1 grid (row spacing 5) below a reflection of the y-axis: the row spacing becomes -5
#guard (transformIns ⟨1, 0, 0, -1, 0, 0⟩ ⟨p0, "INNER", ⟨0, 0⟩, 1, 1, ⟨1, 0⟩, false, [], 3, 1, 5, 0⟩).toOption.map
  (fun j => (j.rowSp, j.sy)) = some (-5, -1)

/-- session-2 theorem, now a corollary and extended to MINSERT grids anywhere: every acyclic closed document whose references
    are rotated by multiples of 90° with non-zero (possibly non-uniform, possibly negative) scale factors -/
theorem draw_eq_spec_quarter (doc : Doc) (ctx : Ctx) (ents : List Ent) (hd : DocQuarter doc) (he : EntsQuarter ents)
    (hr : reach doc (doc.blocks.length + 1) ents = true) :
    ∃ forest, unfold doc (doc.blocks.length + 1) ents = some forest ∧
      drawLayout doc ctx ents = .ok (Spec.flatten ctx none Aff.id 0 forest, State.init) := by
  refine draw_eq_spec doc ctx ents ?_ hr ?_
  · intro i hi
    obtain ⟨h1, h2, h3⟩ := he i hi
    refine ⟨?_, h2, h3⟩
    rcases h1 with h | h | h | h <;> simp [UnitDir, h]
  · intro forest hf
    exact lawful_of_class Monomial InsQuarter
      (fun m i hm hi => transformIns_ok_quarter m i hm hi.1)
      (fun m i base hm hi => monomial_comp _ _ (monomial_xfOf i base hi) hm)
      copyIns_quarter gridCell_quarter (fun i hi => ⟨hi.2.1, hi.2.2⟩)
      doc (fun b hb i hi => hd b hb i hi) _ ents Aff.id forest monomial_id he hf

/-- NEW class (session 3): every acyclic closed document whose references have `|xscale| = |yscale| ≠ 0` (mirrors allowed)
    and ANY rotation with rational (cos, sin), MINSERT grids included, at every nesting depth -/
theorem draw_eq_spec_uniform (doc : Doc) (ctx : Ctx) (ents : List Ent) (hd : DocUniform doc) (he : EntsUniform ents)
    (hr : reach doc (doc.blocks.length + 1) ents = true) :
    ∃ forest, unfold doc (doc.blocks.length + 1) ents = some forest ∧
      drawLayout doc ctx ents = .ok (Spec.flatten ctx none Aff.id 0 forest, State.init) := by
  have hnz : ∀ i, InsUniform i → i.sx ≠ 0 ∧ i.sy ≠ 0 := by
    intro i ⟨_, h2, h3⟩
    refine ⟨h2, ?_⟩
    rcases h3 with h | h <;> rw [h]
    · exact h2
    · exact neg_ne_zero.mpr h2
  refine draw_eq_spec doc ctx ents ?_ hr ?_
  · intro i hi
    exact ⟨(he i hi).1, (hnz i (he i hi)).1, (hnz i (he i hi)).2⟩
  · intro forest hf
    exact lawful_of_class (fun m => ∃ k, Similarity m k) InsUniform
      (fun m i hm hi => by obtain ⟨k, hk⟩ := hm; exact transformIns_ok_similarity m k i hk hi.1)
      (fun m i base hm hi => by
        obtain ⟨k, hk⟩ := hm
        exact ⟨_, similarity_comp _ _ _ _ (similarity_xfOf i base hi) hk⟩)
      copyIns_uniform gridCell_uniform hnz
      doc (fun b hb i hi => hd b hb i hi) _ ents Aff.id forest ⟨1, similarity_id⟩ he hf

/-- the hypotheses of `draw_eq_spec_quarter` are met by the depth-2 witness of F18 (non-uniform scale above a rotated
    reference) and by a MINSERT of it -/
example : DocQuarter wDoc ∧ EntsQuarter [.ins wOuter, .ins mOuter] := by
  refine ⟨?_, ?_⟩
  · intro b hb i hi
    simp [wDoc] at hb
    rcases hb with rfl | rfl <;> simp at hi
    subst hi
    exact ⟨Or.inr (Or.inl rfl), by simp [wInner], by simp [wInner]⟩
  · intro i hi
    simp at hi
    rcases hi with rfl | rfl
    · exact ⟨Or.inl rfl, by simp [wOuter], by simp [wOuter]⟩
    · exact ⟨Or.inr (Or.inl rfl), by simp [mOuter], by simp [mOuter]⟩

/-- the hypotheses of `draw_eq_spec_uniform` are met by the general-angle witness (3-4-5 below 5-12-13, mirrored) -/
example : DocUniform gDoc ∧ EntsUniform [.ins gOuter] := by
  refine ⟨?_, ?_⟩
  · intro b hb i hi
    simp [gDoc] at hb
    rcases hb with rfl | rfl <;> simp at hi
    subst hi
    exact ⟨by simp [UnitDir, gInner]; norm_num, by simp [gInner], by simp [gInner]⟩
  · intro i hi
    simp at hi; subst hi
    exact ⟨by simp [UnitDir, gOuter]; norm_num, by simp [gOuter], by simp [gOuter]⟩

/-! ## totality -/

/-- no error constructor is reachable for an acyclic closed document with a lawful block tree; the state is restored -/
theorem draw_total (doc : Doc) (ctx : Ctx) (fuel h : Nat) (ents : List Ent) (st : State) (he : EntsWF ents)
    (hr : reach doc fuel ents = true)
    (hl : ∀ forest, unfold doc fuel ents = some forest → forest.lawful Aff.id = true) :
    ∃ out, drawEnts doc ctx fuel h ents st = .ok (out, st) := by
  obtain ⟨f, hf⟩ := unfold_of_reach doc _ ents hr
  obtain ⟨ents', hmap, hdraw⟩ := draw_eq_spec_tree doc ctx _ ents Aff.id f hf (hl f hf)
  rw [mapE_transformEnt_id ents he] at hmap
  simp only [Except.ok.injEq] at hmap
  subst hmap
  exact ⟨_, hdraw h st⟩

/-- TOTALITY at full generality of the model (session 3): for an acyclic closed document the traversal never ends in
    RecursionError, DXFStructureError or IndexError - with or without MINSERT, for every rotation and every scale factors, ALSO when
    nested references are sheared and the explode fall-back is taken (no lawfulness hypothesis).  The only other outcomes are
    the two "outside the number field of the model" markers (`Outside`: irrational length, zero length axis), which are not
    exceptions of the code. -/
theorem draw_never_raises (doc : Doc) (ctx : Ctx) (fuel h : Nat) (ents : List Ent) (st : State)
    (hr : reach doc fuel ents = true) : ∀ e, drawEnts doc ctx fuel h ents st = .error e → Outside e :=
  EzdxfVerif.Render.draw_never_raises doc ctx fuel h ents st hr

/-- `virtual_block_reference_entities` with its explode fall-back never raises for an acyclic closed block graph, and what
    it yields is acyclic and closed again -/
theorem explode_never_raises (doc : Doc) (f : Nat) (m : Aff) (ents : List Ent) (hr : reach doc f ents = true) :
    match explode doc f m ents with
    | .ok out => reach doc f out = true
    | .error e => Outside e :=
  explode_good doc f m ents hr

-- non-vacuity: the F20 witness is acyclic and closed, and drawn without an error although its block tree is not lawful
#guard reach fDoc (fDoc.blocks.length + 1) [.ins sOuter]
#guard (drawLayout fDoc wCtx [.ins sOuter]).toOption.isSome

/-- reading of the specification at depth 2: properties are inherited down the chain of references, the point is mapped
    by the innermost reference first, the primitive carries the handle of the top level reference -/
theorem spec_depth2_geometry (ctx : Ctx) (i j : Ins) (bi bj : P2) (p : EProps) (a b : P2)
    (hi : i.attribs = []) (hj : j.attribs = []) (pi : Plain i) (pj : Plain j) (hp : p.handle = 0) (hjh : j.props.handle = 0)
    (vi : (resolveAll ctx none true false i.props).visible = true)
    (vj : (resolveAll ctx (some (resolveAll ctx none true false i.props)) true false j.props).visible = true)
    (vp : (resolveAll ctx (some (resolveAll ctx (some (resolveAll ctx none true false i.props)) true false j.props))
            false false p).visible = true) :
    Spec.flatten ctx none Aff.id 0 (.cons (.node i bi (.cons (.node j bj (.cons (.leaf .line p [a, b]) .nil)) .nil)) .nil) =
      [mkPrim .line
        (resolveAll ctx (some (resolveAll ctx (some (resolveAll ctx none true false i.props)) true false j.props)) false false p)
        i.props.handle
        [(xfOf i bi).apply ((xfOf j bj).apply a), (xfOf i bi).apply ((xfOf j bj).apply b)]] := by
  have hh : hOf i.props 0 = i.props.handle := by
    simp only [hOf]; split
    · rename_i h0; exact h0.symm
    · rfl
  simp [Spec.flatten, Spec.cellsPrims, cells_plain i pi, cells_plain j pj, vi, vj, vp, hi, hj, drawAttribs, Spec.mapAttribs,
    emitLeaf, apply_comp, (comp_id _).1, hh]
  simp [hOf, hp, hjh]

/-! ## decision logic of resolve_* -/

/-- layer "0" content takes the layer of the enclosing reference; everything else keeps its layer -/
theorem layer_zero_inherits (c : RProps) (e : EProps) :
    (e.layer = "0" → resolveLayer (some c) e = c.layer) ∧ (e.layer ≠ "0" → resolveLayer (some c) e = e.layer) ∧
    resolveLayer none e = e.layer := by
  refine ⟨fun h => by simp [resolveLayer, h], fun h => by simp [resolveLayer, h], rfl⟩

theorem color_true_color_wins (ctx : Ctx) (cur : Option RProps) (e : EProps) (lp : LayerProps) (v : Nat)
    (h : e.trueColor = some v) : (resolveColor ctx cur e lp).rgb = v &&& 0xFFFFFF := by
  simp [resolveColor, h, BYLAYER, BYBLOCK, trueEntityColor]

theorem color_bylayer (ctx : Ctx) (cur : Option RProps) (e : EProps) (lp : LayerProps)
    (h : e.trueColor = none) (hc : e.color = 256) :
    (resolveColor ctx cur e lp).rgb = if lp.hasAci7 then ctx.fg else lp.color.rgb := by
  simp [resolveColor, h, hc, BYLAYER]

theorem color_byblock (ctx : Ctx) (e : EProps) (lp : LayerProps) (h : e.trueColor = none) (hc : e.color = 0) :
    (∀ c, (resolveColor ctx (some c) e lp).rgb = c.color.rgb) ∧ (resolveColor ctx none e lp).rgb = ctx.fg := by
  constructor
  · intro c; simp [resolveColor, h, hc, BYLAYER, BYBLOCK]
  · simp [resolveColor, h, hc, BYLAYER, BYBLOCK]

theorem color_explicit (ctx : Ctx) (cur : Option RProps) (e : EProps) (lp : LayerProps)
    (h : e.trueColor = none) (h1 : 0 < e.color) (h2 : e.color < 256) :
    (resolveColor ctx cur e lp).rgb = if e.color = 7 then ctx.fg else ctx.aci.getD e.color.toNat 0 := by
  have hl : e.color ≠ 256 := by omega
  have hb : e.color ≠ 0 := by omega
  simp only [resolveColor, h, BYLAYER, BYBLOCK, trueEntityColor, aciToTrue, Option.isSome_none, Bool.false_eq_true,
    if_false, hl, hb, h1, h2, and_self, if_true]
  by_cases h7 : e.color = 7
  · simp [h7]
  · have : e.color.toNat ≠ 7 := by omega
    simp [h7, this]

/-- BYLAYER takes the colour of the RESOLVED layer (the reference's layer for layer "0" content) -/
theorem bylayer_uses_resolved_layer (ctx : Ctx) (cur : Option RProps) (b f : Bool) (e : EProps) (lp : LayerProps)
    (h : e.trueColor = none) (hc : e.color = 256) (hl : ctx.lookup (layerKey (resolveLayer cur e)) = some lp) :
    (resolveAll ctx cur b f e).color.rgb = if lp.hasAci7 then ctx.fg else lp.color.rgb := by
  simp [resolveAll, hl, color_bylayer ctx cur e lp h hc]

theorem linetype_rules (cur : Option RProps) (e : EProps) (lp : LayerProps) :
    (upper e.linetype = "BYLAYER" → resolveLinetype cur e lp = lp.linetype) ∧
    (upper e.linetype = "BYBLOCK" → resolveLinetype cur e lp = (match cur with | some c => c.linetype | none => "STANDARD")) ∧
    (upper e.linetype ≠ "BYLAYER" → upper e.linetype ≠ "BYBLOCK" → resolveLinetype cur e lp = upper e.linetype) := by
  refine ⟨fun h => by simp [resolveLinetype, h], fun h => ?_, fun h1 h2 => by simp [resolveLinetype, h1, h2]⟩
  have : ("BYBLOCK" : String) ≠ "BYLAYER" := by decide
  simp only [resolveLinetype, h, if_neg this, if_true]
  cases cur <;> rfl

/-- rules of `resolve_lineweight` when the plot style table does not override the lineweight of the entity's ACI
    (`hctb`; always the case for the default table, see `tie_plot_styles`); the override itself: `lineweight_ctb_override` -/
theorem lineweight_rules (ctx : Ctx) (cur : Option RProps) (e : EProps) (lp : LayerProps)
    (hctb : ctbLineweight ctx e.color = none) :
    (1 / 100 ≤ resolveLineweight ctx cur e lp) ∧
    (1 ≤ e.lineweight → resolveLineweight ctx cur e lp = (e.lineweight : Rat) / 100) ∧
    (e.lineweight = -1 → 1 / 100 < lp.lineweight → resolveLineweight ctx cur e lp = lp.lineweight) ∧
    (e.lineweight = -2 → ∀ c, cur = some c → 1 / 100 < c.lineweight → resolveLineweight ctx cur e lp = c.lineweight) ∧
    (e.lineweight = -2 → cur = none → resolveLineweight ctx cur e lp = 1 / 4) ∧
    (e.lineweight = -3 → resolveLineweight ctx cur e lp = 1 / 4) := by
  have key : ∀ lw : Rat, (1 / 100 : Rat) ≤ (if (1 / 100 : Rat) < lw then lw else 1 / 100) := by
    intro lw; split_ifs with h
    · exact le_of_lt h
    · exact le_refl _
  have inv : (100 : Rat)⁻¹ = 1 / 100 := by norm_num
  refine ⟨?_, ?_, ?_, ?_, ?_, ?_⟩
  · simp only [resolveLineweight, hctb, minLineweight]; exact key _
  · intro h
    have h1 : e.lineweight ≠ -1 := by omega
    have h2 : e.lineweight ≠ -2 := by omega
    have h3 : e.lineweight ≠ -3 := by omega
    have : (1 : Rat) ≤ (e.lineweight : Rat) := by exact_mod_cast h
    simp [resolveLineweight, hctb, LINEWEIGHT_BYLAYER, LINEWEIGHT_BYBLOCK, LINEWEIGHT_DEFAULT, h1, h2, h3, minLineweight]
    intro hle; rw [inv] at *; linarith
  · intro h hlp
    simp [resolveLineweight, hctb, LINEWEIGHT_BYLAYER, h, minLineweight]
    intro hle; rw [inv] at *; linarith
  · intro h c hc hlw
    simp [resolveLineweight, hctb, LINEWEIGHT_BYLAYER, LINEWEIGHT_BYBLOCK, h, hc, minLineweight]
    intro hle; rw [inv] at *; linarith
  · intro h hc
    simp [resolveLineweight, hctb, LINEWEIGHT_BYLAYER, LINEWEIGHT_BYBLOCK, h, hc, minLineweight, defaultLineweight]
    norm_num
  · intro h
    simp [resolveLineweight, hctb, LINEWEIGHT_BYLAYER, LINEWEIGHT_BYBLOCK, LINEWEIGHT_DEFAULT, h, minLineweight, defaultLineweight]
    norm_num

/-- INSERT visibility depends on the invisible flag only -/
theorem insert_visibility_ignores_layer (ctx : Ctx) (cur : Option RProps) (f : Bool) (e : EProps) :
    (resolveAll ctx cur true f e).visible = !e.invisible := by
  simp [resolveAll, resolveVisible]

/-- an entity (not an INSERT) is hidden iff it is flagged invisible or its RESOLVED layer is off, frozen or (export) not plotted -/
theorem leaf_hidden_iff (ctx : Ctx) (cur : Option RProps) (e : EProps) :
    (resolveAll ctx cur false false e).visible = false ↔
      (e.invisible = true ∨ ∃ lp, ctx.lookup (layerKey (resolveLayer cur e)) = some lp ∧ lp.visible = false) := by
  simp only [resolveAll, resolveVisible]
  cases hl : ctx.lookup (layerKey (resolveLayer cur e)) with
  | none => simp
  | some lp =>
    cases hv : lp.visible <;> simp [hv]

theorem layer_visible_iff (fg : Nat) (aci : List Nat) (ex : Bool) (l : RawLayer) :
    (resolveLayerProps fg aci ex l).visible = true ↔
      (0 ≤ l.color ∧ l.flags &&& 1 = 0 ∧ (ex = true → l.plot = true)) := by
  cases ex <;> simp [resolveLayerProps, FROZEN]
  all_goals tauto

/-- the plot style table overrides the lineweight by the RAW ACI of the entity (BYLAYER/BYBLOCK entities are never
    overridden, whatever colour they resolve to); the minimum 0.01 mm still applies -/
theorem lineweight_ctb_override (ctx : Ctx) (cur : Option RProps) (e : EProps) (lp : LayerProps) (w : Rat)
    (h : ctbLineweight ctx e.color = some w) :
    resolveLineweight ctx cur e lp = (if 1 / 100 < w then w else 1 / 100) ∧
    (∀ c : Int, (c = 256 ∨ c = 0 ∨ c = 257) → ctbLineweight ctx c = none) := by
  constructor
  · simp [resolveLineweight, h, minLineweight]
  · intro c hc
    rcases hc with rfl | rfl | rfl <;> simp [ctbLineweight]

/-- invisible / hidden entities emit nothing and leave the state alone -/
theorem invisible_nothing (doc : Doc) (ctx : Ctx) (fuel h : Nat) (es : List Ent) (st : State) :
    (∀ k p pts, (resolveAll ctx st.current false false p).visible = false →
      drawEnts doc ctx fuel h (.leaf k p pts :: es) st = drawEnts doc ctx fuel h es st) ∧
    (∀ i : Ins, i.props.invisible = true →
      drawEnts doc ctx fuel h (.ins i :: es) st = drawEnts doc ctx fuel h es st) := by
  constructor
  · intro k p pts hv
    rw [drawEnts_cons]; simp only [drawOne, hv]
    cases hr : drawEnts doc ctx fuel h es st with
    | error x => simp [hr]
    | ok v => obtain ⟨o, s⟩ := v; simp [hr]
  · intro i hi
    have hv : (resolveAll ctx st.current true false i.props).visible = false := by
      simp [insert_visibility_ignores_layer, hi]
    rw [drawEnts_cons]; simp only [drawOne, hv]
    cases hr : drawEnts doc ctx fuel h es st with
    | error x => simp [hr]
    | ok v => obtain ⟨o, s⟩ := v; simp [hr]

/-! ## the filter pipeline of `draw_layout` / `_draw_entities` -/

/-- `filter_func` acts on the entities of the layout only: an entity it rejects contributes nothing and does not touch the
    state; block content is never filtered (the nested `draw_entities` calls do not get the filter) -/
theorem filter_top_level_only (doc : Doc) (ctx : Ctx) (keep : Ent → Bool) (e : Ent) (es : List Ent) :
    (keep e = false → drawLayoutFiltered doc ctx keep (e :: es) = drawLayoutFiltered doc ctx keep es) ∧
    (keep e = true → drawLayoutFiltered doc ctx keep (e :: es) = drawLayout doc ctx (e :: es.filter keep)) ∧
    ((∀ x, keep x = true) → drawLayoutFiltered doc ctx keep es = drawLayout doc ctx es) := by
  refine ⟨fun h => by simp [drawLayoutFiltered, List.filter_cons, h],
    fun h => by simp [drawLayoutFiltered, List.filter_cons, h], fun h => ?_⟩
  have : es.filter keep = es := List.filter_eq_self.mpr (fun x _ => h x)
  simp [drawLayoutFiltered, this]

/-- a filter that rejects the LINE entities of the layout does not remove the LINE inside the referenced block -/
def keepNoLine : Ent → Bool
  | .leaf .line _ _ => false
  | _ => true
#guard (drawLayoutFiltered wDoc wCtx keepNoLine [.leaf .line p0 [⟨0, 0⟩, ⟨9, 9⟩], .ins wOuter]).toOption.map
  (fun r => r.1.map (fun pr => (pr.kind, pr.pts))) = some [(.line, [⟨0, 0⟩, ⟨0, 1⟩])]

/-- `draw_layout` with a redraw order table (ACAD_SORTENTS): every entity of the layout is drawn exactly once (a
    permutation), in ascending order of its sort handle (the table entry, else the own handle; 0 sorts last); without a table
    the layout order is kept.  (Equal sort handles keep the layout order: stable merge sort = the (sort handle, index) heap.) -/
theorem redraw_order_rules (mapping : List (Nat × Nat)) (ents : List Ent) :
    (redrawOrder mapping ents).Perm ents ∧
    (mapping = [] → redrawOrder mapping ents = ents) ∧
    (mapping ≠ [] → (redrawOrder mapping ents).Pairwise (fun a b => sortHandle mapping a ≤ sortHandle mapping b)) := by
  refine ⟨?_, ?_, ?_⟩
  · simp only [redrawOrder]
    split
    · exact List.Perm.refl _
    · exact List.mergeSort_perm _ _
  · intro h; simp [redrawOrder, h]
  · intro h
    have hne : mapping.isEmpty = false := by cases mapping <;> simp_all
    simp only [redrawOrder, hne, Bool.false_eq_true, if_false]
    have := List.pairwise_mergeSort (le := fun a b => decide (sortHandle mapping a ≤ sortHandle mapping b))
      (by intro a b c h1 h2; simp only [decide_eq_true_eq] at *; omega)
      (by intro a b; simp only [Bool.or_eq_true, decide_eq_true_eq]; omega) ents
    simpa using this

#guard (redrawOrder [(5, 0), (7, 2)] [.leaf .line { p0 with handle := 5 } [], .leaf .line { p0 with handle := 6 } [],
  .leaf .line { p0 with handle := 7 } []]).map entHandle = [7, 6, 5]

/-- ATTDEF entities are drawn only as entities of the layout itself: block content never yields an ATTDEF entity, with or
    without the explode fall-back, at any nesting depth -/
theorem attdef_never_from_block (doc : Doc) (f : Nat) (m : Aff) (blk : Block) (ents : List Ent)
    (h : virtualEntities doc f m blk = .ok ents) : ∀ e ∈ ents, isAttdef e = false := by
  have hcopy : ∀ b : Block, ∀ e ∈ blockCopies b, isAttdef e = false := by
    intro b e he
    simp only [blockCopies, List.mem_map, List.mem_filter] at he
    obtain ⟨e0, ⟨_, hf⟩, rfl⟩ := he
    cases e0 with
    | leaf k p pts => cases k <;> simp_all [copyEnt, isAttdef]
    | ins i => rfl
  refine explode_pred doc (fun e => isAttdef e = false) hcopy ?_ ?_ f m (blockCopies blk) ents (hcopy blk) h
  · intro k p pts pts' hq; cases k <;> simp_all [isAttdef]
  · intro m i i' _ _; rfl

/-- `_draw_viewports`: only viewports with a positive status are drawn, each at most once, never more than were given -/
theorem viewports_drawn_rules {α : Type} (status : α → Int) (l : List α) :
    (∀ v ∈ selectVps status l, 0 < status v ∧ v ∈ l) ∧ (selectVps status l).length ≤ l.length := by
  have hmem : ∀ v ∈ (l.mergeSort (fun a b => decide (status a ≤ status b))).filter (fun v => decide (0 < status v)),
      0 < status v ∧ v ∈ l := by
    intro v hv
    simp only [List.mem_filter, List.mem_mergeSort, decide_eq_true_eq] at hv
    exact ⟨hv.2, hv.1⟩
  have hlen : ((l.mergeSort (fun a b => decide (status a ≤ status b))).filter (fun v => decide (0 < status v))).length ≤ l.length := by
    calc _ ≤ (l.mergeSort (fun a b => decide (status a ≤ status b))).length := List.length_filter_le _ _
      _ = l.length := List.length_mergeSort _
  simp only [selectVps]
  split
  · simp
  · rename_i v rest heq
    rw [heq] at hmem hlen
    split
    · exact ⟨fun s hs => hmem s (List.mem_cons_of_mem _ hs), by simp at hlen ⊢; omega⟩
    · exact ⟨hmem, hlen⟩

#guard viewportsDrawn [2, 1, 0, -1, 3] = [2, 3]
#guard viewportsDrawn [2, 3] = [2, 3]
#guard viewportsDrawn [1, 1] = [1]

/-! ## layer tables: VIEWPORT frozen layers, layer property overrides -/

private theorem lookup_map {α : Type} (ls : List α) (g : α → String × LayerProps) (key : String) (lp : LayerProps)
    (h : ((ls.map g).find? (fun p => p.1 = key)).map (·.2) = some lp) : ∃ l ∈ ls, (g l).1 = key ∧ (g l).2 = lp := by
  induction ls with
  | nil => simp at h
  | cons l ls ih =>
    simp only [List.map_cons, List.find?_cons] at h
    split at h
    · rename_i hk
      simp at h hk
      exact ⟨l, List.mem_cons_self, hk, h⟩
    · obtain ⟨l', hl', h1, h2⟩ := ih h
      exact ⟨l', List.mem_cons_of_mem _ hl', h1, h2⟩

/-- a layer frozen in the VIEWPORT (`vp.frozen_layers`, any spelling) is hidden in the viewport's layer table, whatever its
    state in the document and whatever per-viewport property overrides it has; with `nothing_on_hidden_layers` nothing of
    the viewport content is drawn on it -/
theorem vp_frozen_hidden (fg : Nat) (aci : List Nat) (ex : Bool) (ls : List (RawLayer × Option VpOverride))
    (frozen : List String) (name : String) (lp : LayerProps) (hf : name ∈ frozen)
    (hl : (mkVpCtxOv fg aci ex ls frozen).lookup (layerKey name) = some lp) : lp.visible = false := by
  simp only [mkVpCtxOv, Ctx.lookup] at hl
  obtain ⟨l, _, h1, h2⟩ := lookup_map ls _ _ _ hl
  simp only at h1 h2
  have hc : ∀ k, k = layerKey name → (frozen.map layerKey).contains k = true := by
    intro k hk
    rw [hk]; simp only [List.contains_eq_mem, List.mem_map, decide_eq_true_eq]; exact ⟨name, hf, rfl⟩
  rw [hc _ h1] at h2
  simp at h2
  rw [← h2]

/-- per-viewport property overrides (`_apply_layer_overrides`) change colour, transparency, linetype and lineweight of a layer
    but never its name nor its visibility: they cannot switch a layer on or off, thaw it or make it plottable -/
theorem vp_override_keeps_state (fg : Nat) (aci : List Nat) (ex : Bool) (l : RawLayer) (o : VpOverride)
    (ho : o.aci ≠ 0) :   -- `LayerOverrides.set_color` rejects ACI 0 / 256 / 257 (`is_valid_layer_color_index`)
    (resolveLayerProps fg aci ex (applyOverride l o)).visible = (resolveLayerProps fg aci ex l).visible ∧
    (resolveLayerProps fg aci ex (applyOverride l o)).layer = (resolveLayerProps fg aci ex l).layer ∧
    (resolveLayerProps fg aci ex (applyOverride l o)).linetype = upper o.linetype := by
  refine ⟨?_, rfl, rfl⟩
  rw [Bool.eq_iff_iff, layer_visible_iff, layer_visible_iff]
  have hc : 0 ≤ (applyOverride l o).color ↔ 0 ≤ l.color := by
    simp only [applyOverride]
    split <;> omega
  have hf : (applyOverride l o).flags = l.flags := rfl
  have hp : (applyOverride l o).plot = l.plot := rfl
  rw [hc, hf, hp]

example : (⟨3, none, 0x020000FF, "DASHED", 50⟩ : VpOverride).aci ≠ 0 := by decide

/-- the content of a VIEWPORT (fix 0ff4be141: the context of the viewport is used at every nesting depth): whatever is drawn
    for the modelspace entities with the viewport's layer table - layout entities, block content, ATTRIBs, at any depth -
    nothing is on a layer that is frozen in the viewport and defined in the layer table -/
theorem vp_frozen_nothing_drawn (doc : Doc) (fg : Nat) (aci : List Nat) (ex : Bool) (ls : List RawLayer) (v : Vp)
    (msp : List Ent) (out : List Prim) (st : State)
    (hd : drawLayout doc (vpCtx fg aci ex ls v) msp = .ok (out, st)) :
    ∀ pr ∈ out, ∀ name ∈ v.frozen, layerKey pr.layer = layerKey name → (vpCtx fg aci ex ls v).lookup (layerKey name) = none := by
  intro pr hpr name hn hk
  have hs := nothing_on_hidden_layers doc (vpCtx fg aci ex ls v) _ 0 msp State.init out st hd pr hpr
  cases hl : (vpCtx fg aci ex ls v).lookup (layerKey name) with
  | none => rfl
  | some lp =>
    have h1 : lp.visible = false := vp_frozen_hidden fg aci ex _ v.frozen name lp hn hl
    have h2 : lp.visible = true := hs lp (by rw [hk]; exact hl)
    rw [h1] at h2; simp at h2

/-- what a paperspace layout with viewports sends to the backend: its own entities, then for every selected viewport the
    modelspace drawn with the viewport's context and mapped by the viewport matrix (coordinates only: properties, layers
    and handles are those of the modelspace entities) -/
theorem viewport_content_mapped (m : Aff) (ps : List Prim) :
    (mapPrims m ps).length = ps.length ∧
    ∀ p ∈ mapPrims m ps, ∃ q ∈ ps, p.pts = q.pts.map m.apply ∧ p.layer = q.layer ∧ p.color = q.color ∧ p.pen = q.pen ∧
      p.lineweight = q.lineweight ∧ p.linetype = q.linetype ∧ p.handle = q.handle ∧ p.kind = q.kind := by
  constructor
  · simp [mapPrims]
  · intro p hp
    simp only [mapPrims, List.mem_map] at hp
    obtain ⟨q, hq, rfl⟩ := hp
    exact ⟨q, hq, rfl, rfl, rfl, rfl, rfl, rfl, rfl, rfl⟩

/-- what a per-viewport override puts into the layer table of the viewport: pen = the override ACI with the sign (on/off
    state) of the layer, lineweight = the override lineweight (negative: the default 0.25 mm), linetype in upper case -/
theorem vp_override_values (fg : Nat) (aci : List Nat) (ex : Bool) (l : RawLayer) (o : VpOverride) :
    (resolveLayerProps fg aci ex (applyOverride l o)).pen = (if 0 ≤ l.color then (o.aci.natAbs : Int) else -(o.aci.natAbs : Int)) ∧
    (resolveLayerProps fg aci ex (applyOverride l o)).lineweight =
      (if o.lineweight < 0 then 1 / 4 else (o.lineweight : Rat) / 100) ∧
    (resolveLayerProps fg aci ex (applyOverride l o)).linetype = upper o.linetype := by
  refine ⟨rfl, ?_, rfl⟩
  simp [resolveLayerProps, applyOverride, defaultLineweight]

/-- `set_layer_properties_override`: the traversal sees exactly the edited table (same keys, edited properties) -/
theorem override_lookup (ctx : Ctx) (f : LayerProps → LayerProps) (key : String) :
    (ctx.overrideLayers f).lookup key = (ctx.lookup key).map f := by
  simp only [Ctx.overrideLayers, Ctx.lookup]
  induction ctx.layers with
  | nil => rfl
  | cons p ps ih =>
    simp only [List.map_cons, List.find?_cons]
    cases hq : decide (p.1 = key)
    · simpa only [hq] using ih
    · simp [hq]

/-! ## MINSERT -/

private theorem eraseDups_length_le {α : Type} [BEq α] : ∀ (n : Nat) (l : List α), l.length ≤ n → l.eraseDups.length ≤ l.length := by
  intro n
  induction n with
  | zero => intro l hl; cases l with
    | nil => simp
    | cons a as => simp at hl
  | succ n ih =>
    intro l hl
    cases l with
    | nil => simp
    | cons a as =>
      rw [List.eraseDups_cons]
      simp only [List.length_cons] at hl ⊢
      have h1 : (as.filter (fun b => !b == a)).length ≤ as.length := List.length_filter_le _ _
      have h2 := ih (as.filter (fun b => !b == a)) (by omega)
      omega

/-- `Insert.mcount`/`multi_insert`: without a non-zero spacing there is one element (the reference itself, attribs and handle
    untouched); every grid element is a virtual copy with the rotation, scale factors, extrusion and block of the MINSERT
    and no grid of its own; there are at most `rows * cols` elements -/
theorem minsert_rules (i : Ins) :
    (mcount i ≤ 1 → cells i = [i]) ∧
    (1 < mcount i → ∀ c ∈ cells i, c.dir = i.dir ∧ c.sx = i.sx ∧ c.sy = i.sy ∧ c.flip = i.flip ∧ c.name = i.name ∧
      c.props = clearHandle i.props ∧ mcount c = 1) ∧
    (cells i).length ≤ max 1 (i.rows * i.cols) := by
  refine ⟨fun h => by simp [cells, Nat.not_lt.mpr h], fun h c hc => ?_, ?_⟩
  · simp only [cells, h, if_true, multiInsert, List.mem_map] at hc
    obtain ⟨off, _, rfl⟩ := hc
    simp [gridCell, copyIns, mcount]
  · simp only [cells]
    split
    · simp only [multiInsert, List.length_map, gridOffsets]
      refine le_trans (eraseDups_length_le _ _ (le_refl _)) ?_
      simp [List.length_flatMap]
    · simp

/-- the grid of a MINSERT: the element at the OCS offset `off` = (column * column_spacing, row * row_spacing) is the reference
    itself translated by `off` turned by the rotation of the reference (and taken to the WCS) - the spacing is measured along
    the rotated axes and is NOT scaled; rotation, scale factors, extrusion, block and base point are those of the reference -/
theorem minsert_cell_matrix (i : Ins) (off : P2) (base : P2) :
    xfOf (gridCell i off) base =
      { xfOf i base with tx := (xfOf i base).tx + (ocsFlip i.flip (rotateBy i.dir off)).x,
                         ty := (xfOf i base).ty + (ocsFlip i.flip (rotateBy i.dir off)).y } :=
  xfOf_gridCell i off base

/-! ## BackendProperties.handle (fix 3c8d4c469) -/

/-- everything drawn for a list of virtual entities (the content of a block reference at ANY nesting depth, the grid elements
    of a MINSERT, nested references and their ATTRIBs) carries the handle `h` that was current when the list was
    entered - the handle of the top level entity -/
theorem handle_rule (doc : Doc) (ctx : Ctx) (fuel h : Nat) (ents : List Ent) (st : State) (out : List Prim) (st' : State)
    (hv : ∀ e ∈ ents, VirtualEnt e) (hd : drawEnts doc ctx fuel h ents st = .ok (out, st')) :
    ∀ pr ∈ out, pr.handle = h :=
  EzdxfVerif.Render.handle_rule doc ctx fuel h ents st out st' hv hd

/-- what `virtual_block_reference_entities` yields is virtual (copies without handles), so `handle_rule` applies to it -/
theorem block_content_is_virtual (doc : Doc) (f : Nat) (m : Aff) (blk : Block) (ents : List Ent)
    (h : virtualEntities doc f m blk = .ok ents) : ∀ e ∈ ents, VirtualEnt e :=
  virtualEntities_virtual doc f m blk ents h

/-- a top level entity with handle `k`: a leaf entity is reported under `k`; of a block reference everything - block content at
    any depth, every grid element of a MINSERT - is reported under `k`, except its directly attached ATTRIB entities, which
    are database entities and are reported under their own handle -/
theorem handle_top_level (doc : Doc) (ctx : Ctx) (fuel h : Nat) (e : Ent) (st : State) (out : List Prim) (st' : State)
    (hd : drawEnts doc ctx fuel h [e] st = .ok (out, st')) :
    match e with
    | .leaf _ p _ => p.handle ≠ 0 → ∀ pr ∈ out, pr.handle = p.handle
    | .ins i => i.props.handle ≠ 0 → ∀ pr ∈ out, pr.handle = i.props.handle ∨
        (pr.kind = .attrib ∧ ∃ a ∈ i.attribs, a.props.handle ≠ 0 ∧ pr.handle = a.props.handle) :=
  EzdxfVerif.Render.handle_top_level doc ctx fuel h e st out st' hd

/-- non-vacuity: a top level INSERT #77 with an ATTRIB #78: the ATTRIB is reported under 78, the block content under 77 -/
def hIns : Ins := ⟨{ p0 with handle := 77 }, "INNER", ⟨0, 0⟩, 1, 1, ⟨1, 0⟩, false, [⟨{ p0 with handle := 78 }, false, ⟨3, 3⟩⟩], 1, 1, 0, 0⟩
#guard (drawLayout wDoc wCtx [.ins hIns]).toOption.map (fun r => r.1.map (fun pr => (pr.kind, pr.handle))) =
  some [(.attrib, 78), (.line, 77)]

/-! ## the pipeline stage between front end and backend (follow-up of session 3) -/

/-- `RenderPipeline2d.get_backend_properties`: the colour cache is transparent - whatever was drawn before in the same rendering,
    every primitive gets the colour policy applied to ITS OWN resolved colour, alpha included (seeded change C18-m4 keys the
    cache by the RGB part only and is the negation of this statement); the cache stays consistent -/
theorem color_cache_transparent (f : Color → Color) (cache : List (Color × Color)) (ps : List Prim) (hc : CacheOk f cache) :
    (pipelineColors f cache ps).1 = ps.map (fun p => { p with color := f p.color }) ∧
    CacheOk f (pipelineColors f cache ps).2 :=
  pipelineColors_ok f ps cache hc

/-- one rendering: the backend receives, primitive by primitive, the colour policy of the resolved colour; everything else
    (layer, pen, lineweight, handle, coordinates, order, number) is untouched -/
theorem backend_stage_pointwise (pol : ColorPolicy) (custom : Color) (gray : Nat → Nat) (ps : List Prim) :
    backendStage pol custom gray ps = ps.map (fun p => { p with color := applyColorPolicy pol custom gray p.color }) :=
  (pipelineColors_ok _ ps [] (by intro p hp; simp at hp)).1

/-- the colour policies: COLOR is the identity; every policy except CUSTOM keeps the alpha of the entity; CUSTOM replaces
    colour and alpha by `custom_fg_color`; SWAP_BW exchanges exactly black and white -/
theorem color_policy_rules (pol : ColorPolicy) (custom : Color) (gray : Nat → Nat) (c : Color) :
    applyColorPolicy .color custom gray c = c ∧
    (pol ≠ .custom → (applyColorPolicy pol custom gray c).alpha = c.alpha) ∧
    applyColorPolicy .custom custom gray c = custom ∧
    (c.rgb ≠ 0 → c.rgb ≠ 0xFFFFFF → applyColorPolicy .swapBW custom gray c = c) := by
  refine ⟨rfl, ?_, rfl, ?_⟩
  · intro h; cases pol <;> first | rfl | exact absurd rfl h
  · intro h1 h2; cases c; simp_all [applyColorPolicy]

/-- background policy → foreground colour (what ACI 7 / BYLAYER-7 / layout BYBLOCK resolve to): white on the dark backgrounds
    (modelspace default, BLACK, MODELSPACE, a dark custom colour), black otherwise (paperspace default, WHITE, PAPERSPACE, OFF) -/
theorem layout_fg_rules (customDark : Bool) :
    layoutFg .default true customDark = 0xFFFFFF ∧ layoutFg .default false customDark = 0 ∧
    (∀ isMsp, layoutFg .white isMsp customDark = 0 ∧ layoutFg .black isMsp customDark = 0xFFFFFF ∧
      layoutFg .paperspace isMsp customDark = 0 ∧ layoutFg .modelspace isMsp customDark = 0xFFFFFF ∧
      layoutFg .off isMsp customDark = 0 ∧ layoutFg .custom isMsp customDark = (if customDark then 0xFFFFFF else 0)) := by
  refine ⟨rfl, rfl, fun isMsp => ⟨rfl, rfl, rfl, rfl, rfl, ?_⟩⟩
  cases customDark <;> rfl

/-- the background policy changes the foreground colour used per entity, NOT the colours of the layer table, which `set_current_layout`
    resolved before (`mkCtxBg`, quirk of the code: a layer colour from ACI 7 without the `has_aci_color_7` mark keeps the layout's default
    foreground); with the DEFAULT policy both coincide -/
theorem layer_colours_ignore_background_policy (bg : BgPolicy) (isMsp customDark : Bool) (aci : List Nat) (ex : Bool) (ls : List RawLayer) :
    (mkCtxBg bg isMsp customDark aci ex ls).layers = (mkCtx (layoutFg .default isMsp customDark) aci ex ls).layers ∧
    (mkCtxBg bg isMsp customDark aci ex ls).fg = layoutFg bg isMsp customDark ∧
    mkCtxBg .default isMsp customDark aci ex ls = mkCtx (layoutFg .default isMsp customDark) aci ex ls :=
  ⟨rfl, rfl, rfl⟩

/-- 3DFACE (fix bb5ad742d): hidden by its invisible flag and by the state of its resolved layer like every other entity,
    and additionally when all four edges are invisible -/
theorem face3d_hidden_rules (ctx : Ctx) (allEdgesHidden : Bool) (key : String) (e : EProps) :
    (allEdgesHidden = true → resolveVisibleFace ctx allEdgesHidden key e = false) ∧
    (e.invisible = true → resolveVisibleFace ctx allEdgesHidden key e = false) ∧
    (∀ lp, ctx.lookup key = some lp → lp.visible = false → resolveVisibleFace ctx allEdgesHidden key e = false) ∧
    (allEdgesHidden = false → resolveVisibleFace ctx allEdgesHidden key e = resolveVisible ctx false false key e) := by
  refine ⟨fun h => by simp [resolveVisibleFace, h], fun h => ?_, fun lp h1 h2 => ?_, fun h => by simp [resolveVisibleFace, h]⟩
  · cases allEdgesHidden <;> simp [resolveVisibleFace, resolveVisible, h]
    cases ctx.lookup key <;> simp
  · cases allEdgesHidden <;> simp [resolveVisibleFace, resolveVisible, h1, h2]

/-! ## final round: the hypothesis of draw = specification is exactly "no reference raises" -/

/-- `Forest.lawful` (the decidable hypothesis of `draw_eq_spec`) asks four things at every reference: `Insert.transform` does not raise,
    properties and block name survive, the grid elements agree.  The last three are THEOREMS (`transformIns_lawful_general`,
    `minsert_cells_lawful`), so for block trees with non-zero scale factors the hypothesis is exactly: the list `Forest.failing`
    of references at which `Insert.transform` raises under the accumulated matrix is empty -/
theorem lawful_iff_no_reference_raises (f : Forest) (m : Aff) (hnz : f.scalesNZ = true) :
    f.lawful m = true ↔ f.failing m = [] :=
  lawful_iff_failing_nil f m hnz

/-- draw = specification with the hypothesis in its final form: acyclic closed document, well-formed layout references, non-zero scale
    factors, and NO reference at which `Insert.transform` raises (no lawfulness check left) -/
theorem draw_eq_spec_no_raise (doc : Doc) (ctx : Ctx) (ents : List Ent) (he : EntsWF ents)
    (hr : reach doc (doc.blocks.length + 1) ents = true)
    (hf : ∀ forest, unfold doc (doc.blocks.length + 1) ents = some forest → forest.scalesNZ = true ∧ forest.failing Aff.id = []) :
    ∃ forest, unfold doc (doc.blocks.length + 1) ents = some forest ∧
      drawLayout doc ctx ents = .ok (Spec.flatten ctx none Aff.id 0 forest, State.init) :=
  draw_eq_spec doc ctx ents he hr (fun forest hu => (lawful_iff_failing_nil forest Aff.id (hf forest hu).1).mpr (hf forest hu).2)

/-- JUSTIFICATION OF THE ORACLE KEY `explode-fallback/` (finding F20): whenever what `draw_layout` sends to the backend differs in ANY
    way from what the document defines - another primitive, property, handle, coordinate, order, an error - the block tree contains a
    reference at which `Insert.transform` raises under the matrix accumulated on the way to it, and the reason is the explode
    fall-back (axes not orthogonal, `fallback_iff_not_orthogonal`) or one of the two "outside the number field" markers.  Layouts
    without such a reference are drawn exactly as specified. -/
theorem draw_differs_only_with_raising_reference (doc : Doc) (ctx : Ctx) (ents : List Ent) (forest : Forest) (he : EntsWF ents)
    (hr : reach doc (doc.blocks.length + 1) ents = true)
    (hu : unfold doc (doc.blocks.length + 1) ents = some forest) (hnz : forest.scalesNZ = true)
    (hne : drawLayout doc ctx ents ≠ .ok (Spec.flatten ctx none Aff.id 0 forest, State.init)) :
    ∃ p ∈ forest.failing Aff.id, (p.2 = .fallback ∨ Outside p.2) ∧ ∃ acc, transformIns acc p.1 = .error p.2 := by
  cases hfl : forest.failing Aff.id with
  | nil =>
    exfalso
    obtain ⟨f', hu', hd⟩ := draw_eq_spec_no_raise doc ctx ents he hr (fun f hf => by
      rw [hu] at hf; simp at hf; subst hf; exact ⟨hnz, hfl⟩)
    rw [hu] at hu'; simp at hu'; subst hu'
    exact hne hd
  | cons p ps =>
    have hp : p ∈ forest.failing Aff.id := by rw [hfl]; exact List.mem_cons_self
    exact ⟨p, List.mem_cons_self, failing_reason forest Aff.id p hp⟩

-- non-vacuity: the F20 witness has exactly one raising reference (INNER below OUTER, reason fall-back); the lawful witnesses have none
#guard (unfold fDoc 3 [.ins sOuter]).map (fun f => ((f.failing Aff.id).map (fun p => (p.1.name, p.2)), f.scalesNZ)) =
  some ([("INNER", .fallback)], true)
#guard (unfold gDoc 3 [.ins gOuter]).map (fun f => (f.failing Aff.id).length) = some 0
#guard (unfold wDoc 3 [.ins mOuter]).map (fun f => ((f.failing Aff.id).length, f.scalesNZ)) = some (0, true)

/-- what `draw_layout` sends to the backend is the concatenation, in order, of what each entity of the layout sends when it is drawn
    on its own; the block reference state is back at its initial value between the entities (no entity influences another one) -/
theorem layout_is_concatenation (doc : Doc) (ctx : Ctx) (pre post : List Ent) (e : Ent) (out : List Prim) (st : State)
    (h : drawLayout doc ctx (pre ++ e :: post) = .ok (out, st)) :
    ∃ o1 o2 o3, drawLayout doc ctx pre = .ok (o1, State.init) ∧ drawLayout doc ctx [e] = .ok (o2, State.init) ∧
      drawLayout doc ctx post = .ok (o3, State.init) ∧ out = o1 ++ o2 ++ o3 ∧ st = State.init :=
  drawLayout_split doc ctx pre post e out st h

/-- WHICH primitives can differ in a layout that takes the explode fall-back (finding F20): only those of the layout entities whose OWN
    block tree contains a raising reference.  Every other entity of the same layout - wherever it stands, whatever its neighbours do -
    contributes exactly the primitives the document defines for it, at its place in the output -/
theorem f20_confined_to_entities_with_raising_reference (doc : Doc) (ctx : Ctx) (pre post : List Ent) (e : Ent)
    (out : List Prim) (st : State) (forest : Forest)
    (h : drawLayout doc ctx (pre ++ e :: post) = .ok (out, st)) (he : EntsWF [e])
    (hr : reach doc (doc.blocks.length + 1) [e] = true) (hu : unfold doc (doc.blocks.length + 1) [e] = some forest)
    (hnz : forest.scalesNZ = true) (hf : forest.failing Aff.id = []) :
    ∃ o1 o3, out = o1 ++ Spec.flatten ctx none Aff.id 0 forest ++ o3 ∧
      drawLayout doc ctx pre = .ok (o1, State.init) ∧ drawLayout doc ctx post = .ok (o3, State.init) := by
  obtain ⟨o1, o2, o3, h1, h2, h3, ho, _⟩ := drawLayout_split doc ctx pre post e out st h
  obtain ⟨f', hu', hd⟩ := draw_eq_spec_no_raise doc ctx [e] he hr (fun f hf' => by
    rw [hu] at hf'; simp at hf'; subst hf'; exact ⟨hnz, hf⟩)
  rw [hu] at hu'; simp at hu'; subst hu'
  rw [hd] at h2; simp at h2
  exact ⟨o1, o3, by rw [ho, ← h2], h1, h3⟩

-- non-vacuity: a layout with the F20 reference AND a lawful one: the lawful entity keeps its specified primitive
#guard (drawLayout fDoc wCtx [.ins sOuter, .leaf .line p0 [⟨0, 0⟩, ⟨1, 1⟩]]).toOption.map (fun r => r.1.map (fun pr => pr.pen)) = some [3, 7]

/-! ## final round: HATCH decision logic -/

/-- `draw_hatch_entity` stated outright: IGNORE (and a HATCH without filling) draws nothing; SHOW_OUTLINE never fills and never draws the
    pattern: one unfilled path per boundary loop; SHOW_SOLID fills regardless of pattern or gradient; NORMAL / SHOW_APPROXIMATE_PATTERN draw
    the pattern lines for a pattern filling - unless the pattern is too dense, then (like solid and gradient fillings) ONE filled-paths call
    with all loops; a HATCH without boundary loop sends nothing in every mode that needs loops -/
theorem hatch_decision_rules (hasFilling : Bool) (pol : HatchPolicy) (ft : FillType) (dense : Bool) (loops : Nat) :
    (hasFilling = false ∨ pol = .ignore → hatchDecision hasFilling pol ft dense loops = .nothing) ∧
    (hasFilling = true → 0 < loops → hatchDecision true .showOutline ft dense loops = .outline loops ∧
      hatchDecision true .showSolid ft dense loops = .filled loops) ∧
    (hasFilling = true → (pol = .normal ∨ pol = .approx) → ft = .pattern → dense = false →
      hatchDecision hasFilling pol ft dense loops = .patternLines) ∧
    (hasFilling = true → (pol = .normal ∨ pol = .approx) → (ft ≠ .pattern ∨ dense = true) → 0 < loops →
      hatchDecision hasFilling pol ft dense loops = .filled loops) ∧
    (∀ n, hatchDecision hasFilling .showOutline ft dense loops ≠ .filled n ∧
      hatchDecision hasFilling .showOutline ft dense loops ≠ .patternLines) := by
  refine ⟨?_, ?_, ?_, ?_, ?_⟩
  · rintro (h | h)
    · subst h; simp [hatchDecision]
    · subst h; cases hasFilling <;> simp [hatchDecision]
  · intro _ hl; have : loops ≠ 0 := by omega
    simp [hatchDecision, this]
  · intro h hp hf hd; subst h hf hd
    rcases hp with rfl | rfl <;> simp [hatchDecision]
  · intro h hp hf hl; subst h
    have hl' : loops ≠ 0 := by omega
    rcases hp with rfl | rfl <;> rcases hf with hf | hf <;> cases ft <;> cases dense <;> simp_all [hatchDecision]
  · intro n
    cases hasFilling <;> simp [hatchDecision] <;> split <;> simp

#guard hatchDecision true .normal .pattern false 2 = .patternLines ∧ hatchDecision true .normal .pattern true 2 = .filled 2 ∧
  hatchDecision true .showOutline .gradient false 2 = .outline 2 ∧ hatchDecision true .ignore .solid false 2 = .nothing

/-! ## final round: lineweight scaling of the backends -/

/-- `Configuration.min_lineweight` / `lineweight_scaling` as the vector backends apply them: the stroke width is never below the
    minimum, the minimum never below 0.05 mm; scaling 0 gives every stroke the SAME fixed width (the minimum); otherwise the width is
    the scaled lineweight wherever that exceeds the minimum, and it is monotone in the lineweight for a non-negative scaling -/
theorem backend_lineweight_rules (cfgMin : Option Rat) (scaling lw lw' : Rat) :
    1 / 20 ≤ backendMinLineweight cfgMin ∧
    backendMinLineweight cfgMin ≤ backendStrokeWidth cfgMin scaling lw ∧
    backendStrokeWidth cfgMin 0 lw = backendMinLineweight cfgMin ∧
    (scaling ≠ 0 → backendMinLineweight cfgMin < lw * scaling → backendStrokeWidth cfgMin scaling lw = lw * scaling) ∧
    (0 ≤ scaling → lw ≤ lw' → backendStrokeWidth cfgMin scaling lw ≤ backendStrokeWidth cfgMin scaling lw') := by
  have hmin : 1 / 20 ≤ backendMinLineweight cfgMin := by
    simp only [backendMinLineweight]
    cases cfgMin with
    | none => exact le_refl _
    | some k =>
      simp only
      split
      · exact le_refl _
      · split
        · rename_i h; exact le_of_lt h
        · exact le_refl _
  refine ⟨hmin, ?_, by simp [backendStrokeWidth], ?_, ?_⟩
  · simp only [backendStrokeWidth]
    split
    · exact le_refl _
    · split
      · rename_i h; exact le_of_lt h
      · exact le_refl _
  · intro hs h; simp [backendStrokeWidth, hs, h]
  · intro hs hle
    simp only [backendStrokeWidth]
    split
    · exact le_refl _
    · have hm : lw * scaling ≤ lw' * scaling := mul_le_mul_of_nonneg_right hle hs
      split <;> split
      · exact hm
      · rename_i h1 h2; exact absurd (lt_of_lt_of_le h1 hm) h2
      · rename_i h1 h2; exact le_of_lt h2
      · exact le_refl _

#guard backendStrokeWidth none 1 (1/4) = 1/4 ∧ backendStrokeWidth (some 3) 0 2 = 127/500 ∧ backendStrokeWidth (some 1) 2 (1/100) = 127/1500

/-! ## ties to the constants of the live modules -/
theorem tie_constants :
    Gen.RenderTables.BYLAYER = BYLAYER ∧ Gen.RenderTables.BYBLOCK = BYBLOCK ∧ Gen.RenderTables.BYOBJECT = BYOBJECT ∧
    Gen.RenderTables.LINEWEIGHT_BYLAYER = LINEWEIGHT_BYLAYER ∧ Gen.RenderTables.LINEWEIGHT_BYBLOCK = LINEWEIGHT_BYBLOCK ∧
    Gen.RenderTables.LINEWEIGHT_DEFAULT = LINEWEIGHT_DEFAULT ∧ Gen.RenderTables.TRANSPARENCY_BYBLOCK = TRANSPARENCY_BYBLOCK ∧
    Gen.RenderTables.layerFrozenMask = FROZEN ∧ Gen.RenderTables.layerLockMask &&& FROZEN = 0 := by decide

theorem tie_lineweight :
    Gen.RenderTables.defaultLineweightExact = true ∧ (Gen.RenderTables.defaultLineweight100 : Rat) / 100 = defaultLineweight ∧
    (Gen.RenderTables.dfltLayerLineweight100 : Rat) / 100 = defaultLayer.lineweight := by
  refine ⟨by decide, ?_, ?_⟩ <;> norm_num [Gen.RenderTables.defaultLineweight100, defaultLineweight,
    Gen.RenderTables.dfltLayerLineweight100, defaultLayer]

theorem tie_layer_alpha : Gen.RenderTables.layerAlpha = List.range 256 := by decide +kernel

/-- a per-viewport layer override that does not touch the transparency leaves it as it is: the float round trip that
    `_apply_layer_overrides` sends every layer transparency through is the identity on all 256 values (fix ee1ba162e; before,
    42 values lost one unit of alpha); `applyOverride` takes the raw value after this round trip -/
theorem tie_transparency_roundtrip : Gen.RenderTables.transparencyRoundTrip = List.range 256 := by decide +kernel

theorem tie_plot_styles : Gen.RenderTables.ctbAllObject = true ∧ Gen.RenderTables.aciRgb.length = 256 := by
  constructor <;> decide +kernel

theorem tie_default_layer :
    Gen.RenderTables.dfltLayerRgb = defaultLayer.color.rgb ∧ Gen.RenderTables.dfltLayerAlphaLen = 0 ∧
    defaultLayer.color.alpha = none ∧ Gen.RenderTables.dfltLayerPen = defaultLayer.pen ∧
    Gen.RenderTables.dfltLayerLinetype = defaultLayer.linetype ∧ Gen.RenderTables.dfltLayerAci7 = defaultLayer.hasAci7 ∧
    Gen.RenderTables.dfltLayerVisible = defaultLayer.visible ∧ Gen.RenderTables.dfltLayerName = defaultLayer.layer := by
  refine ⟨by decide, by decide, rfl, by decide, rfl, rfl, rfl, rfl⟩

/-- AST-extracted control flow of `draw_composite_entity` (every run, from the current frontend.py / properties.py) equals the
    shape the model transcribes: in the INSERT branch `push_state`, then ONE `if entity.mcount > 1` statement whose two
    branches only call `draw_insert` (in a `for` over `multi_insert()` / once), then `pop_state`; NO statement in that
    branch or in `draw_insert` leaves early (return / raise / break / continue / yield / try / with), so every exit path of
    the branch passes the one `pop_state`; exactly one `push_state` and one `pop_state` call in frontend.py;
    `push_state` = append + assign, `pop_state` = assign from `pop()`.  (`stack_balanced` is the theorem about this shape;
    seeded change C18-m2 - an early `return` after `push_state` - breaks this tie.) -/
theorem tie_push_pop_shape :
    Gen.RenderShape.insertTest = "isinstance(entity, Insert)" ∧
    Gen.RenderShape.insertBranch = ["call self.ctx.push_state", "if entity.mcount > 1", "call self.ctx.pop_state"] ∧
    Gen.RenderShape.mcountThen = ["for virtual_insert in entity.multi_insert()"] ∧
    Gen.RenderShape.mcountThenLoop = ["call draw_insert"] ∧ Gen.RenderShape.mcountElse = ["call draw_insert"] ∧
    Gen.RenderShape.insertBranchExits = 0 ∧ Gen.RenderShape.drawInsertExits = 0 ∧
    Gen.RenderShape.pushCalls = 1 ∧ Gen.RenderShape.popCalls = 1 ∧
    Gen.RenderShape.pushBody = ["call self._saved_states.append", "assign self.current_block_reference_properties = block_reference"] ∧
    Gen.RenderShape.popBody = ["assign self.current_block_reference_properties = call self._saved_states.pop"] := by
  decide +kernel

/-- statement order of the other transcribed functions: `_draw_entities` (filter before the loop; VIEWPORT deferred, proxy
    wrapping, `resolve_all`, property override, visibility test → `draw_entity` / `skip_entity`), `draw_entity` (handle set
    for non-virtual entities right after `enter_entity`, `exit_entity` last, no early exit), `draw_insert` (ATTRIBs, handle
    reset, clipping set-up, block content, clipping frame), `filter_func` passed by `draw_layout` only,
    `draw_entities_callback` (viewport content) switches `self.ctx` to the context it is given (fix 0ff4be141) -/
theorem tie_traversal_shape :
    Gen.RenderShape.loopPrefix.head? = some "if filter_func is not None" ∧
    Gen.RenderShape.loopBody = ["if isinstance(entity, Viewport)", "if not isinstance(entity, DXFGraphic)",
      "assign properties = call ctx.resolve_all", "call frontend.exec_property_override", "if properties.is_visible"] ∧
    Gen.RenderShape.loopVisible = ["call frontend.draw_entity"] ∧ Gen.RenderShape.loopInvisible = ["call frontend.skip_entity"] ∧
    Gen.RenderShape.drawEntityHead = ["call self.pipeline.enter_entity", "if not entity.is_virtual"] ∧
    Gen.RenderShape.drawEntityHandleSet = ["call self.pipeline.set_current_entity_handle"] ∧
    Gen.RenderShape.drawEntityTail = "call self.pipeline.exit_entity" ∧ Gen.RenderShape.drawEntityExits = 0 ∧
    Gen.RenderShape.drawInsert = ["call self.draw_entities", "if not entity.is_virtual", "assign clip = call xclip.XClip",
      "assign is_clipping_active = clip.has_clipping_path and clip.is_clipping_enabled", "if is_clipping_active",
      "call self.draw_entities", "if is_clipping_active and clip.get_xclip_frame_policy()"] ∧
    Gen.RenderShape.layoutFilterArgs = Gen.RenderShape.layoutDrawCalls ∧ Gen.RenderShape.otherFilterArgs = 0 ∧
    -- viewport content: the callback of the pipeline installs the given context as `self.ctx` for the whole traversal
    Gen.RenderShape.callbackBody = ["assign saved_ctx = self.ctx", "assign self.ctx = ctx", "try"] ∧
    Gen.RenderShape.callbackTry = ["call _draw_entities"] ∧
    Gen.RenderShape.callbackFinally = ["assign self.ctx = saved_ctx"] ∧
    -- draw_layout: redraw order table → `reorder.ascending`, else the layout itself (`redrawOrder`)
    Gen.RenderShape.layoutBody = ["if layout_properties is not None", "call self.set_background", "assign self.parent_stack = []",
      "assign handle_mapping = call list", "if handle_mapping", "if finalize"] ∧
    Gen.RenderShape.layoutOrdered = "reorder.ascending(layout, handle_mapping)" ∧ Gen.RenderShape.layoutPlain = "layout" := by
  decide +kernel


/-- AST ties of the follow-up (every run, from the current pipeline.py / ellipse.py / insert.py / explode.py / properties.py):
    the colour cache is looked up and filled under the FULL resolved colour `properties.color` and nothing else is computed
    from it (`backendColor`; C18-m4 breaks this); `apply_color_policy` splits alpha and RGB, maps the RGB part policy by policy
    and re-attaches the alpha, CUSTOM replacing both (`applyColorPolicy`); `Ellipse.from_arc` takes ALL DXF attributes of the
    ARC/CIRCLE except owner, handle, thickness - so the invisible flag survives the non-uniform scaling route (C18-m5 breaks
    this); `Insert.transform` multiplies the MINSERT spacings by the SIGNED ratios of the scale factors (`transformIns`,
    `minsert_spacing_sign`; C18-m6 breaks this); the explode fall-back for polylines with arcs hands the invisible flag to
    the parts (fix 2a9e6bc5a); `resolve_visible` returns early only for INSERT, for a 3DFACE WITHOUT a visible edge, and for
    VIEWPORT (fix bb5ad742d, `resolveVisibleFace`) -/
theorem tie_pipeline_and_routes :
    Gen.RenderShape.colorCacheKeys = ["properties.color", "properties.color"] ∧ Gen.RenderShape.colorCacheAssigns = [] ∧
    Gen.RenderShape.colorPolicyFrame = ["alpha = color[7:9]", "color = color[:7]", "return color + alpha"] ∧
    Gen.RenderShape.colorPolicyChain = ["policy == ColorPolicy.COLOR_SWAP_BW => color = swap_bw(color)",
      "policy == ColorPolicy.COLOR_NEGATIVE => color = invert_color(color)",
      "policy == ColorPolicy.MONOCHROME_DARK_BG => color = color_to_monochrome(color, scale=0.7, offset=0.3)",
      "policy == ColorPolicy.MONOCHROME_LIGHT_BG => color = color_to_monochrome(color, scale=0.7, offset=0.0)",
      "policy == ColorPolicy.MONOCHROME => color = color_to_monochrome(color)",
      "policy == ColorPolicy.BLACK => color = '#000000'", "policy == ColorPolicy.WHITE => color = '#ffffff'",
      "policy == ColorPolicy.CUSTOM => fg = custom_color; color = fg[:7]; alpha = fg[7:9]", "else => "] ∧
    Gen.RenderShape.fromArcAttribs = ["entity.dxfattribs(drop={'owner', 'handle', 'thickness'})"] ∧
    Gen.RenderShape.spacingUpdates = ["dxf.column_spacing *= target_system.scale_factor_x / dxf.xscale",
      "dxf.row_spacing *= target_system.scale_factor_y / dxf.yscale"] ∧
    Gen.RenderShape.polylineFallback = ["invisible = entity.dxf.get('invisible', 0)", "parts = list(entity.virtual_entities())",
      "if invisible:", "yield from transform(parts)"] ∧
    Gen.RenderShape.resolveVisibleHead = ["isinstance(entity, Insert) => return not bool(entity.dxf.invisible)",
      "isinstance(entity, Face3d) and (not any(entity.get_edges_visibility())) => return False",
      "isinstance(entity, Viewport) => return entity.is_visible"] := by
  decide +kernel


/-- AST tie of `draw_hatch_entity` (final round): the order of its decisions - no filling, the hatch policy chain (NORMAL: nothing
    changes; IGNORE: return; SHOW_SOLID: solid filling; SHOW_OUTLINE: solid filling + outline only), pattern filling first (with the
    dense-pattern fall-through), then the loops, outline before fill, empty path list last - is the order `hatchDecision` transcribes -/
theorem tie_hatch_policy :
    Gen.RenderShape.hatchPolicyChain = ["hatch_policy == HatchPolicy.NORMAL => pass", "hatch_policy == HatchPolicy.IGNORE => return",
      "hatch_policy == HatchPolicy.SHOW_SOLID => filling = Filling()",
      "hatch_policy == HatchPolicy.SHOW_OUTLINE => filling = Filling(); show_only_outline = True"] ∧
    Gen.RenderShape.hatchTests = ["properties.filling is None", "hatch_policy == HatchPolicy.NORMAL", "filling.type == Filling.PATTERN",
      "loops is not None", "show_only_outline", "paths"] := by
  decide +kernel

end EzdxfVerif.Props.C18

/-
C18  The drawing front end renders what the document defines.
Only property theorems and non-vacuity examples live here (helper lemmas are `private`); every `theorem` of this
file is an obligation counted by ./check C18.
-/
import Mathlib.Algebra.Order.Field.Rat
import Mathlib.Tactic.Ring
import Mathlib.Tactic.Linarith
import Mathlib.Tactic.FieldSimp
import Mathlib.Algebra.Order.Ring.Abs
import EzdxfVerif.Model.Render
import EzdxfVerif.Gen.RenderTables

namespace EzdxfVerif.Props.C18
open EzdxfVerif.Render

/-! ## the transformation algebra the specification composes with -/

/-- `(f @ g).transform(p) = g.transform(f.transform(p))`: the product of reference matrices along a path acts
    innermost first -/
theorem apply_comp (f g : Aff) (p : P2) : (f.comp g).apply p = g.apply (f.apply p) := by
  simp only [Aff.comp, Aff.apply, P2.mk.injEq]
  constructor <;> ring

theorem comp_assoc (f g h : Aff) : (f.comp g).comp h = f.comp (g.comp h) := by
  simp only [Aff.comp, Aff.mk.injEq]
  refine ⟨?_, ?_, ?_, ?_, ?_, ?_⟩ <;> ring

theorem comp_id (f : Aff) : f.comp Aff.id = f ∧ Aff.id.comp f = f := by
  constructor <;> (cases f; simp [Aff.comp, Aff.id])


/-! ## the block reference state stack -/

/-- the state stack (`current_block_reference_properties`, `_saved_states`) is the same after any successful draw,
    also on the invisible/skip paths; no acyclicity or lawfulness hypothesis -/
theorem stack_balanced (doc : Doc) (ctx : Ctx) (fuel : Nat) (ents : List Ent) (st : State) :
    ∀ out st', drawEnts doc ctx fuel ents st = .ok (out, st') → st' = st := by
  fun_induction drawEnts doc ctx fuel ents st with
  | case1 fuel st => intro out st' h; simp at h; exact h.2.symm
  | case2 fuel k p pts es st rp hv out st1 hrest ih =>
    intro o s h; simp at h; rw [← h.2]; exact ih _ _ hrest
  | case3 fuel k p pts es st rp hv e herr ih => intro o s h; simp at h
  | case4 fuel k p pts es st rp hv ih => intro o s h; exact ih _ _ h
  | case5 i es st rp hv => intro o s h; simp at h
  | case6 i es st rp hv fuel' hfind => intro o s h; simp at h
  | case7 i es st rp hv fuel' st1 blk hfind e herr ih => intro o s h; simp at h
  | case8 i es st rp hv fuel' st1 blk hfind o2 st2 hch e hpop ih => intro o s h; simp at h
  | case9 i es st rp hv fuel' st1 o1 blk hfind o2 st2 hch st3 hpop out st4 hrest ih1 ih2 =>
    intro o s h; simp at h
    have h2 : st2 = st1 := ih1 _ _ hch
    have h3 : st3 = st := by
      subst h2
      simp [State.pop, st1, State.push] at hpop
      exact hpop.symm
    rw [← h.2, ih2 _ _ hrest, h3]
  | case10 i es st rp hv fuel' st1 blk hfind o2 st2 hch st3 hpop e herr ih1 ih2 => intro o s h; simp at h
  | case11 fuel i es st rp hv ih => intro o s h; exact ih _ _ h

/-! ## nothing is drawn on hidden layers -/

private theorem emitLeaf_layer (k : Kind) (rp : RProps) (pts : List P2) :
    ∀ pr ∈ emitLeaf k rp pts, pr.layer = rp.layer := by
  intro pr h
  cases k <;> simp only [emitLeaf] at h
  case line => simp [mkPrim] at h; simp [h]
  case point => split at h <;> simp [mkPrim] at h; simp [h]
  case attdef => simp [mkPrim] at h; simp [h]
  case circle => simp [mkPrim] at h; simp [h]
  case polyline c =>
    split at h
    · simp at h
    · simp at h
    · split at h <;> simp [mkPrim] at h <;> simp [h]
  case solid =>
    split at h
    · split at h <;> simp [mkPrim] at h <;> simp [h]
    · simp at h

private theorem visible_shown (ctx : Ctx) (cur : Option RProps) (f : Bool) (p : EProps)
    (h : (resolveAll ctx cur false f p).visible = true) : LayerShown ctx (resolveAll ctx cur false f p).layer := by
  intro lp hl
  simp only [resolveAll, resolveVisible] at h hl
  simp only [hl] at h
  simp at h
  by_contra hc
  simp at hc
  simp [hc] at h

private theorem drawAttribs_shown (ctx : Ctx) (cur : Option RProps) (as : List Attrib) :
    ∀ pr ∈ drawAttribs ctx cur as, LayerShown ctx pr.layer := by
  intro pr h
  simp only [drawAttribs, List.mem_flatMap] at h
  obtain ⟨a, _, ha⟩ := h
  split at ha
  · rename_i hv
    simp [mkPrim] at ha
    rw [ha]
    exact visible_shown ctx cur a.flag a.props hv
  · simp at ha

theorem nothing_on_hidden_layers (doc : Doc) (ctx : Ctx) (fuel : Nat) (ents : List Ent) (st : State) :
    ∀ out st', drawEnts doc ctx fuel ents st = .ok (out, st') → ∀ pr ∈ out, LayerShown ctx pr.layer := by
  fun_induction drawEnts doc ctx fuel ents st with
  | case1 fuel st => intro out st' h pr hpr; simp at h; rw [h.1] at hpr; simp at hpr
  | case2 fuel k p pts es st rp hv out st1 hrest ih =>
    intro o s h pr hpr; simp at h
    rw [← h.1] at hpr
    rcases List.mem_append.mp hpr with h1 | h1
    · rw [emitLeaf_layer k rp pts pr h1]; exact visible_shown ctx st.current false p hv
    · exact ih _ _ hrest pr h1
  | case3 fuel k p pts es st rp hv e herr ih => intro o s h; simp at h
  | case4 fuel k p pts es st rp hv ih => intro o s h; exact ih _ _ h
  | case5 i es st rp hv => intro o s h; simp at h
  | case6 i es st rp hv fuel' hfind => intro o s h; simp at h
  | case7 i es st rp hv fuel' st1 blk hfind e herr ih => intro o s h; simp at h
  | case8 i es st rp hv fuel' st1 blk hfind o2 st2 hch e hpop ih => intro o s h; simp at h
  | case9 i es st rp hv fuel' st1 o1 blk hfind o2 st2 hch st3 hpop out st4 hrest ih1 ih2 =>
    intro o s h pr hpr; simp at h
    rw [← h.1] at hpr
    simp only [List.mem_append] at hpr
    rcases hpr with h1 | h1 | h1
    · exact drawAttribs_shown ctx st1.current i.attribs pr h1
    · exact ih1 _ _ hch pr h1
    · exact ih2 _ _ hrest pr h1
  | case10 i es st rp hv fuel' st1 blk hfind o2 st2 hch st3 hpop e herr ih1 ih2 => intro o s h; simp at h
  | case11 fuel i es st rp hv ih => intro o s h; exact ih _ _ h

/-! ## totality -/

private theorem reach_transform (doc : Doc) (m : Aff) (fuel : Nat) (ents : List Ent) :
    reach doc fuel (ents.map (transformEnt m)) = reach doc fuel ents := by
  fun_induction reach doc fuel ents with
  | case1 fuel => simp [reach]
  | case2 fuel k p pts es ih => simp [transformEnt, reach, ih]
  | case3 i es => simp [transformEnt, reach]
  | case4 fuel' i es hfind =>
    have hname : (transformIns m i).name = i.name := rfl
    simp [transformEnt, reach, hname, hfind]
  | case5 fuel' i es blk hfind ih1 ih2 =>
    have hname : (transformIns m i).name = i.name := rfl
    simp [transformEnt, reach, hname, hfind, ih2]

private theorem reach_filter (doc : Doc) (p : Ent → Bool) (fuel : Nat) (ents : List Ent) :
    reach doc fuel ents = true → reach doc fuel (ents.filter p) = true := by
  fun_induction reach doc fuel ents with
  | case1 fuel => simp [reach]
  | case2 fuel k q pts es ih =>
    intro h
    simp only [List.filter_cons]
    split
    · simp [reach]; exact ih h
    · exact ih h
  | case3 i es => intro h; simp at h
  | case4 fuel' i es hfind => intro h; simp at h
  | case5 fuel' i es blk hfind ih1 ih2 =>
    intro h
    simp at h
    simp only [List.filter_cons]
    split
    · simp [reach, hfind, h.1, ih2 h.2]
    · exact ih2 h.2

theorem draw_total (doc : Doc) (ctx : Ctx) (fuel : Nat) (ents : List Ent) (st : State) :
    reach doc fuel ents = true → ∃ out, drawEnts doc ctx fuel ents st = .ok (out, st) := by
  fun_induction drawEnts doc ctx fuel ents st with
  | case1 fuel st => intro _; exact ⟨[], rfl⟩
  | case2 fuel k p pts es st rp hv out st1 hrest ih =>
    intro h
    simp [reach] at h
    have := stack_balanced doc ctx fuel es st _ _ hrest
    subst this
    exact ⟨_, rfl⟩
  | case3 fuel k p pts es st rp hv e herr ih =>
    intro h; simp [reach] at h
    obtain ⟨o, ho⟩ := ih h
    rw [ho] at herr; simp at herr
  | case4 fuel k p pts es st rp hv ih => intro h; simp [reach] at h; exact ih h
  | case5 i es st rp hv => intro h; simp [reach] at h
  | case6 i es st rp hv fuel' hfind => intro h; simp [reach, hfind] at h
  | case7 i es st rp hv fuel' st1 blk hfind e herr ih =>
    intro h; simp [reach, hfind] at h
    have hr : reach doc fuel' (virtualEntities (xfOf i blk.base) blk) = true := by
      simp only [virtualEntities, reach_transform]; exact reach_filter doc _ _ _ h.1
    obtain ⟨o, ho⟩ := ih hr
    rw [ho] at herr; simp at herr
  | case8 i es st rp hv fuel' st1 blk hfind o2 st2 hch e hpop ih =>
    intro h
    have := stack_balanced doc ctx _ _ _ _ _ hch
    subst this
    simp [State.pop, st1, State.push] at hpop
  | case9 i es st rp hv fuel' st1 o1 blk hfind o2 st2 hch st3 hpop out st4 hrest ih1 ih2 =>
    intro h
    have h2 := stack_balanced doc ctx _ _ _ _ _ hch
    subst h2
    simp [State.pop, st1, State.push] at hpop
    subst hpop
    have h4 := stack_balanced doc ctx _ _ _ _ _ hrest
    subst h4
    exact ⟨_, rfl⟩
  | case10 i es st rp hv fuel' st1 blk hfind o2 st2 hch st3 hpop e herr ih1 ih2 =>
    intro h; simp [reach, hfind] at h
    have h2 := stack_balanced doc ctx _ _ _ _ _ hch
    subst h2
    simp [State.pop, st1, State.push] at hpop
    subst hpop
    obtain ⟨o, ho⟩ := ih2 h.2
    rw [ho] at herr; simp at herr
  | case11 fuel i es st rp hv ih =>
    intro h
    apply ih
    cases fuel with
    | zero => simp [reach] at h
    | succ n =>
      simp only [reach] at h
      split at h
      · simp at h
      · simp at h; exact h.2

/-! ## `Insert.transform` is lawful (after fix 603b8b3fe)

`Insert.transform(m)` gives the INSERT with matrix `matrix44() @ m` for every axis-monomial `m` (any composition of
translations, non-zero axis scalings, mirrors, quarter turns) and every reference rotated by a multiple of 90°. -/

theorem transformIns_lawful (m : Aff) (i : Ins) (base : P2) (hm : Monomial m) (hdir : AxisUnit i.dir) :
    lawful m i base = true := by
  obtain ⟨a, b, c, d, tx, ty⟩ := m
  simp only [lawful, decide_eq_true_eq]
  rcases hm with ⟨hb, hc, ha, hd⟩ | ⟨ha, hd, hb, hc⟩ <;> simp only at ha hb hc hd
  · subst hb hc
    rcases lt_or_gt_of_ne ha with ha' | ha' <;> rcases lt_or_gt_of_ne hd with hd' | hd' <;>
    rcases hdir with hdir | hdir | hdir | hdir <;> cases hf : i.flip <;>
    simp [xfOf, transformIns, Aff.comp, Aff.lin, Aff.apply, mag, unit, rabs, exSign, ocsFlip, hdir, hf,
      le_of_lt, not_le.mpr, ha', hd', ha, hd] <;> norm_num <;> (refine ⟨?_, ?_, ?_, ?_⟩ <;> ring)
  · subst ha hd
    rcases lt_or_gt_of_ne hb with hb' | hb' <;> rcases lt_or_gt_of_ne hc with hc' | hc' <;>
    rcases hdir with hdir | hdir | hdir | hdir <;> cases hf : i.flip <;>
    simp [xfOf, transformIns, Aff.comp, Aff.lin, Aff.apply, mag, unit, rabs, exSign, ocsFlip, hdir, hf,
      le_of_lt, not_le.mpr, hb', hc', hb, hc] <;> norm_num <;> (refine ⟨?_, ?_, ?_, ?_⟩ <;> ring)


def p0 : EProps := ⟨"0", 256, none, "BYLAYER", -1, false, none⟩
/-- INNER rotated by 90° -/
def wInner : Ins := ⟨p0, "INNER", ⟨0, 0⟩, 1, 1, ⟨0, 1⟩, false, []⟩
/-- OUTER scaled (2, 1) -/
def wOuter : Ins := ⟨p0, "OUTER", ⟨0, 0⟩, 2, 1, ⟨1, 0⟩, false, []⟩
def wDoc : Doc := ⟨[⟨"INNER", ⟨0, 0⟩, [.leaf .line p0 [⟨0, 0⟩, ⟨1, 0⟩]]⟩, ⟨"OUTER", ⟨0, 0⟩, [.ins wInner]⟩]⟩
def wCtx : Ctx := mkCtx 0xFFFFFF Gen.RenderTables.aciRgb false [⟨"0", 7, none, none, "Continuous", -3, 0, true⟩]

/-- REGRESSION FACT about the UNFIXED configuration (code before 603b8b3fe, `transformInsPreFix`: scale factors measured
    on the unrotated OCS axes; finding F18, fixed): OUTER = scale (2, 1), INNER rotated by 90° is not lawful there.
    The current model (`transformIns`) is lawful on the same input. -/
theorem regression_prefix_transform_unlawful :
    Monomial (xfOf wOuter ⟨0, 0⟩) ∧ AxisUnit wInner.dir ∧
    xfOf (transformInsPreFix (xfOf wOuter ⟨0, 0⟩) wInner) ⟨0, 0⟩ ≠ (xfOf wInner ⟨0, 0⟩).comp (xfOf wOuter ⟨0, 0⟩) ∧
    lawful (xfOf wOuter ⟨0, 0⟩) wInner ⟨0, 0⟩ = true := by
  refine ⟨?_, ?_, by decide +kernel, by decide +kernel⟩
  · left; simp [xfOf, wOuter, exSign, Aff.lin, ocsFlip]
  · right; left; rfl

-- the witness of F18 is now drawn at its world geometry (0,0)-(0,1), and draw = spec on it
#guard (drawLayout wDoc wCtx [.ins wOuter]).toOption.map (fun r => r.1.map (·.pts)) = some [[⟨0, 0⟩, ⟨0, 1⟩]]
#guard (unfold wDoc 3 [.ins wOuter]).map (fun f => (Spec.flatten wCtx none Aff.id f).map (·.pts)) = some [[⟨0, 0⟩, ⟨0, 1⟩]]
#guard reach wDoc (wDoc.blocks.length + 1) [.ins wOuter]

/-! ## draw = specification, full strength for the modelled documents

Hypotheses that remain and why:
  * `DocQuarter` / `EntsQuarter`: every reference is rotated by a multiple of 90° (the model's norm `|x|+|y|` is the
    Euclidean norm only for axis-aligned vectors; for general angles the composed matrix of a rotated reference under a
    non-uniform scale is a shear, which the code handles by the explode fall-back that is outside the model) and has
    non-zero scale factors (`InsertCoordinateSystem.transform` normalises the transformed axes, a zero scale makes that a
    division by zero);
  * `reach`: the block graph is acyclic and closed (otherwise the front end raises, see `draw_total`).
No uniformity / "unrotated" hypothesis is left. -/

private theorem xfOf_monomial (i : Ins) (base : P2) (h : InsQuarter i) : Monomial (xfOf i base) := by
  obtain ⟨hd, hsx, hsy⟩ := h
  rcases hd with hd | hd | hd | hd <;> cases hf : i.flip <;>
  simp [xfOf, Monomial, exSign, Aff.lin, ocsFlip, hd, hf, hsx, hsy]

private theorem comp_monomial (f g : Aff) (hf : Monomial f) (hg : Monomial g) : Monomial (f.comp g) := by
  obtain ⟨fa, fb, fc, fd, ftx, fty⟩ := f
  obtain ⟨ga, gb, gc, gd, gtx, gty⟩ := g
  rcases hf with ⟨h1, h2, h3, h4⟩ | ⟨h1, h2, h3, h4⟩ <;> rcases hg with ⟨k1, k2, k3, k4⟩ | ⟨k1, k2, k3, k4⟩ <;>
  simp only at h1 h2 h3 h4 k1 k2 k3 k4 <;> subst h1 h2 k1 k2 <;>
  simp [Aff.comp, Monomial, h3, h4, k3, k4]

private theorem find_mem (doc : Doc) (name : String) (blk : Block) (h : doc.find name = some blk) : blk ∈ doc.blocks :=
  List.mem_of_find?_eq_some h

/-- General form (any nesting depth, any accumulated axis-monomial transformation `m`, any state): the stateful
    traversal with in-place transformed copies, `Insert.transform` on nested references and push/pop of the block reference
    state returns exactly `Spec.flatten` of the block tree under `m`, and the state it started with. -/
theorem draw_eq_spec_tree (doc : Doc) (ctx : Ctx) (hd : DocQuarter doc) (fuel : Nat) (ents : List Ent) :
    ∀ (m : Aff) (forest : Forest) (st : State), Monomial m → EntsQuarter ents → unfold doc fuel ents = some forest →
      drawEnts doc ctx fuel (ents.map (transformEnt m)) st = .ok (Spec.flatten ctx st.current m forest, st) := by
  fun_induction unfold doc fuel ents with
  | case1 fuel =>
    intro m forest st _ _ h
    simp at h; subst h
    simp [drawEnts, Spec.flatten]
  | case2 fuel k p pts es rest hrest ih =>
    intro m forest st hm he h
    simp at h; subst h
    have he' : EntsQuarter es := fun i hi => he i (List.mem_cons_of_mem _ hi)
    simp only [List.map_cons, transformEnt, drawEnts.eq_2, Spec.flatten, ih m rest st hm he' hrest]
    split <;> simp
  | case3 fuel k p pts es hrest ih => intro m forest st _ _ h; simp at h
  | case4 i tail => intro m forest st _ _ h; simp at h
  | case5 fuel' i es hfind => intro m forest st _ _ h; simp at h
  | case6 fuel' i es blk hfind hch ih => intro m forest st _ _ h; simp at h
  | case7 fuel' i es blk hfind ch hch rest hrest ih1 ih2 =>
    intro m forest st hm he h
    simp at h; subst h
    have hi : InsQuarter i := he i List.mem_cons_self
    have he' : EntsQuarter es := fun j hj => he j (List.mem_cons_of_mem _ hj)
    have hl : xfOf (transformIns m i) blk.base = (xfOf i blk.base).comp m := by
      simpa [lawful] using transformIns_lawful m i blk.base hm hi.1
    have hm' : Monomial ((xfOf i blk.base).comp m) := comp_monomial _ _ (xfOf_monomial i blk.base hi) hm
    have hb : EntsQuarter (blk.ents.filter (fun e => !isAttdef e)) :=
      fun j hj => hd blk (find_mem doc _ _ hfind) j (List.mem_of_mem_filter hj)
    have hname : (transformIns m i).name = i.name := rfl
    have hprops : (transformIns m i).props = i.props := rfl
    have hatt : (transformIns m i).attribs = i.attribs.map (transformAttrib m) := rfl
    simp only [List.map_cons, transformEnt, drawEnts.eq_4, hname, hprops, hatt, hfind, hl, virtualEntities,
      Spec.flatten, Spec.mapAttribs]
    split
    · have := ih1 ((xfOf i blk.base).comp m) ch (st.push (resolveAll ctx st.current true false i.props)) hm' hb hch
      simp only [this]
      simp [State.pop, State.push, ih2 m rest st hm he' hrest]
    · simp [ih2 m rest st hm he' hrest]
  | case8 fuel' i es blk hfind ch hch hrest ih1 ih2 => intro m forest st _ _ h; simp at h

/-- the block tree exists for every acyclic, closed document -/
theorem unfold_of_reach (doc : Doc) (fuel : Nat) (ents : List Ent) :
    reach doc fuel ents = true → ∃ f, unfold doc fuel ents = some f := by
  fun_induction unfold doc fuel ents with
  | case1 fuel => intro _; exact ⟨_, rfl⟩
  | case2 fuel k p pts es rest hrest ih => intro _; exact ⟨_, rfl⟩
  | case3 fuel k p pts es hrest ih =>
    intro hr; simp [reach] at hr
    obtain ⟨f, hf⟩ := ih hr
    rw [hf] at hrest; simp at hrest
  | case4 i tail => intro hr; simp [reach] at hr
  | case5 fuel' i es hfind => intro hr; simp [reach, hfind] at hr
  | case6 fuel' i es blk hfind hch ih =>
    intro hr; simp [reach, hfind] at hr
    obtain ⟨f, hf⟩ := ih (reach_filter doc _ _ _ hr.1)
    rw [hf] at hch; simp at hch
  | case7 fuel' i es blk hfind ch hch rest hrest ih1 ih2 => intro _; exact ⟨_, rfl⟩
  | case8 fuel' i es blk hfind ch hch hrest ih1 ih2 =>
    intro hr; simp [reach, hfind] at hr
    obtain ⟨f, hf⟩ := ih2 hr.2
    rw [hf] at hrest; simp at hrest

private theorem transformAttrib_id (a : Attrib) : transformAttrib Aff.id a = a := by
  cases a; simp [transformAttrib, Aff.apply, Aff.id]

private theorem map_transformAttrib_id (as : List Attrib) : as.map (transformAttrib Aff.id) = as := by
  induction as with
  | nil => rfl
  | cons a as ih => simp [transformAttrib_id, ih]

private theorem transformIns_id (i : Ins) (h : AxisUnit i.dir) : transformIns Aff.id i = i := by
  obtain ⟨props, name, pos, sx, sy, dir, flip, attribs⟩ := i
  simp only at h
  rcases h with h | h | h | h <;> cases flip <;> subst h <;>
  simp only [transformIns, map_transformAttrib_id] <;>
  simp [Aff.id, Aff.lin, Aff.apply, mag, unit, rabs, exSign, ocsFlip] <;> norm_num

private theorem apply_id (q : P2) : Aff.id.apply q = q := by cases q; simp [Aff.apply, Aff.id]

private theorem map_apply_id (pts : List P2) : pts.map Aff.id.apply = pts := by
  induction pts with
  | nil => rfl
  | cons q qs ih => rw [List.map_cons, ih, apply_id]

private theorem map_transformEnt_id (ents : List Ent) (h : ∀ i, Ent.ins i ∈ ents → AxisUnit i.dir) :
    ents.map (transformEnt Aff.id) = ents := by
  induction ents with
  | nil => rfl
  | cons e es ih =>
    have hes : ∀ i, Ent.ins i ∈ es → AxisUnit i.dir := fun i hi => h i (List.mem_cons_of_mem _ hi)
    rw [List.map_cons, ih hes]
    cases e with
    | leaf k p pts => simp [transformEnt, map_apply_id]
    | ins i => simp [transformEnt, transformIns_id i (h i List.mem_cons_self)]


/-- For every acyclic, closed document whose block references are rotated by multiples of 90° with non-zero (possibly
    non-uniform, possibly negative) scale factors, at every nesting depth: `draw_layout` sends exactly `Spec.flatten` of the
    block tree to the backend and leaves the block reference state stack as it found it. -/
theorem draw_eq_spec (doc : Doc) (ctx : Ctx) (ents : List Ent) (hd : DocQuarter doc) (he : EntsQuarter ents)
    (hr : reach doc (doc.blocks.length + 1) ents = true) :
    ∃ forest, unfold doc (doc.blocks.length + 1) ents = some forest ∧
      drawLayout doc ctx ents = .ok (Spec.flatten ctx none Aff.id forest, State.init) := by
  have hm : Monomial Aff.id := Or.inl ⟨rfl, rfl, by simp [Aff.id], by simp [Aff.id]⟩
  obtain ⟨f, hf⟩ := unfold_of_reach doc _ ents hr
  refine ⟨f, hf, ?_⟩
  have := draw_eq_spec_tree doc ctx hd _ ents Aff.id f State.init hm he hf
  rw [map_transformEnt_id ents (fun i hi => (he i hi).1)] at this
  exact this

/-- the hypotheses are met by the depth-2 witness of F18 (non-uniform scale above a rotated reference) -/
example : DocQuarter wDoc ∧ EntsQuarter [.ins wOuter] := by
  refine ⟨?_, ?_⟩
  · intro b hb i hi
    simp [wDoc] at hb
    rcases hb with rfl | rfl <;> simp at hi
    subst hi
    exact ⟨Or.inr (Or.inl rfl), by simp [wInner], by simp [wInner]⟩
  · intro i hi
    simp at hi; subst hi
    exact ⟨Or.inl rfl, by simp [wOuter], by simp [wOuter]⟩

/-- reading of the specification at depth 2: properties are inherited down the chain of references, the point is mapped
    by the innermost reference first -/
theorem spec_depth2_geometry (ctx : Ctx) (i j : Ins) (bi bj : P2) (p : EProps) (a b : P2)
    (hi : i.attribs = []) (hj : j.attribs = [])
    (vi : (resolveAll ctx none true false i.props).visible = true)
    (vj : (resolveAll ctx (some (resolveAll ctx none true false i.props)) true false j.props).visible = true)
    (vp : (resolveAll ctx (some (resolveAll ctx (some (resolveAll ctx none true false i.props)) true false j.props))
            false false p).visible = true) :
    Spec.flatten ctx none Aff.id (.cons (.node i bi (.cons (.node j bj (.cons (.leaf .line p [a, b]) .nil)) .nil)) .nil) =
      [mkPrim .line
        (resolveAll ctx (some (resolveAll ctx (some (resolveAll ctx none true false i.props)) true false j.props)) false false p)
        [(xfOf i bi).apply ((xfOf j bj).apply a), (xfOf i bi).apply ((xfOf j bj).apply b)]] := by
  simp [Spec.flatten, vi, vj, vp, hi, hj, drawAttribs, Spec.mapAttribs, emitLeaf, apply_comp, (comp_id _).1]

/-! ## decision logic of resolve_* -/

/-- layer "0" content takes the layer of the enclosing reference; everything else keeps its layer -/
theorem layer_zero_inherits (c : RProps) (e : EProps) :
    (e.layer = "0" → resolveLayer (some c) e = c.layer) ∧ (e.layer ≠ "0" → resolveLayer (some c) e = e.layer) ∧
    resolveLayer none e = e.layer := by
  refine ⟨fun h => by simp [resolveLayer, h], fun h => by simp [resolveLayer, h], rfl⟩

theorem color_true_color_wins (ctx : Ctx) (cur : Option RProps) (e : EProps) (lp : LayerProps) (v : Nat)
    (h : e.trueColor = some v) : (resolveColor ctx cur e lp).rgb = v &&& 0xFFFFFF := by
  simp [resolveColor, h, BYLAYER, BYBLOCK, trueEntityColor]

theorem color_bylayer (ctx : Ctx) (cur : Option RProps) (e : EProps) (lp : LayerProps)
    (h : e.trueColor = none) (hc : e.color = 256) :
    (resolveColor ctx cur e lp).rgb = if lp.hasAci7 then ctx.fg else lp.color.rgb := by
  simp [resolveColor, h, hc, BYLAYER]

theorem color_byblock (ctx : Ctx) (e : EProps) (lp : LayerProps) (h : e.trueColor = none) (hc : e.color = 0) :
    (∀ c, (resolveColor ctx (some c) e lp).rgb = c.color.rgb) ∧ (resolveColor ctx none e lp).rgb = ctx.fg := by
  constructor
  · intro c; simp [resolveColor, h, hc, BYLAYER, BYBLOCK]
  · simp [resolveColor, h, hc, BYLAYER, BYBLOCK]

theorem color_explicit (ctx : Ctx) (cur : Option RProps) (e : EProps) (lp : LayerProps)
    (h : e.trueColor = none) (h1 : 0 < e.color) (h2 : e.color < 256) :
    (resolveColor ctx cur e lp).rgb = if e.color = 7 then ctx.fg else ctx.aci.getD e.color.toNat 0 := by
  have hl : e.color ≠ 256 := by omega
  have hb : e.color ≠ 0 := by omega
  simp only [resolveColor, h, BYLAYER, BYBLOCK, trueEntityColor, aciToTrue, Option.isSome_none, Bool.false_eq_true,
    if_false, hl, hb, h1, h2, and_self, if_true]
  by_cases h7 : e.color = 7
  · simp [h7]
  · have : e.color.toNat ≠ 7 := by omega
    simp [h7, this]

/-- BYLAYER takes the colour of the RESOLVED layer (the reference's layer for layer "0" content) -/
theorem bylayer_uses_resolved_layer (ctx : Ctx) (cur : Option RProps) (b f : Bool) (e : EProps) (lp : LayerProps)
    (h : e.trueColor = none) (hc : e.color = 256) (hl : ctx.lookup (layerKey (resolveLayer cur e)) = some lp) :
    (resolveAll ctx cur b f e).color.rgb = if lp.hasAci7 then ctx.fg else lp.color.rgb := by
  simp [resolveAll, hl, color_bylayer ctx cur e lp h hc]

theorem linetype_rules (cur : Option RProps) (e : EProps) (lp : LayerProps) :
    (upper e.linetype = "BYLAYER" → resolveLinetype cur e lp = lp.linetype) ∧
    (upper e.linetype = "BYBLOCK" → resolveLinetype cur e lp = (match cur with | some c => c.linetype | none => "STANDARD")) ∧
    (upper e.linetype ≠ "BYLAYER" → upper e.linetype ≠ "BYBLOCK" → resolveLinetype cur e lp = upper e.linetype) := by
  refine ⟨fun h => by simp [resolveLinetype, h], fun h => ?_, fun h1 h2 => by simp [resolveLinetype, h1, h2]⟩
  have : ("BYBLOCK" : String) ≠ "BYLAYER" := by decide
  simp only [resolveLinetype, h, if_neg this, if_true]
  cases cur <;> rfl

theorem lineweight_rules (cur : Option RProps) (e : EProps) (lp : LayerProps) :
    (1 / 100 ≤ resolveLineweight cur e lp) ∧
    (1 ≤ e.lineweight → resolveLineweight cur e lp = (e.lineweight : Rat) / 100) ∧
    (e.lineweight = -1 → 1 / 100 < lp.lineweight → resolveLineweight cur e lp = lp.lineweight) ∧
    (e.lineweight = -2 → ∀ c, cur = some c → 1 / 100 < c.lineweight → resolveLineweight cur e lp = c.lineweight) ∧
    (e.lineweight = -2 → cur = none → resolveLineweight cur e lp = 1 / 4) ∧
    (e.lineweight = -3 → resolveLineweight cur e lp = 1 / 4) := by
  have key : ∀ lw : Rat, (1 / 100 : Rat) ≤ (if (1 / 100 : Rat) < lw then lw else 1 / 100) := by
    intro lw; split_ifs with h
    · exact le_of_lt h
    · exact le_refl _
  have inv : (100 : Rat)⁻¹ = 1 / 100 := by norm_num
  refine ⟨?_, ?_, ?_, ?_, ?_, ?_⟩
  · simp only [resolveLineweight, minLineweight]; exact key _
  · intro h
    have h1 : e.lineweight ≠ -1 := by omega
    have h2 : e.lineweight ≠ -2 := by omega
    have h3 : e.lineweight ≠ -3 := by omega
    have : (1 : Rat) ≤ (e.lineweight : Rat) := by exact_mod_cast h
    simp [resolveLineweight, LINEWEIGHT_BYLAYER, LINEWEIGHT_BYBLOCK, LINEWEIGHT_DEFAULT, h1, h2, h3, minLineweight]
    intro hle; rw [inv] at *; linarith
  · intro h hlp
    simp [resolveLineweight, LINEWEIGHT_BYLAYER, h, minLineweight]
    intro hle; rw [inv] at *; linarith
  · intro h c hc hlw
    simp [resolveLineweight, LINEWEIGHT_BYLAYER, LINEWEIGHT_BYBLOCK, h, hc, minLineweight]
    intro hle; rw [inv] at *; linarith
  · intro h hc
    simp [resolveLineweight, LINEWEIGHT_BYLAYER, LINEWEIGHT_BYBLOCK, h, hc, minLineweight, defaultLineweight]
    norm_num
  · intro h
    simp [resolveLineweight, LINEWEIGHT_BYLAYER, LINEWEIGHT_BYBLOCK, LINEWEIGHT_DEFAULT, h, minLineweight, defaultLineweight]
    norm_num

/-- INSERT visibility depends on the invisible flag only -/
theorem insert_visibility_ignores_layer (ctx : Ctx) (cur : Option RProps) (f : Bool) (e : EProps) :
    (resolveAll ctx cur true f e).visible = !e.invisible := by
  simp [resolveAll, resolveVisible]

/-- an entity (not an INSERT) is hidden iff it is flagged invisible or its RESOLVED layer is off, frozen or (export) not plotted -/
theorem leaf_hidden_iff (ctx : Ctx) (cur : Option RProps) (e : EProps) :
    (resolveAll ctx cur false false e).visible = false ↔
      (e.invisible = true ∨ ∃ lp, ctx.lookup (layerKey (resolveLayer cur e)) = some lp ∧ lp.visible = false) := by
  simp only [resolveAll, resolveVisible]
  cases hl : ctx.lookup (layerKey (resolveLayer cur e)) with
  | none => simp
  | some lp =>
    cases hv : lp.visible <;> simp [hv]

theorem layer_visible_iff (fg : Nat) (aci : List Nat) (ex : Bool) (l : RawLayer) :
    (resolveLayerProps fg aci ex l).visible = true ↔
      (0 ≤ l.color ∧ l.flags &&& 1 = 0 ∧ (ex = true → l.plot = true)) := by
  cases ex <;> simp [resolveLayerProps, FROZEN]
  all_goals tauto

/-- invisible / hidden entities emit nothing and leave the state alone -/
theorem invisible_nothing (doc : Doc) (ctx : Ctx) (fuel : Nat) (es : List Ent) (st : State) :
    (∀ k p pts, (resolveAll ctx st.current false false p).visible = false →
      drawEnts doc ctx fuel (.leaf k p pts :: es) st = drawEnts doc ctx fuel es st) ∧
    (∀ i : Ins, i.props.invisible = true →
      drawEnts doc ctx fuel (.ins i :: es) st = drawEnts doc ctx fuel es st) := by
  constructor
  · intro k p pts h
    rw [drawEnts.eq_2]; simp [h]
  · intro i h
    have hv : (resolveAll ctx st.current true false i.props).visible = false := by
      simp [insert_visibility_ignores_layer, h]
    cases fuel with
    | zero => rw [drawEnts.eq_3]; simp [hv]
    | succ n => rw [drawEnts.eq_4]; simp [hv]

/-! ## ties to the constants of the live modules -/
theorem tie_constants :
    Gen.RenderTables.BYLAYER = BYLAYER ∧ Gen.RenderTables.BYBLOCK = BYBLOCK ∧ Gen.RenderTables.BYOBJECT = BYOBJECT ∧
    Gen.RenderTables.LINEWEIGHT_BYLAYER = LINEWEIGHT_BYLAYER ∧ Gen.RenderTables.LINEWEIGHT_BYBLOCK = LINEWEIGHT_BYBLOCK ∧
    Gen.RenderTables.LINEWEIGHT_DEFAULT = LINEWEIGHT_DEFAULT ∧ Gen.RenderTables.TRANSPARENCY_BYBLOCK = TRANSPARENCY_BYBLOCK ∧
    Gen.RenderTables.layerFrozenMask = FROZEN ∧ Gen.RenderTables.layerLockMask &&& FROZEN = 0 := by decide

theorem tie_lineweight :
    Gen.RenderTables.defaultLineweightExact = true ∧ (Gen.RenderTables.defaultLineweight100 : Rat) / 100 = defaultLineweight ∧
    (Gen.RenderTables.dfltLayerLineweight100 : Rat) / 100 = defaultLayer.lineweight := by
  refine ⟨by decide, ?_, ?_⟩ <;> norm_num [Gen.RenderTables.defaultLineweight100, defaultLineweight,
    Gen.RenderTables.dfltLayerLineweight100, defaultLayer]

theorem tie_layer_alpha : Gen.RenderTables.layerAlpha = List.range 256 := by decide +kernel

theorem tie_plot_styles : Gen.RenderTables.ctbAllObject = true ∧ Gen.RenderTables.aciRgb.length = 256 := by
  constructor <;> decide +kernel

theorem tie_default_layer :
    Gen.RenderTables.dfltLayerRgb = defaultLayer.color.rgb ∧ Gen.RenderTables.dfltLayerAlphaLen = 0 ∧
    defaultLayer.color.alpha = none ∧ Gen.RenderTables.dfltLayerPen = defaultLayer.pen ∧
    Gen.RenderTables.dfltLayerLinetype = defaultLayer.linetype ∧ Gen.RenderTables.dfltLayerAci7 = defaultLayer.hasAci7 ∧
    Gen.RenderTables.dfltLayerVisible = defaultLayer.visible ∧ Gen.RenderTables.dfltLayerName = defaultLayer.layer := by
  refine ⟨by decide, by decide, rfl, by decide, rfl, rfl, rfl, rfl⟩

end EzdxfVerif.Props.C18

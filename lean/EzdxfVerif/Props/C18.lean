/-
C18  The drawing front end renders what the document defines.
Only property theorems and non-vacuity examples live here (helper lemmas are `private`); every `theorem` of this
file is an obligation counted by ./check C18.
-/
import Mathlib.Algebra.Order.Field.Rat
import Mathlib.Tactic.Ring
import Mathlib.Tactic.Linarith
import Mathlib.Tactic.FieldSimp
import Mathlib.Algebra.Order.Ring.Abs
import EzdxfVerif.Model.Render
import EzdxfVerif.Gen.RenderTables

namespace EzdxfVerif.Props.C18
open EzdxfVerif.Render

/-! ## the transformation algebra the specification composes with -/

/-- `(f @ g).transform(p) = g.transform(f.transform(p))`: the product of reference matrices along a path acts
    innermost first -/
theorem apply_comp (f g : Aff) (p : P2) : (f.comp g).apply p = g.apply (f.apply p) := by
  simp only [Aff.comp, Aff.apply, P2.mk.injEq]
  constructor <;> ring

theorem comp_assoc (f g h : Aff) : (f.comp g).comp h = f.comp (g.comp h) := by
  simp only [Aff.comp, Aff.mk.injEq]
  refine ⟨?_, ?_, ?_, ?_, ?_, ?_⟩ <;> ring

theorem comp_id (f : Aff) : f.comp Aff.id = f ∧ Aff.id.comp f = f := by
  constructor <;> (cases f; simp [Aff.comp, Aff.id])


/-! ## draw = specification

Full-strength statement (every acyclic document, every nesting depth):

    theorem draw_eq_spec (doc ctx ents) (hq : every reference is rotated by a multiple of 90°, scales ≠ 0)
        (hr : reach doc (doc.blocks.length + 1) ents = true) :                   -- acyclic and closed
        drawLayout doc ctx ents = .ok (Spec.flatten ctx none Aff.id (blockTree doc ents), State.init)
      -- blockTree = `unfold` without the `lawful` test

It is FALSE of the model and of the code: `Insert.transform` (InsertCoordinateSystem.transform) multiplies the x/y scale
factors of a nested INSERT by the stretch of the OCS x/y axes instead of the stretch of the rotated block axes, see
`nested_insert_counterexample` below (replayed on the real code by the oracle: finding F18).  The proved statement
carries the hypothesis that every `Insert.transform` met on the way is lawful; this is part of `unfold`.
`transformIns_lawful_unrotated` and `transformIns_lawful_uniform` give the two sufficient conditions, and
`draw_eq_spec_uniform` discharges the hypothesis for every document whose references are uniformly scaled. -/

theorem draw_eq_spec_partial (doc : Doc) (ctx : Ctx) (fuel : Nat) (m : Aff) (ents : List Ent) :
    ∀ (forest : Forest) (st : State), unfold doc fuel m ents = some forest →
      drawEnts doc ctx fuel (ents.map (transformEnt m)) st = .ok (Spec.flatten ctx st.current m forest, st) := by
  fun_induction unfold doc fuel m ents with
  | case1 fuel m =>
    intro forest st h
    simp at h; subst h
    simp [drawEnts, Spec.flatten]
  | case2 fuel m k p pts es rest hrest ih =>
    intro forest st h
    simp at h; subst h
    simp only [List.map_cons, transformEnt, drawEnts.eq_2, Spec.flatten, ih rest st hrest]
    split <;> simp
  | case3 fuel m k p pts es hrest ih =>
    intro forest st h; simp at h
  | case4 m i tail => intro forest st h; simp at h
  | case5 fuel' m i es hfind => intro forest st h; simp at h
  | case6 fuel' m i es blk hfind hlaw hch ih => intro forest st h; simp at h
  | case7 fuel' m i es blk hfind hlaw ch hch rest hrest ih1 ih2 =>
    intro forest st h
    simp at h; subst h
    have hl : xfOf (transformIns m i) blk.base = (xfOf i blk.base).comp m := by
      simpa [lawful] using hlaw
    have hname : (transformIns m i).name = i.name := rfl
    have hprops : (transformIns m i).props = i.props := rfl
    have hatt : (transformIns m i).attribs = i.attribs.map (transformAttrib m) := rfl
    simp only [List.map_cons, transformEnt, drawEnts.eq_4, hname, hprops, hatt, hfind, hl, virtualEntities,
      Spec.flatten, Spec.mapAttribs]
    split
    · rename_i hv
      have := ih1 ch (st.push (resolveAll ctx st.current true false i.props)) hch
      simp only [this]
      simp [State.pop, State.push, ih2 rest st hrest]
    · simp [ih2 rest st hrest]
  | case8 fuel' m i es blk hfind hlaw ch hch hrest ih1 ih2 => intro forest st h; simp at h
  | case9 fuel' m i es blk hfind hlaw => intro forest st h; simp at h

/-! ## the block reference state stack -/

/-- the state stack (`current_block_reference_properties`, `_saved_states`) is the same after any successful draw,
    also on the invisible/skip paths; no acyclicity or lawfulness hypothesis -/
theorem stack_balanced (doc : Doc) (ctx : Ctx) (fuel : Nat) (ents : List Ent) (st : State) :
    ∀ out st', drawEnts doc ctx fuel ents st = .ok (out, st') → st' = st := by
  fun_induction drawEnts doc ctx fuel ents st with
  | case1 fuel st => intro out st' h; simp at h; exact h.2.symm
  | case2 fuel k p pts es st rp hv out st1 hrest ih =>
    intro o s h; simp at h; rw [← h.2]; exact ih _ _ hrest
  | case3 fuel k p pts es st rp hv e herr ih => intro o s h; simp at h
  | case4 fuel k p pts es st rp hv ih => intro o s h; exact ih _ _ h
  | case5 i es st rp hv => intro o s h; simp at h
  | case6 i es st rp hv fuel' hfind => intro o s h; simp at h
  | case7 i es st rp hv fuel' st1 blk hfind e herr ih => intro o s h; simp at h
  | case8 i es st rp hv fuel' st1 blk hfind o2 st2 hch e hpop ih => intro o s h; simp at h
  | case9 i es st rp hv fuel' st1 o1 blk hfind o2 st2 hch st3 hpop out st4 hrest ih1 ih2 =>
    intro o s h; simp at h
    have h2 : st2 = st1 := ih1 _ _ hch
    have h3 : st3 = st := by
      subst h2
      simp [State.pop, st1, State.push] at hpop
      exact hpop.symm
    rw [← h.2, ih2 _ _ hrest, h3]
  | case10 i es st rp hv fuel' st1 blk hfind o2 st2 hch st3 hpop e herr ih1 ih2 => intro o s h; simp at h
  | case11 fuel i es st rp hv ih => intro o s h; exact ih _ _ h

/-! ## nothing is drawn on hidden layers -/

private theorem emitLeaf_layer (k : Kind) (rp : RProps) (pts : List P2) :
    ∀ pr ∈ emitLeaf k rp pts, pr.layer = rp.layer := by
  intro pr h
  cases k <;> simp only [emitLeaf] at h
  case line => simp [mkPrim] at h; simp [h]
  case point => split at h <;> simp [mkPrim] at h; simp [h]
  case attdef => simp [mkPrim] at h; simp [h]
  case circle => simp [mkPrim] at h; simp [h]
  case polyline c =>
    split at h
    · simp at h
    · simp at h
    · split at h <;> simp [mkPrim] at h <;> simp [h]
  case solid =>
    split at h
    · split at h <;> simp [mkPrim] at h <;> simp [h]
    · simp at h

private theorem visible_shown (ctx : Ctx) (cur : Option RProps) (f : Bool) (p : EProps)
    (h : (resolveAll ctx cur false f p).visible = true) : LayerShown ctx (resolveAll ctx cur false f p).layer := by
  intro lp hl
  simp only [resolveAll, resolveVisible] at h hl
  simp only [hl] at h
  simp at h
  by_contra hc
  simp at hc
  simp [hc] at h

private theorem drawAttribs_shown (ctx : Ctx) (cur : Option RProps) (as : List Attrib) :
    ∀ pr ∈ drawAttribs ctx cur as, LayerShown ctx pr.layer := by
  intro pr h
  simp only [drawAttribs, List.mem_flatMap] at h
  obtain ⟨a, _, ha⟩ := h
  split at ha
  · rename_i hv
    simp [mkPrim] at ha
    rw [ha]
    exact visible_shown ctx cur a.flag a.props hv
  · simp at ha

theorem nothing_on_hidden_layers (doc : Doc) (ctx : Ctx) (fuel : Nat) (ents : List Ent) (st : State) :
    ∀ out st', drawEnts doc ctx fuel ents st = .ok (out, st') → ∀ pr ∈ out, LayerShown ctx pr.layer := by
  fun_induction drawEnts doc ctx fuel ents st with
  | case1 fuel st => intro out st' h pr hpr; simp at h; rw [h.1] at hpr; simp at hpr
  | case2 fuel k p pts es st rp hv out st1 hrest ih =>
    intro o s h pr hpr; simp at h
    rw [← h.1] at hpr
    rcases List.mem_append.mp hpr with h1 | h1
    · rw [emitLeaf_layer k rp pts pr h1]; exact visible_shown ctx st.current false p hv
    · exact ih _ _ hrest pr h1
  | case3 fuel k p pts es st rp hv e herr ih => intro o s h; simp at h
  | case4 fuel k p pts es st rp hv ih => intro o s h; exact ih _ _ h
  | case5 i es st rp hv => intro o s h; simp at h
  | case6 i es st rp hv fuel' hfind => intro o s h; simp at h
  | case7 i es st rp hv fuel' st1 blk hfind e herr ih => intro o s h; simp at h
  | case8 i es st rp hv fuel' st1 blk hfind o2 st2 hch e hpop ih => intro o s h; simp at h
  | case9 i es st rp hv fuel' st1 o1 blk hfind o2 st2 hch st3 hpop out st4 hrest ih1 ih2 =>
    intro o s h pr hpr; simp at h
    rw [← h.1] at hpr
    simp only [List.mem_append] at hpr
    rcases hpr with h1 | h1 | h1
    · exact drawAttribs_shown ctx st1.current i.attribs pr h1
    · exact ih1 _ _ hch pr h1
    · exact ih2 _ _ hrest pr h1
  | case10 i es st rp hv fuel' st1 blk hfind o2 st2 hch st3 hpop e herr ih1 ih2 => intro o s h; simp at h
  | case11 fuel i es st rp hv ih => intro o s h; exact ih _ _ h

/-! ## totality -/

private theorem reach_transform (doc : Doc) (m : Aff) (fuel : Nat) (ents : List Ent) :
    reach doc fuel (ents.map (transformEnt m)) = reach doc fuel ents := by
  fun_induction reach doc fuel ents with
  | case1 fuel => simp [reach]
  | case2 fuel k p pts es ih => simp [transformEnt, reach, ih]
  | case3 i es => simp [transformEnt, reach]
  | case4 fuel' i es hfind =>
    have hname : (transformIns m i).name = i.name := rfl
    simp [transformEnt, reach, hname, hfind]
  | case5 fuel' i es blk hfind ih1 ih2 =>
    have hname : (transformIns m i).name = i.name := rfl
    simp [transformEnt, reach, hname, hfind, ih2]

private theorem reach_filter (doc : Doc) (p : Ent → Bool) (fuel : Nat) (ents : List Ent) :
    reach doc fuel ents = true → reach doc fuel (ents.filter p) = true := by
  fun_induction reach doc fuel ents with
  | case1 fuel => simp [reach]
  | case2 fuel k q pts es ih =>
    intro h
    simp only [List.filter_cons]
    split
    · simp [reach]; exact ih h
    · exact ih h
  | case3 i es => intro h; simp at h
  | case4 fuel' i es hfind => intro h; simp at h
  | case5 fuel' i es blk hfind ih1 ih2 =>
    intro h
    simp at h
    simp only [List.filter_cons]
    split
    · simp [reach, hfind, h.1, ih2 h.2]
    · exact ih2 h.2

theorem draw_total (doc : Doc) (ctx : Ctx) (fuel : Nat) (ents : List Ent) (st : State) :
    reach doc fuel ents = true → ∃ out, drawEnts doc ctx fuel ents st = .ok (out, st) := by
  fun_induction drawEnts doc ctx fuel ents st with
  | case1 fuel st => intro _; exact ⟨[], rfl⟩
  | case2 fuel k p pts es st rp hv out st1 hrest ih =>
    intro h
    simp [reach] at h
    have := stack_balanced doc ctx fuel es st _ _ hrest
    subst this
    exact ⟨_, rfl⟩
  | case3 fuel k p pts es st rp hv e herr ih =>
    intro h; simp [reach] at h
    obtain ⟨o, ho⟩ := ih h
    rw [ho] at herr; simp at herr
  | case4 fuel k p pts es st rp hv ih => intro h; simp [reach] at h; exact ih h
  | case5 i es st rp hv => intro h; simp [reach] at h
  | case6 i es st rp hv fuel' hfind => intro h; simp [reach, hfind] at h
  | case7 i es st rp hv fuel' st1 blk hfind e herr ih =>
    intro h; simp [reach, hfind] at h
    have hr : reach doc fuel' (virtualEntities (xfOf i blk.base) blk) = true := by
      simp only [virtualEntities, reach_transform]; exact reach_filter doc _ _ _ h.1
    obtain ⟨o, ho⟩ := ih hr
    rw [ho] at herr; simp at herr
  | case8 i es st rp hv fuel' st1 blk hfind o2 st2 hch e hpop ih =>
    intro h
    have := stack_balanced doc ctx _ _ _ _ _ hch
    subst this
    simp [State.pop, st1, State.push] at hpop
  | case9 i es st rp hv fuel' st1 o1 blk hfind o2 st2 hch st3 hpop out st4 hrest ih1 ih2 =>
    intro h
    have h2 := stack_balanced doc ctx _ _ _ _ _ hch
    subst h2
    simp [State.pop, st1, State.push] at hpop
    subst hpop
    have h4 := stack_balanced doc ctx _ _ _ _ _ hrest
    subst h4
    exact ⟨_, rfl⟩
  | case10 i es st rp hv fuel' st1 blk hfind o2 st2 hch st3 hpop e herr ih1 ih2 =>
    intro h; simp [reach, hfind] at h
    have h2 := stack_balanced doc ctx _ _ _ _ _ hch
    subst h2
    simp [State.pop, st1, State.push] at hpop
    subst hpop
    obtain ⟨o, ho⟩ := ih2 h.2
    rw [ho] at herr; simp at herr
  | case11 fuel i es st rp hv ih =>
    intro h
    apply ih
    cases fuel with
    | zero => simp [reach] at h
    | succ n =>
      simp only [reach] at h
      split at h
      · simp at h
      · simp at h; exact h.2

/-! ## when is `Insert.transform` lawful -/

/-- `Insert.transform(m)` gives the INSERT with matrix `matrix44() @ m` (and moves the ATTRIBs) for every axis-monomial `m`
    (any composition of translations, axis scalings, mirrors, quarter turns) when the reference is rotated by 0° or 180° -/
theorem transformIns_lawful_unrotated (m : Aff) (i : Ins) (base : P2) (hm : Monomial m)
    (hdir : i.dir = ⟨1, 0⟩ ∨ i.dir = ⟨-1, 0⟩) : lawful m i base = true := by
  obtain ⟨a, b, c, d, tx, ty⟩ := m
  simp only [lawful, decide_eq_true_eq]
  rcases hm with ⟨hb, hc, ha, hd⟩ | ⟨ha, hd, hb, hc⟩ <;> simp only at ha hb hc hd
  · subst hb hc
    rcases lt_or_gt_of_ne ha with ha' | ha' <;> rcases lt_or_gt_of_ne hd with hd' | hd' <;>
    rcases hdir with hdir | hdir <;> cases hf : i.flip <;>
    simp [xfOf, transformIns, Aff.comp, Aff.lin, Aff.apply, mag, unit, rabs, exSign, ocsFlip, hdir, hf,
      le_of_lt, not_le.mpr, ha', hd', ha, hd] <;> norm_num <;> (refine ⟨?_, ?_, ?_, ?_⟩ <;> ring)
  · subst ha hd
    rcases lt_or_gt_of_ne hb with hb' | hb' <;> rcases lt_or_gt_of_ne hc with hc' | hc' <;>
    rcases hdir with hdir | hdir <;> cases hf : i.flip <;>
    simp [xfOf, transformIns, Aff.comp, Aff.lin, Aff.apply, mag, unit, rabs, exSign, ocsFlip, hdir, hf,
      le_of_lt, not_le.mpr, hb', hc', hb, hc] <;> norm_num <;> (refine ⟨?_, ?_, ?_, ?_⟩ <;> ring)

/-- … and for every quarter-turn reference when `m` stretches both axes by the same absolute factor -/
theorem transformIns_lawful_uniform (m : Aff) (i : Ins) (base : P2) (hm : Monomial m)
    (hu : UniformScale m) (hdir : AxisUnit i.dir) : lawful m i base = true := by
  obtain ⟨a, b, c, d, tx, ty⟩ := m
  simp only [lawful, decide_eq_true_eq]
  simp only [UniformScale] at hu
  rcases hm with ⟨hb, hc, ha, hd⟩ | ⟨ha, hd, hb, hc⟩ <;> simp only at ha hb hc hd hu
  · subst hb hc
    rcases lt_or_gt_of_ne ha with ha' | ha' <;> rcases lt_or_gt_of_ne hd with hd' | hd' <;>
    simp [rabs, le_of_lt, not_le.mpr, ha', hd'] at hu <;>
    subst hu <;>
    rcases hdir with hdir | hdir | hdir | hdir <;> cases hf : i.flip <;>
    simp [xfOf, transformIns, Aff.comp, Aff.lin, Aff.apply, mag, unit, rabs, exSign, ocsFlip, hdir, hf,
      le_of_lt, not_le.mpr, ha', hd', ha, hd] <;> norm_num <;> (refine ⟨?_, ?_, ?_, ?_⟩ <;> ring)
  · subst ha hd
    rcases lt_or_gt_of_ne hb with hb' | hb' <;> rcases lt_or_gt_of_ne hc with hc' | hc' <;>
    simp [rabs, le_of_lt, not_le.mpr, hb', hc'] at hu <;>
    subst hu <;>
    rcases hdir with hdir | hdir | hdir | hdir <;> cases hf : i.flip <;>
    simp [xfOf, transformIns, Aff.comp, Aff.lin, Aff.apply, mag, unit, rabs, exSign, ocsFlip, hdir, hf,
      le_of_lt, not_le.mpr, hb', hc', hb, hc] <;> norm_num <;> (refine ⟨?_, ?_, ?_, ?_⟩ <;> ring)


/-! ## the defect: a rotated reference below a non-uniformly scaled reference (finding F18) -/

def p0 : EProps := ⟨"0", 256, none, "BYLAYER", -1, false, none⟩
/-- INNER rotated by 90° -/
def wInner : Ins := ⟨p0, "INNER", ⟨0, 0⟩, 1, 1, ⟨0, 1⟩, false, []⟩
/-- OUTER scaled (2, 1) -/
def wOuter : Ins := ⟨p0, "OUTER", ⟨0, 0⟩, 2, 1, ⟨1, 0⟩, false, []⟩
def wDoc : Doc := ⟨[⟨"INNER", ⟨0, 0⟩, [.leaf .line p0 [⟨0, 0⟩, ⟨1, 0⟩]]⟩, ⟨"OUTER", ⟨0, 0⟩, [.ins wInner]⟩]⟩
def wCtx : Ctx := mkCtx 0xFFFFFF Gen.RenderTables.aciRgb false [⟨"0", 7, none, none, "Continuous", -3, 0, true⟩]

/-- neither condition can be dropped: OUTER = scale (2, 1), INNER rotated by 90° -/
theorem nested_insert_counterexample :
    Monomial (xfOf wOuter ⟨0, 0⟩) ∧ AxisUnit wInner.dir ∧ lawful (xfOf wOuter ⟨0, 0⟩) wInner ⟨0, 0⟩ = false := by
  refine ⟨?_, ?_, ?_⟩
  · left; simp [xfOf, wOuter, exSign, Aff.lin, ocsFlip]
  · right; left; rfl
  · decide +kernel

-- the model reproduces the defect: the unit x-line of INNER is drawn from (0,0) to (0,2); its world geometry is (0,0)-(0,1)
#guard (drawLayout wDoc wCtx [.ins wOuter]).toOption.map (fun r => r.1.map (·.pts)) = some [[⟨0, 0⟩, ⟨0, 2⟩]]
#guard unfold wDoc 3 Aff.id [.ins wOuter] |>.isNone
#guard reach wDoc 3 [.ins wOuter]
-- non-vacuity of draw_eq_spec_partial: the same document with a uniformly scaled OUTER unfolds (depth 2) and draws
def wOuterU : Ins := { wOuter with sy := -2 }
#guard (unfold wDoc 3 Aff.id [.ins wOuterU]).isSome
#guard (drawLayout wDoc wCtx [.ins wOuterU]).toOption.map (fun r => r.1.map (·.pts)) = some [[⟨0, 0⟩, ⟨0, -2⟩]]
#guard (unfold wDoc 3 Aff.id [.ins wOuterU]).map (fun f => (Spec.flatten wCtx none Aff.id f).map (·.pts)) = some [[⟨0, 0⟩, ⟨0, -2⟩]]

/-! ## uniformly scaled documents: the lawfulness hypothesis is discharged -/

private theorem rabs_eq_abs (a : Rat) : rabs a = |a| := by
  unfold rabs
  split_ifs with h
  · exact (abs_of_nonneg h).symm
  · exact (abs_of_neg (not_le.mp h)).symm

private theorem xfOf_MU (i : Ins) (base : P2) (h : InsUniform i) :
    Monomial (xfOf i base) ∧ UniformScale (xfOf i base) := by
  obtain ⟨hd, hsx, hs⟩ := h
  have hsy : i.sy ≠ 0 := by
    intro h0; rw [h0, rabs_eq_abs, rabs_eq_abs, abs_zero] at hs; exact hsx (abs_eq_zero.mp hs)
  rw [rabs_eq_abs, rabs_eq_abs] at hs
  rcases hd with hd | hd | hd | hd <;> cases hf : i.flip <;>
  simp [xfOf, Monomial, UniformScale, exSign, Aff.lin, ocsFlip, hd, hf, rabs_eq_abs, hsx, hsy, hs]

private theorem comp_MU (f g : Aff) (hf : Monomial f) (hfu : UniformScale f) (hg : Monomial g) (hgu : UniformScale g) :
    Monomial (f.comp g) ∧ UniformScale (f.comp g) := by
  obtain ⟨fa, fb, fc, fd, ftx, fty⟩ := f
  obtain ⟨ga, gb, gc, gd, gtx, gty⟩ := g
  simp only [UniformScale, rabs_eq_abs] at hfu hgu
  rcases hf with ⟨h1, h2, h3, h4⟩ | ⟨h1, h2, h3, h4⟩ <;> rcases hg with ⟨k1, k2, k3, k4⟩ | ⟨k1, k2, k3, k4⟩ <;>
  simp only at h1 h2 h3 h4 k1 k2 k3 k4 <;> subst h1 h2 k1 k2 <;>
  simp at hfu hgu <;>
  simp [Aff.comp, Monomial, UniformScale, rabs_eq_abs, h3, h4, k3, k4] <;>
  rw [hfu, hgu]

private theorem transformAttrib_id (a : Attrib) : transformAttrib Aff.id a = a := by
  cases a; simp [transformAttrib, Aff.apply, Aff.id]

private theorem map_transformAttrib_id (as : List Attrib) : as.map (transformAttrib Aff.id) = as := by
  induction as with
  | nil => rfl
  | cons a as ih => simp [transformAttrib_id, ih]

private theorem transformIns_id (i : Ins) (h : AxisUnit i.dir) : transformIns Aff.id i = i := by
  obtain ⟨props, name, pos, sx, sy, dir, flip, attribs⟩ := i
  simp only at h
  rcases h with h | h | h | h <;> cases flip <;> subst h <;>
  simp only [transformIns, map_transformAttrib_id] <;>
  simp [Aff.id, Aff.lin, Aff.apply, mag, unit, rabs, exSign, ocsFlip] <;> norm_num

private theorem apply_id (q : P2) : Aff.id.apply q = q := by cases q; simp [Aff.apply, Aff.id]

private theorem map_apply_id (pts : List P2) : pts.map Aff.id.apply = pts := by
  induction pts with
  | nil => rfl
  | cons q qs ih => rw [List.map_cons, ih, apply_id]

private theorem map_transformEnt_id (ents : List Ent) (h : ∀ i, Ent.ins i ∈ ents → AxisUnit i.dir) :
    ents.map (transformEnt Aff.id) = ents := by
  induction ents with
  | nil => rfl
  | cons e es ih =>
    have hes : ∀ i, Ent.ins i ∈ es → AxisUnit i.dir := fun i hi => h i (List.mem_cons_of_mem _ hi)
    rw [List.map_cons, ih hes]
    cases e with
    | leaf k p pts => simp [transformEnt, map_apply_id]
    | ins i => simp [transformEnt, transformIns_id i (h i List.mem_cons_self)]

/-- `draw_eq_spec_partial` at layout level (the entities of a layout are not transformed): for every document whose
    layout references are rotated by multiples of 90° and whose block tree exists with lawful `Insert.transform`s,
    `draw_layout` = `Spec.flatten`, state stack untouched. -/
theorem draw_layout_eq_spec_partial (doc : Doc) (ctx : Ctx) (ents : List Ent) (forest : Forest)
    (hq : ∀ i, Ent.ins i ∈ ents → AxisUnit i.dir)
    (hf : unfold doc (doc.blocks.length + 1) Aff.id ents = some forest) :
    drawLayout doc ctx ents = .ok (Spec.flatten ctx none Aff.id forest, State.init) := by
  have := draw_eq_spec_partial doc ctx _ Aff.id ents forest State.init hf
  rw [map_transformEnt_id ents hq] at this
  exact this

private theorem find_mem (doc : Doc) (name : String) (blk : Block) (h : doc.find name = some blk) : blk ∈ doc.blocks :=
  List.mem_of_find?_eq_some h

/-- uniformly scaled quarter-turn documents: every `Insert.transform` on the way is lawful, the block tree exists -/
theorem unfold_uniform (doc : Doc) (hd : DocUniform doc) (fuel : Nat) (m : Aff) (ents : List Ent) :
    Monomial m → UniformScale m → EntsUniform ents → reach doc fuel ents = true →
      ∃ f, unfold doc fuel m ents = some f := by
  fun_induction unfold doc fuel m ents with
  | case1 fuel m => intro _ _ _ _; exact ⟨_, rfl⟩
  | case2 fuel m k p pts es rest hrest ih => intro _ _ _ _; exact ⟨_, rfl⟩
  | case3 fuel m k p pts es hrest ih =>
    intro hm hu he hr
    simp [reach] at hr
    obtain ⟨f, hf⟩ := ih hm hu (fun i hi => he i (List.mem_cons_of_mem _ hi)) hr
    rw [hf] at hrest; simp at hrest
  | case4 m i tail => intro _ _ _ hr; simp [reach] at hr
  | case5 fuel' m i es hfind => intro _ _ _ hr; simp [reach, hfind] at hr
  | case6 fuel' m i es blk hfind hlaw hch ih =>
    intro hm hu he hr
    simp [reach, hfind] at hr
    have hi := he i List.mem_cons_self
    obtain ⟨hm', hu'⟩ := comp_MU _ _ (xfOf_MU i blk.base hi).1 (xfOf_MU i blk.base hi).2 hm hu
    have hb : EntsUniform (blk.ents.filter (fun e => !isAttdef e)) :=
      fun j hj => hd blk (find_mem doc _ _ hfind) j (List.mem_of_mem_filter hj)
    obtain ⟨f, hf⟩ := ih hm' hu' hb (reach_filter doc _ _ _ hr.1)
    rw [hf] at hch; simp at hch
  | case7 fuel' m i es blk hfind hlaw ch hch rest hrest ih1 ih2 => intro _ _ _ _; exact ⟨_, rfl⟩
  | case8 fuel' m i es blk hfind hlaw ch hch hrest ih1 ih2 =>
    intro hm hu he hr
    simp [reach, hfind] at hr
    obtain ⟨f, hf⟩ := ih2 hm hu (fun j hj => he j (List.mem_cons_of_mem _ hj)) hr.2
    rw [hf] at hrest; simp at hrest
  | case9 fuel' m i es blk hfind hlaw =>
    intro hm hu he hr
    exact absurd (transformIns_lawful_uniform m i blk.base hm hu (he i List.mem_cons_self).1) hlaw

/-- For every acyclic, closed document whose block references are rotated by multiples of 90° and scaled uniformly
    (|xscale| = |yscale|, mirrors allowed), at every nesting depth: `draw_layout` sends exactly `Spec.flatten` of the block
    tree to the backend and leaves the state stack as it found it. -/
theorem draw_eq_spec_uniform (doc : Doc) (ctx : Ctx) (ents : List Ent) (hd : DocUniform doc) (he : EntsUniform ents)
    (hr : reach doc (doc.blocks.length + 1) ents = true) :
    ∃ forest, unfold doc (doc.blocks.length + 1) Aff.id ents = some forest ∧
      drawLayout doc ctx ents = .ok (Spec.flatten ctx none Aff.id forest, State.init) := by
  have hm : Monomial Aff.id := Or.inl ⟨rfl, rfl, by simp [Aff.id], by simp [Aff.id]⟩
  have hu : UniformScale Aff.id := by simp [UniformScale, Aff.id, rabs]
  obtain ⟨f, hf⟩ := unfold_uniform doc hd _ Aff.id ents hm hu he hr
  exact ⟨f, hf, draw_layout_eq_spec_partial doc ctx ents f (fun i hi => (he i hi).1) hf⟩

/-- the hypotheses of `draw_eq_spec_uniform` are met by a depth-2 document with a mirrored, rotated reference -/
example : DocUniform wDoc ∧ EntsUniform [.ins wOuterU] := by
  refine ⟨?_, ?_⟩
  · intro b hb i hi
    simp [wDoc] at hb
    rcases hb with rfl | rfl <;> simp at hi
    subst hi
    exact ⟨Or.inr (Or.inl rfl), by simp [wInner], by simp [wInner]⟩
  · intro i hi
    simp at hi; subst hi
    refine ⟨Or.inl rfl, by simp [wOuterU, wOuter], ?_⟩
    simp [wOuterU, wOuter, rabs]
#guard reach wDoc (wDoc.blocks.length + 1) [.ins wOuterU]

/-- reading of the specification at depth 2: properties are inherited down the chain of references, the point is mapped
    by the innermost reference first -/
theorem spec_depth2_geometry (ctx : Ctx) (i j : Ins) (bi bj : P2) (p : EProps) (a b : P2)
    (hi : i.attribs = []) (hj : j.attribs = [])
    (vi : (resolveAll ctx none true false i.props).visible = true)
    (vj : (resolveAll ctx (some (resolveAll ctx none true false i.props)) true false j.props).visible = true)
    (vp : (resolveAll ctx (some (resolveAll ctx (some (resolveAll ctx none true false i.props)) true false j.props))
            false false p).visible = true) :
    Spec.flatten ctx none Aff.id (.cons (.node i bi (.cons (.node j bj (.cons (.leaf .line p [a, b]) .nil)) .nil)) .nil) =
      [mkPrim .line
        (resolveAll ctx (some (resolveAll ctx (some (resolveAll ctx none true false i.props)) true false j.props)) false false p)
        [(xfOf i bi).apply ((xfOf j bj).apply a), (xfOf i bi).apply ((xfOf j bj).apply b)]] := by
  simp [Spec.flatten, vi, vj, vp, hi, hj, drawAttribs, Spec.mapAttribs, emitLeaf, apply_comp, (comp_id _).1]

/-! ## decision logic of resolve_* -/

/-- layer "0" content takes the layer of the enclosing reference; everything else keeps its layer -/
theorem layer_zero_inherits (c : RProps) (e : EProps) :
    (e.layer = "0" → resolveLayer (some c) e = c.layer) ∧ (e.layer ≠ "0" → resolveLayer (some c) e = e.layer) ∧
    resolveLayer none e = e.layer := by
  refine ⟨fun h => by simp [resolveLayer, h], fun h => by simp [resolveLayer, h], rfl⟩

theorem color_true_color_wins (ctx : Ctx) (cur : Option RProps) (e : EProps) (lp : LayerProps) (v : Nat)
    (h : e.trueColor = some v) : (resolveColor ctx cur e lp).rgb = v &&& 0xFFFFFF := by
  simp [resolveColor, h, BYLAYER, BYBLOCK, trueEntityColor]

theorem color_bylayer (ctx : Ctx) (cur : Option RProps) (e : EProps) (lp : LayerProps)
    (h : e.trueColor = none) (hc : e.color = 256) :
    (resolveColor ctx cur e lp).rgb = if lp.hasAci7 then ctx.fg else lp.color.rgb := by
  simp [resolveColor, h, hc, BYLAYER]

theorem color_byblock (ctx : Ctx) (e : EProps) (lp : LayerProps) (h : e.trueColor = none) (hc : e.color = 0) :
    (∀ c, (resolveColor ctx (some c) e lp).rgb = c.color.rgb) ∧ (resolveColor ctx none e lp).rgb = ctx.fg := by
  constructor
  · intro c; simp [resolveColor, h, hc, BYLAYER, BYBLOCK]
  · simp [resolveColor, h, hc, BYLAYER, BYBLOCK]

theorem color_explicit (ctx : Ctx) (cur : Option RProps) (e : EProps) (lp : LayerProps)
    (h : e.trueColor = none) (h1 : 0 < e.color) (h2 : e.color < 256) :
    (resolveColor ctx cur e lp).rgb = if e.color = 7 then ctx.fg else ctx.aci.getD e.color.toNat 0 := by
  have hl : e.color ≠ 256 := by omega
  have hb : e.color ≠ 0 := by omega
  simp only [resolveColor, h, BYLAYER, BYBLOCK, trueEntityColor, aciToTrue, Option.isSome_none, Bool.false_eq_true,
    if_false, hl, hb, h1, h2, and_self, if_true]
  by_cases h7 : e.color = 7
  · simp [h7]
  · have : e.color.toNat ≠ 7 := by omega
    simp [h7, this]

/-- BYLAYER takes the colour of the RESOLVED layer (the reference's layer for layer "0" content) -/
theorem bylayer_uses_resolved_layer (ctx : Ctx) (cur : Option RProps) (b f : Bool) (e : EProps) (lp : LayerProps)
    (h : e.trueColor = none) (hc : e.color = 256) (hl : ctx.lookup (layerKey (resolveLayer cur e)) = some lp) :
    (resolveAll ctx cur b f e).color.rgb = if lp.hasAci7 then ctx.fg else lp.color.rgb := by
  simp [resolveAll, hl, color_bylayer ctx cur e lp h hc]

theorem linetype_rules (cur : Option RProps) (e : EProps) (lp : LayerProps) :
    (upper e.linetype = "BYLAYER" → resolveLinetype cur e lp = lp.linetype) ∧
    (upper e.linetype = "BYBLOCK" → resolveLinetype cur e lp = (match cur with | some c => c.linetype | none => "STANDARD")) ∧
    (upper e.linetype ≠ "BYLAYER" → upper e.linetype ≠ "BYBLOCK" → resolveLinetype cur e lp = upper e.linetype) := by
  refine ⟨fun h => by simp [resolveLinetype, h], fun h => ?_, fun h1 h2 => by simp [resolveLinetype, h1, h2]⟩
  have : ("BYBLOCK" : String) ≠ "BYLAYER" := by decide
  simp only [resolveLinetype, h, if_neg this, if_true]
  cases cur <;> rfl

theorem lineweight_rules (cur : Option RProps) (e : EProps) (lp : LayerProps) :
    (1 / 100 ≤ resolveLineweight cur e lp) ∧
    (1 ≤ e.lineweight → resolveLineweight cur e lp = (e.lineweight : Rat) / 100) ∧
    (e.lineweight = -1 → 1 / 100 < lp.lineweight → resolveLineweight cur e lp = lp.lineweight) ∧
    (e.lineweight = -2 → ∀ c, cur = some c → 1 / 100 < c.lineweight → resolveLineweight cur e lp = c.lineweight) ∧
    (e.lineweight = -2 → cur = none → resolveLineweight cur e lp = 1 / 4) ∧
    (e.lineweight = -3 → resolveLineweight cur e lp = 1 / 4) := by
  have key : ∀ lw : Rat, (1 / 100 : Rat) ≤ (if (1 / 100 : Rat) < lw then lw else 1 / 100) := by
    intro lw; split_ifs with h
    · exact le_of_lt h
    · exact le_refl _
  have inv : (100 : Rat)⁻¹ = 1 / 100 := by norm_num
  refine ⟨?_, ?_, ?_, ?_, ?_, ?_⟩
  · simp only [resolveLineweight, minLineweight]; exact key _
  · intro h
    have h1 : e.lineweight ≠ -1 := by omega
    have h2 : e.lineweight ≠ -2 := by omega
    have h3 : e.lineweight ≠ -3 := by omega
    have : (1 : Rat) ≤ (e.lineweight : Rat) := by exact_mod_cast h
    simp [resolveLineweight, LINEWEIGHT_BYLAYER, LINEWEIGHT_BYBLOCK, LINEWEIGHT_DEFAULT, h1, h2, h3, minLineweight]
    intro hle; rw [inv] at *; linarith
  · intro h hlp
    simp [resolveLineweight, LINEWEIGHT_BYLAYER, h, minLineweight]
    intro hle; rw [inv] at *; linarith
  · intro h c hc hlw
    simp [resolveLineweight, LINEWEIGHT_BYLAYER, LINEWEIGHT_BYBLOCK, h, hc, minLineweight]
    intro hle; rw [inv] at *; linarith
  · intro h hc
    simp [resolveLineweight, LINEWEIGHT_BYLAYER, LINEWEIGHT_BYBLOCK, h, hc, minLineweight, defaultLineweight]
    norm_num
  · intro h
    simp [resolveLineweight, LINEWEIGHT_BYLAYER, LINEWEIGHT_BYBLOCK, LINEWEIGHT_DEFAULT, h, minLineweight, defaultLineweight]
    norm_num

/-- INSERT visibility depends on the invisible flag only -/
theorem insert_visibility_ignores_layer (ctx : Ctx) (cur : Option RProps) (f : Bool) (e : EProps) :
    (resolveAll ctx cur true f e).visible = !e.invisible := by
  simp [resolveAll, resolveVisible]

/-- an entity (not an INSERT) is hidden iff it is flagged invisible or its RESOLVED layer is off, frozen or (export) not plotted -/
theorem leaf_hidden_iff (ctx : Ctx) (cur : Option RProps) (e : EProps) :
    (resolveAll ctx cur false false e).visible = false ↔
      (e.invisible = true ∨ ∃ lp, ctx.lookup (layerKey (resolveLayer cur e)) = some lp ∧ lp.visible = false) := by
  simp only [resolveAll, resolveVisible]
  cases hl : ctx.lookup (layerKey (resolveLayer cur e)) with
  | none => simp
  | some lp =>
    cases hv : lp.visible <;> simp [hv]

theorem layer_visible_iff (fg : Nat) (aci : List Nat) (ex : Bool) (l : RawLayer) :
    (resolveLayerProps fg aci ex l).visible = true ↔
      (0 ≤ l.color ∧ l.flags &&& 1 = 0 ∧ (ex = true → l.plot = true)) := by
  cases ex <;> simp [resolveLayerProps, FROZEN]
  all_goals tauto

/-- invisible / hidden entities emit nothing and leave the state alone -/
theorem invisible_nothing (doc : Doc) (ctx : Ctx) (fuel : Nat) (es : List Ent) (st : State) :
    (∀ k p pts, (resolveAll ctx st.current false false p).visible = false →
      drawEnts doc ctx fuel (.leaf k p pts :: es) st = drawEnts doc ctx fuel es st) ∧
    (∀ i : Ins, i.props.invisible = true →
      drawEnts doc ctx fuel (.ins i :: es) st = drawEnts doc ctx fuel es st) := by
  constructor
  · intro k p pts h
    rw [drawEnts.eq_2]; simp [h]
  · intro i h
    have hv : (resolveAll ctx st.current true false i.props).visible = false := by
      simp [insert_visibility_ignores_layer, h]
    cases fuel with
    | zero => rw [drawEnts.eq_3]; simp [hv]
    | succ n => rw [drawEnts.eq_4]; simp [hv]

/-! ## ties to the constants of the live modules -/
theorem tie_constants :
    Gen.RenderTables.BYLAYER = BYLAYER ∧ Gen.RenderTables.BYBLOCK = BYBLOCK ∧ Gen.RenderTables.BYOBJECT = BYOBJECT ∧
    Gen.RenderTables.LINEWEIGHT_BYLAYER = LINEWEIGHT_BYLAYER ∧ Gen.RenderTables.LINEWEIGHT_BYBLOCK = LINEWEIGHT_BYBLOCK ∧
    Gen.RenderTables.LINEWEIGHT_DEFAULT = LINEWEIGHT_DEFAULT ∧ Gen.RenderTables.TRANSPARENCY_BYBLOCK = TRANSPARENCY_BYBLOCK ∧
    Gen.RenderTables.layerFrozenMask = FROZEN ∧ Gen.RenderTables.layerLockMask &&& FROZEN = 0 := by decide

theorem tie_lineweight :
    Gen.RenderTables.defaultLineweightExact = true ∧ (Gen.RenderTables.defaultLineweight100 : Rat) / 100 = defaultLineweight ∧
    (Gen.RenderTables.dfltLayerLineweight100 : Rat) / 100 = defaultLayer.lineweight := by
  refine ⟨by decide, ?_, ?_⟩ <;> norm_num [Gen.RenderTables.defaultLineweight100, defaultLineweight,
    Gen.RenderTables.dfltLayerLineweight100, defaultLayer]

theorem tie_layer_alpha : Gen.RenderTables.layerAlpha = List.range 256 := by decide +kernel

theorem tie_plot_styles : Gen.RenderTables.ctbAllObject = true ∧ Gen.RenderTables.aciRgb.length = 256 := by
  constructor <;> decide +kernel

theorem tie_default_layer :
    Gen.RenderTables.dfltLayerRgb = defaultLayer.color.rgb ∧ Gen.RenderTables.dfltLayerAlphaLen = 0 ∧
    defaultLayer.color.alpha = none ∧ Gen.RenderTables.dfltLayerPen = defaultLayer.pen ∧
    Gen.RenderTables.dfltLayerLinetype = defaultLayer.linetype ∧ Gen.RenderTables.dfltLayerAci7 = defaultLayer.hasAci7 ∧
    Gen.RenderTables.dfltLayerVisible = defaultLayer.visible ∧ Gen.RenderTables.dfltLayerName = defaultLayer.layer := by
  refine ⟨by decide, by decide, rfl, by decide, rfl, rfl, rfl, rfl⟩

end EzdxfVerif.Props.C18
